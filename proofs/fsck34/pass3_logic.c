/* VERIF-UNIT
{
 "name": "p34_check_root",
 "props": ["C02", "C01", "C05"],
 "level": "P",
 "tier": "quick",
 "harness": "h_check_root",
 "includes": ["e2fsck", "lib/support"],
 "unwind": 10,
 "unwind_reason": "check_root is loop-free; the harness's problem-log scan runs P3_LOG = 8 times",
 "functions": ["e2fsck/pass3.c:check_root"],
 "assumes": ["no frame enforcement (pass3.c is a large TU): effects are observed through the stubs' ghost monitors and the harness-owned ctx / fs objects",
	     "bitmaps are opaque handles: the bits of inode 2 in inode_used_map / inode_dir_map are ghost variables, marks are counted per map; ext2fs_new_block2, ext2fs_write_new_inode, ext2fs_new_dir_block, ext2fs_write_dir_block4 succeed or fail arbitrarily and record their arguments; ext2fs_iblk_set, e2fsck_add_dir_info, ext2fs_icount_store, quota_* record their arguments",
	     "fix_problem is a stub that logs (code, answer, pctx) and answers arbitrarily; the real fix_problem exits the process on the PR_FATAL codes (PR_3_ROOT_NOT_DIR_ABORT, PR_3_NO_ROOT_INODE_ABORT, PR_3_CREATE_ROOT_ERROR) — here it returns and the code's own E2F_FLAG_ABORT is checked",
	     "the re-created root is block-mapped (i_block[0] = blk without EXT4_EXTENTS_FL) — legal except on bigalloc (known finding about lost+found re-creation applies here as well); not part of this unit's statement"],
 "backend": "cadical",
 "native": false
}
*/
/* VERIF-UNIT
{
 "name": "p34_fix_dotdot_proc",
 "props": ["C01", "C05"],
 "level": "U",
 "tier": "quick",
 "harness": "h_fix_dotdot_proc",
 "replace": ["e2fsck_adjust_inode_count"],
 "includes": ["e2fsck", "lib/support"],
 "unwind": 10,
 "unwind_reason": "fix_dotdot_proc is loop-free; strncmp over 2 bytes; harness log scan 8",
 "functions": ["e2fsck/pass3.c:fix_dotdot_proc"],
 "assumes": ["the directory entry is a whole struct ext2_dir_entry with arbitrary contents (ext2fs_dir_iterate validates rec_len/name_len before calling the callback: unit group dirs)",
	     "e2fsck_adjust_inode_count (same file; own unit p34_adjust_inode_count) is replaced by a contract that counts its calls and may fail arbitrarily",
	     "no frame enforcement; the entry, the callback's private record and ctx are harness objects compared before/after"],
 "backend": "cadical",
 "native": false
}
*/
/* VERIF-UNIT
{
 "name": "p34_adjust_inode_count",
 "props": ["C01", "C05"],
 "level": "U",
 "tier": "quick",
 "harness": "h_adjust",
 "includes": ["e2fsck", "lib/support"],
 "unwind": 10,
 "unwind_reason": "e2fsck_adjust_inode_count is loop-free",
 "functions": ["e2fsck/pass3.c:e2fsck_adjust_inode_count"],
 "assumes": ["ext2fs_read_inode / ext2fs_write_inode / ext2fs_icount_increment / ext2fs_icount_decrement are stubs (arbitrary inode contents, arbitrary failures of read/write, recorded arguments)",
	     "no frame enforcement"],
 "backend": "cadical",
 "native": false
}
*/
/* VERIF-UNIT
{
 "name": "p34_reconnect_file",
 "props": ["C01", "C02"],
 "level": "P",
 "tier": "quick",
 "harness": "h_reconnect",
 "replace": ["e2fsck_adjust_inode_count", "e2fsck_get_lost_and_found", "e2fsck_expand_directory"],
 "includes": ["e2fsck", "lib/support"],
 "unwind": 10,
 "unwind_reason": "e2fsck_reconnect_file is loop-free; the ext2fs_link stub copies 6 name bytes; the harness scans 8 log slots",
 "functions": ["e2fsck/pass3.c:e2fsck_reconnect_file"],
 "assumes": ["e2fsck_get_lost_and_found (same file) is replaced by a contract: it returns 0 or a non-zero inode number which is then ctx->lost_and_found; when it returns 0 it may leave anything in ctx->lost_and_found (the real one stores EXT2_ROOT_INO there on the no-space path)",
	     "e2fsck_expand_directory, e2fsck_adjust_inode_count (same file, own units) are replaced by call-counting contracts with arbitrary results",
	     "ext2fs_link is a stub: succeeds, fails with EXT2_ET_DIR_NO_SPACE or with another error, arbitrarily; records directory, name (first 16 bytes), inode and flags of up to 3 calls",
	     "sprintf(name, \"#%u\", ino) is variadic: mapped by macro to a fixed-arity stand-in that checks the format string is \"#%u\", records the argument and writes an injective encoding of it (the decimal conversion is the C library's); the statement 'name is #<ino>' is: format \"#%u\", argument ino, and the buffer sprintf filled is the name handed to ext2fs_link; ext2_file_type (e2fsck/util.c, pure) returns an arbitrary value that must be passed through",
	     "the statement does not cover whether lost+found itself is healthy (e2fsck_get_lost_and_found)"],
 "backend": "cadical",
 "native": false
}
*/
/* VERIF-UNIT
{
 "name": "p34_check_directory_walk",
 "props": ["C02", "C01", "C05"],
 "level": "U/iter",
 "tier": "quick",
 "harness": "h_check_directory",
 "loop_contracts": true,
 "replace": ["e2fsck_reconnect_file", "fix_dotdot"],
 "includes": ["e2fsck", "lib/support"],
 "unwind": 10,
 "unwind_reason": "the parent-chain walk of check_directory is cut by the in-place named anchor VERIF_INV_PASS3_CHECK_DIRECTORY (invariant text in this unit: safety facts only — loop_pass is 0/1 and mirrors the ghost flag, parent_count in 0..2050, nothing reconnected / no '..' fixed before the walk ends); every statement is about ONE step of the walk from an arbitrary state satisfying the invariant (U/iter) and about the code behind the loop; termination of the walk is NOT shown",
 "functions": ["e2fsck/pass3.c:check_directory"],
 "assumes": ["dirinfo is an abstract map: e2fsck_dir_info_get_parent / get_dotdot are stubs (ghost entry for the ghost inode k, arbitrary answers otherwise); inode_done_map / inode_loop_detect are opaque handles with a ghost bit for inode k",
	     "e2fsck_reconnect_file and fix_dotdot (same file, own units p34_reconnect_file / p34_fix_dotdot_proc) are replaced by recording contracts; reconnect returns 0 only with ctx->lost_and_found != 0",
	     "fix_problem stub answers arbitrarily; per-step monitors are reset by the e2fsck_dir_info_get_parent stub (called once at the top of every step)",
	     "NOT stated here: that a walk which comes back to an inode it marked itself is reported (it is not — finding C02_p34_detached_dir_cycle, unit p34_check_directory_cycle)",
	     "needs the hook of hooks-pending/p34.diff (named anchor in e2fsck/pass3.c)"],
 "backend": "cadical",
 "native": false
}
*/
/* VERIF-UNIT
{
 "name": "p34_check_directory_cycle",
 "props": ["C02"],
 "level": "U/iter",
 "tier": "quick",
 "harness": "h_check_directory_cycle",
 "loop_contracts": true,
 "replace": ["e2fsck_reconnect_file", "fix_dotdot"],
 "includes": ["e2fsck", "lib/support"],
 "unwind": 10,
 "unwind_reason": "as p34_check_directory_walk",
 "functions": ["e2fsck/pass3.c:check_directory"],
 "assumes": ["as p34_check_directory_walk",
	     "FAILS ON THE TREE (genuine defect, findings/C02_p34_detached_dir_cycle): the walk may end silently at an inode whose 'done' bit it set itself — a directory cycle that is not connected to the root is accepted without any report"],
 "backend": "cadical",
 "native": false
}
*/
/*
 * e2fsck/pass3.c — the decisions of pass 3, per object.
 *
 * check_root (C02 "every in-use inode is reachable from the root" needs a root; C01; C05):
 *     root inode in use and a directory: nothing is asked, nothing is written, no flag changes (C05);
 *     in use but not a directory: PR_3_ROOT_NOT_DIR_ABORT is raised and the run is aborted, nothing written;
 *     not in use: PR_3_NO_ROOT_INODE is raised; declined: PR_3_NO_ROOT_INODE_ABORT + abort, nothing written or marked;
 *     accepted: either the run is aborted after PR_3_CREATE_ROOT_ERROR, or a root directory has been created:
 *     inode 2 written (before its directory block: metadata_csum needs the inode first) as a directory 040755 with
 *     i_links_count 2, i_size one block, i_block[0] the new block, i_blocks set for 1 block; a fresh directory block
 *     with '.' = '..' = 2 written to that block; the block marked in fs->block_map and in block_found_map (unless it is
 *     the block pass 1 reserved: root_repair_block, already in block_found_map); inode 2 marked in inode_used_map,
 *     inode_dir_map and fs->inode_map, both bitmaps dirty; both counts (found and recorded links) stored as 2; dirinfo
 *     (2, parent 2) added.
 *
 * fix_dotdot_proc (C01: after reparenting, '..' names the new parent and the counts follow; C05: other entries untouched):
 *     an entry that is not named ".." (name_len != 2 or other bytes): returns 0, not one byte of the entry changes, no
 *     count is adjusted;  the ".." entry: inode := new parent, rec_len, name_len and name unchanged, file type :=
 *     EXT2_FT_DIR when the filetype feature is on, else 0 (format: the high byte of name_len is the type only with the
 *     feature); the old target's counts are adjusted by -1 and the new parent's by +1, once each; DIRENT_CHANGED (and
 *     DIRENT_ABORT) returned so that the block is written back.
 *
 * e2fsck_adjust_inode_count: +1 increments the found-count; unless i_links_count is already 65535 it also increments
 *     the recorded count and writes i_links_count + 1; -1 symmetric with 0; ino 0: nothing; other inode fields untouched.
 *
 * e2fsck_reconnect_file (P): returns 0 exactly when ONE ext2fs_link succeeded, and then the counts were adjusted by +1
 *     exactly once, after the link; every link attempt goes into ctx->lost_and_found (non-zero) under the name "#<ino>"
 *     (decimal) with the file type derived from the inode's mode (0 when the inode cannot be read); a second attempt
 *     only after EXT2_ET_DIR_NO_SPACE, accepted PR_3_EXPAND_LF_DIR and a successful expansion of lost+found; returns 1
 *     otherwise, with a problem reported and no count adjusted.
 *
 * check_directory, one step of the parent walk (U/iter) and the '..' check:
 *     the inode of the step is marked done; a directory without dirinfo: PR_3_NO_DIRINFO and the function returns;
 *     parent 0 => PR_3_UNCONNECTED_DIR raised for this inode; in the loop-detection pass, parent already seen =>
 *     PR_3_LOOPED_DIR; accepted => e2fsck_reconnect_file(that inode) once; success => fix_dotdot(inode, lost+found);
 *     failure => filesystem un-marked valid; declined => neither;  otherwise the walk continues with the parent, never
 *     with inode 0;  behind the loop: '..' != parent <=> PR_3_BAD_DOT_DOT raised (ino, ino2 = '..', dir = parent);
 *     accepted => fix_dotdot(dir, parent); equal => no report, no fix (C05).
 */
#include "verif.h"

#define P3_NCHOICE 40u
struct in_p3 {
	unsigned char root_used, root_dir;
	unsigned int options, ctxflags, fsflags;
	unsigned long long root_repair_block, new_block;
	unsigned int blocksize;
	long long now;
	unsigned int feature_incompat;
	unsigned int lost_and_found; int bad_lnf;
	/* fix_dotdot_proc */
	unsigned char de[sizeof(unsigned int) * 2 + 256];
	unsigned int parent;
	int done0;
	unsigned int byte_k;
	/* adjust / reconnect */
	unsigned char inode[128];
	unsigned int ino; int adj;
	int ft;
	/* check_directory */
	unsigned int dir, k, parent_of_k, other_parent[4], dotdot;
	unsigned char k_done, k_loop, k_noinfo;
	unsigned char choice[P3_NCHOICE];
};
struct in_p3 IN;
#include "verif_in.h"

#define _GNU_SOURCE 1
#include "config.h"
#include <string.h>
#include <stdio.h>
#include "e2fsck.h"

/* ---- opaque handles ---- */
static char T_USED, T_DIRMAP, T_FOUND, T_BMAP, T_IMAP, T_DONE, T_LOOP, T_ICOUNT, T_LINKINFO;
#define H_USED		((ext2fs_inode_bitmap) (void *) &T_USED)
#define H_DIRMAP	((ext2fs_inode_bitmap) (void *) &T_DIRMAP)
#define H_FOUND		((ext2fs_block_bitmap) (void *) &T_FOUND)
#define H_BMAP		((ext2fs_block_bitmap) (void *) &T_BMAP)
#define H_IMAP		((ext2fs_inode_bitmap) (void *) &T_IMAP)
#define H_DONE		((ext2fs_inode_bitmap) (void *) &T_DONE)
#define H_LOOP		((ext2fs_inode_bitmap) (void *) &T_LOOP)
#define H_ICOUNT	((ext2_icount_t) (void *) &T_ICOUNT)
#define H_LINKINFO	((ext2_icount_t) (void *) &T_LINKINFO)

/* ---- ghost state of the replaced callees (declared before the contracts) ---- */
unsigned int p3_adj_calls;		/* calls of e2fsck_adjust_inode_count */
unsigned int p3_adj_dec_hit;		/* ... with (g_adj_dec_ino, -1) */
unsigned int p3_adj_inc_hit;		/* ... with (g_adj_inc_ino, +1) */
unsigned int p3_adj_inc_ev;		/* event number of the last such call */
ext2_ino_t g_adj_dec_ino, g_adj_inc_ino;
extern unsigned int p3_ev;
unsigned int p3_glf_calls, p3_exp_calls; ext2_ino_t p3_exp_dir;
unsigned int p3_rc_calls; ext2_ino_t p3_rc_ino;
unsigned int p3_fdd_calls; ext2_ino_t p3_fdd_ino, p3_fdd_parent;
/* per-step monitors of check_directory */
unsigned char g_loop_pass;		/* ghost mirror of the local loop_pass (set by the loop-bitmap stubs) */
ext2_ino_t it_ino, it_parent; unsigned char it_valid, it_noinfo;
unsigned int it_probs; unsigned int it_code; unsigned char it_ans; ext2_ino_t it_pino, it_pdir;
unsigned int dd_raised; unsigned char dd_ans; ext2_ino_t dd_ino, dd_ino2, dd_dir;
unsigned char it_parent_seen;		/* loop-detection bit of the step's parent when the step looked at it */
unsigned char g_after_loop, g_cycle_obs;
unsigned int al_other; unsigned char al_dd_ok, al_gp_ok; ext2_ino_t al_parent;

errcode_t e2fsck_adjust_inode_count(e2fsck_t ctx, ext2_ino_t ino, int adj)
	ASSIGNS(p3_adj_calls, p3_adj_dec_hit, p3_adj_inc_hit, p3_adj_inc_ev, p3_ev)
	ENSURES(p3_adj_calls == OLD(p3_adj_calls) + 1)
	ENSURES(p3_ev == OLD(p3_ev) + 1)
	ENSURES(p3_adj_dec_hit == OLD(p3_adj_dec_hit) + ((ino == g_adj_dec_ino && adj == -1) ? 1 : 0))
	ENSURES(p3_adj_inc_hit == OLD(p3_adj_inc_hit) + ((ino == g_adj_inc_ino && adj == 1) ? 1 : 0))
	ENSURES((ino == g_adj_inc_ino && adj == 1) ? p3_adj_inc_ev == p3_ev : p3_adj_inc_ev == OLD(p3_adj_inc_ev));

ext2_ino_t e2fsck_get_lost_and_found(e2fsck_t ctx, int fix)
	ASSIGNS(ctx->lost_and_found, p3_glf_calls)
	ENSURES(p3_glf_calls == OLD(p3_glf_calls) + 1)
	ENSURES(RET == 0 || RET == ctx->lost_and_found);

errcode_t e2fsck_expand_directory(e2fsck_t ctx, ext2_ino_t dir, int num, int guaranteed_size)
	ASSIGNS(p3_exp_calls, p3_exp_dir)
	ENSURES(p3_exp_calls == OLD(p3_exp_calls) + 1 && p3_exp_dir == dir);

int e2fsck_reconnect_file(e2fsck_t ctx, ext2_ino_t ino)
	ASSIGNS(p3_rc_calls, p3_rc_ino, ctx->lost_and_found, ctx->bad_lost_and_found)
	ENSURES(p3_rc_calls == OLD(p3_rc_calls) + 1 && p3_rc_ino == ino)
	ENSURES(RET == 0 || RET == 1)
	ENSURES(RET == 0 ==> ctx->lost_and_found != 0);

static void fix_dotdot(e2fsck_t ctx, ext2_ino_t ino, ext2_ino_t parent)
	ASSIGNS(p3_fdd_calls, p3_fdd_ino, p3_fdd_parent)
	ENSURES(p3_fdd_calls == OLD(p3_fdd_calls) + 1 && p3_fdd_ino == ino && p3_fdd_parent == parent);

/* ghost state of the stubs (defined in p3_common.h) that the cut loop may change */
extern unsigned int p3_nchoice, p3_done_marks, p3_gp_calls, p3_mark_other;
extern unsigned char g_k_done, g_k_marked_here, g_k_loop, g_k_done_before;
/* problem log */
#define P3_LOG 8u
unsigned int p3_nlog;
unsigned int p3_code[P3_LOG];
unsigned char p3_ans[P3_LOG];
ext2_ino_t p3_pino[P3_LOG], p3_pdir[P3_LOG], p3_pino2[P3_LOG];

#define VERIF_INV_PASS3_CHECK_DIRECTORY \
	__CPROVER_assigns(ino, parent, loop_pass, parent_count, inode_loop_detect, \
			  pctx->ino, pctx->dir, pctx->errcode, pctx->num, ctx->flags, fs->flags, \
			  ctx->lost_and_found, ctx->bad_lost_and_found, \
			  p3_nchoice, p3_nlog, __CPROVER_object_whole(p3_code), __CPROVER_object_whole(p3_ans), \
			  __CPROVER_object_whole(p3_pino), __CPROVER_object_whole(p3_pdir), __CPROVER_object_whole(p3_pino2), \
			  p3_done_marks, p3_gp_calls, p3_mark_other, g_k_done, g_k_marked_here, g_k_loop, g_loop_pass, \
			  it_ino, it_parent, it_valid, it_noinfo, it_probs, it_code, it_ans, it_pino, it_pdir, it_parent_seen, \
			  dd_raised, dd_ans, dd_ino, dd_ino2, dd_dir, \
			  p3_rc_calls, p3_rc_ino, p3_fdd_calls, p3_fdd_ino, p3_fdd_parent) \
	__CPROVER_loop_invariant(loop_pass == 0 || loop_pass == 1) \
	__CPROVER_loop_invariant(loop_pass == (int) g_loop_pass) \
	__CPROVER_loop_invariant(0 <= parent_count && parent_count <= 2050 && (loop_pass == 0 ==> parent_count <= 2049)) \
	__CPROVER_loop_invariant(inode_loop_detect == 0 || inode_loop_detect == H_LOOP) \
	__CPROVER_loop_invariant(loop_pass ==> inode_loop_detect == H_LOOP) \
	__CPROVER_loop_invariant(ino != 0) \
	__CPROVER_loop_invariant(g_k_marked_here ==> g_k_done) \
	__CPROVER_loop_invariant(g_k_done_before ==> (g_k_done && !g_k_marked_here)) \
	__CPROVER_loop_invariant(p3_rc_calls == 0 && p3_fdd_calls == 0 && dd_raised == 0)


#define sprintf(buf, fmt, v) p3_sprintf_u(buf, fmt, v)
static int p3_sprintf_u(char *buf, const char *fmt, unsigned int v);
#include "e2fsck/pass3.c"
#undef sprintf

#include "p3_common.h"

/* ================= check_root ================= */
void h_check_root(void)
{
	LOAD_IN();
	ASSUME(IN.blocksize == 1024 || IN.blocksize == 2048 || IN.blocksize == 4096 || IN.blocksize == 65536);
	ASSUME(IN.new_block != 0);
	p3_world();

	check_root(&CTX);

	if (IN.root_used & 1) {
		if (IN.root_dir & 1) {
			REACH("healthy root");
			CHECK(p3_nlog == 0, "healthy root: nothing is reported");
			CHECK(CTX.flags == IN.ctxflags && FS.flags == IN.fsflags, "healthy root: no flag changes");
		} else {
			REACH("root not a directory");
			CHECK(p3_nlog == 1 && p3_code[0] == PR_3_ROOT_NOT_DIR_ABORT && (CTX.flags & E2F_FLAG_ABORT),
			      "root in use but not a directory: reported, run aborted");
		}
		CHECK(p3_wni == 0 && p3_wdb == 0 && p3_newblk_calls == 0 && p3_mark_used + p3_mark_dir + p3_mark_imap +
		      p3_mark_found + p3_mark_bmap + p3_mark_other == 0 && p3_store[0] + p3_store[1] == 0 && p3_adi == 0,
		      "root inode in use: nothing written, marked, stored");
	} else {
		CHECK(p3_nlog >= 1 && p3_code[0] == PR_3_NO_ROOT_INODE, "root inode not in use: PR_3_NO_ROOT_INODE raised first");
		if (!p3_ans[0]) {
			REACH("no root, declined");
			CHECK(p3_nlog == 2 && p3_code[1] == PR_3_NO_ROOT_INODE_ABORT && (CTX.flags & E2F_FLAG_ABORT),
			      "declined: cannot continue without a root");
			CHECK(p3_wni == 0 && p3_wdb == 0 && p3_mark_used + p3_mark_dir + p3_mark_imap + p3_mark_found +
			      p3_mark_bmap + p3_mark_other == 0 && p3_store[0] + p3_store[1] == 0 && p3_adi == 0,
			      "declined: nothing written, marked, stored");
		} else if ((CTX.flags & E2F_FLAG_ABORT) && !(IN.ctxflags & E2F_FLAG_ABORT)) {
			REACH("no root, creation failed");
			CHECK(p3_nlog == 2 && p3_code[1] == PR_3_CREATE_ROOT_ERROR, "creation failed: PR_3_CREATE_ROOT_ERROR raised");
			CHECK(p3_store[0] + p3_store[1] == 0 && p3_mark_used == 0 && p3_mark_dir == 0,
			      "creation failed: the in-memory state does not claim a root");
		} else if (!(IN.ctxflags & E2F_FLAG_ABORT)) {
			unsigned long long blk = IN.root_repair_block ? IN.root_repair_block : IN.new_block;

			REACH("root created");
			CHECK(p3_nlog == 1, "created: nothing else reported");
			CHECK(p3_newblk_calls == (IN.root_repair_block == 0),
			      "a new block is allocated unless pass 1 has reserved one (root_repair_block)");
			CHECK(CTX.root_repair_block == 0, "the reserved block is consumed");
			CHECK(p3_mark_bmap == 1 && p3_mark_bmap_blk == blk && (FS.flags & EXT2_FLAG_BB_DIRTY) && (FS.flags & EXT2_FLAG_CHANGED),
			      "the block is marked in the filesystem's block bitmap, bitmap dirty");
			if (IN.root_repair_block == 0)
				CHECK(p3_mark_found == 1 && p3_mark_found_blk == blk, "a newly allocated block is marked in block_found_map");
			CHECK(p3_wni == 1 && p3_wni_ino == EXT2_ROOT_INO, "inode 2 written once");
			CHECK(p3_wni_inode.i_mode == 040755 && p3_wni_inode.i_links_count == 2 && p3_wni_inode.i_size == IN.blocksize &&
			      p3_wni_inode.i_dtime == 0 &&
			      (ext2fs_has_feature_extents(FS.super)
			       ? (p3_wni_inode.i_flags == EXT4_EXTENTS_FL && p3_wni_inode.i_block[0] == 0 &&
				  p3_bmap2 == 1 && p3_bmap2_ino == EXT2_ROOT_INO && p3_bmap2_blk == blk)
			       : (p3_wni_inode.i_block[0] == (__u32) blk && p3_wni_inode.i_flags == 0 && p3_bmap2 == 0)),
			      "the new root is a directory 0755 with 2 links, one block of size; the block is mapped through i_block[0] without, through ext2fs_bmap2 on an EXTENTS_FL inode with the extents feature");
			CHECK(p3_wni_inode.i_block[1] == 0 && p3_wni_inode.i_block[14] == 0 && p3_wni_inode.i_size_high == 0,
			      "no other mapping, size one block");
			CHECK(p3_iblk_set == 1 && p3_iblk_val == 1, "i_blocks set for one block");
			CHECK(p3_ndb == 1 && p3_ndb_ino == EXT2_ROOT_INO && p3_ndb_parent == EXT2_ROOT_INO,
			      "the directory block is a fresh one with '.' = '..' = 2");
			CHECK(p3_wdb == 1 && p3_wdb_blk == blk && p3_wdb_ino == EXT2_ROOT_INO, "written to the block the inode maps");
			CHECK(p3_wni_ev < p3_wdb_ev, "inode before directory block (checksum seed)");
			CHECK(p3_mark_used == 1 && p3_mark_dir == 1 && p3_mark_imap == 1 && g_root_used && g_root_dir &&
			      (FS.flags & EXT2_FLAG_IB_DIRTY), "inode 2 marked in inode_used_map, inode_dir_map and fs->inode_map");
			CHECK(p3_store[0] == 1 && p3_store[1] == 1 && p3_store_val[0] == 2 && p3_store_val[1] == 2 &&
			      p3_store_ino[0] == EXT2_ROOT_INO && p3_store_ino[1] == EXT2_ROOT_INO,
			      "found and recorded link counts of the root are both 2 (pass 4 will agree)");
			CHECK(p3_adi == 1 && p3_adi_ino == EXT2_ROOT_INO && p3_adi_parent == EXT2_ROOT_INO, "dirinfo: root is its own parent");
		}
	}
	REACH("end");
}

/* ================= fix_dotdot_proc ================= */
void h_fix_dotdot_proc(void)
{
	struct fix_dotdot_struct fp;
	union { struct ext2_dir_entry d; unsigned char b[sizeof(struct ext2_dir_entry)]; } e, e0;
	int r, is_dotdot;

	LOAD_IN();
	p3_world();
	p3_adj_calls = p3_adj_dec_hit = p3_adj_inc_hit = p3_adj_inc_ev = 0;
	memcpy(e.b, IN.de, sizeof(e.b));
	e0 = e;
	fp.fs = &FS; fp.parent = IN.parent; fp.done = IN.done0; fp.ctx = &CTX;
	ASSUME(IN.done0 >= 0 && IN.done0 < 1000);
	ASSUME(IN.byte_k < sizeof(e.b));
	g_adj_dec_ino = e0.d.inode;
	g_adj_inc_ino = IN.parent;
	/* independent reading of the entry: name_len is the low byte of the 16-bit field, the name follows at offset 8 */
	is_dotdot = e0.b[6] == 2 && e0.b[8] == '.' && e0.b[9] == '.';

	r = fix_dotdot_proc(&e.d, 0, (int) IN.blocksize, 0, &fp);

	if (!is_dotdot) {
		REACH("other entry");
		CHECK(r == 0, "an entry that is not '..' is passed over");
		CHECK(e.b[IN.byte_k] == e0.b[IN.byte_k], "an entry that is not '..' is not changed in any byte");
		CHECK(p3_adj_calls == 0 && fp.done == IN.done0 && p3_nlog == 0, "no count adjusted, nothing reported");
	} else {
		REACH("dotdot entry");
		CHECK(e.d.inode == IN.parent, "'..' now names the new parent");
		CHECK(e.d.rec_len == e0.d.rec_len, "rec_len preserved");
		CHECK(e.b[6] == 2 && e.b[8] == '.' && e.b[9] == '.', "name and name length preserved");
		CHECK(e.b[7] == ((IN.feature_incompat & EXT2_FEATURE_INCOMPAT_FILETYPE) ? EXT2_FT_DIR : 0),
		      "file type byte: directory with the filetype feature, 0 without");
		if (IN.byte_k >= 10)
			CHECK(e.b[IN.byte_k] == e0.b[IN.byte_k], "bytes behind the name untouched");
		CHECK((r & DIRENT_CHANGED) && (r & DIRENT_ABORT) && !(r & ~(DIRENT_CHANGED | DIRENT_ABORT)),
		      "the block is written back (DIRENT_CHANGED) and the scan ends");
		CHECK(fp.done == IN.done0 + 1, "reported as done");
		CHECK(p3_adj_calls == 2 && (e0.d.inode == IN.parent ? (p3_adj_dec_hit == 1 && p3_adj_inc_hit == 1) :
		      (p3_adj_dec_hit == 1 && p3_adj_inc_hit == 1)),
		      "counts: old target -1, new parent +1, once each");
		CHECK(p3_raised(PR_3_ADJUST_INODE) == p3_nlog, "only count-adjustment errors are reported");
	}
	CHECK(fp.parent == IN.parent && fp.ctx == &CTX && fp.fs == &FS, "the callback's record is otherwise unchanged");
	REACH("end");
}

/* ================= e2fsck_adjust_inode_count ================= */
void h_adjust(void)
{
	errcode_t r;
	unsigned int l0;

	LOAD_IN();
	p3_world();
	l0 = g_inode.i_links_count;

	r = e2fsck_adjust_inode_count(&CTX, IN.ino, IN.adj);

	if (IN.ino == 0) {
		CHECK(r == 0 && p3_ri == 0 && p3_wi == 0 && p3_inc[0] + p3_inc[1] + p3_dec[0] + p3_dec[1] == 0, "inode 0: nothing");
	} else if (p3_ri_failed) {
		REACH("read failed");
		CHECK(r != 0 && p3_wi == 0 && p3_inc[0] + p3_inc[1] + p3_dec[0] + p3_dec[1] == 0, "unreadable inode: error, nothing counted");
	} else if (IN.adj == 1) {
		REACH("plus one");
		CHECK(p3_inc[0] == 1 && p3_dec[0] + p3_dec[1] == 0 && !p3_cnt_ino_bad && p3_cnt_ino == IN.ino, "+1: found-count incremented once");
		if (l0 == 65535) {
			REACH("saturated");
			CHECK(p3_inc[1] == 0 && p3_wi == 0 && r == 0, "+1 at 65535: recorded count and i_links_count stay (no wrap to 0)");
		} else {
			CHECK(p3_inc[1] == 1 && p3_wi == 1 && p3_wi_ino == IN.ino && p3_wi_inode.i_links_count == l0 + 1,
			      "+1: recorded count incremented, i_links_count + 1 written");
		}
	} else if (IN.adj == -1) {
		REACH("minus one");
		CHECK(p3_dec[0] == 1 && p3_inc[0] + p3_inc[1] == 0 && !p3_cnt_ino_bad && p3_cnt_ino == IN.ino, "-1: found-count decremented once");
		if (l0 == 0)
			CHECK(p3_dec[1] == 0 && p3_wi == 0 && r == 0, "-1 at 0: recorded count and i_links_count stay");
		else
			CHECK(p3_dec[1] == 1 && p3_wi == 1 && p3_wi_ino == IN.ino && p3_wi_inode.i_links_count == l0 - 1,
			      "-1: recorded count decremented, i_links_count - 1 written");
	}
	if (p3_wi) {
		p3_wi_inode.i_links_count = (__u16) l0;
		CHECK(((unsigned char *) &p3_wi_inode)[IN.byte_k & 127] == ((unsigned char *) &g_inode)[IN.byte_k & 127],
		      "no other field of the inode changes");
	}
	CHECK(p3_nlog == 0, "nothing reported at this level");
	REACH("end");
}

/* ================= e2fsck_reconnect_file ================= */
static int p3_name_is(const char *name, unsigned int ino)
{
	/* the name handed to ext2fs_link is what sprintf("#%u", ino) produced (see the stand-in in p3_common.h) */
	return p3_spf_calls == 1 && p3_spf_val == ino && name[0] == '#' && (unsigned char) name[1] == (ino & 255) &&
	       (unsigned char) name[2] == ((ino >> 8) & 255) && (unsigned char) name[3] == ((ino >> 16) & 255) &&
	       (unsigned char) name[4] == (ino >> 24) && name[5] == 0;
}

void h_reconnect(void)
{
	int r;
	unsigned int i, n;

	LOAD_IN();
	p3_world();
	p3_adj_calls = p3_adj_dec_hit = p3_adj_inc_hit = p3_adj_inc_ev = 0;
	p3_glf_calls = p3_exp_calls = 0; p3_exp_dir = 0;
	g_adj_dec_ino = 0;
	g_adj_inc_ino = IN.ino;
	ASSUME(IN.ino != 0);
	ASSUME(IN.bad_lnf >= 0 && IN.bad_lnf < 1000);

	r = e2fsck_reconnect_file(&CTX, IN.ino);

	CHECK(r == 0 || r == 1, "result is a flag");
	CHECK(p3_nlink <= 2, "at most two link attempts");
	n = p3_nlink;
	for (i = 0; i < 2; i++) {
		if (i >= n)
			break;
		CHECK(p3_link_dir[i] != 0 && p3_link_dir[i] == CTX.lost_and_found, "links go into lost+found");
		CHECK(p3_link_ino[i] == IN.ino, "the inode linked is the one asked for");
		CHECK(p3_name_is(p3_link_name[i], IN.ino), "the name is #<inode number>");
		CHECK(p3_ri == 1 && p3_ri_ino == IN.ino, "the inode was read (for its type)");
		CHECK(p3_ri_failed ? p3_link_flags[i] == 0 : (p3_ft_calls == 1 && p3_ft_mode == g_inode.i_mode && p3_link_flags[i] == IN.ft),
		      "file type of the entry: derived from the inode's mode; 0 when the inode is unreadable");
		CHECK(p3_adj_at_link[i] == 0, "no count is adjusted before a link exists");
	}
	if (n == 2) {
		REACH("second attempt");
		CHECK(p3_link_ret[0] == EXT2_ET_DIR_NO_SPACE && p3_nlog >= 1 && p3_code[0] == PR_3_EXPAND_LF_DIR && p3_ans[0] &&
		      p3_exp_calls == 1 && p3_exp_dir == CTX.lost_and_found,
		      "a second attempt only after 'no space', accepted PR_3_EXPAND_LF_DIR and an expansion of lost+found");
	}
	if (r == 0) {
		REACH("reconnected");
		CHECK(p3_link_ok == 1 && n >= 1 && p3_link_ret[n - 1] == 0, "success: exactly one link was made, the last attempt");
		CHECK(p3_adj_calls == 1 && p3_adj_inc_hit == 1, "success: the counts of the inode are adjusted by +1 exactly once");
		CHECK(p3_raised(PR_3_NO_LPF) + p3_raised(PR_3_CANT_RECONNECT) + p3_raised(PR_3_CANT_EXPAND_LPF) == 0,
		      "success: no failure reported");
	} else {
		REACH("not reconnected");
		CHECK(p3_link_ok == 0, "failure: no link was made");
		CHECK(p3_adj_calls == 0, "failure: no count adjusted");
		CHECK(p3_nlog >= 1, "failure: a problem is reported");
		CHECK(p3_raised(PR_3_NO_LPF) + p3_raised(PR_3_CANT_RECONNECT) + p3_raised(PR_3_CANT_EXPAND_LPF) == 1 ||
		      (p3_nlog == 1 && p3_code[0] == PR_3_EXPAND_LF_DIR && !p3_ans[0]),
		      "failure: exactly one of NO_LPF / CANT_EXPAND_LPF / CANT_RECONNECT, or the declined PR_3_EXPAND_LF_DIR");
	}
	if (n == 0)
		CHECK(r == 1 && p3_raised(PR_3_NO_LPF) == 1, "no attempt only without a usable lost+found");
	REACH("end");
}

/* ================= check_directory ================= */
static void cd_common(int cycle_obs)
{
	struct problem_context pctx;
	int r;

	LOAD_IN();
	ASSUME(IN.dir != 0 && IN.k != 0);
	ASSUME(!(IN.k_noinfo & 1) || 1);
	p3_world();
	p3_rc_calls = p3_fdd_calls = 0; p3_rc_ino = p3_fdd_ino = p3_fdd_parent = 0;
	g_loop_pass = 0; g_after_loop = 0; al_other = 0; al_dd_ok = al_gp_ok = 0; al_parent = 0; g_cycle_obs = (unsigned char) cycle_obs;
	it_ino = it_parent = 0; it_valid = it_noinfo = 0; it_probs = 0; it_code = 0; it_ans = 0; it_pino = it_pdir = 0;
	it_parent_seen = 0;
	dd_raised = 0; dd_ans = 0; dd_ino = dd_ino2 = dd_dir = 0;
	inode_done_map = H_DONE;
	inode_loop_detect = (IN.choice[P3_NCHOICE - 1] & 1) ? H_LOOP : 0;
	clear_problem_context(&pctx);

	r = check_directory(&CTX, IN.dir, &pctx);

	CHECK(r == 0 || r == -1, "result");
	if (r == -1) {
		REACH("bitmap allocation failed");
		CHECK((CTX.flags & E2F_FLAG_ABORT), "no loop-detection bitmap: run aborted");
	}
	/* the last step of the walk */
	if (it_valid && !it_noinfo && r == 0) {
		if (it_parent == 0) {
			REACH("unconnected");
			CHECK(it_probs == 1 && it_code == PR_3_UNCONNECTED_DIR && it_pino == it_ino,
			      "a directory without a parent is reported as unconnected, under its own number");
		}
		if (it_parent != 0 && it_parent_seen) {
			REACH("looped");
			CHECK(it_probs == 1 && it_code == PR_3_LOOPED_DIR && it_pino == it_ino && it_pdir == it_parent,
			      "loop-detection pass: a parent already seen on this walk is reported as a loop");
		}
		if (it_probs == 1 && (it_code == PR_3_UNCONNECTED_DIR || it_code == PR_3_LOOPED_DIR)) {
			CHECK(it_parent == 0 || it_parent_seen, "unconnected/looped is only reported for one of these two reasons");
			if (it_ans) {
				CHECK(p3_rc_calls == 1 && p3_rc_ino == it_ino, "accepted: that directory is reconnected, once");
				CHECK(!(FS.flags & EXT2_FLAG_VALID) || p3_fdd_calls - (dd_raised && dd_ans) == 1,
				      "accepted: either '..' is re-pointed or the filesystem is un-marked valid");
			} else {
				CHECK(p3_rc_calls == 0 && p3_fdd_calls == (dd_raised && dd_ans), "declined: not reconnected");
			}
		}
		if (it_probs == 0)
			CHECK(p3_rc_calls == 0, "no report, no reconnection");
	}
	if (it_valid && it_noinfo) {
		REACH("no dirinfo");
		CHECK(it_probs == 1 && it_code == PR_3_NO_DIRINFO && r == 0 && !g_after_loop, "a directory without dirinfo is reported; the function gives up on it");
	}
	if (cycle_obs && r == 0 && g_k_marked_here && !it_valid) {
		/* cannot happen: it_valid is set by every step that gets past the done test */
	}
	/* the '..' check behind the loop */
	if (g_after_loop && al_dd_ok && al_gp_ok) {
		if (IN.dotdot != al_parent) {
			REACH("dotdot differs");
			CHECK(dd_raised == 1 && dd_ino == IN.dir && dd_ino2 == IN.dotdot && dd_dir == al_parent,
			      "'..' differs from the parent recorded in pass 2: PR_3_BAD_DOT_DOT raised with both");
			if (!dd_ans)
				CHECK(p3_fdd_calls == (p3_rc_calls != 0 && p3_fdd_calls != 0 && p3_fdd_ino == it_ino),
				      "declined: '..' not rewritten");
		} else {
			REACH("dotdot agrees");
			CHECK(dd_raised == 0 && al_other == 0, "'..' agrees with the parent: nothing reported (C05)");
			CHECK(p3_fdd_calls == 0 || p3_rc_calls == 1, "'..' agrees: not rewritten (except by a reconnection in the walk)");
		}
	}
	if (g_after_loop && !(al_dd_ok && al_gp_ok))
		CHECK(al_other == 1 && dd_raised == 0, "no dirinfo behind the loop: PR_3_NO_DIRINFO");
	if (dd_raised) {
		REACH("bad dotdot");
		CHECK(dd_raised == 1 && dd_ino == IN.dir && dd_ino2 != dd_dir, "PR_3_BAD_DOT_DOT: raised once, for this directory, only when '..' differs from the parent");
		if (dd_ans)
			CHECK(p3_fdd_calls >= 1 && p3_fdd_ino == IN.dir && p3_fdd_parent == dd_dir, "accepted: '..' is set to the parent");
	}
	REACH("end");
}
void h_check_directory(void) { cd_common(0); }
void h_check_directory_cycle(void) { cd_common(1); }
