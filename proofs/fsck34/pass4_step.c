/* VERIF-UNIT
{
 "name": "p34_pass4_inode_links",
 "props": ["C02", "C01", "C05"],
 "level": "U/iter",
 "tier": "thorough",
 "harness": "h_pass4",
 "loop_contracts": true,
 "includes": ["e2fsck", "lib/support"],
 "defines": ["EXT2_CUSTOM_MEMORY_ROUTINES"],
 "unwind": 3,
 "unwind_reason": "the inode loop of e2fsck_pass4 is closed by the in-place named anchor VERIF_INV_PASS4_INODES (text below): the invariant is pointwise at ONE ghost inode k: before the loop reaches k nothing about k has happened, after it the decision recorded by the stubs' monitors is the one the format demands (P4_DONE); checked base + step; no other loop (check_ea_inode, disconnect_inode are loop-free)",
 "functions": ["e2fsck/pass4.c:e2fsck_pass4", "e2fsck/pass4.c:check_ea_inode", "e2fsck/pass4.c:disconnect_inode"],
 "assumes": ["no frame enforcement (the statement is carried by the loop invariant and restated as harness CHECKs); termination of the loop not shown (no decreases clause: the i > 0 wrap guard)",
	     "s_inodes_count < 2^32 - 1 (the wrap-around guard `i > 0` of the loop is not exercised); s_inodes_per_group = 8192 (only feeds the progress counter: `i % s_inodes_per_group` would be a symbolic modulo); inode size 256 (s_inode_size, dynamic revision) or 128 (revision 0); the scratch buffer and the ghost on-disk inode are typed 256-byte objects; ctx->progress == NULL, readahead off",
	     "the icount tables (inode_link_info = i_links_count as pass 1 recorded it; inode_count = references pass 2 counted), the ea_inode_refs table and the four inode bitmaps are abstract maps: ghost values at inode k, arbitrary answers elsewhere (stubs ext2fs_icount_fetch, ea_refcount_fetch, ext2fs_test_generic_bmap)",
	     "the on-disk inode of k is a ghost struct (arbitrary contents): e2fsck_read_inode_full copies it, e2fsck_write_inode(_full) stores into it; 'no other byte changed' is checked field by field over struct ext2_inode_large and at three probe bytes of the area behind it",
	     "ext2fs.h is compiled with its hook EXT2_CUSTOM_MEMORY_ROUTINES: ext2fs_free_mem is a stub that clears the pointer (the buffers are harness objects: DFCC forbids malloc/free under a loop contract)",
	     "callee stubs, effects from the callee's code: e2fsck_clear_inode (pass1.c) zeroes i_links_count/i_flags, stores 0 in inode_link_info, unmarks the inode in inode_used_map/inode_dir_map and writes the inode; e2fsck_reconnect_file (own unit p34_reconnect_file) fails or changes both counts and the on-disk i_links_count of k to ARBITRARY new values (over-approximation of +1); e2fsck_process_bad_inode answers arbitrarily; fix_problem answers arbitrarily and records the reports about inode k",
	     "a directory whose i_links_count is 1 although it is indexed and has between 2 and 65000 references is legal by the kernel's accounting (specs/fsck34_links_spec.h); a repairing e2fsck nevertheless offers PR_4_DIR_OVERFLOW_REF_COUNT and rewrites the count to the exact value: the C05 clause 'link count unchanged' is CHECKed with this documented normalisation as the only exception (reported as an observation)",
	     "inodes hidden from the directory tree (reserved inodes, project-quota inode, orphan file) are not looked at by pass 4: their health is pass 1's business (pass1.c reports PR_1_*_NOT_CLEAR when they are in use without their feature)",
	     "needs the hook of hooks-pending/p34.diff (named anchor in e2fsck/pass4.c)"],
 "timeout": 600,
 "backend": "cadical",
 "native": false
}
*/
/*
 * e2fsck/pass4.c:e2fsck_pass4 — the per-inode decision, for ONE arbitrary inode k of an arbitrary filesystem.
 *
 * Statement.  Let k be in use (inode_used_map), not imagic / in a bad block, and not a hidden inode
 * (FSCK34_HIDDEN_INODE).  L = the i_links_count pass 1 recorded, C = the references pass 2 counted (for an EA inode
 * with xattr references: 1).
 *  (C02, reachability) C == 0  =>  e2fsck_process_bad_inode gets the inode, and unless it clears it, disconnect_inode
 *      runs: PR_4_ZERO_LEN_INODE accepted (inode cleared) or PR_4_UNATTACHED_INODE raised — an unreferenced inode is never
 *      passed over silently.  (C05) C != 0 => none of that happens.
 *  (C02/C01, link count) with the counts as they are after a reconnection, E = FSCK34_EXPECTED_LINKS(C, isdir):
 *      L != E and not the legal "indexed directory at 1" case  =>  PR_4_BAD_REF_COUNT raised once with pctx.ino = k,
 *          pctx.num = E;  accepted => the inode is written once with i_links_count = E and no other byte changed;
 *          declined => not written;
 *      the legal "indexed directory at 1" case  =>  read-only: nothing; else PR_4_DIR_OVERFLOW_REF_COUNT (normalisation);
 *      L == E  =>  nothing raised about k, inode not written (C05).
 *  Hidden, unused, imagic, bad-block inodes: no report, no write.
 *  PR_4_DIR_NLINK_FEATURE accepted => the dir_nlink feature is set and the superblock marked dirty.
 */
#include "verif.h"

#define P4_NCHOICE 32u
struct in_p4 {
	unsigned int k, inodes_count, first_ino, rev_level, prj_quota_inum, orphan_file_inum;
	unsigned char used, imagic, bb, isdir, have_imagic, have_bb, have_ea;
	unsigned short L, C, L2, C2, links2;
	unsigned long long ea_refs;
	unsigned char raw[256];		/* on-disk inode of k */
	unsigned char other[256];	/* what reading another inode gives */
	unsigned int options, ctxflags, fsflags, ro_compat;
	unsigned char choice[P4_NCHOICE];
};
struct in_p4 IN;
#include "verif_in.h"
#include "fsck34_links_spec.h"

#define _GNU_SOURCE 1
#include "config.h"
#include <string.h>
#include "e2fsck.h"

/* ---- ghost state ---- */
ext2_ino_t p4_k;
unsigned int p4_nchoice;
unsigned short g_L, g_C;			/* current table values at k */
unsigned char g_used, g_isdir;			/* current bitmap bits at k */
struct p4_ibuf { struct ext2_inode_large l; unsigned char pad[96]; };
struct p4_ibuf g_disk;				/* current on-disk inode of k (s_inode_size = 256) */
struct p4_ibuf g_disk0, g_other;		/* its initial value; what reading another inode gives */
struct p4_ibuf P4_IBUF;				/* the scratch inode buffer of e2fsck_pass4 */
unsigned char g_hidden, g_ea_active;		/* constants of the run (set by the harness) */
unsigned short p4_links0; unsigned int p4_flags0;
/* monitors at k */
unsigned int p4_seen;				/* count fetches */
unsigned int p4_pbi; int p4_pbi_ret;		/* e2fsck_process_bad_inode */
unsigned int p4_zero, p4_unatt; unsigned char p4_zero_ans, p4_unatt_ans;
unsigned int p4_decided; unsigned short d_L, d_C; unsigned char d_isdir, d_indexed;
unsigned int p4_bad, p4_over, p4_incons; unsigned long long p4_bad_num, p4_over_num; unsigned char p4_bad_ans, p4_over_ans;
unsigned char p4_bad_ptr_ok;
unsigned int p4_wr; unsigned short p4_wr_links; unsigned char p4_wr_ok;
unsigned int p4_ea_wr;				/* e2fsck_write_inode from check_ea_inode */
unsigned int p4_cleared, p4_reconn;
unsigned char p4_nlink_acc;			/* PR_4_DIR_NLINK_FEATURE accepted at least once */
unsigned char p4_completed;
static struct e2fsck_struct CTX;
static struct struct_ext2_filsys FS;
static struct ext2_super_block SB;
char *P4_BUF;

#define P4_GHOSTS p4_nchoice, g_L, g_C, g_used, g_isdir, g_disk, p4_seen, p4_pbi, p4_pbi_ret, p4_zero, p4_unatt, \
		  p4_zero_ans, p4_unatt_ans, p4_decided, d_L, d_C, d_isdir, d_indexed, p4_bad, p4_over, p4_incons, \
		  p4_bad_num, p4_over_num, p4_bad_ans, p4_over_ans, p4_bad_ptr_ok, p4_wr, p4_wr_links, p4_wr_ok, p4_ea_wr, \
		  p4_cleared, p4_reconn, p4_nlink_acc

#define P4_F(a, b, f) ((a).l.f == (b).l.f)
#define P4_SAME_BUT_LINKS(a, b) (P4_SAME_SMALL(a, b) && P4_SAME_EXTRA(a, b))
#define P4_SAME_SMALL(a, b) \
	(P4_F(a, b, i_mode) && P4_F(a, b, i_uid) && P4_F(a, b, i_size) && P4_F(a, b, i_atime) && P4_F(a, b, i_ctime) && \
	 P4_F(a, b, i_mtime) && P4_F(a, b, i_dtime) && P4_F(a, b, i_gid) && P4_F(a, b, i_blocks) && P4_F(a, b, i_flags) && \
	 P4_F(a, b, osd1.linux1.l_i_version) && P4_F(a, b, i_block[0]) && P4_F(a, b, i_block[1]) && P4_F(a, b, i_block[2]) && \
	 P4_F(a, b, i_block[3]) && P4_F(a, b, i_block[4]) && P4_F(a, b, i_block[5]) && P4_F(a, b, i_block[6]) && \
	 P4_F(a, b, i_block[7]) && P4_F(a, b, i_block[8]) && P4_F(a, b, i_block[9]) && P4_F(a, b, i_block[10]) && \
	 P4_F(a, b, i_block[11]) && P4_F(a, b, i_block[12]) && P4_F(a, b, i_block[13]) && P4_F(a, b, i_block[14]) && \
	 P4_F(a, b, i_generation) && P4_F(a, b, i_file_acl) && P4_F(a, b, i_size_high) && P4_F(a, b, i_faddr) && \
	 P4_F(a, b, osd2.linux2.l_i_blocks_hi) && P4_F(a, b, osd2.linux2.l_i_file_acl_high) && \
	 P4_F(a, b, osd2.linux2.l_i_uid_high) && P4_F(a, b, osd2.linux2.l_i_gid_high) && \
	 P4_F(a, b, osd2.linux2.l_i_checksum_lo) && P4_F(a, b, osd2.linux2.l_i_reserved))
#define P4_SAME_EXTRA(a, b) \
	(P4_F(a, b, i_extra_isize) && \
	 P4_F(a, b, i_checksum_hi) && P4_F(a, b, i_ctime_extra) && P4_F(a, b, i_mtime_extra) && P4_F(a, b, i_atime_extra) && \
	 P4_F(a, b, i_crtime) && P4_F(a, b, i_crtime_extra) && P4_F(a, b, i_version_hi) && P4_F(a, b, i_projid) && \
	 (a).pad[0] == (b).pad[0] && (a).pad[47] == (b).pad[47] && (a).pad[95] == (b).pad[95])
#define P4_RO ((CTX.options & E2F_OPT_READONLY) != 0)
#define P4_NO_EVENTS (p4_seen == 0 && p4_pbi == 0 && p4_zero == 0 && p4_unatt == 0 && p4_decided == 0 && p4_bad == 0 && \
		      p4_over == 0 && p4_incons == 0 && p4_wr == 0 && p4_ea_wr == 0 && p4_cleared == 0 && p4_reconn == 0 && \
		      g_L == IN.L && g_C == IN.C && g_used == (IN.used & 1) && g_isdir == (IN.isdir & 1) && \
		      g_disk.l.i_links_count == p4_links0 && P4_SAME_BUT_LINKS(g_disk, g_disk0))
/* k takes part in the link-count check */
#define P4_CHECKED (!g_hidden && (IN.used & 1) && !((IN.have_imagic & 1) && (IN.imagic & 1)) && !((IN.have_bb & 1) && (IN.bb & 1)))
#define P4_ORPHAN (IN.C == 0 && !g_ea_active)
#define P4_E FSCK34_EXPECTED_LINKS(d_C, d_isdir)
#define P4_OVERFLOW_CASE (d_isdir && P4_E > 1 && d_indexed && d_L == 1)
#define P4_DECISION_OK \
	(P4_E == d_L ? (p4_bad == 0 && p4_over == 0 && p4_incons == 0 && p4_wr == 0) : \
	 P4_OVERFLOW_CASE ? (p4_bad == 0 && (P4_RO ? p4_over == 0 : (p4_over == 1 && p4_over_num == P4_E)) && \
			     p4_wr == ((p4_over && p4_over_ans) ? 1u : 0u)) : \
			    (p4_bad == 1 && p4_bad_num == P4_E && p4_bad_ptr_ok && p4_over == 0 && \
			     p4_wr == (p4_bad_ans ? 1u : 0u))) && \
	(p4_wr == 0 || (p4_wr_links == P4_E && p4_wr_ok && g_disk.l.i_links_count == P4_E))
#define P4_DISK_FRAME ((p4_wr == 0 && p4_ea_wr == 0 && p4_cleared == 0 && p4_reconn == 0) ==> \
		       (g_disk.l.i_links_count == p4_links0 && P4_SAME_BUT_LINKS(g_disk, g_disk0)))
#define P4_DONE \
	(!P4_CHECKED ? P4_NO_EVENTS : \
	 (p4_seen >= 1 && p4_decided <= 1 && \
	  (P4_ORPHAN ? (p4_pbi == 1 && (p4_pbi_ret != 0 || (p4_zero == 1 && p4_zero_ans) || p4_unatt == 1)) \
		     : (p4_pbi == 0 && p4_zero == 0 && p4_unatt == 0 && p4_cleared == 0 && p4_reconn == 0 && p4_decided == 1)) && \
	  (p4_decided == 0 ? (P4_ORPHAN && (p4_pbi_ret != 0 || (p4_unatt == 1 && !p4_unatt_ans)) && \
			      p4_bad == 0 && p4_over == 0 && p4_wr == 0) \
			   : P4_DECISION_OK)))

#define VERIF_INV_PASS4_INODES \
	__CPROVER_assigns(i, group, link_count, link_counted, buf, dir_nlink_fs, pctx, P4_IBUF, \
			  fs->super->s_feature_ro_compat, fs->flags, P4_GHOSTS) \
	__CPROVER_loop_invariant(i >= 1) \
	__CPROVER_loop_invariant(buf == 0 || buf == P4_BUF) \
	__CPROVER_loop_invariant(i > p4_k ? P4_DONE : P4_NO_EVENTS) \
	__CPROVER_loop_invariant(P4_DISK_FRAME) \
	__CPROVER_loop_invariant(p4_nlink_acc ==> ((fs->super->s_feature_ro_compat & EXT4_FEATURE_RO_COMPAT_DIR_NLINK) && \
						   (fs->flags & EXT2_FLAG_DIRTY)))

#ifndef VERIF_NATIVE
void *malloc(size_t n) { return __CPROVER_allocate(n, 0); }	/* no "malloc may fail": pointers stay constants for symex */
#endif
#include "e2fsck/pass4.c"

/* ---- opaque handles ---- */
static char T_USED, T_IMAGIC, T_BB, T_DIRMAP, T_ICOUNT, T_LINKINFO, T_EA;
#define H_USED		((ext2fs_inode_bitmap) (void *) &T_USED)
#define H_IMAGIC	((ext2fs_inode_bitmap) (void *) &T_IMAGIC)
#define H_BB		((ext2fs_inode_bitmap) (void *) &T_BB)
#define H_DIRMAP	((ext2fs_inode_bitmap) (void *) &T_DIRMAP)
#define H_ICOUNT	((ext2_icount_t) (void *) &T_ICOUNT)
#define H_LINKINFO	((ext2_icount_t) (void *) &T_LINKINFO)
#define H_EA		((ext2_refcount_t) (void *) &T_EA)

static unsigned char p4_next(void)
{
	unsigned char v = IN.choice[p4_nchoice & (P4_NCHOICE - 1)];
	p4_nchoice++;
	return v;
}

/* ---- stubs ---- */
int fix_problem(e2fsck_t ctx, problem_t code, struct problem_context *pctx)
{
	int a = p4_next() & 1;

	(void) ctx;
	if (code == PR_4_DIR_NLINK_FEATURE) {
		if (a && p4_nlink_acc == 0)
			p4_nlink_acc = 1;
		return a;
	}
	if (code == PR_4_PASS_HEADER || pctx->ino != p4_k)
		return a;
	if (code == PR_4_BAD_REF_COUNT) {
		p4_bad++; p4_bad_num = pctx->num; p4_bad_ans = (unsigned char) a;
		p4_bad_ptr_ok = pctx->inode != 0;
	} else if (code == PR_4_DIR_OVERFLOW_REF_COUNT) {
		p4_over++; p4_over_num = pctx->num; p4_over_ans = (unsigned char) a;
	} else if (code == PR_4_INCONSISTENT_COUNT)
		p4_incons++;
	else if (code == PR_4_ZERO_LEN_INODE) {
		p4_zero++; p4_zero_ans = (unsigned char) a;
	} else if (code == PR_4_UNATTACHED_INODE) {
		p4_unatt++; p4_unatt_ans = (unsigned char) a;
	}
	return a;
}
void clear_problem_context(struct problem_context *pctx)
{
	struct problem_context z = {0};

	z.blkcount = -1;
	z.group = -1;
	*pctx = z;
}
void *e2fsck_allocate_memory(e2fsck_t ctx, unsigned long size, const char *description)
{
	(void) ctx;
	if (description[0] == 's') {		/* "scratch inode": before the loop */
		CHECK(size == EXT2_INODE_SIZE(&SB), "scratch inode: one on-disk inode");
		return &P4_IBUF;
	}
	return P4_BUF;				/* "bad_inode buffer": inside the loop, pre-allocated by the harness */
}
ext2_ino_t quota_type2inum(enum quota_type qtype, struct ext2_super_block *sb)
{
	return qtype == PRJQUOTA ? sb->s_prj_quota_inum : qtype == USRQUOTA ? EXT4_USR_QUOTA_INO : EXT4_GRP_QUOTA_INO;
}
int ext2fs_test_generic_bmap(ext2fs_generic_bitmap bitmap, __u64 arg)
{
	if (arg == p4_k) {
		if (bitmap == (ext2fs_generic_bitmap) H_USED)
			return g_used;
		if (bitmap == (ext2fs_generic_bitmap) H_IMAGIC)
			return IN.imagic & 1;
		if (bitmap == (ext2fs_generic_bitmap) H_BB)
			return IN.bb & 1;
		if (bitmap == (ext2fs_generic_bitmap) H_DIRMAP) {
			/* the isdir test in front of the decision: snapshot what the decision has to be about */
			p4_decided++;
			d_L = g_L; d_C = g_ea_active ? 1 : g_C; d_isdir = g_isdir;
			d_indexed = (g_disk.l.i_flags & EXT2_INDEX_FL) != 0;
			return g_isdir;
		}
	}
	return p4_next() & 1;
}
errcode_t ext2fs_icount_fetch(ext2_icount_t icount, ext2_ino_t ino, __u16 *ret)
{
	if (ino == p4_k) {
		if (icount == H_LINKINFO) {
			p4_seen++;
			*ret = g_L;
		} else
			*ret = g_C;
		return 0;
	}
	*ret = (__u16) (p4_next() | (p4_next() << 8));
	return 0;
}
errcode_t ea_refcount_fetch(ext2_refcount_t refcount, ea_key_t ea_key, ea_value_t *ret)
{
	(void) refcount;
	if (ea_key == p4_k)
		*ret = IN.ea_refs;
	else
		*ret = (p4_next() & 1) ? (ea_value_t) p4_next() : EA_INODE_NO_REFS;
	return 0;
}
/* the first 128 bytes (struct ext2_inode), field by field: no type-punned struct copies */
#define P4_SMALL(X) \
	X(i_mode); X(i_uid); X(i_size); X(i_atime); X(i_ctime); X(i_mtime); X(i_dtime); X(i_gid); \
	X(i_links_count); X(i_blocks); X(i_flags); X(osd1); X(i_generation); X(i_file_acl); \
	X(i_size_high); X(i_faddr); X(osd2); \
	X(i_block[0]); X(i_block[1]); X(i_block[2]); X(i_block[3]); X(i_block[4]); X(i_block[5]); \
	X(i_block[6]); X(i_block[7]); X(i_block[8]); X(i_block[9]); X(i_block[10]); X(i_block[11]); \
	X(i_block[12]); X(i_block[13]); X(i_block[14])
#define P4_G(f) g_disk.l.f = P4_IBUF.l.f
#define P4_RK(f) P4_IBUF.l.f = g_disk.l.f
#define P4_RO_(f) P4_IBUF.l.f = g_other.l.f
void e2fsck_read_inode_full(e2fsck_t ctx, unsigned long ino, struct ext2_inode *inode, int bufsize, const char *proc)
{
	(void) ctx; (void) proc;
	CHECK(bufsize == (int) EXT2_INODE_SIZE(&SB) && (void *) inode == (void *) &P4_IBUF, "inodes are read whole into the scratch buffer");
	if (bufsize == 256)
		P4_IBUF = ino == p4_k ? g_disk : g_other;
	else if (ino == p4_k) {
		P4_SMALL(P4_RK);
	} else {
		P4_SMALL(P4_RO_);
	}
}
void e2fsck_write_inode_full(e2fsck_t ctx, unsigned long ino, struct ext2_inode *inode, int bufsize, const char *proc)
{
	(void) ctx; (void) proc;
	CHECK(bufsize == (int) EXT2_INODE_SIZE(&SB) && (void *) inode == (void *) &P4_IBUF, "inodes are written whole from the scratch buffer");
	if (ino == p4_k) {
		p4_wr++;
		p4_wr_links = P4_IBUF.l.i_links_count;
		if (bufsize == 256) {
			p4_wr_ok = P4_SAME_BUT_LINKS(P4_IBUF, g_disk);
			g_disk = P4_IBUF;
		} else {
			P4_G(i_links_count);
			p4_wr_ok = P4_SAME_SMALL(P4_IBUF, g_disk);
			P4_SMALL(P4_G);
		}
	}
}
/* the 128-byte write of check_ea_inode (i_flags, EA reference count changed) and of the e2fsck_clear_inode stub */
void e2fsck_write_inode(e2fsck_t ctx, unsigned long ino, struct ext2_inode *inode, const char *proc)
{
	(void) ctx; (void) proc;
	CHECK((void *) inode == (void *) &P4_IBUF, "the inode written is the scratch buffer");
	if (ino == p4_k) {
		p4_ea_wr++;
		P4_SMALL(P4_G);
	}
}
__u64 ext2fs_get_ea_inode_ref(struct ext2_inode *inode) { return ((__u64) inode->i_ctime << 32) | inode->osd1.linux1.l_i_version; }
void ext2fs_set_ea_inode_ref(struct ext2_inode *inode, __u64 ref_count)
{
	inode->i_ctime = (__u32) (ref_count >> 32);
	inode->osd1.linux1.l_i_version = (__u32) ref_count;
}
int e2fsck_process_bad_inode(e2fsck_t ctx, ext2_ino_t dir, ext2_ino_t ino, char *buf)
{
	int r = p4_next() & 1;

	(void) ctx; (void) dir;
	CHECK(buf == P4_BUF, "process_bad_inode gets the block buffer");
	if (ino == p4_k) {
		p4_pbi++; p4_pbi_ret = r;
	}
	return r;
}
void e2fsck_clear_inode(e2fsck_t ctx, ext2_ino_t ino, struct ext2_inode *inode, int restart_flag, const char *source)
{
	(void) ctx; (void) restart_flag; (void) source;
	/* pass1.c: i_flags = 0, i_links_count = 0, inode_link_info := 0, dtime, unmark in used/dir maps, write the inode */
	inode->i_flags = 0;
	inode->i_links_count = 0;
	inode->i_dtime = 1;
	if (ino == p4_k) {
		p4_cleared++;
		g_L = 0; g_used = 0; g_isdir = 0;
		g_disk.l.i_flags = 0; g_disk.l.i_links_count = 0; g_disk.l.i_dtime = 1;
	}
}
void e2fsck_read_bitmaps(e2fsck_t ctx) { (void) ctx; }
void ext2fs_inode_alloc_stats2(ext2_filsys fs, ext2_ino_t ino, int inuse, int isdir) { (void) fs; (void) ino; (void) inuse; (void) isdir; }
void quota_data_inodes(quota_ctx_t qctx, struct ext2_inode_large *inode, ext2_ino_t ino, int adjust)
{ (void) qctx; (void) inode; (void) ino; (void) adjust; }
int e2fsck_reconnect_file(e2fsck_t ctx, ext2_ino_t ino)
{
	(void) ctx;
	if (p4_next() & 1)
		return 1;
	if (ino == p4_k) {
		p4_reconn++;
		g_L = IN.L2; g_C = IN.C2; g_disk.l.i_links_count = IN.links2;
	}
	return 0;
}
void ext2fs_free_icount(ext2_icount_t icount) { (void) icount; p4_completed = 1; }
void ext2fs_free_inode_bitmap(ext2fs_inode_bitmap bitmap) { (void) bitmap; }
void ea_refcount_free(ext2_refcount_t refcount) { (void) refcount; }
errcode_t e2fsck_readahead(ext2_filsys fs, int flags, dgrp_t start, dgrp_t ngroups)
{ (void) fs; (void) flags; (void) start; (void) ngroups; return 0; }

errcode_t ext2fs_free_mem(void *ptr) { *(void **) ptr = 0; return 0; }
#ifdef RESOURCE_TRACK
void init_resource_track(struct resource_track *track, io_channel channel) { (void) track; (void) channel; }
void print_resource_track(e2fsck_t ctx, const char *desc, struct resource_track *track, io_channel channel)
{ (void) ctx; (void) desc; (void) track; (void) channel; }
#endif
char *gettext(const char *msgid) { return (char *) msgid; }

void h_pass4(void)
{
	LOAD_IN();
	p4_k = IN.k; p4_nchoice = 0;
	ASSUME(IN.inodes_count >= 1 && IN.inodes_count < 0xffffffffu);
	ASSUME(IN.k >= 1 && IN.k <= IN.inodes_count);
	ASSUME(IN.first_ino >= 11);		/* check_super_block: first_ino >= EXT2_GOOD_OLD_FIRST_INO (rev 1); rev 0: constant 11 */
	memset(&SB, 0, sizeof(SB));
	SB.s_inodes_count = IN.inodes_count;
	SB.s_inodes_per_group = 8192;
	SB.s_rev_level = IN.rev_level;
	SB.s_first_ino = IN.first_ino;
	SB.s_inode_size = 256;		/* revision 0: EXT2_INODE_SIZE is the constant 128 */
	SB.s_prj_quota_inum = IN.prj_quota_inum;
	SB.s_orphan_file_inum = IN.orphan_file_inum;
	SB.s_feature_ro_compat = IN.ro_compat;
	memset(&FS, 0, sizeof(FS));
	FS.super = &SB;
	FS.flags = IN.fsflags;
	FS.group_desc_count = 1;
	FS.blocksize = 1024;
	memset(&CTX, 0, sizeof(CTX));
	CTX.fs = &FS;
	CTX.options = IN.options;
	CTX.flags = IN.ctxflags;
	CTX.inode_used_map = H_USED;
	CTX.inode_dir_map = H_DIRMAP;
	CTX.inode_imagic_map = (IN.have_imagic & 1) ? H_IMAGIC : 0;
	CTX.inode_bb_map = (IN.have_bb & 1) ? H_BB : 0;
	CTX.inode_count = H_ICOUNT;
	CTX.inode_link_info = H_LINKINFO;
	CTX.ea_inode_refs = (IN.have_ea & 1) ? H_EA : 0;
	CTX.readahead_kb = 0;
	CTX.progress = 0;
	P4_BUF = malloc(1024);

	g_L = IN.L; g_C = IN.C; g_used = IN.used & 1; g_isdir = IN.isdir & 1;
	memcpy(&g_disk, IN.raw, sizeof(g_disk));
	memcpy(&g_other, IN.other, sizeof(g_other));
	g_disk0 = g_disk;
	p4_links0 = g_disk.l.i_links_count; p4_flags0 = g_disk.l.i_flags;
	/* independent reading of "hidden": first inode number for ordinary files is 11 in revision 0, s_first_ino otherwise */
	g_hidden = FSCK34_HIDDEN_INODE(IN.k, IN.rev_level == 0 ? 11u : IN.first_ino, IN.prj_quota_inum, IN.orphan_file_inum);
	g_ea_active = (IN.have_ea & 1) && IN.ea_refs != 0 && IN.ea_refs != ~0ULL;
	p4_seen = p4_pbi = 0; p4_pbi_ret = 0; p4_zero = p4_unatt = 0; p4_zero_ans = p4_unatt_ans = 0;
	p4_decided = 0; d_L = d_C = 0; d_isdir = d_indexed = 0;
	p4_bad = p4_over = p4_incons = 0; p4_bad_num = p4_over_num = 0; p4_bad_ans = p4_over_ans = 0; p4_bad_ptr_ok = 0;
	p4_wr = 0; p4_wr_links = 0; p4_wr_ok = 0; p4_ea_wr = 0; p4_cleared = p4_reconn = 0; p4_nlink_acc = 0;
	p4_completed = 0;

	e2fsck_pass4(&CTX);

	if (p4_completed) {
		REACH("pass completed");
		CHECK(P4_DONE, "the decision about inode k is the one the format demands (see the statement)");
		if (P4_CHECKED && P4_ORPHAN)
			CHECK(p4_pbi == 1 && (p4_pbi_ret != 0 || (p4_zero == 1 && p4_zero_ans) || p4_unatt == 1),
			      "C02: an in-use inode without references is cleared or reported as unattached, never passed over");
		if (P4_CHECKED && p4_decided == 1 && !FSCK34_LINKS_LEGAL(d_L, d_C, d_isdir, d_indexed))
			CHECK(p4_bad == 1 && p4_bad_num == FSCK34_EXPECTED_LINKS(d_C, d_isdir),
			      "C02: an illegal link count is reported with the counted value");
		if (P4_CHECKED && p4_decided == 1 && p4_bad == 1 && p4_bad_ans)
			CHECK(g_disk.l.i_links_count == FSCK34_EXPECTED_LINKS(d_C, d_isdir) && p4_wr == 1,
			      "C01: accepted: the counted value is on disk");
		if (p4_decided == 1 && d_L == FSCK34_EXPECTED_LINKS(d_C, d_isdir) && p4_cleared == 0 && p4_reconn == 0)
			CHECK(p4_wr == 0 && p4_bad + p4_over + p4_incons == 0 && (p4_ea_wr != 0 || P4_SAME_BUT_LINKS(g_disk, g_disk0)) &&
			      (p4_ea_wr != 0 || g_disk.l.i_links_count == p4_links0),
			      "C05: a correct link count: nothing reported, the inode is not written");
		if (!P4_CHECKED)
			CHECK(p4_wr == 0 && p4_bad + p4_over + p4_unatt + p4_zero == 0, "hidden / unused inodes are not touched");
		if (p4_nlink_acc)
			CHECK((SB.s_feature_ro_compat & EXT4_FEATURE_RO_COMPAT_DIR_NLINK) && (FS.flags & EXT2_FLAG_DIRTY),
			      "PR_4_DIR_NLINK_FEATURE accepted: feature set, superblock dirty");
		if (P4_CHECKED && p4_decided == 1 && d_isdir && d_C > FSCK34_LINK_MAX && d_L == 1)
			REACH("directory over the link limit with count 1: legal");
		if (P4_CHECKED && p4_decided == 1 && !FSCK34_LINKS_LEGAL(d_L, d_C, d_isdir, d_indexed))
			REACH("illegal link count");
		if (P4_CHECKED && P4_ORPHAN)
			REACH("orphan");
	}
	REACH("end");
}
