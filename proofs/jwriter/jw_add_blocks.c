/* VERIF-UNIT
{
 "name": "jw_add_blocks_to_trans",
 "props": ["C14", "C03"],
 "level": "U/iter",
 "tier": "thorough",
 "tier_after_hooks": "thorough",
 "harness": "h_add_blocks",
 "loop_contracts": true,
 "includes": ["debugfs", "lib/ss", "e2fsck"],
 "defines": ["DEBUGFS", "JW_BS=1024"],
 "timeout": 900,
 "unwind": 6,
 "unwind_reason": "the per-block loop of journal_add_blocks_to_trans is cut by its in-place loop contract (named anchor VERIF_INV_JOURNAL_ADD_BLOCKS_TO_TRANS, hooks-pending/jw.diff); the bound serves the DFCC library loops only (unwinding assertions on)",
 "functions": ["debugfs/do_journal.c:journal_add_blocks_to_trans"],
 "assumes": [
   "NEEDS the hook in hooks-pending/jw.diff (debugfs/do_journal.c: named loop anchor VERIF_INV_JOURNAL_ADD_BLOCKS_TO_TRANS and ONE ghost statement VERIF_MON_JOURNAL_ADD_BLOCKS_TO_TRANS_BEGIN at the top of the loop body that re-bases the tag cursor jdbt on the descriptor buffer - asserted to be the identity)",
   "no contract enforced on journal_add_blocks_to_trans (big function): the statement is carried by ghost monitors in the callee stubs and by harness CHECKs",
   "callees are stubs (jw_stubs.h): getblk (succeeds; allocates header + j_blocksize bytes as the real one, plus 32 never-accessed slack bytes, content arbitrary), ll_rw_block (device write = monitored event, may fail; a write request on a clean buffer is reported), brelse (a buffer still dirty at its release is reported unless a write failed before), mark_buffer_dirty, jbd2_journal_bmap (physical = logical + constant, may fail), fread (one block or nothing; the record it delivers is the arbitrary content the buffer has at that moment), ext2fs_blocks_count (constant), jbd2_block_tag_csum_set and jbd2_descr_block_csum_set (store an ARBITRARY value in the format's checksum field when checksums are on and record what the buffer held at that moment; what the real ones compute: units jw_block_tag_csum_set, jw_descr_block_csum_set), libc memcpy (16 UUID bytes: ranges asserted, copy performed at ONE ghost byte index)",
   "U/iter: the per-block statement is proved for the first iteration from the real initial state and for one iteration starting in an arbitrary state that satisfies the proved loop invariant (tag cursor = the format's walk, blocks contiguous behind the descriptor slot, header intact, completed tags frozen, nothing pending); the epilogue (last descriptor block) from an arbitrary such state",
   "pointwise: ONE arbitrary byte offset g_k of the data block, ONE arbitrary offset g_kd of the descriptor block and ONE arbitrary UUID byte g_ku stand for all bytes",
   "j_blocksize = 1024 ONLY (cap: the verifier's cost is linear in the buffer size; 4096 exceeds 10 GB - the code uses j_blocksize only as an opaque bound); j_format_version 1 or 2; journal superblock arbitrary (every tag format: 32/64 bit, no checksum / v2 / v3); block list of up to 2^20 arbitrary entries",
   "a journal without the 64BIT feature belongs to a filesystem of fewer than 2^32 blocks (do_journal_open: update_64bit_flag sets the feature whenever the filesystem has 64bit and the journal is clean; the kernel sets it at mount)",
   "the ENOMEM returns (getblk failing) are not exercised",
   "little-endian host; errcode_t values fit in 31 bits",
   "NOT demanded here: the 16 UUID bytes behind the first tag (unit jw_add_blocks_first_tag_uuid, finding C03_jw_first_tag_uuid), the high half of the be32 t_flags of a v3 tag (same finding), strict-C pointer formation behind the buffer (unit jw_add_blocks_to_trans_strict), and a non-zero return when the data file ends early with errno == 0 (the function then returns 0 with the open descriptor block unwritten - observation in the report)"
  ],
 "native": false
}
*/
/* VERIF-UNIT
{
 "name": "jw_add_blocks_first_tag_uuid",
 "props": ["C03"],
 "level": "U/iter",
 "tier": "thorough",
 "harness": "h_add_blocks",
 "loop_contracts": true,
 "includes": ["debugfs", "lib/ss", "e2fsck"],
 "defines": ["DEBUGFS", "JW_BS=1024", "JW_CHECK_UUID"],
 "timeout": 900,
 "unwind": 6,
 "unwind_reason": "as jw_add_blocks_to_trans",
 "functions": ["debugfs/do_journal.c:journal_add_blocks_to_trans"],
 "assumes": [
   "as jw_add_blocks_to_trans, plus the format clause that the first tag of every descriptor block is followed by the journal's 16 UUID bytes: EXPECTED TO FAIL on the tree (finding C03_jw_first_tag_uuid: memcpy(jdbt + tag_bytes, ..) scales by sizeof(journal_block_tag_t))"
  ],
 "native": false
}
*/
/* VERIF-UNIT
{
 "name": "jw_add_blocks_to_trans_strict",
 "props": ["C03"],
 "level": "U/iter",
 "tier": "obs",
 "harness": "h_add_blocks",
 "loop_contracts": true,
 "includes": ["debugfs", "lib/ss", "e2fsck"],
 "defines": ["DEBUGFS", "JW_BS=1024", "JW_BH_SLACK=0"],
 "timeout": 900,
 "unwind": 6,
 "unwind_reason": "as jw_add_blocks_to_trans",
 "functions": ["debugfs/do_journal.c:journal_add_blocks_to_trans"],
 "assumes": [
   "as jw_add_blocks_to_trans, but the buffer heads have NO slack behind the block (exactly what getblk allocates): the out-of-bounds pointer FORMATION (char *)jdbt + tag_bytes in the descriptor-full test is reported (expected failing obligation, strict ISO C only: nothing is accessed there; see the FINDING comment)"
  ],
 "native": false
}
*/
/*
 * debugfs journal writer, logging of data blocks (C14 "every metadata object written by any e2fsprogs tool carries
 * the checksum the jbd2 on-disk format defines"; C03: the descriptor stream recovery walks).
 *
 * Statement, per logged block i (format: specs/jw_jbd2_format.h), checked when the block goes to the device:
 *  (read)    exactly one j_blocksize record was read from the data file for it;
 *  (escape)  iff that record starts with the jbd2 magic, the image in the log has its first four bytes ZERO and the
 *            tag carries ESCAPE; every other byte of the image equals the record;
 *  (csum)    the tag checksum routine ran once, AFTER the escape: at that moment the buffer already held the escaped
 *            image (first word and ghost byte recorded by the stub), and the bytes handed to the device are those
 *            very bytes - so the stored checksum is the checksum of the block as recovery will read it from the log
 *            (recovery.c do_one_pass verifies obh->b_data before un-escaping; kernel: escape in
 *            jbd2_journal_write_metadata_buffer, then jbd2_block_tag_csum_set on the escaped copy); the value the
 *            routine stored is still in the tag's checksum field;
 *  (tag)     the tag sits exactly where the format's walk expects it (offset 12 for the first of a descriptor
 *            block, previous + tag size [+ 16 UUID bytes after the first]) and ends inside the usable area (before
 *            the checksum tail); its block number (be32 low, be32 high at +8 iff 64BIT) is block_list[i]; its flags are
 *            exactly ESCAPE (as above) | SAME_UUID (iff not the first tag of its block) | LAST_TAG (iff i is the
 *            last block of the list), big-endian at +6;
 *  (place)   the data block is written at the log position descriptor + 1 + (number of tags before it in that
 *            descriptor block), through jbd2_journal_bmap, from a buffer marked dirty.
 * Descriptor blocks, checked when one goes to the device:
 *  header magic / blocktype 1 / the transaction's sequence; written at the slot reserved for it (directly before its
 *  first data block; the next descriptor block directly behind the last data block of this one); at least one tag;
 *  every completed tag byte unchanged since its data block was written; the block checksum routine ran after the
 *  last change and the block is written exactly as it was then (tail included).
 * Epilogue: on success every logged block is described by a descriptor block that was written, trans->block is the
 * first free log block, both buffers were released exactly once; an error reported by the device or by bmap is
 * returned.
 *
 * FINDING (benign, strict-C only; same class as recovery.c:count_tags, proofs/journal/tags.c): when the tags fill the
 * usable area of a descriptor block exactly (e.g. 1 KiB blocks, 64BIT without checksums: 12 + 12 + 16 + 82 * 12 = 1024),
 * jdbt stands at the one-past-the-end address of the getblk() allocation and the next iteration evaluates
 * (char *)jdbt + tag_bytes - a pointer up to 16 bytes further.  Nothing is read or written there, but forming it is
 * undefined in ISO C and CBMC's pointer check reports it.  Unit jw_add_blocks_to_trans_strict (wip, no slack) shows
 * that ONE obligation; the other units give the buffers 32 never-accessed slack bytes.
 */
#include "jw_env.h"

#define VERIF_INV_JOURNAL_ADD_BLOCKS_TO_TRANS \
	__CPROVER_assigns(i, j, tag_bytes, err, jdbt, jdb_blk, curr_blk, __CPROVER_object_whole(data_bh), __CPROVER_object_whole(bh), G) \
	__CPROVER_loop_invariant(i <= block_len && G.nread == i && G.phase == 0 && G.sealed == 0 && G.failed == 0 && G.eof == 0) \
	__CPROVER_loop_invariant(data_bh->b_size == (int)g_bs && data_bh->b_err == 0 && bh->b_err == 0 && data_bh->b_dirty == 0 && bh->b_dirty == 0) \
	__CPROVER_loop_invariant(12 <= G.next_off && G.next_off <= g_usable && (char *)jdbt == (char *)jdb_buf + G.next_off) \
	__CPROVER_loop_invariant((G.ntags == 0) == (G.next_off == 12)) \
	__CPROVER_loop_invariant(jdb_blk == G.desc_slot && curr_blk == jdb_blk + 1 + G.ntags) \
	__CPROVER_loop_invariant(G.desc_slot >= IN.trans_block && G.ntags <= i && (i == 0 || G.ntags >= 1) && G.desc_slot - IN.trans_block <= 2 * i && G.desc_slot - IN.trans_block + G.ntags <= 2 * i) \
	__CPROVER_loop_invariant(JW_BE32(jdb_buf, 0) == JW_MAGIC && JW_BE32(jdb_buf, 4) == JW_BT_DESCRIPTOR && JW_BE32(jdb_buf, 8) == g_tid) \
	__CPROVER_loop_invariant(!(g_kd >= 12 && g_kd < G.next_off) || B(jdb_buf)[g_kd] == G.desc_wit) \
	__CPROVER_decreases(block_len - i)

/* ghost re-basing of the tag cursor on the descriptor buffer (asserted to be the identity): after the loop cut the
 * verifier knows only through the invariant which object jdbt points into */
#define VERIF_MON_JOURNAL_ADD_BLOCKS_TO_TRANS_BEGIN { \
	__CPROVER_assert(jdbt == (journal_block_tag_t *)(bh->b_data + G.next_off), "CHECK:ghost re-basing of jdbt is the identity"); \
	jdbt = (journal_block_tag_t *)(bh->b_data + G.next_off); }

#include "debugfs/do_journal.c"

#define JW_DATA_BH g_bh0
#define JW_META_BH g_bh1

#define JW_WANT_FREAD
#define JW_WANT_MEMCPY16
#include "jw_stubs.h"

static struct jw_ghost jw_on_read(struct jw_ghost g, struct buffer_head *bh, unsigned long long logical)
{
	CHECK(0, "journal_add_blocks_to_trans reads nothing from the journal");
	return g;
}

static struct jw_ghost jw_on_write(struct jw_ghost g, struct buffer_head *bh, unsigned long long logical)
{
	if (bh == JW_DATA_BH) {
		const unsigned char *t = g.tag;
		int first = (g.next_off == 12);
		int escaped = (g.orig_w0 == JW_MAGIC);
		unsigned long long idx = g.nread - 1;
		unsigned int flags;
		g.n_data++;
		/* (csum) */
		CHECK(g.phase == 2, "data block: read, then tag checksum set, then written - once each");
		CHECK(g.csum_w0 == (escaped ? 0 : g.orig_w0) && g.csum_k == ((escaped && g_k < 4) ? 0 : g.orig_k),
		      "the tag checksum was taken over the ESCAPED image (first word zero iff the record starts with the jbd2 magic)");
		CHECK(JW_BE32(bh->b_data, 0) == g.csum_w0 && B(bh->b_data)[g_k] == g.csum_k,
		      "the bytes written to the log are the bytes the tag checksum was taken over");
		/* (escape) */
		CHECK(B(bh->b_data)[g_k] == ((escaped && g_k < 4) ? 0 : g.orig_k), "log image = record read, except the zeroed magic");
		/* (tag) */
		CHECK(t == B(JW_META_BH->b_data) + g.next_off, "the tag is where the format's walk expects it");
		CHECK(g.next_off + g_tb + (first ? 16 : 0) <= g_usable, "tag (and UUID) end inside the usable area of the descriptor block");
		CHECK(idx < IN.len && jw_tag_block(g_ver, g_incompat, t) == g_list[idx], "tag block number = block_list[i] (32/64-bit split per feature)");
		flags = (escaped ? JW_FLAG_ESCAPE : 0) | (first ? 0 : JW_FLAG_SAME_UUID) | (idx == IN.len - 1 ? JW_FLAG_LAST_TAG : 0);
		CHECK(JW_TAG_FLAGS(t) == flags, "tag flags = ESCAPE iff escaped | SAME_UUID iff not first in block | LAST_TAG iff last block");
		if (g_v3)
			CHECK(JW_BE32(t, 12) == g.csum_val, "v3: the checksum the routine stored is in tag+12");
		else if (g_csum_on)
			CHECK(JW_BE16(t, 4) == (g.csum_val & 0xFFFFu), "v2: the checksum the routine stored is in tag+4");
#ifdef JW_CHECK_UUID
		if (first)
			CHECK(t[g_tb + g_ku] == g_jsb[JW_SB_UUID + g_ku], "the first tag of a descriptor block is followed by the journal UUID");
#endif
		/* (place) */
		CHECK(logical == g.desc_slot + 1 + g.ntags, "data block k of a descriptor block is written k+1 blocks behind it");
		if (escaped) REACH("escaped block written");
		if (first) REACH("first tag"); else REACH("later tag");
		/* the tag (and the UUID area behind a first tag) is complete: from now on it is frozen */
		if (g_kd >= g.next_off && g_kd < g.next_off + g_tb + (first ? 16 : 0))
			g.desc_wit = B(JW_META_BH->b_data)[g_kd];
		g.next_off += g_tb + (first ? 16 : 0);
		g.ntags++;
		g.phase = 0;
	} else if (bh == JW_META_BH) {
		g.n_desc++;
		CHECK(JW_BE32(bh->b_data, 0) == JW_MAGIC && JW_BE32(bh->b_data, 4) == JW_BT_DESCRIPTOR && JW_BE32(bh->b_data, 8) == g_tid,
		      "descriptor block header: magic, blocktype 1, the transaction's sequence");
		CHECK(g.ntags >= 1, "a descriptor block describes at least one block");
		CHECK(logical == g.desc_slot, "descriptor block written at its slot: directly before its data blocks, directly behind the previous ones");
		CHECK(g.phase != 2, "no data block between its tag checksum and its write (one may have been read: it goes into the next descriptor block)");
		if (g_csum_on)
			JW_CHECK_SEALED(bh);
		g.sealed = 0;
		if (g_kd >= 12 && g_kd < g.next_off)
			CHECK(B(bh->b_data)[g_kd] == g.desc_wit, "every completed tag reaches the log as it was when its data block was written");
		g.desc_slot = g.desc_slot + 1 + g.ntags;
		g.ntags = 0;
		g.next_off = 12;
	} else {
		CHECK(0, "write of an unknown buffer");
	}
	return g;
}

void h_add_blocks(void)
{
	jw_build();
	ASSUME(IN.len <= JW_MAXLEN);
	g_list = malloc((IN.len + 1) * sizeof(blk64_t));	/* arbitrary content; symbolic size: the verifier must not flatten it */
	ASSUME(g_list != 0);
	g_fp = (FILE *)malloc(1);
	ASSUME(g_fp != 0);
	/* 32-bit tags can only name blocks of a filesystem below 2^32 blocks */
	ASSUME(g_64 || IN.fs_blocks <= (1ull << 32));
	G.desc_slot = IN.trans_block;
	G.next_off = 12;
	g_trans.flags = IN.flags;
	g_trans.magic = IN.misc ? J_TRANS_MAGIC : 0;

	errcode_t r = journal_add_blocks_to_trans(&g_trans, g_list, IN.len, g_fp);

	if (!IN.misc || (IN.flags & J_TRANS_COMMITTED) || !(IN.flags & J_TRANS_OPEN)) {
		CHECK(r == EXT2_ET_INVALID_ARGUMENT && g_getblks == 0 && G.n_data + G.n_desc == 0 && g_trans.block == IN.trans_block,
		      "not an open transaction: refused, nothing written");
		REACH("refused");
		return;
	}
	if (IN.len == 0) {
		CHECK(r == 0 && g_getblks == 0 && G.n_data + G.n_desc == 0 && g_trans.block == IN.trans_block, "empty list: nothing written");
		REACH("empty");
		return;
	}
	CHECK(g_brelses == g_getblks, "every buffer obtained is released exactly once");
	CHECK(g_trans.flags == IN.flags && g_trans.tid == IN.tid && g_trans.start == IN.trans_start, "transaction state otherwise unchanged");
	if (G.failed) {
		CHECK(r == G.fail_code, "a device or mapping error is returned");
		REACH("io error");
	}
	if (r == 0 && !G.eof && g_getblks == 2) {
		CHECK(!G.failed, "success only without device errors");
		CHECK(G.nread == IN.len && G.phase == 0, "every block of the list was read and logged");
		CHECK(G.ntags == 0 && G.sealed == 0, "every logged block is described by a descriptor block that was written");
		CHECK(g_trans.block == G.desc_slot, "trans->block = the first free log block behind the last data block");
		REACH("success");
	}
	REACH("end");
}
