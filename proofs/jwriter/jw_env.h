/*
 * Shared by the units on debugfs/do_journal.c (the debugfs journal WRITER: jw / journal_write).
 * Part 1 (this file): input record, ghost monitor state, spec constants - included BEFORE the real file so that the
 * unit-defined loop contract texts (named anchors VERIF_INV_JOURNAL_*) can mention them.
 * Part 2 (jw_stubs.h): the environment of do_journal.c - the buffer layer of debugfs/journal.c (getblk, ll_rw_block,
 * brelse, mark_buffer_*), jbd2_journal_bmap, the four checksum setters, fread, ext2fs_blocks_count, crc32_be - as
 * stubs with ghost monitors; included AFTER the real file.
 *
 * What the real callees are known to do (their contracts, from debugfs/journal.c and the units jw_*_csum_set):
 *   getblk(dev, blk, size)     fresh zeroed buffer head with fs->blocksize data bytes, b_size = size, b_blocknr = blk,
 *                              b_dirty = b_uptodate = b_err = 0 (here: data bytes left ARBITRARY = more behaviours)
 *   mark_buffer_dirty          b_dirty = 1;   mark_buffer_uptodate(bh, v)   b_uptodate = v
 *   ll_rw_block(WRITE, bh)     iff b_dirty: hands b_data to io_channel_write_blk64 at b_blocknr; success: b_dirty = 0,
 *                              b_uptodate = 1; failure: b_err = error (b_dirty stays);   not dirty: NOTHING is written
 *   ll_rw_block(READ, bh)      iff !b_uptodate: fills b_data from b_blocknr; success b_uptodate = 1, failure b_err = error
 *   brelse(bh)                 writes the buffer like ll_rw_block(WRITE) if it is dirty, then frees it
 *   jbd2_journal_bmap          logical journal block -> physical block, or an error
 *   jbd2_*_csum_set            units jw_block_tag_csum_set / jw_descr_block_csum_set / jw_commit_block_csum_set
 * A device write is the EVENT the monitors observe: dev_write() below is called from the ll_rw_block / brelse stubs
 * exactly when the real ones would reach io_channel_write_blk64.
 */
#ifndef JW_ENV_H
#define JW_ENV_H
#include "verif.h"
#include "jw_jbd2_format.h"

#define JW_NDRAW 8
#ifndef JW_MAXLEN
#define JW_MAXLEN (1u << 20)	/* cap on the length of the block / revoke list handed to the writer */
#endif
struct in_jw {
	unsigned int blocksize;
	int version;				/* j_format_version */
	unsigned int tid;
	unsigned long long trans_block;		/* trans->block on entry (logical journal block) */
	unsigned long long trans_start;
	unsigned long long map_off;		/* jbd2_journal_bmap: physical = logical + map_off */
	unsigned long long fs_blocks;		/* ext2fs_blocks_count() of the filesystem */
	unsigned long long len;			/* block_len / revoke_len */
	unsigned long k, kd;			/* ghost offsets: in the data block, in the descriptor/revoke/commit block */
	unsigned int ku;			/* ghost offset in the 16-byte uuid */
	unsigned long long rr;			/* ghost record number inside a revoke block */
	int flags, misc;
	unsigned int j_first, j_last, j_head, j_tail, j_tail_sequence, j_transaction_sequence, fs_flags;	/* journal_t counters (unit jw_journal_write_*) */
	long err[JW_NDRAW];			/* results of failing-capable stubs, consumed in order */
	unsigned int u32[JW_NDRAW];		/* checksum values, first words of data blocks */
	unsigned char byte[JW_NDRAW];
	unsigned char choice[JW_NDRAW];
};
struct in_jw IN;
#include "verif_in.h"

/* ghost monitor state; ONE object so that a loop contract can name it in its assigns clause */
struct jw_ghost {
	unsigned int draw;		/* stub draws so far (index into IN.err / IN.u32 / IN.byte / IN.choice) */
	unsigned int failed;		/* 1 once a stub has reported an error (the function must then stop) */
	long fail_code;			/* the error it reported */
	unsigned int eof;		/* 1 once fread delivered no block */
	/* data block in flight */
	unsigned long long nread;	/* blocks delivered by fread so far */
	unsigned int phase;		/* 0 idle, 1 block read, 2 tag checksum computed */
	unsigned int orig_w0;		/* first four bytes (big-endian) of the block as read from the file */
	unsigned char orig_k;		/* byte g_k of the block as read */
	unsigned int csum_w0;		/* first four bytes at the moment the tag checksum was computed */
	unsigned char csum_k;		/* byte g_k at that moment */
	unsigned int csum_val;		/* value the checksum routine stored */
	const unsigned char *tag;	/* tag slot the checksum routine was given */
	/* descriptor / revoke block being filled */
	unsigned long long desc_slot;	/* logical journal block reserved for it */
	unsigned long long ntags;	/* tags (= data blocks written) / revoke records in it so far */
	unsigned short next_off;	/* byte offset at which the format's walk expects the next tag (16 bits: keeps the verifier's index comparisons narrow) */
	unsigned int sealed;		/* 1 between checksum-set and the write of the block */
	unsigned char seal_k;		/* byte g_kd at the moment the block checksum was set (after storing it) */
	unsigned char desc_wit;		/* byte g_kd of the block, recorded when the tag covering it was completed */
	unsigned long long nticks;	/* revoke: list entries range-checked so far */
	/* events */
	unsigned long long n_data, n_desc, n_commit, n_other;	/* device writes by kind */
	unsigned int super_dirty_before_commit;	/* P: fs superblock touched before the commit block was on the device */
	unsigned int v1_crc;		/* commit v1: running crc32_be */
	unsigned long long v1_next;	/* commit v1: next logical block to be folded */
	unsigned int v1_read;		/* commit v1: 1 between the read of a block and its fold */
};
struct jw_ghost G;

/* spec constants of the journal in the harness (computed from IN by the format's rules before the call, never written later) */
unsigned int g_bs;		/* j_blocksize */
unsigned int g_ver, g_incompat, g_compat;
unsigned int g_tb;		/* jw_tag_bytes */
unsigned int g_usable;		/* bytes of a descriptor/revoke block before the checksum tail */
unsigned int g_csum_on, g_v3, g_64;
unsigned int g_tid;
unsigned short g_k, g_kd;
unsigned int g_ku;
unsigned long long g_rr;
unsigned int g_rsz;		/* revoke record size */

#define B(p) ((unsigned char *)(p))
#endif
