/* VERIF-UNIT
{
 "name": "jw_journal_release",
 "props": ["C14", "C03", "C04"],
 "level": "P",
 "tier": "quick",
 "harness": "h_release",
 "includes": ["debugfs", "e2fsck"],
 "defines": ["DEBUGFS"],
 "unwind": 3,
 "unwind_reason": "ext2fs_journal_release is loop-free; the real ll_rw_block (debugfs/journal.c) loops over its nr buffers and brelse calls it with nr == 1: one iteration, unwinding assertions on",
 "functions": ["debugfs/journal.c:ext2fs_journal_release", "debugfs/journal.c:brelse", "debugfs/journal.c:ll_rw_block", "debugfs/journal.c:mark_buffer_dirty", "debugfs/journal.c:ext2fs_journal_sb_csum_set"],
 "assumes": [
   "no contract enforced; the buffer layer (brelse, ll_rw_block, mark_buffer_dirty/clean) and ext2fs_journal_sb_csum_set are the REAL code of debugfs/journal.c; io_channel_write_blk64 is the monitored device event (may fail), ext2fs_crc32c_le the logging stub of proofs/csum/csum_common.h (arbitrary result), the io manager's close and com_err are no-ops",
   "the journal superblock lives in the buffer j_sb_buffer (j_superblock == b_data, as ext2fs_get_journal sets it up); buffer content arbitrary; j_format_version 1 or 2",
   "the journal is an inode journal on the filesystem's own io channel or an external one on fs->journal_io (harness choice); no fast-commit state",
   "pointwise: ONE arbitrary byte offset g_k < 1024 of the journal superblock",
   "little-endian host"
  ],
 "native": false
}
*/
/*
 * debugfs/journal.c:ext2fs_journal_release - where the journal superblock written by the debugfs / libext2fs journal
 * code reaches the device (journal_close after journal_write; after recovery with reset = 1).
 *
 * Statement (format: journal.rst "Super Block"; checksum: s_checksum = be32 at 0xFC = crc32c(~0, the 1024 bytes with
 * s_checksum taken as zero) iff version-2 superblock with CSUM_V2/V3):
 *  drop != 0                : the superblock buffer is discarded - nothing is written, even if it was dirty;
 *  drop == 0, fs read-write : exactly one write of the buffer, to its block of its io channel, one block; the block
 *        written has s_sequence (be32 at 0x18) = j_tail_sequence, s_start (be32 at 0x1C) = 0 iff reset (the journal is
 *        marked empty) else unchanged, and - P, "ext2fs_journal_sb_csum_set before the superblock write" - the checksum
 *        is computed AFTER these two updates over exactly the bytes that are written (fed byte == written byte, the
 *        checksum field fed as zero) and stored big-endian; every other byte as it was;
 *  drop == 0, fs read-only  : the superblock is not modified; it is written only if it was dirty before.
 *  The buffer is released (freed) in every case, a failed write is not retried.
 */
#define CSUM_NO_REAL_INCLUDE
#include "../csum/csum_common.h"
#include "jw_jbd2_format.h"
#include "jfs_user.h"

#define B(p) ((unsigned char *)(p))

/* monitor of the device */
static unsigned int n_writes, n_closes;
static io_channel w_chan;
static unsigned long long w_blk;
static int w_count;
static const void *w_buf;
static unsigned char w_byte;		/* byte g_k of the buffer as handed to the device */
static unsigned int w_start, w_seq, w_csum, w_crcs;	/* fields of the block handed to the device; CRC calls made before */

#include "debugfs/journal.c"

__u32 ext2fs_crc32c_le(__u32 crc, unsigned char const *p, size_t len)
{
	return verif_crc_stub(32, crc, p, len);
}

errcode_t io_channel_write_blk64(io_channel channel, unsigned long long block, int count, const void *data)
{
	n_writes++;
	w_chan = channel; w_blk = block; w_count = count; w_buf = data;
	w_byte = B(data)[g_k];
	w_start = JW_BE32(data, JW_SB_START);
	w_seq = JW_BE32(data, JW_SB_SEQUENCE);
	w_csum = JW_BE32(data, JW_SB_CHECKSUM);
	w_crcs = g_n;
	return IN.choice[1] ? (errcode_t)IN.misc[3] : 0;
}
void com_err(const char *whoami, errcode_t code, const char *fmt, ...) { }
static errcode_t stub_close(io_channel c) { n_closes++; return 0; }
static struct struct_io_manager g_mgr;

void h_release(void)
{
	LOAD_IN();
	journal_t *j = malloc(sizeof(*j));
	struct struct_ext2_filsys *fs = malloc(sizeof(*fs));
	struct buffer_head *bh = malloc(sizeof(*bh));		/* arbitrary content */
	struct struct_io_channel *io = malloc(sizeof(*io)), *jio = malloc(sizeof(*jio));
	struct kdev_s *devs = malloc(2 * sizeof(*devs));
	ASSUME(j && fs && bh && io && jio && devs);
	memset(j, 0, sizeof(*j));
	memset(fs, 0, sizeof(*fs));
	g_mgr.close = stub_close;
	io->manager = &g_mgr; jio->manager = &g_mgr;
	fs->io = io;
	fs->flags = IN.fs_flags;
	fs->journal_io = (IN.choice[2] & 1) ? jio : ((IN.choice[2] & 2) ? io : 0);
	fs->journal_name = 0;
	j->j_sb_buffer = bh;
	j->j_superblock = (journal_superblock_t *)bh->b_data;
	ASSUME(IN.misc[0] == 1 || IN.misc[0] == 2);
	j->j_format_version = IN.misc[0];
	j->j_tail_sequence = IN.misc[1];
	j->j_fs_dev = devs;
	j->j_inode = 0;
	bh->b_io = (IN.choice[2] & 1) ? jio : io;
	bh->b_fs = fs;
	bh->b_blocknr = IN.block;
	bh->b_err = 0;
	bh->b_dirty = IN.choice[3] & 1;
	g_n = 0; g_k = IN.k;
	ASSUME(g_k < 1024);
	n_writes = n_closes = 0;
	int reset = IN.choice[0] & 1, drop = (IN.choice[0] >> 1) & 1;
	int rw = (IN.fs_flags & EXT2_FLAG_RW) != 0;
	int was_dirty = bh->b_dirty;
	int csum_on = IN.misc[0] >= 2 && (JW_BE32(bh->b_data, JW_SB_INCOMPAT) & (JW_INCOMPAT_CSUM_V2 | JW_INCOMPAT_CSUM_V3)) != 0;
	unsigned char old_byte = B(bh->b_data)[g_k];
	unsigned int old_start = JW_BE32(bh->b_data, JW_SB_START);
	unsigned int old_seq = JW_BE32(bh->b_data, JW_SB_SEQUENCE);
	unsigned int old_csum = JW_BE32(bh->b_data, JW_SB_CHECKSUM);
	io_channel exp_chan = bh->b_io;

	ext2fs_journal_release(fs, j, reset, drop);

	if (drop) {
		CHECK(n_writes == 0 && g_n == 0, "drop: nothing is written (and nothing computed), even if the buffer was dirty");
		REACH("dropped");
	} else if (rw) {
		CHECK(n_writes == 1, "read-write: the journal superblock is written exactly once");
		CHECK(w_chan == exp_chan && w_blk == IN.block && w_count == 1, "one block, to the buffer's block of the journal's io channel");
		CHECK(w_seq == IN.misc[1], "s_sequence = j_tail_sequence (big-endian)");
		CHECK(w_start == (reset ? 0 : old_start), "s_start = 0 iff reset (journal marked empty), else unchanged");
		if (csum_on) {
			CHECK(g_n == 1 && w_crcs == 1 && CALL_IS(0, 32, 0xFFFFFFFFu, w_buf, 1024), "the checksum is computed once, BEFORE the write, seed ~0, over the 1024 bytes that are written");
			CHECK(CALL_WIT(0, JW_IN_FIELD(g_k, JW_SB_CHECKSUM, 4) ? 0 : w_byte), "fed: the block exactly as written (s_sequence / s_start already updated), the checksum field as zero");
			CHECK(w_csum == OUT(0), "s_checksum = be32 crc");
			REACH("checksummed superblock written");
		} else {
			CHECK(g_n == 0 && w_csum == old_csum, "no v2/v3: nothing computed, s_checksum untouched");
		}
		if (!JW_IN_FIELD(g_k, JW_SB_SEQUENCE, 4) && !JW_IN_FIELD(g_k, JW_SB_START, 4) && !JW_IN_FIELD(g_k, JW_SB_CHECKSUM, 4))
			CHECK(w_byte == old_byte, "every other byte of the superblock is written as it was");
		if (reset) REACH("journal marked empty");
	} else {
		CHECK(n_writes == (was_dirty ? 1u : 0u) && g_n == 0, "read-only filesystem: written only if it was dirty already, nothing recomputed");
		if (n_writes)
			CHECK(w_byte == old_byte && w_start == old_start && w_seq == old_seq && w_csum == old_csum, "read-only filesystem: the superblock is not modified");
		REACH("read-only");
	}
	CHECK(n_closes == ((fs->io != ((IN.choice[2] & 1) ? jio : ((IN.choice[2] & 2) ? io : (io_channel)0)) && (IN.choice[2] & 3)) ? 1u : 0u), "an external journal's io channel is closed, the filesystem's own is not");
	CHECK(fs->journal_io == 0, "journal_io detached");
	REACH("end");
}
