/* VERIF-UNIT
{
 "name": "jw_block_tag_csum_set",
 "props": ["C14", "C03"],
 "level": "U",
 "tier": "quick",
 "harness": "h_tag_set",
 "enforce": ["jbd2_block_tag_csum_set"],
 "includes": ["debugfs", "e2fsck"],
 "defines": ["DEBUGFS"],
 "functions": ["debugfs/journal.c:jbd2_block_tag_csum_set"],
 "assumes": [
   "ext2fs_crc32c_le is a logging stub returning an arbitrary value (trace contract)",
   "little-endian host (WORDS_BIGENDIAN undefined)",
   "the buffer head is allocated as debugfs/journal.c:getblk does (header + blocksize data bytes), b_size == j_blocksize as at the only call site (journal_add_blocks_to_trans: getblk(.., j_blocksize)); j_blocksize enumerated over {1024, 4096}, content arbitrary",
   "journal superblock (1024 bytes) arbitrary; j_format_version 1 or 2 (the only values the journal load routines produce)",
   "the tag slot is a 16-byte object (the code is handed a pointer into the descriptor buffer; bytes of the slot that the tag format in force does not have are simply never touched)"
  ],
 "native": false
}
*/
/* VERIF-UNIT
{
 "name": "jw_descr_block_csum_set",
 "props": ["C14", "C03"],
 "level": "U",
 "tier": "quick",
 "harness": "h_descr_set",
 "enforce": ["jbd2_descr_block_csum_set"],
 "includes": ["debugfs", "e2fsck"],
 "defines": ["DEBUGFS"],
 "functions": ["debugfs/journal.c:jbd2_descr_block_csum_set", "debugfs/journal.c:jbd2_revoke_csum_set"],
 "assumes": [
   "ext2fs_crc32c_le is a logging stub returning an arbitrary value (trace contract)",
   "little-endian host (WORDS_BIGENDIAN undefined)",
   "the buffer head is allocated as debugfs/journal.c:getblk does (header + blocksize data bytes); j_blocksize enumerated over {1024, 4096}, content arbitrary",
   "journal superblock (1024 bytes) arbitrary; j_format_version 1 or 2",
   "jbd2_revoke_csum_set is a one-line forwarder to jbd2_descr_block_csum_set (harness h_descr_set calls the forwarder, the contract is enforced on the callee)"
  ],
 "native": false
}
*/
/* VERIF-UNIT
{
 "name": "jw_commit_block_csum_set",
 "props": ["C14", "C03"],
 "level": "U",
 "tier": "quick",
 "harness": "h_commit_set",
 "enforce": ["jbd2_commit_block_csum_set"],
 "includes": ["debugfs", "e2fsck"],
 "defines": ["DEBUGFS"],
 "functions": ["debugfs/journal.c:jbd2_commit_block_csum_set"],
 "assumes": [
   "ext2fs_crc32c_le is a logging stub returning an arbitrary value (trace contract)",
   "little-endian host (WORDS_BIGENDIAN undefined)",
   "the buffer head is allocated as debugfs/journal.c:getblk does (header + blocksize data bytes); j_blocksize enumerated over {1024, 4096}, content arbitrary",
   "journal superblock (1024 bytes) arbitrary; j_format_version 1 or 2"
  ],
 "native": false
}
*/
/* VERIF-UNIT
{
 "name": "jw_journal_sb_csum_set",
 "props": ["C14", "C03"],
 "level": "U",
 "tier": "quick",
 "harness": "h_jsb_set",
 "enforce": ["ext2fs_journal_sb_csum_set"],
 "includes": ["debugfs", "e2fsck"],
 "defines": ["DEBUGFS"],
 "functions": ["debugfs/journal.c:ext2fs_journal_sb_csum_set", "debugfs/journal.c:ext2fs_journal_sb_csum"],
 "assumes": [
   "ext2fs_crc32c_le is a logging stub returning an arbitrary value (trace contract)",
   "little-endian host (WORDS_BIGENDIAN undefined)",
   "jsb is the 1024-byte journal superblock buffer, content arbitrary; it may or may not be the same object as j->j_superblock",
   "j_format_version 1 or 2"
  ],
 "native": false
}
*/
/*
 * The checksum SETTERS of the debugfs / libext2fs journal writer (debugfs/journal.c), C14 clause "every metadata
 * object written by any e2fsprogs tool carries the checksum the ext4/jbd2 on-disk format defines".
 *
 * Format (kernel Documentation/filesystems/ext4/journal.rst, jbd2 checksum v2 / v3; all journal fields big-endian):
 *  checksums exist iff the journal superblock is version 2 and s_feature_incompat (be32 at 0x28) has CSUM_V2 (0x8) or CSUM_V3 (0x10).
 *  data block tag: crc32c(journal seed, be32 transaction sequence) -> the j_blocksize bytes of the block AS IT IS IN THE LOG;
 *      v3: all 32 bits, be32 at offset 12 of the 16-byte tag3;  v2: the low 16 bits, be16 at offset 4 of the tag.
 *  descriptor and revoke block: struct jbd2_journal_block_tail {be32 t_checksum} in the last 4 bytes of the block;
 *      t_checksum = crc32c(journal seed, the whole block with t_checksum taken as zero).
 *  commit block: h_chksum[0] = be32 at 0x10 = crc32c(journal seed, the whole block with h_chksum[0] taken as zero);
 *      h_chksum_type (0xC) and h_chksum_size (0xD) are unused with v2/v3 (the kernel writes them as zero).
 *  journal superblock: s_checksum = be32 at 0xFC = crc32c(~0, the 1024 bytes with s_checksum taken as zero).
 * These are the same definitions the recovery-side verifiers are proved against (proofs/csum/jcsum.c, jsb.c): a block
 * produced here is accepted there because both sides feed the same bytes (pointwise witness at the ghost offset g_k:
 * the byte fed == the byte left in the block, except inside the checksum field which is fed as zero).
 */
#define CSUM_NO_REAL_INCLUDE
#include "../csum/csum_common.h"
#include "jfs_user.h"

#define B(p) ((unsigned char *)(p))
#define IN_FIELD(k, off, n) ((k) >= (off) && (k) < (off) + (n))
#define JSB_INCOMPAT 0x28
#define JSB_CSUM 0xFC
#define J_V2 0x8u
#define J_V3 0x10u
#define J_HAS(j, bits) ((j)->j_format_version >= 2 && (SPEC_BE32((j)->j_superblock, JSB_INCOMPAT) & (bits)) != 0)
#define J_CSUM(j) J_HAS(j, J_V2 | J_V3)
#define JBS(j) ((unsigned long)(j)->j_blocksize)
#define SPEC_BSWAP32(v) ((((v) & 0xFFu) << 24) | (((v) & 0xFF00u) << 8) | (((v) >> 8) & 0xFF00u) | (((v) >> 24) & 0xFFu))
/* byte i (0 = first on disk) of the big-endian n-byte encoding of v */
#define BE_BYTE(v, n, i) SPEC_BYTE(v, (n) - 1 - (i))

unsigned long g_tk;		/* ghost offset inside the 16-byte tag slot */
unsigned char g_toldb;		/* byte of the tag slot at g_tk on entry */
unsigned int g_on;		/* ghost: J_CSUM(j) on entry */
unsigned int g_v3;		/* ghost: J_HAS(j, V3) on entry */

#define BH_PRE(j, bh) ((j->j_blocksize == 1024 || j->j_blocksize == 4096) && (j->j_format_version == 1 || j->j_format_version == 2) && \
	g_n == 0 && g_k < JBS(j) && g_oldb == B(bh->b_data)[g_k] && g_on == J_CSUM(j) && g_v3 == J_HAS(j, J_V3))

void jbd2_block_tag_csum_set(journal_t *j, journal_block_tag_t *tag, struct buffer_head *bh, __u32 sequence)
	REQUIRES(BH_PRE(j, bh) && bh->b_size == j->j_blocksize && g_tk < 16 && g_toldb == B(tag)[g_tk])
	ASSIGNS(__CPROVER_object_whole(tag), LOG_FRAME)
	ENSURES(B(bh->b_data)[g_k] == g_oldb)					/* the logged block is not touched */
	ENSURES(g_on || (g_n == 0 && B(tag)[g_tk] == g_toldb))
	ENSURES(!g_on || (g_n == 2 && CALL_VAL(0, 32, j->j_csum_seed, 4, SPEC_BSWAP32(sequence))))
	ENSURES(!g_on || (CALL_IS(1, 32, OUT(0), bh->b_data, JBS(j)) && CALL_WIT(1, g_oldb)))
	ENSURES(!g_v3 || B(tag)[g_tk] == (IN_FIELD(g_tk, 12, 4) ? BE_BYTE(OUT(1), 4, g_tk - 12) : g_toldb))
	ENSURES(!(g_on && !g_v3) || B(tag)[g_tk] == (IN_FIELD(g_tk, 4, 2) ? BE_BYTE(OUT(1) & 0xFFFFu, 2, g_tk - 4) : g_toldb));

void jbd2_descr_block_csum_set(journal_t *j, struct buffer_head *bh)
	REQUIRES(BH_PRE(j, bh))
	ASSIGNS(__CPROVER_object_whole(bh), LOG_FRAME)
	ENSURES(g_on || (g_n == 0 && B(bh->b_data)[g_k] == g_oldb))
	ENSURES(!g_on || (g_n == 1 && CALL_IS(0, 32, j->j_csum_seed, bh->b_data, JBS(j)) && CALL_WIT(0, IN_FIELD(g_k, JBS(j) - 4, 4) ? 0 : g_oldb)))
	ENSURES(!g_on || B(bh->b_data)[g_k] == (IN_FIELD(g_k, JBS(j) - 4, 4) ? BE_BYTE(OUT(0), 4, g_k - (JBS(j) - 4)) : g_oldb));

/* bytes 0xC, 0xD (unused h_chksum_type / h_chksum_size) are written as zero and fed as zero */
#define COMMIT_FED(k) ((IN_FIELD(k, 0xC, 2) || IN_FIELD(k, 0x10, 4)) ? 0 : g_oldb)
void jbd2_commit_block_csum_set(journal_t *j, struct buffer_head *bh)
	REQUIRES(BH_PRE(j, bh))
	ASSIGNS(__CPROVER_object_whole(bh), LOG_FRAME)
	ENSURES(g_on || (g_n == 0 && B(bh->b_data)[g_k] == g_oldb))
	ENSURES(!g_on || (g_n == 1 && CALL_IS(0, 32, j->j_csum_seed, bh->b_data, JBS(j)) && CALL_WIT(0, COMMIT_FED(g_k))))
	ENSURES(!g_on || B(bh->b_data)[g_k] == (IN_FIELD(g_k, 0x10, 4) ? BE_BYTE(OUT(0), 4, g_k - 0x10) : COMMIT_FED(g_k)));

#define JSB_PRE(j, jsb) ((j->j_format_version == 1 || j->j_format_version == 2) && g_n == 0 && g_k < 1024 && g_oldb == B(jsb)[g_k])
#define JSB_CHAIN(jsb) (g_n == 1 && CALL_IS(0, 32, 0xFFFFFFFFu, jsb, 1024) && CALL_WIT(0, IN_FIELD(g_k, JSB_CSUM, 4) ? 0 : g_oldb))
#define JSB_NEWB (IN_FIELD(g_k, JSB_CSUM, 4) ? BE_BYTE(OUT(0), 4, g_k - JSB_CSUM) : g_oldb)
static errcode_t ext2fs_journal_sb_csum_set(journal_t *j, journal_superblock_t *jsb)
	REQUIRES(JSB_PRE(j, jsb) && g_on == J_CSUM(j))
	ASSIGNS(__CPROVER_object_whole(jsb), LOG_FRAME)
	ENSURES(RET == 0)
	ENSURES(g_on == J_CSUM(j))
	ENSURES(g_on || (g_n == 0 && B(jsb)[g_k] == g_oldb))
	ENSURES(!g_on || JSB_CHAIN(jsb))
	ENSURES(!g_on || B(jsb)[g_k] == JSB_NEWB);

#include "debugfs/journal.c"

__u32 ext2fs_crc32c_le(__u32 crc, unsigned char const *p, size_t len)
{
	return verif_crc_stub(32, crc, p, len);
}

static journal_t *g_j;
static struct buffer_head *g_bh;
static void build_journal(void)
{
	LOAD_IN();
	g_j = malloc(sizeof(*g_j));
	journal_superblock_t *jsb = malloc(1024);	/* arbitrary content */
	ASSUME(g_j && jsb);
	memset(g_j, 0, sizeof(*g_j));
	g_j->j_superblock = jsb;
	ASSUME(IN.blocksize == 1024 || IN.blocksize == 4096);
	ASSUME(IN.misc[0] == 1 || IN.misc[0] == 2);
	g_j->j_blocksize = IN.blocksize;
	g_j->j_format_version = IN.misc[0];
	g_j->j_csum_seed = IN.csum_seed;
	/* as getblk(): the header plus exactly blocksize data bytes (arbitrary content) */
	g_bh = malloc(sizeof(*g_bh) - sizeof(g_bh->b_data) + IN.blocksize);
	ASSUME(g_bh != 0);
	g_bh->b_size = IN.blocksize;
	g_n = 0; g_k = IN.k;
	ASSUME(g_k < IN.blocksize);
	g_oldb = B(g_bh->b_data)[g_k];
	g_on = J_CSUM(g_j);
	g_v3 = J_HAS(g_j, J_V3);
}

void h_tag_set(void)
{
	build_journal();
	unsigned char *tag = malloc(16);		/* arbitrary content */
	ASSUME(tag != 0);
	g_tk = IN.misc[2];
	ASSUME(g_tk < 16);
	g_toldb = tag[g_tk];
	jbd2_block_tag_csum_set(g_j, (journal_block_tag_t *)tag, g_bh, IN.misc[1]);
	unsigned char now = tag[g_tk];
	CHECK(B(g_bh->b_data)[g_k] == g_oldb, "the logged block is not modified");
	if (!g_on) {
		CHECK(g_n == 0 && now == g_toldb, "no v2/v3 checksums: nothing computed, tag untouched");
		REACH("off");
	} else {
		CHECK(g_n == 2 && CALL_VAL(0, 32, IN.csum_seed, 4, SPEC_BSWAP32(IN.misc[1])), "first: journal seed, be32 transaction sequence");
		CHECK(CALL_IS(1, 32, OUT(0), g_bh->b_data, IN.blocksize) && CALL_WIT(1, g_oldb), "second: chained, the j_blocksize bytes of the buffer as they are");
		if (g_v3) {
			CHECK(now == (IN_FIELD(g_tk, 12, 4) ? BE_BYTE(OUT(1), 4, g_tk - 12) : g_toldb), "v3: be32 at tag+12 = crc, rest of the slot unchanged");
			REACH("v3");
		} else {
			CHECK(now == (IN_FIELD(g_tk, 4, 2) ? BE_BYTE(OUT(1) & 0xFFFFu, 2, g_tk - 4) : g_toldb), "v2: be16 at tag+4 = low 16 bits of crc, rest unchanged");
			REACH("v2");
		}
	}
	REACH("end");
}

void h_descr_set(void)
{
	build_journal();
	jbd2_revoke_csum_set(g_j, g_bh);	/* forwards to jbd2_descr_block_csum_set */
	unsigned char now = B(g_bh->b_data)[g_k];
	unsigned long t = IN.blocksize - 4;
	if (!g_on) {
		CHECK(g_n == 0 && now == g_oldb, "no v2/v3 checksums: nothing computed or stored");
	} else {
		CHECK(g_n == 1 && CALL_IS(0, 32, IN.csum_seed, g_bh->b_data, IN.blocksize), "one crc32c call: journal seed, the whole block");
		CHECK(CALL_WIT(0, IN_FIELD(g_k, t, 4) ? 0 : g_oldb), "fed with the tail checksum zero, all else as is");
		CHECK(now == (IN_FIELD(g_k, t, 4) ? BE_BYTE(OUT(0), 4, g_k - t) : g_oldb), "tail = be32 crc in the last four bytes, every other byte unchanged");
		if (IN_FIELD(g_k, t, 4)) REACH("tail byte");
	}
	REACH("end");
}

void h_commit_set(void)
{
	build_journal();
	jbd2_commit_block_csum_set(g_j, g_bh);
	unsigned char now = B(g_bh->b_data)[g_k];
	if (!g_on) {
		CHECK(g_n == 0 && now == g_oldb, "no v2/v3 checksums: nothing computed or stored");
	} else {
		CHECK(g_n == 1 && CALL_IS(0, 32, IN.csum_seed, g_bh->b_data, IN.blocksize), "one crc32c call: journal seed, the whole block");
		CHECK(CALL_WIT(0, IN_FIELD(g_k, 0x10, 4) ? 0 : now), "fed: h_chksum[0] as zero, every other byte exactly as it is left in the block (what the verifier will feed)");
		CHECK(now == (IN_FIELD(g_k, 0x10, 4) ? BE_BYTE(OUT(0), 4, g_k - 0x10) : COMMIT_FED(g_k)), "h_chksum[0] = be32 crc; unused type/size bytes zero; every other byte unchanged");
		if (IN_FIELD(g_k, 0x10, 4)) REACH("checksum byte");
	}
	REACH("end");
}

void h_jsb_set(void)
{
	LOAD_IN();
	g_j = malloc(sizeof(*g_j));
	journal_superblock_t *jsb0 = malloc(1024), *jsb;	/* arbitrary content */
	ASSUME(g_j && jsb0);
	memset(g_j, 0, sizeof(*g_j));
	g_j->j_superblock = jsb0;
	ASSUME(IN.misc[0] == 1 || IN.misc[0] == 2);
	g_j->j_format_version = IN.misc[0];
	if (IN.choice[0] & 1) {
		jsb = jsb0;
	} else {
		jsb = malloc(1024);			/* arbitrary content */
		ASSUME(jsb != 0);
	}
	g_n = 0; g_k = IN.k;
	ASSUME(g_k < 1024);
	g_oldb = B(jsb)[g_k];
	g_on = J_CSUM(g_j);
	errcode_t r = ext2fs_journal_sb_csum_set(g_j, jsb);
	unsigned char now = B(jsb)[g_k];
	CHECK(r == 0, "returns 0");
	if (!g_on) {
		CHECK(g_n == 0 && now == g_oldb, "no v2/v3 checksums: nothing computed or stored");
	} else {
		CHECK(JSB_CHAIN(jsb), "one crc32c call: seed ~0, the 1024 bytes with s_checksum zero");
		CHECK(now == JSB_NEWB, "s_checksum = be32 crc, every other byte unchanged");
		REACH("stored");
	}
	REACH("end");
}
