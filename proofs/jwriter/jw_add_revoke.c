/* VERIF-UNIT
{
 "name": "jw_add_revoke_to_trans_1k",
 "props": [
  "C14",
  "C03"
 ],
 "level": "U/iter",
 "tier": "quick",
 "tier_after_hooks": "quick",
 "harness": "h_add_revoke",
 "loop_contracts": true,
 "includes": [
  "debugfs",
  "lib/ss",
  "e2fsck"
 ],
 "defines": [
  "DEBUGFS",
  "JW_BS=1024"
 ],
 "unwind": 6,
 "unwind_reason": "the per-record loop of journal_add_revoke_to_trans is cut by its in-place loop contract (named anchor VERIF_INV_JOURNAL_ADD_REVOKE_TO_TRANS, hooks-pending/jw.diff); the bound serves the DFCC library loops only (unwinding assertions on)",
 "functions": [
  "debugfs/do_journal.c:journal_add_revoke_to_trans"
 ],
 "assumes": [
  "NEEDS the hook in hooks-pending/jw.diff (named loop anchors in debugfs/do_journal.c)",
  "no contract enforced on journal_add_revoke_to_trans: the statement is carried by ghost monitors in the callee stubs (jw_stubs.h) and by harness CHECKs",
  "callees are stubs: getblk (succeeds; the ENOMEM return is not exercised), ll_rw_block (device write = monitored event, may fail), brelse (a buffer still dirty at its release is reported unless a write failed before), mark_buffer_dirty, jbd2_journal_bmap (physical = logical + constant, may fail), ext2fs_blocks_count (constant; it is called exactly once per list entry, before the entry is stored, and serves as the monitor's record counter), jbd2_revoke_csum_set (stores an ARBITRARY value in the checksum tail when checksums are on and records the block at that moment; the real one: unit jw_descr_block_csum_set)",
  "U/iter: proved for the first iteration from the real initial state and for one iteration from an arbitrary state satisfying the proved invariant (fill offset = 16 + records * record size, header intact, records already in the block = the list entries in order, nothing pending); the epilogue (last revoke block) from an arbitrary such state",
  "pointwise: ONE arbitrary record number g_rr of the block being filled and ONE arbitrary byte offset g_kd of the block stand for all",
  "j_blocksize 1024 (this unit) / 4096 (unit _4k); j_format_version 1 or 2; journal superblock arbitrary (32/64-bit records, with and without checksum tail); revoke list of up to JW_MAXLEN = 2^20 arbitrary entries",
  "a journal without the 64BIT feature belongs to a filesystem of fewer than 2^32 blocks (do_journal_open: update_64bit_flag sets the feature whenever the filesystem has 64bit and the journal is clean; the kernel sets it at mount)",
  "buffer heads are allocated as getblk does plus 32 slack bytes that are never accessed; little-endian host; errcode_t values fit in 31 bits"
 ],
 "native": false
}
*/
/* VERIF-UNIT
{
 "name": "jw_add_revoke_to_trans_4k",
 "props": [
  "C14",
  "C03"
 ],
 "level": "U/iter",
 "tier": "thorough",
 "tier_after_hooks": "thorough",
 "timeout": 900,
 "harness": "h_add_revoke",
 "loop_contracts": true,
 "includes": [
  "debugfs",
  "lib/ss",
  "e2fsck"
 ],
 "defines": [
  "DEBUGFS",
  "JW_BS=4096"
 ],
 "unwind": 6,
 "unwind_reason": "as jw_add_revoke_to_trans_1k",
 "functions": [
  "debugfs/do_journal.c:journal_add_revoke_to_trans"
 ],
 "assumes": [
  "as jw_add_revoke_to_trans_1k, with j_blocksize 4096"
 ],
 "native": false,
 "no_cross_check": true
}
*/
/*
 * debugfs journal writer, revoke records (C03: the revoke blocks recovery's scan_revoke_records parses; C14: they
 * carry the block checksum).
 *
 * Statement (format: specs/jw_jbd2_format.h "Revoke block"), checked when a revoke block goes to the device:
 *  header magic / blocktype 5 / the transaction's sequence;
 *  r_count (be32 at 0xC) = 16 + n * record size, n >= 1 the number of records in the block, r_count <= the usable size
 *      (block size minus the 4-byte checksum tail when CSUM_V2/V3 is on);
 *  record number r < n (at 16 + r * size; big-endian, 8 bytes with 64BIT, else 4) = the list entry that was the r-th to be
 *      put into this block, the entries being taken in list order without gaps or repetition; every entry is a
 *      block of the filesystem (an entry >= blocks count stops the function with EXT2_ET_BAD_BLOCK_NUM before it is stored);
 *  the block checksum routine ran after r_count and the last record were stored and the block is written exactly as
 *      it was then;
 *  it is written, marked dirty, through jbd2_journal_bmap at the next log position: the first at trans->block, each
 *      further one directly behind (a block is closed inside the loop only when the next record does not fit).
 * Epilogue: on success every list entry is in a revoke block that was written, trans->block is the first free log
 * block, the buffer was released once; a device / mapping error is returned.
 */
#include "jw_env.h"

#define JW_RSHIFT (g_rsz == 8 ? 3 : 2)
#define VERIF_INV_JOURNAL_ADD_REVOKE_TO_TRANS \
	__CPROVER_assigns(i, offset, err, curr_blk, __CPROVER_object_whole(bh), G) \
	__CPROVER_loop_invariant(i <= revoke_len && G.nticks == i && G.sealed == 0 && G.failed == 0 && G.ntags <= i && (i == 0 || G.ntags >= 1)) \
	__CPROVER_loop_invariant(bh->b_err == 0 && bh->b_dirty == 0) \
	__CPROVER_loop_invariant(offset == 16 + (G.ntags << JW_RSHIFT) && offset <= g_usable) \
	__CPROVER_loop_invariant(curr_blk == G.desc_slot && G.desc_slot >= IN.trans_block && G.desc_slot <= IN.trans_block + i) \
	__CPROVER_loop_invariant(JW_BE32(buf, 0) == JW_MAGIC && JW_BE32(buf, 4) == JW_BT_REVOKE && JW_BE32(buf, 8) == g_tid) \
	__CPROVER_loop_invariant(!(g_rr < G.ntags) || \
		(g_rsz == 8 ? JW_BE64(buf, 16 + (g_rr << 3)) : (unsigned long long)JW_BE32(buf, 16 + (g_rr << 2))) == revoke_list[i - G.ntags + g_rr]) \
	__CPROVER_loop_invariant(!(g_rr < G.ntags) || revoke_list[i - G.ntags + g_rr] < IN.fs_blocks) \
	__CPROVER_decreases(revoke_len - i)

#include "debugfs/do_journal.c"

#define JW_META_BH g_bh0
/* the record counter: ext2fs_blocks_count is called once per list entry, directly before the entry is stored */
#define JW_TICK_COUNTS_RECORD
#include "jw_stubs.h"

static struct jw_ghost jw_on_read(struct jw_ghost g, struct buffer_head *bh, unsigned long long logical)
{
	CHECK(0, "journal_add_revoke_to_trans reads nothing from the journal");
	return g;
}

static struct jw_ghost jw_on_write(struct jw_ghost g, struct buffer_head *bh, unsigned long long logical)
{
	unsigned int rcount = JW_BE32(bh->b_data, 0xC);
	unsigned long long rec;
	CHECK(bh == JW_META_BH, "write of the revoke buffer");
	g.n_desc++;
	CHECK(JW_BE32(bh->b_data, 0) == JW_MAGIC && JW_BE32(bh->b_data, 4) == JW_BT_REVOKE && JW_BE32(bh->b_data, 8) == g_tid,
	      "revoke block header: magic, blocktype 5, the transaction's sequence");
	CHECK(g.ntags >= 1 && rcount == 16 + (g.ntags << JW_RSHIFT), "r_count = 16 + records * record size (4, or 8 with 64BIT), at least one record");
	CHECK(rcount <= g_usable, "the records end before the checksum tail");
	if (g_rr < g.ntags) {
		rec = g_rsz == 8 ? JW_BE64(bh->b_data, 16 + (g_rr << 3)) : (unsigned long long)JW_BE32(bh->b_data, 16 + (g_rr << 2));
		CHECK(g.nticks - g.ntags + g_rr < IN.len && rec == g_list[g.nticks - g.ntags + g_rr],
		      "record r of the block = the list entry that was the r-th put into it (list order, big-endian, 4/8 bytes per feature)");
		CHECK(rec < IN.fs_blocks, "a revoke record names a block of the filesystem");
		REACH("record checked");
	}
	CHECK(logical == g.desc_slot, "revoke blocks are written at consecutive log positions starting at trans->block");
	if (g_csum_on)
		JW_CHECK_SEALED(bh);
	g.sealed = 0;
	if (g.ntags > 1) REACH("several records");
	g.desc_slot++;
	g.ntags = 0;
	return g;
}

void h_add_revoke(void)
{
	jw_build();
	ASSUME(IN.len <= JW_MAXLEN);
	g_list = malloc((IN.len + 1) * sizeof(blk64_t));	/* arbitrary content; symbolic size: the verifier must not flatten it */
	ASSUME(g_list != 0);
	/* 32-bit records can only name blocks of a filesystem below 2^32 blocks (see assumes) */
	ASSUME(g_64 || IN.fs_blocks <= (1ull << 32));
	G.desc_slot = IN.trans_block;
	g_trans.flags = IN.flags;
	g_trans.magic = IN.misc ? J_TRANS_MAGIC : 0;

	errcode_t r = journal_add_revoke_to_trans(&g_trans, g_list, IN.len);

	if (!IN.misc || (IN.flags & J_TRANS_COMMITTED) || !(IN.flags & J_TRANS_OPEN)) {
		CHECK(r == EXT2_ET_INVALID_ARGUMENT && g_getblks == 0 && G.n_desc == 0 && g_trans.block == IN.trans_block,
		      "not an open transaction: refused, nothing written");
		REACH("refused");
		return;
	}
	if (IN.len == 0) {
		CHECK(r == 0 && g_getblks == 0 && G.n_desc == 0 && g_trans.block == IN.trans_block, "empty list: nothing written");
		REACH("empty");
		return;
	}
	CHECK(g_brelses == g_getblks, "the buffer obtained is released exactly once");
	CHECK(g_trans.flags == IN.flags && g_trans.tid == IN.tid && g_trans.start == IN.trans_start, "transaction state otherwise unchanged");
	if (G.failed) {
		CHECK(r == G.fail_code, "a device or mapping error is returned");
		REACH("io error");
	}
	if (r == EXT2_ET_BAD_BLOCK_NUM && !G.failed) REACH("bad block number refused");
	if (r == 0 && g_getblks == 1) {
		CHECK(!G.failed, "success only without device errors");
		CHECK(G.nticks == IN.len && G.ntags == 0 && G.sealed == 0, "every list entry is in a revoke block that was written");
		CHECK(g_trans.block == G.desc_slot, "trans->block = the first free log block behind the last revoke block");
		REACH("success");
	}
	REACH("end");
}
