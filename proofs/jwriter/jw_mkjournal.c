/* VERIF-UNIT
{
 "name": "jw_create_journal_superblock",
 "props": ["C14", "C03"],
 "level": "U",
 "tier": "quick",
 "harness": "h_create_jsb",
 "enforce": ["ext2fs_create_journal_superblock2"],
 "functions": ["lib/ext2fs/mkjournal.c:ext2fs_create_journal_superblock2", "lib/ext2fs/mkjournal.c:ext2fs_journal_sb_start"],
 "assumes": [
   "filesystem block size enumerated over {1024, 4096} (the function is called once per value with the size a constant: memset of a symbolic length is intractable); the filesystem superblock (1024 bytes) is arbitrary: UUID, feature words",
   "num_journal_blocks + num_fc_blocks does not wrap 32 bits (ext2fs_get_journal_params derives both from one 32-bit block count; mke2fs/tune2fs bound the size by the filesystem size)",
   "little-endian host",
   "pointwise: ONE arbitrary byte offset g_k < blocksize of the returned block stands for all bytes"
  ],
 "native": false
}
*/
/*
 * lib/ext2fs/mkjournal.c:ext2fs_create_journal_superblock2 - the journal superblock mke2fs / tune2fs / e2fsck write
 * into a new journal (inode journal, journal file, or external journal device).
 *
 * Specification (specs/jw_jbd2_format.h; kernel journal.rst "Super Block"; all fields big-endian), as a function of
 * the byte offset k inside the returned block of fs->blocksize bytes:
 *   0x00 be32 magic 0xC03B3998    0x04 be32 blocktype: 4 (superblock v2), or 3 iff EXT2_MKJOURNAL_V1_SUPER is requested
 *   0x08 be32 h_sequence 0        0x0C be32 s_blocksize = the block size
 *   0x10 be32 s_maxlen  = journal blocks + fast-commit blocks (total number of blocks of the journal)
 *   0x14 be32 s_first   = first block of log information: 1 for a journal inside the filesystem (the superblock is
 *                         block 0 of the journal); for an external journal DEVICE (the "filesystem" handle then has
 *                         the journal_dev feature: ext4 incompat 0x0008) the journal superblock sits in block
 *                         sb_start = 2 (1 KiB blocks) or 1 (larger), and s_first = sb_start + 1
 *   0x18 be32 s_sequence = 1      0x1C be32 s_start = 0: the journal is EMPTY      0x20 s_errno = 0
 *   0x24..0x2F feature words = 0 (the kernel / debugfs set 64BIT, REVOKE, CSUM_V3 when they first use the journal)
 *   0x30 u8[16] s_uuid  = the UUID of the filesystem (of the journal device for an external journal)
 *   0x40 be32 s_nr_users = 1 for an internal journal, 0 for a fresh external journal device (users are added later)
 *   0x54 be32 s_num_fc_blks = fast-commit blocks
 *   every other byte of the block, including s_checksum (no checksum feature => must be 0) and s_users: ZERO.
 * A journal of fewer than JBD2_MIN_JOURNAL_BLOCKS (1024) blocks is refused and nothing is returned.
 */
#include "verif.h"
#include "jw_jbd2_format.h"

struct in_mkj {
	unsigned int num_journal_blocks, num_fc_blocks;
	int flags;
	unsigned long k;
	int big;		/* 0: 1 KiB blocks, else 4 KiB */
};
struct in_mkj IN;
#include "verif_in.h"

unsigned long g_k;
unsigned int g_bs;
const unsigned char *g_sb;	/* the 1024-byte filesystem superblock */
#define SPEC_FS_INCOMPAT 0x60	/* le32 s_feature_incompat */
#define SPEC_FS_UUID 0x68	/* u8[16] s_uuid */
#define SPEC_FS_INCOMPAT_JOURNAL_DEV 0x0008u
#define SPEC_EXTERNAL() ((g_sb[SPEC_FS_INCOMPAT] & SPEC_FS_INCOMPAT_JOURNAL_DEV) != 0)

/* expected byte k of the journal superblock block */
static unsigned char spec_jsb_byte(unsigned long k, unsigned int bs, unsigned int nblocks, unsigned int nfc, int v1, int external,
				   const unsigned char *uuid)
{
	unsigned int first = external ? (bs == 1024 ? 2u : 1u) + 1u : 1u;
	if (JW_IN_FIELD(k, 0x00, 4)) return JW_BE_BYTE(JW_MAGIC, 4, k);
	if (JW_IN_FIELD(k, 0x04, 4)) return JW_BE_BYTE(v1 ? JW_BT_SB_V1 : JW_BT_SB_V2, 4, k - 0x04);
	if (JW_IN_FIELD(k, JW_SB_BLOCKSIZE, 4)) return JW_BE_BYTE(bs, 4, k - JW_SB_BLOCKSIZE);
	if (JW_IN_FIELD(k, JW_SB_MAXLEN, 4)) return JW_BE_BYTE(nblocks + nfc, 4, k - JW_SB_MAXLEN);
	if (JW_IN_FIELD(k, JW_SB_FIRST, 4)) return JW_BE_BYTE(first, 4, k - JW_SB_FIRST);
	if (JW_IN_FIELD(k, JW_SB_SEQUENCE, 4)) return JW_BE_BYTE(1u, 4, k - JW_SB_SEQUENCE);
	if (JW_IN_FIELD(k, JW_SB_UUID, 16)) return uuid[k - JW_SB_UUID];
	if (JW_IN_FIELD(k, JW_SB_NR_USERS, 4)) return JW_BE_BYTE(external ? 0u : 1u, 4, k - JW_SB_NR_USERS);
	if (JW_IN_FIELD(k, 0x54, 4)) return JW_BE_BYTE(nfc, 4, k - 0x54);
	return 0;
}

#include "config.h"
#include "ext2fs/ext2_fs.h"
#include "ext2fs/ext2fs.h"
errcode_t ext2fs_create_journal_superblock2(ext2_filsys fs, struct ext2fs_journal_params *jparams, int flags, char **ret_jsb)
	REQUIRES(g_bs == 1024 || g_bs == 4096)
	REQUIRES(g_k < g_bs)
	ASSIGNS(*ret_jsb)
	ENSURES(IN.num_journal_blocks >= 1024 || RET == EXT2_ET_JOURNAL_TOO_SMALL)
	ENSURES(IN.num_journal_blocks < 1024 || RET == 0 || RET == EXT2_ET_NO_MEMORY)
	ENSURES(RET != 0 || ((const unsigned char *)*ret_jsb)[g_k] ==
		spec_jsb_byte(g_k, g_bs, IN.num_journal_blocks, IN.num_fc_blocks, IN.flags & 1, SPEC_EXTERNAL(), g_sb + SPEC_FS_UUID));

#include "lib/ext2fs/mkjournal.c"

void h_create_jsb(void)
{
	LOAD_IN();
	struct struct_ext2_filsys *fs = malloc(sizeof(*fs));
	struct ext2_super_block *sb = malloc(1024);	/* arbitrary content */
	struct ext2fs_journal_params jp;
	char *ret = 0;
	errcode_t r;
	ASSUME(fs && sb);
	memset(fs, 0, sizeof(*fs));
	fs->super = sb;
	g_sb = (const unsigned char *)sb;
	g_k = IN.k;
	jp.num_journal_blocks = IN.num_journal_blocks;
	jp.num_fc_blocks = IN.num_fc_blocks;
	ASSUME((unsigned long long)IN.num_journal_blocks + IN.num_fc_blocks <= 0xFFFFFFFFull);
	if (IN.big) {
		g_bs = 4096; fs->blocksize = 4096;
		ASSUME(g_k < 4096);
		r = ext2fs_create_journal_superblock2(fs, &jp, IN.flags, &ret);
	} else {
		g_bs = 1024; fs->blocksize = 1024;
		ASSUME(g_k < 1024);
		r = ext2fs_create_journal_superblock2(fs, &jp, IN.flags, &ret);
	}
	if (IN.num_journal_blocks < 1024) {
		CHECK(r == EXT2_ET_JOURNAL_TOO_SMALL && ret == 0, "fewer than 1024 journal blocks: refused, nothing returned");
		REACH("too small");
	} else if (r == EXT2_ET_NO_MEMORY) {
		CHECK(ret == 0, "out of memory: nothing returned");
		REACH("no memory");
	} else {
		CHECK(r == 0 && ret != 0, "a block is returned");
		CHECK(__CPROVER_r_ok(ret, g_bs), "of fs->blocksize bytes");
		CHECK(((const unsigned char *)ret)[g_k] == spec_jsb_byte(g_k, g_bs, IN.num_journal_blocks, IN.num_fc_blocks, IN.flags & 1, SPEC_EXTERNAL(), g_sb + SPEC_FS_UUID),
		      "every byte of the journal superblock is what the format prescribes (big-endian fields, empty journal, no features, zero elsewhere)");
		if (SPEC_EXTERNAL()) REACH("external journal device"); else REACH("internal journal");
		if (IN.flags & 1) REACH("v1 superblock");
		if (JW_IN_FIELD(g_k, JW_SB_MAXLEN, 4)) REACH("maxlen byte");
		if (JW_IN_FIELD(g_k, JW_SB_UUID, 16)) REACH("uuid byte");
		if (g_k >= 0x100) REACH("tail byte");
	}
	REACH("end");
}
