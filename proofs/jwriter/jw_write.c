/* VERIF-UNIT
{
 "name": "jw_journal_write_protocol",
 "props": ["C03", "C04", "C14"],
 "level": "P",
 "tier": "quick",
 "tier_after_hooks": "quick",
 "harness": "h_write",
 "replace": ["journal_add_blocks_to_trans", "journal_add_revoke_to_trans"],
 "includes": ["debugfs", "lib/ss", "e2fsck"],
 "defines": ["DEBUGFS", "JW_BS=1024"],
 "unwind": 6,
 "unwind_reason": "journal_write, journal_open_trans, journal_guess_blocks, journal_close_trans and journal_commit_trans without the v1 checksum are loop-free (the v1 block loop of journal_commit_trans is unreachable: compat feature word 0, see assumes; unit jw_commit_trans covers it); the bound serves the DFCC library loops (unwinding assertions on)",
 "functions": ["debugfs/do_journal.c:journal_write", "debugfs/do_journal.c:journal_open_trans", "debugfs/do_journal.c:journal_close_trans", "debugfs/do_journal.c:journal_guess_blocks", "debugfs/do_journal.c:journal_commit_trans"],
 "assumes": [
   "NEEDS the hook in hooks-pending/jw.diff only because debugfs/do_journal.c is compiled with the guard on (no loop contract is applied in this unit)",
   "journal_add_blocks_to_trans and journal_add_revoke_to_trans are replaced by contracts: precondition = an open transaction of this journal with the sequence number and start block journal_open_trans must have chosen, the caller's list arguments passed through; effect = trans->block advanced by at most 2 blocks per list entry plus 2, any return value (what they write: units jw_add_blocks_to_trans, jw_add_revoke_to_trans_*)",
   "journal_commit_trans, journal_close_trans, journal_open_trans, journal_guess_blocks are the real code; buffer layer / bmap / checksum setter / gettimeofday are the stubs of jw_stubs.h (commit block write = monitored event, may fail)",
   "journal s_feature_compat = 0 (no v1 whole-transaction checksum; that loop is the subject of unit jw_commit_trans); every other journal superblock byte, the filesystem superblock, the journal_t counters (j_first, j_last, j_head, j_tail, sequences) are arbitrary up to: block numbers below 2^40, list lengths up to 2^20",
   "j_blocksize 1024; getblk succeeds",
   "NOT demanded here: the value of j_head after the transaction (unit jw_journal_write_head, finding C03_jw_head_overlaps_commit)",
   "little-endian host; errcode_t values fit in 31 bits"
  ],
 "native": false
}
*/
/* VERIF-UNIT
{
 "name": "jw_journal_write_head",
 "props": ["C03"],
 "level": "P",
 "tier": "quick",
 "harness": "h_write",
 "replace": ["journal_add_blocks_to_trans", "journal_add_revoke_to_trans"],
 "includes": ["debugfs", "lib/ss", "e2fsck"],
 "defines": ["DEBUGFS", "JW_BS=1024", "JW_CHECK_HEAD"],
 "unwind": 6,
 "unwind_reason": "as jw_journal_write_protocol",
 "functions": ["debugfs/do_journal.c:journal_write", "debugfs/do_journal.c:journal_close_trans", "debugfs/do_journal.c:journal_guess_blocks"],
 "assumes": ["as jw_journal_write_protocol, plus: after a committed transaction j_head (where the next transaction of this session starts) is the first log block behind the commit block: EXPECTED TO FAIL on the tree (finding C03_jw_head_overlaps_commit: j_head = trans->end + 1 is computed from the ESTIMATE of journal_guess_blocks, which is one short when a transaction has both data and revoke blocks)"],
 "native": false
}
*/
/*
 * debugfs journal writer, one whole "journal_write" (C03/C04 writer-side protocol P).
 *
 *  (order)   data blocks, then revoke blocks, then - unless JOURNAL_WRITE_NO_COMMIT - the commit block, written directly
 *            behind them with the transaction's sequence number; a failure of any step stops the sequence and is returned;
 *  (seq)     the transaction takes the sequence number and start block the journal state prescribes: a clean journal
 *            (j_tail == 0): s_sequence's in-memory copy j_tail_sequence and j_first; otherwise j_transaction_sequence
 *            and j_head; it is refused with ENOSPC, nothing written, when the estimate does not fit before j_last;
 *  (publish) the in-memory journal superblock (s_start, s_sequence) and the journal_t tail/sequence counters are not
 *            changed before the commit block has been written successfully: they are what they were on entry at the
 *            moment the commit block goes to the device, and on every path without a successful commit (error,
 *            NO_COMMIT, ENOSPC) they are unchanged on return, as is the filesystem superblock's needs_recovery;
 *  (after)   after a successful commit: clean journal -> j_tail = start, j_tail_sequence = sequence, s_start =
 *            be32(start) (the log now starts there); j_transaction_sequence = sequence + 1; needs_recovery set and the
 *            filesystem superblock dirty; the journal superblock itself is NOT written here (it goes out, checksummed,
 *            when the journal is closed: unit jw_journal_release);
 *  (revoke)  a transaction with revoke records sets the REVOKE incompat feature in the (in-memory) journal superblock
 *            and marks its buffer dirty - the only change made before the commit.
 */
#include "jw_env.h"

/* ghost sequence of the steps */
unsigned int g_seq, g_s_blocks, g_s_revoke, g_s_commit;
unsigned long long g_exp_start;		/* start block journal_open_trans has to choose */
unsigned long long g_blk_after;		/* trans->block after the latest step */

#include "debugfs/do_journal.c"

#define JW_META_BH g_bh0
#include "jw_stubs.h"

/*
 * Contracts of the two replaced steps (on re-declarations behind the real file: struct journal_transaction_s is
 * defined in do_journal.c itself).  Preconditions = what journal_write has to hand over; effects = the frame the units
 * jw_add_blocks_to_trans / jw_add_revoke_to_trans_* establish (only trans->block moves, forward).
 */
#define TRANS_OK(t) ((t)->magic == J_TRANS_MAGIC && (t)->flags == J_TRANS_OPEN && (t)->journal == g_journal && (t)->fs == g_fs && \
	(t)->tid == g_tid && (t)->start == g_exp_start)
static errcode_t journal_add_blocks_to_trans(journal_transaction_t *trans, blk64_t *block_list, size_t block_len, FILE *fp)
	REQUIRES(TRANS_OK(trans) && trans->block == g_exp_start && g_seq == 0)
	REQUIRES(block_list == g_list && block_len == IN.len && fp == g_fp)
	ASSIGNS(trans->block, g_seq, g_s_blocks, g_blk_after)
	ENSURES(g_seq == 1 && g_s_blocks == 1)
	ENSURES(trans->block >= OLD(trans->block) && trans->block - OLD(trans->block) <= 2 * block_len + 2 && g_blk_after == trans->block);

static errcode_t journal_add_revoke_to_trans(journal_transaction_t *trans, blk64_t *revoke_list, size_t revoke_len)
	REQUIRES(TRANS_OK(trans) && trans->block == g_blk_after && g_seq == 1)
	REQUIRES(revoke_list == g_list + 1 && revoke_len == IN.rr)
	ASSIGNS(trans->block, g_seq, g_s_revoke, g_blk_after)
	ENSURES(g_seq == 2 && g_s_revoke == 2)
	ENSURES(trans->block >= OLD(trans->block) && trans->block - OLD(trans->block) <= 2 * revoke_len + 2 && g_blk_after == trans->block);

/* entry values of everything that publishes the transaction */
static unsigned int g_s_start0, g_s_seq0, g_fs_incompat0, g_fs_flags0, g_jincompat0;
static unsigned long g_tail0, g_head0;
static tid_t g_tailseq0, g_transseq0;
#define SPEC_FS_INCOMPAT 0x60		/* le32 s_feature_incompat of the ext4 superblock */
#define SPEC_FS_RECOVER 0x4u
#define FS_INCOMPAT() ((unsigned int)B(g_fs->super)[SPEC_FS_INCOMPAT] | ((unsigned int)B(g_fs->super)[SPEC_FS_INCOMPAT + 1] << 8) | \
	((unsigned int)B(g_fs->super)[SPEC_FS_INCOMPAT + 2] << 16) | ((unsigned int)B(g_fs->super)[SPEC_FS_INCOMPAT + 3] << 24))
#define UNPUBLISHED() (JW_BE32(g_jsb, JW_SB_START) == g_s_start0 && JW_BE32(g_jsb, JW_SB_SEQUENCE) == g_s_seq0 && \
	g_journal->j_tail == g_tail0 && g_journal->j_tail_sequence == g_tailseq0 && \
	g_journal->j_transaction_sequence == g_transseq0 && g_journal->j_head == g_head0 && \
	FS_INCOMPAT() == g_fs_incompat0 && g_fs->flags == g_fs_flags0)

static struct jw_ghost jw_on_read(struct jw_ghost g, struct buffer_head *bh, unsigned long long logical)
{
	CHECK(0, "nothing is read back (no v1 checksum in this unit)");
	return g;
}

static struct jw_ghost jw_on_write(struct jw_ghost g, struct buffer_head *bh, unsigned long long logical)
{
	CHECK(bh == JW_META_BH, "the only block journal_write itself writes is the commit block");
	g.n_commit++;
	g_s_commit = g_seq + 1;
	CHECK(g.n_commit == 1 && g_seq == 2, "(order) one commit block, after the data blocks and the revoke blocks");
	CHECK(!(IN.flags & 1), "(order) no commit block with JOURNAL_WRITE_NO_COMMIT");
	CHECK(JW_BE32(bh->b_data, 0) == JW_MAGIC && JW_BE32(bh->b_data, 4) == JW_BT_COMMIT && JW_BE32(bh->b_data, 8) == g_tid,
	      "(seq) commit block: magic, blocktype 2, the sequence number the journal state prescribes");
	CHECK(logical == g_blk_after, "(order) the commit block is written directly behind the last block of the transaction");
	JW_CHECK_SEALED(bh);
	CHECK(UNPUBLISHED(), "(publish) s_start, s_sequence, tail/head/sequence counters and needs_recovery are untouched while the commit block is being written");
	return g;
}

void h_write(void)
{
	jw_build();
	journal_superblock_t *jsb = (journal_superblock_t *)g_jsb;
	struct buffer_head *sbh = malloc(sizeof(*sbh));
	ASSUME(sbh != 0);
	jsb->s_feature_compat = 0;	/* no v1 transaction checksum here (unit jw_commit_trans) */
	g_compat = 0;
	sbh->b_dirty = 0;
	g_journal->j_sb_buffer = sbh;
	/* j_first / j_last / j_head / j_tail are 32-bit quantities (s_first, s_maxlen, s_start of the journal superblock) */
	g_journal->j_tail = IN.j_tail;		/* 0 = clean journal */
	g_journal->j_head = IN.j_head;
	g_journal->j_first = IN.j_first;
	g_journal->j_last = IN.j_last;
	g_journal->j_tail_sequence = IN.j_tail_sequence;
	g_journal->j_transaction_sequence = IN.j_transaction_sequence;
	g_fs->flags = IN.fs_flags;
	ASSUME(IN.len <= JW_MAXLEN && IN.rr <= JW_MAXLEN);
	g_list = malloc(2 * sizeof(blk64_t));
	g_fp = (FILE *)malloc(1);
	ASSUME(g_list && g_fp);
	/* (seq) what journal_open_trans has to choose */
	g_tid = g_journal->j_tail == 0 ? g_journal->j_tail_sequence : g_journal->j_transaction_sequence;
	g_exp_start = g_journal->j_tail == 0 ? g_journal->j_first : g_journal->j_head;
	g_seq = g_s_blocks = g_s_revoke = g_s_commit = 0;
	g_blk_after = 0;
	g_s_start0 = JW_BE32(g_jsb, JW_SB_START); g_s_seq0 = JW_BE32(g_jsb, JW_SB_SEQUENCE);
	g_jincompat0 = JW_BE32(g_jsb, JW_SB_INCOMPAT);
	g_tail0 = g_journal->j_tail; g_head0 = g_journal->j_head;
	g_tailseq0 = g_journal->j_tail_sequence; g_transseq0 = g_journal->j_transaction_sequence;
	g_fs_incompat0 = FS_INCOMPAT(); g_fs_flags0 = g_fs->flags;

	errcode_t r = journal_write(g_journal, IN.flags, g_list, IN.len, g_list + 1, IN.rr, g_fp);

	/* (revoke) */
	CHECK(JW_BE32(g_jsb, JW_SB_INCOMPAT) == (g_jincompat0 | (IN.rr > 0 ? JW_INCOMPAT_REVOKE : 0)), "(revoke) REVOKE feature set iff there are revoke records; no other feature bit changes");
	CHECK(IN.rr == 0 || sbh->b_dirty, "(revoke) journal superblock buffer marked dirty when the feature was set");
	CHECK(JW_BE32(g_jsb, JW_SB_SEQUENCE) == g_s_seq0, "s_sequence is not changed by journal_write (it is set from j_tail_sequence when the journal is closed)");
	if (G.n_commit == 1 && !G.failed && r == 0) {
		/* (after) */
		CHECK(g_s_blocks == 1 && g_s_revoke == 2 && g_s_commit == 3, "(order) data, revoke, commit");
		if (g_tail0 == 0) {
			CHECK(g_journal->j_tail == g_exp_start && g_journal->j_tail_sequence == g_tid && JW_BE32(g_jsb, JW_SB_START) == (unsigned int)g_exp_start,
			      "(after) clean journal: the log now starts at the transaction: j_tail, j_tail_sequence, s_start = be32(start)");
			REACH("first transaction of a clean journal");
		} else {
			CHECK(g_journal->j_tail == g_tail0 && g_journal->j_tail_sequence == g_tailseq0 && JW_BE32(g_jsb, JW_SB_START) == g_s_start0,
			      "(after) journal already in use: the start of the log stays where it is");
			REACH("appended transaction");
		}
		CHECK(g_journal->j_transaction_sequence == g_tid + 1, "(after) next sequence number = this one + 1");
		CHECK(FS_INCOMPAT() == (g_fs_incompat0 | SPEC_FS_RECOVER) && (g_fs->flags & EXT2_FLAG_DIRTY), "(after) needs_recovery set, filesystem superblock dirty");
#ifdef JW_CHECK_HEAD
		CHECK(g_journal->j_head == g_blk_after + 1, "(after) j_head = the first log block behind the commit block");
#endif
	} else {
		CHECK(UNPUBLISHED(), "(publish) without a successfully written commit block nothing announces the transaction");
		if (r == ENOSPC && g_seq == 0) REACH("no space");
		if (IN.flags & 1) {
			CHECK(G.n_commit == 0, "NO_COMMIT: no commit block");
			if (r == 0) REACH("uncommitted transaction");
		}
		if (G.failed) {
			CHECK(r == G.fail_code, "a device or mapping error is returned");
			REACH("commit failed");
		}
	}
	REACH("end");
}
