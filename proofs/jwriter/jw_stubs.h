/*
 * Part 2 of the do_journal.c environment (see jw_env.h): stubs with ghost monitors, included AFTER the real file.
 * The including unit defines, before this header,
 *     JW_DATA_BH / JW_META_BH / JW_SCRATCH_BH   which getblk() result (g_bh0, g_bh1, g_bh2 in call order) plays which role,
 *     static struct jw_ghost jw_on_write(struct jw_ghost g, struct buffer_head *bh, unsigned long long logical)
 *     static struct jw_ghost jw_on_read(struct jw_ghost g, struct buffer_head *bh, unsigned long long logical)
 *                                               its device-write / device-read monitors (ghost state in, ghost state out).
 * The block size is fixed per unit (-DJW_BS=1024 / 4096): the verifier's cost grows linearly with the size of the
 * buffer objects (every symbolic-offset access and every control-flow merge touches the whole object).
 * Stubs called inside a cut loop write only the ghost object G (named in the loop's assigns clause) and the buffer
 * heads; every nondeterministic result is drawn from IN.* at index G.draw (G is havocked by the loop cut, so the draws
 * of the arbitrary iteration are independent of those of the first one).
 */
#ifndef JW_STUBS_H
#define JW_STUBS_H
#include <sys/time.h>

#ifndef JW_BS
#error "units on do_journal.c fix the block size: -DJW_BS=1024 or 4096"
#endif
/* JW_BH_SLACK bytes that may be pointed to but are never accessed (every monitor pins tags / records inside the block):
 * the real code forms (char *)jdbt + tag_bytes up to 16 bytes behind the one-past-the-end address when the tags fill the
 * block exactly (strict-C finding, benign; unit *_strict has no slack and reports it) */
#ifndef JW_BH_SLACK
#define JW_BH_SLACK 32
#endif
#define JW_BH_BYTES (40 + JW_BS + JW_BH_SLACK)
static struct buffer_head *g_bh0, *g_bh1, *g_bh2;	/* getblk results in call order (scalars: one value set each) */
static unsigned int g_getblks, g_brelses;
static journal_t *g_journal;
static unsigned char *g_jsb;		/* the 1024-byte journal superblock */
static ext2_filsys g_fs;
static FILE *g_fp;
static blk64_t *g_list;

/*
 * Every stub works on a LOCAL copy g of the ghost object and stores it back once (JW_BEGIN / JW_END): inside a cut loop
 * DFCC checks every assignment to non-local memory against the loop's write set (an inclusion loop over the assigns
 * targets per checked assignment); with one store per stub call instead of one per ghost field the formula of unit
 * jw_add_blocks_to_trans went from 11.4 M to 6.0 M clauses.  The unit's monitors take and return the copy by value for
 * the same reason.
 */
#define JW_BEGIN struct jw_ghost g = G
#define JW_END G = g
#define JW_D() (g.draw++ & (JW_NDRAW - 1))
/* the FIRST failure is the one the function has to report */
#define JW_FAIL(e) do { if (!g.failed) { g.failed = 1; g.fail_code = (int)(e); } } while (0)

/* the including unit's monitors (defined after this header) */
static struct jw_ghost jw_on_write(struct jw_ghost g, struct buffer_head *bh, unsigned long long logical);
static struct jw_ghost jw_on_read(struct jw_ghost g, struct buffer_head *bh, unsigned long long logical);

struct buffer_head *getblk(kdev_t kdev, unsigned long long blocknr, int blocksize)
{
	struct buffer_head *bh;
	CHECK(g_getblks < 3, "no more buffers than the function needs");
	CHECK(kdev == g_journal->j_dev && blocksize == (int)g_bs, "getblk: on the journal device, j_blocksize bytes");
	/* out of memory: only in the units that define JW_GETBLK_FAIL (= number of the failing call, a constant).  A getblk
	 * that may or may not fail leaves the verifier with "pointer or NULL" values for the buffers, and every
	 * "which buffer is this" test in the monitors then doubles the formula */
#ifdef JW_GETBLK_FAIL
	if (g_getblks == JW_GETBLK_FAIL)
		return 0;
#endif
	/* exactly as the real getblk: the header plus fs->blocksize (== j_blocksize) data bytes, so that a write behind
	 * the block is an out-of-bounds write.  The size is given as a plain number (JW_BS fixed per unit) so that the
	 * verifier models the object as a byte array: the tag cursor of the real code points into b_data at a symbolic
	 * offset; on a struct-typed object every such write is a whole-struct byte update */
	CHECK(JW_BH_BYTES == sizeof(struct buffer_head) - sizeof(bh->b_data) + g_bs + JW_BH_SLACK, "buffer head size as in getblk");
	bh = malloc(JW_BH_BYTES);
	ASSUME(bh != 0);
	bh->b_fs = g_fs;
	bh->b_io = 0;
	bh->b_size = blocksize;
	bh->b_err = 0;
	bh->b_dirty = 0;
	bh->b_uptodate = 0;
	bh->b_blocknr = blocknr;
	if (g_getblks == 0) g_bh0 = bh; else if (g_getblks == 1) g_bh1 = bh; else g_bh2 = bh;
	g_getblks++;
	return bh;
}

void mark_buffer_dirty(struct buffer_head *bh)
{
	bh->b_dirty = 1;
}

void mark_buffer_uptodate(struct buffer_head *bh, int val)
{
	bh->b_uptodate = val;
}

static void jw_dev_write(struct buffer_head *bh)
{
	JW_BEGIN;
	unsigned int d = JW_D();
	long e = IN.err[d];
	CHECK(bh->b_blocknr >= IN.map_off, "write: at a block jbd2_journal_bmap produced");
	g = jw_on_write(g, bh, bh->b_blocknr - IN.map_off);
	/* (written without branches on purpose: every conditional change of a buffer head costs the verifier a merge
	 * of the whole object) failure: b_err = error, b_dirty stays; success: b_dirty = 0, b_uptodate = 1 */
	bh->b_err = e ? (int)e : bh->b_err;
	bh->b_dirty = e ? bh->b_dirty : 0;
	bh->b_uptodate = e ? bh->b_uptodate : 1;
	if (e)
		JW_FAIL(e);
	JW_END;
}

static void jw_dev_read(struct buffer_head *bh)
{
	JW_BEGIN;
	unsigned int d = JW_D();
	long e = IN.err[d];
	CHECK(bh->b_blocknr >= IN.map_off, "read: at a block jbd2_journal_bmap produced");
	g = jw_on_read(g, bh, bh->b_blocknr - IN.map_off);
	bh->b_err = e ? (int)e : bh->b_err;
	bh->b_uptodate = e ? bh->b_uptodate : 1;
	if (e)
		JW_FAIL(e);
	JW_END;
}

void ll_rw_block(int rw, int op_flags, int nr, struct buffer_head *bhp[])
{
	CHECK(nr == 1, "one buffer per request");
	struct buffer_head *bh = bhp[0];
	/* no branch on b_dirty / b_uptodate around the device event (a conditional change of a buffer head costs the
	 * verifier a merge of the whole object): a request that the real ll_rw_block would ignore is reported instead */
	if (rw == REQ_OP_WRITE) {
		CHECK(bh->b_dirty, "a write request on a buffer that is not marked dirty would write nothing");
		jw_dev_write(bh);
	} else {
		CHECK(rw == REQ_OP_READ && !bh->b_uptodate, "a read request on a buffer marked up to date would read nothing");
		jw_dev_read(bh);
	}
}

void brelse(struct buffer_head *bh)
{
	CHECK(bh == g_bh0 || bh == g_bh1 || bh == g_bh2, "brelse: a buffer obtained from getblk");
	if (bh->b_dirty) {
		/* still dirty: only after a failed write (the release retries it; behaviour after a reported failure is outside
		 * the statement).  The writer never leaves a block to be written by the release. */
		JW_BEGIN;
		unsigned int d = JW_D();
		CHECK(g.failed, "every block is written explicitly: a buffer is dirty at its release only after a failed write");
		bh->b_dirty = IN.err[d] ? bh->b_dirty : 0;
		JW_END;
	}
	g_brelses++;
	/* the buffer stays allocated so that the harness can still look at it; a second release is caught by the count */
}

int jbd2_journal_bmap(journal_t *journal, unsigned long block, unsigned long long *phys)
{
	JW_BEGIN;
	unsigned int d = JW_D();
	long e = IN.err[d];
	CHECK(journal == g_journal, "bmap: on the journal");
	*phys = e ? (unsigned long long)IN.u32[d] : block + IN.map_off;
	if (e)
		JW_FAIL(e);
	JW_END;
	return (int)e;
}

blk64_t ext2fs_blocks_count(struct ext2_super_block *super)
{
	CHECK(super == g_fs->super, "blocks count of the filesystem the journal belongs to");
	{
		JW_BEGIN;
		g.nticks++;
#ifdef JW_TICK_COUNTS_RECORD
		g.ntags++;
#endif
		JW_END;
	}
	return IN.fs_blocks;
}

/* ---- checksum setters (what they do: units jw_block_tag_csum_set, jw_descr_block_csum_set, jw_commit_block_csum_set) ---- */
#ifndef JW_DATA_BH
#define JW_DATA_BH ((struct buffer_head *)0)
#endif
#ifndef JW_SCRATCH_BH
#define JW_SCRATCH_BH ((struct buffer_head *)0)
#endif
void jbd2_block_tag_csum_set(journal_t *j, journal_block_tag_t *tag, struct buffer_head *bh, __u32 sequence)
{
	JW_BEGIN;
	unsigned int d = JW_D();
	CHECK(j == g_journal && bh == JW_DATA_BH && bh->b_size == (int)g_bs, "tag checksum: over the j_blocksize bytes of the data buffer");
	CHECK(sequence == g_tid, "tag checksum: seeded with the transaction's sequence number");
	CHECK(g.phase == 1, "tag checksum: once per block, after the block was read");
	g.csum_w0 = JW_BE32(bh->b_data, 0);
	g.csum_k = B(bh->b_data)[g_k];
	g.tag = B(tag);
	g.csum_val = IN.u32[d];
	if (g_v3) {
		B(tag)[12] = JW_BE_BYTE(g.csum_val, 4, 0); B(tag)[13] = JW_BE_BYTE(g.csum_val, 4, 1);
		B(tag)[14] = JW_BE_BYTE(g.csum_val, 4, 2); B(tag)[15] = JW_BE_BYTE(g.csum_val, 4, 3);
	} else if (g_csum_on) {
		B(tag)[4] = JW_BE_BYTE(g.csum_val & 0xFFFFu, 2, 0); B(tag)[5] = JW_BE_BYTE(g.csum_val & 0xFFFFu, 2, 1);
	}
	g.phase = 2;
	JW_END;
}

static void jw_seal(journal_t *j, struct buffer_head *bh, unsigned long field_off)
{
	JW_BEGIN;
	unsigned int d = JW_D();
	CHECK(j == g_journal && bh == JW_META_BH, "block checksum: on the journal metadata buffer");
	if (g_csum_on) {
		unsigned int v = IN.u32[d];
		B(bh->b_data)[field_off] = JW_BE_BYTE(v, 4, 0); B(bh->b_data)[field_off + 1] = JW_BE_BYTE(v, 4, 1);
		B(bh->b_data)[field_off + 2] = JW_BE_BYTE(v, 4, 2); B(bh->b_data)[field_off + 3] = JW_BE_BYTE(v, 4, 3);
	}
	g.sealed = 1;
	g.seal_k = B(bh->b_data)[g_kd];
	JW_END;
}
void jbd2_descr_block_csum_set(journal_t *j, struct buffer_head *bh)
{
	jw_seal(j, bh, g_bs - 4);
}
void jbd2_revoke_csum_set(journal_t *j, struct buffer_head *bh)
{
	jw_seal(j, bh, g_bs - 4);
}
void jbd2_commit_block_csum_set(journal_t *j, struct buffer_head *bh)
{
	if (g_csum_on) {
		B(bh->b_data)[0xC] = 0;
		B(bh->b_data)[0xD] = 0;
	}
	jw_seal(j, bh, 0x10);
}
/* at the write of a metadata block: it is byte for byte the block its checksum was set on */
#define JW_CHECK_SEALED(bh) do { \
	CHECK(g.sealed == 1, "the block checksum is set after the last change to the block and before its write"); \
	CHECK(B((bh)->b_data)[g_kd] == g.seal_k, "the block reaches the log exactly as it was when its checksum was set"); \
	g.sealed = 0; } while (0)

#ifdef JW_WANT_MEMCPY16
/*
 * libc memcpy as journal_add_blocks_to_trans uses it (16 UUID bytes into the descriptor buffer): source readable,
 * destination writable for n bytes (asserted), and the copy is performed at ONE ghost byte index g_ku (true of memcpy
 * for every index).  Every observation the monitors make is an exact-value comparison, so a byte of the block that a
 * full copy would corrupt is seen corrupted in the run whose g_ku is that byte.  (The built-in model copies 16 bytes
 * to a symbolic offset of the block: 1.5 M clauses per iteration.)
 */
void *memcpy(void *dst, const void *src, size_t n)
{
	CHECK(n == 16 && g_ku < 16, "memcpy: the 16 UUID bytes");
	CHECK(__CPROVER_r_ok(src, n) && __CPROVER_w_ok(dst, n), "memcpy: source readable, destination writable, n bytes each");
	CHECK(__CPROVER_same_object(dst, JW_META_BH), "memcpy: into the descriptor buffer");
	B(dst)[g_ku] = B(src)[g_ku];
	return dst;
}
#endif

#ifdef JW_WANT_FREAD
/* fread(buf, j_blocksize, 1, fp): one block from the data file, or nothing (end of file / error) */
size_t fread(void *ptr, size_t size, size_t n, FILE *fp)
{
	JW_BEGIN;
	unsigned int d = JW_D();
	size_t got = (IN.choice[d] & 2) ? 0 : 1;
	CHECK(ptr == (void *)JW_DATA_BH->b_data && size == g_bs && n == 1 && fp == g_fp, "fread: one j_blocksize record into the data buffer");
	CHECK(g.phase == 0, "fread: only after the previous block went to the log");
	/* new content: nothing is written here - the buffer content is arbitrary at this point (fresh object in the first
	 * iteration, havocked by the loop cut in the arbitrary one), which IS "fread delivered an arbitrary record" */
	if (got) {
		g.orig_w0 = JW_BE32(ptr, 0);
		g.orig_k = B(ptr)[g_k];
		g.nread++;
		g.phase = 1;
	} else {
		g.eof = 1;
	}
	JW_END;
	return got;
}
#endif

__u32 ext2fs_crc32_be(__u32 crc, unsigned char const *p, size_t len)
{
	JW_BEGIN;
	unsigned int d = JW_D();
	CHECK(p == B(JW_SCRATCH_BH->b_data) && len == g_bs, "v1 transaction checksum: over one whole journal block");
	CHECK(crc == g.v1_crc, "v1 transaction checksum: chained from the previous block's value");
	CHECK(g.v1_read == 1, "v1 transaction checksum: folds a block that was just read from the log");
	g.v1_read = 0;
	g.v1_crc = IN.u32[d];
	JW_END;
	return g.v1_crc;
}

int gettimeofday(struct timeval *tv, void *tz)
{
	tv->tv_sec = IN.u32[6];
	tv->tv_usec = IN.u32[7] % 1000000u;
	return 0;
}

/* journal + transaction environment shared by the harnesses */
static journal_transaction_t g_trans;
static void jw_build(void)
{
	LOAD_IN();
	g_journal = malloc(sizeof(*g_journal));
	/* struct-typed (1024 bytes) so that the verifier tracks s_feature_incompat as a value of its own */
	journal_superblock_t *jsb = malloc(sizeof(journal_superblock_t));	/* arbitrary content */
	g_jsb = (unsigned char *)jsb;
	g_fs = malloc(sizeof(*g_fs));
	struct ext2_super_block *sb = malloc(1024);	/* arbitrary content */
	struct kdev_s *devs = malloc(2 * sizeof(*devs));
	CHECK(sizeof(journal_superblock_t) == 1024, "journal superblock is 1024 bytes");
	ASSUME(g_journal && g_jsb && g_fs && sb && devs);
	memset(g_journal, 0, sizeof(*g_journal));
	memset(g_fs, 0, sizeof(*g_fs));
#ifdef JW_BS
	IN.blocksize = JW_BS;		/* block size fixed per unit (constant object sizes) */
#endif
	ASSUME(IN.blocksize == 1024 || IN.blocksize == 4096);
#ifdef JW_VER
	IN.version = JW_VER;		/* superblock version and the three feature bits the writer looks at fixed per unit */
#endif
	ASSUME(IN.version == 1 || IN.version == 2);
#ifdef JW_INCOMPAT
	/* s_feature_incompat (be32 at 0x28) = JW_INCOMPAT: a constant, so that tag size / checksum mode fold away
	 * (little-endian host: the in-memory word is the byte-swapped value) */
	jsb->s_feature_incompat = ((JW_INCOMPAT & 0xFFu) << 24) | ((JW_INCOMPAT & 0xFF00u) << 8) | ((JW_INCOMPAT >> 8) & 0xFF00u) | ((JW_INCOMPAT >> 24) & 0xFFu);
	CHECK(JW_BE32(g_jsb, JW_SB_INCOMPAT) == JW_INCOMPAT, "feature word as configured");
#endif
	g_fs->super = sb;
	g_fs->blocksize = IN.blocksize;
	devs[0].k_fs = g_fs; devs[0].k_dev = K_DEV_FS;
	devs[1].k_fs = g_fs; devs[1].k_dev = K_DEV_JOURNAL;
	g_journal->j_fs_dev = &devs[0];
	g_journal->j_dev = &devs[1];
	g_journal->j_superblock = (journal_superblock_t *)g_jsb;
	g_journal->j_blocksize = IN.blocksize;
	g_journal->j_format_version = IN.version;
	/* spec constants, by the format's rules, from the raw superblock bytes */
	g_bs = IN.blocksize;
	g_ver = IN.version;
	g_incompat = JW_BE32(g_jsb, JW_SB_INCOMPAT);
	g_compat = JW_BE32(g_jsb, JW_SB_COMPAT);
	g_tb = jw_tag_bytes(g_ver, g_incompat);
	g_usable = jw_usable(g_bs, g_ver, g_incompat);
	g_csum_on = JW_CSUM23(g_ver, g_incompat);
	g_v3 = JW_HAS(g_ver, g_incompat, JW_INCOMPAT_CSUM_V3);
	g_64 = JW_HAS(g_ver, g_incompat, JW_INCOMPAT_64BIT);
	g_rsz = JW_REVOKE_RECORD(g_ver, g_incompat);
	g_tid = IN.tid;
	g_k = IN.k; g_kd = IN.kd; g_ku = IN.ku; g_rr = IN.rr;
	ASSUME(g_k < g_bs && g_kd < g_bs && g_ku < 16);
	/* errcode_t values are 31-bit positive codes (com_err tables, errno) */
#define JW_ERR_OK(n) ASSUME(IN.err[n] >= 0 && IN.err[n] <= 0x7FFFFFFF)
	JW_ERR_OK(0); JW_ERR_OK(1); JW_ERR_OK(2); JW_ERR_OK(3); JW_ERR_OK(4); JW_ERR_OK(5); JW_ERR_OK(6); JW_ERR_OK(7);
	/* block numbers stay far away from wrapping 64 bits */
	ASSUME(IN.trans_block < (1ull << 40) && IN.trans_start <= IN.trans_block && IN.map_off < (1ull << 40));
	memset(&G, 0, sizeof(G));
	g_getblks = g_brelses = 0;
	g_trans.magic = J_TRANS_MAGIC;
	g_trans.fs = g_fs;
	g_trans.journal = g_journal;
	g_trans.block = IN.trans_block;
	g_trans.start = IN.trans_start;
	g_trans.end = 0;
	g_trans.tid = IN.tid;
	g_trans.flags = J_TRANS_OPEN;
}
#endif
