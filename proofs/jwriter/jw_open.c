/* VERIF-UNIT
{
 "name": "jw_open_trans_fits",
 "props": ["C03"],
 "level": "U",
 "tier": "quick",
 "harness": "h_open",
 "includes": ["debugfs", "lib/ss", "e2fsck"],
 "defines": ["DEBUGFS", "JW_BS=1024"],
 "unwind": 6,
 "unwind_reason": "journal_open_trans and journal_guess_blocks are loop-free; the bound serves the DFCC library loops (unwinding assertions on)",
 "functions": ["debugfs/do_journal.c:journal_open_trans", "debugfs/do_journal.c:journal_guess_blocks"],
 "assumes": [
   "EXPECTED TO FAIL on the tree (finding C03_jw_trans_beyond_journal_end): the space test is 'start + blocks > j_last' although trans->end = start + blocks is the INDEX of the last block, so a transaction whose last block has index j_last = s_maxlen - one behind the journal - is accepted",
   "journal counters are 32-bit quantities (s_first, s_maxlen); list lengths up to 2^20; j_blocksize 1024; journal superblock arbitrary",
   "debugfs/do_journal.c is compiled with the verifier guard on (hooks-pending/jw.diff) although no loop contract is used here"
  ],
 "native": false
}
*/
/*
 * journal_open_trans reserves log blocks start .. end for a transaction (end = start + journal_guess_blocks(), the
 * index of the last block; journal_close_trans continues behind it).  The log consists of the journal blocks
 * j_first .. j_last - 1 (j_last = s_maxlen, the NUMBER of blocks of the journal): a reservation must end below j_last.
 */
#include "jw_env.h"
#include "debugfs/do_journal.c"
#define JW_META_BH g_bh0
#include "jw_stubs.h"
static struct jw_ghost jw_on_read(struct jw_ghost g, struct buffer_head *bh, unsigned long long logical) { return g; }
static struct jw_ghost jw_on_write(struct jw_ghost g, struct buffer_head *bh, unsigned long long logical) { return g; }

void h_open(void)
{
	jw_build();
	journal_transaction_t t;
	g_journal->j_tail = IN.j_tail;
	g_journal->j_head = IN.j_head;
	g_journal->j_first = IN.j_first;
	g_journal->j_last = IN.j_last;
	g_journal->j_tail_sequence = IN.j_tail_sequence;
	g_journal->j_transaction_sequence = IN.j_transaction_sequence;
	ASSUME(IN.len <= JW_MAXLEN && IN.rr <= JW_MAXLEN);
	blk64_t blocks = journal_guess_blocks(g_journal, IN.len, IN.rr);
	errcode_t r = journal_open_trans(g_journal, &t, blocks);
	if (r == 0) {
		CHECK(t.start == (IN.j_tail == 0 ? IN.j_first : IN.j_head) && t.block == t.start && t.end == t.start + blocks, "reservation start .. start + estimate");
		CHECK(t.end < g_journal->j_last, "the last reserved block lies inside the journal (index < j_last = number of journal blocks)");
		REACH("opened");
	} else {
		CHECK(r == ENOSPC, "refused with ENOSPC");
		REACH("no space");
	}
	REACH("end");
}
