/* VERIF-UNIT
{
 "name": "jw_commit_trans",
 "props": ["C14", "C03"],
 "level": "U/iter",
 "tier": "quick",
 "tier_after_hooks": "quick",
 "harness": "h_commit",
 "loop_contracts": true,
 "includes": ["debugfs", "lib/ss", "e2fsck"],
 "defines": ["DEBUGFS", "JW_BS=1024"],
 "unwind": 6,
 "unwind_reason": "the block loop of the v1 (whole-transaction crc32) checksum in journal_commit_trans is cut by its in-place loop contract (named anchor VERIF_INV_JOURNAL_COMMIT_TRANS_CSUM_V1, hooks-pending/jw.diff); everything else in the function is loop-free; the bound serves the DFCC library loops only (unwinding assertions on)",
 "functions": ["debugfs/do_journal.c:journal_commit_trans"],
 "assumes": [
   "NEEDS the hook in hooks-pending/jw.diff (named loop anchors in debugfs/do_journal.c)",
   "no contract enforced on journal_commit_trans: ghost monitors in the callee stubs (jw_stubs.h) and harness CHECKs",
   "callees are stubs: getblk (succeeds), ll_rw_block (device read / write = monitored events, may fail), brelse (a buffer still dirty at its release is reported unless a write failed before), mark_buffer_dirty / mark_buffer_uptodate, jbd2_journal_bmap (physical = logical + constant, may fail), ext2fs_crc32_be (returns an ARBITRARY value and checks that it is chained over whole blocks just read), jbd2_commit_block_csum_set (zeroes h_chksum_type/size and stores an ARBITRARY h_chksum[0] when v2/v3 is on, records the block at that moment; the real one: unit jw_commit_block_csum_set), gettimeofday (arbitrary time)",
   "U/iter for the v1 loop only: first iteration from the real state, one iteration from an arbitrary state satisfying the invariant (running crc = the chain so far, next block to fold = start + number folded); the rest of the function is verified as it stands (U)",
   "the v1 checksum feature (compat CHECKSUM) and v2/v3 are not both set (ext2fs_journal_load / e2fsck_journal_load reject such a superblock)",
   "j_blocksize 1024; j_format_version 1 or 2; journal superblock and filesystem superblock arbitrary otherwise; getblk succeeds (the ENOMEM returns are not exercised)",
   "pointwise: ONE arbitrary byte offset g_kd of the commit block",
   "NOT demanded here: the commit time stamp h_commit_sec (unit jw_commit_time, finding C14_jw_commit_sec_be32); bytes of the commit block the format leaves undefined",
   "little-endian host; errcode_t values fit in 31 bits"
  ],
 "native": false
}
*/
/* VERIF-UNIT
{
 "name": "jw_commit_time",
 "props": ["C14"],
 "level": "U/iter",
 "tier": "quick",
 "harness": "h_commit",
 "loop_contracts": true,
 "includes": ["debugfs", "lib/ss", "e2fsck"],
 "defines": ["DEBUGFS", "JW_BS=1024", "JW_CHECK_COMMIT_TIME"],
 "unwind": 6,
 "unwind_reason": "as jw_commit_trans",
 "functions": ["debugfs/do_journal.c:journal_commit_trans"],
 "assumes": ["as jw_commit_trans, plus the format clause h_commit_sec = be64 seconds at 0x30, h_commit_nsec = be32 nanoseconds at 0x38: EXPECTED TO FAIL on the tree (finding C14_jw_commit_sec_be32: the 64-bit field is filled with ext2fs_cpu_to_be32)"],
 "native": false
}
*/
/*
 * debugfs journal writer, the commit block (C14: it carries the checksum the format defines; C03/C04 protocol:
 * nothing announces the transaction before the commit block is on the device).
 *
 * Statement (format: specs/jw_jbd2_format.h "Commit block"), checked when the commit block goes to the device:
 *  header magic / blocktype 2 / the transaction's sequence;
 *  v1 (compat CHECKSUM): h_chksum_type = 1 (CRC32), h_chksum_size = 4, h_chksum[0] = be32 of the crc32_be chain seeded
 *      with ~0 over every block of the transaction, trans->start .. trans->block-1, in log order, each read back from
 *      the log (through jbd2_journal_bmap) as a whole block;  no checksum feature: type = size = h_chksum[0] = 0;
 *      v2/v3: jbd2_commit_block_csum_set decides these three fields;
 *  the block checksum routine ran after the last change to the block and the block is written exactly as it was then;
 *  it is written, marked dirty, through jbd2_journal_bmap at trans->block (directly behind the last logged block);
 *  protocol: at that moment the transaction is still open, the filesystem superblock does not yet ask for recovery
 *      because of it and is not marked dirty by this function.
 * Afterwards: success <=> the write succeeded: transaction COMMITTED and no longer OPEN, trans->block advanced by one,
 *  needs_recovery (ext4 incompat 0x4) set in the filesystem superblock and the superblock marked dirty;
 *  failure (bmap / read / write error, returned): none of these changed.  Buffers released once each.
 */
#include "jw_env.h"

#define VERIF_INV_JOURNAL_COMMIT_TRANS_CSUM_V1 \
	__CPROVER_assigns(cblk, err, csum_v1, __CPROVER_object_whole(cbh), G) \
	__CPROVER_loop_invariant(trans->start <= cblk && cblk <= trans->block) \
	__CPROVER_loop_invariant(cblk == G.v1_next && csum_v1 == G.v1_crc && G.v1_read == 0 && G.failed == 0) \
	__CPROVER_loop_invariant(cbh->b_err == 0 && cbh->b_dirty == 0 && cbh->b_size == (int)g_bs && G.n_commit == 0) \
	__CPROVER_decreases(trans->block - cblk)

#include "debugfs/do_journal.c"

#define JW_META_BH g_bh0
#define JW_SCRATCH_BH g_bh1
#include "jw_stubs.h"

#define SPEC_FS_INCOMPAT 0x60		/* le32 s_feature_incompat of the ext4 superblock */
#define SPEC_FS_RECOVER 0x4u
static unsigned int g_fs_incompat0, g_fs_flags0;
#define FS_INCOMPAT() ((unsigned int)B(g_fs->super)[SPEC_FS_INCOMPAT] | ((unsigned int)B(g_fs->super)[SPEC_FS_INCOMPAT + 1] << 8) | \
	((unsigned int)B(g_fs->super)[SPEC_FS_INCOMPAT + 2] << 16) | ((unsigned int)B(g_fs->super)[SPEC_FS_INCOMPAT + 3] << 24))

static struct jw_ghost jw_on_read(struct jw_ghost g, struct buffer_head *bh, unsigned long long logical)
{
	CHECK(bh == JW_SCRATCH_BH, "reads go into the scratch buffer");
	CHECK(JW_HAS(g_ver, g_compat, JW_COMPAT_CHECKSUM), "blocks are read back only for the v1 transaction checksum");
	CHECK(logical == g.v1_next && logical >= IN.trans_start && logical < IN.trans_block, "v1: the transaction's blocks start .. block-1 are read in log order, each once");
	CHECK(g.v1_read == 0, "v1: the previous block was folded before the next is read");
	g.v1_next++;
	g.v1_read = 1;
	return g;
}

static struct jw_ghost jw_on_write(struct jw_ghost g, struct buffer_head *bh, unsigned long long logical)
{
	int v1 = JW_HAS(g_ver, g_compat, JW_COMPAT_CHECKSUM);
	CHECK(bh == JW_META_BH, "only the commit block is written");
	g.n_commit++;
	CHECK(g.n_commit == 1, "one commit block");
	CHECK(JW_BE32(bh->b_data, 0) == JW_MAGIC && JW_BE32(bh->b_data, 4) == JW_BT_COMMIT && JW_BE32(bh->b_data, 8) == g_tid,
	      "commit block header: magic, blocktype 2, the transaction's sequence");
	if (v1) {
		CHECK(g.v1_next == IN.trans_block, "v1: every block of the transaction was folded");
		CHECK(JW_U8(bh->b_data, 0xC) == 1 && JW_U8(bh->b_data, 0xD) == 4 && JW_BE32(bh->b_data, 0x10) == g.v1_crc,
		      "v1: h_chksum_type CRC32, h_chksum_size 4, h_chksum[0] = be32 of the crc32_be chain over the transaction's blocks");
		REACH("v1 commit");
	} else if (!g_csum_on) {
		CHECK(JW_U8(bh->b_data, 0xC) == 0 && JW_U8(bh->b_data, 0xD) == 0 && JW_BE32(bh->b_data, 0x10) == 0, "no checksum feature: checksum fields zero");
		REACH("plain commit");
	} else {
		REACH("v2/v3 commit");
	}
#ifdef JW_CHECK_COMMIT_TIME
	CHECK(JW_BE64(bh->b_data, 0x30) == (unsigned long long)IN.u32[6], "h_commit_sec = be64 seconds at 0x30");
	CHECK(JW_BE32(bh->b_data, 0x38) == (IN.u32[7] % 1000000u) * 1000u, "h_commit_nsec = be32 nanoseconds at 0x38");
#endif
	JW_CHECK_SEALED(bh);
	CHECK(logical == IN.trans_block, "the commit block is written directly behind the last logged block (trans->block)");
	/* protocol */
	CHECK(g_trans.flags == J_TRANS_OPEN, "the transaction is still open while its commit block is being written");
	CHECK(FS_INCOMPAT() == g_fs_incompat0 && g_fs->flags == g_fs_flags0, "the filesystem superblock is not touched before the commit block is on the device");
	return g;
}

void h_commit(void)
{
	jw_build();
	/* v1 and v2/v3 checksums are mutually exclusive (journal load rejects both) */
	ASSUME(!(JW_HAS(g_ver, g_compat, JW_COMPAT_CHECKSUM) && g_csum_on));
	G.v1_crc = 0xFFFFFFFFu;
	G.v1_next = IN.trans_start;
	g_trans.flags = IN.flags;
	g_trans.magic = IN.misc ? J_TRANS_MAGIC : 0;
	if (IN.misc && !(IN.flags & J_TRANS_COMMITTED) && (IN.flags & J_TRANS_OPEN))
		ASSUME(IN.flags == J_TRANS_OPEN);	/* the only open-transaction flag value journal_open_trans produces */
	g_fs->flags = IN.u32[5];
	g_fs_flags0 = g_fs->flags;
	g_fs_incompat0 = FS_INCOMPAT();

	errcode_t r = journal_commit_trans(&g_trans);

	if (!IN.misc || (IN.flags & J_TRANS_COMMITTED) || !(IN.flags & J_TRANS_OPEN)) {
		CHECK(r == EXT2_ET_INVALID_ARGUMENT && g_getblks == 0 && G.n_commit == 0 && g_trans.block == IN.trans_block && g_trans.flags == IN.flags,
		      "not an open transaction: refused, nothing written");
		REACH("refused");
		return;
	}
	CHECK(g_brelses == g_getblks, "every buffer obtained is released exactly once");
	CHECK(g_trans.tid == IN.tid && g_trans.start == IN.trans_start, "sequence and start unchanged");
	if (G.failed) {
		CHECK(r == G.fail_code, "a device or mapping error is returned");
		REACH("io error");
	}
	if (r == 0) {
		CHECK(!G.failed && G.n_commit == 1, "success: the commit block was written, no error");
		CHECK(g_trans.flags == J_TRANS_COMMITTED && g_trans.block == IN.trans_block + 1, "COMMITTED, no longer OPEN, trans->block behind the commit block");
		CHECK(FS_INCOMPAT() == (g_fs_incompat0 | SPEC_FS_RECOVER) && (g_fs->flags & EXT2_FLAG_DIRTY), "filesystem superblock: needs_recovery set, marked dirty");
		REACH("committed");
	} else {
		CHECK(g_trans.flags == J_TRANS_OPEN && g_trans.block == IN.trans_block, "failure: transaction still open, not advanced");
		CHECK(FS_INCOMPAT() == g_fs_incompat0 && g_fs->flags == g_fs_flags0, "failure: filesystem superblock untouched");
		REACH("failed");
	}
	REACH("end");
}
