/* VERIF-UNIT
{
 "name": "jw_write_journal_inode",
 "props": ["C03", "C14"],
 "level": "P",
 "tier": "quick",
 "harness": "h_wji",
 "unwind": 3,
 "unwind_reason": "write_journal_inode is loop-free (memset/memcpy of constant sizes); get_midpoint_journal_block is not reached (an explicit goal is passed, see assumes); unwinding assertions on",
 "functions": ["lib/ext2fs/mkjournal.c:write_journal_inode", "lib/ext2fs/mkjournal.c:ext2fs_create_journal_superblock2"],
 "assumes": [
   "no contract enforced; ext2fs_create_journal_superblock2 is the real code (unit jw_create_journal_superblock); ext2fs_read_bitmaps, ext2fs_read_inode, ext2fs_inode_size_set, ext2fs_fallocate, ext2fs_write_new_inode, ext2fs_bmap2, io_channel_write_blk64 are recording stubs with harness-chosen results (each may fail); ext2fs_fallocate is trusted to allocate (and, with EXT2_FALLOCATE_ZERO_BLOCKS, zero) the requested range and to fill inode->i_block",
   "an explicit goal block is passed (goal != ~0ULL): the choice of the default goal (get_midpoint_journal_block) is outside the statement",
   "filesystem block size 1024 (constant: the journal superblock buffer is allocated and zeroed with it); filesystem superblock arbitrary; fs->now != 0 (time source not modelled)",
   "little-endian host"
  ],
 "native": false
}
*/
/*
 * lib/ext2fs/mkjournal.c:write_journal_inode - creation of the journal inside the filesystem (mke2fs -j / -O has_journal,
 * tune2fs -j, e2fsck journal re-creation through ext2fs_add_journal_inode3).
 *
 * Protocol P (each step only after the previous one succeeded; a failure stops the sequence and is returned):
 *  1. bitmaps are loaded, the journal inode is read; an inode that already owns blocks (i_blocks > 0) is refused with
 *     EEXIST before anything is written;
 *  2. the blocks are allocated by ONE ext2fs_fallocate call for logical blocks 0 .. journal blocks + fast-commit
 *     blocks - 1, near the goal, with FORCE_INIT and - unless EXT2_MKJOURNAL_LAZYINIT was requested - ZERO_BLOCKS
 *     (no stale descriptor / commit blocks are left in the new journal);
 *  3. only then is the inode written (regular file, mode 0600, one link, size = blocks * block size, extent-mapped
 *     iff the filesystem has the extents feature) - an inode on disk never points to blocks that are not allocated;
 *  4. the journal superblock block (as ext2fs_create_journal_superblock2 built it) is written to the physical block
 *     that logical block 0 of the inode maps to;
 *  5. the filesystem superblock gets the backup of the inode's mapping: s_jnl_blocks[0..14] = i_block[],
 *     s_jnl_blocks[15] = i_size_high, s_jnl_blocks[16] = i_size, s_jnl_backup_type = EXT3_JNL_BACKUP_BLOCKS (1), and is
 *     marked dirty - only after step 4 succeeded.
 */
#include "verif.h"
#include "jw_jbd2_format.h"

struct in_wji {
	unsigned int num_journal_blocks, num_fc_blocks;
	int flags;
	unsigned int ino;
	unsigned long long goal, phys0;
	unsigned int i_blocks, i_flags;
	unsigned int iblock[15];
	long r_bitmaps, r_read, r_size, r_falloc, r_winode, r_bmap, r_io;
	unsigned long k;
};
struct in_wji IN;
#include "verif_in.h"

#include "lib/ext2fs/mkjournal.c"

static unsigned int g_seq, s_bitmaps, s_read, s_falloc, s_winode, s_bmap, s_io, n_falloc, n_winode, n_io;
static int f_flags; static unsigned long long f_goal, f_start, f_len;
static struct ext2_inode w_inode;	/* the inode as handed to ext2fs_write_new_inode */
static unsigned long long io_blk; static int io_count;
static unsigned char io_byte;		/* byte IN.k of the block handed to the device */
static unsigned int g_bad;
#define EXPECT(c) do { if (!(c)) g_bad = 1; } while (0)
static ext2_filsys g_fs;
static struct struct_io_channel g_io;

errcode_t ext2fs_read_bitmaps(ext2_filsys fs) { s_bitmaps = ++g_seq; EXPECT(fs == g_fs); return IN.r_bitmaps; }
errcode_t ext2fs_read_inode(ext2_filsys fs, ext2_ino_t ino, struct ext2_inode *inode)
{
	s_read = ++g_seq;
	EXPECT(fs == g_fs && ino == IN.ino);
	/* an arbitrary inode (the caller's buffer is left as it is: uninitialised = arbitrary), with the two fields the
	 * function looks at chosen by the harness */
	inode->i_blocks = IN.i_blocks;
	inode->i_flags = IN.i_flags;
	return IN.r_read;
}
errcode_t ext2fs_inode_size_set(ext2_filsys fs, struct ext2_inode *inode, ext2_off64_t size)
{
	inode->i_size = size & 0xFFFFFFFFu;
	inode->i_size_high = size >> 32;
	return IN.r_size;
}
errcode_t ext2fs_fallocate(ext2_filsys fs, int flags, ext2_ino_t ino, struct ext2_inode *inode, blk64_t goal, blk64_t start, blk64_t len)
{
	int n;
	n_falloc++; s_falloc = ++g_seq;
	EXPECT(fs == g_fs && ino == IN.ino);
	f_flags = flags; f_goal = goal; f_start = start; f_len = len;
	if (IN.r_falloc) return IN.r_falloc;
	inode->i_block[0] = IN.iblock[0]; inode->i_block[1] = IN.iblock[1]; inode->i_block[2] = IN.iblock[2];
	inode->i_block[3] = IN.iblock[3]; inode->i_block[4] = IN.iblock[4]; inode->i_block[5] = IN.iblock[5];
	inode->i_block[6] = IN.iblock[6]; inode->i_block[7] = IN.iblock[7]; inode->i_block[8] = IN.iblock[8];
	inode->i_block[9] = IN.iblock[9]; inode->i_block[10] = IN.iblock[10]; inode->i_block[11] = IN.iblock[11];
	inode->i_block[12] = IN.iblock[12]; inode->i_block[13] = IN.iblock[13]; inode->i_block[14] = IN.iblock[14];
	return 0;
}
errcode_t ext2fs_write_new_inode(ext2_filsys fs, ext2_ino_t ino, struct ext2_inode *inode)
{
	n_winode++; s_winode = ++g_seq;
	EXPECT(fs == g_fs && ino == IN.ino);
	w_inode = *inode;
	return IN.r_winode;
}
errcode_t ext2fs_bmap2(ext2_filsys fs, ext2_ino_t ino, struct ext2_inode *inode, char *block_buf, int bmap_flags, blk64_t block,
		       int *ret_flags, blk64_t *phys_blk)
{
	s_bmap = ++g_seq;
	EXPECT(fs == g_fs && ino == IN.ino && block == 0 && bmap_flags == 0);
	*phys_blk = IN.phys0;
	return IN.r_bmap;
}
errcode_t io_channel_write_blk64(io_channel channel, unsigned long long block, int count, const void *data)
{
	n_io++; s_io = ++g_seq;
	EXPECT(channel == &g_io);
	io_blk = block; io_count = count;
	io_byte = ((const unsigned char *)data)[IN.k];
	return IN.r_io;
}

/* expected byte k of the journal superblock (as in unit jw_create_journal_superblock, internal journal) */
static unsigned char spec_jsb_byte(unsigned long k, unsigned int bs, unsigned int nblocks, unsigned int nfc, int v1, const unsigned char *uuid)
{
	if (JW_IN_FIELD(k, 0x00, 4)) return JW_BE_BYTE(JW_MAGIC, 4, k);
	if (JW_IN_FIELD(k, 0x04, 4)) return JW_BE_BYTE(v1 ? JW_BT_SB_V1 : JW_BT_SB_V2, 4, k - 0x04);
	if (JW_IN_FIELD(k, JW_SB_BLOCKSIZE, 4)) return JW_BE_BYTE(bs, 4, k - JW_SB_BLOCKSIZE);
	if (JW_IN_FIELD(k, JW_SB_MAXLEN, 4)) return JW_BE_BYTE(nblocks + nfc, 4, k - JW_SB_MAXLEN);
	if (JW_IN_FIELD(k, JW_SB_FIRST, 4)) return JW_BE_BYTE(1u, 4, k - JW_SB_FIRST);
	if (JW_IN_FIELD(k, JW_SB_SEQUENCE, 4)) return JW_BE_BYTE(1u, 4, k - JW_SB_SEQUENCE);
	if (JW_IN_FIELD(k, JW_SB_UUID, 16)) return uuid[k - JW_SB_UUID];
	if (JW_IN_FIELD(k, JW_SB_NR_USERS, 4)) return JW_BE_BYTE(1u, 4, k - JW_SB_NR_USERS);
	if (JW_IN_FIELD(k, 0x54, 4)) return JW_BE_BYTE(nfc, 4, k - 0x54);
	return 0;
}
#define SPEC_FS_INCOMPAT 0x60
#define SPEC_FS_UUID 0x68
#define SPEC_FS_JNL_BACKUP_TYPE 0xFD	/* u8 s_jnl_backup_type */
#define SPEC_FS_JNL_BLOCKS 0x10C	/* le32 s_jnl_blocks[17] */
#define SPEC_LE32(b, o) ((unsigned int)(b)[o] | ((unsigned int)(b)[(o) + 1] << 8) | ((unsigned int)(b)[(o) + 2] << 16) | ((unsigned int)(b)[(o) + 3] << 24))

void h_wji(void)
{
	LOAD_IN();
	struct ext2fs_journal_params jp;
	struct ext2_super_block *sb = malloc(1024);	/* arbitrary content */
	unsigned char *sbb = (unsigned char *)sb;
	g_fs = malloc(sizeof(*g_fs));
	ASSUME(g_fs && sb);
	memset(g_fs, 0, sizeof(*g_fs));
	g_fs->super = sb;
	g_fs->blocksize = 1024;
	g_fs->io = &g_io;
	g_fs->now = 1;
	g_fs->flags = 0;
	jp.num_journal_blocks = IN.num_journal_blocks;
	jp.num_fc_blocks = IN.num_fc_blocks;
	ASSUME((unsigned long long)IN.num_journal_blocks + IN.num_fc_blocks <= 0xFFFFFFFFull);
	ASSUME(IN.goal != ~0ULL && IN.k < 1024);
	ASSUME(!(sbb[SPEC_FS_INCOMPAT] & 0x08));	/* not a journal device: this is the journal INSIDE a filesystem */
	g_seq = 0; g_bad = 0; n_falloc = n_winode = n_io = 0;
	s_bitmaps = s_read = s_falloc = s_winode = s_bmap = s_io = 0;
	unsigned int old_backup0 = SPEC_LE32(sbb, SPEC_FS_JNL_BLOCKS);
	unsigned char old_type = sbb[SPEC_FS_JNL_BACKUP_TYPE];
	int extents = (sbb[SPEC_FS_INCOMPAT] & 0x40) != 0;	/* ext4 incompat EXTENTS 0x0040 */
	unsigned long long total = (unsigned long long)IN.num_journal_blocks + IN.num_fc_blocks;

	errcode_t r = write_journal_inode(g_fs, IN.ino, &jp, IN.goal, IN.flags);

	CHECK(!g_bad, "every callee is given this filesystem, the journal inode, logical block 0 / the filesystem's io channel");
	if (IN.num_journal_blocks < 1024) {
		CHECK(r == EXT2_ET_JOURNAL_TOO_SMALL && g_seq == 0, "journal too small: refused before anything is touched");
		REACH("too small");
		return;
	}
	if (r == 0) {
		CHECK(s_bitmaps && s_bitmaps < s_read && s_read < s_falloc && s_falloc < s_winode && s_winode < s_bmap && s_bmap < s_io,
		      "P: bitmaps, read inode, allocate (and zero) the blocks, write the inode, map block 0, write the journal superblock - in this order");
		CHECK(n_falloc == 1 && n_winode == 1 && n_io == 1, "each step once");
		CHECK(IN.i_blocks == 0, "only an inode without blocks becomes the journal");
		CHECK(f_start == 0 && f_len == total && f_goal == IN.goal, "one allocation: logical blocks 0 .. journal + fast-commit blocks - 1, near the goal");
		CHECK(f_flags == (EXT2_FALLOCATE_FORCE_INIT | ((IN.flags & EXT2_MKJOURNAL_LAZYINIT) ? 0 : EXT2_FALLOCATE_ZERO_BLOCKS)),
		      "initialised extents, ZEROED unless lazy initialisation was requested");
		CHECK(w_inode.i_mode == (0100000 | 0600) && w_inode.i_links_count == 1, "journal inode: regular file, mode 0600, one link");
		CHECK((((unsigned long long)w_inode.i_size_high << 32) | w_inode.i_size) == total * 1024, "journal inode size = blocks * block size");
		CHECK(!extents || (w_inode.i_flags & 0x80000), "extent-mapped (EXT4_EXTENTS_FL) on a filesystem with the extents feature");
		CHECK(io_blk == IN.phys0 && io_count == 1, "journal superblock written to the block that logical block 0 maps to, one block");
		CHECK(io_byte == spec_jsb_byte(IN.k, 1024, IN.num_journal_blocks, IN.num_fc_blocks, IN.flags & 1, sbb + SPEC_FS_UUID),
		      "the block written is the journal superblock the format prescribes");
		CHECK(SPEC_LE32(sbb, SPEC_FS_JNL_BLOCKS) == IN.iblock[0] && SPEC_LE32(sbb, SPEC_FS_JNL_BLOCKS + 4 * 7) == IN.iblock[7] &&
		      SPEC_LE32(sbb, SPEC_FS_JNL_BLOCKS + 4 * 14) == IN.iblock[14], "s_jnl_blocks[0..14] = the inode's i_block[] (three of the fifteen words checked)");
		CHECK(SPEC_LE32(sbb, SPEC_FS_JNL_BLOCKS + 4 * 15) == w_inode.i_size_high && SPEC_LE32(sbb, SPEC_FS_JNL_BLOCKS + 4 * 16) == w_inode.i_size,
		      "s_jnl_blocks[15] = i_size_high, s_jnl_blocks[16] = i_size");
		CHECK(sbb[SPEC_FS_JNL_BACKUP_TYPE] == 1 && (g_fs->flags & EXT2_FLAG_DIRTY), "s_jnl_backup_type = EXT3_JNL_BACKUP_BLOCKS, superblock marked dirty");
		if (IN.flags & EXT2_MKJOURNAL_LAZYINIT) REACH("lazy init"); else REACH("zeroed journal");
		REACH("created");
	} else {
		CHECK(sbb[SPEC_FS_JNL_BACKUP_TYPE] == old_type && SPEC_LE32(sbb, SPEC_FS_JNL_BLOCKS) == old_backup0 && !(g_fs->flags & EXT2_FLAG_DIRTY),
		      "failure: the filesystem superblock (journal backup) is untouched");
		if (g_seq == 0) {
			CHECK(r == EXT2_ET_NO_MEMORY, "nothing done at all: out of memory for the journal superblock buffer");
			REACH("no memory");
		} else if (IN.i_blocks > 0 && !IN.r_bitmaps && !IN.r_read) {
			CHECK(r == EEXIST && n_falloc == 0 && n_winode == 0 && n_io == 0, "inode already has blocks: EEXIST, nothing allocated or written");
			REACH("exists");
		}
		CHECK(n_winode == 0 || (n_falloc == 1 && s_falloc < s_winode && !IN.r_falloc), "P: the inode is never written before its blocks were allocated successfully");
		CHECK(n_io == 0 || (n_winode == 1 && !IN.r_winode && !IN.r_bmap), "P: the journal superblock is never written before the inode");
		REACH("failed");
	}
	REACH("end");
}
