/*
 * C16 — ext2fs_mem_is_zero (lib/ext2fs/gen_bitmap.c), the byte scan under ba_test_clear_bmap_extent and
 * ext2fs_test_clear_generic_bitmap_range.
 *
 * Contract (specs/c16_ba_mem_is_zero.h, from its documentation "Return 1 if @mem is zeroed memory, otherwise
 * return 0"):
 *   returns 1 or 0;
 *   returns 1  =>  every byte of mem[0..len) is 0        (stated for the ghost byte at object offset verif_g3)
 *   returns 0  =>  some byte of mem[0..len) is not 0     (witness offset in the ghost verif_g4, produced by the
 *                  memcmp model: Skolem form of "memcmp != 0 => a differing byte exists")
 *   reads only mem[0..len) (bounds checks on; the buffer is allocated with exactly len bytes after the
 *   misalignment prefix), writes nothing but the ghost verif_g4.
 * The 256-byte chunk loop carries an in-place loop contract (hooks-pending/ba.diff; it uses __CPROVER_loop_entry for
 * the entry values of mem and len); libc memcmp is replaced by the pointwise model in specs/c16_ba_memcmp.h.
 * The harness additionally runs the function on an all-zero buffer (calloc) of arbitrary length/alignment and demands
 * the answer 1 (the contrapositive of the second implication, proved without the witness).
 */
/* VERIF-UNIT
{
 "name": "mem_is_zero",
 "props": ["C16"],
 "level": "U",
 "tier": "quick",
 "harness": "h_mem_is_zero",
 "enforce": ["ext2fs_mem_is_zero"],
 "loop_contracts": true,
 "functions": ["lib/ext2fs/gen_bitmap.c:ext2fs_mem_is_zero"],
 "assumes": ["buffer length capped at 2^17 bytes (object-size cap; the chunk loop is closed by its loop contract, nothing depends on the cap); length, content and the 8 byte-misalignments otherwise symbolic",
             "libc memcmp replaced by its C11 semantics stated pointwise (specs/c16_ba_memcmp.h): result 0 => equal at the ghost byte, result != 0 => a differing byte exists (its object offset published in the ghost verif_g4)",
             "the loop contract contains one __CPROVER_forall over the CONSTANT range 0..255 (zero_buf stays all-zero: DFCC treats the function-local static as assignable by the loop and havocs it); the SAT back end expands it, no quantifier is left to the solver",
             "needs the in-place loop contract of hooks-pending/ba.diff (gen_bitmap.c)"],
 "native": true
}
*/
#include "verif.h"

struct in_miz {
	unsigned long long len, k;
	unsigned char misalign, zero;
	unsigned char fill[8];
};
struct in_miz IN;
#include "verif_in.h"

unsigned long long verif_k;	/* unused here */
unsigned long long verif_g3;	/* ghost: object offset of one arbitrary byte */
unsigned long long verif_g4;	/* ghost: object offset of the witness published by the memcmp model */

#include "c16_ba_memcmp.h"
#include "c16_ba_mem_is_zero.h"
#include "lib/ext2fs/gen_bitmap.c"

#define MIZ_MAX (1ULL << 17)

void h_mem_is_zero(void)
{
	LOAD_IN();
	ASSUME(IN.len <= MIZ_MAX && IN.misalign < 8);
	ASSUME(IN.k < IN.len || (IN.len == 0 && IN.k == 0));
	char *raw = IN.zero ? calloc(IN.len + IN.misalign, 1) : malloc(IN.len + IN.misalign);
	ASSUME(raw != 0);
#ifdef VERIF_NATIVE
	for (unsigned long long j = 0; j < IN.len + IN.misalign; j++)
		raw[j] = IN.zero ? 0 : IN.fill[j & 7];
#endif
	char *mem = raw + IN.misalign;
#ifndef VERIF_NATIVE
	verif_g3 = C16_OFF(mem) + IN.k;
	verif_g4 = 0;
#endif
	int r = ext2fs_mem_is_zero(mem, IN.len);
	CHECK(r == 0 || r == 1, "mem_is_zero: returns 0 or 1");
	if (r) {
		CHECK(IN.len == 0 || mem[IN.k] == 0, "mem_is_zero: answer 1 only if every byte is zero");
		REACH("one");
	} else {
#ifndef VERIF_NATIVE
		CHECK(C16_IDX(verif_g4, mem) < IN.len && mem[C16_IDX(verif_g4, mem)] != 0,
		      "mem_is_zero: answer 0 only if a non-zero byte exists (witness)");
#endif
		REACH("zero");
	}
	if (IN.zero) {
		CHECK(r == 1, "mem_is_zero: answer 1 on an all-zero buffer");
		REACH("allzero");
	}
	REACH("end");
}
