/*
 * C16 — bit-array backend: ba_set_bmap_range / ba_get_bmap_range (lib/ext2fs/blkmap64_ba.c), bulk transfer of the
 * positions [start, start+num) from / to a packed little-endian bit buffer (bit j of the buffer <-> position
 * start + j), as used by read_bitmaps / write_bitmaps / e2image / e2fsck pass 5.
 *
 * Set view: position p is a member iff bit (p - bitmap->start) of the bit array is 1.
 * Contract (from the property text: "bulk get/set of bit ranges ... as a set would"), for ONE ghost position verif_k
 * (index relative to bitmap->start), rel = start - bitmap->start:
 *   set:  returns 0;  k in [rel, rel+num)        =>  member(k) after  ==  bit (k - rel) of in
 *                     k outside the touched bytes =>  member(k) unchanged
 *                     (touched bytes = [rel, rel + 8*ceil(num/8)): the backend copies whole bytes, so when num is not
 *                      a multiple of 8 the up to 7 positions after the range take the padding bits of in — stated
 *                      as third clause, see "assumes")
 *   get:  returns 0;  k in [rel, rel+num)        =>  bit (k - rel) of out  ==  member(k);  the bitmap is unchanged
 * Preconditions, taken from the code and its call sites (the generic layer ext2fs_{set,get}_generic_bmap_range passes
 * start/num through to the backend without any check for 64-bit bitmaps):
 *   (P1) (start - bitmap->start) % 8 == 0 and bitmap->start < 8.  The backend addresses the byte as
 *        bitarray + (start >> 3), i.e. with the ABSOLUTE position; this is the byte of the relative bit index only
 *        under P1.  Callers: rw_bitmaps.c (blk_itr = B2C(s_first_data_block) + i * (block_nbytes << 3),
 *        ino_itr = 1 + i * (inode_nbytes << 3)), imager.c, e2fsck/pass5.c: start = bitmap->start + multiple of 8,
 *        bitmap->start = s_first_data_block (0 or 1, cluster-converted) or 1 (inode bitmaps).
 *   (P2) start >= bitmap->start, and start + num - 1 <= bitmap->real_end without wrap-around (num == 0 allowed):
 *        the callers iterate over the groups of the file system the bitmap was sized for.
 *   (P3) the buffer holds ceil(num/8) bytes and does not overlap the bit array (it is the caller's I/O buffer).
 * libc memcpy is CBMC's built-in model (array copy); buffers are small (cap below), so no model of our own is needed.
 */
/* VERIF-UNIT
{
 "name": "ba_set_bmap_range",
 "props": ["C16"],
 "level": "U",
 "tier": "quick",
 "harness": "h_ba_set_range",
 "enforce": ["ba_set_bmap_range"],
 "sources": ["lib/ext2fs/bitops.c"],
 "defines": ["BA_MAX_BITS=4096"],
 "functions": ["lib/ext2fs/blkmap64_ba.c:ba_set_bmap_range"],
 "assumes": ["bit array capped at 4096 bits (object-size cap; the function is loop-free, memcpy is CBMC's built-in array copy); geometry, contents, range and the 8 byte-misalignments of the array otherwise symbolic",
             "P1: (start - bitmap->start) % 8 == 0 and bitmap->start < 8 (byte-granular API; guaranteed by every caller in the tree, NOT checked by the generic layer)",
             "P2: bitmap->start <= start, start+num-1 <= bitmap->real_end, no wrap-around",
             "P3: the in buffer has ceil(num/8) bytes and is a different object than the bit array",
             "when num % 8 != 0 the backend also overwrites the up to 7 positions following the range with the padding bits of the buffer's last byte (whole-byte copy); set semantics for exactly [start,start+num) holds when num % 8 == 0, which all callers pass except for the final chunk of an image file, where the range ends at the bitmap's last position"],
 "native": true
}
*/
/* VERIF-UNIT
{
 "name": "ba_get_bmap_range",
 "props": ["C16"],
 "level": "U",
 "tier": "quick",
 "harness": "h_ba_get_range",
 "enforce": ["ba_get_bmap_range"],
 "sources": ["lib/ext2fs/bitops.c"],
 "defines": ["BA_MAX_BITS=4096"],
 "functions": ["lib/ext2fs/blkmap64_ba.c:ba_get_bmap_range"],
 "assumes": ["bit array capped at 4096 bits (object-size cap; the function is loop-free, memcpy is CBMC's built-in array copy); geometry, contents, range and the 8 byte-misalignments of the array otherwise symbolic",
             "P1: (start - bitmap->start) % 8 == 0 and bitmap->start < 8 (byte-granular API; guaranteed by every caller in the tree, NOT checked by the generic layer)",
             "P2: bitmap->start <= start, start+num-1 <= bitmap->real_end, no wrap-around",
             "P3: the out buffer has ceil(num/8) bytes and is a different object than the bit array",
             "bits of the last out byte beyond num are not specified (the backend copies the array's following positions into them)"],
 "native": true
}
*/
#include "ba_env.h"

#define REL(bm, p) ((p) - (bm)->start)
#define RANGE_PRE(bm, S, N) \
	((bm)->start < 8 && (bm)->start <= (S) && (S) <= (bm)->real_end && REL(bm, S) % 8 == 0 && \
	 ((N) == 0 || ((S) + (N) - 1 >= (S) && (S) + (N) - 1 <= (bm)->real_end)))
#define ROUND8(n) ((((unsigned long long)(n)) + 7) & ~7ULL)

static errcode_t ba_set_bmap_range(ext2fs_generic_bitmap_64 bitmap, __u64 start, size_t num, void *in)
	REQUIRES(RANGE_PRE(bitmap, start, num))
	REQUIRES(__CPROVER_r_ok(in, (num + 7) >> 3) && !__CPROVER_same_object(in, ARR(bitmap)))
	REQUIRES(verif_old_bit == BIT(ARR(bitmap), verif_k))
	ENSURES(RET == 0)
	ENSURES(!IN_RANGE(verif_k, REL(bitmap, start), REL(bitmap, start) + num) ||
		BIT(ARR(bitmap), verif_k) == BIT(in, verif_k - REL(bitmap, start)))
	ENSURES(IN_RANGE(verif_k, REL(bitmap, start), REL(bitmap, start) + ROUND8(num)) ||
		BIT(ARR(bitmap), verif_k) == verif_old_bit)
	ENSURES(!IN_RANGE(verif_k, REL(bitmap, start) + num, REL(bitmap, start) + ROUND8(num)) ||
		BIT(ARR(bitmap), verif_k) == BIT(in, verif_k - REL(bitmap, start)))
	ASSIGNS(__CPROVER_object_whole(ARR(bitmap)));

static errcode_t ba_get_bmap_range(ext2fs_generic_bitmap_64 bitmap, __u64 start, size_t num, void *out)
	REQUIRES(RANGE_PRE(bitmap, start, num))
	REQUIRES(__CPROVER_w_ok(out, (num + 7) >> 3) && !__CPROVER_same_object(out, ARR(bitmap)))
	REQUIRES(verif_old_bit == BIT(ARR(bitmap), verif_k))
	ENSURES(RET == 0)
	ENSURES(!IN_RANGE(verif_k, REL(bitmap, start), REL(bitmap, start) + num) ||
		BIT(out, verif_k - REL(bitmap, start)) == BIT(ARR(bitmap), verif_k))
	ENSURES(BIT(ARR(bitmap), verif_k) == verif_old_bit)
	ASSIGNS(__CPROVER_object_whole(out));

static unsigned char *BUF;	/* the caller's packed bit buffer, exactly ceil(num/8) bytes */

static void build_range(void)
{
	build_bitmap();
	/* IN.arg = start, IN.arg2 = num */
	ASSUME(IN.start < 8 && IN.start <= IN.arg && IN.arg <= IN.real_end && (IN.arg - IN.start) % 8 == 0);
	ASSUME(IN.arg2 == 0 || (IN.arg + IN.arg2 - 1 >= IN.arg && IN.arg + IN.arg2 - 1 <= IN.real_end));
	unsigned long long nb = (IN.arg2 + 7) >> 3;
	BUF = malloc(nb);
	ASSUME(BUF != 0);
#ifdef VERIF_NATIVE
	for (unsigned long long j = 0; j < nb; j++)
		BUF[j] = IN.fill[(j + 3) & 7];
#endif
}

void h_ba_set_range(void)
{
	build_range();
	unsigned long long rel = IN.arg - IN.start;
	errcode_t r = ba_set_bmap_range(&BM, IN.arg, IN.arg2, BUF);
	CHECK(r == 0, "set_range: returns 0");
	if (verif_k >= rel && verif_k < rel + IN.arg2) {
		CHECK(BIT(BP.bitarray, verif_k) == BIT(BUF, verif_k - rel), "set_range: positions of the range take the buffer's bits");
		REACH("inside");
	} else if (verif_k < rel || verif_k >= rel + ROUND8(IN.arg2)) {
		CHECK(BIT(BP.bitarray, verif_k) == verif_old_bit, "set_range: positions outside the touched bytes keep their membership");
		REACH("outside");
	} else {
		REACH("padding");
	}
	CHECK(BM.start == IN.start && BM.end == IN.end && BM.real_end == IN.real_end, "set_range: geometry unchanged");
	REACH("end");
}

void h_ba_get_range(void)
{
	build_range();
	unsigned long long rel = IN.arg - IN.start;
	errcode_t r = ba_get_bmap_range(&BM, IN.arg, IN.arg2, BUF);
	CHECK(r == 0, "get_range: returns 0");
	if (verif_k >= rel && verif_k < rel + IN.arg2) {
		CHECK(BIT(BUF, verif_k - rel) == BIT(BP.bitarray, verif_k), "get_range: buffer bit j is the membership of start + j");
		REACH("inside");
	}
	CHECK(BIT(BP.bitarray, verif_k) == verif_old_bit, "get_range: bitmap unchanged");
	CHECK(BM.start == IN.start && BM.end == IN.end && BM.real_end == IN.real_end, "get_range: geometry unchanged");
	REACH("end");
}
