/*
 * C16 — bit-array backend: ba_resize_bmap (lib/ext2fs/blkmap64_ba.c): change end and real_end of a bitmap, keeping the
 * members that remain in range and making every newly visible position a non-member.
 *
 * Set view: position p is a member iff bit (p - start) of the bit array is 1; stated at ONE ghost index verif_k with
 * verif_k <= max(old real_end, new real_end) - start (verif_old_bit = its value on entry, 0 if the old array has no
 * byte for it).
 * Contract (from the property text, "resize ... as a set would"; oe = old end, ne = new_end):
 *   returns 0 or EXT2_ET_NO_MEMORY;
 *   0 =>  end == new_end, real_end == new_real_end, the array has a byte for every position of [start, new_real_end];
 *         k <= min(oe, ne) - start           =>  member(k) unchanged          (members still in range are kept)
 *         oe - start < k <= ne - start       =>  k is not a member            (the new tail is empty; this covers the
 *                                                positions between the old end and the old real_end — padding that
 *                                                may have been marked — which the code must clear BEFORE it takes the
 *                                                "same real_end" shortcut, and the freshly allocated bytes)
 *   EXT2_ET_NO_MEMORY => end, real_end, the array pointer and the members of [start, oe] are unchanged.
 * well_formed(bitmap) on entry (from the code): start <= end <= real_end; the array is a malloc'ed block of exactly
 * ((real_end - start) / 8) + 1 bytes; PADZERO: the bits of the last byte that lie beyond real_end are 0 (true after
 * ba_new_bmap; mark/unmark/extent operations never touch them because the generic layer rejects positions > end).
 * Unit ba_resize_bmap proves the contract above from well-formed states.
 * Unit ba_resize_bmap_wf additionally demands that the function RE-ESTABLISHES PADZERO for the new geometry.  This
 * FAILS on the unchanged tree (genuine defect, findings/C16_ba_resize_stale_bits): shrinking real_end leaves the old
 * members that now lie beyond real_end in the last kept byte; a later grow makes them visible again, although as a set
 * they were removed by the shrink.
 * Precondition from the callers (ext2fs_resize_generic_bmap passes the arguments through; resize2fs / ext2fs_resize_*
 * pass new_end <= new_real_end): start <= new_end <= new_real_end.
 * The clearing loop carries an in-place loop contract (hooks-pending/ba.diff).  ext2fs_resize_mem / realloc / memset are
 * the real inline function and CBMC's built-in models.
 */
/* VERIF-UNIT
{
 "name": "ba_resize_bmap",
 "props": ["C16"],
 "level": "U",
 "tier": "quick",
 "harness": "h_ba_resize",
 "enforce": ["ba_resize_bmap"],
 "loop_contracts": true,
 "sources": ["lib/ext2fs/bitops.c"],
 "defines": ["BA_MAX_BITS=512"],
 "functions": ["lib/ext2fs/blkmap64_ba.c:ba_resize_bmap"],
 "assumes": ["old and new real_end - start capped at 512 bits (object-size cap; the clearing loop is closed by its loop contract, the rest is loop-free); geometry, contents, new_end, new_real_end otherwise symbolic",
             "well-formed entry state: start <= end <= real_end, array = malloc'ed block of exactly ((real_end-start)/8)+1 bytes, bits of the last byte beyond real_end are 0 (PADZERO, stated for the ghost bit)",
             "start <= new_end <= new_real_end (callers)",
             "libc realloc/memset/memcpy as modelled by CBMC (realloc may fail)",
             "needs the in-place loop contract of hooks-pending/ba.diff"],
 "native": false
}
*/
/* VERIF-UNIT
{
 "name": "ba_resize_bmap_wf",
 "props": ["C16"],
 "level": "U",
 "tier": "quick",
 "harness": "h_ba_resize",
 "enforce": ["ba_resize_bmap"],
 "loop_contracts": true,
 "sources": ["lib/ext2fs/bitops.c"],
 "defines": ["BA_MAX_BITS=512", "BA_RESIZE_WF=1"],
 "functions": ["lib/ext2fs/blkmap64_ba.c:ba_resize_bmap"],
 "assumes": ["as ba_resize_bmap; additionally demands PADZERO for the new geometry on return (fails on the pinned tree: findings/C16_ba_resize_stale_bits)"],
 "native": false
}
*/
#define BA_ENV_OWN_GHOST
#include "ba_env.h"

unsigned long long verif_g0;	/* ghost: bmap->end on entry */
unsigned long long verif_g1;	/* ghost: bmap->real_end on entry */
unsigned long long verif_g2;	/* ghost: number of bytes of the array on entry */
char *verif_old_arr;		/* ghost: the array pointer on entry */

#define NBYTES_OF(bm) ((((bm)->real_end - (bm)->start) / 8) + 1)
#define MINV(a, b) ((a) < (b) ? (a) : (b))
#ifndef VERIF_NATIVE
#define IS_HEAP_BLOCK(p, n) ((p) != 0 && __CPROVER_DYNAMIC_OBJECT(p) && __CPROVER_POINTER_OFFSET(p) == 0 && \
			     __CPROVER_OBJECT_SIZE(p) == (n))
#define HAS_BYTE_FOR(bm, k) (ARR(bm) != 0 && __CPROVER_POINTER_OFFSET(ARR(bm)) == 0 && \
			     ((k) >> 3) < __CPROVER_OBJECT_SIZE(ARR(bm)) && __CPROVER_w_ok(ARR(bm), ((k) >> 3) + 1))
#define FREES(...) __CPROVER_frees(__VA_ARGS__)
#else
#define IS_HEAP_BLOCK(p, n) 1
#define HAS_BYTE_FOR(bm, k) 1
#define FREES(...)
#endif
/* bit k of the array, 0 if the array has no byte for it */
#define BIT_OR_0(bm, k) (((k) >> 3) < NBYTES_OF(bm) ? BIT(ARR(bm), k) : 0)
/* PADZERO at the ghost bit: a bit of the last byte that lies beyond real_end is 0 */
#define PADZERO(bm, k) (!((k) > (bm)->real_end - (bm)->start && ((k) >> 3) < NBYTES_OF(bm)) || BIT(ARR(bm), k) == 0)

static errcode_t ba_resize_bmap(ext2fs_generic_bitmap_64 bmap, __u64 new_end, __u64 new_real_end)
	REQUIRES(bmap->start <= bmap->end && bmap->end <= bmap->real_end)
	REQUIRES(bmap->start <= new_end && new_end <= new_real_end)
	REQUIRES(IS_HEAP_BLOCK(ARR(bmap), NBYTES_OF(bmap)))
	REQUIRES(verif_g0 == bmap->end && verif_g1 == bmap->real_end && verif_g2 == NBYTES_OF(bmap) && verif_old_arr == ARR(bmap))
	REQUIRES(verif_old_bit == BIT_OR_0(bmap, verif_k))
	REQUIRES(PADZERO(bmap, verif_k))
	ENSURES(RET == 0 || RET == EXT2_ET_NO_MEMORY)
	ENSURES(RET != 0 || (bmap->end == new_end && bmap->real_end == new_real_end))
	ENSURES(RET != 0 || verif_k > new_real_end - bmap->start || HAS_BYTE_FOR(bmap, verif_k))
	ENSURES(RET != 0 || verif_k > MINV(verif_g0, new_end) - bmap->start || BIT(ARR(bmap), verif_k) == verif_old_bit)
	ENSURES(RET != 0 || !(verif_k > verif_g0 - bmap->start && verif_k <= new_end - bmap->start) || BIT(ARR(bmap), verif_k) == 0)
	ENSURES(RET == 0 || (bmap->end == verif_g0 && bmap->real_end == verif_g1 && ARR(bmap) == verif_old_arr))
	ENSURES(RET == 0 || verif_k > verif_g0 - bmap->start || BIT(ARR(bmap), verif_k) == verif_old_bit)
#ifdef BA_RESIZE_WF
	ENSURES(RET != 0 || PADZERO(bmap, verif_k))
#endif
	ASSIGNS(bmap->end, bmap->real_end, ARR(bmap), __CPROVER_object_whole(ARR(bmap)))
	FREES(ARR(bmap));

void h_ba_resize(void)
{
	build_bitmap();			/* array at misalignment 0 only: realloc needs the start of a heap block */
	ASSUME(IN.misalign == 0);
	/* IN.arg = new_end, IN.arg2 = new_real_end; the ghost bit may lie in the old or in the new array */
	ASSUME(IN.start <= IN.arg && IN.arg <= IN.arg2 && IN.arg2 - IN.start < BA_MAX_BITS);
	verif_k = IN.k;
	ASSUME(verif_k <= IN.real_end - IN.start || verif_k <= IN.arg2 - IN.start);
	verif_old_bit = BIT_OR_0(&BM, verif_k);
	ASSUME(PADZERO(&BM, verif_k));
	verif_g0 = IN.end; verif_g1 = IN.real_end; verif_g2 = NBYTES; verif_old_arr = BP.bitarray;
	unsigned long long oe = IN.end - IN.start, ne = IN.arg - IN.start;
	errcode_t r = ba_resize_bmap(&BM, IN.arg, IN.arg2);
	CHECK(r == 0 || r == EXT2_ET_NO_MEMORY, "resize: returns 0 or EXT2_ET_NO_MEMORY");
	CHECK(BM.start == IN.start, "resize: start unchanged");
	if (r == 0) {
		CHECK(BM.end == IN.arg && BM.real_end == IN.arg2, "resize: end and real_end updated");
		if (verif_k <= IN.arg2 - IN.start)
			CHECK(HAS_BYTE_FOR(&BM, verif_k), "resize: the array has a byte for every position of [start, new_real_end]");
		if (verif_k <= MINV(oe, ne)) {
			CHECK(BIT(BP.bitarray, verif_k) == verif_old_bit, "resize: members up to min(old end, new end) are kept");
			REACH("kept");
		}
		if (verif_k > oe && verif_k <= ne) {
			CHECK(BIT(BP.bitarray, verif_k) == 0, "resize: positions between the old end and the new end are non-members");
			REACH("newtail");
		}
#ifdef BA_RESIZE_WF
		CHECK(PADZERO(&BM, verif_k), "resize: bits of the last byte beyond the new real_end are clear (well-formedness re-established)");
#endif
		REACH("ok");
	} else {
		CHECK(BM.end == IN.end && BM.real_end == IN.real_end && BP.bitarray == verif_old_arr, "resize: on failure geometry and array are unchanged");
		if (verif_k <= oe)
			CHECK(BIT(BP.bitarray, verif_k) == verif_old_bit, "resize: on failure the members are unchanged");
		REACH("nomem");
	}
	REACH("end");
}
