/*
 * C16 — bit operations under every bitmap back end: lib/ext2fs/bitops.c (ext2fs_{set,clear,test}_bit64, the 32-bit
 * ext2fs_{set,clear,test}_bit, popcount8, popcount32, ext2fs_bitcount) and the inline fast variants of bitops.h
 * (ext2fs_fast_{set,clear}_bit64, ext2fs_fast_{set,clear}_bit).
 *
 * View: a byte buffer is the set { n : bit (n & 7) of byte (n >> 3) is 1 } (little-endian bit numbering, the on-disk
 * bitmap format); stated at ONE ghost bit index verif_k.
 *   set(nr):    afterwards member(k) == (member_before(k) || k == nr);   the non-fast variant returns != 0 iff nr was a member
 *   clear(nr):  afterwards member(k) == (member_before(k) && k != nr);   the non-fast variant returns != 0 iff nr was a member
 *   test(nr):   returns != 0 iff nr is a member; nothing changes
 *   Precondition (call sites: blkmap64_ba.c, gen_bitmap.c pass positions already range-checked): byte nr >> 3 lies in the buffer.
 * popcount8(w) (w <= 0xff: always called with one byte) / popcount32(w): number of 1 bits, against the naive sum of the
 *   single bits (loop-free, U).
 * ext2fs_bitcount(addr, nbytes): number of members in the first nbytes bytes, against a naive bit-by-bit count — BOUNDED:
 *   nbytes <= 8 at all four word-misalignments (0..3 head bytes, 0..1 aligned 32-bit word, 1..4 tail bytes), loops
 *   unwound, popcount8/popcount32 replaced by their contracts.  B(8): a bounded stand-in, not an unbounded proof (a
 *   cardinality is not a pointwise statement; an unbounded proof would need ghost code that folds the count inside the
 *   loops; nbytes <= 12 already exceeds 250 s — two differently associated adder trees over the same bits).
 */
/* VERIF-UNIT
{
 "name": "bitops_bits",
 "props": ["C16"],
 "level": "U",
 "tier": "quick",
 "harness": "h_bitops_bits",
 "enforce": ["ext2fs_set_bit64", "ext2fs_clear_bit64", "ext2fs_test_bit64", "ext2fs_set_bit", "ext2fs_clear_bit", "ext2fs_test_bit",
             "ext2fs_fast_set_bit64", "ext2fs_fast_clear_bit64", "ext2fs_fast_set_bit", "ext2fs_fast_clear_bit"],
 "functions": ["lib/ext2fs/bitops.c:ext2fs_set_bit64", "lib/ext2fs/bitops.c:ext2fs_clear_bit64", "lib/ext2fs/bitops.c:ext2fs_test_bit64",
               "lib/ext2fs/bitops.c:ext2fs_set_bit", "lib/ext2fs/bitops.c:ext2fs_clear_bit", "lib/ext2fs/bitops.c:ext2fs_test_bit",
               "lib/ext2fs/bitops.h:ext2fs_fast_set_bit64", "lib/ext2fs/bitops.h:ext2fs_fast_clear_bit64",
               "lib/ext2fs/bitops.h:ext2fs_fast_set_bit", "lib/ext2fs/bitops.h:ext2fs_fast_clear_bit"],
 "assumes": ["buffer capped at 2^17 bytes (object-size cap; loop-free code); size, contents, bit number and the 8 byte-misalignments otherwise symbolic",
             "precondition: the byte of bit nr lies inside the buffer (callers range-check positions)"],
 "native": true
}
*/
/* VERIF-UNIT
{
 "name": "bitops_popcount",
 "props": ["C16"],
 "level": "U",
 "tier": "quick",
 "harness": "h_bitops_popcount",
 "enforce": ["popcount8", "popcount32"],
 "functions": ["lib/ext2fs/bitops.c:popcount8", "lib/ext2fs/bitops.c:popcount32"],
 "assumes": ["popcount8 is only called with one byte (w <= 0xff), as ext2fs_bitcount does"],
 "native": true
}
*/
/* VERIF-UNIT
{
 "name": "bitops_bitcount_b8",
 "props": ["C16"],
 "level": "B(8)",
 "tier": "quick",
 "harness": "h_bitops_bitcount",
 "replace": ["popcount8", "popcount32"],
 "backend": "cadical",
 "cbmc_flags": ["--object-bits", "12"],
 "unwind": 10,
 "unwind_reason": "bounded stand-in: nbytes <= 8, so the head loop runs <= 3, the word loop <= 1, the tail loop <= 4 times and the harness' naive count <= 8 times; unwinding assertions on",
 "functions": ["lib/ext2fs/bitops.c:ext2fs_bitcount"],
 "allow_missing_classes": true,
 "assumes": ["BOUNDED: nbytes <= 8 (all four word-misalignments of the buffer start, exact-size buffer; at most one iteration of the 32-bit word loop); not an unbounded proof", "popcount8 / popcount32 replaced by their contracts (proved by unit bitmap_ba/bitops_popcount)",
             "pointer-to-integer cast as modelled by CBMC (object base aligned, low bits = offset)"],
 "native": true
}
*/
#include "verif.h"

struct in_bo {
	unsigned long long size, nr, k;
	unsigned int w;
	unsigned char misalign, op;
	unsigned char fill[12];
};
struct in_bo IN;
#include "verif_in.h"
#include "config.h"
#include <sys/types.h>
#include "ext2_types.h"		/* __u64 for the forward declarations below */

unsigned long long verif_k;
int verif_old_bit;
int verif_old_nrbit;	/* ghost: membership of nr on entry */

#define BIT(arr, k) ((((const unsigned char *)(arr))[(k) >> 3] >> ((k) & 7)) & 1)
#define NAIVE8(w) ((((w) >> 0) & 1) + (((w) >> 1) & 1) + (((w) >> 2) & 1) + (((w) >> 3) & 1) + \
		   (((w) >> 4) & 1) + (((w) >> 5) & 1) + (((w) >> 6) & 1) + (((w) >> 7) & 1))
#define NAIVE32(w) (NAIVE8(w) + NAIVE8((w) >> 8) + NAIVE8((w) >> 16) + NAIVE8((w) >> 24))

/* contracts, one shape per operation kind (NRT = type of the bit number) */
#define SET_CONTRACT(NAME, NRT, RT, RETCLAUSE) \
RT NAME(NRT nr, void *addr) \
	REQUIRES(__CPROVER_w_ok((char *)addr + (nr >> 3), 1)) \
	REQUIRES(verif_old_bit == BIT(addr, verif_k) && verif_old_nrbit == BIT(addr, nr)) \
	RETCLAUSE \
	ENSURES(BIT(addr, verif_k) == (verif_old_bit || verif_k == nr)) \
	ASSIGNS(((char *)addr)[nr >> 3]);
#define CLEAR_CONTRACT(NAME, NRT, RT, RETCLAUSE) \
RT NAME(NRT nr, void *addr) \
	REQUIRES(__CPROVER_w_ok((char *)addr + (nr >> 3), 1)) \
	REQUIRES(verif_old_bit == BIT(addr, verif_k) && verif_old_nrbit == BIT(addr, nr)) \
	RETCLAUSE \
	ENSURES(BIT(addr, verif_k) == (verif_old_bit && verif_k != nr)) \
	ASSIGNS(((char *)addr)[nr >> 3]);
#define TEST_CONTRACT(NAME, NRT) \
int NAME(NRT nr, const void *addr) \
	REQUIRES(__CPROVER_r_ok((const char *)addr + (nr >> 3), 1)) \
	ENSURES((RET != 0) == (BIT(addr, nr) != 0)) \
	ASSIGNS();
#define RET_OLD ENSURES((RET != 0) == (verif_old_nrbit != 0))
#define NO_RET

SET_CONTRACT(ext2fs_set_bit64, __u64, int, RET_OLD)
CLEAR_CONTRACT(ext2fs_clear_bit64, __u64, int, RET_OLD)
TEST_CONTRACT(ext2fs_test_bit64, __u64)
SET_CONTRACT(ext2fs_set_bit, unsigned int, int, RET_OLD)
CLEAR_CONTRACT(ext2fs_clear_bit, unsigned int, int, RET_OLD)
TEST_CONTRACT(ext2fs_test_bit, unsigned int)
SET_CONTRACT(ext2fs_fast_set_bit64, __u64, void, NO_RET)
CLEAR_CONTRACT(ext2fs_fast_clear_bit64, __u64, void, NO_RET)
SET_CONTRACT(ext2fs_fast_set_bit, unsigned int, void, NO_RET)
CLEAR_CONTRACT(ext2fs_fast_clear_bit, unsigned int, void, NO_RET)

static unsigned int popcount8(unsigned int w)
	REQUIRES(w <= 0xff)
	ENSURES(RET == NAIVE8(w))
	ASSIGNS();
static unsigned int popcount32(unsigned int w)
	ENSURES(RET == NAIVE32(w))
	ASSIGNS();

#include "lib/ext2fs/bitops.c"

#define BO_MAX (1ULL << 17)
#ifndef BITCOUNT_MAX
#define BITCOUNT_MAX 8
#endif
static unsigned char *BUF;

static void build_buf(unsigned long long maxsize)
{
	LOAD_IN();
	ASSUME(IN.size >= 1 && IN.size <= maxsize && IN.misalign < 8);
	unsigned char *raw = malloc(IN.size + IN.misalign);
	ASSUME(raw != 0);
#ifdef VERIF_NATIVE
	for (unsigned long long j = 0; j < IN.size + IN.misalign; j++)
		raw[j] = IN.fill[j % 12];
#endif
	BUF = raw + IN.misalign;
}

void h_bitops_bits(void)
{
	build_buf(BO_MAX);
	ASSUME((IN.nr >> 3) < IN.size);
	verif_k = IN.k;
	ASSUME((verif_k >> 3) < IN.size);
	verif_old_bit = BIT(BUF, verif_k);
	int was = BIT(BUF, IN.nr);
	verif_old_nrbit = was;
	unsigned int nr32 = (unsigned int)IN.nr;
	int r = 0, kind;	/* kind: 0 set, 1 clear, 2 test */
	unsigned long long nr = IN.nr;
	switch (IN.op) {
	case 0: r = ext2fs_set_bit64(IN.nr, BUF); kind = 0; break;
	case 1: r = ext2fs_clear_bit64(IN.nr, BUF); kind = 1; break;
	case 2: r = ext2fs_test_bit64(IN.nr, BUF); kind = 2; break;
	case 3: ASSUME(IN.nr == nr32); r = ext2fs_set_bit(nr32, BUF); kind = 0; break;
	case 4: ASSUME(IN.nr == nr32); r = ext2fs_clear_bit(nr32, BUF); kind = 1; break;
	case 5: ASSUME(IN.nr == nr32); r = ext2fs_test_bit(nr32, BUF); kind = 2; break;
	case 6: ext2fs_fast_set_bit64(IN.nr, BUF); r = was; kind = 0; break;
	case 7: ext2fs_fast_clear_bit64(IN.nr, BUF); r = was; kind = 1; break;
	case 8: ASSUME(IN.nr == nr32); ext2fs_fast_set_bit(nr32, BUF); r = was; kind = 0; break;
	default: ASSUME(IN.op == 9 && IN.nr == nr32); ext2fs_fast_clear_bit(nr32, BUF); r = was; kind = 1; break;
	}
	CHECK((r != 0) == (was != 0), "bitops: the return value is the (old) membership of nr");
	if (kind == 0) {
		CHECK(BIT(BUF, verif_k) == (verif_old_bit || verif_k == nr), "bitops set: the set gains exactly nr");
		REACH("set");
	} else if (kind == 1) {
		CHECK(BIT(BUF, verif_k) == (verif_old_bit && verif_k != nr), "bitops clear: the set loses exactly nr");
		REACH("clear");
	} else {
		CHECK(BIT(BUF, verif_k) == verif_old_bit, "bitops test: nothing changes");
		REACH("test");
	}
	REACH("end");
}

void h_bitops_popcount(void)
{
	LOAD_IN();
	unsigned int r32 = popcount32(IN.w);
	CHECK(r32 == NAIVE32(IN.w), "popcount32: number of 1 bits of a 32-bit word");
	unsigned int r8 = popcount8(IN.w & 0xff);
	CHECK(r8 == NAIVE8(IN.w & 0xff), "popcount8: number of 1 bits of a byte");
	REACH("end");
}

void h_bitops_bitcount(void)
{
	build_buf(BITCOUNT_MAX);
	ASSUME(IN.misalign < 4);
	unsigned int n = (unsigned int)IN.size, naive = 0;
	for (unsigned int j = 0; j < n; j++)
		naive += NAIVE8((unsigned int)BUF[j]);
	unsigned int r = ext2fs_bitcount(BUF, n);
	CHECK(r == naive, "bitcount: number of members in the first nbytes bytes (nbytes <= 8)");
	REACH("end");
}
