/*
 * C16 — bit-array backend, life cycle: ba_alloc_private_data, ba_new_bmap, ba_clear_bmap, ba_copy_bmap
 * (lib/ext2fs/blkmap64_ba.c).
 *
 * Set view: position p (start <= p <= real_end) is a member iff bit (p - start) of the bit array is 1; the view is
 * stated at ONE ghost index verif_k <= real_end - start.
 * Contracts (from the property text: a new / cleared bitmap is the empty set, a copy is the same set):
 *   alloc_private_data: 0 => private data present, the bit array is a fresh object that has a byte for EVERY position
 *                            of [start, real_end] (byte verif_k>>3 lies inside the object: the size computation);
 *                       else EXT2_ET_NO_MEMORY and bitmap->private is left as it was.  Geometry untouched.
 *   new_bmap:           0 => as above, and no position is a member; else EXT2_ET_NO_MEMORY.
 *   clear_bmap:         afterwards no position is a member; exactly the allocated bytes are written (the array is
 *                       allocated with exactly the backend's size, so one byte more is an out-of-bounds write).
 *   copy_bmap:          0 => dest has its own (different object) array with a byte for every position, every position
 *                            is a member of dest iff it is a member of src, src is unchanged; else EXT2_ET_NO_MEMORY.
 *                       Precondition from the only caller ext2fs_copy_generic_bmap (gen_bitmap64.c): dest->start,
 *                       dest->end, dest->real_end were copied from src before the call.
 * malloc may fail in the verifier (CBMC 6 default), so the out-of-memory paths are exercised.
 * Modular: new_bmap and copy_bmap REPLACE ba_alloc_private_data by its contract (enforced by the unit of that name).
 * The contract hands out the private data and the array as fresh, typed objects (__CPROVER_is_fresh in the
 * postcondition); with the real body inlined the array pointer travels through memcpy(ptr, &pp, sizeof(pp)) of
 * ext2fs_get_mem into an untyped malloc(8) block and the verifier's points-to analysis loses it (105 s / time-out).
 * libc memset / memcpy / malloc / free are CBMC's built-in models.
 */
/* VERIF-UNIT
{
 "name": "ba_alloc_private_data",
 "props": ["C16"],
 "level": "U",
 "tier": "quick",
 "harness": "h_ba_alloc",
 "enforce": ["ba_alloc_private_data"],
 "sources": ["lib/ext2fs/bitops.c"],
 "defines": ["BA_MAX_BITS=4096"],
 "functions": ["lib/ext2fs/blkmap64_ba.c:ba_alloc_private_data"],
 "assumes": ["real_end - start capped at 4096 bits (object-size cap; loop-free code); geometry otherwise symbolic with start <= end <= real_end",
             "libc malloc/free as modelled by CBMC (malloc may return NULL)"],
 "native": false
}
*/
/* VERIF-UNIT
{
 "name": "ba_new_bmap",
 "props": ["C16"],
 "level": "U",
 "tier": "quick",
 "harness": "h_ba_new",
 "enforce": ["ba_new_bmap"],
 "replace": ["ba_alloc_private_data"],
 "sources": ["lib/ext2fs/bitops.c"],
 "defines": ["BA_MAX_BITS=4096"],
 "functions": ["lib/ext2fs/blkmap64_ba.c:ba_new_bmap"],
 "assumes": ["real_end - start capped at 4096 bits (object-size cap; loop-free code); geometry otherwise symbolic with start <= end <= real_end",
             "ba_alloc_private_data replaced by its contract (proved by unit bitmap_ba/ba_alloc_private_data); libc memset as modelled by CBMC"],
 "native": false
}
*/
/* VERIF-UNIT
{
 "name": "ba_clear_bmap",
 "props": ["C16"],
 "level": "U",
 "tier": "quick",
 "harness": "h_ba_clear",
 "enforce": ["ba_clear_bmap"],
 "sources": ["lib/ext2fs/bitops.c"],
 "defines": ["BA_MAX_BITS=4096"],
 "functions": ["lib/ext2fs/blkmap64_ba.c:ba_clear_bmap"],
 "assumes": ["bit array capped at 4096 bits (object-size cap; loop-free code, memset is CBMC's built-in); geometry, contents and the 8 byte-misalignments otherwise symbolic"],
 "native": true
}
*/
/* VERIF-UNIT
{
 "name": "ba_copy_bmap",
 "props": ["C16"],
 "level": "U",
 "tier": "quick",
 "harness": "h_ba_copy",
 "enforce": ["ba_copy_bmap"],
 "replace": ["ba_alloc_private_data"],
 "sources": ["lib/ext2fs/bitops.c"],
 "defines": ["BA_MAX_BITS=4096"],
 "functions": ["lib/ext2fs/blkmap64_ba.c:ba_copy_bmap"],
 "assumes": ["bit array capped at 4096 bits (object-size cap; loop-free code); geometry, contents and the 8 byte-misalignments of the source otherwise symbolic",
             "dest->start/end/real_end equal the source's (ext2fs_copy_generic_bmap copies them before dispatching)",
             "ba_alloc_private_data replaced by its contract (proved by unit bitmap_ba/ba_alloc_private_data); libc memcpy as modelled by CBMC"],
 "native": false
}
*/
#include "ba_env.h"

#define NBYTES_OF(bm) ((((bm)->real_end - (bm)->start) / 8) + 1)
#ifndef VERIF_NATIVE
/* the array is the start of an object that has a byte for bit index k */
#define HAS_BYTE_FOR(bm, k) (ARR(bm) != 0 && __CPROVER_POINTER_OFFSET(ARR(bm)) == 0 && \
			     ((k) >> 3) < __CPROVER_OBJECT_SIZE(ARR(bm)) && __CPROVER_w_ok(ARR(bm), ((k) >> 3) + 1))
#else
#define HAS_BYTE_FOR(bm, k) 1
#endif

void *verif_old_private;	/* ghost: bitmap->private on entry */

static errcode_t ba_alloc_private_data(ext2fs_generic_bitmap_64 bitmap)
	REQUIRES(bitmap->start <= bitmap->real_end && verif_k <= bitmap->real_end - bitmap->start)
	REQUIRES(verif_old_private == bitmap->private)
	ENSURES(RET == 0 || RET == EXT2_ET_NO_MEMORY)
	ENSURES(RET != 0 || FRESH(bitmap->private, sizeof(struct ext2fs_ba_private_struct)))
	ENSURES(RET != 0 || FRESH(ARR(bitmap), NBYTES_OF(bitmap)))
	ENSURES(RET != 0 || HAS_BYTE_FOR(bitmap, verif_k))
	ENSURES(RET == 0 || bitmap->private == verif_old_private)
	ASSIGNS(bitmap->private);

static errcode_t ba_new_bmap(ext2_filsys fs, ext2fs_generic_bitmap_64 bitmap)
	REQUIRES(bitmap->start <= bitmap->real_end && verif_k <= bitmap->real_end - bitmap->start)
	REQUIRES(verif_old_private == bitmap->private)
	ENSURES(RET == 0 || RET == EXT2_ET_NO_MEMORY)
	ENSURES(RET != 0 || (bitmap->private != 0 && HAS_BYTE_FOR(bitmap, verif_k) && BIT(ARR(bitmap), verif_k) == 0))
	ENSURES(RET == 0 || bitmap->private == verif_old_private)
	ASSIGNS(bitmap->private);

static void ba_clear_bmap(ext2fs_generic_bitmap_64 bitmap)
	REQUIRES(bitmap->start <= bitmap->real_end && verif_k <= bitmap->real_end - bitmap->start)
	ENSURES(BIT(ARR(bitmap), verif_k) == 0)
	ASSIGNS(__CPROVER_object_whole(ARR(bitmap)));

static errcode_t ba_copy_bmap(ext2fs_generic_bitmap_64 src, ext2fs_generic_bitmap_64 dest)
	REQUIRES(src->start <= src->real_end && verif_k <= src->real_end - src->start)
	REQUIRES(dest->start == src->start && dest->end == src->end && dest->real_end == src->real_end)
	REQUIRES(verif_old_bit == BIT(ARR(src), verif_k))
	REQUIRES(verif_old_private == dest->private)
	ENSURES(RET == 0 || RET == EXT2_ET_NO_MEMORY)
	ENSURES(RET != 0 || (dest->private != 0 && HAS_BYTE_FOR(dest, verif_k) && !__CPROVER_same_object(ARR(dest), ARR(src))))
	ENSURES(RET != 0 || BIT(ARR(dest), verif_k) == verif_old_bit)
	ENSURES(BIT(ARR(src), verif_k) == verif_old_bit)
	ENSURES(RET == 0 || dest->private == verif_old_private)
	ASSIGNS(dest->private);

/* a bitmap header with the geometry from IN and no private data yet (state before new_bmap / copy_bmap) */
static struct ext2fs_struct_generic_bitmap_64 NEWBM;
static void build_header(struct ext2fs_struct_generic_bitmap_64 *bm)
{
	memset(bm, 0, sizeof(*bm));
	bm->magic = EXT2_ET_MAGIC_GENERIC_BITMAP64;
	bm->start = IN.start;
	bm->end = IN.end;
	bm->real_end = IN.real_end;
	bm->private = 0;
	bm->bitmap_ops = &ext2fs_blkmap64_bitarray;
}
static void load_geometry(void)
{
	LOAD_IN();
	ASSUME(IN.start <= IN.end && IN.end <= IN.real_end);
	ASSUME(IN.real_end - IN.start < BA_MAX_BITS);
	verif_k = IN.k;
	ASSUME(verif_k <= IN.real_end - IN.start);
}
#define GEOMETRY_KEPT(bm) ((bm).start == IN.start && (bm).end == IN.end && (bm).real_end == IN.real_end)

void h_ba_alloc(void)
{
	load_geometry();
	build_header(&NEWBM);
	verif_old_private = 0;
	errcode_t r = ba_alloc_private_data(&NEWBM);
	CHECK(r == 0 || r == EXT2_ET_NO_MEMORY, "alloc: returns 0 or EXT2_ET_NO_MEMORY");
	if (r == 0) {
		CHECK(NEWBM.private != 0 && HAS_BYTE_FOR(&NEWBM, verif_k), "alloc: the array has a byte for every position of [start, real_end]");
		REACH("ok");
	} else {
		CHECK(NEWBM.private == 0, "alloc: on failure no private data is attached");
		REACH("nomem");
	}
	CHECK(GEOMETRY_KEPT(NEWBM), "alloc: geometry unchanged");
	REACH("end");
}

void h_ba_new(void)
{
	load_geometry();
	build_header(&NEWBM);
	verif_old_private = 0;
	errcode_t r = ba_new_bmap(0, &NEWBM);
	CHECK(r == 0 || r == EXT2_ET_NO_MEMORY, "new: returns 0 or EXT2_ET_NO_MEMORY");
	if (r == 0) {
		CHECK(NEWBM.private != 0 && HAS_BYTE_FOR(&NEWBM, verif_k), "new: the array has a byte for every position of [start, real_end]");
		CHECK(BIT(ARR(&NEWBM), verif_k) == 0, "new: the new bitmap is the empty set");
		REACH("ok");
	} else {
		CHECK(NEWBM.private == 0, "new: on failure no private data is attached");
		REACH("nomem");
	}
	CHECK(GEOMETRY_KEPT(NEWBM), "new: geometry unchanged");
	REACH("end");
}

void h_ba_clear(void)
{
	build_bitmap();
	ba_clear_bmap(&BM);
	CHECK(BIT(BP.bitarray, verif_k) == 0, "clear: afterwards the set is empty");
	CHECK(GEOMETRY_KEPT(BM), "clear: geometry unchanged");
	REACH("end");
}

void h_ba_copy(void)
{
	build_bitmap();
	build_header(&NEWBM);
	verif_old_private = 0;
	errcode_t r = ba_copy_bmap(&BM, &NEWBM);
	CHECK(r == 0 || r == EXT2_ET_NO_MEMORY, "copy: returns 0 or EXT2_ET_NO_MEMORY");
	if (r == 0) {
		CHECK(NEWBM.private != 0 && HAS_BYTE_FOR(&NEWBM, verif_k), "copy: the copy's array has a byte for every position");
		CHECK(ARR(&NEWBM) != BP.bitarray, "copy: the copy has its own array");
		CHECK(BIT(ARR(&NEWBM), verif_k) == verif_old_bit, "copy: same membership at every position");
		REACH("ok");
	} else {
		CHECK(NEWBM.private == 0, "copy: on failure no private data is attached");
		REACH("nomem");
	}
	CHECK(BIT(BP.bitarray, verif_k) == verif_old_bit, "copy: source unchanged");
	CHECK(GEOMETRY_KEPT(BM) && GEOMETRY_KEPT(NEWBM), "copy: geometry unchanged");
	REACH("end");
}
