/*
 * shared by the bitmap_ba units: builds one well-formed bit-array bitmap from IN.
 * Same layout as ../bitmap/ba_common.h, but the allocation is EXACT: the bit array occupies the last
 * NBYTES bytes of a malloc(NBYTES + misalign) object, so a read or write one byte past the size the backend
 * allocates (((real_end - start) / 8) + 1 bytes) is an out-of-bounds access for the verifier, at every one of
 * the 8 byte-misalignments of the array start.
 */
#include "verif.h"

#ifndef BA_MAX_BITS
#define BA_MAX_BITS (1ULL << 20)	/* object-size cap for the bit array (stated in the unit's assumes) */
#endif

struct in_ba {
	unsigned long long start, end, real_end;	/* bitmap geometry */
	unsigned long long arg, arg2;			/* operation arguments */
	unsigned int num;
	unsigned long long k;				/* ghost bit index, relative to start */
	unsigned char misalign;				/* 0..7: offset of the bit array inside its allocation */
	unsigned char fill[8];				/* concrete witness bytes around the ghost bit (native replay) */
	unsigned char choice[4];			/* results of stubbed callees (allocation failure ...) */
};
struct in_ba IN;
#include "verif_in.h"

unsigned long long verif_k;
int verif_old_bit;

#include "lib/ext2fs/blkmap64_ba.c"

#define BIT(arr, k) ((((const unsigned char *)(arr))[(k) >> 3] >> ((k) & 7)) & 1)
#define ARR(bm) (((ext2fs_ba_private)(bm)->private)->bitarray)
#define IN_RANGE(k, lo, hi_excl) ((k) >= (lo) && (k) < (hi_excl))

static struct ext2fs_struct_generic_bitmap_64 BM;
static struct ext2fs_ba_private_struct BP;
static unsigned long long NBYTES;

/* an array of n bytes at byte-misalignment IN.misalign, exactly n bytes long */
static char *alloc_array(unsigned long long n)
{
	char *raw = malloc(n + IN.misalign);
	ASSUME(raw != 0);
#ifdef VERIF_NATIVE
	/* content: the witness bytes repeated (the verifier leaves the array unconstrained) */
	for (unsigned long long j = 0; j < n + IN.misalign; j++)
		raw[j] = IN.fill[j & 7];
#endif
	return raw + IN.misalign;
}

/* well_formed(bitmap): start <= end <= real_end, private data of the size the backend allocates */
static void build_bitmap(void)
{
	LOAD_IN();
	ASSUME(IN.start <= IN.end && IN.end <= IN.real_end);
	ASSUME(IN.real_end - IN.start < BA_MAX_BITS);
	ASSUME(IN.misalign < 8);
	NBYTES = ((IN.real_end - IN.start) / 8) + 1;
	BP.bitarray = alloc_array(NBYTES);
	memset(&BM, 0, sizeof(BM));
	BM.magic = EXT2_ET_MAGIC_GENERIC_BITMAP64;
	BM.start = IN.start;
	BM.end = IN.end;
	BM.real_end = IN.real_end;
	BM.private = &BP;
	BM.bitmap_ops = &ext2fs_blkmap64_bitarray;
#ifndef BA_ENV_OWN_GHOST	/* units whose ghost bit may lie outside the array (resize) set verif_k themselves */
	verif_k = IN.k;
	ASSUME(verif_k <= IN.real_end - IN.start);
	verif_old_bit = BIT(BP.bitarray, verif_k);
#endif
}
