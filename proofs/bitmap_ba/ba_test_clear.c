/*
 * C16 — bit-array backend: ba_test_clear_bmap_extent (lib/ext2fs/blkmap64_ba.c), "are all positions of
 * [start, start+len) non-members?" — the byte/bit edge arithmetic (partial first byte, partial last byte, whole
 * bytes in between handed to ext2fs_mem_is_zero).
 *
 * Set view: position p is a member iff bit (p - bitmap->start) of the bit array is 1.
 * Contract (from the property text: "range test ... as a set would"):
 *   returns 1 or 0, writes nothing (but the witness ghost);
 *   returns 1  =>  no position of [start, start+len) is a member          [stated for the ghost position verif_k]
 *   returns 0  =>  some position of [start, start+len) is a member        [existential: a witness is exhibited.
 *                  It lies in the byte of the first position, in the byte of the last position, or in the byte
 *                  whose object offset the contract of ext2fs_mem_is_zero publishes in the ghost verif_g4; the
 *                  postcondition says that one of these three bytes holds a member inside the range]
 * ext2fs_mem_is_zero is REPLACED by its contract (specs/c16_ba_mem_is_zero.h, enforced on the real function by
 * unit bitmap_ba/mem_is_zero); its precondition "mem[0..len) readable" becomes an obligation here, so the byte
 * range handed over is proved to lie inside the array (the array is allocated with exactly the backend's size).
 * The two mask loops run at most 7 times (bits of one byte): unwound to 8 with unwinding assertions (U/k).
 * Precondition from the call sites (gen_bitmap64.c ext2fs_test_block_bitmap_range2 / ext2fs_test_inode_bitmap_range2
 * reject block < start, block > end, block+num-1 > end): bitmap->start <= start, start+len-1 <= bitmap->end
 * (<= real_end), no wrap-around; len == 0 is allowed as well (answer 1).
 */
/* VERIF-UNIT
{
 "name": "ba_test_clear_bmap_extent",
 "props": ["C16"],
 "level": "U/k",
 "tier": "quick",
 "harness": "h_ba_test_clear",
 "enforce": ["ba_test_clear_bmap_extent"],
 "replace": ["ext2fs_mem_is_zero"],
 "unwind": 9,
 "unwind_reason": "the two mask-building loops iterate once per bit of a partial byte, at most 7 times (mark_count <= 8 - start_bit <= 7, len_bit <= 7); checked by unwinding assertions",
 "sources": ["lib/ext2fs/bitops.c"],
 "defines": ["BA_MAX_BITS=4096"],
 "backend": "cadical",
 "functions": ["lib/ext2fs/blkmap64_ba.c:ba_test_clear_bmap_extent"],
 "assumes": ["bit array capped at 4096 bits (object-size cap; the function has no loop that depends on the size); geometry, contents, range and the 8 byte-misalignments otherwise symbolic",
             "precondition bitmap->start <= start, start+len-1 <= bitmap->real_end without wrap-around (range check of the callers in gen_bitmap64.c)",
             "ext2fs_mem_is_zero replaced by its contract (proved by unit bitmap_ba/mem_is_zero)"],
 "native": false
}
*/
#include "verif.h"
unsigned long long verif_g3;	/* ghost: object offset of the byte holding the ghost bit verif_k */
unsigned long long verif_g4;	/* ghost: object offset of the witness published by the contract of ext2fs_mem_is_zero */
#include "c16_ba_mem_is_zero.h"
#include "ba_env.h"

/* mask of the bits j of byte b whose position 8*b+j lies in [lo, hi) (bit indices relative to the array start) */
#define MB(b, j, lo, hi) ((8 * (b) + (j) >= (lo) && 8 * (b) + (j) < (hi)) ? (1u << (j)) : 0u)
#define RANGE_MASK(b, lo, hi) (MB(b, 0, lo, hi) | MB(b, 1, lo, hi) | MB(b, 2, lo, hi) | MB(b, 3, lo, hi) | \
			       MB(b, 4, lo, hi) | MB(b, 5, lo, hi) | MB(b, 6, lo, hi) | MB(b, 7, lo, hi))
/* some position of [lo, hi) that lies in byte b of the array is a member */
#define MEMBER_IN_BYTE(arr, b, lo, hi) ((((const unsigned char *)(arr))[b] & RANGE_MASK(b, lo, hi)) != 0)
#define REL(bm, p) ((p) - (bm)->start)
#define NBYTES_OF(bm) ((((bm)->real_end - (bm)->start) / 8) + 1)
#define W_BYTE(bm) ((unsigned long long)C16_IDX(verif_g4, ARR(bm)))	/* array index of the published witness byte */
#define WITNESS(bm, S, L) \
	(MEMBER_IN_BYTE(ARR(bm), REL(bm, S) >> 3, REL(bm, S), REL(bm, S) + (L)) || \
	 MEMBER_IN_BYTE(ARR(bm), (REL(bm, S) + (L) - 1) >> 3, REL(bm, S), REL(bm, S) + (L)) || \
	 (W_BYTE(bm) < NBYTES_OF(bm) && MEMBER_IN_BYTE(ARR(bm), W_BYTE(bm), REL(bm, S), REL(bm, S) + (L))))

static int ba_test_clear_bmap_extent(ext2fs_generic_bitmap_64 bitmap, __u64 start, unsigned int len)
	REQUIRES(bitmap->start <= start && start <= bitmap->real_end)
	REQUIRES(len == 0 || (start + len - 1 >= start && start + len - 1 <= bitmap->real_end))
	REQUIRES(verif_g3 == C16_OFF(ARR(bitmap)) + (verif_k >> 3))
	ENSURES(RET == 0 || RET == 1)
	ENSURES(RET == 0 || !IN_RANGE(verif_k, REL(bitmap, start), REL(bitmap, start) + len) || BIT(ARR(bitmap), verif_k) == 0)
	ENSURES(RET == 1 || (len > 0 && WITNESS(bitmap, start, len)))
	ENSURES(BIT(ARR(bitmap), verif_k) == verif_old_bit)
	ASSIGNS(verif_g4);

void h_ba_test_clear(void)
{
	build_bitmap();
	/* IN.arg = start, IN.num = len */
	ASSUME(IN.start <= IN.arg && IN.arg <= IN.real_end);
	ASSUME(IN.num == 0 || (IN.arg + IN.num - 1 >= IN.arg && IN.arg + IN.num - 1 <= IN.real_end));
	unsigned long long s0 = IN.arg - IN.start;
	verif_g3 = C16_OFF(BP.bitarray) + (verif_k >> 3);
	verif_g4 = 0;
	int r = ba_test_clear_bmap_extent(&BM, IN.arg, IN.num);
	CHECK(r == 0 || r == 1, "test_clear: returns 0 or 1");
	if (r) {
		CHECK(!(verif_k >= s0 && verif_k < s0 + IN.num) || BIT(BP.bitarray, verif_k) == 0,
		      "test_clear: answer 1 only if no position of the range is a member");
		REACH("clear");
	} else {
		CHECK(IN.num > 0 && WITNESS(&BM, IN.arg, IN.num), "test_clear: answer 0 only if a member exists in the range (witness)");
		REACH("notclear");
	}
	CHECK(BIT(BP.bitarray, verif_k) == verif_old_bit, "test_clear: bitmap unchanged");
	CHECK(BM.start == IN.start && BM.end == IN.end && BM.real_end == IN.real_end, "test_clear: geometry unchanged");
	REACH("end");
}
