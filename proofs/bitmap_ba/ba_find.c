/*
 * C16 — bit-array backend: ba_find_first_zero / ba_find_first_set (lib/ext2fs/blkmap64_ba.c).
 *
 * Both functions carry in-place loop contracts on all five loops (bit prefix, byte loop up to 8-byte pointer
 * alignment, 64-bit word loop, byte loop, bit tail); see the VERIF_LOOP hooks in blkmap64_ba.c
 * (hooks-pending/ba.diff).  The invariants are scalar only: the functions never write the bit array, so the ghost
 * bit keeps its entry value verif_old_bit (tied to the array by the precondition below) and "every position in
 * [start, cursor) has the skipped value" is stated as  verif_k in [s0, cursor) => verif_old_bit == V.
 * Besides the loop contracts the hooks contain, per function,
 *   - two VERIF_CUT (assert, then assume, the window/ghost summary after the word phase and after the byte
 *     phase): the re-association (bitpos + 64 d) + (count - 64 d) == bitpos + count is then proved once instead
 *     of inside every later obligation;
 *   - five VERIF_ANCHOR (assert pos == <its invariant value>, then re-assign exactly that value): a no-op that
 *     makes the points-to set of a cursor havocked by a loop contract {bit array} again; without it every *pos
 *     is a case split over all objects of the program (3.0M clauses instead of 0.28M).
 * Both are checked obligations, not assumptions.  Back end cadical (minisat needs > 250 s on the same formula).
 *
 * Set view: position p (start <= p <= real_end) is a member iff bit (p - start) of the bit array is 1.
 * Contract (from the property text: "answers find-first-zero / find-first-set as a set would"):
 *   returns 0      -> *out is in [start,end], is a non-member (resp. member), and every position in
 *                     [start,*out) is a member (resp. non-member)           [stated for the ghost position verif_k]
 *                     i.e. *out is the LEAST non-member (resp. member) of [start,end]
 *   returns ENOENT -> every position in [start,end] is a member (resp. non-member)      [ghost position verif_k]
 *   no other return value; hence "ENOENT iff none" (return 0 exhibits a witness inside the range)
 *   nothing but *out is written (frame) and the ghost bit keeps its value.
 * EINVAL for bad ranges is NOT produced at this level: the backend function has no range check; the callers
 * ext2fs_find_first_{zero,set}_generic_bmap (gen_bitmap64.c) reject cstart < bmap->start, cend > bmap->end,
 * start > end with EINVAL before dispatching (that is the bitmap_gen units' obligation), so here
 * bitmap->start <= start <= end <= bitmap->end (<= real_end) is a PRECONDITION.  The contract is stated for the
 * weaker end <= bitmap->real_end (the whole allocated array).
 *
 * Size cap: the array has at most BA_MAX_BITS = 512 bits (64 bytes + 1): every loop is closed by its contract, so
 * no obligation depends on the number of iterations and the cap only bounds the size of the heap object and the
 * width of the arithmetic the SAT solver sees (2^20 bits: same result, ~100 s).  The ghost verif_g7 = 2^n - 1
 * (any n with 2^n - 1 > real_end - start) lets the invariant say "bitpos and count have no bits above the array
 * size", which turns the 64-bit cursor arithmetic into n-bit arithmetic for the solver; it is a precondition on a
 * ghost, not on the bitmap.
 *
 * Pointer alignment: the array is placed at raw+misalign for all misalign in 0..7 (ba_env.h; the allocation ends
 * exactly at the last byte the backend allocates, so a word read past the end is an out-of-bounds access).  CBMC's
 * pointer-to-integer cast yields object-base|offset with malloc bases 8-aligned (checked separately), so the
 * (uintptr_t)pos & 7 loop sees all eight alignments.
 */
/* VERIF-UNIT
{
 "name": "ba_find_first_zero",
 "props": ["C16"],
 "level": "U",
 "tier": "quick",
 "harness": "h_ba_ffz",
 "enforce": ["ba_find_first_zero"],
 "loop_contracts": true,
 "sources": ["lib/ext2fs/bitops.c"],
 "functions": ["lib/ext2fs/blkmap64_ba.c:ba_find_first_zero"],
 "assumes": ["bit array capped at 512 bits (object-size / arithmetic-width cap; all five loops are closed by loop contracts, no obligation depends on the cap); geometry (start, end, real_end), contents, search range and the 8 byte-misalignments of the array otherwise symbolic",
             "precondition bitmap->start <= start <= end <= bitmap->real_end, guaranteed by the range check (EINVAL) in ext2fs_find_first_{zero,set}_generic_bmap",
             "out does not point into the bit array (it is the caller's variable)",
             "pointer-to-integer cast as modelled by CBMC (object base 8-aligned, low bits = offset)",
             "needs the in-place loop contracts of hooks-pending/ba.diff (VERIF_REPO=/tmp/wt_ba until merged)"],
 "defines": ["BA_MAX_BITS=512"],
 "backend": "cadical",
 "timeout": 300,
 "native": true
}
*/
/* VERIF-UNIT
{
 "name": "ba_find_first_set",
 "props": ["C16"],
 "level": "U",
 "tier": "quick",
 "harness": "h_ba_ffs",
 "enforce": ["ba_find_first_set"],
 "loop_contracts": true,
 "sources": ["lib/ext2fs/bitops.c"],
 "functions": ["lib/ext2fs/blkmap64_ba.c:ba_find_first_set"],
 "assumes": ["bit array capped at 512 bits (object-size / arithmetic-width cap; all five loops are closed by loop contracts, no obligation depends on the cap); geometry (start, end, real_end), contents, search range and the 8 byte-misalignments of the array otherwise symbolic",
             "precondition bitmap->start <= start <= end <= bitmap->real_end, guaranteed by the range check (EINVAL) in ext2fs_find_first_{zero,set}_generic_bmap",
             "out does not point into the bit array (it is the caller's variable)",
             "pointer-to-integer cast as modelled by CBMC (object base 8-aligned, low bits = offset)",
             "needs the in-place loop contracts of hooks-pending/ba.diff (VERIF_REPO=/tmp/wt_ba until merged)"],
 "defines": ["BA_MAX_BITS=512"],
 "backend": "cadical",
 "timeout": 300,
 "native": true
}
*/
#include "ba_env.h"

unsigned long long verif_g7;	/* ghost: 2^n - 1 >= number of bits of the array (scan quantities have no higher bits) */

static errcode_t ba_find_first_zero(ext2fs_generic_bitmap_64 bitmap, __u64 start, __u64 end, __u64 *out)
	REQUIRES(bitmap->start <= start && start <= end && end <= bitmap->real_end)
	REQUIRES(verif_old_bit == BIT(ARR(bitmap), verif_k))
	REQUIRES((verif_g7 & (verif_g7 + 1)) == 0 && bitmap->real_end - bitmap->start < verif_g7)
	ENSURES(RET == 0 || RET == ENOENT)
	ENSURES(RET != 0 || *out >= start)
	ENSURES(RET != 0 || *out <= end)
	ENSURES(RET != 0 || *out < start || *out > end || BIT(ARR(bitmap), *out - bitmap->start) == 0)
	ENSURES(RET != 0 || !IN_RANGE(verif_k, start - bitmap->start, *out - bitmap->start) || BIT(ARR(bitmap), verif_k) == 1)
	ENSURES(RET != ENOENT || !IN_RANGE(verif_k, start - bitmap->start, end - bitmap->start + 1) || BIT(ARR(bitmap), verif_k) == 1)
	ENSURES(BIT(ARR(bitmap), verif_k) == verif_old_bit)
	ASSIGNS(*out);

static errcode_t ba_find_first_set(ext2fs_generic_bitmap_64 bitmap, __u64 start, __u64 end, __u64 *out)
	REQUIRES(bitmap->start <= start && start <= end && end <= bitmap->real_end)
	REQUIRES(verif_old_bit == BIT(ARR(bitmap), verif_k))
	REQUIRES((verif_g7 & (verif_g7 + 1)) == 0 && bitmap->real_end - bitmap->start < verif_g7)
	ENSURES(RET == 0 || RET == ENOENT)
	ENSURES(RET != 0 || *out >= start)
	ENSURES(RET != 0 || *out <= end)
	ENSURES(RET != 0 || *out < start || *out > end || BIT(ARR(bitmap), *out - bitmap->start) == 1)
	ENSURES(RET != 0 || !IN_RANGE(verif_k, start - bitmap->start, *out - bitmap->start) || BIT(ARR(bitmap), verif_k) == 0)
	ENSURES(RET != ENOENT || !IN_RANGE(verif_k, start - bitmap->start, end - bitmap->start + 1) || BIT(ARR(bitmap), verif_k) == 0)
	ENSURES(BIT(ARR(bitmap), verif_k) == verif_old_bit)
	ASSIGNS(*out);

/* one harness body, instantiated for the two functions; SKIPPED = value of the positions the search may step over */
#define FIND_HARNESS(NAME, FUNC, SKIPPED) \
void NAME(void) \
{ \
	build_bitmap(); \
	verif_g7 = 2 * BA_MAX_BITS - 1; \
	/* IN.arg = start, IN.arg2 = end of the search range */ \
	ASSUME(IN.start <= IN.arg && IN.arg <= IN.arg2 && IN.arg2 <= IN.real_end); \
	unsigned long long s0 = IN.arg - IN.start, e0 = IN.arg2 - IN.start; \
	__u64 out = 0; \
	errcode_t r = FUNC(&BM, IN.arg, IN.arg2, &out); \
	CHECK(r == 0 || r == ENOENT, "find_first: returns 0 or ENOENT"); \
	if (r == 0) { \
		CHECK(out >= IN.arg && out <= IN.arg2, "find_first: result inside [start,end]"); \
		CHECK(BIT(BP.bitarray, out - IN.start) == !(SKIPPED), "find_first: result has the searched membership"); \
		CHECK(!(verif_k >= s0 && verif_k < out - IN.start) || BIT(BP.bitarray, verif_k) == (SKIPPED), \
		      "find_first: result is the least such position"); \
		REACH("found"); \
	} else { \
		CHECK(!(verif_k >= s0 && verif_k <= e0) || BIT(BP.bitarray, verif_k) == (SKIPPED), \
		      "find_first: ENOENT only if no position in [start,end] qualifies"); \
		REACH("enoent"); \
	} \
	CHECK(BIT(BP.bitarray, verif_k) == verif_old_bit, "find_first: bitmap unchanged"); \
	CHECK(BM.start == IN.start && BM.end == IN.end && BM.real_end == IN.real_end, "find_first: geometry unchanged"); \
	REACH("end"); \
}

FIND_HARNESS(h_ba_ffz, ba_find_first_zero, 1)
FIND_HARNESS(h_ba_ffs, ba_find_first_set, 0)
