/*
 * C16 — bit-array backend: ba_find_first_zero / ba_find_first_set (lib/ext2fs/blkmap64_ba.c).
 *
 * Both functions carry in-place loop contracts on all five loops (bit prefix, byte loop up to 8-byte pointer
 * alignment, 64-bit word loop, byte loop, bit tail); see the VERIF_LOOP hooks in blkmap64_ba.c.  Besides the loop
 * contracts the hooks contain, per function, two VERIF_CUT (assert-then-assume of the summary "bitpos/count
 * window + ghost bit" after the word phase and after the byte phase: without the cut the base case of the last
 * loop has to be proved over the product of the paths through the four earlier loops, > 500 s) and three
 * VERIF_ANCHOR (assert pos == <invariant value>, then re-assign it: a pointer havocked by a loop contract
 * otherwise dereferences to every object of the program, 2.4M clauses instead of 0.4M).  Both are checked
 * obligations, not assumptions.  The all-properties query needs cadical (minisat > 500 s, cadical ~120 s).
 *
 * Set view: position p (start <= p <= real_end) is a member iff bit (p - start) of the bit array is 1.
 * Contract (from the property text: "answers find-first-zero / find-first-set as a set would"):
 *   returns 0      -> *out is in [start,end], is a non-member (resp. member), and every position in
 *                     [start,*out) is a member (resp. non-member)           [stated for the ghost position verif_k]
 *   returns ENOENT -> every position in [start,end] is a member (resp. non-member)      [ghost position verif_k]
 *   no other return value; hence "ENOENT iff none" (return 0 exhibits a witness inside the range)
 *   nothing but *out is written (frame) and the ghost bit keeps its value.
 * Precondition from the call sites ext2fs_find_first_{zero,set}_generic_bmap (gen_bitmap64.c): they reject
 * cstart < bmap->start, cend > bmap->end, start > end, so bitmap->start <= start <= end <= bitmap->end
 * (<= real_end).  The contract is stated for the weaker end <= bitmap->real_end (the whole allocated array).
 *
 * Pointer alignment: the array is placed at raw+misalign for all misalign in 0..7 (ba_env.h; the allocation ends exactly at the last byte the backend allocates); CBMC's
 * pointer-to-integer cast yields object-base|offset, malloc bases are 8-aligned in that encoding, so the
 * (uintptr_t)pos & 7 loop sees all eight alignments.
 */
/* VERIF-UNIT
{
 "name": "ba_find_first_zero",
 "props": ["C16"],
 "level": "U",
 "tier": "wip",
 "harness": "h_ba_ffz",
 "enforce": ["ba_find_first_zero"],
 "loop_contracts": true,
 "sources": ["lib/ext2fs/bitops.c"],
 "functions": ["lib/ext2fs/blkmap64_ba.c:ba_find_first_zero"],
 "assumes": ["bit array capped at 2^20 bits (object-size cap); geometry, contents, search range and the 8 byte-misalignments of the array otherwise symbolic",
             "pointer-to-integer cast as modelled by CBMC (object base 8-aligned, low bits = offset)"],
 "backend": "cadical",
 "defines": ["BA_MAX_BITS=512"],
 "timeout": 600,
 "native": true
}
*/
/* VERIF-UNIT
{
 "name": "ba_find_first_set",
 "props": ["C16"],
 "level": "U",
 "tier": "wip",
 "harness": "h_ba_ffs",
 "enforce": ["ba_find_first_set"],
 "loop_contracts": true,
 "sources": ["lib/ext2fs/bitops.c"],
 "functions": ["lib/ext2fs/blkmap64_ba.c:ba_find_first_set"],
 "assumes": ["bit array capped at 2^20 bits (object-size cap); geometry, contents, search range and the 8 byte-misalignments of the array otherwise symbolic",
             "pointer-to-integer cast as modelled by CBMC (object base 8-aligned, low bits = offset)"],
 "backend": "cadical",
 "defines": ["BA_MAX_BITS=512"],
 "timeout": 600,
 "native": true
}
*/
/* VERIF-UNIT
{
 "name": "x_probe_ffz",
 "props": ["C16"],
 "level": "U",
 "tier": "wip",
 "harness": "h_ba_ffz",
 "enforce": ["ba_find_first_zero"],
 "loop_contracts": true,
 "sources": ["lib/ext2fs/bitops.c"],
 "defines": ["BA_PROBE_START01=1", "BA_MAX_BITS=128"],
 "backend": "cadical",
 "timeout": 600,
 "native": false
}
*/
#include "ba_env.h"

static errcode_t ba_find_first_zero(ext2fs_generic_bitmap_64 bitmap, __u64 start, __u64 end, __u64 *out)
	REQUIRES(bitmap->start <= start && start <= end && end <= bitmap->real_end)
	REQUIRES(verif_old_bit == BIT(ARR(bitmap), verif_k))
	ENSURES(RET == 0 || RET == ENOENT)
	ENSURES(RET != 0 || *out >= start)
	ENSURES(RET != 0 || *out <= end)
	ENSURES(RET != 0 || *out < start || *out > end || BIT(ARR(bitmap), *out - bitmap->start) == 0)
	ENSURES(RET != 0 || !IN_RANGE(verif_k, start - bitmap->start, *out - bitmap->start) || BIT(ARR(bitmap), verif_k) == 1)
	ENSURES(RET != ENOENT || !IN_RANGE(verif_k, start - bitmap->start, end - bitmap->start + 1) || BIT(ARR(bitmap), verif_k) == 1)
	ENSURES(BIT(ARR(bitmap), verif_k) == verif_old_bit)
	ASSIGNS(*out);

static errcode_t ba_find_first_set(ext2fs_generic_bitmap_64 bitmap, __u64 start, __u64 end, __u64 *out)
	REQUIRES(bitmap->start <= start && start <= end && end <= bitmap->real_end)
	REQUIRES(verif_old_bit == BIT(ARR(bitmap), verif_k))
	ENSURES(RET == 0 || RET == ENOENT)
	ENSURES(RET != 0 || *out >= start)
	ENSURES(RET != 0 || *out <= end)
	ENSURES(RET != 0 || *out < start || *out > end || BIT(ARR(bitmap), *out - bitmap->start) == 1)
	ENSURES(RET != 0 || !IN_RANGE(verif_k, start - bitmap->start, *out - bitmap->start) || BIT(ARR(bitmap), verif_k) == 0)
	ENSURES(RET != ENOENT || !IN_RANGE(verif_k, start - bitmap->start, end - bitmap->start + 1) || BIT(ARR(bitmap), verif_k) == 0)
	ENSURES(BIT(ARR(bitmap), verif_k) == verif_old_bit)
	ASSIGNS(*out);

/* one harness body, instantiated for the two functions; SKIPPED = value of the positions the search may step over */
#define FIND_HARNESS(NAME, FUNC, SKIPPED) \
void NAME(void) \
{ \
	build_bitmap(); \
	/* IN.arg = start, IN.arg2 = end of the search range */ \
	ASSUME(IN.start <= IN.arg && IN.arg <= IN.arg2 && IN.arg2 <= IN.real_end); \
	unsigned long long s0 = IN.arg - IN.start, e0 = IN.arg2 - IN.start; \
	__u64 out = 0; \
	errcode_t r = FUNC(&BM, IN.arg, IN.arg2, &out); \
	CHECK(r == 0 || r == ENOENT, "find_first: returns 0 or ENOENT"); \
	if (r == 0) { \
		CHECK(out >= IN.arg && out <= IN.arg2, "find_first: result inside [start,end]"); \
		CHECK(BIT(BP.bitarray, out - IN.start) == !(SKIPPED), "find_first: result has the searched membership"); \
		CHECK(!(verif_k >= s0 && verif_k < out - IN.start) || BIT(BP.bitarray, verif_k) == (SKIPPED), \
		      "find_first: result is the least such position"); \
		REACH("found"); \
	} else { \
		CHECK(!(verif_k >= s0 && verif_k <= e0) || BIT(BP.bitarray, verif_k) == (SKIPPED), \
		      "find_first: ENOENT only if no position in [start,end] qualifies"); \
		REACH("enoent"); \
	} \
	CHECK(BIT(BP.bitarray, verif_k) == verif_old_bit, "find_first: bitmap unchanged"); \
	CHECK(BM.start == IN.start && BM.end == IN.end && BM.real_end == IN.real_end, "find_first: geometry unchanged"); \
	REACH("end"); \
}

FIND_HARNESS(h_ba_ffz, ba_find_first_zero, 1)
FIND_HARNESS(h_ba_ffs, ba_find_first_set, 0)
