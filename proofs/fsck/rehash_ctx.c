/* VERIF-UNIT
{
 "name": "rehash_dir_cmp_ctx",
 "props": ["C05", "C01"],
 "level": "P",
 "tier": "quick",
 "harness": "h_rehash_ctx",
 "replace": ["duplicate_search_and_fix", "copy_dir_entries", "calculate_tree", "write_directory"],
 "includes": ["e2fsck", "lib/support"],
 "unwind": 3,
 "unwind_reason": "e2fsck_rehash_dir has two backward gotos: retry_nohash (taken at most once: it sets fd.compress, which disables it) and resort (taken only when duplicate_search_and_fix fixed something; its contract here returns 0); the sort runs on an empty entry array (the block iterator stub collects nothing); unwinding assertions on",
 "functions": ["e2fsck/rehash.c:e2fsck_rehash_dir"],
 "assumes": ["no frame enforcement (protocol unit on a 1100-line TU); e2fsck -n (E2F_OPT_NO) so that the function returns right after the duplicate search — the comparison context is built before and does not depend on the option",
	     "duplicate_search_and_fix (same file) is replaced by a contract that records the comparison context it is handed and fixes nothing; ext2fs_block_iterate3 collects no entries; the sort (qsort_r / sort_r on 0 elements) records the context it is handed; e2fsck_read_inode_full delivers an arbitrary i_flags / i_size <= 64 KiB",
	     "struct name_cmp_ctx is defined inside rehash.c: the contract reads it through a mirror struct whose layout the harness CHECKs"],
 "backend": "cadical",
 "native": false
}
*/
/*
 * e2fsck/rehash.c:e2fsck_rehash_dir — which notion of "same name" a directory is rebuilt with.
 *
 * Statement (C05): names are compared case-insensitively (through the filesystem's encoding table) ONLY in a directory
 * that carries EXT4_CASEFOLD_FL on a filesystem that has an encoding; in every other directory — in particular in a
 * directory without the flag on a filesystem WITH an encoding — the context handed to the sort comparator and to the
 * duplicate search has casefold == 0, for which same_name is byte equality (unit same_name_plain).  Otherwise "Foo" and
 * "foo" in an ordinary directory would be "duplicates" and one of them would be renamed.
 */
#include "verif.h"

struct in_rc {
	unsigned int i_flags, i_size;
	unsigned char has_encoding;
	unsigned int ino;
	unsigned int feature_compat, feature_incompat;
};
struct in_rc IN;
#include "verif_in.h"

#define _GNU_SOURCE 1
#include "config.h"
#include <string.h>
#include "e2fsck.h"

struct rc_ctx_view { int casefold; const struct ext2fs_nls_table *tbl; };	/* mirror of struct name_cmp_ctx */
unsigned int rc_ds_calls; int rc_ds_casefold; const struct ext2fs_nls_table *rc_ds_tbl;
struct fill_dir_struct;
struct name_cmp_ctx;

static int duplicate_search_and_fix(e2fsck_t ctx, ext2_filsys fs, ext2_ino_t ino, struct fill_dir_struct *fd,
				    const struct name_cmp_ctx *cmp_ctx)
	ASSIGNS(rc_ds_calls, rc_ds_casefold, rc_ds_tbl)
	ENSURES(rc_ds_calls == OLD(rc_ds_calls) + 1)
	ENSURES(rc_ds_casefold == ((const struct rc_ctx_view *) cmp_ctx)->casefold &&
		rc_ds_tbl == ((const struct rc_ctx_view *) cmp_ctx)->tbl)
	ENSURES(RET == 0);

/* the rebuilding steps behind the duplicate search are not part of this unit (and not reached under E2F_OPT_NO);
 * replaced by empty contracts so that their array-heavy code does not enter the formula */
struct out_dir;
static errcode_t copy_dir_entries(e2fsck_t ctx, struct fill_dir_struct *fd, struct out_dir *outdir)
	REQUIRES(1) ENSURES(1) ASSIGNS();
static errcode_t calculate_tree(ext2_filsys fs, struct out_dir *outdir, ext2_ino_t ino, ext2_ino_t parent,
				struct ext2_inode *inode)
	REQUIRES(1) ENSURES(1) ASSIGNS();
static errcode_t write_directory(e2fsck_t ctx, ext2_filsys fs, struct out_dir *outdir, ext2_ino_t ino,
				 struct ext2_inode *inode, int compress)
	REQUIRES(1) ENSURES(1) ASSIGNS();

#include "e2fsck/rehash.c"

unsigned int rc_sort_calls; int rc_sort_casefold;
static char rc_enc_tag;

void e2fsck_read_inode_full(e2fsck_t ctx, unsigned long ino, struct ext2_inode *inode, int bufsize, const char *proc)
{
	(void) ctx; (void) ino; (void) proc;
	memset(inode, 0, bufsize);
	inode->i_flags = IN.i_flags;
	inode->i_size = IN.i_size;
}
errcode_t ext2fs_block_iterate3(ext2_filsys fs, ext2_ino_t ino, int flags, char *block_buf,
				int (*func)(ext2_filsys fs, blk64_t *blocknr, e2_blkcnt_t blockcnt, blk64_t ref_blk,
					    int ref_offset, void *priv_data),
				void *priv_data)
{
	(void) fs; (void) ino; (void) flags; (void) block_buf; (void) func; (void) priv_data;
	return 0;		/* an empty directory: nothing collected */
}
void qsort_r(void *base, size_t nmemb, size_t size, int (*compar)(const void *, const void *, void *), void *arg)
{
	(void) base; (void) nmemb; (void) size; (void) compar;
	rc_sort_calls++;
	rc_sort_casefold = ((struct name_cmp_ctx *) arg)->casefold;
}

void h_rehash_ctx(void)
{
	e2fsck_t ctx = malloc(sizeof(*ctx));
	ext2_filsys fs = malloc(sizeof(*fs));
	struct ext2_super_block *sb = malloc(sizeof(*sb));
	struct problem_context pctx;
	errcode_t r;
	int want;

	LOAD_IN();
	ASSUME(ctx && fs && sb);
	CHECK(sizeof(struct rc_ctx_view) == sizeof(struct name_cmp_ctx) &&
	      offsetof(struct rc_ctx_view, casefold) == offsetof(struct name_cmp_ctx, casefold) &&
	      offsetof(struct rc_ctx_view, tbl) == offsetof(struct name_cmp_ctx, tbl), "mirror: struct name_cmp_ctx");
	memset(sb, 0, sizeof(*sb));
	memset(&pctx, 0, sizeof(pctx));
	ctx->fs = fs;
	ctx->options = E2F_OPT_NO;
	fs->super = sb;
	fs->blocksize = 1024;
	fs->encoding = IN.has_encoding ? (const struct ext2fs_nls_table *) &rc_enc_tag : 0;
	sb->s_feature_compat = IN.feature_compat;
	sb->s_feature_incompat = IN.feature_incompat;
	ASSUME(IN.i_size <= 65536);
	/* inline-data directories are not rebuilt at all */
	ASSUME(!((IN.feature_incompat & EXT4_FEATURE_INCOMPAT_INLINE_DATA) && (IN.i_flags & EXT4_INLINE_DATA_FL)));
	rc_ds_calls = rc_sort_calls = 0;

	r = e2fsck_rehash_dir(ctx, IN.ino, &pctx);

	want = IN.has_encoding && (IN.i_flags & EXT4_CASEFOLD_FL);
	if (r != 0) {
		REACH("end (out of memory)");
		CHECK(r == EXT2_ET_NO_MEMORY && rc_ds_calls == 0, "the only failure in this world: an allocation failed, nothing was compared");
		return;
	}
	CHECK(rc_ds_calls == 1, "the duplicate search runs once");
	CHECK((rc_ds_casefold != 0) == (want != 0),
	      "names are compared through the encoding table iff the filesystem has one AND the directory carries EXT4_CASEFOLD_FL");
	CHECK(!want || rc_ds_tbl == fs->encoding, "... and then with the filesystem's table");
	if (IN.has_encoding && !(IN.i_flags & EXT4_CASEFOLD_FL)) {
		REACH("plain directory on a filesystem with an encoding");
		CHECK(rc_ds_casefold == 0, "a directory without the casefold flag is compared byte-wise even if the filesystem has an encoding");
	}
	if (want) REACH("casefolded directory");
	CHECK(rc_sort_calls == 0 || (rc_sort_casefold != 0) == (want != 0), "the sort gets the same context");
	REACH("end");
}
