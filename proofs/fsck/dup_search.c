/* VERIF-UNIT
{
 "name": "duplicate_search_uses_same_name_B3",
 "props": ["C05", "C01"],
 "level": "B(3)",
 "tier": "thorough",
 "harness": "h_dup_search",
 "replace": ["same_name", "mutate_name"],
 "includes": ["e2fsck", "lib/support"],
 "unwind": 8,
 "unwind_reason": "BOUNDED stand-in: 3 collected entries (outer loop 2 iterations); the rename search restarts after every collision of the mutated name, the same_name oracle reports at most DS_YES_MAX = 1 collision per run, so the inner loop runs at most 2 * 3 + 1 times; memcpy of a name is replaced by the ghost-byte contract below; unwinding assertions on",
 "functions": ["e2fsck/rehash.c:duplicate_search_and_fix"],
 "assumes": ["bounded: a directory of exactly 3 collected entries with arbitrary names (1..255 bytes), inode numbers and hashes",
	     "same_name (proved by fsck/same_name_plain, same_name_casefold) is replaced by an ORACLE contract: any answer, recorded for the query (entry k, entry k-1); at most 1 collision of a mutated name",
	     "mutate_name (same file) is replaced by a contract: rewrites the buffer arbitrarily, new length in old..255, at least 1",
	     "fix_problem answers arbitrarily and logs the codes; e2fsck_adjust_inode_count, ext2fs_dirhash2 are stubs; the directory is not encrypted or is (arbitrary i_flags)",
	     "no frame enforcement; entry contents are compared at a ghost byte index"],
 "cbmc_flags": ["--object-bits", "11"],
 "backend": "cadical",
 "native": false
}
*/
/*
 * e2fsck/rehash.c:duplicate_search_and_fix — the only place where e2fsck -D / pass 3A renames or drops a directory
 * entry because of its NAME.
 *
 * Statement (C05): an entry of the sorted array is modified (renamed, or its inode zeroed) only if same_name said that
 * it carries the same name as its predecessor; the first entry is never modified; and when same_name says so for a live
 * entry, a problem is raised (or the filesystem un-marked valid).  Together with same_name_plain (byte equality in
 * directories without casefold) and rehash_dir_cmp_ctx (which context a directory gets): two different byte strings in
 * an ordinary directory are never "duplicates".
 */
#include "verif.h"

#define DS_N 3u
#define DS_NCHOICE 16u
#define DS_YES_MAX 1u
struct in_ds {
	struct { unsigned int inode; unsigned char name_len; unsigned char ft; unsigned char name[255]; unsigned int hash, minor; } e[DS_N];
	unsigned int k;			/* ghost entry index 1..DS_N-1 */
	unsigned int b;			/* ghost byte index */
	unsigned int i_flags;
	unsigned char casefold;
	unsigned char choice[DS_NCHOICE];
};
struct in_ds IN;
#include "verif_in.h"

#define _GNU_SOURCE 1
#include "config.h"
#include <string.h>
#include "e2fsck.h"

/* ---- ghost ---- */
char *ds_k_name, *ds_kprev_name;	/* name buffers of entry k and k-1 */
unsigned int ds_k_queries; int ds_k_answer;	/* same_name(entry k, entry k-1): how often asked, last answer */
unsigned int ds_yes;			/* "same" answers given for other (mutated-name) queries */
struct name_cmp_ctx;

static int same_name(const struct name_cmp_ctx *cmp_ctx, char *s1, int len1, char *s2, int len2)
	ASSIGNS(ds_k_queries, ds_k_answer, ds_yes)
	ENSURES((s1 == ds_k_name && s2 == ds_kprev_name) ?
		(ds_k_queries == OLD(ds_k_queries) + 1 && ds_k_answer == RET && ds_yes == OLD(ds_yes)) :
		(ds_k_queries == OLD(ds_k_queries) && ds_k_answer == OLD(ds_k_answer)))
	/* collisions of a mutated name with an existing one: finitely many */
	ENSURES(!(s1 == ds_k_name && s2 == ds_kprev_name) ==>
		(RET != 0 ? (ds_yes == OLD(ds_yes) + 1 && ds_yes <= DS_YES_MAX) : ds_yes == OLD(ds_yes)));

static void mutate_name(char *str, unsigned int *len)
	REQUIRES(*len >= 1 && *len <= 255)
	ASSIGNS(__CPROVER_object_whole(str), *len)
	ENSURES(*len >= OLD(*len) && *len <= 255);

#include "e2fsck/rehash.c"

unsigned int ds_nchoice;
unsigned int ds_problems, ds_dup, ds_nonuniq, ds_norename;
unsigned int ds_adjust;

static unsigned char ds_next(void)
{
	if (ds_nchoice < DS_NCHOICE)
		return IN.choice[ds_nchoice++];
	return 0;
}

int fix_problem(e2fsck_t ctx, problem_t code, struct problem_context *pctx)
{
	(void) ctx; (void) pctx;
	ds_problems++;
	if (code == PR_2_DUPLICATE_DIRENT) ds_dup++;
	if (code == PR_2_NON_UNIQUE_FILE) ds_nonuniq++;
	if (code == PR_2_NON_UNIQUE_FILE_NO_RENAME) ds_norename++;
	return ds_next() & 1;
}
void clear_problem_context(struct problem_context *pctx)
{
	memset(pctx, 0, sizeof(*pctx));
	pctx->blkcount = -1;
	pctx->group = -1;
}
errcode_t e2fsck_adjust_inode_count(e2fsck_t ctx, ext2_ino_t ino, int adj)
{
	(void) ctx; (void) ino; (void) adj;
	ds_adjust++;
	return 0;
}
errcode_t ext2fs_dirhash2(int version, const char *name, int len, const struct ext2fs_nls_table *charset,
			  int hash_flags, const __u32 *seed, ext2_dirhash_t *ret_hash, ext2_dirhash_t *ret_minor_hash)
{
	(void) version; (void) name; (void) len; (void) charset; (void) hash_flags; (void) seed;
	*ret_hash = ds_next();
	if (ret_minor_hash)
		*ret_minor_hash = ds_next();
	return 0;
}

void h_dup_search(void)
{
	e2fsck_t ctx = malloc(sizeof(*ctx));
	ext2_filsys fs = malloc(sizeof(*fs));
	struct ext2_super_block *sb = malloc(sizeof(*sb));
	struct ext2_inode *inode = malloc(sizeof(*inode));
	struct hash_entry *ha = malloc(DS_N * sizeof(*ha));
	struct ext2_dir_entry *de[DS_N];
	struct fill_dir_struct fd;
	struct name_cmp_ctx cc;
	unsigned i;
	int fixed;
	unsigned int ino0, ino_k0;
	unsigned char len_k0, byte_k0, byte_00, len_00;

	LOAD_IN();
	ASSUME(ctx && fs && sb && inode && ha);
	memset(sb, 0, sizeof(*sb));
	memset(inode, 0, sizeof(*inode));
	ctx->fs = fs;
	fs->super = sb;
	fs->encoding = 0;
	fs->flags = EXT2_FLAG_VALID;
	inode->i_flags = IN.i_flags;
	for (i = 0; i < DS_N; i++) {
		de[i] = malloc(sizeof(struct ext2_dir_entry));
		ASSUME(de[i] != 0);
		ASSUME(IN.e[i].name_len >= 1);
		de[i]->inode = IN.e[i].inode;
		de[i]->rec_len = 264;
		de[i]->name_len = IN.e[i].name_len | (IN.e[i].ft << 8);
		memcpy(de[i]->name, IN.e[i].name, 255);
		ha[i].hash = IN.e[i].hash;
		ha[i].minor_hash = IN.e[i].minor;
		ha[i].ino = IN.e[i].inode;
		ha[i].dir = de[i];
	}
	memset(&fd, 0, sizeof(fd));
	fd.harray = ha;
	fd.num_array = DS_N;
	fd.max_array = DS_N;
	fd.inode = inode;
	fd.ctx = ctx;
	cc.casefold = IN.casefold;
	cc.tbl = 0;
	ASSUME(IN.k >= 1 && IN.k < DS_N && IN.b < 255);
	ds_k_name = de[IN.k]->name;
	ds_kprev_name = de[IN.k - 1]->name;
	ds_k_queries = 0; ds_k_answer = 0; ds_yes = 0;
	ds_nchoice = ds_problems = ds_dup = ds_nonuniq = ds_norename = ds_adjust = 0;
	ino_k0 = de[IN.k]->inode; len_k0 = de[IN.k]->name_len & 0xff; byte_k0 = de[IN.k]->name[IN.b];
	ino0 = de[0]->inode; len_00 = de[0]->name_len & 0xff; byte_00 = de[0]->name[IN.b];

	fixed = duplicate_search_and_fix(ctx, fs, 2, &fd, &cc);

	CHECK(de[0]->inode == ino0 && (de[0]->name_len & 0xff) == len_00 && (unsigned char) de[0]->name[IN.b] == byte_00,
	      "the first entry of the sorted array is never modified");
	if (de[IN.k]->inode != ino_k0 || (de[IN.k]->name_len & 0xff) != len_k0 || (unsigned char) de[IN.k]->name[IN.b] != byte_k0) {
		REACH("entry k modified");
		CHECK(ds_k_queries >= 1 && ds_k_answer != 0,
		      "an entry is renamed or dropped only if same_name said it carries the name of its predecessor");
		CHECK(ds_problems >= 1 && fixed >= 1, "... after a problem was raised and accepted; the caller is told to re-sort");
		CHECK(de[IN.k]->inode == ino_k0 || de[IN.k]->inode == 0, "the inode number is only ever zeroed (entry dropped)");
	}
	if (ino_k0 != 0) {
		CHECK(ds_k_queries >= 1, "every live entry is compared with its predecessor");
		if (ds_k_queries == 1 && ds_k_answer != 0) {
			REACH("same as predecessor");
			CHECK(ds_problems >= 1 || !(fs->flags & EXT2_FLAG_VALID),
			      "same name as the predecessor: reported (or the filesystem un-marked valid)");
		}
	} else
		CHECK(ds_k_queries == 0 && de[IN.k]->inode == 0, "a dropped entry (inode 0) is skipped");
	CHECK(fixed >= 0 && (unsigned) fixed <= DS_N - 1, "at most one fix per entry");
	if (fixed == 0) REACH("nothing fixed");
	REACH("end");
}
