/*
 * fp_common.h — shared set-up of the units on e2fsck/problem.c (fix_problem, find_problem, the problem table).
 *
 * The unit file declares nothing itself: this header declares IN, includes the REAL e2fsck/problem.c, defines the
 * stubs for everything problem.c calls outside its own file, and the world builder.
 *
 * What is real: fix_problem, find_problem, find_latch, reconfigure_bool, print_problem, clear_problem_context,
 *   end_problem_latch, set_latch_flags (all of problem.c), ext2fs_unmark_valid (inline, ext2fs.h), and the two
 *   static tables problem_table[] / pr_latch_info[] WITH THEIR INITIALISERS ("static_keep").
 * What is a stub (all of them only print, ask, read e2fsck.conf, or never return):
 *   print_e2fsck_message (message.c)  — prints; no effect on the state.
 *   ask (util.c)                      — contract taken from util.c:ask: E2F_OPT_NO -> 0, else E2F_OPT_YES -> 1, else
 *                                       E2F_OPT_PREEN -> def, else the user's answer (next bit of IN.choice[]).
 *                                       The unit fsck/ask_options proves this of the real ask().
 *   preenhalt (util.c)                — returns iff E2F_OPT_PREEN is off, otherwise the process exits (never returns).
 *   fatal_error (util.c)              — never returns (declared noreturn; it exits).
 *   profile_get_boolean/integer/string (lib/support/profile.c) — e2fsck.conf lookups: every value they may deliver is
 *                                       allowed (IN.choice[]), i.e. EVERY [problems] override of e2fsck.conf, unless
 *                                       IN.conf_mode says "no [problems] force_no override".
 *   gettext                           — identity.
 *   printf/fprintf/fputs/fflush/sprintf — CBMC's built-in models (no effect on the program state other than the
 *                                       destination buffer of sprintf).
 *
 * State the harness may start from (any moment of an e2fsck run):
 *   - ctx->options, ctx->flags, fs->flags arbitrary;
 *   - every table entry may or may not have been configured already (PR_CONFIG): if it has, its ten configurable
 *     flag bits are arbitrary, its count / max_count are arbitrary;
 *   - every latch's run-time flags (PRL_*) are arbitrary, subject only to the invariant a harness names.
 */
#ifndef FP_COMMON_H
#define FP_COMMON_H

#include "verif.h"

#define FP_TMAX 448u		/* upper bound on the table size, checked against the real table by every harness */
#define FP_LMAX 16u
#define FP_NCHOICE 64u

struct in_fp {
	unsigned int code;		/* the problem code passed to fix_problem */
	unsigned int idx;		/* ghost: a table index ("for every entry") */
	unsigned int options;		/* ctx->options */
	unsigned int ctxflags;		/* ctx->flags */
	unsigned int fsflags;		/* fs->flags */
	unsigned char has_logf, has_problem_logf, has_devname;
	unsigned char conf_mode;	/* FP_CONF_ANY / FP_CONF_NO_FORCE_NO / FP_CONF_NONE */
	unsigned int cfg[FP_TMAX];	/* mid-run state of each entry: PR_CONFIG bit + configurable bits */
	int count[FP_TMAX], max_count[FP_TMAX];
	int latch_flags[FP_LMAX];	/* mid-run PRL_* flags of each latch */
	unsigned char choice[FP_NCHOICE];	/* answers of the user / of e2fsck.conf, consumed in order */
};
struct in_fp IN;
#include "verif_in.h"

/*
 * Contract of find_problem, used (replace) by the fix_problem units and proved (enforce) of the real linear scan over
 * the real table by the unit find_problem_contract.  struct e2fsck_problem is defined by problemP.h, which has no
 * include guard and is included by problem.c itself, so the contract cannot name its fields; it is phrased with
 * ghost globals that fp_setup ties to the real table (and CHECKs: element size, e2p_code is the first member):
 *   fp_tab_lo / fp_tab_hi   first and last proper (non-terminator) element of problem_table[]
 *   fp_k_ptr, fp_k_code     ghost element ("for every element k"): &problem_table[k] and its code
 * (no function calls in the clauses: a call inside a replaced contract runs DFCC-instrumented code under a live write
 * set, which made symbolic execution of this translation unit — 424 string constants — intractable).
 *   1. the result is NULL or a proper element of the table whose e2p_code is `code`;
 *   2. completeness + no shadowing: if element k carries `code`, the result IS element k.
 */
#ifdef FP_FIND_PROBLEM_CONTRACT
#define _GNU_SOURCE 1
#include "config.h"
#include "e2fsck.h"
struct e2fsck_problem;
#define FP_ESZ 40u			/* sizeof(struct e2fsck_problem), CHECKed by fp_setup */
struct e2fsck_problem *fp_tab_lo, *fp_tab_hi, *fp_k_ptr;
__u32 fp_k_code;
static struct e2fsck_problem *find_problem(__u32 code)
	ENSURES(RET == 0 || __CPROVER_pointer_in_range_dfcc(fp_tab_lo, RET, fp_tab_hi))
	ENSURES(RET == 0 || (__CPROVER_POINTER_OFFSET(RET) % FP_ESZ == 0 && *(const __u32 *) RET == code))
	ENSURES(code == fp_k_code ==> RET == fp_k_ptr)
	ASSIGNS();
#endif

/*
 * printf / fprintf / sprintf: DFCC appends its write-set parameter to every function that has a body, CBMC's library
 * models of the variadic printf family included; at a call with variadic arguments the callee then takes the first
 * variadic argument (here: a description string or the problem code) for its write set and runs the frame
 * instrumentation against it (symbolic execution did not finish in 5 minutes; same observation as in
 * proofs/journal/one_pass.c).  The three names are therefore mapped to non-variadic stubs for the real file only:
 * printing has no effect on the program state; sprintf(key, "0x%06x", code) fills the 9-byte key buffer.
 */
#include <stdio.h>
static int fp_sprintf_key(char *s, unsigned int code);
#define printf(...) ((void) 0)
#define fprintf(...) ((void) 0)
#define sprintf(s, fmt, code) fp_sprintf_key(s, code)

#include "e2fsck/problem.c"

#undef printf
#undef fprintf
#undef sprintf

#define FP_N (sizeof(problem_table) / sizeof(problem_table[0]))		/* including the { 0 } terminator */
#define FP_NL (sizeof(pr_latch_info) / sizeof(pr_latch_info[0]))	/* including the { -1 } terminator */

#define FP_CONF_ANY 0		/* e2fsck.conf may override anything */
#define FP_CONF_NO_FORCE_NO 1	/* ... anything but force_no */
#define FP_CONF_NONE 2		/* no [problems] section: every lookup returns its default */

/* the ten bits reconfigure_bool may change (e2fsck.conf(5), [problems] stanza) */
#define FP_CONFIGURABLE (PR_PREEN_OK | PR_NO_OK | PR_NO_DEFAULT | PR_MSG_ONLY | PR_PREEN_NOMSG | PR_NOCOLLATE | \
			 PR_NO_NOMSG | PR_PREEN_NOHDR | PR_FORCE_NO | PR_NOT_A_FIX)

/* ---- ghost state ---- */
unsigned int fp_nchoice;
unsigned int fp_asked;		/* number of ask() calls */
unsigned int fp_ask_def;	/* def argument of the last ask() */

static unsigned char fp_next(void)
{
	if (fp_nchoice < FP_NCHOICE)
		return IN.choice[fp_nchoice++];
	return 0;
}

/* ---- stubs ---- */
char *gettext(const char *msgid)
{
	return (char *) msgid;
}

/* fix_problem formats the e2fsck.conf key with sprintf(key, "0x%06x", code) into char key[9]: 8 characters + NUL for
 * every code < 2^24 (the unit problem_table_order checks that of every code in the table; a larger code would overflow
 * the buffer, which the CHECK below reports).  The key is only handed to the profile lookups (stubs). */
static int fp_sprintf_key(char *s, unsigned int code)
{
	CHECK(code < 0x1000000u, "problem code fits the 9-byte e2fsck.conf key buffer (0x%06x)");
	s[0] = '0'; s[1] = 'x';
	s[2] = s[3] = s[4] = s[5] = s[6] = s[7] = 'f';
	s[8] = 0;
	return 8;
}

void print_e2fsck_message(FILE *f, e2fsck_t ctx, const char *msg, struct problem_context *pctx, int first, int recurse)
{
	(void) f; (void) ctx; (void) msg; (void) pctx; (void) first; (void) recurse;
}

int ask(e2fsck_t ctx, const char *string, int def)
{
	(void) string;
	fp_asked++;
	fp_ask_def = def;
	if (ctx->options & E2F_OPT_NO)
		return 0;
	if (ctx->options & E2F_OPT_YES)
		return 1;
	if (ctx->options & E2F_OPT_PREEN)
		return def;
	return fp_next() & 1;
}

void preenhalt(e2fsck_t ctx)
{
	if (!(ctx->options & E2F_OPT_PREEN))
		return;
	ASSUME(0);		/* exit(FSCK_UNCORRECTED) */
}

void fatal_error(e2fsck_t ctx, const char *msg)
{
	(void) ctx; (void) msg;
	ASSUME(0);		/* exit(FSCK_ERROR) */
	for (;;) ;
}

errcode_t profile_get_boolean(profile_t profile, const char *name, const char *subname, const char *subsubname,
			      int def_val, int *ret_boolean)
{
	(void) profile; (void) name; (void) subname;
	if (IN.conf_mode == FP_CONF_NONE || (IN.conf_mode == FP_CONF_NO_FORCE_NO && subsubname[0] == 'f')) {
		*ret_boolean = def_val;		/* "force_no" is the only key starting with 'f' */
		return 0;
	}
	*ret_boolean = (fp_next() & 1) ? 1 : (fp_next() & 1) ? 0 : def_val;
	return 0;
}

errcode_t profile_get_integer(profile_t profile, const char *name, const char *subname, const char *subsubname,
			      int def_val, int *ret_int)
{
	unsigned v;

	(void) profile; (void) name; (void) subname; (void) subsubname;
	if (IN.conf_mode == FP_CONF_NONE) {
		*ret_int = def_val;
		return 0;
	}
	v = fp_next();
	v = (v << 8) | fp_next();
	*ret_int = (fp_next() & 1) ? (int) v : def_val;
	return 0;
}

static char fp_desc[4];		/* a replacement description from e2fsck.conf (arbitrary short string) */

errcode_t profile_get_string(profile_t profile, const char *name, const char *subname, const char *subsubname,
			     const char *def_val, char **ret_string)
{
	(void) profile; (void) name; (void) subname; (void) subsubname; (void) def_val;
	if (IN.conf_mode != FP_CONF_NONE && (fp_next() & 1)) {
		fp_desc[0] = fp_next();
		fp_desc[1] = 0;
		*ret_string = fp_desc;
	}
	return 0;
}

/* ---- the world ---- */
struct fp_world {
	e2fsck_t ctx;
	ext2_filsys fs;
	struct problem_context pctx;
	FILE *f1, *f2;
};

static void fp_setup(struct fp_world *w)
{
	unsigned i;

	CHECK(FP_N <= FP_TMAX && FP_NL <= FP_LMAX, "harness bounds cover the real tables");
	w->ctx = malloc(sizeof(*w->ctx));
	w->fs = malloc(sizeof(*w->fs));
	w->f1 = malloc(sizeof(FILE));
	w->f2 = malloc(sizeof(FILE));
	ASSUME(w->ctx && w->fs && w->f1 && w->f2);
	w->ctx->fs = w->fs;
	w->ctx->options = IN.options;
	w->ctx->flags = IN.ctxflags;
	w->ctx->profile = 0;
	w->ctx->logf = IN.has_logf ? w->f1 : 0;
	w->ctx->problem_logf = IN.has_problem_logf ? w->f2 : 0;
	w->ctx->device_name = IN.has_devname ? "dev" : 0;
	w->ctx->filesystem_name = "fs";
	w->fs->flags = IN.fsflags;
	memset(&w->pctx, 0, sizeof(w->pctx));
	fp_nchoice = 0;
	fp_asked = 0;
#ifdef FP_FIND_PROBLEM_CONTRACT
	CHECK(sizeof(problem_table[0]) == FP_ESZ && (char *) &problem_table[0].e2p_code == (char *) &problem_table[0],
	      "ghost view of the table matches struct e2fsck_problem");
	fp_tab_lo = &problem_table[0];
	fp_tab_hi = &problem_table[FP_N - 2];
	ASSUME(IN.idx < FP_N - 1);
	fp_k_ptr = &problem_table[IN.idx];
	fp_k_code = problem_table[IN.idx].e2p_code;
#endif
	/* any moment of the run: entries already configured carry arbitrary configurable bits and counters */
	for (i = 0; i < FP_N - 1; i++) {
		if (IN.cfg[i] & PR_CONFIG) {
			unsigned m = IN.conf_mode == FP_CONF_NONE ? 0 :
				     IN.conf_mode == FP_CONF_NO_FORCE_NO ? (FP_CONFIGURABLE & ~PR_FORCE_NO) : FP_CONFIGURABLE;
			problem_table[i].flags = (problem_table[i].flags & ~m) | (IN.cfg[i] & m) | PR_CONFIG;
			if (IN.conf_mode != FP_CONF_NONE)
				problem_table[i].max_count = IN.max_count[i];
		}
		problem_table[i].count = IN.count[i];
		ASSUME(IN.count[i] >= 0 && IN.count[i] < 0x7fffffff);	/* count++ : one problem raised per call, < 2^31 calls */
	}
	for (i = 0; i < FP_NL - 1; i++)
		pr_latch_info[i].flags = IN.latch_flags[i] & PRL_VARIABLE;
}

#endif
