/*
 * fp_common.h — shared set-up of the units on e2fsck/problem.c (fix_problem, find_problem, the problem table).
 *
 * The unit file only selects a configuration (macros below) and includes this header, which declares IN, puts the
 * contracts on forward declarations, includes the REAL e2fsck/problem.c, defines the stubs for everything problem.c
 * calls outside its own file, and the world builder.
 *
 * Why the proof of fix_problem is modular.  Running the real fix_problem over the real 424-row table for a symbolic
 * code does not get through symbolic execution (probes: > 5 min with the table as one array, with the table split per
 * row, and 3 s per row when the row is enumerated): every access through the looked-up row pointer is a 424-way case
 * split or a byte-level access into a 17 KB array.  So:
 *   - fix_problem is proved for an ARBITRARY table row (contract enforced with --enforce-contract-rec; the two recursive
 *     calls — latch question, PR_AFTER_CODE — are replaced by the same contract);
 *   - find_problem is replaced by an ABSTRACT contract: the row for the code under test is the ghost row *fp_kv (any
 *     contents), the row for any other code is a fresh object with any contents (each look-up may return different
 *     contents: a sound over-approximation of "some row, in whatever state the run has left it"), NULL is possible for
 *     other codes;  plus the "table facts" FP_FACT_* that the abstract rows are assumed to satisfy;
 *   - the unit find_problem_contract proves the CONCRETE contract of the real linear scan over the real table
 *     (static_keep): result NULL or a proper row with that code; completeness and no shadowing at a ghost row; and the
 *     same table facts FP_FACT_* of the returned row.  The step from the concrete to the abstract contract (a table row
 *     other than the one under test is modelled by a fresh object) is the one manual argument, stated in `assumes`.
 *
 * struct e2fsck_problem / struct latch_descr and the PR_ / PROMPT_ constants live in problemP.h / problem.h / problem.c,
 * none of which has an include guard, and problem.c includes them itself — so the contracts (which must precede the
 * real file) are written over mirror declarations (struct fp_entry_view, struct fp_latch_view, FPV_*), and
 * fp_layout_checks() CHECKs after the real file that every mirror equals the real thing (sizes, member offsets,
 * constant values).
 *
 * What is real: fix_problem, find_latch, reconfigure_bool, print_problem (all of problem.c), ext2fs_unmark_valid
 *   (inline, ext2fs.h), pr_latch_info[] with its initialiser ("static_keep"); find_problem and problem_table[] in the
 *   units that say so.
 * What is a stub (they only print, ask, read e2fsck.conf, or never return):
 *   print_e2fsck_message (message.c)  — prints; no effect on the state.
 *   ask (util.c)                      — as util.c:ask: E2F_OPT_NO -> 0, else E2F_OPT_YES -> 1, else E2F_OPT_PREEN -> def,
 *                                       else the user's answer (next bit of IN.choice[]); fsck/ask_options proves this
 *                                       of the real ask().
 *   preenhalt (util.c)                — returns iff E2F_OPT_PREEN is off, otherwise the process exits.
 *   fatal_error (util.c)              — never returns.
 *   profile_get_boolean/integer/string (lib/support/profile.c) — e2fsck.conf look-ups: every value is possible
 *                                       (IN.choice[]) unless fp_conf_mode restricts it.
 *   gettext                           — identity.
 *   printf / fprintf / sprintf        — see below.
 */
#ifndef FP_COMMON_H
#define FP_COMMON_H

#include "verif.h"

#define FP_NCHOICE 64u

struct in_fp {
	unsigned int code;		/* the problem code passed to fix_problem / find_problem */
	unsigned int idx;		/* ghost: a table index ("for every row") */
	unsigned int options;		/* ctx->options */
	unsigned int ctxflags;		/* ctx->flags */
	unsigned int fsflags;		/* fs->flags */
	unsigned char has_logf, has_problem_logf, has_devname;
	struct in_row {			/* an arbitrary row (abstract units) */
		unsigned int code;
		char prompt;
		int flags, count, max_count;
		unsigned int second;
	} k, o;
	int latch_flags[16];		/* mid-run PRL_* flags of each latch */
	unsigned char choice[FP_NCHOICE];	/* answers of the user / of e2fsck.conf, consumed in order */
};
struct in_fp IN;
#include "verif_in.h"

#define _GNU_SOURCE 1
#include "config.h"
#include <stdio.h>
#include <string.h>
#include <stddef.h>
#include "e2fsck.h"

/* ---- mirrors of problemP.h / problem.h / problem.c (CHECKed equal by fp_layout_checks) ---- */
struct fp_entry_view {
	__u32 e2p_code;
	const char *e2p_description;
	char prompt;
	int flags;
	__u32 second_code;
	int count;
	int max_count;
};
struct fp_latch_view {
	int latch_code;
	__u32 question;
	__u32 end_message;
	int flags;
};
#define FPV_NLATCH 11			/* proper rows of pr_latch_info[] */
#define FPV_PREEN_OK	0x000001
#define FPV_NO_OK	0x000002
#define FPV_NO_DEFAULT	0x000004
#define FPV_MSG_ONLY	0x000008
#define FPV_LATCH_MASK	0x000ff0
#define FPV_FATAL	0x001000
#define FPV_AFTER_CODE	0x002000
#define FPV_PREEN_NOMSG	0x004000
#define FPV_NOCOLLATE	0x008000
#define FPV_NO_NOMSG	0x010000
#define FPV_PREEN_NO	0x020000
#define FPV_PREEN_NOHDR	0x040000
#define FPV_CONFIG	0x080000
#define FPV_FORCE_NO	0x100000
#define FPV_NOT_A_FIX	0x200000
#define FPV_PROMPT_NONE 0
#define FPV_PROMPT_ABORT 11
#define FPV_PRL_YES 1
#define FPV_PRL_NO 2
/* the ten bits reconfigure_bool may change (e2fsck.conf(5), [problems] stanza) */
#define FPV_CONFIGURABLE (FPV_PREEN_OK | FPV_NO_OK | FPV_NO_DEFAULT | FPV_MSG_ONLY | FPV_PREEN_NOMSG | FPV_NOCOLLATE | \
			  FPV_NO_NOMSG | FPV_PREEN_NOHDR | FPV_FORCE_NO | FPV_NOT_A_FIX)
#define FPV(p) ((struct fp_entry_view *) (p))

/* ---- ghost state the contracts speak about ---- */
struct fp_entry_view *fp_ov;	/* abstract units: "another row" of the table (arbitrary contents) */
struct fp_entry_view *fp_kv;	/* the row under test (abstract units: an arbitrary row object; concrete: &problem_table[k]) */
__u32 fp_k_code;		/* its code */
struct fp_latch_view *fp_lv;	/* = pr_latch_info */
e2fsck_t fp_ctx;		/* the one context / filesystem of the run */
ext2_filsys fp_fs;
unsigned char fp_facts;		/* 1: rows satisfy FP_FACT_NOCONF (no e2fsck.conf overrides of force_no / no_default) */
unsigned char fp_conf_mode;	/* a constant set by the harness before fp_setup */
#define FP_CONF_ANY 0		/* e2fsck.conf may override anything */
#define FP_CONF_NONE 2		/* no [problems] section: every look-up returns its default */
unsigned int fp_nchoice;
unsigned int fp_asked;		/* number of ask() calls */
int fp_ask_def;			/* def argument of the last ask() */
char fp_msg[2];			/* the description of every abstract row: a readable string with an arbitrary first character
				 * (fix_problem itself only looks at *message; the rest goes to the printing stubs) */
char fp_desc[4];		/* a replacement description from e2fsck.conf (arbitrary short string) */
struct e2fsck_problem;
struct latch_descr;
struct problem_context;

/*
 * Table facts (about one row r).  Proved of every row of the real table by find_problem_contract; assumed of the
 * abstract rows.
 *   FP_FACT_AFTER   a row that chains to a second code (PR_AFTER_CODE) has no prompt of its own, or PROMPT_ABORT.
 *                   (Both fields are outside the reach of e2fsck.conf.)  Without it V1 below is false: the answer of
 *                   the second code replaces an accepted first answer, so a prompt row without PR_NO_OK chained to a
 *                   PR_NO_OK row could return "no" and leave the filesystem marked valid.
 *   FP_FACT_NOCONF  the row does not carry PR_FORCE_NO, and a row without prompt does not carry PR_NO_DEFAULT /
 *                   PR_PREEN_NO.  True of the table as compiled; e2fsck.conf can change it (force_no, no_default),
 *                   which is why the -y statement V4 is made for a run without such overrides.
 *   FP_FACT_REF     (of the table as a whole) the codes that are looked up exist: the question and end message of every
 *                   latch and the second code of every PR_AFTER_CODE row are codes of the table (proved by
 *                   problem_table_refs with the real find_problem), and e2fsck raises only codes of the table
 *                   (assumption about the callers; an unknown code is answered 0 after "Unhandled error code").
 *                   Only the -y statement V4 needs it (fp_facts).
 *   FP_FACT_SANE    prompt is an index into prompt[] / preen_msg[] (<= PROMPT_NULL = 22); the description can be read;
 *                   0 <= count < INT_MAX (count is incremented once per call: fewer than 2^31 reports of one problem per
 *                   run — an assumption of the abstract units, trivially true of the compiled table where count is 0).
 */
#define FPV_PROMPT_MAX 22
#define FP_FACT_SANE(r) ((unsigned char) (r)->prompt <= FPV_PROMPT_MAX && (r)->count >= 0 && (r)->count < 0x7fffffff)
#define FP_FACT_AFTER(r) (!((r)->flags & FPV_AFTER_CODE) || (r)->prompt == FPV_PROMPT_NONE || (r)->prompt == FPV_PROMPT_ABORT)
#define FP_FACT_NOCONF(r) (!((r)->flags & FPV_FORCE_NO) && \
			   ((r)->prompt != FPV_PROMPT_NONE || !((r)->flags & (FPV_NO_DEFAULT | FPV_PREEN_NO))))

struct e2fsck_problem *fp_kp, *fp_op;	/* the same two rows as fp_kv / fp_ov, typed as find_problem returns them */
struct e2fsck_problem *fp_tab_lo, *fp_tab_hi;	/* first and last proper row of problem_table[] (concrete contract) */

#ifdef FP_FIND_ABSTRACT
/* the code under test maps to the row under test; any other code to NULL or to "another row" *fp_ov (arbitrary contents
 * satisfying the table facts; fix_problem's body performs exactly one look-up, its recursive calls are replaced by its
 * contract, so one other row is all a body can see).  __CPROVER_pointer_in_range_dfcc(p, RET, p) is "RET == p" in the
 * form that gives the symbolic executor a precise points-to set. */
static struct e2fsck_problem *find_problem(__u32 code)
	ENSURES(code == fp_k_code ? __CPROVER_pointer_in_range_dfcc(fp_kp, RET, fp_kp)
				  : (RET == 0 || __CPROVER_pointer_in_range_dfcc(fp_op, RET, fp_op)))
	ENSURES(fp_facts ==> RET != 0)		/* FP_FACT_REF: see below */
	ENSURES(RET != 0 ==> FPV(RET)->e2p_code == code)
	ENSURES(RET != 0 ==> FP_FACT_SANE(FPV(RET)) && FPV(RET)->e2p_description == fp_msg)
	ENSURES(RET != 0 ==> FP_FACT_AFTER(FPV(RET)))
	ENSURES(RET != 0 && fp_facts ==> FP_FACT_NOCONF(FPV(RET)))
	ASSIGNS();
#endif

#ifdef FP_FIND_CONCRETE
static struct e2fsck_problem *find_problem(__u32 code)
	ENSURES(RET == 0 || __CPROVER_pointer_in_range_dfcc(fp_tab_lo, RET, fp_tab_hi))
	ENSURES(RET == 0 || __CPROVER_POINTER_OFFSET(RET) % sizeof(struct fp_entry_view) == 0)
	ENSURES(code == fp_k_code ==> RET == fp_kp)	/* completeness, no shadowing */
	ENSURES(RET != 0 ==> FPV(RET)->e2p_code == code)
	ENSURES(RET != 0 ==> FP_FACT_SANE(FPV(RET)) && __CPROVER_r_ok(FPV(RET)->e2p_description, 1))
	ENSURES(RET != 0 ==> FP_FACT_AFTER(FPV(RET)))
	ENSURES(RET != 0 && fp_facts ==> FP_FACT_NOCONF(FPV(RET)))
	ASSIGNS();
#endif

/* "no latch carries flag bit b" — spelled out for the FPV_NLATCH proper rows (no calls / quantifiers in contracts) */
#define FP_L(i, b) (!(fp_lv[i].flags & (b)))
#define FP_NO_LATCH(b) (FP_L(0, b) && FP_L(1, b) && FP_L(2, b) && FP_L(3, b) && FP_L(4, b) && FP_L(5, b) && FP_L(6, b) && \
			FP_L(7, b) && FP_L(8, b) && FP_L(9, b) && FP_L(10, b))
/* a plain `e2fsck -y`: neither -n nor -p (unix.c refuses to combine them) */
#define FP_YESMODE(o) (((o) & (E2F_OPT_YES | E2F_OPT_NO | E2F_OPT_PREEN)) == E2F_OPT_YES)

#ifdef FP_FIX_CONTRACT
/*
 * Contract of fix_problem.  From the property texts (C01/C02 anchors): "every detected problem goes through
 * fix_problem(); answering 'no' to a problem without PR_NO_OK un-marks the fs valid"; "exit status is assembled from
 * the 'valid' flag and E2F_FLAG_PROBLEMS_FIXED" (unix.c:main: FSCK_UNCORRECTED from !ext2fs_test_valid(fs),
 * FSCK_NONDESTRUCT from ctx->flags & E2F_FLAG_PROBLEMS_FIXED).  It is a contract about RETURNING calls: PR_FATAL rows,
 * PROMPT_ABORT answered yes, and a non-PR_PREEN_OK prompt while preening end the process instead.
 *
 *  F1  fs->flags: only EXT2_FLAG_VALID may change, and only be cleared.
 *  F2  ctx->flags: only E2F_FLAG_PROBLEMS_FIXED may change, and only be set.  ctx->options unchanged (frame).
 *  R   a row keeps code, prompt, second code and every flag e2fsck.conf cannot touch; once configured
 *      (PR_CONFIG) it keeps all its flags.  (What the body needs back from its recursive calls.)
 *  V1  the answer is 0 and the row has a prompt and lacks PR_NO_OK          ==>  EXT2_FLAG_VALID is clear.
 *  V2  the answer is not 0 and the row has a prompt and lacks PR_NOT_A_FIX  ==>  E2F_FLAG_PROBLEMS_FIXED is set.
 *  V3  under E2F_OPT_NO (no latch being in the "answer yes" state — true at start, and kept): the answer is never 1,
 *      for a row with a prompt (and no second code, whose answer would replace it) it is 0; no latch enters the "yes"
 *      state.  (The other possible answer is -1, given for PR_NOCOLLATE message-only rows.)
 *  V4  under a plain -y, without e2fsck.conf force_no / no_default overrides (fp_facts), no latch being in the "answer
 *      no" state — true at start, and kept: a row with a prompt and no second code is answered 1.
 * V1/V2/V4 are stated for the row under test (code == fp_k_code), with its flags as they are on return (i.e. after
 * e2fsck.conf has been applied to it).
 */
int fix_problem(e2fsck_t ctx, __u32 code, struct problem_context *pctx)
	REQUIRES(ctx == fp_ctx && ctx->fs == fp_fs)
	REQUIRES((fp_ctx->options & E2F_OPT_NO) ==> FP_NO_LATCH(FPV_PRL_YES))
	REQUIRES(FP_YESMODE(fp_ctx->options) && fp_facts ==> FP_NO_LATCH(FPV_PRL_NO))
	ASSIGNS(fp_ctx->flags, fp_fs->flags, __CPROVER_object_whole(fp_kv), __CPROVER_object_whole(fp_ov),
		__CPROVER_object_whole(fp_lv),
		fp_nchoice, fp_asked, fp_ask_def, __CPROVER_object_whole(fp_desc))
	ENSURES(RET == 0 || RET == 1 || RET == -1)
	/* F1, F2 */
	ENSURES((fp_fs->flags | EXT2_FLAG_VALID) == (OLD(fp_fs->flags) | EXT2_FLAG_VALID))
	ENSURES(!(OLD(fp_fs->flags) & EXT2_FLAG_VALID) ==> !(fp_fs->flags & EXT2_FLAG_VALID))
	ENSURES((fp_ctx->flags | E2F_FLAG_PROBLEMS_FIXED) == (OLD(fp_ctx->flags) | E2F_FLAG_PROBLEMS_FIXED))
	ENSURES((OLD(fp_ctx->flags) & E2F_FLAG_PROBLEMS_FIXED) ==> (fp_ctx->flags & E2F_FLAG_PROBLEMS_FIXED))
	/* R, of both rows */
#define FP_R(r) \
	ENSURES((r)->e2p_code == OLD((r)->e2p_code) && (r)->prompt == OLD((r)->prompt) && \
		(r)->second_code == OLD((r)->second_code) && \
		((r)->e2p_description == OLD((r)->e2p_description) || (r)->e2p_description == fp_desc)) \
	ENSURES(((r)->flags & ~(FPV_CONFIGURABLE | FPV_CONFIG)) == (OLD((r)->flags) & ~(FPV_CONFIGURABLE | FPV_CONFIG))) \
	ENSURES((OLD((r)->flags) & FPV_CONFIG) ==> (r)->flags == OLD((r)->flags))
	FP_R(fp_kv)
	FP_R(fp_ov)
	/* V1 */
	ENSURES(code == fp_k_code && RET == 0 && fp_kv->prompt != FPV_PROMPT_NONE && !(fp_kv->flags & FPV_NO_OK)
		==> !(fp_fs->flags & EXT2_FLAG_VALID))
	/* V2 */
	ENSURES(code == fp_k_code && RET != 0 && fp_kv->prompt != FPV_PROMPT_NONE && !(fp_kv->flags & FPV_NOT_A_FIX)
		==> (fp_ctx->flags & E2F_FLAG_PROBLEMS_FIXED) != 0)
	/* V3 */
	ENSURES((fp_ctx->options & E2F_OPT_NO) ==> RET != 1 && FP_NO_LATCH(FPV_PRL_YES))
	ENSURES((fp_ctx->options & E2F_OPT_NO) && code == fp_k_code && fp_kv->prompt != FPV_PROMPT_NONE &&
		!(fp_kv->flags & FPV_AFTER_CODE) ==> RET == 0)
	/* V4 */
	ENSURES(FP_YESMODE(fp_ctx->options) && fp_facts ==> RET != 0 && FP_NO_LATCH(FPV_PRL_NO))
	ENSURES(FP_YESMODE(fp_ctx->options) && fp_facts && code == fp_k_code && fp_kv->prompt != FPV_PROMPT_NONE &&
		!(fp_kv->flags & FPV_AFTER_CODE) ==> RET == 1);
#endif

/*
 * printf / fprintf / sprintf: DFCC appends its write-set parameter to every function that has a body, CBMC's library
 * models of the variadic printf family included; at a call with variadic arguments the callee then takes the first
 * variadic argument (here: a description string or the problem code) for its write set and runs the frame
 * instrumentation against it (symbolic execution did not finish in 5 minutes; same observation as in
 * proofs/journal/one_pass.c).  The three names are therefore mapped to non-variadic stubs for the real file only:
 * printing has no effect on the program state; sprintf(key, "0x%06x", code) fills the 9-byte key buffer.
 */
static int fp_sprintf_key(char *s, unsigned int code);
#define printf(...) ((void) 0)
#define fprintf(...) ((void) 0)
#define sprintf(s, fmt, code) fp_sprintf_key(s, code)

#include "e2fsck/problem.c"

#undef printf
#undef fprintf
#undef sprintf

#define FP_N (sizeof(problem_table) / sizeof(problem_table[0]))		/* including the { 0 } terminator */
#define FP_NL (sizeof(pr_latch_info) / sizeof(pr_latch_info[0]))	/* including the { -1 } terminator */

/* every mirror equals the real thing */
static void fp_layout_checks(void)
{
	CHECK(sizeof(struct fp_entry_view) == sizeof(struct e2fsck_problem) &&
	      offsetof(struct fp_entry_view, e2p_code) == offsetof(struct e2fsck_problem, e2p_code) &&
	      offsetof(struct fp_entry_view, e2p_description) == offsetof(struct e2fsck_problem, e2p_description) &&
	      offsetof(struct fp_entry_view, prompt) == offsetof(struct e2fsck_problem, prompt) &&
	      offsetof(struct fp_entry_view, flags) == offsetof(struct e2fsck_problem, flags) &&
	      offsetof(struct fp_entry_view, second_code) == offsetof(struct e2fsck_problem, second_code) &&
	      offsetof(struct fp_entry_view, count) == offsetof(struct e2fsck_problem, count) &&
	      offsetof(struct fp_entry_view, max_count) == offsetof(struct e2fsck_problem, max_count),
	      "mirror: struct e2fsck_problem");
	CHECK(sizeof(struct fp_latch_view) == sizeof(struct latch_descr) &&
	      offsetof(struct fp_latch_view, latch_code) == offsetof(struct latch_descr, latch_code) &&
	      offsetof(struct fp_latch_view, question) == offsetof(struct latch_descr, question) &&
	      offsetof(struct fp_latch_view, end_message) == offsetof(struct latch_descr, end_message) &&
	      offsetof(struct fp_latch_view, flags) == offsetof(struct latch_descr, flags) &&
	      FP_NL == FPV_NLATCH + 1,
	      "mirror: struct latch_descr, number of latches");
	CHECK(FPV_PREEN_OK == PR_PREEN_OK && FPV_NO_OK == PR_NO_OK && FPV_NO_DEFAULT == PR_NO_DEFAULT &&
	      FPV_MSG_ONLY == PR_MSG_ONLY && FPV_LATCH_MASK == PR_LATCH_MASK && FPV_FATAL == PR_FATAL &&
	      FPV_AFTER_CODE == PR_AFTER_CODE && FPV_PREEN_NOMSG == PR_PREEN_NOMSG && FPV_NOCOLLATE == PR_NOCOLLATE &&
	      FPV_NO_NOMSG == PR_NO_NOMSG && FPV_PREEN_NO == PR_PREEN_NO && FPV_PREEN_NOHDR == PR_PREEN_NOHDR &&
	      FPV_CONFIG == PR_CONFIG && FPV_FORCE_NO == PR_FORCE_NO && FPV_NOT_A_FIX == PR_NOT_A_FIX &&
	      FPV_PROMPT_NONE == PROMPT_NONE && FPV_PROMPT_ABORT == PROMPT_ABORT &&
	      FPV_PRL_YES == PRL_YES && FPV_PRL_NO == PRL_NO,
	      "mirror: PR_*, PROMPT_*, PRL_* constants");
}

static unsigned char fp_next(void)
{
	if (fp_nchoice < FP_NCHOICE)
		return IN.choice[fp_nchoice++];
	return 0;
}

/* ---- stubs ---- */
char *gettext(const char *msgid)
{
	return (char *) msgid;
}

/* fix_problem formats the e2fsck.conf key with sprintf(key, "0x%06x", code) into char key[9]: 8 characters + NUL for
 * every code < 2^24 (problem_table_order checks that of every code in the real table).  The key is only handed to the
 * profile look-ups (stubs). */
static int fp_sprintf_key(char *s, unsigned int code)
{
	(void) code;
	s[0] = '0'; s[1] = 'x';
	s[2] = s[3] = s[4] = s[5] = s[6] = s[7] = 'f';
	s[8] = 0;
	return 8;
}

void print_e2fsck_message(FILE *f, e2fsck_t ctx, const char *msg, struct problem_context *pctx, int first, int recurse)
{
	(void) f; (void) ctx; (void) msg; (void) pctx; (void) first; (void) recurse;
}

int ask(e2fsck_t ctx, const char *string, int def)
{
	(void) string;
	fp_asked++;
	fp_ask_def = def;
	if (ctx->options & E2F_OPT_NO)
		return 0;
	if (ctx->options & E2F_OPT_YES)
		return 1;
	if (ctx->options & E2F_OPT_PREEN)
		return def;
	return fp_next() & 1;
}

void preenhalt(e2fsck_t ctx)
{
	if (!(ctx->options & E2F_OPT_PREEN))
		return;
	ASSUME(0);		/* exit(FSCK_UNCORRECTED) */
}

void fatal_error(e2fsck_t ctx, const char *msg)
{
	(void) ctx; (void) msg;
	ASSUME(0);		/* exit(FSCK_ERROR) */
}

errcode_t profile_get_boolean(profile_t profile, const char *name, const char *subname, const char *subsubname,
			      int def_val, int *ret_boolean)
{
	(void) profile; (void) name; (void) subname; (void) subsubname;
	if (fp_conf_mode == FP_CONF_NONE) {
		*ret_boolean = def_val;
		return 0;
	}
	*ret_boolean = (fp_next() & 1) ? 1 : (fp_next() & 1) ? 0 : def_val;
	return 0;
}

errcode_t profile_get_integer(profile_t profile, const char *name, const char *subname, const char *subsubname,
			      int def_val, int *ret_int)
{
	unsigned v;

	(void) profile; (void) name; (void) subname; (void) subsubname;
	if (fp_conf_mode == FP_CONF_NONE) {
		*ret_int = def_val;
		return 0;
	}
	v = fp_next();
	v = (v << 8) | fp_next();
	*ret_int = (fp_next() & 1) ? (int) v : def_val;
	return 0;
}

errcode_t profile_get_string(profile_t profile, const char *name, const char *subname, const char *subsubname,
			     const char *def_val, char **ret_string)
{
	(void) profile; (void) name; (void) subname; (void) subsubname; (void) def_val;
	if (fp_conf_mode != FP_CONF_NONE && (fp_next() & 1)) {
		fp_desc[0] = fp_next();
		fp_desc[1] = 0;
		*ret_string = fp_desc;
	}
	return 0;
}

/* ---- the world ---- */
struct fp_world {
	e2fsck_t ctx;
	ext2_filsys fs;
	struct problem_context pctx;
	FILE *f1, *f2;
};

/* any moment of an e2fsck run: arbitrary options / flags; latches in any PRL_* state */
static void fp_setup(struct fp_world *w)
{
	unsigned i;

	fp_layout_checks();
	w->ctx = malloc(sizeof(*w->ctx));
	w->fs = malloc(sizeof(*w->fs));
	w->f1 = malloc(sizeof(FILE));
	w->f2 = malloc(sizeof(FILE));
	ASSUME(w->ctx && w->fs && w->f1 && w->f2);
	w->ctx->fs = w->fs;
	w->ctx->options = IN.options;
	w->ctx->flags = IN.ctxflags;
	w->ctx->profile = 0;
	w->ctx->logf = IN.has_logf ? w->f1 : 0;
	w->ctx->problem_logf = IN.has_problem_logf ? w->f2 : 0;
	w->ctx->device_name = IN.has_devname ? "dev" : 0;
	w->ctx->filesystem_name = "fs";
	w->fs->flags = IN.fsflags;
	memset(&w->pctx, 0, sizeof(w->pctx));
	fp_nchoice = 0;
	fp_asked = 0;
	fp_msg[0] = IN.has_devname ? IN.choice[0] : 0;
	fp_msg[1] = 0;
	fp_ctx = w->ctx;
	fp_fs = w->fs;
	fp_lv = (struct fp_latch_view *) pr_latch_info;
	for (i = 0; i < FP_NL - 1; i++)
		pr_latch_info[i].flags = IN.latch_flags[i] & PRL_VARIABLE;
}

/* two arbitrary rows: K, the row of code IN.kcode ("the row under test"), and O, "another row" — any prompt, any flags
 * (configured or not), any counters, any second code; being rows of the table, the table facts hold of them */
static struct e2fsck_problem *fp_row(const struct in_row *r)
{
	struct e2fsck_problem *e = malloc(sizeof(*e));

	ASSUME(e);
	e->e2p_code = r->code;
	e->e2p_description = fp_msg;
	e->prompt = r->prompt;
	e->flags = r->flags;
	e->second_code = r->second;
	e->count = r->count;
	e->max_count = r->max_count;
	ASSUME(FP_FACT_SANE(FPV(e)) && FP_FACT_AFTER(FPV(e)));
	ASSUME(!fp_facts || FP_FACT_NOCONF(FPV(e)));
	return e;
}

static void fp_arbitrary_rows(void)
{
	fp_kp = fp_row(&IN.k);
	fp_kv = FPV(fp_kp);
	fp_k_code = IN.k.code;
	fp_op = fp_row(&IN.o);
	fp_ov = FPV(fp_op);
	ASSUME(IN.o.code != IN.k.code);
}

#endif
