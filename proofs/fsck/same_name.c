/* VERIF-UNIT
{
 "name": "same_name_plain",
 "props": ["C05", "C01"],
 "level": "U/k",
 "tier": "quick",
 "harness": "h_same_name_plain",
 "includes": ["e2fsck", "lib/support"],
 "unwind": 257,
 "unwind_reason": "same_name is loop-free; memcmp (CBMC library model) and the harness's copy loop run over a name of at most 255 bytes (name_len is an 8-bit field of the on-disk directory entry); unwinding assertions on",
 "functions": ["e2fsck/rehash.c:same_name"],
 "assumes": ["name lengths 0..255 (8-bit name_len of the on-disk format; every caller passes ext2fs_dirent_name_len() or a mutated name capped at 255)",
	     "cmp_ctx->tbl is arbitrary (NULL or a table): the filesystem may or may not have an encoding",
	     "ext2fs_casefold_cmp (lib/ext2fs/nls_utf8.c) is a stub that counts its calls"],
 "backend": "cadical",
 "native": false
}
*/
/* VERIF-UNIT
{
 "name": "same_name_casefold",
 "props": ["C05", "C01"],
 "level": "U",
 "tier": "quick",
 "harness": "h_same_name_casefold",
 "includes": ["e2fsck", "lib/support"],
 "unwind": 257,
 "unwind_reason": "same_name is loop-free; no libc loop on this path; the bound serves the harness's 255-byte copy loop",
 "functions": ["e2fsck/rehash.c:same_name"],
 "assumes": ["ext2fs_casefold_cmp (lib/ext2fs/nls_utf8.c) is a stub recording its arguments and returning an arbitrary int"],
 "backend": "cadical",
 "native": false
}
*/
/*
 * e2fsck/rehash.c:same_name — the test e2fsck -D / the duplicate search use to decide that two directory entries carry
 * "the same name" (and must therefore be renamed or dropped).
 *
 * Statement (C05: e2fsck never alters healthy files — two different names in a directory that is not case-folded are
 * two healthy entries, whatever the filesystem's encoding):
 *   cmp_ctx->casefold == 0 (directory without EXT4_CASEFOLD_FL):  same  <==>  equal length and equal bytes,
 *        regardless of cmp_ctx->tbl, and the encoding table is not consulted;
 *   cmp_ctx->casefold != 0:  same  <==>  ext2fs_casefold_cmp(tbl, s1, len1, s2, len2) == 0  (the table decides).
 * The buffers are not written.
 */
#include "verif.h"

#define SN_MAX 255u
struct in_sn {
	unsigned char s1[SN_MAX], s2[SN_MAX];
	unsigned int len1, len2;
	unsigned int k, j;		/* ghost byte index ("for every byte") / witness of a difference */
	unsigned char make_copy;	/* harness: s2 := s1 */
	unsigned char has_tbl;
	int casefold;
	int cf_ret;
};
struct in_sn IN;
#include "verif_in.h"

#define _GNU_SOURCE 1
#include "config.h"
#include <string.h>

#include "e2fsck/rehash.c"

unsigned int sn_cf_calls;
const struct ext2fs_nls_table *sn_cf_tbl;
const unsigned char *sn_cf_s1, *sn_cf_s2;
size_t sn_cf_l1, sn_cf_l2;
static char sn_tbl_tag;

int ext2fs_casefold_cmp(const struct ext2fs_nls_table *table, const unsigned char *str1, size_t len1,
			const unsigned char *str2, size_t len2)
{
	sn_cf_calls++;
	sn_cf_tbl = table;
	sn_cf_s1 = str1; sn_cf_l1 = len1;
	sn_cf_s2 = str2; sn_cf_l2 = len2;
	return IN.cf_ret;
}

struct sn_world {
	struct name_cmp_ctx cc;
	char *s1, *s2;
	unsigned char a0, b0;		/* bytes at the ghost index before the call */
};

static void sn_setup(struct sn_world *w)
{
	unsigned i;

	ASSUME(IN.len1 <= SN_MAX && IN.len2 <= SN_MAX);
	w->s1 = malloc(SN_MAX);
	w->s2 = malloc(SN_MAX);
	ASSUME(w->s1 && w->s2);
	memcpy(w->s1, IN.s1, SN_MAX);
	if (IN.make_copy) {
		ASSUME(IN.len2 == IN.len1);
		for (i = 0; i < SN_MAX; i++)
			w->s2[i] = i < IN.len1 ? w->s1[i] : (char) IN.s2[i];	/* equal names, arbitrary bytes behind them */
	} else
		memcpy(w->s2, IN.s2, SN_MAX);
	w->cc.tbl = IN.has_tbl ? (const struct ext2fs_nls_table *) &sn_tbl_tag : 0;
	sn_cf_calls = 0;
	ASSUME(IN.k < SN_MAX);
	w->a0 = w->s1[IN.k];
	w->b0 = w->s2[IN.k];
}

void h_same_name_plain(void)
{
	struct sn_world w;
	int r;

	LOAD_IN();
	sn_setup(&w);
	w.cc.casefold = 0;

	r = same_name(&w.cc, w.s1, IN.len1, w.s2, IN.len2);

	CHECK(sn_cf_calls == 0, "directory without casefold: the encoding table is not consulted, even if the filesystem has one");
	if (IN.make_copy) {
		REACH("equal names");
		CHECK(r != 0, "equal length and equal bytes: same");
	}
	if (IN.len1 != IN.len2) {
		REACH("different lengths");
		CHECK(r == 0, "different lengths: not the same");
	}
	if (IN.len1 == IN.len2 && IN.j < IN.len1 && (unsigned char) w.s1[IN.j] != (unsigned char) w.s2[IN.j]) {
		REACH("a differing byte");
		CHECK(r == 0, "a differing byte: not the same (whatever the table would say about case)");
	}
	if (r != 0) {
		REACH("same");
		CHECK(IN.len1 == IN.len2, "same only for equal lengths");
		CHECK(IN.k >= IN.len1 || w.s1[IN.k] == w.s2[IN.k], "same only if every byte agrees");
	}
	CHECK(w.s1[IN.k] == (char) w.a0 && w.s2[IN.k] == (char) w.b0, "the names are not written");
	REACH("end");
}

void h_same_name_casefold(void)
{
	struct sn_world w;
	int r;

	LOAD_IN();
	sn_setup(&w);
	ASSUME(IN.casefold != 0);
	w.cc.casefold = IN.casefold;

	r = same_name(&w.cc, w.s1, IN.len1, w.s2, IN.len2);

	CHECK(sn_cf_calls == 1 && sn_cf_tbl == w.cc.tbl && sn_cf_s1 == (unsigned char *) w.s1 && sn_cf_l1 == IN.len1 &&
	      sn_cf_s2 == (unsigned char *) w.s2 && sn_cf_l2 == IN.len2,
	      "casefolded directory: the table's comparison is asked, once, about exactly these two names");
	CHECK((r != 0) == (IN.cf_ret == 0), "... and decides");
	if (r) REACH("same"); else REACH("different");
	CHECK(w.s1[IN.k] == (char) w.a0 && w.s2[IN.k] == (char) w.b0, "the names are not written");
	REACH("end");
}
