/* VERIF-UNIT
{
 "name": "expand_dir_proc_newblocks",
 "props": ["C01", "C05"],
 "level": "P",
 "tier": "quick",
 "harness": "h_expand_proc",
 "includes": ["e2fsck", "lib/support"],
 "unwind": 3,
 "unwind_reason": "expand_dir_proc is loop-free; the harness calls it three times",
 "functions": ["e2fsck/pass3.c:expand_dir_proc"],
 "assumes": ["no frame enforcement (pass3.c is a large TU; the callback's effects are observed through the stubs' ghost monitors and the objects the harness owns)",
	     "protocol of ext2fs_block_iterate3(BLOCK_FLAG_APPEND) as seen by the callback: a call for an existing block (*blocknr != 0) followed by two calls for holes (*blocknr == 0); block counts arbitrary (negative = metadata level)",
	     "allocator / writer stubs: ext2fs_new_block2 returns an arbitrary block or fails, and counts its successful calls; ext2fs_block_alloc_stats2, ext2fs_new_dir_block, ext2fs_write_dir_block4, ext2fs_zero_blocks2, ext2fs_mark_generic_bmap record their arguments / fail arbitrarily",
	     "cluster ratio 2^bits, bits <= 16; block numbers below 2^62 (no wrap of last_blk + 1)"],
 "backend": "cadical",
 "native": false
}
*/
/* VERIF-UNIT
{
 "name": "expand_directory_accounting",
 "props": ["C01", "C05"],
 "level": "P",
 "tier": "quick",
 "harness": "h_expand_directory",
 "includes": ["e2fsck", "lib/support"],
 "unwind": 3,
 "unwind_reason": "e2fsck_expand_directory is loop-free (ext2fs_block_iterate3 is a stub)",
 "functions": ["e2fsck/pass3.c:e2fsck_expand_directory"],
 "assumes": ["ext2fs_block_iterate3 is a stub that leaves an arbitrary result in the callback's private record (newblocks, last_block, err): what the callback does per block is the subject of expand_dir_proc_newblocks",
	     "ext2fs_iblk_add_blocks (proved in proofs/fileio: adds num_blocks CLUSTERS worth of 512-byte sectors), ext2fs_inode_size_set, quota_data_add, ext2fs_read_inode_full, e2fsck_write_inode_full are stubs recording their arguments",
	     "block size in {1024, 4096}, cluster size 2^(10+s_log_cluster_size) with s_log_cluster_size in {0, 2, 6} (symbolic products enumerated)"],
 "backend": "cadical",
 "native": false
}
*/
/*
 * e2fsck/pass3.c: expand_dir_proc (block-iterate callback of e2fsck_expand_directory, used to grow lost+found and to
 * re-create directory blocks) and the accounting in e2fsck_expand_directory.
 *
 * Statement (C01/C05: the repaired directory must check clean — i_blocks equal to what is allocated): i_blocks is kept in
 * units of CLUSTERS' worth of sectors (ext2fs_iblk_add_blocks multiplies by the cluster ratio), so on a bigalloc
 * filesystem the directory's i_blocks must grow by one cluster for every NEW cluster the expansion allocates, and by
 * nothing for a block that is placed into a cluster the directory already owns.  At the callback level:
 *     es->newblocks is incremented exactly when ext2fs_new_block2 handed out a block (a new cluster), together with
 *     ext2fs_block_alloc_stats2(fs, that block, +1);
 *     a hole whose predecessor block p (the block the previous call saw or produced) is not the last block of its cluster
 *     (independent reading: (p + 1) mod ratio != 0) and whose block count is not 0 is filled with p + 1 WITHOUT an
 *     allocation and WITHOUT touching newblocks;
 *     an existing block is left alone.
 * At the caller level: exactly es.newblocks is handed to ext2fs_iblk_add_blocks, and es.newblocks * cluster size to the
 * quota accounting; the size becomes (last_block + 1) * blocksize.
 */
#include "verif.h"

#define XD_NCHOICE 24u
struct in_xd {
	unsigned char bits;			/* cluster_ratio_bits */
	unsigned long long b1;			/* the existing block of call 1 */
	long long c1, c2, c3;			/* block counts of the three calls */
	unsigned long long new_blk[2];		/* what ext2fs_new_block2 hands out (1st, 2nd success) */
	unsigned long long nb0, num0, last0;	/* private record before */
	long long gs;				/* guaranteed_size */
	unsigned int dir;
	/* expand_directory */
	unsigned long long r_newblocks, r_last_block;
	long r_err, r_iter;
	unsigned char bs_sel, cl_sel, rw;
	unsigned char choice[XD_NCHOICE];
};
struct in_xd IN;
#include "verif_in.h"

#define _GNU_SOURCE 1
#include "config.h"
#include <string.h>

#include "e2fsck/pass3.c"

/* ---- ghost monitors ---- */
unsigned int xd_nchoice;
unsigned int xd_nalloc;			/* successful ext2fs_new_block2 calls */
unsigned int xd_nalloc_calls;		/* all ext2fs_new_block2 calls */
unsigned long long xd_goal;		/* goal of the last one */
unsigned int xd_nstats;			/* ext2fs_block_alloc_stats2 calls */
unsigned long long xd_stats_blk; int xd_stats_inuse;
unsigned int xd_nmark; unsigned long long xd_mark_blk;
unsigned int xd_nwrite; unsigned long long xd_write_blk; unsigned int xd_write_ino;
unsigned int xd_nzero; unsigned long long xd_zero_blk;
static char xd_dirblock[16];

static unsigned char xd_next(void)
{
	if (xd_nchoice < XD_NCHOICE)
		return IN.choice[xd_nchoice++];
	return 0;
}

/* ---- stubs ---- */
errcode_t ext2fs_new_block2(ext2_filsys fs, blk64_t goal, ext2fs_block_bitmap map, blk64_t *ret)
{
	(void) fs; (void) map;
	xd_nalloc_calls++;
	xd_goal = goal;
	if (xd_next() & 1)
		return EXT2_ET_BLOCK_ALLOC_FAIL;
	*ret = IN.new_blk[xd_nalloc & 1];
	xd_nalloc++;
	return 0;
}
void ext2fs_block_alloc_stats2(ext2_filsys fs, blk64_t blk, int inuse)
{
	(void) fs;
	xd_nstats++;
	xd_stats_blk = blk;
	xd_stats_inuse = inuse;
}
errcode_t ext2fs_new_dir_block(ext2_filsys fs, ext2_ino_t dir_ino, ext2_ino_t parent_ino, char **block)
{
	(void) fs; (void) dir_ino; (void) parent_ino;
	if (xd_next() & 1)
		return EXT2_ET_NO_MEMORY;
	*block = malloc(16);
	ASSUME(*block != 0);
	return 0;
}
errcode_t ext2fs_write_dir_block4(ext2_filsys fs, blk64_t block, void *buf, int flags, ext2_ino_t ino)
{
	(void) fs; (void) buf; (void) flags;
	xd_nwrite++;
	xd_write_blk = block;
	xd_write_ino = ino;
	return (xd_next() & 1) ? EXT2_ET_SHORT_WRITE : 0;
}
errcode_t ext2fs_zero_blocks2(ext2_filsys fs, blk64_t blk, int num, blk64_t *ret_blk, int *ret_count)
{
	(void) fs; (void) num; (void) ret_blk; (void) ret_count;
	xd_nzero++;
	xd_zero_blk = blk;
	return (xd_next() & 1) ? EXT2_ET_SHORT_WRITE : 0;
}
int ext2fs_mark_generic_bmap(ext2fs_generic_bitmap bitmap, blk64_t bitno)
{
	(void) bitmap;
	xd_nmark++;
	xd_mark_blk = bitno;
	return 0;
}

/* ---- world ---- */
static char xd_tag;
struct xd_world {
	e2fsck_t ctx;
	ext2_filsys fs;
	struct ext2_super_block *sb;
	struct expand_dir_struct es;
};

static void xd_setup(struct xd_world *w)
{
	w->ctx = malloc(sizeof(*w->ctx));
	w->fs = malloc(sizeof(*w->fs));
	w->sb = malloc(sizeof(*w->sb));
	ASSUME(w->ctx && w->fs && w->sb);
	memset(w->sb, 0, sizeof(*w->sb));
	w->ctx->fs = w->fs;
	w->ctx->block_found_map = (ext2fs_block_bitmap) &xd_tag;
	w->ctx->qctx = 0;
	w->fs->super = w->sb;
	ASSUME(IN.bits <= 16);
	w->fs->cluster_ratio_bits = IN.bits;
	xd_nchoice = xd_nalloc = xd_nalloc_calls = xd_nstats = xd_nmark = xd_nwrite = xd_nzero = 0;
}

/* independent reading of "p + 1 lies in the cluster of p": p + 1 is not the first block of a cluster */
static int xd_same_cluster_next(unsigned long long p)
{
	unsigned long long ratio = 1ull << IN.bits;

	return ((p + 1) & (ratio - 1)) != 0;
}

/* one call for a hole, after the callback has seen / produced block `prev`; checks the statement; returns the block
 * the callback put into the hole (0 if it aborted) */
static unsigned long long xd_hole(struct xd_world *w, long long cnt, unsigned long long prev)
{
	blk64_t blk = 0;
	unsigned long long nb = w->es.newblocks, num = w->es.num;
	unsigned int a0 = xd_nalloc, ac0 = xd_nalloc_calls, s0 = xd_nstats, m0 = xd_nmark, wr0 = xd_nwrite, z0 = xd_nzero;
	int r;

	r = expand_dir_proc(w->fs, &blk, cnt, 0, 0, &w->es);

	if (w->es.guaranteed_size && cnt >= w->es.guaranteed_size) {
		CHECK(r == BLOCK_ABORT && blk == 0 && w->es.newblocks == nb && xd_nalloc_calls == ac0 && xd_nmark == m0,
		      "beyond the guaranteed size: abort, nothing allocated, nothing counted");
		return 0;
	}
	CHECK(w->es.newblocks - nb == xd_nalloc - a0 && xd_nalloc - a0 <= 1,
	      "newblocks grows by exactly the number of blocks ext2fs_new_block2 handed out (new clusters)");
	CHECK(xd_nstats - s0 == xd_nalloc - a0, "ext2fs_block_alloc_stats2 is called exactly for those");
	if (cnt != 0 && xd_same_cluster_next(prev)) {
		REACH("hole inside an owned cluster");
		CHECK(xd_nalloc_calls == ac0, "a block placed into the cluster of its predecessor: no allocation is attempted");
		CHECK(w->es.newblocks == nb, "... and newblocks (clusters added to i_blocks) is not incremented");
		CHECK(!(r & BLOCK_CHANGED) || blk == prev + 1, "... the block is the successor of the previous block");
	} else {
		REACH("hole that needs a new cluster");
		CHECK(xd_nalloc_calls == ac0 + 1, "first block of the file, or predecessor at the end of its cluster: the allocator is asked");
		CHECK(xd_goal == (prev & ~((1ull << IN.bits) - 1)), "goal: start of the predecessor's cluster");
		if (xd_nalloc == a0) {
			CHECK(r == BLOCK_ABORT && w->es.err != 0 && blk == 0 && w->es.newblocks == nb,
			      "allocation failed: abort with es->err set, nothing counted");
			return 0;
		}
		CHECK(xd_stats_blk == IN.new_blk[a0 & 1] && xd_stats_inuse == 1, "allocation statistics: that block, +1");
		CHECK(!(r & BLOCK_CHANGED) || blk == IN.new_blk[a0 & 1], "the hole receives the allocated block");
	}
	if (r & BLOCK_CHANGED) {
		REACH("hole filled");
		CHECK(xd_nmark == m0 + 1 && xd_mark_blk == blk, "the block is marked in block_found_map");
		if (cnt > 0)
			CHECK(xd_nwrite == wr0 + 1 && xd_write_blk == blk && xd_write_ino == IN.dir && w->es.num == num - 1,
			      "data block: an empty directory block is written there for this directory; one block less to go");
		else
			CHECK(xd_nzero == z0 + 1 && xd_zero_blk == blk && w->es.num == num, "metadata block: zeroed");
		CHECK(((r & BLOCK_ABORT) != 0) == (w->es.num == 0), "stop exactly when the requested number of blocks is reached");
		return blk;
	}
	CHECK(r == BLOCK_ABORT && w->es.err != 0 && blk == 0, "otherwise: abort with es->err set, the hole stays a hole");
	return 0;
}

void h_expand_proc(void)
{
	struct xd_world w;
	blk64_t blk;
	unsigned long long p;
	int r;

	LOAD_IN();
	xd_setup(&w);
	w.es.num = IN.num0;
	w.es.guaranteed_size = IN.gs;
	w.es.newblocks = IN.nb0;
	w.es.last_block = IN.last0;
	w.es.err = 0;
	w.es.ctx = w.ctx;
	w.es.dir = IN.dir;
	ASSUME(IN.gs >= 0 && IN.num0 >= 1 && IN.nb0 < (1ull << 62));
	ASSUME(IN.b1 != 0 && IN.b1 < (1ull << 62) && IN.new_blk[0] != 0 && IN.new_blk[0] < (1ull << 62) &&
	       IN.new_blk[1] != 0 && IN.new_blk[1] < (1ull << 62));

	/* call 1: an existing block */
	blk = IN.b1;
	r = expand_dir_proc(w.fs, &blk, IN.c1, 0, 0, &w.es);
	CHECK(blk == IN.b1 && w.es.newblocks == IN.nb0 && w.es.num == IN.num0 && xd_nalloc_calls == 0 && xd_nmark == 0 &&
	      xd_nwrite == 0 && xd_nzero == 0 && xd_nstats == 0,
	      "an existing block is left alone: nothing allocated, written, marked or counted");
	if (IN.gs && IN.c1 >= IN.gs) {
		CHECK(r == BLOCK_ABORT, "beyond the guaranteed size: abort");
		REACH("end (guaranteed size reached)");
		return;
	}
	CHECK(r == 0, "existing block: continue, unchanged");
	CHECK(w.es.last_block == (IN.c1 > 0 ? (unsigned long long) IN.c1 : IN.last0), "last_block follows the data block count");

	/* call 2: a hole after it */
	p = xd_hole(&w, IN.c2, IN.b1);
	if (!p) {
		REACH("end (second call aborted)");
		return;
	}
	if (w.es.num == 0) {
		REACH("end (enough blocks)");
		return;
	}
	/* call 3: another hole, after the block call 2 produced */
	(void) xd_hole(&w, IN.c3, p);
	REACH("end");
}

/* ---- e2fsck_expand_directory ---- */
unsigned int xa_iblk_calls; unsigned long long xa_iblk_num;
unsigned int xa_quota_calls; unsigned long long xa_quota_space;
unsigned int xa_size_calls; unsigned long long xa_size;
unsigned int xa_write_calls, xa_iter_calls, xa_iter_flags;

void e2fsck_read_bitmaps(e2fsck_t ctx) { (void) ctx; }
errcode_t ext2fs_check_directory(ext2_filsys fs, ext2_ino_t ino)
{
	(void) fs; (void) ino;
	return (xd_next() & 1) ? EXT2_ET_NO_DIRECTORY : 0;
}
errcode_t ext2fs_block_iterate3(ext2_filsys fs, ext2_ino_t ino, int flags, char *block_buf,
				int (*func)(ext2_filsys fs, blk64_t *blocknr, e2_blkcnt_t blockcnt, blk64_t ref_blk,
					    int ref_offset, void *priv_data),
				void *priv_data)
{
	struct expand_dir_struct *es = priv_data;

	(void) fs; (void) ino; (void) block_buf; (void) func;
	xa_iter_calls++;
	xa_iter_flags = flags;
	es->newblocks = IN.r_newblocks;
	es->last_block = IN.r_last_block;
	es->err = IN.r_err;
	return IN.r_iter;
}
errcode_t ext2fs_read_inode_full(ext2_filsys fs, ext2_ino_t ino, struct ext2_inode *inode, int bufsize)
{
	(void) fs; (void) ino;
	memset(inode, 0, bufsize);
	return (xd_next() & 1) ? EXT2_ET_SHORT_READ : 0;
}
errcode_t ext2fs_inode_size_set(ext2_filsys fs, struct ext2_inode *inode, ext2_off64_t size)
{
	(void) fs; (void) inode;
	xa_size_calls++;
	xa_size = size;
	return (xd_next() & 1) ? EXT2_ET_FILE_TOO_BIG : 0;
}
errcode_t ext2fs_iblk_add_blocks(ext2_filsys fs, struct ext2_inode *inode, blk64_t num_blocks)
{
	(void) fs; (void) inode;
	xa_iblk_calls++;
	xa_iblk_num = num_blocks;
	return 0;
}
void quota_data_add(quota_ctx_t qctx, struct ext2_inode_large *inode, ext2_ino_t ino, qsize_t space)
{
	(void) qctx; (void) inode; (void) ino;
	xa_quota_calls++;
	xa_quota_space = space;
}
void e2fsck_write_inode_full(e2fsck_t ctx, unsigned long ino, struct ext2_inode *inode, int bufsize, const char *proc)
{
	(void) ctx; (void) ino; (void) inode; (void) bufsize; (void) proc;
	xa_write_calls++;
}

void h_expand_directory(void)
{
	struct xd_world w;
	errcode_t r;
	unsigned long long bs, cl;

	LOAD_IN();
	xd_setup(&w);
	bs = (IN.bs_sel & 1) ? 4096 : 1024;
	w.fs->blocksize = bs;
	w.sb->s_log_cluster_size = (IN.cl_sel % 3) == 0 ? 0 : (IN.cl_sel % 3) == 1 ? 2 : 6;
	cl = 1024ull << w.sb->s_log_cluster_size;
	w.fs->flags = IN.rw ? EXT2_FLAG_RW : 0;
	ASSUME(IN.r_newblocks < (1ull << 40) && IN.r_last_block < (1ull << 40));
	xa_iblk_calls = xa_quota_calls = xa_size_calls = xa_write_calls = xa_iter_calls = 0;

	r = e2fsck_expand_directory(w.ctx, IN.dir, 1, 0);

	if (!IN.rw) {
		CHECK(r == EXT2_ET_RO_FILSYS && xa_iter_calls == 0 && xa_write_calls == 0, "read-only filesystem: refused, nothing touched");
		REACH("end (read-only)");
		return;
	}
	if (r == 0) {
		REACH("expanded");
		CHECK(xa_iter_calls == 1 && (xa_iter_flags & BLOCK_FLAG_APPEND), "the directory's blocks are iterated once, in append mode");
		CHECK(IN.r_err == 0, "success only if the callback recorded no error");
		CHECK(xa_iblk_calls == 1 && xa_iblk_num == IN.r_newblocks,
		      "i_blocks grows by exactly the number of new CLUSTERS the callback counted (ext2fs_iblk_add_blocks scales by the cluster ratio)");
		CHECK(xa_quota_calls == 1 && xa_quota_space == IN.r_newblocks * cl, "quota: that many clusters, in bytes");
		CHECK(xa_size_calls == 1 && xa_size == (IN.r_last_block + 1) * bs, "size: up to and including the last block");
		CHECK(xa_write_calls == 1, "the inode is written back once");
	} else {
		REACH("failed");
		CHECK(xa_write_calls == 0 && xa_iblk_calls == 0, "on failure the inode is not written");
	}
	REACH("end");
}
