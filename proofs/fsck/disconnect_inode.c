/* VERIF-UNIT
{
 "name": "disconnect_inode_verdict",
 "props": ["C02", "C01"],
 "level": "U",
 "tier": "quick",
 "harness": "h_disconnect",
 "includes": ["e2fsck", "lib/support"],
 "unwind": 3,
 "unwind_reason": "disconnect_inode is loop-free",
 "functions": ["e2fsck/pass4.c:disconnect_inode"],
 "assumes": ["the scratch inode buffer is exactly EXT2_INODE_SIZE(sb) bytes, as e2fsck_pass4 allocates it (e2fsck_allocate_memory(ctx, inode_size, \"scratch inode\")); inode size 128 (revision 0) or s_inode_size in {128, 256, 512, 1024}",
	     "the inode's bytes, including i_extra_isize, are ARBITRARY: pass 1 asks about an illegal i_extra_isize (PR_1_EXTRA_ISIZE) but under e2fsck -n the value stays as it is",
	     "fix_problem, e2fsck_read_inode_full, e2fsck_clear_inode, e2fsck_reconnect_file, e2fsck_read_bitmaps, ext2fs_inode_alloc_stats2, quota_data_inodes are stubs recording their calls",
	     "no frame enforcement"],
 "backend": "cadical",
 "native": false
}
*/
/*
 * e2fsck/pass4.c:disconnect_inode — what pass 4 does with an in-use inode that no directory entry references.
 *
 * Statement (C02: "every in-use inode is reachable from the root" — an image that violates it makes e2fsck -fn exit
 * non-zero; C01: accepted repairs leave nothing behind).  For an unattached inode, exactly one of:
 *   (a) zero-length regular file / directory without in-inode EA, PR_4_ZERO_LEN_INODE accepted: the inode is cleared and
 *       its allocation dropped (inode_alloc_stats2(-1));
 *   (b) PR_4_UNATTACHED_INODE accepted: e2fsck_reconnect_file is called; if it fails the filesystem is un-marked valid;
 *   (c) PR_4_UNATTACHED_INODE declined: the filesystem is un-marked valid (=> FSCK_UNCORRECTED) and 1 is returned.
 * In every case PR_4_UNATTACHED_INODE or (accepted) PR_4_ZERO_LEN_INODE is raised: the inode is never silently skipped.
 * Memory safety (checked by CBMC's pointer checks): the inode buffer is not read outside its EXT2_INODE_SIZE bytes.
 */
#include "verif.h"

#define DI_NCHOICE 8u
struct in_di {
	unsigned char raw[1024];	/* the on-disk inode */
	unsigned int rev_level;
	unsigned short inode_size;
	unsigned int ino, last_ino;
	unsigned int fsflags;
	unsigned char reconnect_fails;
	unsigned char choice[DI_NCHOICE];
};
struct in_di IN;
#include "verif_in.h"

#define _GNU_SOURCE 1
#include "config.h"
#include <string.h>

#include "e2fsck/pass4.c"

unsigned int di_nchoice;
unsigned int di_zero_asked, di_unatt_asked; int di_zero_ans, di_unatt_ans;
unsigned int di_cleared, di_reconnected, di_stats, di_read;
int di_stats_inuse;
unsigned int di_isize;

static unsigned char di_next(void)
{
	if (di_nchoice < DI_NCHOICE)
		return IN.choice[di_nchoice++];
	return 0;
}

int fix_problem(e2fsck_t ctx, problem_t code, struct problem_context *pctx)
{
	int a = di_next() & 1;

	(void) ctx; (void) pctx;
	if (code == PR_4_ZERO_LEN_INODE) { di_zero_asked++; di_zero_ans = a; }
	if (code == PR_4_UNATTACHED_INODE) { di_unatt_asked++; di_unatt_ans = a; }
	return a;
}
void clear_problem_context(struct problem_context *pctx)
{
	memset(pctx, 0, sizeof(*pctx));
	pctx->blkcount = -1;
	pctx->group = -1;
}
void e2fsck_read_inode_full(e2fsck_t ctx, unsigned long ino, struct ext2_inode *inode, int bufsize, const char *proc)
{
	(void) ctx; (void) ino; (void) proc;
	di_read++;
	CHECK(bufsize == (int) di_isize, "the inode is read with the filesystem's inode size");
	memcpy(inode, IN.raw, bufsize);
}
void e2fsck_clear_inode(e2fsck_t ctx, ext2_ino_t ino, struct ext2_inode *inode, int restart_flag, const char *source)
{
	(void) ctx; (void) ino; (void) inode; (void) restart_flag; (void) source;
	di_cleared++;
}
void e2fsck_read_bitmaps(e2fsck_t ctx) { (void) ctx; }
void ext2fs_inode_alloc_stats2(ext2_filsys fs, ext2_ino_t ino, int inuse, int isdir)
{
	(void) fs; (void) ino; (void) isdir;
	di_stats++;
	di_stats_inuse = inuse;
}
void quota_data_inodes(quota_ctx_t qctx, struct ext2_inode_large *inode, ext2_ino_t ino, int adjust)
{
	(void) qctx; (void) inode; (void) ino; (void) adjust;
}
int e2fsck_reconnect_file(e2fsck_t ctx, ext2_ino_t ino)
{
	(void) ctx; (void) ino;
	di_reconnected++;
	return IN.reconnect_fails ? 1 : 0;
}

void h_disconnect(void)
{
	e2fsck_t ctx = malloc(sizeof(*ctx));
	ext2_filsys fs = malloc(sizeof(*fs));
	struct ext2_super_block *sb = malloc(sizeof(*sb));
	struct ext2_inode_large *inode;
	ext2_ino_t last;
	int r;

	LOAD_IN();
	ASSUME(ctx && fs && sb);
	memset(sb, 0, sizeof(*sb));
	ctx->fs = fs;
	ctx->qctx = 0;
	fs->super = sb;
	fs->flags = IN.fsflags;
	sb->s_rev_level = IN.rev_level;
	ASSUME(IN.inode_size == 128 || IN.inode_size == 256 || IN.inode_size == 512 || IN.inode_size == 1024);
	sb->s_inode_size = IN.inode_size;
	di_isize = EXT2_INODE_SIZE(sb);
	inode = malloc(di_isize);		/* pass4.c: e2fsck_allocate_memory(ctx, inode_size, "scratch inode") */
	ASSUME(inode != 0);
	memcpy(inode, IN.raw, di_isize);	/* last_ino == i: the buffer already holds this inode */
	ASSUME(IN.ino != 0);
	last = IN.last_ino;
	di_nchoice = di_zero_asked = di_unatt_asked = di_cleared = di_reconnected = di_stats = di_read = 0;

	r = disconnect_inode(ctx, IN.ino, &last, inode);

	CHECK(di_read == (IN.last_ino != IN.ino), "the inode is (re)read unless it is the one already in the buffer");
	CHECK(r == 0 || r == 1, "result is a flag");
	if (di_cleared) {
		REACH("(a) cleared");
		CHECK(di_zero_asked == 1 && di_zero_ans && di_stats == 1 && di_stats_inuse == -1 && di_unatt_asked == 0 && r == 0,
		      "(a) cleared only after PR_4_ZERO_LEN_INODE was accepted; its allocation is dropped");
	} else {
		CHECK(di_unatt_asked == 1, "not cleared: PR_4_UNATTACHED_INODE is raised, exactly once — the inode is never silently skipped");
		if (di_unatt_ans) {
			REACH("(b) reconnect");
			CHECK(di_reconnected == 1 && r == 0 && last == 0, "(b) accepted: reconnected to lost+found");
			CHECK(!IN.reconnect_fails || !(fs->flags & EXT2_FLAG_VALID), "(b) reconnect failed: filesystem un-marked valid");
		} else {
			REACH("(c) declined");
			CHECK(di_reconnected == 0 && r == 1 && !(fs->flags & EXT2_FLAG_VALID),
			      "(c) declined: filesystem un-marked valid, caller told to skip the link-count test");
		}
	}
	CHECK(di_zero_asked <= 1 && (!di_zero_asked || di_zero_ans == (di_cleared != 0)), "zero-length question at most once");
	REACH("end");
}
