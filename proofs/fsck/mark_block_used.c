/* VERIF-UNIT
{
 "name": "mark_block_used_owner",
 "props": ["C02"],
 "level": "U",
 "tier": "quick",
 "harness": "h_mark_block_used",
 "includes": ["e2fsck", "lib/support"],
 "unwind": 3,
 "unwind_reason": "mark_block_used is loop-free",
 "functions": ["e2fsck/pass1.c:mark_block_used"],
 "assumes": ["the two pass-1 block bitmaps are abstract sets of block numbers: ext2fs_test_generic_bmap / ext2fs_mark_generic_bmap (the C16 units prove the bitmap back ends behave as sets) are stubs over ghost membership cells for the block passed in and for one arbitrary other block k",
	     "e2fsck_allocate_block_bitmap (util.c) either hands out the dup map or fails; fix_problem is a stub",
	     "no frame enforcement (pass1.c is a 4500-line TU): CHECKs in the harness"],
 "backend": "cadical",
 "native": false
}
*/
/*
 * e2fsck/pass1.c:mark_block_used — how pass 1 records that an inode claims a block.
 *
 * Statement (C02: "every referenced block ... has a single owner"; the mechanism named by the property: "pass 1 visits
 * every inode and every block it maps, recording owners in block_found_map / block_dup_map"):
 *     afterwards the block is in block_found_map;
 *     if it was there already (a second claim), it is afterwards in block_dup_map — unless the filesystem has the
 *     shared_blocks feature and e2fsck was not asked to unshare (then sharing is legal), or the dup map could not be
 *     allocated (then E2F_FLAG_ABORT is set);
 *     a first claim does not touch block_dup_map; no other block's membership changes in either map.
 */
#include "verif.h"

struct in_mb {
	unsigned long long b, k;		/* the block claimed; an arbitrary other block ("for every block") */
	unsigned char b_found, b_dup, k_found, k_dup;	/* memberships before */
	unsigned char have_dup_map, alloc_fails;
	unsigned int options, ctxflags, ro_compat;
};
struct in_mb IN;
#include "verif_in.h"

#define _GNU_SOURCE 1
#include "config.h"
#include <string.h>
#include <stdio.h>
#define printf(...) ((void) 0)		/* debug printing only; see fp_common.h for why the variadic model is avoided */
#include "e2fsck/pass1.c"
#undef printf

static char mb_found_tag, mb_dup_tag;
unsigned char mb_in[2][2];	/* [map: 0 found, 1 dup][cell: 0 = block b, 1 = block k] */
unsigned int mb_marks, mb_alloc_calls, mb_problems;
unsigned char mb_stray;		/* a bitmap operation on an unknown handle */

static int mb_map(const void *h)
{
	if (h == (const void *) &mb_found_tag) return 0;
	if (h == (const void *) &mb_dup_tag) return 1;
	mb_stray = 1;
	return 0;
}
static int mb_cell(unsigned long long blk)
{
	if (blk == IN.b) return 0;
	if (blk == IN.k) return 1;
	mb_stray = 1;		/* the function must not touch any third block */
	return 1;
}
int ext2fs_test_generic_bmap(ext2fs_generic_bitmap bitmap, __u64 arg)
{
	return mb_in[mb_map(bitmap)][mb_cell(arg)];
}
int ext2fs_mark_generic_bmap(ext2fs_generic_bitmap bitmap, __u64 arg)
{
	int m = mb_map(bitmap), c = mb_cell(arg), old = mb_in[m][c];

	mb_marks++;
	mb_in[m][c] = 1;
	if (IN.b == IN.k)
		mb_in[m][1 - c] = 1;
	return old;
}
errcode_t e2fsck_allocate_block_bitmap(ext2_filsys fs, const char *descr, int default_type, const char *profile_name,
				       ext2fs_block_bitmap *ret)
{
	(void) fs; (void) descr; (void) default_type; (void) profile_name;
	mb_alloc_calls++;
	if (IN.alloc_fails)
		return EXT2_ET_NO_MEMORY;
	*ret = (ext2fs_block_bitmap) &mb_dup_tag;
	return 0;
}
int fix_problem(e2fsck_t ctx, problem_t code, struct problem_context *pctx)
{
	(void) ctx; (void) code; (void) pctx;
	mb_problems++;
	return 0;
}
void clear_problem_context(struct problem_context *pctx)
{
	memset(pctx, 0, sizeof(*pctx));
	pctx->blkcount = -1;
	pctx->group = -1;
}
char *gettext(const char *msgid) { return (char *) msgid; }

void h_mark_block_used(void)
{
	e2fsck_t ctx = malloc(sizeof(*ctx));
	ext2_filsys fs = malloc(sizeof(*fs));
	struct ext2_super_block *sb = malloc(sizeof(*sb));
	int sharing_ok, second;

	LOAD_IN();
	ASSUME(ctx && fs && sb);
	memset(sb, 0, sizeof(*sb));
	ctx->fs = fs;
	fs->super = sb;
	sb->s_feature_ro_compat = IN.ro_compat;
	ctx->options = IN.options;
	ctx->flags = IN.ctxflags;
	ctx->block_found_map = (ext2fs_block_bitmap) &mb_found_tag;
	ctx->block_dup_map = IN.have_dup_map ? (ext2fs_block_bitmap) &mb_dup_tag : 0;
	mb_in[0][0] = IN.b_found & 1; mb_in[1][0] = IN.b_dup & 1;
	mb_in[0][1] = IN.k_found & 1; mb_in[1][1] = IN.k_dup & 1;
	if (IN.b == IN.k) { mb_in[0][1] = mb_in[0][0]; mb_in[1][1] = mb_in[1][0]; }
	ASSUME(IN.have_dup_map || (!mb_in[1][0] && !mb_in[1][1]));	/* no dup map yet: nothing is in it */
	mb_marks = mb_alloc_calls = mb_problems = 0;
	mb_stray = 0;
	second = mb_in[0][0];
	sharing_ok = (IN.ro_compat & EXT4_FEATURE_RO_COMPAT_SHARED_BLOCKS) && !(IN.options & E2F_OPT_UNSHARE_BLOCKS);

	mark_block_used(ctx, IN.b);

	CHECK(!mb_stray, "only the two pass-1 maps and only the claimed block are touched");
	CHECK(mb_in[0][0], "the claimed block is in block_found_map afterwards");
	if (second && !sharing_ok) {
		REACH("second claim");
		if (!IN.have_dup_map && IN.alloc_fails) {
			CHECK((ctx->flags & E2F_FLAG_ABORT) && mb_problems == 1, "dup map cannot be allocated: reported, run aborted");
		} else {
			CHECK(mb_in[1][0], "a second claim of a block puts it into block_dup_map (multiply-claimed, resolved by pass 1B-1D)");
			CHECK(ctx->block_dup_map == (ext2fs_block_bitmap) &mb_dup_tag, "the dup map exists afterwards");
		}
	} else {
		REACH("first claim or legal sharing");
		CHECK(mb_in[1][0] == (IN.b_dup & 1) || (IN.b == IN.k), "block_dup_map is not touched");
		CHECK(mb_alloc_calls == 0, "no dup map is allocated for it");
	}
	if (IN.b != IN.k) {
		REACH("other block");
		CHECK(mb_in[0][1] == (IN.k_found & 1) && mb_in[1][1] == (IN.k_dup & 1), "no other block's membership changes");
	}
	CHECK(mb_marks == 1 || (mb_marks == 0 && second), "exactly one bit is set (none for legal sharing / failed allocation)");
	REACH("end");
}
