/* VERIF-UNIT
{
 "name": "pass5_inode_group_counts",
 "props": ["C02", "C01", "C05"],
 "level": "U/iter",
 "tier": "quick",
 "harness": "h_p5_inodes",
 "loop_contracts": true,
 "includes": ["e2fsck", "lib/support"],
 "unwind": 3,
 "unwind_reason": "the per-group comparison loop of check_inode_bitmaps is closed by an in-place loop contract (anchor VERIF_INV_PASS5_IB_GROUPS, text below) whose invariant is pointwise at a ghost group p5_k; the bitmap scan loop runs over the ONE inode of the harness's filesystem (see assumes) and the `goto redo_counts` back edge is not taken (see assumes); unwinding assertions on",
 "functions": ["e2fsck/pass5.c:check_inode_bitmaps"],
 "assumes": ["no frame enforcement (check_inode_bitmaps is not under --enforce-contract): the statement is carried by the loop invariant of the comparison loop (checked: base, step) and restated as harness CHECKs",
	     "the bitmap scan loop (first loop of the function) is NOT what this unit is about: it is run for real on a filesystem of one inode (s_inodes_count = s_inodes_per_group = 1) only so that the counted total is not a constant (0 or 1); fs->group_desc_count stays arbitrary in 1 .. 2^30-1 and the counted arrays have ARBITRARY contents in every group but 0 (the allocation stub hands out arbitrary memory, an over-approximation of zeroed memory), so the comparison loop is verified for an arbitrary group from an arbitrary outcome of the scan",
	     "group descriptors are an abstract map group -> (bg_free_inodes_count, bg_used_dirs_count): ext2fs_bg_*_count / _set (lib/ext2fs/blknum.c) are stubs that keep the values of the ghost group p5_k in ghost variables and return arbitrary values for other groups",
	     "fix_problem is a stub answering from IN.choice[] and recording the reports that concern group p5_k; end_problem_latch (the answer to 'fix the bitmap differences?') returns -1 or 0, never 1: the repair-and-recount path (copy the computed bitmap, memset the counted arrays, goto redo_counts) is not exercised — it precedes the comparisons this unit is about, and its whole-array assignments make CBMC's JSON counterexample traces take minutes; bitmap handles are opaque, bit tests answer arbitrarily",
	     "e2fsck is not run with -E discard (E2F_OPT_DISCARD off): the discard helpers return at once",
	     "needs the hooks of hooks-pending/fsck.diff (named anchors in e2fsck/pass5.c)"],
 "backend": "cadical",
 "native": false
}
*/
/* VERIF-UNIT
{
 "name": "pass5_block_group_counts",
 "props": ["C02", "C01", "C05"],
 "level": "U/iter",
 "tier": "quick",
 "harness": "h_p5_blocks",
 "loop_contracts": true,
 "includes": ["e2fsck", "lib/support"],
 "unwind": 3,
 "unwind_reason": "as pass5_inode_group_counts, for check_block_bitmaps (anchor VERIF_INV_PASS5_BB_GROUPS); the scan loop runs over the one cluster of the harness's filesystem",
 "functions": ["e2fsck/pass5.c:check_block_bitmaps"],
 "assumes": ["as pass5_inode_group_counts; the scan loop runs on a filesystem of one cluster (blocks_count = 1 << cluster_ratio_bits, first data block 0, s_clusters_per_group = 1); the counted total is 0 or one cluster",
	     "cluster ratio: fs->cluster_ratio_bits <= 20 (EXT2FS_C2B is a shift by it)"],
 "backend": "cadical",
 "native": false
}
*/
/*
 * e2fsck/pass5.c, check_inode_bitmaps / check_block_bitmaps: the comparison of the counted per-group values with the
 * group descriptors, and of the totals with the superblock.
 *
 * Statement (C02: "block/inode bitmaps and per-group counts equal actual usage ... an image that violates one of these
 * invariants always makes e2fsck -fn exit non-zero"; C01: after an accepted repair the descriptor holds the counted
 * value; C05: a group whose descriptor agrees is neither reported nor written).  For an ARBITRARY group k and arbitrary
 * counted values, each of the comparisons independently of the others:
 *     counted free inodes of k != bg_free_inodes_count(k)  <==>  fix_problem(PR_5_FREE_INODE_COUNT_GROUP) is called,
 *         once, with pctx.group = k, pctx.ino = the descriptor's value, pctx.ino2 = the counted value;
 *         answered yes: the descriptor is set to the counted value and the superblock marked dirty;
 *         answered no: the filesystem is un-marked valid;   not reported: the descriptor is not written.
 *     likewise counted directories vs bg_used_dirs_count (PR_5_FREE_DIR_COUNT_GROUP) and, in check_block_bitmaps,
 *     counted free clusters vs bg_free_blocks_count (PR_5_FREE_BLOCK_COUNT_GROUP).
 *   totals: counted total != superblock value <==> PR_5_FREE_INODE_COUNT / PR_5_FREE_BLOCK_COUNT raised; yes: stored.
 */
#include "verif.h"

#define P5_NCHOICE 16u
#define P5_MAXGROUPS 0x3fffffffu
struct in_p5 {
	unsigned int k;			/* ghost group */
	unsigned int groups;		/* fs->group_desc_count */
	unsigned int d_free, d_dirs;	/* descriptor values of group k */
	unsigned int other[4];		/* descriptor values handed out for groups other than k */
	unsigned int sb_free_inodes;
	unsigned long long sb_free_blocks;
	unsigned long long bm_start[2], bm_end[2];
	unsigned int ctxflags, options, fsflags;
	unsigned char ratio_bits;
	signed char latch_answer;
	unsigned char choice[P5_NCHOICE];
};
struct in_p5 IN;
#include "verif_in.h"

#define _GNU_SOURCE 1
#include "config.h"
#include <string.h>
#include "e2fsck.h"

/* ---- ghost state ---- */
unsigned int p5_k;			/* the ghost group */
const unsigned int *p5_arr[3];		/* the arrays e2fsck_allocate_memory handed out, in order */
unsigned int p5_nalloc;
unsigned int p5_dfree, p5_ddirs;	/* descriptor of group k: free inodes (or free blocks) / used dirs */
unsigned int p5_nchoice;
/* monitors for the comparison "free" (index 0) and "dirs" (index 1) of group k */
unsigned char p5_seen[2];		/* the descriptor value of group k was read */
unsigned char p5_mis[2];		/* ... and differed from the counted value at that moment */
unsigned int p5_rep[2];			/* number of reports for group k */
unsigned char p5_rep_ok[2];		/* the report carried group, descriptor value, counted value */
unsigned char p5_ans[2];		/* the answer it got */
unsigned int p5_sets[2];		/* number of descriptor writes for group k */
/* totals */
unsigned char p5_at_totals;
unsigned long long p5_total;
unsigned int p5_rep_total;
unsigned char p5_rep_total_ok, p5_ans_total;
unsigned long long p5_blocks_count;	/* what the ext2fs_blocks_count stub returns */

#define P5_GHOSTS p5_dfree, p5_ddirs, p5_nchoice, __CPROVER_object_whole(p5_seen), __CPROVER_object_whole(p5_mis), \
		  __CPROVER_object_whole(p5_rep), __CPROVER_object_whole(p5_rep_ok), __CPROVER_object_whole(p5_ans), \
		  __CPROVER_object_whole(p5_sets), p5_rep_total, p5_rep_total_ok, p5_ans_total

/* what has been established about comparison c of group k once the loop has passed k; CNT = the counted array,
 * D = the ghost descriptor value, D0 = its value before the function */
#define P5_DONE(c, CNT, D, D0) \
	(p5_seen[c] && (p5_mis[c] ? (p5_rep[c] == 1 && p5_rep_ok[c]) : p5_rep[c] == 0) && \
	 (p5_rep[c] == 0 ? (p5_sets[c] == 0 && (D) == (D0)) : \
	  p5_ans[c] ? (p5_sets[c] == 1 && (D) == (CNT)[p5_k] && (fs->flags & EXT2_FLAG_DIRTY) != 0) : \
		      (p5_sets[c] == 0 && (D) == (D0) && !(fs->flags & EXT2_FLAG_VALID))))
#define P5_NOT_YET(c) (!p5_seen[c] && p5_rep[c] == 0 && p5_sets[c] == 0)

/* ---- loop contracts of the named anchors in e2fsck/pass5.c ---- */
/* comparison loops */
#define VERIF_INV_PASS5_IB_GROUPS \
	__CPROVER_assigns(i, pctx, fs->flags, P5_GHOSTS) \
	__CPROVER_loop_invariant(i <= fs->group_desc_count) \
	__CPROVER_loop_invariant(p5_rep_total == 0) \
	__CPROVER_loop_invariant(i > p5_k ? P5_DONE(0, free_array, p5_dfree, IN.d_free) : P5_NOT_YET(0)) \
	__CPROVER_loop_invariant(i > p5_k ? P5_DONE(1, dir_array, p5_ddirs, IN.d_dirs) : P5_NOT_YET(1)) \
	__CPROVER_loop_invariant(i <= p5_k ==> p5_dfree == IN.d_free && p5_ddirs == IN.d_dirs) \
	__CPROVER_decreases(fs->group_desc_count - i)
#define VERIF_INV_PASS5_BB_GROUPS \
	__CPROVER_assigns(g, pctx, fs->flags, P5_GHOSTS) \
	__CPROVER_loop_invariant(g <= fs->group_desc_count) \
	__CPROVER_loop_invariant(p5_rep_total == 0) \
	__CPROVER_loop_invariant(g > p5_k ? P5_DONE(0, free_array, p5_dfree, IN.d_free) : P5_NOT_YET(0)) \
	__CPROVER_loop_invariant(g <= p5_k ==> p5_dfree == IN.d_free) \
	__CPROVER_decreases(fs->group_desc_count - g)
/* ghost statements in front of the totals comparison */
#define VERIF_MON_PASS5_IB_TOTALS { p5_at_totals = 1; p5_total = free_inodes; }
#define VERIF_MON_PASS5_BB_TOTALS { p5_at_totals = 1; p5_total = free_blocks; }

/* e2fsck_discard_inodes (called from the scan loop) prints a "PROGRAMMING ERROR" line with printf: goto-instrument's
 * inliner (used for loops under contract) cannot inline CBMC's variadic printf model; printing has no effect on the state */
#include <stdio.h>
#define printf(...) ((void) 0)
#include "e2fsck/pass5.c"
#undef printf

/* ---- stubs ---- */
static unsigned char p5_next(void)
{
	if (p5_nchoice < P5_NCHOICE)
		return IN.choice[p5_nchoice++];
	return 0;
}

void *e2fsck_allocate_memory(e2fsck_t ctx, unsigned long size, const char *description)
{
	void *p = malloc(size);		/* contents arbitrary: over-approximates ext2fs_get_memzero */

	(void) ctx; (void) description;
	ASSUME(p != 0);			/* the real one ends the process when out of memory */
	if (p5_nalloc < 3)
		p5_arr[p5_nalloc] = p;
	p5_nalloc++;
	return p;
}

void clear_problem_context(struct problem_context *pctx)
{
	memset(pctx, 0, sizeof(*pctx));
	pctx->blkcount = -1;
	pctx->group = -1;
}

static int p5_mode;		/* 0: inode harness (arrays: free, dirs); 1: block harness (arrays: actual_buf, bitmap_buf, free) */
#define P5_FREE_ARR (p5_arr[p5_mode ? 2 : 0])
#define P5_DIR_ARR (p5_arr[1])

static void p5_report(int c, struct problem_context *pctx, unsigned long long shown, unsigned long long counted,
		      unsigned int desc, const unsigned int *arr, int answer)
{
	if (pctx->group != p5_k)
		return;
	p5_rep[c]++;
	p5_rep_ok[c] = shown == desc && counted == arr[p5_k];
	p5_ans[c] = answer;
}

int fix_problem(e2fsck_t ctx, problem_t code, struct problem_context *pctx)
{
	int answer = p5_next() & 1;

	(void) ctx;
	if (code == PR_5_FREE_INODE_COUNT_GROUP)
		p5_report(0, pctx, pctx->ino, pctx->ino2, p5_dfree, P5_FREE_ARR, answer);
	else if (code == PR_5_FREE_DIR_COUNT_GROUP)
		p5_report(1, pctx, pctx->ino, pctx->ino2, p5_ddirs, P5_DIR_ARR, answer);
	else if (code == PR_5_FREE_BLOCK_COUNT_GROUP)
		p5_report(0, pctx, pctx->blk, pctx->blk2, p5_dfree, P5_FREE_ARR, answer);
	else if (code == PR_5_FREE_INODE_COUNT) {
		p5_rep_total++;
		p5_rep_total_ok = pctx->ino == IN.sb_free_inodes && pctx->ino2 == p5_total;
		p5_ans_total = answer;
	} else if (code == PR_5_FREE_BLOCK_COUNT) {
		p5_rep_total++;
		p5_rep_total_ok = pctx->blk == IN.sb_free_blocks && pctx->blk2 == p5_total;
		p5_ans_total = answer;
	}
	return answer;
}

int end_problem_latch(e2fsck_t ctx, int mask)
{
	(void) ctx; (void) mask;
	return IN.latch_answer < 0 ? -1 : 0;	/* never "yes": see assumes */
}

/* group descriptors: abstract map, exact for group k */
static __u32 p5_get(int c, dgrp_t group, unsigned int desc, const unsigned int *arr)
{
	if (group != p5_k)
		return IN.other[group & 3];
	p5_seen[c] = 1;
	p5_mis[c] = arr[p5_k] != desc;
	return desc;
}
__u32 ext2fs_bg_free_inodes_count(ext2_filsys fs, dgrp_t group)
{
	(void) fs;
	return p5_get(0, group, p5_dfree, P5_FREE_ARR);
}
__u32 ext2fs_bg_used_dirs_count(ext2_filsys fs, dgrp_t group)
{
	(void) fs;
	return p5_get(1, group, p5_ddirs, P5_DIR_ARR);
}
__u32 ext2fs_bg_free_blocks_count(ext2_filsys fs, dgrp_t group)
{
	(void) fs;
	return p5_get(0, group, p5_dfree, P5_FREE_ARR);
}
void ext2fs_bg_free_inodes_count_set(ext2_filsys fs, dgrp_t group, __u32 n)
{
	(void) fs;
	if (group == p5_k) { p5_dfree = n; p5_sets[0]++; }
}
void ext2fs_bg_used_dirs_count_set(ext2_filsys fs, dgrp_t group, __u32 n)
{
	(void) fs;
	if (group == p5_k) { p5_ddirs = n; p5_sets[1]++; }
}
void ext2fs_bg_free_blocks_count_set(ext2_filsys fs, dgrp_t group, __u32 n)
{
	(void) fs;
	if (group == p5_k) { p5_dfree = n; p5_sets[0]++; }
}
int ext2fs_bg_flags_test(ext2_filsys fs, dgrp_t group, __u16 bg_flag)
{
	(void) fs; (void) group; (void) bg_flag;
	return p5_next() & 1;
}
void ext2fs_bg_flags_clear(ext2_filsys fs, dgrp_t group, __u16 bg_flags) { (void) fs; (void) group; (void) bg_flags; }
void ext2fs_bg_flags_set(ext2_filsys fs, dgrp_t group, __u16 bg_flags) { (void) fs; (void) group; (void) bg_flags; }
void ext2fs_group_desc_csum_set(ext2_filsys fs, dgrp_t group) { (void) fs; (void) group; }

/* superblock 64-bit accessors (lib/ext2fs/blknum.c) */
blk64_t ext2fs_blocks_count(struct ext2_super_block *super)
{
	(void) super;
	return p5_blocks_count;
}
static unsigned long long p5_sb_free_blocks;
blk64_t ext2fs_free_blocks_count(struct ext2_super_block *super)
{
	(void) super;
	return p5_sb_free_blocks;
}
void ext2fs_free_blocks_count_set(struct ext2_super_block *super, blk64_t blk)
{
	(void) super;
	p5_sb_free_blocks = blk;
}

/* bitmaps: opaque */
static char p5_tag[4];
__u64 ext2fs_get_generic_bmap_start(ext2fs_generic_bitmap bitmap)
{
	return IN.bm_start[(void *) bitmap == (void *) &p5_tag[0] ? 0 : 1];
}
__u64 ext2fs_get_generic_bmap_end(ext2fs_generic_bitmap bitmap)
{
	return IN.bm_end[(void *) bitmap == (void *) &p5_tag[0] ? 0 : 1];
}
int ext2fs_test_generic_bmap(ext2fs_generic_bitmap bitmap, __u64 arg) { (void) bitmap; (void) arg; return p5_next() & 1; }
int ext2fs_test_inode_bitmap_range(ext2fs_inode_bitmap bitmap, ext2_ino_t inode, int num)
{
	(void) bitmap; (void) inode; (void) num;
	return p5_next() & 1;
}
errcode_t ext2fs_get_generic_bmap_range(ext2fs_generic_bitmap bmap, __u64 start, unsigned int num, void *out)
{
	(void) bmap; (void) start; (void) num; (void) out;
	return 1;
}
errcode_t ext2fs_get_block_bitmap_range2(ext2fs_block_bitmap bmap, blk64_t start, size_t num, void *out)
{
	(void) bmap; (void) start; (void) num; (void) out;
	return 1;		/* "cannot extract the range": check_block_bitmaps then compares bit by bit */
}
errcode_t io_channel_discard(io_channel channel, unsigned long long block, unsigned long long count)
{
	(void) channel; (void) block; (void) count;
	return 1;
}
void ext2fs_free_inode_bitmap(ext2fs_inode_bitmap bitmap) { (void) bitmap; }
void ext2fs_free_block_bitmap(ext2fs_block_bitmap bitmap) { (void) bitmap; }
errcode_t ext2fs_copy_bitmap(ext2fs_generic_bitmap src, ext2fs_generic_bitmap *dest)
{
	*dest = src;
	return p5_next() & 1;
}
void ext2fs_set_bitmap_padding(ext2fs_generic_bitmap map) { (void) map; }
unsigned int ext2fs_bitcount(const void *addr, unsigned int nbytes) { (void) addr; (void) nbytes; return 0; }

/* ---- the world ---- */
struct p5_world {
	e2fsck_t ctx;
	ext2_filsys fs;
	struct ext2_super_block *sb;
};

static void p5_setup(struct p5_world *w, int mode)
{
	w->ctx = malloc(sizeof(*w->ctx));
	w->fs = malloc(sizeof(*w->fs));
	w->sb = malloc(sizeof(*w->sb));
	ASSUME(w->ctx && w->fs && w->sb);
	memset(w->sb, 0, sizeof(*w->sb));
	w->ctx->fs = w->fs;
	w->ctx->flags = IN.ctxflags;
	ASSUME(!(IN.options & E2F_OPT_DISCARD));	/* not run with -E discard (no I/O channel in this world) */
	w->ctx->options = IN.options;
	w->ctx->progress = 0;
	w->ctx->inode_used_map = (ext2fs_inode_bitmap) &p5_tag[0];
	w->ctx->inode_dir_map = (ext2fs_inode_bitmap) &p5_tag[2];
	w->ctx->block_found_map = (ext2fs_block_bitmap) &p5_tag[0];
	w->fs->super = w->sb;
	w->fs->flags = IN.fsflags;
	w->fs->inode_map = (ext2fs_inode_bitmap) &p5_tag[1];
	w->fs->block_map = (ext2fs_block_bitmap) &p5_tag[1];
	w->fs->io = 0;
	w->fs->blocksize = 1024;
	ASSUME(IN.groups >= 1 && IN.groups <= P5_MAXGROUPS);	/* cap: see assumes */
	w->fs->group_desc_count = IN.groups;
	ASSUME(IN.ratio_bits <= 20);
	w->fs->cluster_ratio_bits = IN.ratio_bits;
	w->sb->s_inodes_per_group = 1;
	w->sb->s_clusters_per_group = 1;
	w->sb->s_inodes_count = 1;			/* the scan loops see one inode / one cluster (see assumes) */
	w->sb->s_free_inodes_count = IN.sb_free_inodes;
	w->sb->s_feature_ro_compat = IN.options & 1 ? EXT4_FEATURE_RO_COMPAT_GDT_CSUM : 0;
	p5_blocks_count = 1ull << IN.ratio_bits;
	p5_sb_free_blocks = IN.sb_free_blocks;
	p5_mode = mode;
	ASSUME(IN.k < IN.groups);
	p5_k = IN.k;
	p5_dfree = IN.d_free;
	p5_ddirs = IN.d_dirs;
	p5_nalloc = 0;
	p5_nchoice = 0;
	p5_at_totals = 0;
	p5_rep_total = 0;
	memset(p5_seen, 0, sizeof(p5_seen));
	memset(p5_mis, 0, sizeof(p5_mis));
	memset(p5_rep, 0, sizeof(p5_rep));
	memset(p5_sets, 0, sizeof(p5_sets));
}

/* restatement of P5_DONE for the harness (the counted arrays are freed by the function: the monitors carry what the
 * statement needs) */
static void p5_check(struct p5_world *w, int c, unsigned int d_now, unsigned int d0)
{
	CHECK(p5_seen[c], "the descriptor value of group k is compared");
	CHECK(p5_mis[c] ? p5_rep[c] == 1 : p5_rep[c] == 0,
	      "counted != descriptor <==> the problem is raised for group k (exactly once), whatever the other comparisons give");
	if (p5_mis[c]) {
		REACH("mismatch");
		CHECK(p5_rep_ok[c], "the report names group k, the descriptor's value and the counted value");
		if (p5_ans[c]) {
			CHECK(p5_sets[c] == 1 && (w->fs->flags & EXT2_FLAG_DIRTY), "accepted: descriptor written once, superblock marked dirty");
		} else {
			CHECK(p5_sets[c] == 0 && d_now == d0, "declined: descriptor not written");
			CHECK(!(w->fs->flags & EXT2_FLAG_VALID), "declined: filesystem un-marked valid");
		}
	} else {
		REACH("match");
		CHECK(p5_sets[c] == 0 && d_now == d0, "a matching descriptor value is not written");
	}
}

void h_p5_inodes(void)
{
	struct p5_world w;

	LOAD_IN();
	p5_setup(&w, 0);
	check_inode_bitmaps(w.ctx);
	if (p5_at_totals) {
		REACH("reached the comparisons");
		p5_check(&w, 0, p5_dfree, IN.d_free);
		p5_check(&w, 1, p5_ddirs, IN.d_dirs);
		if (p5_total > IN.sb_free_inodes) REACH("counted total above the superblock value");
		CHECK((p5_total != IN.sb_free_inodes) == (p5_rep_total == 1) && p5_rep_total <= 1,
		      "counted total != s_free_inodes_count <==> PR_5_FREE_INODE_COUNT raised");
		if (p5_rep_total) {
			REACH("total mismatch");
			CHECK(p5_rep_total_ok, "the report carries the superblock's value and the counted total");
			CHECK(w.sb->s_free_inodes_count == (p5_ans_total ? (unsigned int) p5_total : IN.sb_free_inodes),
			      "accepted: the counted total is stored; declined: unchanged");
		} else
			CHECK(w.sb->s_free_inodes_count == IN.sb_free_inodes, "matching total: not written");
	} else {
		REACH("bitmap end points wrong or copy failed");
		CHECK(w.ctx->flags & E2F_FLAG_ABORT, "early exit only with E2F_FLAG_ABORT");
	}
	REACH("end");
}

void h_p5_blocks(void)
{
	struct p5_world w;

	LOAD_IN();
	p5_setup(&w, 1);
	check_block_bitmaps(w.ctx);
	if (p5_at_totals) {
		REACH("reached the comparisons");
		p5_check(&w, 0, p5_dfree, IN.d_free);
		CHECK((p5_total != IN.sb_free_blocks) == (p5_rep_total == 1) && p5_rep_total <= 1,
		      "counted total (in blocks) != s_free_blocks_count <==> PR_5_FREE_BLOCK_COUNT raised");
		if (p5_rep_total) {
			REACH("total mismatch");
			CHECK(p5_rep_total_ok, "the report carries the superblock's value and the counted total");
			CHECK(p5_sb_free_blocks == (p5_ans_total ? p5_total : IN.sb_free_blocks),
			      "accepted: the counted total is stored; declined: unchanged");
		} else
			CHECK(p5_sb_free_blocks == IN.sb_free_blocks, "matching total: not written");
	} else {
		REACH("bitmap end points wrong or copy failed");
		CHECK(w.ctx->flags & E2F_FLAG_ABORT, "early exit only with E2F_FLAG_ABORT");
	}
	REACH("end");
}
