/* VERIF-UNIT
{
 "name": "fix_problem_verdict",
 "props": ["C01", "C02"],
 "level": "U/k",
 "tier": "wip",
 "harness": "h_fp_verdict",
 "includes": ["e2fsck", "lib/support"],
 "static_keep": ["problem_table", "pr_latch_info", "prompt"],
 "unwind": 13,
 "cbmc_flags": ["--unwindset", "fp_setup.0:450,fp_setup.1:16,find_latch.0:13,find_problem.0:450,h_fp_verdict.0:450,fix_problem:2"],
 "unwind_reason": "find_problem / find_latch scan the constant tables problem_table[] (FP_N entries, checked <= 448 by the harness) and pr_latch_info[] (12); the recursion of fix_problem (latch question, PR_AFTER_CODE) is unwound with unwinding assertions on, so the proof also shows that no chain in the real table is deeper than the bound",
 "functions": ["e2fsck/problem.c:fix_problem", "e2fsck/problem.c:find_problem", "e2fsck/problem.c:find_latch"],
 "assumes": ["problem_table[] and pr_latch_info[] keep their initialisers (static_keep): the statement is about the table of the current tree",
	     "no frame enforcement (fix_problem is recursive over a 2700-line TU): the postcondition is restated as harness CHECKs",
	     "stubs: ask() behaves as util.c:ask (proved by fsck/ask_options), preenhalt returns iff not preening, fatal_error never returns, print_e2fsck_message only prints, e2fsck.conf lookups return arbitrary values",
	     "mid-run state: every entry may already be configured with arbitrary configurable bits / counters, latches carry arbitrary PRL_* flags"],
 "backend": "cadical",
 "native": false
}
*/
/*
 * fix_problem (e2fsck/problem.c): the single gate every detected problem goes through.
 *
 * From the property texts (C01/C02 anchors): "answering 'no' to a problem without PR_NO_OK un-marks the fs valid",
 * "exit status is assembled from the 'valid' flag and E2F_FLAG_PROBLEMS_FIXED".  unix.c:main builds FSCK_UNCORRECTED
 * from !ext2fs_test_valid(fs) and FSCK_NONDESTRUCT from ctx->flags & E2F_FLAG_PROBLEMS_FIXED.
 */
#include "fp_common.h"

/* V1 + V2 + frame: for EVERY table entry, every option set, every e2fsck.conf, every mid-run state.
 * The entry is enumerated (constant index per copy) so that the symbolic executor sees constant table rows. */
static void fp_verdict_one(struct fp_world *w, unsigned i)
{
	struct e2fsck_problem *e = &problem_table[i];
	int r;

	r = fix_problem(w->ctx, e->e2p_code, &w->pctx);

	/* reached only if fix_problem returned (PR_FATAL / PROMPT_ABORT+yes / preenhalt do not) */
	CHECK(r == 0 || r == 1 || r == -1, "answer is no / yes / no-collate");
	if (r == 0 && e->prompt != PROMPT_NONE && !(e->flags & PR_NO_OK)) {
		REACH("declined a problem that counts");
		CHECK(!(w->fs->flags & EXT2_FLAG_VALID),
		      "V1: a declined problem whose entry lacks PR_NO_OK un-marks the filesystem valid (=> FSCK_UNCORRECTED)");
	}
	if (r != 0 && e->prompt != PROMPT_NONE && !(e->flags & PR_NOT_A_FIX)) {
		REACH("accepted a fix");
		CHECK(w->ctx->flags & E2F_FLAG_PROBLEMS_FIXED,
		      "V2: an accepted fix sets E2F_FLAG_PROBLEMS_FIXED unless the entry is PR_NOT_A_FIX");
	}
	/* frame of the verdict state */
	CHECK((w->fs->flags | EXT2_FLAG_VALID) == (IN.fsflags | EXT2_FLAG_VALID) &&
	      (!(IN.fsflags & EXT2_FLAG_VALID) ? !(w->fs->flags & EXT2_FLAG_VALID) : 1),
	      "fs->flags: only EXT2_FLAG_VALID may change, and only be cleared");
	CHECK((w->ctx->flags | E2F_FLAG_PROBLEMS_FIXED) == (IN.ctxflags | E2F_FLAG_PROBLEMS_FIXED) &&
	      ((IN.ctxflags & E2F_FLAG_PROBLEMS_FIXED) ? (w->ctx->flags & E2F_FLAG_PROBLEMS_FIXED) != 0 : 1),
	      "ctx->flags: only E2F_FLAG_PROBLEMS_FIXED may change, and only be set");
	CHECK(w->ctx->options == IN.options, "options unchanged");
}

void h_fp_verdict(void)
{
	struct fp_world w;
	unsigned i;

	LOAD_IN();
	fp_setup(&w);
	ASSUME(IN.idx < FP_N - 1);
	for (i = 0; i < FP_N - 1; i++)
		if (i == IN.idx) {
			fp_verdict_one(&w, i);
			REACH("end");
			return;
		}
}
