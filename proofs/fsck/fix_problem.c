/* VERIF-UNIT
{
 "name": "fix_problem_verdict",
 "props": ["C01", "C02"],
 "level": "U",
 "tier": "quick",
 "harness": "h_fp_verdict",
 "enforce_rec": ["fix_problem"],
 "replace": ["find_problem"],
 "includes": ["e2fsck", "lib/support"],
 "static_keep": ["pr_latch_info"],
 "unwind": 13,
 "unwind_reason": "fix_problem is loop-free; find_latch scans the constant table pr_latch_info[] (11 latches + terminator, kept with its initialiser); the harness set-up loops over the same 11 latches; the two recursive calls of fix_problem are replaced by its own contract (--enforce-contract-rec)",
 "functions": ["e2fsck/problem.c:fix_problem", "e2fsck/problem.c:find_latch", "e2fsck/problem.c:reconfigure_bool"],
 "assumes": ["the row of problem_table[] under test is ARBITRARY (any prompt <= PROMPT_NULL, any flags, any second code, configured or not) subject to the table facts FP_FACT_SANE / FP_FACT_AFTER, which fsck/find_problem_contract proves of every row of the real table",
	     "find_problem is replaced by an abstract contract (fp_common.h): the row of the code under test is the ghost row, the row of any other code is a fresh object with arbitrary contents satisfying the same table facts; fsck/find_problem_contract proves the concrete counterpart on the real table; modelling 'another row of the table' by a fresh object is a manual abstraction step",
	     "stubs: ask() behaves as util.c:ask (proved by fsck/ask_options), preenhalt returns iff not preening, fatal_error never returns, print_e2fsck_message/printf/fprintf only print, e2fsck.conf look-ups return arbitrary values (every [problems] override)",
	     "mid-run state: options, ctx->flags, fs->flags arbitrary; latches carry arbitrary PRL_* flags subject to the two run invariants named in the contract (no latch says yes under -n; no latch says no under a plain -y without force_no/no_default overrides)",
	     "fewer than 2^31 reports of one problem code per run (count++)",
	     "statement is about RETURNING calls: PR_FATAL, PROMPT_ABORT+yes and preenhalt end the process"],
 "backend": "cadical",
 "native": false
}
*/
/* VERIF-UNIT
{
 "name": "fix_problem_yes",
 "props": ["C01"],
 "level": "U",
 "tier": "quick",
 "harness": "h_fp_yes",
 "enforce_rec": ["fix_problem"],
 "replace": ["find_problem"],
 "includes": ["e2fsck", "lib/support"],
 "static_keep": ["pr_latch_info"],
 "unwind": 13,
 "unwind_reason": "as fix_problem_verdict",
 "functions": ["e2fsck/problem.c:fix_problem"],
 "assumes": ["as fix_problem_verdict, and: e2fsck.conf has no [problems] overrides (look-ups return defaults), so rows keep the compiled-in PR_FORCE_NO / PR_NO_DEFAULT / PR_PREEN_NO bits, for which FP_FACT_NOCONF is proved on the real table by fsck/find_problem_contract",
	     "plain -y: E2F_OPT_YES without E2F_OPT_NO / E2F_OPT_PREEN (unix.c refuses the combinations)"],
 "backend": "cadical",
 "native": false
}
*/
/*
 * fix_problem (e2fsck/problem.c): the single gate every detected problem goes through.  Contract and its derivation
 * from the property texts: fp_common.h (FP_FIX_CONTRACT).  The harness CHECKs restate V1-V4 over the harness's own
 * copies of the pre-state, so they do not depend on the ENSURES clauses being the ones enforced.
 */
#define FP_FIND_ABSTRACT
#define FP_FIX_CONTRACT
#include "fp_common.h"

static void fp_row_kept(const struct e2fsck_problem *e, const struct in_row *r0)
{
	CHECK(e->e2p_code == r0->code && e->prompt == r0->prompt && e->second_code == r0->second &&
	      (e->flags & ~(FPV_CONFIGURABLE | PR_CONFIG)) == (r0->flags & ~(FPV_CONFIGURABLE | PR_CONFIG)),
	      "R: code, prompt, second code and the non-configurable flags of a row are never written");
	CHECK(!(r0->flags & PR_CONFIG) || e->flags == r0->flags, "R: a configured row keeps its flags");
}

static void fp_restate(struct fp_world *w, int r)
{
	struct e2fsck_problem *e = fp_kp;

	CHECK(r == 0 || r == 1 || r == -1, "answer is no / yes / no-collate");
	fp_row_kept(fp_kp, &IN.k);
	fp_row_kept(fp_op, &IN.o);
	CHECK((w->fs->flags | EXT2_FLAG_VALID) == (IN.fsflags | EXT2_FLAG_VALID) &&
	      ((IN.fsflags & EXT2_FLAG_VALID) || !(w->fs->flags & EXT2_FLAG_VALID)),
	      "F1: fs->flags: only EXT2_FLAG_VALID may change, and only be cleared");
	CHECK((w->ctx->flags | E2F_FLAG_PROBLEMS_FIXED) == (IN.ctxflags | E2F_FLAG_PROBLEMS_FIXED) &&
	      (!(IN.ctxflags & E2F_FLAG_PROBLEMS_FIXED) || (w->ctx->flags & E2F_FLAG_PROBLEMS_FIXED)),
	      "F2: ctx->flags: only E2F_FLAG_PROBLEMS_FIXED may change, and only be set");
	CHECK(w->ctx->options == IN.options, "options unchanged");
	if (IN.code != IN.k.code)
		return;		/* V1, V2 are statements about the row of the code that was raised */
	if (r == 0 && e->prompt != PROMPT_NONE && !(e->flags & PR_NO_OK)) {
		CHECK(!(w->fs->flags & EXT2_FLAG_VALID),
		      "V1: a declined problem whose row lacks PR_NO_OK un-marks the filesystem valid (=> FSCK_UNCORRECTED)");
	}
	if (r != 0 && e->prompt != PROMPT_NONE && !(e->flags & PR_NOT_A_FIX)) {
		CHECK(w->ctx->flags & E2F_FLAG_PROBLEMS_FIXED,
		      "V2: an accepted fix sets E2F_FLAG_PROBLEMS_FIXED unless the row is PR_NOT_A_FIX");
	}
}

/* every option set, every e2fsck.conf, every row, every mid-run state */
void h_fp_verdict(void)
{
	struct fp_world w;
	struct e2fsck_problem *e;
	int r;

	LOAD_IN();
	fp_conf_mode = FP_CONF_ANY;
	fp_facts = 0;
	fp_setup(&w);
	fp_arbitrary_rows();
	e = fp_kp;
	/* run invariant of e2fsck -n (initially all latch flags are 0; V3 shows it is kept) */
	ASSUME(!(IN.options & E2F_OPT_NO) || FP_NO_LATCH(PRL_YES));

	r = fix_problem(w.ctx, IN.code, &w.pctx);

	fp_restate(&w, r);
	if (IN.code == IN.k.code && r == 0 && e->prompt != PROMPT_NONE && !(e->flags & PR_NO_OK))
		REACH("declined a problem that counts");
	if (IN.code == IN.k.code && r != 0 && e->prompt != PROMPT_NONE && !(e->flags & PR_NOT_A_FIX))
		REACH("accepted a fix");
	if (IN.code != IN.k.code)
		REACH("a code other than the one under test");
	if (IN.options & E2F_OPT_NO) {
		REACH("-n");
		CHECK(r != 1, "V3: under E2F_OPT_NO no problem is answered yes");
		CHECK(IN.code != IN.k.code || e->prompt == PROMPT_NONE || (e->flags & PR_AFTER_CODE) || r == 0,
		      "V3: under E2F_OPT_NO every question is answered no");
		CHECK(FP_NO_LATCH(PRL_YES), "V3: under E2F_OPT_NO no latch enters the yes state");
	}
	REACH("end");
}

/* plain -y, no e2fsck.conf overrides */
void h_fp_yes(void)
{
	struct fp_world w;
	struct e2fsck_problem *e;
	int r;

	LOAD_IN();
	fp_conf_mode = FP_CONF_NONE;
	fp_facts = 1;
	fp_setup(&w);
	fp_arbitrary_rows();
	e = fp_kp;
	ASSUME(FP_YESMODE(IN.options));
	ASSUME(FP_NO_LATCH(PRL_NO));	/* run invariant of e2fsck -y (initially all latch flags are 0; V4 shows it is kept) */

	r = fix_problem(w.ctx, IN.code, &w.pctx);

	fp_restate(&w, r);
	CHECK(r != 0, "V4: under a plain -y nothing is answered no");
	if (IN.code == IN.k.code && e->prompt != PROMPT_NONE && !(e->flags & PR_AFTER_CODE)) {
		REACH("-y question");
		CHECK(r == 1, "V4: under a plain -y every question is answered yes");
		CHECK(w.ctx->flags & E2F_FLAG_PROBLEMS_FIXED || (e->flags & PR_NOT_A_FIX), "V4+V2: ... and counted as a fix");
	}
	CHECK(FP_NO_LATCH(PRL_NO), "V4: under a plain -y no latch enters the no state");
	REACH("end");
}
