/* VERIF-UNIT
{
 "name": "ask_options",
 "props": ["C01", "C02"],
 "level": "U",
 "tier": "quick",
 "harness": "h_ask",
 "enforce": ["ask"],
 "replace": ["log_out", "ask_yn"],
 "includes": ["e2fsck", "lib/support"],
 "unwind": 3,
 "unwind_reason": "ask is loop-free",
 "functions": ["e2fsck/util.c:ask"],
 "assumes": ["log_out (same file; prints to stdout and the log file) is replaced by a contract with an empty frame; ask_yn (same file; the interactive prompt) is replaced by a contract that counts the call and returns an arbitrary value"],
 "backend": "cadical",
 "native": false
}
*/
/*
 * ask (e2fsck/util.c): the answer fix_problem gets when it has to put a question.  The units on fix_problem use a stub
 * with exactly this behaviour (fp_common.h); this unit proves it of the real function:
 *   -n  => 0 ("no"), the user is not asked;   else -y => 1;   else -p => the default;   else the user's answer.
 */
#include "verif.h"
struct in_ask { unsigned int options; int def; };
struct in_ask IN;
#include "verif_in.h"

#define _GNU_SOURCE 1
#include "config.h"
#include "e2fsck.h"

unsigned int ay_calls;		/* ghost: number of interactive prompts */
int ay_answer;			/* ghost: what the last one returned */

void log_out(e2fsck_t ctx, const char *fmt, ...)
	REQUIRES(1)
	ENSURES(1)
	ASSIGNS();

int ask_yn(e2fsck_t ctx, const char *string, int def)
	ASSIGNS(ay_calls, ay_answer)
	ENSURES(ay_calls == OLD(ay_calls) + 1 && RET == ay_answer);

int ask(e2fsck_t ctx, const char *string, int def)
	REQUIRES(ay_calls == 0)
	ASSIGNS(ay_calls, ay_answer)
	ENSURES((ctx->options & E2F_OPT_NO) ==> RET == 0 && ay_calls == 0)
	ENSURES(!(ctx->options & E2F_OPT_NO) && (ctx->options & E2F_OPT_YES) ==> RET == 1 && ay_calls == 0)
	ENSURES(!(ctx->options & (E2F_OPT_NO | E2F_OPT_YES)) && (ctx->options & E2F_OPT_PREEN) ==> RET == def && ay_calls == 0)
	ENSURES(!(ctx->options & (E2F_OPT_NO | E2F_OPT_YES | E2F_OPT_PREEN)) ==> ay_calls == 1 && RET == ay_answer);

#include "e2fsck/util.c"

char *gettext(const char *msgid)
{
	return (char *) msgid;
}

void h_ask(void)
{
	e2fsck_t ctx;
	int r;

	LOAD_IN();
	ctx = malloc(sizeof(*ctx));
	ASSUME(ctx);
	ctx->options = IN.options;
	ay_calls = 0;
	r = ask(ctx, "Fix", IN.def);
	if (IN.options & E2F_OPT_NO) {
		REACH("-n");
		CHECK(r == 0 && ay_calls == 0, "-n: the answer is no, nobody is asked");
	} else if (IN.options & E2F_OPT_YES) {
		REACH("-y");
		CHECK(r == 1 && ay_calls == 0, "-y: the answer is yes, nobody is asked");
	} else if (IN.options & E2F_OPT_PREEN) {
		REACH("-p");
		CHECK(r == IN.def && ay_calls == 0, "-p: the default answer");
	} else {
		REACH("interactive");
		CHECK(ay_calls == 1 && r == ay_answer, "otherwise: exactly one prompt, its answer is returned");
	}
	CHECK(ctx->options == IN.options, "options unchanged");
	REACH("end");
}
