/*
 * Shared by the undo_io.c protocol units (C12): the four modifying entry points of the undo manager.
 *
 * Ghost monitor: g_cap_valid/g_cap_lo/g_cap_hi = the filesystem byte range [lo,hi) whose OLD content the
 * last successful undo_write_tdb() call has made sure is in the undo file (moved only by the contract of
 * undo_write_tdb, which is proved against the real body by the unit undo_write_tdb in write_tdb.c).
 * The backing channel ("real") is a harness-built channel whose manager's modifying methods are stubs
 * that CHECK that the byte range they are about to modify lies inside the captured range, unless the
 * undo file is not configured (data->undo_file == NULL: undo disabled, pure pass-through).
 * All ranges are in filesystem coordinates (see specs/undo_spec.h).
 */
#include "verif.h"
#include "undo_spec.h"

struct in_undo {
	int bs_sel;
	unsigned long long block;
	int count;
	unsigned long long ucount;	/* zeroout / discard */
	unsigned long offset;		/* write_byte */
	int size;
	long long fs_offset;
	unsigned long long tdb_data_size;
	unsigned char have_undo, have_real, have_write_byte;
	int chan_magic_bad, data_magic_bad;
	unsigned char choice[4];	/* results of the backing-channel stubs, consumed in order */
};
struct in_undo IN;
#include "verif_in.h"

/* ghost monitor */
int g_cap_valid;
unsigned long long g_cap_lo, g_cap_hi;
long g_tdb_ret;			/* what the last undo_write_tdb returned */
unsigned int g_tdb_calls;
unsigned int g_real_mods;	/* modifying calls that reached the backing channel */
int g_real_kind;		/* 1 write_blk64, 2 write_byte, 3 zeroout, 4 discard */
unsigned long long g_real_a, g_real_b;	/* the arguments that reached the backing channel */
const void *g_real_buf;
unsigned int g_choice;

#include "lib/ext2fs/undo_io.c"

static struct struct_io_channel CH, REAL, UFILE;
static struct undo_private_data DATA;
static struct struct_io_manager REAL_MGR;

#define DATA_OF(ch) ((struct undo_private_data *)(ch)->private_data)

/* precondition of undo_write_tdb, from the arithmetic domain of the io_channel convention:
 * the byte count fits the int the interface uses, and block*bs+offset+size stays inside 63 bits */
#define UNDO_TDB_PRE(ch, block, count) \
	(UNDO_BS_OK((ch)->block_size) && (count) > -0x7fffffff && \
	 UNDO_SIZE((ch)->block_size, count) <= 0x7fffffffLL && (block) <= UNDO_MAX_BLOCK && \
	 DATA_OF(ch)->offset >= 0 && DATA_OF(ch)->offset <= UNDO_MAX_OFFSET)

/* contract of undo_write_tdb as its callers see it */
static errcode_t undo_write_tdb(io_channel channel, unsigned long long block, int count)
	REQUIRES(UNDO_TDB_PRE(channel, block, count))
	ASSIGNS(g_cap_valid, g_cap_lo, g_cap_hi, g_tdb_ret, g_tdb_calls, actual_size,
		DATA_OF(channel)->tdb_written, DATA_OF(channel)->fake_fs, DATA_OF(channel)->written_block_map,
		DATA_OF(channel)->keyb, DATA_OF(channel)->key_blk_num, DATA_OF(channel)->undo_blk_num,
		DATA_OF(channel)->num_keys, DATA_OF(channel)->keys_in_block, DATA_OF(channel)->hdr)
	ENSURES(g_tdb_calls == OLD(g_tdb_calls) + 1 && g_tdb_ret == RET)
	ENSURES(DATA_OF(channel)->undo_file != 0 || RET == 0)
	ENSURES(RET != 0 || DATA_OF(channel)->undo_file == 0 ||
		(g_cap_valid == 1 && g_cap_lo == UNDO_LO(channel->block_size, block) &&
		 g_cap_hi == UNDO_LO(channel->block_size, block) + (unsigned long long)UNDO_SIZE(channel->block_size, count)));

static errcode_t next_choice(void)
{
	unsigned char c = g_choice < 4 ? IN.choice[g_choice] : 0;
	g_choice++;
	return c;
}

/* the obligation of C12's first mechanism: old content saved BEFORE the backing channel is modified */
static void about_to_modify(unsigned long long lo, unsigned long long size)
{
	CHECK(g_real_mods == 0, "at most one modifying call reaches the backing channel per undo-manager call");
	CHECK(DATA.undo_file == 0 || size == 0 ||
	      (g_tdb_calls > 0 && g_tdb_ret == 0 && g_cap_valid == 1 && g_cap_lo <= lo && lo + size <= g_cap_hi),
	      "byte range about to be modified on the backing channel has been captured in the undo file first");
	g_real_mods++;
}

static errcode_t st_real_write_blk64(io_channel ch, unsigned long long block, int count, const void *buf)
{
	CHECK(ch == &REAL, "modifying call goes to the backing channel");
	about_to_modify(UNDO_LO(ch->block_size, block), (unsigned long long)UNDO_SIZE(ch->block_size, count));
	g_real_kind = 1; g_real_a = block; g_real_b = (unsigned long long)(long long)count; g_real_buf = buf;
	return next_choice();
}
static errcode_t st_real_write_byte(io_channel ch, unsigned long offset, int size, const void *buf)
{
	CHECK(ch == &REAL, "modifying call goes to the backing channel");
	about_to_modify(offset, (unsigned long long)(long long)size);
	g_real_kind = 2; g_real_a = offset; g_real_b = (unsigned long long)(long long)size; g_real_buf = buf;
	return next_choice();
}
static errcode_t st_real_zeroout(io_channel ch, unsigned long long block, unsigned long long count)
{
	CHECK(ch == &REAL, "modifying call goes to the backing channel");
	about_to_modify(UNDO_LO(ch->block_size, block), count * (unsigned long long)ch->block_size);
	g_real_kind = 3; g_real_a = block; g_real_b = count; g_real_buf = 0;
	return next_choice();
}
static errcode_t st_real_discard(io_channel ch, unsigned long long block, unsigned long long count)
{
	CHECK(ch == &REAL, "modifying call goes to the backing channel");
	about_to_modify(UNDO_LO(ch->block_size, block), count * (unsigned long long)ch->block_size);
	g_real_kind = 4; g_real_a = block; g_real_b = count; g_real_buf = 0;
	return next_choice();
}

/* have_real / have_wb are passed as literals so that symex sees constant method pointers */
static void build_undo(int bs, int have_real, int have_wb)
{
	memset(&CH, 0, sizeof(CH));
	memset(&REAL, 0, sizeof(REAL));
	memset(&UFILE, 0, sizeof(UFILE));
	memset(&DATA, 0, sizeof(DATA));
	memset(&REAL_MGR, 0, sizeof(REAL_MGR));
	REAL_MGR.magic = EXT2_ET_MAGIC_IO_MANAGER;
	REAL_MGR.write_blk64 = st_real_write_blk64;
	if (have_wb)
		REAL_MGR.write_byte = st_real_write_byte;
	REAL_MGR.zeroout = st_real_zeroout;
	REAL_MGR.discard = st_real_discard;
	CH.magic = IN.chan_magic_bad ? 0 : EXT2_ET_MAGIC_IO_CHANNEL;
	CH.manager = undo_io_manager;
	CH.block_size = bs;
	CH.refcount = 1;
	CH.private_data = &DATA;
	DATA.magic = IN.data_magic_bad ? 0 : EXT2_ET_MAGIC_UNIX_IO_CHANNEL;
	if (have_real)
		DATA.real = &REAL;
	DATA.undo_file = IN.have_undo ? &UFILE : 0;
	DATA.offset = IN.fs_offset;
	DATA.tdb_data_size = IN.tdb_data_size;
	/* undo_set_blksize keeps the backing channel's block size equal to the undo channel's */
	REAL.magic = EXT2_ET_MAGIC_IO_CHANNEL;
	REAL.manager = &REAL_MGR;
	REAL.block_size = bs;
	UFILE.magic = EXT2_ET_MAGIC_IO_CHANNEL;
	g_cap_valid = 0; g_cap_lo = g_cap_hi = 0; g_tdb_ret = -1; g_tdb_calls = 0;
	g_real_mods = 0; g_real_kind = 0; g_real_a = g_real_b = 0; g_real_buf = 0; g_choice = 0;
}

#define GHOST_FRAME g_cap_valid, g_cap_lo, g_cap_hi, g_tdb_ret, g_tdb_calls, g_real_mods, g_real_kind, \
	g_real_a, g_real_b, g_real_buf, g_choice, actual_size, __CPROVER_object_whole(channel->private_data)

/* run `call` once for every enumerated configuration (block size, backing channel present, backing
 * channel supports write_byte), each a literal inside its branch */
#define FOR_EACH_HW(bs, call) do { \
	if (IN.have_real) { \
		if (IN.have_write_byte) { build_undo(bs, 1, 1); call; } else { build_undo(bs, 1, 0); call; } \
	} else { build_undo(bs, 0, 0); call; } } while (0)
#define FOR_EACH_BS(call) do { \
	switch (IN.bs_sel) { \
	case 0: FOR_EACH_HW(1024, call); break; \
	case 1: FOR_EACH_HW(4096, call); break; \
	default: FOR_EACH_HW(32768, call); break; \
	} } while (0)
