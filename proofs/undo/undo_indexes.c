/*
 * C12, mechanism 3: "keys (fs block, size, crc32c) are grouped in checksummed key blocks; header carries superblock
 * copy and crc" — lib/ext2fs/undo_io.c:write_undo_indexes().
 *
 * SPEC, from what the readers of the format verify (misc/e2undo.c main/check_filesystem, try_reopen_undo_file) and
 * the format comment (struct undo_header / undo_key_block), not from write_undo_indexes itself:
 *  key block   if the current key block holds keys it is written as ONE whole undo block (tdb bytes) to key_blk_num
 *              BEFORE the header; at that moment its magic is KEYBLOCK_MAGIC and its crc field is the crc32c (seed ~0)
 *              that was computed over exactly those tdb bytes with the crc field zero (so it covers all keys); no byte
 *              changes between the checksum and the write (ghost byte IN.k);  a full key block is then retired
 *              (zeroed, the next free undo block becomes the key block, keys_in_block = 0); a failed key-block write
 *              ends the function before the header is touched on disk;
 *  superblock  the filesystem superblock is read from the backing channel at byte 1024 (block size 1024, block 1,
 *              1024 bytes), the copy written to super_blk_num is that buffer with s_magic bit-inverted and all other
 *              bytes unchanged, and hdr.sb_crc is the crc32c (seed ~0) of the 1024 bytes AS READ (e2undo inverts the
 *              magic back before it checksums);
 *  header      512 bytes written to block 0 of the undo file AFTER the key block: magic "E2UNDO02", num_keys,
 *              super_offset, key_offset, fs_block_size (= block size of the backing channel on entry), fs_offset and
 *              the FS_OFFSET compat flag (set iff offset != 0) little-endian, header_crc = crc32c (seed ~0) over bytes
 *              [0, 508) = everything but header_crc itself, computed after all other fields were stored (ghost byte);
 *  channel     the backing channel's block size is restored on every path; flush of the undo file iff asked and
 *              nothing failed before;
 *  contract    the clauses the unit undo/undo_write_tdb* ASSUMES about write_undo_indexes: frame, on success
 *              keys_in_block < keys per block, a non-zero return only if a callee failed.
 * crc32c is an uninterpreted stub observed by the monitor (the function itself is C14's subject).
 */
/* VERIF-UNIT
{
 "name": "undo_write_indexes", "defines": ["NO_INLINE_FUNCS", "CFG_TDB=1024"],
 "props": ["C12"], "level": "U", "tier": "quick", "harness": "h_indexes",
 "enforce": ["write_undo_indexes"],
 "unwind": 12, "unwind_reason": "loop-free function; only DFCC library loops over the 6 assigns-clause targets are unwound",
 "functions": ["lib/ext2fs/undo_io.c:write_undo_indexes"],
 "assumes": ["tdb_data_size 1024 (literal: memset/crc length); every other input arbitrary: block size of the backing channel, num_keys, positions, offset, flush, keys_in_block <= keys per block, key block content, results of all callees",
   "host is little-endian (ext2fs_cpu_to_leXX are the identity); the byte order of the header fields is checked on the stored bytes",
   "the backing manager's set_blksize is a stub that records the requested size in the monitor instead of writing channel->block_size (the net effect of write_undo_indexes on it is nil)",
   "crc32c is an uninterpreted function observed by the monitor"],
 "backend": "cadical", "native": false, "timeout": 300
}
*/
#include "verif.h"
#include "undo_spec.h"

#ifndef CFG_TDB
#define CFG_TDB 1024
#endif

struct in_idx {
	unsigned long long num_keys, keys_in_block, undo_blk_num, key_blk_num, super_blk_num, first_key_blk;
	long long fs_offset;
	int real_bs, flush;
	unsigned int k;			/* ghost byte index */
	unsigned int b;			/* ghost byte of a numeric header field */
	unsigned int state, f_compat;
};
struct in_idx IN;
#include "verif_in.h"

#ifndef VERIF_NATIVE
int nondet_int(void);
long nondet_long(void);
unsigned int nondet_uint(void);
#endif

struct idx_mon {
	unsigned int seq;		/* undo-file writes so far */
	unsigned int kb_writes, hdr_writes, sb_writes, flushes, sb_reads;
	unsigned int kb_pos, hdr_pos, sb_pos;	/* sequence numbers (1-based) */
	unsigned int crc_kb, crc_sb, crc_hdr;	/* crc computations per object */
	unsigned int kb_crc, sb_crc, hdr_crc;	/* their results */
	unsigned char kb_byte, sb_byte, hdr_byte;	/* ghost byte at checksum / read time */
	unsigned short sb_magic;	/* s_magic as read */
	int real_bs;			/* block size of the backing channel (what its set_blksize was last told) */
	unsigned int setblk;
	int hard_err;			/* a callee failed */
	int viol;
	const void *super_buf;		/* the local superblock buffer of write_undo_indexes */
};
struct idx_mon M;

#include "lib/ext2fs/undo_io.c"

static struct struct_io_channel REAL, UFILE;
static struct struct_io_manager REAL_MGR, UFILE_MGR;
static struct undo_private_data DATA;
static unsigned char *KEYB_OBJ;

#define KPB(d) ((d)->tdb_data_size / 16 - 1)
#define SB_MAGIC_OFF 56			/* offsetof(struct ext2_super_block, s_magic) */
#define KB_K (IN.k % CFG_TDB)
#define SB_K (IN.k % SUPERBLOCK_SIZE)
#define HDR_K (IN.k % 508)

static errcode_t write_undo_indexes(struct undo_private_data *data, int flush)
	REQUIRES(data->tdb_data_size == CFG_TDB && data->keys_in_block <= KPB(data))
	ASSIGNS(data->hdr, data->keys_in_block, data->key_blk_num, data->undo_blk_num,
		__CPROVER_object_whole(data->keyb), M)
	ENSURES(RET != 0 || data->keys_in_block < KPB(data))
	ENSURES(RET == 0 || M.hard_err == 1)
	ENSURES(M.viol == 0);

/* ---- stubs ---- */
__u32 ext2fs_crc32c_le(__u32 crc, unsigned char const *p, size_t len)
{
	__u32 c = nondet_uint();
	if (crc != ~0U)
		M.viol = 1;
	if ((const void *)p == (const void *)KEYB_OBJ) {
		/* whole key block, magic in place, crc field zero, before it is written */
		if (len != CFG_TDB || M.kb_writes != 0 ||
		    ((struct undo_key_block *)KEYB_OBJ)->magic != KEYBLOCK_MAGIC || ((struct undo_key_block *)KEYB_OBJ)->crc != 0)
			M.viol = 1;
		M.crc_kb++;
		M.kb_crc = c;
		M.kb_byte = KEYB_OBJ[KB_K];
	} else if ((const void *)p == (const void *)&DATA.hdr) {
		/* the header without its last field, before it is written */
		if (len != 508 || M.hdr_writes != 0)
			M.viol = 1;
		M.crc_hdr++;
		M.hdr_crc = c;
		M.hdr_byte = ((const unsigned char *)&DATA.hdr)[HDR_K];
	} else {
		/* the superblock as read */
		if (len != SUPERBLOCK_SIZE || M.sb_reads != 1 || M.crc_sb != 0 || (const void *)p != M.super_buf ||
		    ((const struct ext2_super_block *)p)->s_magic != M.sb_magic || p[SB_K] != M.sb_byte)
			M.viol = 1;
		M.crc_sb++;
		M.sb_crc = c;
	}
	return c;
}
static errcode_t st_real_set_blksize(io_channel ch, int blksize)
{
	if (ch != &REAL)
		M.viol = 1;
	M.setblk++;
	M.real_bs = blksize;	/* recorded, see "assumes" */
	return 0;
}
static errcode_t st_ufile_flush(io_channel ch)
{
	long r = nondet_long();
	if (ch != &UFILE || M.hdr_writes != 1 || M.sb_writes != 1)
		M.viol = 1;
	M.flushes++;
	if (r)
		M.hard_err = 1;
	return r;
}
errcode_t io_channel_read_blk64(io_channel ch, unsigned long long block, int count, void *buf)
{
	long r = nondet_long();
	/* the superblock: byte 1024 of the filesystem = block 1 at block size 1024 */
	if (ch != &REAL || block != 1 || count != -SUPERBLOCK_SIZE || M.real_bs != SUPERBLOCK_OFFSET || M.sb_reads != 0)
		M.viol = 1;
	M.sb_reads++;
	M.super_buf = buf;
#ifndef VERIF_NATIVE
	__CPROVER_havoc_slice(buf, SUPERBLOCK_SIZE);
#endif
	M.sb_magic = ((struct ext2_super_block *)buf)->s_magic;
	M.sb_byte = ((unsigned char *)buf)[SB_K];
	if (r)
		M.hard_err = 1;
	return r;
}
errcode_t io_channel_write_blk64(io_channel ch, unsigned long long block, int count, const void *buf)
{
	long r = nondet_long();
	const unsigned char *p = buf;

	if (ch != &UFILE)
		M.viol = 1;
	M.seq++;
	if (buf == (const void *)KEYB_OBJ) {
		if (count != 1 || block != DATA.key_blk_num || ch->block_size != CFG_TDB || M.crc_kb != 1 ||
		    ((struct undo_key_block *)KEYB_OBJ)->magic != KEYBLOCK_MAGIC ||
		    ((struct undo_key_block *)KEYB_OBJ)->crc != M.kb_crc ||
		    ((KB_K < 4 || KB_K >= 8) && p[KB_K] != M.kb_byte))
			M.viol = 1;
		M.kb_writes++;
		M.kb_pos = M.seq;
	} else if (buf == (const void *)&DATA.hdr) {
		if (block != 0 || count != -(int)sizeof(struct undo_header) || M.crc_hdr != 1 ||
		    DATA.hdr.header_crc != M.hdr_crc || p[HDR_K] != M.hdr_byte)
			M.viol = 1;
		M.hdr_writes++;
		M.hdr_pos = M.seq;
	} else {
		/* the superblock copy: as read, s_magic inverted */
		if (buf != M.super_buf || block != DATA.super_blk_num || count != -SUPERBLOCK_SIZE || M.crc_sb != 1 ||
		    ((const struct ext2_super_block *)buf)->s_magic != (__u16)~M.sb_magic ||
		    ((SB_K < SB_MAGIC_OFF || SB_K >= SB_MAGIC_OFF + 2) && p[SB_K] != M.sb_byte))
			M.viol = 1;
		M.sb_writes++;
		M.sb_pos = M.seq;
	}
	if (r)
		M.hard_err = 1;
	return r;
}

/* little-endian byte b of a value */
#define LE_BYTE(v, b) ((unsigned char)((unsigned long long)(v) >> (8 * (b))))
#define HDR_BYTE(off) (((const unsigned char *)&DATA.hdr)[off])

void h_indexes(void)
{
	LOAD_IN();
	memset(&REAL, 0, sizeof(REAL));
	memset(&UFILE, 0, sizeof(UFILE));
	memset(&REAL_MGR, 0, sizeof(REAL_MGR));
	memset(&UFILE_MGR, 0, sizeof(UFILE_MGR));
	memset(&M, 0, sizeof(M));
	REAL_MGR.magic = EXT2_ET_MAGIC_IO_MANAGER;
	REAL_MGR.set_blksize = st_real_set_blksize;
	UFILE_MGR.magic = EXT2_ET_MAGIC_IO_MANAGER;
	UFILE_MGR.flush = st_ufile_flush;
	REAL.magic = EXT2_ET_MAGIC_IO_CHANNEL;
	REAL.manager = &REAL_MGR;
	REAL.block_size = IN.real_bs;
	M.real_bs = IN.real_bs;
	UFILE.magic = EXT2_ET_MAGIC_IO_CHANNEL;
	UFILE.manager = &UFILE_MGR;
	UFILE.block_size = CFG_TDB;
	/* DATA (static) has arbitrary content apart from what is set here */
	DATA.magic = EXT2_ET_MAGIC_UNIX_IO_CHANNEL;
	DATA.real = &REAL;
	DATA.undo_file = &UFILE;
	DATA.tdb_data_size = CFG_TDB;
	DATA.tdb_written = 1;
	DATA.offset = IN.fs_offset;
	DATA.num_keys = IN.num_keys;
	DATA.keys_in_block = IN.keys_in_block;
	DATA.undo_blk_num = IN.undo_blk_num;
	DATA.key_blk_num = IN.key_blk_num;
	DATA.super_blk_num = IN.super_blk_num;
	DATA.first_key_blk = IN.first_key_blk;
	DATA.hdr.state = IN.state;
	DATA.hdr.f_compat = IN.f_compat;
	DATA.hdr.block_size = CFG_TDB;
	KEYB_OBJ = malloc(CFG_TDB);
	ASSUME(KEYB_OBJ != 0);
	DATA.keyb = (struct undo_key_block *)KEYB_OBJ;
	ASSUME(DATA.keys_in_block <= KPB(&DATA));
	ASSUME(IN.b < 8);

	int had_keys = DATA.keys_in_block != 0;
	int was_full = DATA.keys_in_block == KPB(&DATA);
	errcode_t r = write_undo_indexes(&DATA, IN.flush);

	CHECK(M.viol == 0, "what is written is what was checksummed: key block (magic, crc over the whole block), superblock copy (magic inverted), header (crc over [0,508))");
	CHECK(M.setblk == 0 || M.real_bs == IN.real_bs, "block size of the backing channel restored on every path");
	CHECK(M.kb_writes == (unsigned)had_keys, "the key block is written iff it holds keys");
	CHECK(M.hdr_writes <= 1 && M.sb_writes <= 1 && M.sb_writes <= M.hdr_writes, "header at most once, superblock copy only after the header");
	CHECK(!(M.kb_writes && M.hdr_writes) || M.kb_pos < M.hdr_pos, "key block before header");
	CHECK(!(M.hdr_writes && M.sb_writes) || M.hdr_pos < M.sb_pos, "header before superblock copy");
	if (r == 0) {
		CHECK(M.hdr_writes == 1 && M.sb_writes == 1 && M.sb_reads == 1 && M.hard_err == 0, "success: header and superblock copy written, nothing failed");
		CHECK(M.flushes == (IN.flush != 0), "undo file flushed iff asked");
		CHECK(memcmp(DATA.hdr.magic, "E2UNDO02", 8) == 0, "header magic");
		CHECK(HDR_BYTE(8 + IN.b) == LE_BYTE(IN.num_keys, IN.b), "num_keys little-endian at offset 8");
		CHECK(HDR_BYTE(16 + IN.b) == LE_BYTE(IN.super_blk_num, IN.b), "super_offset little-endian at offset 16");
		CHECK(HDR_BYTE(24 + IN.b) == LE_BYTE(IN.first_key_blk, IN.b), "key_offset little-endian at offset 24");
		CHECK(IN.b >= 4 || HDR_BYTE(32 + IN.b) == LE_BYTE(CFG_TDB, IN.b), "block_size untouched");
		CHECK(IN.b >= 4 || HDR_BYTE(36 + IN.b) == LE_BYTE((unsigned)IN.real_bs, IN.b), "fs_block_size = block size of the backing channel, little-endian at offset 36");
		CHECK(IN.b >= 4 || HDR_BYTE(40 + IN.b) == LE_BYTE(M.sb_crc, IN.b), "sb_crc = crc32c of the superblock as read, little-endian at offset 40");
		CHECK(IN.b >= 4 || HDR_BYTE(44 + IN.b) == LE_BYTE(IN.state, IN.b), "state untouched");
		CHECK(IN.b >= 4 || HDR_BYTE(48 + IN.b) == LE_BYTE((IN.f_compat & ~1U) | (IN.fs_offset != 0), IN.b), "FS_OFFSET compat flag set iff the filesystem offset is not 0, other compat bits kept");
		CHECK(HDR_BYTE(64 + IN.b) == LE_BYTE(IN.fs_offset, IN.b), "fs_offset little-endian at offset 64");
		CHECK(IN.b >= 4 || HDR_BYTE(508 + IN.b) == LE_BYTE(M.hdr_crc, IN.b), "header_crc little-endian at offset 508");
		if (was_full) {
			CHECK(DATA.keys_in_block == 0 && DATA.key_blk_num == IN.undo_blk_num && DATA.undo_blk_num == IN.undo_blk_num + 1,
			      "a full key block is retired: the next free undo block becomes the key block");
			CHECK(KEYB_OBJ[KB_K] == 0, "retired key block zeroed");
			REACH("full");
		} else {
			CHECK(DATA.keys_in_block == IN.keys_in_block && DATA.key_blk_num == IN.key_blk_num && DATA.undo_blk_num == IN.undo_blk_num,
			      "positions unchanged unless the key block was full");
			if (had_keys) REACH("partial");
		}
		if (!had_keys) REACH("no-keys");
		if (IN.flush) REACH("flushed");
	} else {
		CHECK(M.flushes == 0 || M.hard_err, "no flush after a failure");
		if (M.kb_writes == 1 && M.hdr_writes == 0 && M.sb_reads == 0) REACH("keyblock-write-failed");
		if (M.sb_reads == 1 && M.hdr_writes == 0) REACH("superblock-read-failed");
		if (M.hdr_writes == 1 && M.sb_writes == 0) REACH("header-write-failed");
	}
	REACH("end");
}
