/*
 * C13 (library write entry points refuse without EXT2_FLAG_RW): lib/ext2fs/rw_bitmaps.c:write_bitmaps().
 * Prefix unit: for a handle without EXT2_FLAG_RW the function returns EXT2_ET_RO_FILSYS and no write
 * method of the channel's manager is reached (the stubs are CHECK(0) canaries), nothing in *fs changes.
 */
/* VERIF-UNIT
{
 "name": "write_bitmaps_ro",
 "props": ["C13"],
 "level": "P",
 "tier": "quick",
 "harness": "h_write_bitmaps_ro",
 "enforce": ["write_bitmaps"],
 "sources": ["lib/ext2fs/io_manager.c"],
 "unwind": 1,
 "unwind_reason": "prefix unit: with EXT2_FLAG_RW clear every loop of write_bitmaps is unreachable; the unwinding assertions prove exactly that",
 "functions": ["lib/ext2fs/rw_bitmaps.c:write_bitmaps"],
 "assumes": ["EXT2_FLAG_RW is clear (the statement is only about read-only handles)", "fs->cluster_ratio_bits < 32 (set by ext2fs_open2 from s_log_cluster_size - s_log_block_size, at most 29)"],
 "native": false
}
*/
#include "verif.h"

struct in_wb {
	int flags, do_inode, do_block, magic_bad;
	int cluster_ratio_bits;
	unsigned int first_data_block;
};
struct in_wb IN;
#include "verif_in.h"

unsigned int g_writes;

#include "lib/ext2fs/rw_bitmaps.c"

static errcode_t write_bitmaps(ext2_filsys fs, int do_inode, int do_block)
	REQUIRES(fs->cluster_ratio_bits >= 0 && fs->cluster_ratio_bits < 32)
	ASSIGNS(g_writes)
	ENSURES((fs->flags & EXT2_FLAG_RW) || fs->magic != EXT2_ET_MAGIC_EXT2FS_FILSYS || RET == EXT2_ET_RO_FILSYS)
	ENSURES((fs->flags & EXT2_FLAG_RW) || (RET != 0 && g_writes == 0));

static struct struct_ext2_filsys FS;
static struct ext2_super_block SB;
static struct struct_io_channel IO;
static struct struct_io_manager MGR;

static errcode_t st_write_blk(io_channel ch, unsigned long block, int count, const void *buf)
{ g_writes++; CHECK(0, "read-only handle: channel write_blk reached"); return 0; }
static errcode_t st_write_blk64(io_channel ch, unsigned long long block, int count, const void *buf)
{ g_writes++; CHECK(0, "read-only handle: channel write_blk64 reached"); return 0; }
static errcode_t st_write_byte(io_channel ch, unsigned long offset, int count, const void *buf)
{ g_writes++; CHECK(0, "read-only handle: channel write_byte reached"); return 0; }

void h_write_bitmaps_ro(void)
{
	LOAD_IN();
	memset(&FS, 0, sizeof(FS));
	memset(&SB, 0, sizeof(SB));
	memset(&IO, 0, sizeof(IO));
	memset(&MGR, 0, sizeof(MGR));
	MGR.write_blk = st_write_blk;
	MGR.write_blk64 = st_write_blk64;
	MGR.write_byte = st_write_byte;
	IO.magic = EXT2_ET_MAGIC_IO_CHANNEL;
	IO.manager = &MGR;
	IO.block_size = 1024;
	FS.magic = IN.magic_bad ? 0 : EXT2_ET_MAGIC_EXT2FS_FILSYS;
	FS.super = &SB;
	FS.io = &IO;
	FS.blocksize = 1024;
	FS.flags = IN.flags & ~EXT2_FLAG_RW;
	FS.cluster_ratio_bits = IN.cluster_ratio_bits;
	ASSUME(IN.cluster_ratio_bits >= 0 && IN.cluster_ratio_bits < 32);
	SB.s_first_data_block = IN.first_data_block;
	g_writes = 0;
	errcode_t r = write_bitmaps(&FS, IN.do_inode, IN.do_block);
	CHECK(r == (IN.magic_bad ? EXT2_ET_MAGIC_EXT2FS_FILSYS : EXT2_ET_RO_FILSYS), "read-only handle: write_bitmaps refuses with EXT2_ET_RO_FILSYS");
	CHECK(g_writes == 0, "read-only handle: no channel write method was reached");
	CHECK(FS.flags == (IN.flags & ~EXT2_FLAG_RW), "flags unchanged");
	REACH("end");
}
