/*
 * C12, mechanism 5: "replay ... writes keys in block order" — misc/e2undo.c:key_compare() is the qsort
 * comparator; for the replay order to be well defined it has to be a total order on (fsblk, fileblk):
 * sign(RET) == sign of the lexicographic comparison.
 *
 * RESULT: unit key_compare (full statement) FAILS on the unchanged tree — the comparator returns
 * (int)(ka->fsblk - kb->fsblk): a 64-bit difference truncated to int, and fileblk is ignored.
 *   e.g. ka->fsblk = 0x80000000, kb->fsblk = 0          -> RET = INT_MIN  (says ka < kb, but ka > kb)
 *        ka->fsblk = 0x100000000, kb->fsblk = 0         -> RET = 0        (says equal)
 *   so on filesystems with >= 2^31 blocks qsort gets an inconsistent comparator.  (Severity: the order only
 *   matters when two keys overlap, which first-write-wins excludes for a well-formed undo file.)
 * Unit key_compare_near proves what does hold: for keys less than 2^31 blocks apart the sign is that of
 * the fsblk comparison.
 */
/* VERIF-UNIT
{
 "name": "key_compare_near",
 "props": ["C12"],
 "level": "U",
 "tier": "quick",
 "harness": "h_key_compare_near",
 "enforce": ["key_compare"],
 "functions": ["misc/e2undo.c:key_compare"],
 "assumes": ["the two keys are less than 2^31 filesystem blocks apart (beyond that the comparator is wrong: unit key_compare)",
             "only the fsblk component is compared; ties on fsblk are reported equal whatever fileblk is"],
 "native": false
}
*/
/* VERIF-UNIT
{
 "name": "key_compare",
 "props": ["C12"],
 "level": "U",
 "tier": "obs",
 "harness": "h_key_compare",
 "enforce": ["key_compare"],
 "functions": ["misc/e2undo.c:key_compare"],
 "assumes": [],
 "native": false
}
*/
#include "verif.h"

struct in_key {
	unsigned long long a_fsblk, a_fileblk, b_fsblk, b_fileblk;
	unsigned int a_crc, a_size, b_crc, b_size;
};
struct in_key IN;
#include "verif_in.h"

#define main e2undo_main
#include "misc/e2undo.c"
#undef main

#define KA ((const struct undo_key_info *)a)
#define KB ((const struct undo_key_info *)b)
#define LEX_LT(x, y) ((x)->fsblk < (y)->fsblk || ((x)->fsblk == (y)->fsblk && (x)->fileblk < (y)->fileblk))
#define NEAR(x, y) (((x)->fsblk >= (y)->fsblk ? (x)->fsblk - (y)->fsblk : (y)->fsblk - (x)->fsblk) < 0x80000000ULL)

#ifdef VERIF_UNIT_key_compare_near
static int key_compare(const void *a, const void *b)
	REQUIRES(NEAR(KA, KB))
	ASSIGNS()
	ENSURES((RET < 0) == (KA->fsblk < KB->fsblk))
	ENSURES((RET > 0) == (KA->fsblk > KB->fsblk));
#else
static int key_compare(const void *a, const void *b)
	ASSIGNS()
	ENSURES((RET < 0) == LEX_LT(KA, KB))
	ENSURES((RET > 0) == LEX_LT(KB, KA));
#endif

static struct undo_key_info A, B;
static void build(void)
{
	LOAD_IN();
	A.fsblk = IN.a_fsblk; A.fileblk = IN.a_fileblk; A.blk_crc = IN.a_crc; A.size = IN.a_size;
	B.fsblk = IN.b_fsblk; B.fileblk = IN.b_fileblk; B.blk_crc = IN.b_crc; B.size = IN.b_size;
}

void h_key_compare_near(void)
{
	build();
	ASSUME(NEAR(&A, &B));
	int r = key_compare(&A, &B);
	CHECK((r < 0) == (A.fsblk < B.fsblk) && (r > 0) == (A.fsblk > B.fsblk), "sign of the result is the order of the fs blocks");
	/* antisymmetry and transitivity follow from the sign statement (DFCC allows one top-level call) */
	REACH("end");
}

void h_key_compare(void)
{
	build();
	int r = key_compare(&A, &B);
	CHECK((r < 0) == LEX_LT(&A, &B) && (r > 0) == LEX_LT(&B, &A), "total order on (fsblk, fileblk)");
	REACH("end");
}
