/*
 * C12, mechanism 5 and the last sentence of the property: misc/e2undo.c:main() as an ordering-protocol unit (level P).
 * Everything main() calls that lives elsewhere is a stub that moves a ghost monitor (getopt results, io-manager open,
 * channel read/write/close, crc32c, ext2fs_open2 ...); check_filesystem() (same file) is replaced by a contract that
 * reports an arbitrary verdict.  No contract is enforced on main itself: the obligations are CHECKs inside the stubs (they
 * hold on EVERY path, including the ones that end in exit()) and in the harness after a normal return.
 *
 * OBLIGATIONS, from the property text ("e2undo refuses, without writing, an undo file whose header, key or block
 * checksums are damaged or whose recorded superblock does not match the device, unless forced; -n never writes; if a
 * recording run ended abnormally e2undo still restores every recorded block and only additionally marks the filesystem
 * as needing a check"):
 *  N  with -n: the device is opened WITHOUT IO_FLAG_RW, no io_channel_write_blk64 reaches any channel, ext2fs_open2
 *     (read-write re-open for the "needs fsck" mark) is not reached — on every path (undo file without the FINISHED
 *     flag, checksum errors under -f, I/O errors, ...);
 *  R  a write to the device (or the read-write ext2fs_open2) is reached only if -f was given or NOTHING was wrong: header
 *     crc matches, every key block read so far had the right magic and crc, every data block's crc matched its key,
 *     check_filesystem accepted the superblock, and no read failed — all of that established BEFORE the first write (an I/O
 *     error during the replay itself does not stop the replay, it is reported through F);  the undo file that is replayed is never opened
 *     read-write and never written;  once the first device write has happened main does not bail out (no exit());
 *  K  every key loaded is replayed: device writes = number of keys whose data could be read (unless -n);
 *  F  after a normal return the filesystem was re-opened read-write for the "needs fsck" mark iff not -n and (-f, or a
 *     block checksum error, or an I/O error, or the header lacks E2UNDO_STATE_FINISHED); then EXT2_VALID_FS is cleared,
 *     EXT2_ERROR_FS set iff checksum/I-O error, the superblock marked dirty and the filesystem closed.
 * The monitor decides "damaged" itself from the bytes the read stubs deliver and the values the crc stub returns.
 */
/* VERIF-UNIT
{
 "name": "e2undo_main",
 "defines": [
  "NO_INLINE_FUNCS",
  "CFG_TDB=1024",
  "CFG_BS=1024",
  "CFG_NKEYS=2"
 ],
 "props": [
  "C12",
  "C13"
 ],
 "level": "P",
 "tier": "quick",
 "harness": "h_e2undo",
 "replace": [
  "check_filesystem"
 ],
 "includes": [
  "misc"
 ],
 "unwind": 6,
 "unwindset": {
  "e2undo_main.0": 5,
  "e2undo_main.1": 3,
  "e2undo_main.2": 2,
  "e2undo_main.3": 3,
  "memcmp.0": 9
 },
 "cbmc_flags": [
  "--object-bits",
  "9"
 ],
 "unwind_reason": "getopt loop: the stub delivers at most 3 options; memcmp over the 8 magic bytes; key loops: num_keys is a literal <= 2, one key block; DFCC library loops",
 "functions": [
  "misc/e2undo.c:main"
 ],
 "assumes": [
  "at most 3 command-line options, each one of -f -h -n -o -v -z or an unknown one; -z with a non-empty file name",
  "undo file header: block_size 1024 and fs_block_size 1024 (literals: lblk += size/blocksize is a symbolic division otherwise), num_keys = 2 (literal; the loops are unwound; units e2undo_main / _k1 / _k0 cover 2, 1, 0 keys: the protocol flags the obligations depend on do not change with the iteration count); everything else in the header, the key block, the results of every callee arbitrary",
  "with -f the key block itself can be read (a failing key-block read under -f makes num_keys = i - 1 = SIZE_MAX: unit e2undo_main_keyread, findings/C12_e2undo_force_keyread)",
  "the com_err()/fprintf() diagnostics of e2undo.c are compiled out by macros (they have no effect on the protocol)",
  "check_filesystem by contract (arbitrary verdict, no write); qsort leaves the key array as it is (one of the permutations)",
  "the 512 KiB data buffer is represented by a 16-byte object: main only passes it to read/crc32c/write, which are stubs that ignore its content",
  "header and key block content: the uninitialised local header struct / the freshly allocated key buffer (arbitrary), each read once",
  "crc32c is a stub returning arbitrary values; the monitor compares them with the stored checksums itself",
  "-n is judged on the device and on the undo file that is replayed; with -n -z the NEW undo file named by -z is still created by the undo manager (not modelled here)"
 ],
 "backend": "minisat",
 "no_cross_check": true,
 "native": false,
 "timeout": 600
}
*/
/* VERIF-UNIT
{
 "name": "e2undo_main_k1",
 "defines": [
  "NO_INLINE_FUNCS",
  "CFG_TDB=1024",
  "CFG_BS=1024",
  "CFG_NKEYS=1"
 ],
 "props": [
  "C12",
  "C13"
 ],
 "level": "P",
 "tier": "quick",
 "harness": "h_e2undo",
 "replace": [
  "check_filesystem"
 ],
 "includes": [
  "misc"
 ],
 "unwind": 6,
 "unwindset": {
  "e2undo_main.0": 5,
  "e2undo_main.1": 3,
  "e2undo_main.2": 2,
  "e2undo_main.3": 3,
  "memcmp.0": 9
 },
 "cbmc_flags": [
  "--object-bits",
  "9"
 ],
 "unwind_reason": "getopt loop: the stub delivers at most 3 options; memcmp over the 8 magic bytes; key loops: num_keys is a literal <= 2, one key block; DFCC library loops",
 "functions": [
  "misc/e2undo.c:main"
 ],
 "assumes": [
  "at most 3 command-line options, each one of -f -h -n -o -v -z or an unknown one; -z with a non-empty file name",
  "undo file header: block_size 1024 and fs_block_size 1024 (literals: lblk += size/blocksize is a symbolic division otherwise), num_keys = 1 (literal; the loops are unwound; units e2undo_main / _k1 / _k0 cover 2, 1, 0 keys: the protocol flags the obligations depend on do not change with the iteration count); everything else in the header, the key block, the results of every callee arbitrary",
  "with -f the key block itself can be read (a failing key-block read under -f makes num_keys = i - 1 = SIZE_MAX: unit e2undo_main_keyread, findings/C12_e2undo_force_keyread)",
  "the com_err()/fprintf() diagnostics of e2undo.c are compiled out by macros (they have no effect on the protocol)",
  "check_filesystem by contract (arbitrary verdict, no write); qsort leaves the key array as it is (one of the permutations)",
  "the 512 KiB data buffer is represented by a 16-byte object: main only passes it to read/crc32c/write, which are stubs that ignore its content",
  "header and key block content: the uninitialised local header struct / the freshly allocated key buffer (arbitrary), each read once",
  "crc32c is a stub returning arbitrary values; the monitor compares them with the stored checksums itself",
  "-n is judged on the device and on the undo file that is replayed; with -n -z the NEW undo file named by -z is still created by the undo manager (not modelled here)"
 ],
 "backend": "minisat",
 "no_cross_check": true,
 "native": false,
 "timeout": 600
}
*/
/* VERIF-UNIT
{
 "name": "e2undo_main_k0",
 "defines": [
  "NO_INLINE_FUNCS",
  "CFG_TDB=1024",
  "CFG_BS=1024",
  "CFG_NKEYS=0"
 ],
 "props": [
  "C12",
  "C13"
 ],
 "level": "P",
 "tier": "quick",
 "harness": "h_e2undo",
 "replace": [
  "check_filesystem"
 ],
 "includes": [
  "misc"
 ],
 "unwind": 6,
 "unwindset": {
  "e2undo_main.0": 5,
  "e2undo_main.1": 3,
  "e2undo_main.2": 2,
  "e2undo_main.3": 3,
  "memcmp.0": 9
 },
 "cbmc_flags": [
  "--object-bits",
  "9"
 ],
 "unwind_reason": "getopt loop: the stub delivers at most 3 options; memcmp over the 8 magic bytes; key loops: num_keys is a literal <= 2, one key block; DFCC library loops",
 "functions": [
  "misc/e2undo.c:main"
 ],
 "assumes": [
  "at most 3 command-line options, each one of -f -h -n -o -v -z or an unknown one; -z with a non-empty file name",
  "undo file header: block_size 1024 and fs_block_size 1024 (literals: lblk += size/blocksize is a symbolic division otherwise), num_keys = 0 (literal; the loops are unwound; units e2undo_main / _k1 / _k0 cover 2, 1, 0 keys: the protocol flags the obligations depend on do not change with the iteration count); everything else in the header, the key block, the results of every callee arbitrary",
  "with -f the key block itself can be read (a failing key-block read under -f makes num_keys = i - 1 = SIZE_MAX: unit e2undo_main_keyread, findings/C12_e2undo_force_keyread)",
  "the com_err()/fprintf() diagnostics of e2undo.c are compiled out by macros (they have no effect on the protocol)",
  "check_filesystem by contract (arbitrary verdict, no write); qsort leaves the key array as it is (one of the permutations)",
  "the 512 KiB data buffer is represented by a 16-byte object: main only passes it to read/crc32c/write, which are stubs that ignore its content",
  "header and key block content: the uninitialised local header struct / the freshly allocated key buffer (arbitrary), each read once",
  "crc32c is a stub returning arbitrary values; the monitor compares them with the stored checksums itself",
  "-n is judged on the device and on the undo file that is replayed; with -n -z the NEW undo file named by -z is still created by the undo manager (not modelled here)"
 ],
 "backend": "minisat",
 "no_cross_check": true,
 "native": false,
 "timeout": 600
}
*/
/* VERIF-UNIT
{
 "name": "e2undo_main_keyread",
 "defines": [
  "NO_INLINE_FUNCS",
  "CFG_TDB=1024",
  "CFG_BS=1024",
  "CFG_NKEYS=2",
  "KEYREAD_MAY_FAIL=1"
 ],
 "props": [
  "C12",
  "C06",
  "C13"
 ],
 "level": "P",
 "tier": "quick",
 "harness": "h_e2undo",
 "replace": [
  "check_filesystem"
 ],
 "includes": [
  "misc"
 ],
 "unwind": 6,
 "unwindset": {
  "e2undo_main.0": 5,
  "e2undo_main.1": 3,
  "e2undo_main.2": 2,
  "e2undo_main.3": 3,
  "memcmp.0": 9
 },
 "cbmc_flags": [
  "--object-bits",
  "9"
 ],
 "unwind_reason": "getopt loop: the stub delivers at most 3 options; memcmp over the 8 magic bytes; key loops: num_keys is a literal <= 2, one key block; DFCC library loops",
 "functions": [
  "misc/e2undo.c:main"
 ],
 "assumes": [
  "at most 3 command-line options, each one of -f -h -n -o -v -z or an unknown one; -z with a non-empty file name",
  "undo file header: block_size 1024 and fs_block_size 1024 (literals: lblk += size/blocksize is a symbolic division otherwise), num_keys = 2 (literal; the loops are unwound; units e2undo_main / _k1 / _k0 cover 2, 1, 0 keys: the protocol flags the obligations depend on do not change with the iteration count); everything else in the header, the key block, the results of every callee arbitrary",
  "with -f the key block itself can be read (a failing key-block read under -f makes num_keys = i - 1 = SIZE_MAX: unit e2undo_main_keyread, findings/C12_e2undo_force_keyread)",
  "the com_err()/fprintf() diagnostics of e2undo.c are compiled out by macros (they have no effect on the protocol)",
  "check_filesystem by contract (arbitrary verdict, no write); qsort leaves the key array as it is (one of the permutations)",
  "the 512 KiB data buffer is represented by a 16-byte object: main only passes it to read/crc32c/write, which are stubs that ignore its content",
  "header and key block content: the uninitialised local header struct / the freshly allocated key buffer (arbitrary), each read once",
  "crc32c is a stub returning arbitrary values; the monitor compares them with the stored checksums itself",
  "-n is judged on the device and on the undo file that is replayed; with -n -z the NEW undo file named by -z is still created by the undo manager (not modelled here)",
  "OBSERVATION: without the assumption about key-block reads under -f the unit FAILS (unwinding assertion of the replay loop / key access outside the key array): undo_ctx.num_keys = i - 1 underflows for the first key block; findings/C12_e2undo_force_keyread"
 ],
 "backend": "minisat",
 "no_cross_check": true,
 "native": false,
 "timeout": 600
}
*/
#include "verif.h"

#ifndef CFG_TDB
#define CFG_TDB 1024
#define CFG_BS 1024
#endif
#ifndef CFG_NKEYS
#define CFG_NKEYS 2
#endif

struct in_e2undo {
	int argc, optind_end;
	unsigned char opts[3];
	unsigned char nopts;
	unsigned char same_file, end_nonzero;
	int mount_flags;
};
struct in_e2undo IN;
#include "verif_in.h"

#ifndef VERIF_NATIVE
int nondet_int(void);
long nondet_long(void);
unsigned int nondet_uint(void);
#endif

/* diagnostics only: the variadic com_err()/fprintf() calls (about 50 of them) are compiled out — under DFCC each costs
 * tens of thousands of clauses for its argument array; printf stays (CBMC built-in) */
#include <stdio.h>
#include "et/com_err.h"
#define com_err(...) ((void)0)
#define fprintf(...) ((void)0)
#define main e2undo_main
#include "misc/e2undo.c"
#undef main
#undef com_err
#undef fprintf

struct e2undo_mon {
	/* options as delivered by the getopt stub */
	int opt_f, opt_n, opt_z, opt_h;
	unsigned int nopt;
	/* channels */
	unsigned int opens;
	int undo_flags, dev_flags;
	/* verdicts of the monitor on what the stubs delivered */
	int hdr_seen, hdr_bad, incomplete;
	int sb_checked, sb_bad;
	int key_bad, blk_bad, io_err;
	unsigned int kb_reads, data_crcs, data_reads, cur_slot;
	unsigned int kb_magic, kb_crc;	/* of the key block delivered last */
	unsigned int readable_keys;	/* data blocks the replay loop could read */
	/* effects */
	unsigned int dev_writes, undo_writes, open2_calls, dirty_marks, fs_closes, ch_closes;
	int replay_started;
	int wrong_before_replay;	/* ANYTHING_WRONG when the verification pass was over */
	int viol;
	const void *keyb_buf;		/* the key-block buffer main allocated */
	const void *data_buf;		/* the data buffer main allocated */
	const void *hdr_buf;
};
struct e2undo_mon M;

static struct struct_io_channel UNDO_CH, DEV_CH;
static struct struct_io_manager UNIX_MGR, UNDO_MGR;
io_manager unix_io_manager = &UNIX_MGR;
io_manager undo_io_manager = &UNDO_MGR;
const struct error_table et_ext2_error_table;
static struct struct_ext2_filsys FS;
static struct ext2_super_block FS_SUPER;
static char S_PROG[] = "e2undo", S_UNDO[] = "u", S_DEV[] = "d", S_ARG[] = "a", S_END[2];
char *optarg;
int optind = 1, opterr, optopt;

#define ANYTHING_WRONG (M.hdr_bad || M.sb_bad || M.key_bad || M.blk_bad || M.io_err)

/* ---- same file, by contract ---- */
static int check_filesystem(struct undo_context *ctx, io_channel channel)
	REQUIRES(M.opens == 2 && channel == &DEV_CH)
	ASSIGNS(M.sb_checked, M.sb_bad)
	ENSURES(M.sb_checked == 1 && M.sb_bad == (RET != 0));

/* ---- process / libc ---- */
void exit(int status)
{
	CHECK(M.dev_writes == 0 && M.open2_calls == 0, "main gives up (exit) only before anything was written");
	CHECK(status != 0, "a refusal is reported by a non-zero exit status");
	REACH("exit");
	ASSUME(0);
}
char *setlocale(int category, const char *locale) { return 0; }
char *bindtextdomain(const char *domainname, const char *dirname) { return 0; }
char *textdomain(const char *domainname) { return 0; }
char *gettext(const char *msgid) { return (char *)msgid; }
char *(*set_com_err_gettext(char *(*new_proc)(const char *)))(const char *) { return 0; }
errcode_t add_error_table(const struct error_table *et) { return 0; }
int strcmp(const char *a, const char *b) { return IN.same_file ? 0 : 1; }
unsigned long long strtoull(const char *nptr, char **endptr, int base)
{
	S_END[0] = IN.end_nonzero ? 'x' : 0;
	*endptr = S_END;
	return nondet_uint();
}
int snprintf(char *str, size_t size, const char *format, ...)
{
	int r = nondet_int();
	ASSUME(r >= 0);
	return r;	/* the string goes to io_channel_set_options only, a stub */
}
int getopt(int argc, char *const argv[], const char *optstring)
{
	unsigned char c;
	if (M.nopt >= IN.nopts || M.nopt >= 3) {
		optind = IN.optind_end;
		return -1;
	}
	c = IN.opts[M.nopt++];
	switch (c) {
	case 'f': M.opt_f = 1; return 'f';
	case 'h': M.opt_h = 1; return 'h';
	case 'n': M.opt_n = 1; return 'n';
	case 'o': optarg = S_ARG; return 'o';
	case 'v': return 'v';
	case 'z': M.opt_z = 1; optarg = S_ARG; return 'z';
	default: return '?';
	}
}
void qsort(void *base, size_t nmemb, size_t size, int (*compar)(const void *, const void *)) { }

/* ---- libext2fs ---- */
errcode_t ext2fs_get_mem(unsigned long size, void *ptr)
{
	void *pp;
	if (size == E2UNDO_MAX_EXTENT_BLOCKS * (unsigned long)CFG_TDB) {
		/* the 512-undo-block data buffer: main only hands it to read/crc/write (all stubs here, content
		 * irrelevant), so a small object stands for it (512 KiB of array per SSA version is out of memory) */
		pp = malloc(16);
		M.data_buf = pp;
	} else if (size == CFG_TDB) {
		pp = malloc(CFG_TDB);
		M.keyb_buf = pp;
	} else {
		pp = malloc(size);	/* the key array: 32 bytes per key, num_keys is a literal */
	}
	*(void **)ptr = pp;
	return pp ? 0 : EXT2_ET_NO_MEMORY;
}
errcode_t ext2fs_free_mem(void *ptr)
{
	free(*(void **)ptr);
	*(void **)ptr = 0;
	return 0;
}
errcode_t ext2fs_check_if_mounted(const char *file, int *mount_flags)
{
	*mount_flags = IN.mount_flags;
	return nondet_long();
}
errcode_t set_undo_io_backing_manager(io_manager manager) { return nondet_long(); }
errcode_t set_undo_io_backup_file(char *file_name) { return nondet_long(); }
errcode_t io_channel_set_options(io_channel channel, const char *opts)
{
	if (channel != &DEV_CH)
		M.viol = 1;
	return nondet_long();
}
static errcode_t st_open(const char *name, int flags, io_channel *channel)
{
	long r = nondet_long();
	M.opens++;
	if (M.opens == 1) {
		/* the undo file that is replayed */
		CHECK(!(flags & IO_FLAG_RW), "the undo file being replayed is not opened read-write");
		M.undo_flags = flags;
		if (name != S_UNDO)
			M.viol = 1;
		if (r == 0)
			*channel = &UNDO_CH;
	} else {
		CHECK(M.opens == 2, "exactly two channels are opened");
		CHECK(!M.opt_n || !(flags & IO_FLAG_RW), "-n: the device is not opened read-write");
		CHECK(M.hdr_seen, "the device is opened after the undo header has been read");
		M.dev_flags = flags;
		if (name != S_DEV)
			M.viol = 1;
		if (r == 0)
			*channel = &DEV_CH;
	}
	return r;
}
static errcode_t st_set_blksize(io_channel ch, int blksize)
{
	ch->block_size = blksize;
	if (ch == &DEV_CH) {
		/* the only set_blksize of the device in main: just before the replay loop */
		M.replay_started = 1;
		M.wrong_before_replay = ANYTHING_WRONG;
	}
	return 0;
}
static errcode_t st_close(io_channel ch)
{
	M.ch_closes++;
	return 0;
}
__u32 ext2fs_crc32c_le(__u32 crc, unsigned char const *p, size_t len)
{
	__u32 c = nondet_uint();
	if ((const void *)p == M.hdr_buf) {
		if (c != ((const struct undo_header *)p)->header_crc)
			M.hdr_bad = 1;
	} else if ((const void *)p == M.keyb_buf) {
		if (M.kb_magic != KEYBLOCK_MAGIC || c != M.kb_crc)
			M.key_bad = 1;
	} else {
		/* the data block read last in the verification pass: key number cur_slot of the key block */
		if (M.cur_slot < CFG_NKEYS && c != ((const struct undo_key_block *)M.keyb_buf)->keys[M.cur_slot].blk_crc)
			M.blk_bad = 1;
		M.data_crcs++;
	}
	return c;
}
errcode_t io_channel_read_blk64(io_channel ch, unsigned long long block, int count, void *buf)
{
	long r = nondet_long();
	if (ch == &DEV_CH)
		return r;	/* only check_filesystem (replaced) reads the device */
	if (ch != &UNDO_CH) {
		M.viol = 1;
		return r;
	}
	if (!M.hdr_seen) {
		/* the header: 512 arbitrary bytes */
		struct undo_header *h = buf;
		if (block != 0 || count != -(int)sizeof(struct undo_header))
			M.viol = 1;
		M.hdr_seen = 1;
		M.hdr_buf = buf;
		/* content: main's header struct is an uninitialised local, i.e. already arbitrary; read once */
		h->block_size = CFG_TDB;
		h->fs_block_size = CFG_BS;
		h->num_keys = CFG_NKEYS;	/* literal: the size of the key array and the loop bounds become constants */
		M.incomplete = !(h->state & E2UNDO_STATE_FINISHED);
		return r;
	}
	if (buf == M.keyb_buf) {
		/* a key block */
		if (count != 1 || ch->block_size != CFG_TDB)
			M.viol = 1;
		M.kb_reads++;
		M.data_crcs = 0;
		/* content: the freshly allocated key buffer is arbitrary; with num_keys <= 2 it is read exactly once */
		if (M.kb_reads > 1)
			M.viol = 1;
		M.kb_magic = ((struct undo_key_block *)buf)->magic;
		M.kb_crc = ((struct undo_key_block *)buf)->crc;
#ifndef KEYREAD_MAY_FAIL
		ASSUME(r == 0 || !M.opt_f);
#endif
		if (r)
			M.io_err = 1;
		return r;
	}
	/* a data block (content irrelevant: crc32c is a stub) */
	if (buf != M.data_buf)
		M.viol = 1;
	if (!M.replay_started)
		M.cur_slot = M.data_reads++;
	if (r)
		M.io_err = 1;
	else if (M.replay_started)
		M.readable_keys++;
	return r;
}
errcode_t io_channel_write_blk64(io_channel ch, unsigned long long block, int count, const void *buf)
{
	long r = nondet_long();
	CHECK(!M.opt_n, "-n: no write reaches a channel");
	CHECK(ch == &DEV_CH, "only the device is written, never the undo file that is replayed");
	CHECK(M.replay_started, "no write before the whole undo file has been verified");
	CHECK(M.opt_f || !M.wrong_before_replay, "a write is reached only if the verification pass found nothing wrong with the undo file, or -f");
	CHECK(M.sb_checked || M.opt_f, "a write is reached only after check_filesystem, or -f");
	CHECK(M.dev_flags & IO_FLAG_RW, "the device was opened read-write");
	M.dev_writes++;
	if (r)
		M.io_err = 1;
	return r;
}
errcode_t ext2fs_open2(const char *name, const char *io_options, int flags, int superblock,
		       unsigned int block_size, io_manager manager, ext2_filsys *ret_fs)
{
	long r = nondet_long();
	CHECK(!M.opt_n, "-n: the filesystem is not re-opened for the needs-fsck mark");
	CHECK(flags & EXT2_FLAG_RW, "needs-fsck mark: opened read-write");
	CHECK(M.ch_closes >= 1, "the replay channel is closed before the filesystem is re-opened");
	M.open2_calls++;
	if (r == 0) {
		FS.super = &FS_SUPER;
		FS_SUPER.s_state = EXT2_VALID_FS;
		*ret_fs = &FS;
	}
	return r;
}
void ext2fs_mark_super_dirty(ext2_filsys fs)
{
	if (fs != &FS)
		M.viol = 1;
	M.dirty_marks++;
}
errcode_t ext2fs_close_free(ext2_filsys *fs)
{
	CHECK(M.dirty_marks == 1, "superblock marked dirty before the filesystem is closed");
	CHECK(!(FS_SUPER.s_state & EXT2_VALID_FS), "needs-fsck mark: EXT2_VALID_FS cleared");
	CHECK(!(FS_SUPER.s_state & EXT2_ERROR_FS) == !(M.blk_bad || M.io_err), "EXT2_ERROR_FS set iff a checksum or I/O error happened");
	M.fs_closes++;
	return 0;
}

void h_e2undo(void)
{
	char *argv[8] = { S_PROG, S_ARG, S_ARG, S_ARG, S_ARG, S_ARG, S_ARG, 0 };
	int rc;

	LOAD_IN();
	memset(&M, 0, sizeof(M));
	memset(&UNIX_MGR, 0, sizeof(UNIX_MGR));
	memset(&UNDO_MGR, 0, sizeof(UNDO_MGR));
	memset(&UNDO_CH, 0, sizeof(UNDO_CH));
	memset(&DEV_CH, 0, sizeof(DEV_CH));
	UNIX_MGR.magic = UNDO_MGR.magic = EXT2_ET_MAGIC_IO_MANAGER;
	UNIX_MGR.open = UNDO_MGR.open = st_open;
	UNIX_MGR.set_blksize = UNDO_MGR.set_blksize = st_set_blksize;
	UNIX_MGR.close = UNDO_MGR.close = st_close;
	UNDO_CH.magic = DEV_CH.magic = EXT2_ET_MAGIC_IO_CHANNEL;
	UNDO_CH.manager = &UNIX_MGR;
	DEV_CH.manager = &UNIX_MGR;	/* close/set_blksize go through the same stubs for both managers */
	UNDO_CH.block_size = DEV_CH.block_size = 1024;
	/* DFCC havocs every static object: give the strings and the globals of libc / e2undo.c their start values */
	S_PROG[0] = 'e'; S_PROG[1] = 0;
	S_UNDO[0] = 'u'; S_UNDO[1] = 0;
	S_DEV[0] = 'd'; S_DEV[1] = 0;
	S_ARG[0] = 'a'; S_ARG[1] = 0;
	S_END[0] = S_END[1] = 0;
	unix_io_manager = &UNIX_MGR;
	undo_io_manager = &UNDO_MGR;
	undo_file = 0;
	prg_name = 0;
	optarg = 0;
	optind = 1;
	ASSUME(IN.argc >= 1 && IN.argc <= 7 && IN.optind_end >= 1 && IN.optind_end <= 5);
	/* the two positional arguments */
	argv[IN.optind_end] = S_UNDO;
	argv[IN.optind_end + 1] = S_DEV;

	rc = e2undo_main(IN.argc, argv);

	/* normal return */
	CHECK(M.viol == 0, "channels and names as expected");
	CHECK(M.undo_writes == 0, "the undo file that is replayed is never written");
	CHECK(M.opt_n ? M.dev_writes == 0 : M.dev_writes == M.readable_keys, "every key whose data could be read is written back (none with -n)");
	CHECK(M.open2_calls == (!M.opt_n && (M.opt_f || M.blk_bad || M.io_err || M.incomplete)),
	      "needs-fsck re-open iff not -n and (-f, checksum error, I/O error or undo file not FINISHED)");
	CHECK(M.fs_closes <= M.open2_calls, "closed only if re-opened");
	CHECK((rc != 0) == (M.blk_bad != 0), "main returns csum_error");
	REACH("returned");
	if (M.opt_n) REACH("dry-run");
	if (M.opt_n && M.incomplete) REACH("dry-run-incomplete");
#if CFG_NKEYS >= 2
	if (!M.opt_n && M.dev_writes == 2) REACH("two-keys-replayed");
#endif
#if CFG_NKEYS >= 1
	if (M.opt_n && M.opt_f && M.blk_bad) REACH("dry-run-forced-csum-error");
	if (!M.opt_n && !M.opt_f && M.dev_writes >= 1 && !M.incomplete) REACH("clean-replay");
	if (M.opt_f && ANYTHING_WRONG && M.dev_writes >= 1) REACH("forced-replay");
#endif
	if (M.fs_closes == 1) REACH("marked-needs-fsck");
	REACH("end");
}
