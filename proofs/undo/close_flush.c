/*
 * C12: undo_close / undo_flush ordering (protocol units).
 * Statement (DESIGN §6 C12): the undo indexes are written and the undo file is flushed BEFORE the backing
 * ("real") channel is flushed or closed — otherwise the device can hold new data whose old content is not
 * yet durable in the undo file.
 * Ghost clock g_seq; write_undo_indexes (same file) is replaced by a contract that stamps g_idx_seq and
 * records its flush argument and result; the managers of the backing channel and of the undo-file channel
 * are harness stubs that stamp g_real_*_seq / g_ufile_*_seq.
 *
 * RESULT: undo_close passes.  undo_flush FAILS on the unchanged tree (kept "wip"): undo_flush() flushes the
 * backing channel only — it neither writes the indexes nor flushes the undo-file channel, so after
 * io_channel_flush(fs->io) the device is durable while up to a cache-full of undo blocks and the header
 * still sit in the undo channel's user-space cache (lost if the process is then killed).
 */
/* VERIF-UNIT
{
 "name": "undo_close",
 "props": ["C12"],
 "level": "P",
 "tier": "quick",
 "harness": "h_close",
 "replace": ["write_undo_indexes"],
 "sources": ["lib/ext2fs/io_manager.c"],
 "unwind": 4,
 "unwind_reason": "undo_close has no loop; the bound only cuts the spurious recursion through manager function pointers in the over-approximated call graph (unwinding assertions prove it is never taken)",
 "functions": ["lib/ext2fs/undo_io.c:undo_close"],
 "assumes": ["write_undo_indexes(data, 1) flushes the undo file when it returns 0 (its contract; body: io_channel_flush(data->undo_file) when flush != 0)",
             "refcount == 1 (last reference)", "free() is a no-op stub and the objects undo_close releases are harness statics (keeps manager method pointers constant for symex)"],
 "native": false
}
*/
/* VERIF-UNIT
{
 "name": "undo_flush",
 "props": ["C12"],
 "level": "P",
 "tier": "obs",
 "harness": "h_flush",
 "replace": ["write_undo_indexes"],
 "sources": ["lib/ext2fs/io_manager.c"],
 "unwind": 4,
 "unwind_reason": "no loop; cuts the spurious recursion through manager function pointers",
 "functions": ["lib/ext2fs/undo_io.c:undo_flush"],
 "assumes": [],
 "native": false
}
*/
#include "verif.h"

struct in_cf {
	unsigned char have_real, have_undo, env_set;
	unsigned char choice[6];
};
struct in_cf IN;
#include "verif_in.h"

unsigned int g_seq;
unsigned int g_idx_seq, g_idx_flush, g_real_close_seq, g_real_flush_seq, g_ufile_close_seq, g_ufile_flush_seq;
long g_idx_ret;
unsigned int g_state_at_idx;
unsigned int g_choice;

/* libc free() is a harness no-op: channel, private data, name, tdb_file and key block are harness statics so
 * that symex sees constant manager method pointers (heap objects made the function-pointer dispatch explode);
 * what undo_close frees is not part of the ordering statement */
#ifndef VERIF_NATIVE
void verif_free(void *p) { }
#define free verif_free
#endif
#include "lib/ext2fs/undo_io.c"
#undef free

static errcode_t write_undo_indexes(struct undo_private_data *data, int flush)
	ASSIGNS(g_seq, g_idx_seq, g_idx_flush, g_idx_ret, g_state_at_idx, data->hdr, data->keys_in_block, data->key_blk_num, data->undo_blk_num)
	ENSURES(g_seq == OLD(g_seq) + 1 && g_idx_seq == g_seq && g_idx_flush == (unsigned)flush && g_idx_ret == RET)
	ENSURES(g_state_at_idx == OLD(data->hdr.state));

static struct struct_io_channel REAL, UFILE;
static struct struct_io_manager REAL_MGR, UFILE_MGR;

static errcode_t next_choice(void)
{
	unsigned char c = g_choice < 6 ? IN.choice[g_choice] : 0;
	g_choice++;
	return c;
}
static errcode_t st_real_close(io_channel ch) { g_real_close_seq = ++g_seq; return next_choice(); }
static errcode_t st_real_flush(io_channel ch) { g_real_flush_seq = ++g_seq; return next_choice(); }
static errcode_t st_ufile_close(io_channel ch) { g_ufile_close_seq = ++g_seq; return next_choice(); }
static errcode_t st_ufile_flush(io_channel ch) { g_ufile_flush_seq = ++g_seq; return next_choice(); }

char *ext2fs_safe_getenv(const char *arg) { return IN.env_set ? "1" : 0; }
errcode_t ext2fs_remove_exit_fn(ext2_exit_fn fn, void *data) { return 0; }
void ext2fs_free_generic_bitmap(ext2fs_inode_bitmap bitmap) { }

static io_channel CHP;
static struct undo_private_data *DP;

static char NAMEBUF[4];
static unsigned long long KEYBUF[128];
static struct struct_io_channel CHS;
static struct undo_private_data DS;

static void build(int have_real, int have_undo, int heap)
{
	memset(&REAL, 0, sizeof(REAL));
	memset(&UFILE, 0, sizeof(UFILE));
	memset(&REAL_MGR, 0, sizeof(REAL_MGR));
	memset(&UFILE_MGR, 0, sizeof(UFILE_MGR));
	REAL_MGR.close = st_real_close;
	REAL_MGR.flush = st_real_flush;
	UFILE_MGR.close = st_ufile_close;
	UFILE_MGR.flush = st_ufile_flush;
	REAL.magic = UFILE.magic = EXT2_ET_MAGIC_IO_CHANNEL;
	REAL.manager = &REAL_MGR;
	UFILE.manager = &UFILE_MGR;
	if (heap) {
		CHP = malloc(sizeof(*CHP));
		DP = malloc(sizeof(*DP));
	} else {
		CHP = &CHS;
		DP = &DS;
	}
	memset(CHP, 0, sizeof(*CHP));
	memset(DP, 0, sizeof(*DP));
	CHP->magic = EXT2_ET_MAGIC_IO_CHANNEL;
	CHP->manager = undo_io_manager;
	CHP->refcount = 1;
	CHP->private_data = DP;
	CHP->name = NAMEBUF;
	DP->magic = EXT2_ET_MAGIC_UNIX_IO_CHANNEL;
	if (have_real)
		DP->real = &REAL;
	if (have_undo) {
		DP->undo_file = &UFILE;
		DP->tdb_file = NAMEBUF;
		DP->keyb = (struct undo_key_block *)KEYBUF;
		DP->tdb_data_size = 1024;
	}
	g_seq = 0;
	g_idx_seq = g_idx_flush = g_real_close_seq = g_real_flush_seq = g_ufile_close_seq = g_ufile_flush_seq = 0;
	g_idx_ret = -1; g_choice = 0; g_state_at_idx = 0;
}

#define FOR_CFG(heap, call) do { \
	if (IN.have_real) { if (IN.have_undo) { build(1, 1, heap); call; } else { build(1, 0, heap); call; } } \
	else { if (IN.have_undo) { build(0, 1, heap); call; } else { build(0, 0, heap); call; } } } while (0)

void h_close(void)
{
	LOAD_IN();
	errcode_t r = 0;
	FOR_CFG(0, r = undo_close(CHP));
	CHECK(g_idx_seq != 0 && g_idx_flush == 1, "closing writes the undo indexes with flush requested");
	CHECK(IN.env_set || (g_state_at_idx & E2UNDO_STATE_FINISHED), "a normal close marks the undo file finished before the header is written");
	if (IN.have_real) {
		CHECK(g_real_close_seq != 0, "the backing channel is closed");
		CHECK(g_idx_seq < g_real_close_seq, "indexes written (and undo file flushed) BEFORE the backing channel is closed");
		REACH("real-closed");
	}
	if (IN.have_undo)
		CHECK(g_ufile_close_seq > g_idx_seq, "the undo file is closed only after its indexes were written");
	CHECK(g_idx_ret == 0 || r == g_idx_ret, "a failure to write the indexes is reported to the caller");
	REACH("end");
}

void h_flush(void)
{
	LOAD_IN();
	errcode_t r = 0;
	FOR_CFG(0, r = undo_flush(CHP));
	if (IN.have_real && IN.have_undo) {
		CHECK(g_real_flush_seq != 0, "the backing channel is flushed");
		CHECK(g_ufile_flush_seq != 0 && g_ufile_flush_seq < g_real_flush_seq, "the undo file is flushed BEFORE the backing channel is flushed");
		REACH("both");
	}
	REACH("end");
}
