/*
 * C12, mechanisms 1+2: undo_write_tdb() — "the old content of every not-yet-saved undo block in the range is
 * read and appended to the undo file; a bitmap of already-saved blocks guarantees first-write-wins".
 *
 * SPEC (independent of the code's arithmetic; undo_io.c's own comment: "We divide the disk to blocks of
 * tdb_data_size"): undo block t stands for the DEVICE bytes [t*tdb, (t+1)*tdb), i.e. the filesystem bytes
 * [t*tdb - off, (t+1)*tdb - off) (off = filesystem offset).  A request (block,count) on a channel with
 * block size bs touches the filesystem bytes [block*bs, block*bs+SIZE) (specs/undo_spec.h), hence the undo
 * blocks t0 = (block*bs+off)/tdb ... t1 = (block*bs+off+SIZE-1)/tdb.
 * For ONE ghost undo block t* (verif_k), after undo_write_tdb returned 0 with an undo file configured:
 *   t* in [t0,t1]: bit(t*) is set, and
 *       bit was clear on entry: the backing channel was read exactly once for exactly the filesystem range
 *           [t* *tdb - off, +tdb) (no backing-channel write happens inside undo_write_tdb at all), the very
 *           buffer that read filled was appended at the next free undo-file block with the byte count that
 *           was read, and when the index was written the last key of the key block covered that range
 *           (fsblk*bs <= start, start+len <= fsblk*bs+size);  a zero-length short read appends nothing;
 *       bit was set on entry: no such read, nothing appended for t* (first write wins);
 *   t* outside [t0,t1]: bit unchanged, not read, nothing appended.
 * Ghost registers (declared in include/e2fsprogs_verif.h, defined here):
 *   verif_k = t*; verif_g6 = t0; verif_g0 = bit(t*); verif_old_bit = bit(t*) on entry;
 *   verif_g1 = number of exact backing reads for t*; verif_g2 = data appends for t*; verif_g3 = index writes
 *   that covered t*; verif_g4 = 1 between the read for t* and its index write; verif_g5 = bytes that read
 *   delivered; verif_g7 = protocol violations seen by the stubs (must stay 0); verif_p0 = buffer of the read.
 *
 * Needs the in-place loop contract of hooks-pending/b7.diff (lib/ext2fs/undo_io.c).
 *
 * STATUS (both units "wip", time box exceeded):
 *  - With the loop contract of hooks-pending/b7.diff and ONE configuration (bs=1024, tdb=1024, define ONE_CFG)
 *    every obligation of undo_write_tdb_aligned is discharged (1635 obligations, ~90-130 s with cadical), BUT the
 *    canaries REACH:saved / REACH:already-saved / in-range-ok are NOT reachable: cbmc --cover location shows
 *    that the step copy of the loop (after the loop-contract havoc) is never entered, i.e. the proof is vacuous
 *    for the interesting paths.  Suspected cause: the DFCC library loops over the 29 assigns-clause targets of
 *    the loop need more than the global --unwind 8 (paths are cut); with "unwind": 40 the query did not finish
 *    in 280 s on the shared machine.  Next steps: shrink the loop assigns clause (group the ghost registers
 *    in one struct / drop unused targets), or give the library loops their own unwindset.
 *  - All 9 configurations in one harness run out of memory (12 GB) -> use ONE_CFG per configuration.
 *  - DFCC forbids malloc/free inside a contract loop: the per-block buffer is served from a harness pool
 *    (verif_malloc/verif_free, see below).
 *
 * EXPECTED RESULT of the unrestricted unit undo_write_tdb (confirmed so far only by reading the code and by
 * the end-to-end demo findings/C12_write_byte_offset/demo2.sh, NOT yet by a verifier counterexample):
 *   (a) off % tdb != 0: the code reads the range starting at t*tdb + off%tdb, not t*tdb, while choosing t by
 *       (block*bs+off)/tdb — the first (off%tdb) bytes of the first touched undo block are not saved unless
 *       block t-1 happens to be saved already (mke2fs -z with -E offset=32256 is not undone);
 *   (b) tdb < bs: backing_blk_num = .../bs truncates, every undo block inside one fs block re-reads the first
 *       tdb bytes of that fs block (not reachable from the tools: tdb >= bs there).
 */
/* VERIF-UNIT
{
 "name": "undo_write_tdb_aligned",
 "defines": ["ONE_CFG=1024,1024"],
 "props": ["C12"],
 "level": "U",
 "tier": "wip",
 "harness": "h_write_tdb_aligned",
 "enforce": ["undo_write_tdb"],
 "replace": ["undo_setup_tdb", "write_undo_indexes"],
 "loop_contracts": true,
 "sources": ["lib/ext2fs/io_manager.c"],
 "cbmc_flags": ["--object-bits", "12"],
 "unwind": 40,
 "unwind_reason": "only DFCC library loops over assigns-clause targets are unwound; the function's own loop is closed by its in-place loop contract",
 "functions": ["lib/ext2fs/undo_io.c:undo_write_tdb"],
 "assumes": ["channel block size bs and tdb_data_size in {1024,4096,32768}, tdb % bs == 0, filesystem offset % tdb == 0 (other configurations: unit undo_write_tdb, which fails)",
             "undo file already set up by an earlier call (tdb_written == 1, key block allocated): undo_setup_tdb replaced by a contract that says so",
             "request byte count fits in int, block <= 2^44, 0 <= offset <= 2^60",
             "bits of undo blocks other than t* are arbitrary (over-approximated); crc32c is an uninterpreted stub; host is little-endian",
             "write_undo_indexes behaves as its contract says (key block bookkeeping; proved by unit write_undo_indexes)",
             "a short read reports 0 <= actual_size < tdb through the read_error handler as unix_io does",
             "the last key of the current key block has a size that is a multiple of the fs block size (no earlier short read)",
             "malloc/free of the per-block buffer are served from a harness pool (DFCC forbids allocation inside contract loops); allocation may still fail"],
 "backend": "cadical",
 "native": false
}
*/
/* VERIF-UNIT
{
 "name": "undo_write_tdb",
 "props": ["C12"],
 "level": "U",
 "tier": "wip",
 "harness": "h_write_tdb",
 "enforce": ["undo_write_tdb"],
 "replace": ["undo_setup_tdb", "write_undo_indexes"],
 "loop_contracts": true,
 "sources": ["lib/ext2fs/io_manager.c"],
 "cbmc_flags": ["--object-bits", "12"],
 "unwind": 40,
 "unwind_reason": "only DFCC library loops over assigns-clause targets are unwound; the function's own loop is closed by its in-place loop contract",
 "functions": ["lib/ext2fs/undo_io.c:undo_write_tdb"],
 "assumes": ["as undo_write_tdb_aligned but any of the 9 (bs, tdb) combinations and any offset in [0, 2^60]"],
 "native": false
}
*/
#include "verif.h"
#include "undo_spec.h"

struct in_tdb {
	int cfg;
	unsigned long long block;
	int count;
	long long fs_offset;
	unsigned long long tstar;
	unsigned char bit;
	unsigned long long num_keys, keys_in_block, undo_blk_num, key_blk_num;
};
struct in_tdb IN;
#include "verif_in.h"

unsigned long long verif_k;
int verif_old_bit;
unsigned long long verif_g0, verif_g1, verif_g2, verif_g3, verif_g4, verif_g5, verif_g6, verif_g7;
const unsigned char *verif_p0, *verif_p1, *verif_p2, *verif_p3;

/*
 * CBMC 6.11 DFCC refuses malloc/free inside a loop that carries a loop contract ("dynamic allocation is
 * allowed" / "ptr is freeable" obligations of the loop write set).  The one block buffer the loop body
 * allocates and frees again (read_ptr) is therefore served from a harness pool (verif_p1), which the loop
 * contract lists as assignable.  Allocation failure is still possible.
 */
#ifndef VERIF_NATIVE
int nondet_int(void);
long nondet_long(void);
unsigned int nondet_uint(void);
unsigned char VERIF_POOL[32768];
void *verif_malloc(unsigned long n) { return (n <= sizeof(VERIF_POOL) && nondet_int()) ? (void *)VERIF_POOL : (void *)0; }
void verif_free(void *p) { }
#define malloc verif_malloc
#define free verif_free
#endif
#include "lib/ext2fs/undo_io.c"
#undef malloc
#undef free

static struct struct_io_channel CH, REAL, UFILE;
static struct undo_private_data DATA;
static struct struct_io_manager REAL_MGR, UFILE_MGR;

#define DATA_OF(ch) ((struct undo_private_data *)(ch)->private_data)
#define KPB(d) ((d)->tdb_data_size / 16 - 1)

/* filesystem byte where the range of undo block t* starts (may be negative: before the filesystem) */
#define STAR_START ((long long)(verif_k * DATA.tdb_data_size) - DATA.offset)

/* last key of the current key block covers [STAR_START, STAR_START + verif_g5) */
#define LASTKEY_COVERS(d, bs) ((d)->keys_in_block >= 1 && (d)->keys_in_block <= KPB(d) && \
	(long long)((d)->keyb->keys[(d)->keys_in_block - 1].fsblk * (unsigned long long)(bs)) <= STAR_START && \
	STAR_START + (long long)verif_g5 <= (long long)((d)->keyb->keys[(d)->keys_in_block - 1].fsblk * (unsigned long long)(bs)) + \
					    (long long)(d)->keyb->keys[(d)->keys_in_block - 1].size)

/* ---- callees of the same file, by contract ---- */
static errcode_t undo_setup_tdb(struct undo_private_data *data)
	REQUIRES(data->tdb_written == 1)
	ASSIGNS()
	ENSURES(RET == 0);

static errcode_t write_undo_indexes(struct undo_private_data *data, int flush)
	REQUIRES(flush == 0)
	REQUIRES(data->keys_in_block <= KPB(data))
	/* the index that is about to be written describes the block that was just appended */
	REQUIRES(verif_g4 == 0 || LASTKEY_COVERS(data, CH.block_size))
	ASSIGNS(data->hdr, data->keys_in_block, data->key_blk_num, data->undo_blk_num,
		__CPROVER_object_whole(data->keyb), verif_g3, verif_g4)
	ENSURES(verif_g4 == 0 && verif_g3 == OLD(verif_g3) + OLD(verif_g4))
	ENSURES(RET != 0 || data->keys_in_block < KPB(data));

/* ---- callees of other files: stubs ---- */
int ext2fs_test_generic_bmap(ext2fs_generic_bitmap bmap, __u64 arg)
{
	if (arg == verif_k)
		return (int)verif_g0;
	return nondet_int() != 0;	/* other undo blocks: arbitrary */
}
int ext2fs_mark_generic_bmap(ext2fs_generic_bitmap bmap, __u64 arg)
{
	if (arg == verif_k)
		verif_g0 = 1;
	return 0;
}
__u32 ext2fs_crc32c_le(__u32 crc, unsigned char const *p, size_t len)
{
	return nondet_uint();
}

/* backing channel: read records whether it is THE read for t*; every write is a protocol violation */
static errcode_t st_real_read_blk64(io_channel ch, unsigned long long block, int count, void *buf)
{
	long r = nondet_long();
	long long lo = (long long)UNDO_LO(ch->block_size, block);
	if (ch != &REAL)
		verif_g7 = 1;
	if (lo == STAR_START && UNDO_SIZE(ch->block_size, count) == (long long)DATA.tdb_data_size) {
		if (verif_g4 != 0 || verif_g2 != 0)
			verif_g7 = 1;	/* read for t* after its append started */
		verif_g1++;
		verif_p0 = buf;
		if (r == 0) {
			verif_g5 = DATA.tdb_data_size;
			verif_g4 = 1;
		} else if (r == EXT2_ET_SHORT_READ) {
			int a = nondet_int();
			ASSUME(a >= 0 && (unsigned long long)a < DATA.tdb_data_size);
			actual_size = a;	/* what undo_io_read_error() records */
			verif_g5 = a;
			verif_g4 = a != 0;
		} else {
			verif_g5 = 0;
		}
		return r;
	}
	if (r == EXT2_ET_SHORT_READ) {
		int a = nondet_int();
		ASSUME(a >= 0 && (unsigned long long)a < DATA.tdb_data_size);
		actual_size = a;
	}
	return r;
}
static errcode_t st_real_write_blk64(io_channel ch, unsigned long long block, int count, const void *buf)
{
	verif_g7 = 1;
	return 0;
}
/* undo file: a data append while the read for t* is pending must be that buffer, at the next free block */
static errcode_t st_ufile_write_blk64(io_channel ch, unsigned long long block, int count, const void *buf)
{
	if (ch != &UFILE)
		verif_g7 = 1;
	if (verif_g4 == 1) {
		if (buf != verif_p0 || block != DATA.undo_blk_num ||
		    UNDO_SIZE(ch->block_size, count) != (long long)verif_g5)
			verif_g7 = 1;
		verif_g2++;
	}
	return nondet_long();
}

static void build(int bs, unsigned long long tdb)
{
	memset(&CH, 0, sizeof(CH));
	memset(&REAL, 0, sizeof(REAL));
	memset(&UFILE, 0, sizeof(UFILE));
	memset(&DATA, 0, sizeof(DATA));
	memset(&REAL_MGR, 0, sizeof(REAL_MGR));
	memset(&UFILE_MGR, 0, sizeof(UFILE_MGR));
	REAL_MGR.magic = EXT2_ET_MAGIC_IO_MANAGER;
	REAL_MGR.read_blk64 = st_real_read_blk64;
	REAL_MGR.write_blk64 = st_real_write_blk64;
	UFILE_MGR.magic = EXT2_ET_MAGIC_IO_MANAGER;
	UFILE_MGR.write_blk64 = st_ufile_write_blk64;
	CH.magic = EXT2_ET_MAGIC_IO_CHANNEL;
	CH.manager = undo_io_manager;
	CH.block_size = bs;
	CH.private_data = &DATA;
	REAL.magic = EXT2_ET_MAGIC_IO_CHANNEL;
	REAL.manager = &REAL_MGR;
	REAL.block_size = bs;
	UFILE.magic = EXT2_ET_MAGIC_IO_CHANNEL;
	UFILE.manager = &UFILE_MGR;
	UFILE.block_size = (int)tdb;	/* undo_setup_tdb: io_channel_set_blksize(undo_file, tdb_data_size) */
	DATA.magic = EXT2_ET_MAGIC_UNIX_IO_CHANNEL;
	DATA.real = &REAL;
	DATA.undo_file = &UFILE;
	DATA.tdb_data_size = tdb;
	DATA.tdb_written = 1;
	DATA.offset = IN.fs_offset;
	DATA.keyb = malloc(tdb);
	verif_p1 = VERIF_POOL;
	ASSUME(DATA.keyb != 0);
	DATA.num_keys = IN.num_keys;
	DATA.keys_in_block = IN.keys_in_block;
	ASSUME(DATA.keys_in_block < KPB(&DATA));
	/* representation invariant of the key block: sizes are whole fs blocks (no short read happened before) */
	if (DATA.keys_in_block >= 1)
		ASSUME(DATA.keyb->keys[DATA.keys_in_block - 1].size % (unsigned)bs == 0);
	DATA.undo_blk_num = IN.undo_blk_num;
	DATA.key_blk_num = IN.key_blk_num;
	verif_k = IN.tstar;
	ASSUME(verif_k <= (1ULL << 47));
	verif_old_bit = IN.bit & 1;
	verif_g0 = IN.bit & 1;
	verif_g1 = verif_g2 = verif_g3 = verif_g4 = verif_g5 = verif_g7 = 0;
	verif_p0 = 0;
	/* t0 of the spec */
	verif_g6 = (UNDO_LO(bs, IN.block) + (unsigned long long)IN.fs_offset) / tdb;
}

#define T1(ch, block, count) ((UNDO_LO((ch)->block_size, block) + (unsigned long long)DATA_OF(ch)->offset + \
			       (unsigned long long)UNDO_SIZE((ch)->block_size, count) - 1) / DATA_OF(ch)->tdb_data_size)
#define IN_RANGE(ch, block, count) (verif_k >= verif_g6 && verif_k <= T1(ch, block, count))

#define TDB_PRE(ch, block, count) \
	(UNDO_BS_OK((ch)->block_size) && UNDO_BS_OK(DATA_OF(ch)->tdb_data_size) && (count) > -0x7fffffff && \
	 UNDO_SIZE((ch)->block_size, count) <= 0x7fffffffLL && UNDO_SIZE((ch)->block_size, count) > 0 && \
	 (block) <= UNDO_MAX_BLOCK && DATA_OF(ch)->offset >= 0 && DATA_OF(ch)->offset <= UNDO_MAX_OFFSET)

#define POST_IN(r) ((r) != 0 || (verif_g0 == 1 && verif_g7 == 0 && \
	(verif_old_bit ? (verif_g1 == 0 && verif_g2 == 0 && verif_g3 == 0) : \
	 (verif_g1 == 1 && (verif_g5 == 0 ? (verif_g2 == 0 && verif_g3 == 0) : (verif_g2 == 1 && verif_g3 == 1))))))
#define POST_OUT (verif_g0 == (unsigned long long)verif_old_bit && verif_g1 == 0 && verif_g2 == 0 && verif_g3 == 0)

static errcode_t undo_write_tdb(io_channel channel, unsigned long long block, int count)
	REQUIRES(TDB_PRE(channel, block, count))
	REQUIRES(DATA_OF(channel)->tdb_written == 1 && DATA_OF(channel)->keys_in_block < KPB(DATA_OF(channel)))
	REQUIRES(verif_g6 == (UNDO_LO(channel->block_size, block) + (unsigned long long)DATA_OF(channel)->offset) / DATA_OF(channel)->tdb_data_size)
	REQUIRES(verif_g0 == (unsigned long long)verif_old_bit && verif_g1 == 0 && verif_g2 == 0 && verif_g3 == 0 && verif_g4 == 0 && verif_g7 == 0)
	ASSIGNS(actual_size, DATA_OF(channel)->num_keys, DATA_OF(channel)->keys_in_block, DATA_OF(channel)->undo_blk_num,
		DATA_OF(channel)->key_blk_num, DATA_OF(channel)->hdr, __CPROVER_object_whole(DATA_OF(channel)->keyb),
		verif_g0, verif_g1, verif_g2, verif_g3, verif_g4, verif_g5, verif_g7, verif_p0)
	ENSURES(verif_g7 == 0)
	ENSURES(!IN_RANGE(channel, block, count) || POST_IN(RET))
	ENSURES(IN_RANGE(channel, block, count) || POST_OUT);

#ifdef VERIF_UNIT_undo_write_tdb_aligned
#define ALIGNED_ONLY 1
#endif

static void run(int bs, unsigned long long tdb)
{
	build(bs, tdb);
	ASSUME(TDB_PRE(&CH, IN.block, IN.count));
#ifdef ALIGNED_ONLY
	ASSUME(tdb % bs == 0 && IN.fs_offset % (long long)tdb == 0);
#endif
	errcode_t r = undo_write_tdb(&CH, IN.block, IN.count);
	CHECK(verif_g7 == 0, "no backing-channel write inside undo_write_tdb; appended data is the buffer just read, at the next free undo block");
	if (IN_RANGE(&CH, IN.block, IN.count)) {
		CHECK(POST_IN(r), "undo block t* in the range: saved exactly once, before; first write wins");
		REACH("in-range");
		if (r == 0) REACH("in-range-ok");
		if (r != 0) REACH("in-range-err");
		if (r == 0 && !verif_old_bit)
			REACH("saved");
		if (r == 0 && verif_old_bit)
			REACH("already-saved");
	} else {
		CHECK(POST_OUT, "undo block t* outside the range: untouched");
		REACH("outside");
	}
}

static void run_all(void)
{
#ifdef ONE_CFG
	run(ONE_CFG);
	return;
#endif
	switch (IN.cfg) {
	case 0: run(1024, 1024); break;
	case 1: run(1024, 4096); break;
	case 2: run(1024, 32768); break;
	case 3: run(4096, 4096); break;
	case 4: run(4096, 32768); break;
	case 5: run(32768, 32768); break;
	case 6: run(4096, 1024); break;
	case 7: run(32768, 1024); break;
	default: run(32768, 4096); break;
	}
}

void h_write_tdb_aligned(void)
{
	LOAD_IN();
	run_all();
	REACH("end");
}

void h_write_tdb(void)
{
	LOAD_IN();
	run_all();
	REACH("end");
}
