/*
 * C12, mechanisms 1+2: undo_write_tdb() — "the old content of every not-yet-saved undo block in the range is
 * read and appended to the undo file; a bitmap of already-saved blocks guarantees first-write-wins".
 *
 * SPEC (specs/undo_spec.h, written from the io_channel convention, the undo-file key format and the way
 * try_reopen_undo_file()/e2undo interpret a key; not from undo_write_tdb's arithmetic):
 *   a request (block,count) on a channel with block size bs touches the FILESYSTEM bytes
 *   [lo,hi) = [block*bs, block*bs+SIZE);  undo block t (bit t of written_block_map) stands for the filesystem
 *   bytes R(t) = [(t-ORG)*tdb, (t-ORG+1)*tdb), ORG = UNDO_ORIGIN(fs offset, tdb) the numbering origin;
 *   the request therefore concerns exactly the undo blocks T0 = lo/tdb+ORG ... T1 = (hi-1)/tdb+ORG.
 * For ONE ghost undo block t* (MC.tstar, arbitrary), after undo_write_tdb returned 0 with an undo file configured:
 *   t* in [T0,T1]: bit(t*) is set, and
 *       bit was clear on entry: the backing channel was read exactly once for exactly R(t*); no write reaches the
 *           backing channel inside undo_write_tdb at all (so the read is BEFORE any write of the caller); the very
 *           buffer that read filled was appended at the next free undo-file block with the byte count the read
 *           delivered; the crc32c of exactly that buffer/length was computed once, seeded with ~0 for a new key
 *           or with the crc of the key that is extended; and when the index was written the last key of the key
 *           block carried that crc and described the bytes exactly: fsblk*bs <= start(R(t*)),
 *           fsblk*bs + size == start(R(t*)) + bytes read (keys are in filesystem blocks of the CHANNEL block size,
 *           which write_undo_indexes records as fs_block_size).  A zero-length short read appends nothing;
 *       bit was set on entry: no read of R(t*), nothing appended for t*, no key touched for it (first write wins);
 *   t* outside [T0,T1]: bit unchanged, R(t*) not read, nothing appended.
 *   (C12 itself needs only the "in range" half; "outside untouched" is the stronger statement of DESIGN.md.)
 *
 * Ghost monitor: struct M (mutable, one assigns target) and MC (constants of the run), moved only by the stubs
 * of the callees that live in other files (io_channel_read_blk64/write_blk64, bitmap test/mark, crc32c) and by
 * the contract of write_undo_indexes (same file; proved against its body by unit undo/undo_write_indexes).
 * The loop `while (block_num <= end_block)` is closed by the in-place loop contract named
 * VERIF_INV_UNDO_WRITE_TDB_LOOP in lib/ext2fs/undo_io.c, whose text is defined below (named-anchor pattern).
 *
 * One (bs, tdb) pair per unit: the divisions/products are by literals (symbolic divisors do not terminate).
 */
/* VERIF-UNIT
{
 "name": "undo_write_tdb_aligned",
 "defines": [
  "NO_INLINE_FUNCS",
  "CFG_BS=1024",
  "CFG_TDB=1024",
  "ALIGNED_ONLY=1"
 ],
 "props": [
  "C12"
 ],
 "level": "U",
 "tier": "thorough",
 "harness": "h_write_tdb",
 "enforce": [
  "undo_write_tdb"
 ],
 "replace": [
  "undo_setup_tdb",
  "write_undo_indexes"
 ],
 "loop_contracts": true,
 "unwind": 24,
 "unwind_reason": "only DFCC library loops over the 18 assigns-clause targets are unwound; the function's own loop is closed by its in-place loop contract (named anchor VERIF_INV_UNDO_WRITE_TDB_LOOP)",
 "functions": [
  "lib/ext2fs/undo_io.c:undo_write_tdb"
 ],
 "assumes": [
  "channel block size 1024, tdb_data_size 1024 (tune2fs/e2fsck/resize2fs/debugfs on a 1k filesystem); filesystem offset a multiple of tdb_data_size, 0 <= offset <= 2^60",
  "bit numbering origin UNDO_ORIGIN = offset/tdb (the pinned tree) (specs/undo_spec.h)",
  "undo file already set up by an earlier call (tdb_written == 1, key block allocated, not full): undo_setup_tdb replaced by a contract that says so",
  "request byte count in [1, INT_MAX], block <= 2^44",
  "bits of undo blocks other than t* are arbitrary (over-approximated); crc32c is an uninterpreted function observed by the monitor; host is little-endian",
  "write_undo_indexes behaves as its contract says (writes the key block, keeps keys_in_block < keys per block on success, reports failure by a non-zero return)",
  "a short read reports 0 <= actual_size < tdb through the read_error handler as unix_io does",
  "the exact key description (fsblk*bs + size == end of the saved bytes, crc chain) is demanded when the key block's last key was well formed at the time of the read (size a nonzero multiple of the channel block size i.e. no short read went into it, <= 512 undo blocks, fsblk < 2^48); after a short read only data beyond the original end of the device can follow",
  "NO_INLINE_FUNCS: ext2fs_get_mem, free, bitmap test/mark are unit stubs; the block buffer is served from a one-slot pool because DFCC forbids malloc/free inside a contracted loop (allocation may fail; on failure the stub stores NULL); memset is the CBMC library model",
  "larger undo blocks (4096, 32768) are not run: every key access at a symbolic slot costs clauses linear in tdb (27M clauses at 4096, out of memory at 32768); the arithmetic of undo_write_tdb only depends on bs, tdb/bs and offset%tdb"
 ],
 "backend": "cadical",
 "native": false,
 "timeout": 600
}
*/
/* VERIF-UNIT
{
 "name": "undo_write_tdb_aligned_1k_2k",
 "defines": [
  "NO_INLINE_FUNCS",
  "CFG_BS=1024",
  "CFG_TDB=2048",
  "ALIGNED_ONLY=1"
 ],
 "props": [
  "C12"
 ],
 "level": "U",
 "tier": "thorough",
 "harness": "h_write_tdb",
 "enforce": [
  "undo_write_tdb"
 ],
 "replace": [
  "undo_setup_tdb",
  "write_undo_indexes"
 ],
 "loop_contracts": true,
 "unwind": 24,
 "unwind_reason": "only DFCC library loops over the 18 assigns-clause targets are unwound; the function's own loop is closed by its in-place loop contract (named anchor VERIF_INV_UNDO_WRITE_TDB_LOOP)",
 "functions": [
  "lib/ext2fs/undo_io.c:undo_write_tdb"
 ],
 "assumes": [
  "channel block size 1024, tdb_data_size 2048 (undo block larger than the channel block, as mke2fs' 32768/4096 or 32768/1024; reachable through the tdb_data_size option); filesystem offset a multiple of tdb_data_size, 0 <= offset <= 2^60",
  "bit numbering origin UNDO_ORIGIN = offset/tdb (the pinned tree) (specs/undo_spec.h)",
  "undo file already set up by an earlier call (tdb_written == 1, key block allocated, not full): undo_setup_tdb replaced by a contract that says so",
  "request byte count in [1, INT_MAX], block <= 2^44",
  "bits of undo blocks other than t* are arbitrary (over-approximated); crc32c is an uninterpreted function observed by the monitor; host is little-endian",
  "write_undo_indexes behaves as its contract says (writes the key block, keeps keys_in_block < keys per block on success, reports failure by a non-zero return)",
  "a short read reports 0 <= actual_size < tdb through the read_error handler as unix_io does",
  "the exact key description (fsblk*bs + size == end of the saved bytes, crc chain) is demanded when the key block's last key was well formed at the time of the read (size a nonzero multiple of the channel block size i.e. no short read went into it, <= 512 undo blocks, fsblk < 2^48); after a short read only data beyond the original end of the device can follow",
  "NO_INLINE_FUNCS: ext2fs_get_mem, free, bitmap test/mark are unit stubs; the block buffer is served from a one-slot pool because DFCC forbids malloc/free inside a contracted loop (allocation may fail; on failure the stub stores NULL); memset is the CBMC library model",
  "larger undo blocks (4096, 32768) are not run: every key access at a symbolic slot costs clauses linear in tdb (27M clauses at 4096, out of memory at 32768); the arithmetic of undo_write_tdb only depends on bs, tdb/bs and offset%tdb"
 ],
 "backend": "cadical",
 "native": false,
 "timeout": 600
}
*/
/* VERIF-UNIT
{
 "name": "undo_write_tdb",
 "defines": [
  "NO_INLINE_FUNCS",
  "CFG_BS=1024",
  "CFG_TDB=2048"
 ],
 "props": [
  "C12"
 ],
 "level": "U",
 "tier": "thorough",
 "harness": "h_write_tdb",
 "enforce": [
  "undo_write_tdb"
 ],
 "replace": [
  "undo_setup_tdb",
  "write_undo_indexes"
 ],
 "loop_contracts": true,
 "unwind": 24,
 "unwind_reason": "only DFCC library loops over the 18 assigns-clause targets are unwound; the function's own loop is closed by its in-place loop contract (named anchor VERIF_INV_UNDO_WRITE_TDB_LOOP)",
 "functions": [
  "lib/ext2fs/undo_io.c:undo_write_tdb"
 ],
 "assumes": [
  "channel block size 1024, tdb_data_size 2048 (undo block larger than the channel block, as mke2fs' 32768/4096 or 32768/1024); ANY filesystem offset in [0, 2^60]",
  "bit numbering origin UNDO_ORIGIN = offset/tdb (the pinned tree) (specs/undo_spec.h)",
  "undo file already set up by an earlier call (tdb_written == 1, key block allocated, not full): undo_setup_tdb replaced by a contract that says so",
  "request byte count in [1, INT_MAX], block <= 2^44",
  "bits of undo blocks other than t* are arbitrary (over-approximated); crc32c is an uninterpreted function observed by the monitor; host is little-endian",
  "write_undo_indexes behaves as its contract says (writes the key block, keeps keys_in_block < keys per block on success, reports failure by a non-zero return)",
  "a short read reports 0 <= actual_size < tdb through the read_error handler as unix_io does",
  "the exact key description (fsblk*bs + size == end of the saved bytes, crc chain) is demanded when the key block's last key was well formed at the time of the read (size a nonzero multiple of the channel block size i.e. no short read went into it, <= 512 undo blocks, fsblk < 2^48); after a short read only data beyond the original end of the device can follow",
  "NO_INLINE_FUNCS: ext2fs_get_mem, free, bitmap test/mark are unit stubs; the block buffer is served from a one-slot pool because DFCC forbids malloc/free inside a contracted loop (allocation may fail; on failure the stub stores NULL); memset is the CBMC library model",
  "larger undo blocks (4096, 32768) are not run: every key access at a symbolic slot costs clauses linear in tdb (27M clauses at 4096, out of memory at 32768); the arithmetic of undo_write_tdb only depends on bs, tdb/bs and offset%tdb",
  "FAILS on the pinned tree (h_write_tdb.assertion.3 'marked saved', undo_write_tdb.postcondition.2): findings/C12_tdb_unaligned_offset"
 ],
 "backend": "cadical",
 "native": false,
 "timeout": 600
}
*/
/* VERIF-UNIT
{
 "name": "undo_write_tdb_fsrel",
 "defines": [
  "NO_INLINE_FUNCS",
  "CFG_BS=1024",
  "CFG_TDB=2048",
  "UNDO_ORIGIN_FSREL=1"
 ],
 "props": [
  "C12"
 ],
 "level": "U",
 "tier": "obs",
 "harness": "h_write_tdb",
 "enforce": [
  "undo_write_tdb"
 ],
 "replace": [
  "undo_setup_tdb",
  "write_undo_indexes"
 ],
 "loop_contracts": true,
 "unwind": 24,
 "unwind_reason": "only DFCC library loops over the 18 assigns-clause targets are unwound; the function's own loop is closed by its in-place loop contract (named anchor VERIF_INV_UNDO_WRITE_TDB_LOOP)",
 "functions": [
  "lib/ext2fs/undo_io.c:undo_write_tdb"
 ],
 "assumes": [
  "channel block size 1024, tdb_data_size 2048 (undo block larger than the channel block); ANY filesystem offset in [0, 2^60]",
  "bit numbering origin UNDO_ORIGIN = 0 (filesystem-relative numbering, as try_reopen_undo_file and e2undo use it) (specs/undo_spec.h)",
  "undo file already set up by an earlier call (tdb_written == 1, key block allocated, not full): undo_setup_tdb replaced by a contract that says so",
  "request byte count in [1, INT_MAX], block <= 2^44",
  "bits of undo blocks other than t* are arbitrary (over-approximated); crc32c is an uninterpreted function observed by the monitor; host is little-endian",
  "write_undo_indexes behaves as its contract says (writes the key block, keeps keys_in_block < keys per block on success, reports failure by a non-zero return)",
  "a short read reports 0 <= actual_size < tdb through the read_error handler as unix_io does",
  "the exact key description (fsblk*bs + size == end of the saved bytes, crc chain) is demanded when the key block's last key was well formed at the time of the read (size a nonzero multiple of the channel block size i.e. no short read went into it, <= 512 undo blocks, fsblk < 2^48); after a short read only data beyond the original end of the device can follow",
  "NO_INLINE_FUNCS: ext2fs_get_mem, free, bitmap test/mark are unit stubs; the block buffer is served from a one-slot pool because DFCC forbids malloc/free inside a contracted loop (allocation may fail; on failure the stub stores NULL); memset is the CBMC library model",
  "larger undo blocks (4096, 32768) are not run: every key access at a symbolic slot costs clauses linear in tdb (27M clauses at 4096, out of memory at 32768); the arithmetic of undo_write_tdb only depends on bs, tdb/bs and offset%tdb",
  "for the tree with findings/C12_tdb_unaligned_offset/proposed-fix.patch applied (green there; fails on the pinned tree for every offset >= tdb)"
 ],
 "backend": "cadical",
 "native": false,
 "timeout": 600
}
*/
/* VERIF-UNIT
{
 "name": "undo_write_tdb_fsrel_1k_1k",
 "defines": [
  "NO_INLINE_FUNCS",
  "CFG_BS=1024",
  "CFG_TDB=1024",
  "UNDO_ORIGIN_FSREL=1"
 ],
 "props": [
  "C12"
 ],
 "level": "U",
 "tier": "obs",
 "harness": "h_write_tdb",
 "enforce": [
  "undo_write_tdb"
 ],
 "replace": [
  "undo_setup_tdb",
  "write_undo_indexes"
 ],
 "loop_contracts": true,
 "unwind": 24,
 "unwind_reason": "only DFCC library loops over the 18 assigns-clause targets are unwound; the function's own loop is closed by its in-place loop contract (named anchor VERIF_INV_UNDO_WRITE_TDB_LOOP)",
 "functions": [
  "lib/ext2fs/undo_io.c:undo_write_tdb"
 ],
 "assumes": [
  "channel block size 1024, tdb_data_size 1024 (undo block equal to the channel block); ANY filesystem offset in [0, 2^60]",
  "bit numbering origin UNDO_ORIGIN = 0 (filesystem-relative numbering) (specs/undo_spec.h)",
  "undo file already set up by an earlier call (tdb_written == 1, key block allocated, not full): undo_setup_tdb replaced by a contract that says so",
  "request byte count in [1, INT_MAX], block <= 2^44",
  "bits of undo blocks other than t* are arbitrary (over-approximated); crc32c is an uninterpreted function observed by the monitor; host is little-endian",
  "write_undo_indexes behaves as its contract says (writes the key block, keeps keys_in_block < keys per block on success, reports failure by a non-zero return)",
  "a short read reports 0 <= actual_size < tdb through the read_error handler as unix_io does",
  "the exact key description (fsblk*bs + size == end of the saved bytes, crc chain) is demanded when the key block's last key was well formed at the time of the read (size a nonzero multiple of the channel block size i.e. no short read went into it, <= 512 undo blocks, fsblk < 2^48); after a short read only data beyond the original end of the device can follow",
  "NO_INLINE_FUNCS: ext2fs_get_mem, free, bitmap test/mark are unit stubs; the block buffer is served from a one-slot pool because DFCC forbids malloc/free inside a contracted loop (allocation may fail; on failure the stub stores NULL); memset is the CBMC library model",
  "larger undo blocks (4096, 32768) are not run: every key access at a symbolic slot costs clauses linear in tdb (27M clauses at 4096, out of memory at 32768); the arithmetic of undo_write_tdb only depends on bs, tdb/bs and offset%tdb",
  "for the tree with findings/C12_tdb_unaligned_offset/proposed-fix.patch applied"
 ],
 "backend": "cadical",
 "native": false,
 "timeout": 600
}
*/
/* VERIF-UNIT
{
 "name": "undo_write_tdb_small_tdb",
 "defines": [
  "NO_INLINE_FUNCS",
  "CFG_BS=4096",
  "CFG_TDB=1024",
  "ALIGNED_ONLY=1"
 ],
 "props": [
  "C12"
 ],
 "level": "U",
 "tier": "thorough",
 "harness": "h_write_tdb",
 "enforce": [
  "undo_write_tdb"
 ],
 "replace": [
  "undo_setup_tdb",
  "write_undo_indexes"
 ],
 "loop_contracts": true,
 "unwind": 24,
 "unwind_reason": "only DFCC library loops over the 18 assigns-clause targets are unwound; the function's own loop is closed by its in-place loop contract (named anchor VERIF_INV_UNDO_WRITE_TDB_LOOP)",
 "functions": [
  "lib/ext2fs/undo_io.c:undo_write_tdb"
 ],
 "assumes": [
  "channel block size 4096, tdb_data_size 1024 (undo block SMALLER than the channel block: an undo file begun on a 1k filesystem and continued by mke2fs -b 4096); filesystem offset a multiple of tdb_data_size",
  "bit numbering origin UNDO_ORIGIN = offset/tdb (specs/undo_spec.h)",
  "undo file already set up by an earlier call (tdb_written == 1, key block allocated, not full): undo_setup_tdb replaced by a contract that says so",
  "request byte count in [1, INT_MAX], block <= 2^44",
  "bits of undo blocks other than t* are arbitrary (over-approximated); crc32c is an uninterpreted function observed by the monitor; host is little-endian",
  "write_undo_indexes behaves as its contract says (writes the key block, keeps keys_in_block < keys per block on success, reports failure by a non-zero return)",
  "a short read reports 0 <= actual_size < tdb through the read_error handler as unix_io does",
  "the exact key description (fsblk*bs + size == end of the saved bytes, crc chain) is demanded when the key block's last key was well formed at the time of the read (size a nonzero multiple of the channel block size i.e. no short read went into it, <= 512 undo blocks, fsblk < 2^48); after a short read only data beyond the original end of the device can follow",
  "NO_INLINE_FUNCS: ext2fs_get_mem, free, bitmap test/mark are unit stubs; the block buffer is served from a one-slot pool because DFCC forbids malloc/free inside a contracted loop (allocation may fail; on failure the stub stores NULL); memset is the CBMC library model",
  "larger undo blocks (4096, 32768) are not run: every key access at a symbolic slot costs clauses linear in tdb (27M clauses at 4096, out of memory at 32768); the arithmetic of undo_write_tdb only depends on bs, tdb/bs and offset%tdb",
  "FAILS on the pinned tree: backing_blk_num = offset / channel->block_size truncates, the first tdb bytes of the channel block are captured for each of its undo blocks: findings/C12_chain_blocksize"
 ],
 "backend": "cadical",
 "native": false,
 "timeout": 600
}
*/
/* VERIF-UNIT
{
 "name": "undo_write_tdb_retval",
 "defines": [
  "NO_INLINE_FUNCS",
  "CFG_BS=1024",
  "CFG_TDB=1024",
  "ALIGNED_ONLY=1",
  "OBS_RETVAL=1"
 ],
 "props": [
  "C12"
 ],
 "level": "U",
 "tier": "obs",
 "harness": "h_write_tdb",
 "enforce": [
  "undo_write_tdb"
 ],
 "replace": [
  "undo_setup_tdb",
  "write_undo_indexes"
 ],
 "loop_contracts": true,
 "unwind": 24,
 "unwind_reason": "only DFCC library loops over the 18 assigns-clause targets are unwound; the function's own loop is closed by its in-place loop contract (named anchor VERIF_INV_UNDO_WRITE_TDB_LOOP)",
 "functions": [
  "lib/ext2fs/undo_io.c:undo_write_tdb"
 ],
 "assumes": [
  "channel block size 1024, tdb_data_size 1024 (as undo_write_tdb_aligned); filesystem offset a multiple of tdb_data_size",
  "bit numbering origin UNDO_ORIGIN = offset/tdb (specs/undo_spec.h)",
  "undo file already set up by an earlier call (tdb_written == 1, key block allocated, not full): undo_setup_tdb replaced by a contract that says so",
  "request byte count in [1, INT_MAX], block <= 2^44",
  "bits of undo blocks other than t* are arbitrary (over-approximated); crc32c is an uninterpreted function observed by the monitor; host is little-endian",
  "write_undo_indexes behaves as its contract says (writes the key block, keeps keys_in_block < keys per block on success, reports failure by a non-zero return)",
  "a short read reports 0 <= actual_size < tdb through the read_error handler as unix_io does",
  "the exact key description (fsblk*bs + size == end of the saved bytes, crc chain) is demanded when the key block's last key was well formed at the time of the read (size a nonzero multiple of the channel block size i.e. no short read went into it, <= 512 undo blocks, fsblk < 2^48); after a short read only data beyond the original end of the device can follow",
  "NO_INLINE_FUNCS: ext2fs_get_mem, free, bitmap test/mark are unit stubs; the block buffer is served from a one-slot pool because DFCC forbids malloc/free inside a contracted loop (allocation may fail; on failure the stub stores NULL); memset is the CBMC library model",
  "larger undo blocks (4096, 32768) are not run: every key access at a symbolic slot costs clauses linear in tdb (27M clauses at 4096, out of memory at 32768); the arithmetic of undo_write_tdb only depends on bs, tdb/bs and offset%tdb",
  "observation beyond C12: FAILS h_write_tdb 'an error is returned only if a callee failed': the EXT2_ET_SHORT_READ of a zero-length read beyond the end of the device is returned when it was the last block processed"
 ],
 "backend": "cadical",
 "native": false,
 "timeout": 600
}
*/
#include "verif.h"
#include "undo_spec.h"

#ifndef CFG_BS
#define CFG_BS 4096
#define CFG_TDB 32768
#endif

struct in_tdb {
	unsigned long long block;
	int count;
	long long fs_offset;
	unsigned long long tstar;
	unsigned char bit;
	unsigned long long num_keys, keys_in_block, undo_blk_num, key_blk_num;
};
struct in_tdb IN;
#include "verif_in.h"

/* constants of one run */
struct tdb_monc {
	unsigned long long tstar;	/* ghost undo block t* */
	unsigned long long start;	/* first filesystem byte of R(t*) (meaningful when tstar >= origin) */
	int has_range;			/* tstar >= origin and R(t*) below UNDO_MAX_BYTE: R(t*) lies in the filesystem */
	int old_bit;			/* bit(t*) on entry */
};
/* mutable ghost state: ONE assigns target */
struct tdb_mon {
	int bit;			/* bit(t*) */
	unsigned int reads;		/* backing-channel reads of exactly R(t*) */
	unsigned int appends;		/* data appends for t* */
	unsigned int idx;		/* index writes that covered t* */
	unsigned int crcs;		/* crc computations over the buffer of t* */
	int pending;			/* read for t* done, index not yet written */
	unsigned long long nbytes;	/* bytes that read delivered */
	unsigned int crc_out, crc_seed;	/* result / seed of the crc computation for t* */
	unsigned int prev_crc;		/* crc of the last key when the read for t* happened */
	int prev_wf;			/* the last key was well formed then (or there was none): size a nonzero multiple of the
					 * channel block size (no short read went into it), <= 512 undo blocks, fsblk < 2^48 */
	int pool_busy;			/* the block buffer is allocated */
	int hard_err;			/* a callee failed with something else than a short read */
	int viol;			/* protocol violations seen by the stubs (must stay 0) */
	const void *buf;		/* buffer of the read for t* */
};
struct tdb_monc MC;
struct tdb_mon M;
static unsigned char POOL[CFG_TDB];	/* see ext2fs_get_mem below */

#ifndef VERIF_NATIVE
int nondet_int(void);
long nondet_long(void);
unsigned int nondet_uint(void);
#endif

#define M_DONE_SAVED (M.bit == 1 && M.reads == 1 && M.crcs == (M.nbytes != 0) && \
		      M.appends == (M.nbytes != 0) && M.idx == (M.nbytes != 0))
#define M_DONE_KEPT (M.bit == 1 && M.reads == 0 && M.appends == 0 && M.idx == 0 && M.crcs == 0)
#define M_UNTOUCHED (M.bit == MC.old_bit && M.reads == 0 && M.appends == 0 && M.idx == 0 && M.crcs == 0)
#define M_PROCESSED (MC.old_bit ? M_DONE_KEPT : M_DONE_SAVED)

/* the loop contract of `while (block_num <= end_block)` in undo_write_tdb (named anchor in undo_io.c) */
#define VERIF_INV_UNDO_WRITE_TDB_LOOP \
	__CPROVER_assigns(block_num, offset, backing_blk_num, retval, read_ptr, sz, data_size, key, blk_crc, \
			  actual_size, data->num_keys, data->keys_in_block, data->undo_blk_num, \
			  data->key_blk_num, data->hdr, __CPROVER_object_whole(data->keyb), M, __CPROVER_object_whole(POOL)) \
	__CPROVER_loop_invariant(__CPROVER_loop_entry(block_num) <= block_num && block_num <= end_block + 1) \
	__CPROVER_loop_invariant(data->keys_in_block < data->tdb_data_size / 16 - 1) \
	__CPROVER_loop_invariant(M.pending == 0 && M.viol == 0 && M.pool_busy == 0 && \
				 M.hard_err == 0 && (retval == 0 || retval == EXT2_ET_SHORT_READ)) \
	__CPROVER_loop_invariant((MC.tstar >= __CPROVER_loop_entry(block_num) && MC.tstar < block_num) ? \
				 M_PROCESSED : M_UNTOUCHED) \
	__CPROVER_decreases(end_block + 1 - block_num)

#include "lib/ext2fs/undo_io.c"

static struct struct_io_channel CH, REAL, UFILE;
static struct undo_private_data DATA;

#define DATA_OF(ch) ((struct undo_private_data *)(ch)->private_data)
#define KPB(d) ((d)->tdb_data_size / 16 - 1)
#define LASTKEY(d) ((d)->keyb->keys[(d)->keys_in_block - 1])

/* the index about to be written describes the block that was just appended (see SPEC above) */
#define LASTKEY_DESCRIBES(d, bs) ((d)->keys_in_block >= 1 && (d)->keys_in_block <= KPB(d) && \
	M.crcs == 1 && LASTKEY(d).blk_crc == M.crc_out && \
	LASTKEY(d).fsblk * (unsigned long long)(bs) <= MC.start && \
	LASTKEY(d).fsblk * (unsigned long long)(bs) + LASTKEY(d).size == MC.start + M.nbytes && \
	(LASTKEY(d).fsblk * (unsigned long long)(bs) == MC.start ? M.crc_seed == 0xffffffffu : M.crc_seed == M.prev_crc))

/* ---- callees of the same file, by contract ---- */
static errcode_t undo_setup_tdb(struct undo_private_data *data)
	REQUIRES(data->tdb_written == 1)
	ASSIGNS()
	ENSURES(RET == 0);

static errcode_t write_undo_indexes(struct undo_private_data *data, int flush)
	REQUIRES(flush == 0)
	REQUIRES(data->keys_in_block <= KPB(data))
	REQUIRES(M.pending == 0 || (M.appends == 1 && (!M.prev_wf || LASTKEY_DESCRIBES(data, CFG_BS))))
	ASSIGNS(data->hdr, data->keys_in_block, data->key_blk_num, data->undo_blk_num,
		__CPROVER_object_whole(data->keyb), M.idx, M.pending, M.hard_err)
	ENSURES(M.pending == 0 && M.idx == OLD(M.idx) + (unsigned)OLD(M.pending))
	ENSURES(RET == 0 ? M.hard_err == OLD(M.hard_err) : M.hard_err == 1)
	ENSURES(RET != 0 || data->keys_in_block < KPB(data));

/* ---- callees of other files: stubs that move the monitor ---- */
/* NO_INLINE_FUNCS: the helpers of ext2fs.h/bitops.h are external functions (lib/ext2fs/inline.c) and are stubbed here.
 * CBMC 6.11 DFCC creates the write set of a contracted loop with allow_allocate = allow_deallocate = false, i.e.
 * malloc/free inside the loop body fail "dynamic allocation is allowed"/"ptr is freeable".  The one block buffer the
 * loop body allocates and frees again (read_ptr) is therefore served from a one-slot harness pool; the monitor
 * checks the allocate/free discipline (no double allocation, free of exactly the handed-out buffer, no leak at
 * the loop head and on return).  Allocation may fail.  On failure the stub stores NULL (the real helper leaves
 * *ptr alone; undo_write_tdb returns at once): otherwise the loop-havocked old value of read_ptr stays in its
 * points-to set and every object becomes a candidate of the following memset. */
errcode_t ext2fs_get_mem(unsigned long size, void *ptr)
{
	void *pp = 0;
	if (size == CFG_TDB && !M.pool_busy && nondet_int()) {
		pp = POOL;
		M.pool_busy = 1;
	} else if (size != CFG_TDB || M.pool_busy)
		M.viol = 1;
	*(void **)ptr = pp;
	if (!pp)
		M.hard_err = 1;
	return pp ? 0 : EXT2_ET_NO_MEMORY;
}
void free(void *p)
{
	if (p != (void *)POOL || !M.pool_busy)
		M.viol = 1;
	M.pool_busy = 0;
}
int ext2fs_test_block_bitmap2(ext2fs_block_bitmap bmap, blk64_t arg)
{
	if (bmap != DATA.written_block_map)
		M.viol = 1;
	if (arg == MC.tstar)
		return M.bit;
	return nondet_int() != 0;	/* other undo blocks: arbitrary */
}
int ext2fs_mark_block_bitmap2(ext2fs_block_bitmap bmap, blk64_t arg)
{
	if (bmap != DATA.written_block_map)
		M.viol = 1;
	if (arg == MC.tstar)
		M.bit = 1;
	return 0;
}
__u32 ext2fs_crc32c_le(__u32 crc, unsigned char const *p, size_t len)
{
	__u32 c = nondet_uint();
	if (M.pending && (const void *)p == M.buf) {
		if (len != M.nbytes)
			M.viol = 1;
		M.crcs++;
		M.crc_out = c;
		M.crc_seed = crc;
	}
	return c;
}

/* backing channel: a read of exactly R(t*) is THE read for t*; the undo file is never read here */
errcode_t io_channel_read_blk64(io_channel ch, unsigned long long block, int count, void *buf)
{
	long r = nondet_long();
	int a = nondet_int();

	if (ch != &REAL) {
		M.viol = 1;
		return r;
	}
	if (r != 0 && r != EXT2_ET_SHORT_READ)
		M.hard_err = 1;
	if (r == EXT2_ET_SHORT_READ) {
		ASSUME(a >= 0 && (unsigned long long)a < DATA.tdb_data_size);
		actual_size = a;	/* what undo_io_read_error() records */
	}
	if (MC.has_range && UNDO_LO(ch->block_size, block) == MC.start &&
	    UNDO_SIZE(ch->block_size, count) == (long long)DATA.tdb_data_size) {
		if (M.pending || M.appends)
			M.viol = 1;	/* read for t* after its append started */
		M.reads++;
		M.buf = buf;
		M.nbytes = r == 0 ? DATA.tdb_data_size : r == EXT2_ET_SHORT_READ ? (unsigned long long)a : 0;
		M.pending = M.nbytes != 0;
		M.prev_crc = DATA.keys_in_block ? LASTKEY(&DATA).blk_crc : 0;
		M.prev_wf = DATA.keys_in_block == 0 ||
			(LASTKEY(&DATA).size != 0 && LASTKEY(&DATA).size % (unsigned)CFG_BS == 0 && LASTKEY(&DATA).fsblk < (1ULL << 48) &&
			 LASTKEY(&DATA).size <= E2UNDO_MAX_EXTENT_BLOCKS * (unsigned long long)CFG_TDB);
	}
	return r;
}
/* undo file: a data append while the read for t* is pending must be that buffer, at the next free block;
 * nothing is written to the backing channel inside undo_write_tdb */
errcode_t io_channel_write_blk64(io_channel ch, unsigned long long block, int count, const void *buf)
{
	if (ch != &UFILE) {
		M.viol = 1;
		return 0;
	}
	if (M.pending) {
		if (buf != M.buf || block != DATA.undo_blk_num ||
		    UNDO_SIZE(ch->block_size, count) != (long long)M.nbytes)
			M.viol = 1;
		M.appends++;
	}
	{
		long r = nondet_long();
		if (r != 0)
			M.hard_err = 1;
		return r;
	}
}

/* spec view of the request */
#define ORG(ch) UNDO_ORIGIN(DATA_OF(ch)->offset, DATA_OF(ch)->tdb_data_size)
#define T0(ch, block) (UNDO_LO((ch)->block_size, block) / DATA_OF(ch)->tdb_data_size + ORG(ch))
#define T1(ch, block, count) ((UNDO_LO((ch)->block_size, block) + (unsigned long long)UNDO_SIZE((ch)->block_size, count) - 1) / \
			      DATA_OF(ch)->tdb_data_size + ORG(ch))
#define IN_RANGE(ch, block, count) (MC.tstar >= T0(ch, block) && MC.tstar <= T1(ch, block, count))
/* Slack: with the device-start numbering (ORG = offset/tdb) and an offset that is not a multiple of tdb the code
 * walks the undo blocks of the DEVICE byte range, whose last block can be one beyond T1.  Saving a block that the
 * request does not touch is harmless for C12 as long as it is saved correctly, so for exactly this block the
 * statement is "untouched or processed like a block in the range".  No slack with the filesystem-relative
 * numbering and for aligned offsets. */
#ifdef UNDO_ORIGIN_FSREL
#define IS_SLACK(ch, block, count) 0
#else
#define IS_SLACK(ch, block, count) ((unsigned long long)DATA_OF(ch)->offset % CFG_TDB != 0 && \
				    MC.tstar == T1(ch, block, count) + 1)
#endif

#define TDB_PRE(ch, block, count) \
	((ch)->block_size == CFG_BS && DATA_OF(ch)->tdb_data_size == CFG_TDB && (count) > -0x7fffffff && \
	 UNDO_SIZE((ch)->block_size, count) <= 0x7fffffffLL && UNDO_SIZE((ch)->block_size, count) > 0 && \
	 (block) <= UNDO_MAX_BLOCK && DATA_OF(ch)->offset >= 0 && DATA_OF(ch)->offset <= UNDO_MAX_OFFSET)

#define POST_IN(r) ((r) != 0 || M_PROCESSED)

static errcode_t undo_write_tdb(io_channel channel, unsigned long long block, int count)
	REQUIRES(TDB_PRE(channel, block, count))
	REQUIRES(DATA_OF(channel)->tdb_written == 1 && DATA_OF(channel)->keys_in_block < KPB(DATA_OF(channel)))
	REQUIRES(MC.has_range == (MC.tstar >= ORG(channel) && MC.tstar - ORG(channel) <= UNDO_MAX_BYTE / CFG_TDB) &&
		 MC.start == (MC.tstar - ORG(channel)) * DATA_OF(channel)->tdb_data_size)
	REQUIRES(M.bit == MC.old_bit && M.reads == 0 && M.appends == 0 && M.idx == 0 && M.crcs == 0 &&
		 M.pending == 0 && M.viol == 0 && M.pool_busy == 0 && M.hard_err == 0)
	ASSIGNS(actual_size, DATA_OF(channel)->num_keys, DATA_OF(channel)->keys_in_block, DATA_OF(channel)->undo_blk_num,
		DATA_OF(channel)->key_blk_num, DATA_OF(channel)->hdr, __CPROVER_object_whole(DATA_OF(channel)->keyb), M,
		__CPROVER_object_whole(POOL))
	ENSURES(M.viol == 0 && M.pool_busy == 0)
	ENSURES(!IN_RANGE(channel, block, count) || POST_IN(RET))
	ENSURES(IN_RANGE(channel, block, count) || IS_SLACK(channel, block, count) || M_UNTOUCHED)
	ENSURES(!IS_SLACK(channel, block, count) || RET != 0 || M_UNTOUCHED || M_PROCESSED);

static void build(void)
{
	memset(&CH, 0, sizeof(CH));
	memset(&REAL, 0, sizeof(REAL));
	memset(&UFILE, 0, sizeof(UFILE));
	memset(&DATA, 0, sizeof(DATA));
	CH.magic = EXT2_ET_MAGIC_IO_CHANNEL;
	CH.manager = undo_io_manager;
	CH.block_size = CFG_BS;
	CH.private_data = &DATA;
	REAL.magic = EXT2_ET_MAGIC_IO_CHANNEL;
	REAL.block_size = CFG_BS;	/* undo_set_blksize keeps the backing channel's block size equal to the undo channel's */
	UFILE.magic = EXT2_ET_MAGIC_IO_CHANNEL;
	UFILE.block_size = CFG_TDB;	/* undo_setup_tdb: io_channel_set_blksize(undo_file, tdb_data_size) */
	DATA.magic = EXT2_ET_MAGIC_UNIX_IO_CHANNEL;
	DATA.real = &REAL;
	DATA.undo_file = &UFILE;
	DATA.tdb_data_size = CFG_TDB;
	DATA.tdb_written = 1;
	DATA.offset = IN.fs_offset;
	DATA.keyb = malloc(CFG_TDB);	/* the key block: tdb bytes of arbitrary content */
	ASSUME(DATA.keyb != 0);
	DATA.num_keys = IN.num_keys;
	DATA.keys_in_block = IN.keys_in_block;
	ASSUME(DATA.keys_in_block < KPB(&DATA));
	DATA.undo_blk_num = IN.undo_blk_num;
	DATA.key_blk_num = IN.key_blk_num;
	ASSUME(IN.fs_offset >= 0 && IN.fs_offset <= UNDO_MAX_OFFSET);
#ifdef ALIGNED_ONLY
	ASSUME(IN.fs_offset % (long long)CFG_TDB == 0);
#endif
	MC.tstar = IN.tstar;
	/* R(t*) lies inside the byte space the preconditions admit (no wrap-around of the product below) */
	MC.has_range = MC.tstar >= ORG(&CH) && MC.tstar - ORG(&CH) <= UNDO_MAX_BYTE / CFG_TDB;
	MC.start = (MC.tstar - ORG(&CH)) * (unsigned long long)CFG_TDB;
	MC.old_bit = IN.bit & 1;
	memset(&M, 0, sizeof(M));
	M.bit = MC.old_bit;
}

void h_write_tdb(void)
{
	LOAD_IN();
	build();
	ASSUME(TDB_PRE(&CH, IN.block, IN.count));
	errcode_t r = undo_write_tdb(&CH, IN.block, IN.count);
	CHECK(M.viol == 0, "no backing-channel write inside undo_write_tdb; appended data is the buffer just read, at the next free undo block");
	CHECK(M.pool_busy == 0, "the block buffer is released on every path");
	if (IN_RANGE(&CH, IN.block, IN.count)) {
		CHECK(r != 0 || M.bit == 1, "undo block t* in the range: marked saved");
		CHECK(r != 0 || MC.old_bit || (M.reads == 1 && M.appends == (M.nbytes != 0) && M.idx == (M.nbytes != 0) && M.crcs == (M.nbytes != 0)),
		      "t* in the range, not yet saved: its old content read once, appended, keyed with size and crc, indexed");
		CHECK(r != 0 || !MC.old_bit || (M.reads == 0 && M.appends == 0 && M.idx == 0), "t* in the range, already saved: first write wins");
		REACH("in-range");
		if (r == 0 && !MC.old_bit && M.nbytes == CFG_TDB && M.prev_wf) REACH("saved");
		if (r == 0 && !MC.old_bit && M.nbytes != 0 && M.nbytes != CFG_TDB) REACH("saved-short");
		if (r == 0 && !MC.old_bit && M.nbytes == 0) REACH("beyond-end");
		if (r == 0 && MC.old_bit) REACH("already-saved");
		if (r != 0) REACH("in-range-err");
#if !defined(UNDO_ORIGIN_FSREL) && !defined(ALIGNED_ONLY)
	} else if (IS_SLACK(&CH, IN.block, IN.count)) {
		CHECK(r != 0 || M_UNTOUCHED || M_PROCESSED, "unaligned offset, the block after the range: untouched or saved correctly");
		REACH("slack");
#endif
	} else {
		CHECK(M_UNTOUCHED, "undo block t* outside the range: untouched");
		REACH("outside");
	}
#ifdef OBS_RETVAL
	/* observation, not demanded by C12: a block that lies completely beyond the end of the device (zero-length
	 * short read) is skipped, but the EXT2_ET_SHORT_READ of that read is what undo_write_tdb finally returns if
	 * no later callee overwrites retval -> the caller refuses the write although nothing failed */
	CHECK(r == 0 || M.hard_err, "an error is returned only if a callee failed with something else than a short read");
#endif
	REACH("end");
}
