/*
 * C12, mechanism 1: "before a write reaches the real channel the old content of every not-yet-saved
 * undo-block in the range is read and appended to the undo file" — the four modifying entry points.
 * Protocol units: undo_write_tdb is replaced by its contract (which moves the ghost captured range),
 * the backing channel's methods are stubs that CHECK "range about to be modified is inside the captured
 * range" (undo_common.h).  The contract of each entry point additionally pins the forwarding
 * (same block/count/buffer reach the backing channel, exactly once, only after a successful capture).
 *
 * FINDINGS (units kept at tier "wip", see /verif/findings/C12_write_byte_offset/):
 *  - undo_write_byte: fails "range ... has been captured" whenever data->offset != 0
 *    (e.g. bs=1024 fs_offset=1024 offset=0 size=2: captured [1024,2048), modified [0,2)).
 *  - undo_zeroout_big / undo_discard_big: count in (INT_MAX/bs, INT_MAX] is accepted by the entry point
 *    but violates undo_write_tdb's precondition (int size = count * block_size overflows).
 */
/* VERIF-UNIT
{
 "name": "undo_write_blk64",
 "props": ["C12"],
 "level": "P",
 "tier": "quick",
 "harness": "h_write_blk64",
 "enforce": ["undo_write_blk64"],
 "replace": ["undo_write_tdb"],
 "sources": ["lib/ext2fs/io_manager.c"],
 "cbmc_flags": ["--object-bits", "12"],
 "functions": ["lib/ext2fs/undo_io.c:undo_write_blk64"],
 "assumes": ["channel block size in {1024,4096,32768}; backing channel has the same block size (undo_set_blksize keeps them equal)",
             "byte count of the request fits in int (the caller's buffer has that many bytes) and block <= 2^44, 0 <= fs offset <= 2^60",
             "undo_write_tdb behaves as its contract says (proved separately by unit undo_write_tdb)"],
 "native": false
}
*/
/* VERIF-UNIT
{
 "name": "undo_zeroout",
 "props": ["C12"],
 "level": "P",
 "tier": "quick",
 "harness": "h_zeroout",
 "enforce": ["undo_zeroout"],
 "replace": ["undo_write_tdb"],
 "sources": ["lib/ext2fs/io_manager.c"],
 "cbmc_flags": ["--object-bits", "12"],
 "functions": ["lib/ext2fs/undo_io.c:undo_zeroout"],
 "assumes": ["channel block size in {1024,4096,32768}; backing channel has the same block size",
             "count * block_size <= INT_MAX (larger counts: see unit undo_zeroout_big, a finding), block <= 2^44, 0 <= fs offset <= 2^60",
             "undo_write_tdb behaves as its contract says"],
 "native": false
}
*/
/* VERIF-UNIT
{
 "name": "undo_discard",
 "props": ["C12"],
 "level": "P",
 "tier": "quick",
 "harness": "h_discard",
 "enforce": ["undo_discard"],
 "replace": ["undo_write_tdb"],
 "sources": ["lib/ext2fs/io_manager.c"],
 "cbmc_flags": ["--object-bits", "12"],
 "functions": ["lib/ext2fs/undo_io.c:undo_discard"],
 "assumes": ["channel block size in {1024,4096,32768}; backing channel has the same block size",
             "count * block_size <= INT_MAX (larger counts: see unit undo_discard_big, a finding), block <= 2^44, 0 <= fs offset <= 2^60",
             "undo_write_tdb behaves as its contract says"],
 "native": false
}
*/
/* VERIF-UNIT
{
 "name": "undo_zeroout_big",
 "props": ["C12"],
 "level": "P",
 "tier": "obs",
 "harness": "h_zeroout_big",
 "enforce": ["undo_zeroout"],
 "replace": ["undo_write_tdb"],
 "sources": ["lib/ext2fs/io_manager.c"],
 "cbmc_flags": ["--object-bits", "12"],
 "functions": ["lib/ext2fs/undo_io.c:undo_zeroout"],
 "assumes": ["as undo_zeroout but any count the entry point itself accepts (<= INT_MAX)"],
 "native": false
}
*/
/* VERIF-UNIT
{
 "name": "undo_write_byte_off0",
 "props": ["C12"],
 "level": "P",
 "tier": "quick",
 "harness": "h_write_byte_off0",
 "enforce": ["undo_write_byte"],
 "replace": ["undo_write_tdb"],
 "sources": ["lib/ext2fs/io_manager.c"],
 "cbmc_flags": ["--object-bits", "12"],
 "functions": ["lib/ext2fs/undo_io.c:undo_write_byte"],
 "assumes": ["filesystem offset (data->offset) == 0 — with a non-zero offset the property FAILS, see unit undo_write_byte",
             "channel block size in {1024,4096,32768}; backing channel has the same block size",
             "0 <= size <= 2^30, offset <= 2^53",
             "undo_write_tdb behaves as its contract says"],
 "native": false
}
*/
/* VERIF-UNIT
{
 "name": "undo_write_byte",
 "props": ["C12"],
 "level": "P",
 "tier": "quick",
 "harness": "h_write_byte",
 "enforce": ["undo_write_byte"],
 "replace": ["undo_write_tdb"],
 "sources": ["lib/ext2fs/io_manager.c"],
 "cbmc_flags": ["--object-bits", "12"],
 "functions": ["lib/ext2fs/undo_io.c:undo_write_byte"],
 "assumes": ["channel block size in {1024,4096,32768}; backing channel has the same block size",
             "0 <= size <= 2^30, offset <= 2^53, 0 <= fs offset <= 2^53",
             "undo_write_tdb behaves as its contract says"],
 "native": false
}
*/
#include "undo_common.h"

/* what every entry point owes: magic checks first; capture strictly before the modification; the request
 * is forwarded unchanged, once; a failed capture means the backing channel is not touched */
#define ENTRY_POST(kind, a, b, bufp) \
	ENSURES(channel->magic == EXT2_ET_MAGIC_IO_CHANNEL || (RET == EXT2_ET_MAGIC_IO_CHANNEL && g_tdb_calls == 0 && g_real_mods == 0)) \
	ENSURES(g_real_mods <= 1 && g_tdb_calls <= 1) \
	ENSURES(g_real_mods == 0 || (g_tdb_calls == 1 && g_tdb_ret == 0)) \
	ENSURES(g_tdb_calls == 0 || g_tdb_ret == 0 || RET == g_tdb_ret) \
	ENSURES(g_real_mods == 0 || (g_real_kind == (kind) && g_real_a == (a) && g_real_b == (b) && g_real_buf == (bufp)))

static errcode_t undo_write_blk64(io_channel channel, unsigned long long block, int count, const void *buf)
	REQUIRES(UNDO_TDB_PRE(channel, block, count))
	ASSIGNS(GHOST_FRAME)
	ENTRY_POST(1, block, (unsigned long long)(long long)count, buf)
	ENSURES(channel->magic != EXT2_ET_MAGIC_IO_CHANNEL || DATA_OF(channel)->magic != EXT2_ET_MAGIC_UNIX_IO_CHANNEL ||
		g_tdb_ret != 0 || (g_real_mods == 1) == (DATA_OF(channel)->real != 0));

static errcode_t undo_zeroout(io_channel channel, unsigned long long block, unsigned long long count)
	REQUIRES(UNDO_BS_OK(channel->block_size) && block <= UNDO_MAX_BLOCK &&
		 DATA_OF(channel)->offset >= 0 && DATA_OF(channel)->offset <= UNDO_MAX_OFFSET)
	ASSIGNS(GHOST_FRAME)
	ENTRY_POST(3, block, count, (const void *)0)
	ENSURES(channel->magic != EXT2_ET_MAGIC_IO_CHANNEL || DATA_OF(channel)->magic != EXT2_ET_MAGIC_UNIX_IO_CHANNEL ||
		g_tdb_calls == 0 || g_tdb_ret != 0 || (g_real_mods == 1) == (DATA_OF(channel)->real != 0));

static errcode_t undo_discard(io_channel channel, unsigned long long block, unsigned long long count)
	REQUIRES(UNDO_BS_OK(channel->block_size) && block <= UNDO_MAX_BLOCK &&
		 DATA_OF(channel)->offset >= 0 && DATA_OF(channel)->offset <= UNDO_MAX_OFFSET)
	ASSIGNS(GHOST_FRAME)
	ENTRY_POST(4, block, count, (const void *)0)
	ENSURES(channel->magic != EXT2_ET_MAGIC_IO_CHANNEL || DATA_OF(channel)->magic != EXT2_ET_MAGIC_UNIX_IO_CHANNEL ||
		g_tdb_calls == 0 || g_tdb_ret != 0 || (g_real_mods == 1) == (DATA_OF(channel)->real != 0));

static errcode_t undo_write_byte(io_channel channel, unsigned long offset, int size, const void *buf)
	REQUIRES(UNDO_BS_OK(channel->block_size) && size >= 0 && size <= 0x40000000 && offset <= (1UL << 53) &&
		 DATA_OF(channel)->offset >= 0 && DATA_OF(channel)->offset <= (1LL << 53))
	ASSIGNS(GHOST_FRAME)
	ENTRY_POST(2, offset, (unsigned long long)(long long)size, buf)
	ENSURES(channel->magic != EXT2_ET_MAGIC_IO_CHANNEL || DATA_OF(channel)->magic != EXT2_ET_MAGIC_UNIX_IO_CHANNEL ||
		g_tdb_ret != 0 || (g_real_mods == 1) ==
			(DATA_OF(channel)->real != 0 && DATA_OF(channel)->real->manager->write_byte != 0));

static const char BUF[1];

static void common_checks(errcode_t r, int kind)
{
	if (IN.chan_magic_bad) {
		CHECK(r == EXT2_ET_MAGIC_IO_CHANNEL && g_real_mods == 0 && g_tdb_calls == 0, "bad channel magic: refused before anything happens");
		return;
	}
	if (IN.data_magic_bad) {
		CHECK(r == EXT2_ET_MAGIC_UNIX_IO_CHANNEL && g_real_mods == 0 && g_tdb_calls == 0, "bad private magic: refused before anything happens");
		return;
	}
	CHECK(g_real_mods <= 1, "the backing channel is modified at most once");
	CHECK(g_real_mods == 0 || (g_tdb_calls == 1 && g_tdb_ret == 0), "the backing channel is modified only after a successful capture");
	CHECK(g_real_mods == 0 || g_real_kind == kind, "the same kind of operation is forwarded");
	if (g_real_mods == 1 && IN.have_undo)
		REACH("modified-with-undo");
	if (g_tdb_calls == 1 && g_tdb_ret != 0) {
		CHECK(r == g_tdb_ret && g_real_mods == 0, "failed capture: error returned, device untouched");
		REACH("capture-failed");
	}
}

void h_write_blk64(void)
{
	LOAD_IN();
	errcode_t r = 0;
	FOR_EACH_BS((ASSUME(UNDO_TDB_PRE(&CH, IN.block, IN.count)), r = undo_write_blk64(&CH, IN.block, IN.count, BUF)));
	common_checks(r, 1);
	CHECK(g_real_mods == 0 || (g_real_a == IN.block && (int)g_real_b == IN.count && g_real_buf == BUF), "block, count and buffer are forwarded unchanged");
	if (!IN.chan_magic_bad && !IN.data_magic_bad && g_tdb_ret == 0)
		CHECK((g_real_mods == 1) == (IN.have_real != 0), "after a successful capture the write is forwarded iff there is a backing channel");
	REACH("end");
}

#define ZD_PRE (IN.block <= UNDO_MAX_BLOCK && IN.fs_offset >= 0 && IN.fs_offset <= UNDO_MAX_OFFSET)

static void zd_checks(errcode_t r, int kind)
{
	common_checks(r, kind);
	CHECK(g_real_mods == 0 || (g_real_a == IN.block && g_real_b == IN.ucount), "block and count are forwarded unchanged");
	if (!IN.chan_magic_bad && !IN.data_magic_bad && IN.ucount > 0x7fffffffULL)
		CHECK(r == EXT2_ET_UNIMPLEMENTED && g_real_mods == 0, "counts that do not fit the capture interface are refused, device untouched");
	else if (!IN.chan_magic_bad && !IN.data_magic_bad && g_tdb_ret == 0)
		CHECK((g_real_mods == 1) == (IN.have_real != 0), "after a successful capture the request is forwarded iff there is a backing channel");
}

void h_zeroout(void)
{
	LOAD_IN();
	errcode_t r = 0;
	ASSUME(ZD_PRE);
	FOR_EACH_BS((ASSUME(IN.ucount > 0x7fffffffULL || IN.ucount * CH.block_size <= 0x7fffffffULL), r = undo_zeroout(&CH, IN.block, IN.ucount)));
	zd_checks(r, 3);
	REACH("end");
}

void h_zeroout_big(void)
{
	LOAD_IN();
	errcode_t r = 0;
	ASSUME(ZD_PRE);
	FOR_EACH_BS(r = undo_zeroout(&CH, IN.block, IN.ucount));
	zd_checks(r, 3);
	REACH("end");
}

void h_discard(void)
{
	LOAD_IN();
	errcode_t r = 0;
	ASSUME(ZD_PRE);
	FOR_EACH_BS((ASSUME(IN.ucount > 0x7fffffffULL || IN.ucount * CH.block_size <= 0x7fffffffULL), r = undo_discard(&CH, IN.block, IN.ucount)));
	zd_checks(r, 4);
	REACH("end");
}

static void wb_checks(errcode_t r)
{
	common_checks(r, 2);
	CHECK(g_real_mods == 0 || (g_real_a == IN.offset && (int)g_real_b == IN.size && g_real_buf == BUF), "offset, size and buffer are forwarded unchanged");
	if (!IN.chan_magic_bad && !IN.data_magic_bad && g_tdb_ret == 0)
		CHECK((g_real_mods == 1) == (IN.have_real != 0 && IN.have_write_byte != 0), "after a successful capture the byte write is forwarded iff the backing channel supports it");
}

void h_write_byte_off0(void)
{
	LOAD_IN();
	errcode_t r = 0;
	ASSUME(IN.size >= 0 && IN.size <= 0x40000000 && IN.offset <= (1UL << 53));
	ASSUME(IN.fs_offset == 0);
	FOR_EACH_BS(r = undo_write_byte(&CH, IN.offset, IN.size, BUF));
	wb_checks(r);
	REACH("end");
}

void h_write_byte(void)
{
	LOAD_IN();
	errcode_t r = 0;
	ASSUME(IN.size >= 0 && IN.size <= 0x40000000 && IN.offset <= (1UL << 53));
	ASSUME(IN.fs_offset >= 0 && IN.fs_offset <= (1LL << 53));
	FOR_EACH_BS(r = undo_write_byte(&CH, IN.offset, IN.size, BUF));
	wb_checks(r);
	REACH("end");
}
