/*
 * C13, mechanism 4 ("close only flushes when ... dirty"): lib/ext2fs/closefs.c:ext2fs_close2().
 * Statement: a filesystem handle WITHOUT EXT2_FLAG_RW is closed without touching the superblock's
 * s_kbytes_written and without marking anything dirty; ext2fs_flush2 (the only path to the channel's write
 * methods from here) is called at most once, and only if EXT2_FLAG_DIRTY was set on entry or the handle is
 * read-write and recorded written bytes.  In particular: not RW and not DIRTY  =>  no flush at all.
 * (Observation kept from DESIGN §6 C13: close2 does flush on DIRTY alone, even without RW — a read-only
 * handle that some caller marked dirty reaches ext2fs_flush2; the O_RDONLY descriptor is then the only
 * guard.  That is what the contract states, it is not hidden.)
 * ext2fs_flush2 (same file) is replaced by a contract that counts calls in the ghost g_flush_calls.
 */
/* VERIF-UNIT
{
 "name": "ext2fs_close2",
 "props": ["C13"],
 "level": "P",
 "tier": "quick",
 "harness": "h_close2",
 "enforce": ["ext2fs_close2"],
 "replace": ["ext2fs_flush2"],
 "functions": ["lib/ext2fs/closefs.c:ext2fs_close2"],
 "assumes": ["fs->blocksize in {1024,4096,65536}", "the fs->write_bitmaps hook is not installed (it is set only by ext2fs_read_bitmaps callers that opened read-write bitmaps; covered by the write_bitmaps unit)",
             "ext2fs_mmp_stop / ext2fs_free are stubs (mmp_stop writes only when MMP was started, which needs RW)"],
 "native": false
}
*/
#include "verif.h"

struct in_c2 {
	int flags, close_flags;
	unsigned int bs_sel;
	unsigned long long kbytes, bytes_written;
	unsigned long desc_blocks;
	unsigned char have_stats, have_get_stats;
	long flush_ret, mmp_ret;
};
struct in_c2 IN;
#include "verif_in.h"

unsigned int g_flush_calls, g_free_calls;
int g_old_flags;
unsigned long long g_old_kb;

#include "lib/ext2fs/closefs.c"

errcode_t ext2fs_flush2(ext2_filsys fs, int flags)
	ASSIGNS(g_flush_calls)
	ENSURES(g_flush_calls == OLD(g_flush_calls) + 1);

errcode_t ext2fs_close2(ext2_filsys fs, int flags)
	REQUIRES(fs->flags == g_old_flags && fs->super->s_kbytes_written == g_old_kb && g_flush_calls == 0)
	REQUIRES(fs->write_bitmaps == 0)
	REQUIRES(fs->blocksize == 1024 || fs->blocksize == 4096 || fs->blocksize == 65536)
	ASSIGNS(g_flush_calls, g_free_calls, fs->flags, fs->super->s_kbytes_written)
	ENSURES((g_old_flags & EXT2_FLAG_RW) || (fs->super->s_kbytes_written == g_old_kb && fs->flags == g_old_flags))
	ENSURES(g_flush_calls <= 1)
	ENSURES(g_flush_calls == 0 || (g_old_flags & EXT2_FLAG_DIRTY) || (g_old_flags & EXT2_FLAG_RW))
	ENSURES((g_old_flags & (EXT2_FLAG_DIRTY | EXT2_FLAG_RW)) != 0 || g_flush_calls == 0)
	ENSURES(!(g_old_flags & EXT2_FLAG_DIRTY) || fs->magic != EXT2_ET_MAGIC_EXT2FS_FILSYS || g_flush_calls == 1);

static struct struct_ext2_filsys FS;
static struct ext2_super_block SB;
static struct struct_io_channel IO;
static struct struct_io_manager MGR;
static struct struct_io_stats STATS;

static errcode_t st_get_stats(io_channel ch, io_stats *st)
{
	if (IN.have_stats)
		*st = &STATS;	/* STATS.bytes_written was set by build() */
	return 0;
}
errcode_t ext2fs_mmp_stop(ext2_filsys fs) { return IN.mmp_ret; }
void ext2fs_free(ext2_filsys fs) { g_free_calls++; }

static void build(int with_get_stats)
{
	memset(&FS, 0, sizeof(FS));
	memset(&SB, 0, sizeof(SB));
	memset(&IO, 0, sizeof(IO));
	memset(&MGR, 0, sizeof(MGR));
	FS.magic = EXT2_ET_MAGIC_EXT2FS_FILSYS;
	FS.super = &SB;
	FS.io = &IO;
	IO.manager = &MGR;
	if (with_get_stats)
		MGR.get_stats = st_get_stats;
	FS.flags = IN.flags;
	FS.blocksize = IN.bs_sel == 0 ? 1024 : IN.bs_sel == 1 ? 4096 : 65536;
	FS.desc_blocks = IN.desc_blocks;
	SB.s_kbytes_written = IN.kbytes;
	STATS.bytes_written = IN.bytes_written;
	g_old_flags = IN.flags;
	g_old_kb = IN.kbytes;
	g_flush_calls = g_free_calls = 0;
}

void h_close2(void)
{
	LOAD_IN();
	errcode_t r;
	if (IN.have_get_stats) { build(1); r = ext2fs_close2(&FS, IN.close_flags); }
	else { build(0); r = ext2fs_close2(&FS, IN.close_flags); }
	if (!(IN.flags & EXT2_FLAG_RW)) {
		CHECK(SB.s_kbytes_written == IN.kbytes, "read-only handle: s_kbytes_written is not updated on close");
		CHECK(FS.flags == IN.flags, "read-only handle: close does not mark the filesystem dirty");
		CHECK((g_flush_calls == 1) == ((IN.flags & EXT2_FLAG_DIRTY) != 0), "read-only handle: flush happens iff the handle was already marked dirty");
		if (!(IN.flags & EXT2_FLAG_DIRTY)) {
			CHECK(g_flush_calls == 0, "read-only and clean: close never reaches ext2fs_flush2");
			REACH("ro-clean");
		}
	} else {
		CHECK(g_flush_calls <= 1, "at most one flush");
		if (g_flush_calls == 1 && !(IN.flags & EXT2_FLAG_DIRTY))
			REACH("rw-stat-update-flush");
	}
	REACH("end");
}
