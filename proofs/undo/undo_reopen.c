/*
 * C12, mechanism 4: "re-opening an existing undo file validates it and continues after the last key" —
 * lib/ext2fs/undo_io.c:try_reopen_undo_file().
 *
 * (1) undo_reopen_keys: the written_block_map is rebuilt from the keys of the existing undo file.
 * SPEC (specs/undo_spec.h; independent of the code's arithmetic): a key (fsblk, size) of an undo file whose header
 * says fs_block_size = fsbs, block_size = tdb describes the filesystem bytes [fsblk*fsbs, fsblk*fsbs + size) — that
 * is what e2undo writes back.  The run that continues the file must never capture any of these bytes again (they
 * may have been modified since), so EVERY undo block t with R(t) ∩ [fsblk*fsbs, +size) != {} must be marked, i.e.
 * all t in [start/tdb, (start+size-1)/tdb] — a partial last block counts (the length is rounded UP).
 * Pointwise: for ONE ghost key (the MC.jstar-th key of the MC.istar-th key block, content arbitrary as delivered
 * by the undo-file read stub) and ONE ghost undo block MC.tstar: if try_reopen_undo_file returns 0, the ghost key
 * exists (istar*kpb + jstar < num_keys), is well formed (as undo_write_tdb produces keys: start a multiple of tdb,
 * size >= 1, fsblk <= 2^44) and overlaps R(tstar), then bit tstar has been marked.
 * The two loops are closed by in-place loop contracts (named anchors VERIF_INV_UNDO_REOPEN_KEYBLOCKS/_KEYS, text
 * below).  Also checked on the way: memory safety of every key access for arbitrary key-block content.  NOT
 * covered: the position bookkeeping for appending (undo_blk_num, key_blk_num, keys_in_block after the loops).
 *
 * (2) undo_reopen_header (C12 + C06): header validation prefix for a completely arbitrary 512-byte header: no
 * out-of-bounds access, and check_filesystem/undo_setup_tdb are only reached with magic, header crc, block size in
 * [1024, 1 MiB], fs block size != 0 and no incompat/rocompat feature; the undo channel block size is set to the
 * header's block size first.  (Loop-free: check_filesystem is made to refuse, so the key loops are not entered.)
 */
/* VERIF-UNIT
{
 "name": "undo_reopen_keys", "defines": ["NO_INLINE_FUNCS", "CFG_BS=1024", "CFG_TDB=1024"],
 "props": ["C12"], "level": "U", "tier": "thorough", "harness": "h_reopen_keys",
 "replace": ["check_filesystem", "undo_setup_tdb"], "loop_contracts": true,
 "unwind": 24, "unwind_reason": "only DFCC library loops over the assigns-clause targets (<= 12) are unwound; both loops of try_reopen_undo_file are closed by in-place loop contracts",
 "functions": ["lib/ext2fs/undo_io.c:try_reopen_undo_file"],
 "assumes": ["header of the existing undo file: block_size 1024, fs_block_size 1024 (literals: symbolic divisors do not terminate), num_keys <= 2^40, everything else arbitrary",
   "key blocks have arbitrary content (each read of the undo file delivers new arbitrary bytes); crc32c is a stub that may or may not match",
   "the ghost key is well formed as undo_write_tdb writes keys: fsblk*fs_block_size a multiple of block_size, size >= 1, fsblk <= 2^44",
   "block_size 4096 (255 keys per block) was tried and does not finish in 600 s",
   "check_filesystem and undo_setup_tdb by contract; the key block (block_size bytes) and the bitmap that undo_setup_tdb allocates are put in place by the harness before the call",
   "the numbering origin is 0: data->offset is 0 while an undo file is re-opened (the offset option reaches the channel after open)",
   "NO_INLINE_FUNCS: ext2fs_fstat, ext2fs_free_mem, bitmap functions are unit stubs"],
 "backend": "cadical", "native": false, "timeout": 600
}
*/
/* VERIF-UNIT
{
 "name": "undo_reopen_header", "defines": ["NO_INLINE_FUNCS", "HEADER_ONLY=1"],
 "props": ["C12", "C06"], "level": "U", "tier": "quick", "harness": "h_reopen_header",
 "replace": ["check_filesystem", "undo_setup_tdb"], "loop_contracts": true,
 "unwind": 24, "unwind_reason": "loop-free prefix: check_filesystem refuses, so the key loops are never entered; only DFCC library loops are unwound",
 "functions": ["lib/ext2fs/undo_io.c:try_reopen_undo_file"],
 "assumes": ["the 512 header bytes, the file size and all callee results are arbitrary; check_filesystem (by contract) reports a mismatch, so the function ends before the key loops",
   "crc32c is a stub whose result is arbitrary"],
 "backend": "cadical", "native": false, "timeout": 300
}
*/
#include "verif.h"
#include "undo_spec.h"

#ifndef CFG_BS
#define CFG_BS 1024
#define CFG_TDB 1024
#endif
#define KPB_C (CFG_TDB / 16 - 1)

struct in_reopen {
	unsigned long long tstar, istar, jstar;
	unsigned long long first_key_blk;
	long long st_size;
};
struct in_reopen IN;
#include "verif_in.h"

#ifndef VERIF_NATIVE
int nondet_int(void);
long nondet_long(void);
unsigned int nondet_uint(void);
#endif

struct reopen_monc {
	unsigned long long tstar;	/* ghost undo block */
	unsigned long long istar;	/* ghost key: ordinal of its key block */
	unsigned long long jstar;	/* ghost key: slot in that key block */
	void *keyb;			/* what undo_setup_tdb allocates */
	void *map;
};
/* moved while the key loops run (an assigns target of the outer loop) */
struct reopen_mon {
	unsigned long long nblk;	/* key blocks read so far */
	unsigned long long k_fsblk;	/* the ghost key as the read stub delivered it */
	unsigned long long k_size;
	int viol;
};
/* moved only before the loops: the validation prefix */
struct reopen_prefix {
	unsigned int hdr_reads, setblk, chkfs, setup;
	int crc_seen;
	int hdr_crc_ok;			/* the crc stub returned the stored header crc for the header */
	int viol;
};
/* what the bitmap stub moves (the only ghost state the inner loop assigns) */
struct reopen_bits {
	int bit;			/* bit tstar marked */
	int viol;
};
struct reopen_monc MC;
struct reopen_mon M;
struct reopen_prefix P;
struct reopen_bits B;

/* the ghost key (as delivered) is well formed and overlaps R(tstar), numbering origin 0 */
#define K_START (M.k_fsblk * (unsigned long long)CFG_BS)
#define K_WF (M.k_fsblk <= UNDO_MAX_BLOCK && K_START % CFG_TDB == 0 && M.k_size >= 1)
#define K_OVERLAPS (K_WF && K_START / CFG_TDB <= MC.tstar && MC.tstar <= (K_START + M.k_size - 1) / CFG_TDB)
#define K_EXISTS(nk) (MC.jstar < KPB_C && MC.istar * KPB_C + MC.jstar < (nk))
#define COV(nk) (!K_EXISTS(nk) || !K_OVERLAPS || B.bit == 1)
#define KEY_AT(d, s) (((struct undo_key_block *)(d)->keyb)->keys[s])

/* loop contracts of try_reopen_undo_file (named anchors in lib/ext2fs/undo_io.c) */
#define VERIF_INV_UNDO_REOPEN_KEYBLOCKS \
	__CPROVER_assigns(i, lblk, retval, key_crc, dkey, data->key_blk_num, data->undo_blk_num, data->keys_in_block, \
			  __CPROVER_object_whole(data->keyb), M, B) \
	__CPROVER_loop_invariant(i == M.nblk * KPB_C && M.nblk <= (1ULL << 41) && M.viol == 0 && B.viol == 0 && retval == 0) \
	__CPROVER_loop_invariant(data->num_keys == num_keys && keys_per_block == KPB_C && data->keyb == MC.keyb) \
	__CPROVER_loop_invariant(M.nblk <= MC.istar || COV(num_keys)) \
	__CPROVER_decreases(num_keys + KPB_C - i)
#define VERIF_INV_UNDO_REOPEN_KEYS \
	__CPROVER_assigns(j, dkey, lblk, data->undo_blk_num, data->keys_in_block, B) \
	__CPROVER_loop_invariant(j <= max_j && max_j <= KPB_C && dkey == data->keyb->keys + j && B.viol == 0) \
	__CPROVER_loop_invariant(M.nblk <= MC.istar + 1 || COV(num_keys)) \
	__CPROVER_loop_invariant(M.nblk != MC.istar + 1 || !K_EXISTS(num_keys) || \
				 (KEY_AT(data, MC.jstar).fsblk == M.k_fsblk && KEY_AT(data, MC.jstar).size == M.k_size)) \
	__CPROVER_loop_invariant(M.nblk != MC.istar + 1 || j <= MC.jstar || COV(num_keys)) \
	__CPROVER_loop_invariant(j == 0 || data->keys_in_block == j) \
	__CPROVER_decreases(max_j - j)
/* ghost statement at the top of the inner loop body: the loop contract havocs the cursor dkey and CBMC would then
 * consider every object a candidate of dkey->fsblk (6M clauses per access); re-deriving it from j — which the
 * invariant above states and the step obligation re-proves after the real dkey++ — keeps its points-to set exact */
#define VERIF_GHOST_UNDO_REOPEN_KEY dkey = data->keyb->keys + j;

#include "lib/ext2fs/undo_io.c"

static struct struct_io_channel UFILE, REAL;
static struct struct_io_manager UFILE_MGR;
static struct undo_private_data DATA;
static unsigned char HDR_BYTES[sizeof(struct undo_header)];

/* ---- callees of the same file, by contract ---- */
static int check_filesystem(struct undo_header *hdr, io_channel undo_file, unsigned int blocksize,
			    blk64_t super_block, io_channel channel)
	/* only reached with a validated header, after the undo channel got the header's block size */
	REQUIRES(P.hdr_reads == 1 && P.hdr_crc_ok && P.setblk == 1 && P.setup == 0 && P.chkfs == 0)
	REQUIRES(blocksize >= 1024 && blocksize <= 1048576 && hdr->fs_block_size != 0 &&
		 hdr->f_incompat == 0 && hdr->f_rocompat == 0 && blocksize == hdr->block_size &&
		 undo_file->block_size == (int)blocksize)
	REQUIRES(hdr->magic[0] == 'E' && hdr->magic[1] == '2' && hdr->magic[2] == 'U' && hdr->magic[3] == 'N' &&
		 hdr->magic[4] == 'D' && hdr->magic[5] == 'O' && hdr->magic[6] == '0' && hdr->magic[7] == '2')
	ASSIGNS(P.chkfs)
	ENSURES(P.chkfs == 1)
#ifdef HEADER_ONLY
	ENSURES(RET != 0)
#endif
	;

static errcode_t undo_setup_tdb(struct undo_private_data *data)
	REQUIRES(P.chkfs == 1 && P.setup == 0)
	REQUIRES(data->tdb_data_size == CFG_TDB && data->tdb_written != 1)
	/* the key block and the bitmap it allocates are put in place by the harness beforehand (a pointer that is
	 * havocked and then constrained by an ensures clause has no points-to set in CBMC: every later access through
	 * it would go to an "invalid object"); nothing reads them before this call */
	REQUIRES(data->keyb == MC.keyb && data->written_block_map == MC.map)
	ASSIGNS(data->tdb_written, data->fake_fs, data->key_blk_num, data->hdr.block_size, P.setup)
	ENSURES(P.setup == 1)
	ENSURES(RET != 0 || data->tdb_written == 1);

/* ---- callees of other files: stubs ---- */
int ext2fs_fstat(int fd, ext2fs_struct_stat *buf)
{
	buf->st_size = IN.st_size;
	return nondet_int();
}
__u32 ext2fs_crc32c_le(__u32 crc, unsigned char const *p, size_t len)
{
	__u32 c = nondet_uint();
	if (!P.crc_seen) {
		/* first crc of the function: the header, all of it but its last field */
		if (crc != ~0U || len != sizeof(struct undo_header) - sizeof(__u32))
			P.viol = 1;
		P.hdr_crc_ok = c == ((const struct undo_header *)p)->header_crc;
		P.crc_seen = 1;
	}
	return c;
}
static errcode_t st_set_blksize(io_channel ch, int blksize)
{
	if (ch != &UFILE)
		P.viol = 1;
	P.setblk++;
	ch->block_size = blksize;
	return 0;
}
errcode_t io_channel_read_blk64(io_channel ch, unsigned long long block, int count, void *buf)
{
	long r = nondet_long();
	if (ch != &UFILE) {
		M.viol = 1;
		return r;
	}
	if (count == -(int)sizeof(struct undo_header)) {
		/* the header: 512 arbitrary bytes */
		if (block != 0 || P.hdr_reads != 0)
			P.viol = 1;
		P.hdr_reads++;
		memcpy(buf, HDR_BYTES, sizeof(HDR_BYTES));
#ifndef HEADER_ONLY
		/* enumerated configuration; host is little-endian */
		((struct undo_header *)buf)->block_size = CFG_TDB;
		((struct undo_header *)buf)->fs_block_size = CFG_BS;
#endif
		return r;
	}
	/* a key block: one undo block of new arbitrary bytes into the key buffer */
	if (count != 1 || buf != MC.keyb || P.setup != 1 || ch->block_size != CFG_TDB)
		M.viol = 1;
#ifndef VERIF_NATIVE
	__CPROVER_havoc_slice(buf, CFG_TDB);
#endif
	if (M.nblk == MC.istar && MC.jstar < KPB_C) {
		M.k_fsblk = ((struct undo_key_block *)buf)->keys[MC.jstar].fsblk;
		M.k_size = ((struct undo_key_block *)buf)->keys[MC.jstar].size;
	}
	M.nblk++;
	return r;
}
void ext2fs_mark_block_bitmap_range2(ext2fs_block_bitmap bmap, blk64_t block, unsigned int num)
{
	if (bmap != MC.map)
		B.viol = 1;
	if (block <= MC.tstar && MC.tstar - block < num)
		B.bit = 1;
}
errcode_t ext2fs_free_mem(void *ptr) { *(void **)ptr = 0; return 0; }
void ext2fs_free_generic_bitmap(ext2fs_inode_bitmap bmap) { }

static unsigned char *KEYB_OBJ;
static int MAP_OBJ;

static void build(void)
{
	memset(&UFILE, 0, sizeof(UFILE));
	memset(&REAL, 0, sizeof(REAL));
	memset(&UFILE_MGR, 0, sizeof(UFILE_MGR));
	memset(&DATA, 0, sizeof(DATA));
	UFILE_MGR.magic = EXT2_ET_MAGIC_IO_MANAGER;
	UFILE_MGR.set_blksize = st_set_blksize;
	UFILE.magic = EXT2_ET_MAGIC_IO_CHANNEL;
	UFILE.manager = &UFILE_MGR;
	UFILE.block_size = 1024;
	REAL.magic = EXT2_ET_MAGIC_IO_CHANNEL;
	/* undo_open(): memset 0, then these */
	DATA.magic = EXT2_ET_MAGIC_UNIX_IO_CHANNEL;
	DATA.super_blk_num = 1;
	DATA.first_key_blk = 2;
	DATA.undo_blk_num = 3;
	DATA.real = &REAL;
	DATA.undo_file = &UFILE;
	KEYB_OBJ = malloc(CFG_TDB);
	ASSUME(KEYB_OBJ != 0);
	MC.keyb = KEYB_OBJ;
	MC.map = &MAP_OBJ;
	DATA.keyb = (struct undo_key_block *)KEYB_OBJ;	/* see the contract of undo_setup_tdb */
	DATA.written_block_map = (ext2fs_block_bitmap)&MAP_OBJ;
	MC.tstar = IN.tstar;
	MC.istar = IN.istar;
	MC.jstar = IN.jstar;
	ASSUME(MC.istar <= (1ULL << 40));
	memset(&M, 0, sizeof(M));
	memset(&P, 0, sizeof(P));
	memset(&B, 0, sizeof(B));
}

#ifndef HEADER_ONLY
void h_reopen_keys(void)
{
	LOAD_IN();
	build();
	ASSUME(((struct undo_header *)HDR_BYTES)->num_keys <= (1ULL << 40));
	errcode_t r = try_reopen_undo_file(3, &DATA);
	CHECK(M.viol == 0 && P.viol == 0 && B.viol == 0, "undo-file reads are the header, then whole key blocks into the key buffer; the bitmap marked is the written_block_map");
	if (r == 0 && P.setup == 1) {
		CHECK(DATA.num_keys == ((struct undo_header *)HDR_BYTES)->num_keys, "num_keys taken from the header");
		CHECK(M.nblk * KPB_C >= DATA.num_keys, "all key blocks that hold the num_keys keys were read");
		CHECK(COV(DATA.num_keys), "every undo block overlapped by the ghost key's byte range is marked (partial last block included)");
		CHECK(!(((struct undo_header *)HDR_BYTES)->state & E2UNDO_STATE_FINISHED) || !(DATA.hdr.state & E2UNDO_STATE_FINISHED),
		      "the FINISHED flag is cleared for the run that continues the file");
		REACH("reopened");
		if (K_EXISTS(DATA.num_keys) && K_OVERLAPS) REACH("ghost-key-overlaps");
		if (K_EXISTS(DATA.num_keys) && K_OVERLAPS && M.k_size % CFG_TDB != 0 &&
		    MC.tstar == (K_START + M.k_size - 1) / CFG_TDB) REACH("partial-last-block");
		if (K_EXISTS(DATA.num_keys) && MC.istar > 0) REACH("later-key-block");
	}
	if (r != 0) REACH("refused");
	REACH("end");
}
#else
void h_reopen_header(void)
{
	LOAD_IN();
	build();
	errcode_t r = try_reopen_undo_file(3, &DATA);
	CHECK(M.viol == 0 && P.viol == 0, "header read once from block 0; header crc over all but the last field, seeded with ~0");
	CHECK(P.setup == 0, "undo_setup_tdb not reached when check_filesystem refuses");
	CHECK(P.chkfs == 0 || r == EXT2_ET_UNDO_FILE_WRONG, "a superblock mismatch is reported as EXT2_ET_UNDO_FILE_WRONG");
	CHECK(r == 0 || DATA.tdb_written == 0, "a refused undo file leaves the manager unconfigured");
	CHECK(r != 0 || (P.hdr_reads == 0 && P.chkfs == 0), "success without a valid header only for an empty file");
	if (P.chkfs == 1) REACH("validated");
	if (r == EXT2_ET_UNDO_FILE_CORRUPT) REACH("corrupt");
	if (r == 0) REACH("empty");
	REACH("end");
}
#endif
