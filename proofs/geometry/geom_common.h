/*
 * Shared by the geometry units (C07 / C20): input struct, construction of an ext2_filsys with an
 * enumerated-but-symbolic geometry, and the mapping into the format-level spec (specs/spec_geom.h).
 * The including unit must already have included the real translation unit (ext2fs.h types).
 */
#ifndef GEOM_COMMON_H
#define GEOM_COMMON_H
#include "spec_geom.h"

/*
 * Legal geometries (lib/ext2fs/openfs.c:ext2fs_open2 rejects everything else unless
 * EXT2_FLAG_IGNORE_SB_ERRORS; kernel: ext4_fill_super):
 *   s_log_block_size 0..6; descriptor size 32 without INCOMPAT_64BIT, a power of two in
 *   64..1024 with it; s_blocks_per_group >= 8; s_first_data_block is 1 for 1 KiB blocks
 *   without bigalloc and 0 otherwise (kernel: "first data block is 0 with a 1k block and
 *   cluster size" is refused; mke2fs: initialize.c set_field(s_first_data_block,
 *   s_log_cluster_size ? 0 : 1) for 1 KiB blocks).
 */
static void geom_build(ext2_filsys *pfs, struct spec_geom *c,
		       unsigned int log_bs, unsigned int log_desc, unsigned int s_desc_size_if_32,
		       unsigned int bpg, unsigned int fdb, unsigned int cluster_bits,
		       unsigned int incompat_other, unsigned int compat, unsigned int ro_compat,
		       unsigned int bbg0, unsigned int bbg1, int meta_bg,
		       unsigned int first_meta_bg, unsigned int desc_blocks, unsigned int reserved_gdt)
{
	/* statically zero-initialised objects (no memset: keeps the enumerated constants visible to
	 * the symbolic executor so that block size / descriptor size divisions fold) */
	static struct struct_ext2_filsys geom_fs;
	static struct ext2_super_block geom_sb;
	struct struct_ext2_filsys *fs = &geom_fs;
	struct ext2_super_block *sb = &geom_sb;
	fs->super = sb;
	ASSUME(log_bs <= 6);
	ASSUME(log_desc >= 5 && log_desc <= 10);
	sb->s_log_block_size = log_bs;
	fs->blocksize = 1024u << log_bs;
	sb->s_feature_incompat = incompat_other & ~(EXT4_FEATURE_INCOMPAT_64BIT | EXT2_FEATURE_INCOMPAT_META_BG);
	if (log_desc == 5) {
		sb->s_desc_size = s_desc_size_if_32;	/* ignored by the format without 64BIT */
	} else {
		sb->s_feature_incompat |= EXT4_FEATURE_INCOMPAT_64BIT;
		sb->s_desc_size = 1u << log_desc;
	}
	if (meta_bg)
		sb->s_feature_incompat |= EXT2_FEATURE_INCOMPAT_META_BG;
	ASSUME(bpg >= 8);
	sb->s_blocks_per_group = bpg;
	sb->s_first_data_block = fdb;
	ASSUME(cluster_bits <= 16);
	fs->cluster_ratio_bits = cluster_bits;
	sb->s_log_cluster_size = log_bs + cluster_bits;
	sb->s_feature_compat = compat;
	sb->s_feature_ro_compat = ro_compat;
	sb->s_backup_bgs[0] = bbg0;
	sb->s_backup_bgs[1] = bbg1;
	sb->s_first_meta_bg = first_meta_bg;
	sb->s_reserved_gdt_blocks = reserved_gdt;
	fs->desc_blocks = desc_blocks;

	c->blocksize = 1024u << log_bs;
	c->ldpb = log_bs + 10 - log_desc;
	c->bpg = bpg;
	c->fdb = fdb;
	c->meta_bg = meta_bg != 0;
	c->first_meta_bg = first_meta_bg;
	c->desc_blocks = desc_blocks;
	c->reserved_gdt = reserved_gdt;
	c->compat = compat;
	c->ro_compat = ro_compat;
	c->bbg0 = bbg0;
	c->bbg1 = bbg1;
	*pfs = fs;
}

/* first_data_block as the format prescribes it */
/*
 * Enumeration of the (block size, descriptor size) configurations with constants, so that
 * EXT2_DESC_PER_BLOCK and the divisions by it are constant-folded per configuration:
 * GEOM_FOR_ALL_CONFIGS(RUN) expands RUN(log_bs, log_desc) for the 42 legal pairs.
 */
#define GEOM_CFG_ROW(RUN, lb) RUN(lb, 5) RUN(lb, 6) RUN(lb, 7) RUN(lb, 8) RUN(lb, 9) RUN(lb, 10)
#define GEOM_FOR_ALL_CONFIGS(RUN) GEOM_CFG_ROW(RUN, 0) GEOM_CFG_ROW(RUN, 1) GEOM_CFG_ROW(RUN, 2) GEOM_CFG_ROW(RUN, 3) \
	GEOM_CFG_ROW(RUN, 4) GEOM_CFG_ROW(RUN, 5) GEOM_CFG_ROW(RUN, 6)

#define GEOM_FDB_LEGAL(log_bs, cluster_bits, fdb) \
	((fdb) == (((log_bs) == 0 && (cluster_bits) == 0) ? 1u : 0u))
#endif
