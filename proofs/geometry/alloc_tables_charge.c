/* VERIF-UNIT
{
 "name": "allocate_group_table_charge",
 "props": ["C07"],
 "level": "U",
 "tier": "quick",
 "harness": "h_allocate_group_table_charge",
 "replace": ["flexbg_offset"],
 "loop_contracts": true,
 "unwind": 12,
 "unwind_reason": "the only loop of ext2fs_allocate_group_table (charging an inode table that straddles groups) carries an in-place loop contract (named anchor VERIF_INV_ALLOCATE_GROUP_TABLE_ITABLE, text below); the bound serves the DFCC library loops over its assigns targets, unwinding assertions on",
 "functions": ["lib/ext2fs/alloc_tables.c:ext2fs_allocate_group_table"],
 "assumes": ["NEEDS the hook in hooks-pending/geo.diff (named loop anchor VERIF_INV_ALLOCATE_GROUP_TABLE_ITABLE) and the empty default for that name in include/e2fsprogs_verif.h",
             "what is proved, per call (one group's tables) and for ONE arbitrary ghost group k with block interval [GF, GL]: with C = tables_charged_by_initialize(fs) (specs/spec_geom.h, the SAME predicate as unit initialize_group_accounting): if C, the call changes neither k's free count nor the superblock total and every bitmap block / the first block of the inode table it allocates lies in the group whose tables they are; if not C, k's free count drops by exactly the number of blocks allocated in this call that lie in [GF, GL] and the superblock total by the number of blocks allocated; holds on the error returns too. No contract is enforced (no frame condition).",
             "group partition is abstract: ext2fs_group_of_blk2 / ext2fs_group_first_block2 / ext2fs_group_last_block2 are stubs over the ghost group's interval, the allocated group's interval (disjoint from the ghost's unless it is the same group, at least 2 blocks long: ext2fs_initialize never leaves a last group shorter than its overhead + 50) and arbitrary answers for other groups such that the group of a block contains the block and does not intersect the ghost interval",
             "ext2fs_get_free_blocks2 is a stub with the search-window contract of the real loop: failure, or a block b with b + num - 1 below the block count and start <= b < finish when finish > start (any block when finish <= start: the real function wraps). NOTE the real function does not bound b + num - 1 by finish, so an inode table may END outside its group in a non-flex_bg filesystem when the only free window starts near the group end (reachable only with a fragmented group, e.g. a bad-block list); the unit therefore claims containment only for the table's first block",
             "flexbg_offset replaced by an arbitrary-result contract (it only chooses where to search); bitmap marks and descriptor accessors are ghost stubs; no bigalloc (cluster ratio 1: with bigalloc mke2fs recomputes all counts in fix_cluster_bg_counts); fs->stride == 0 (the RAID stride start offset needs a symbolic 64-bit modulo)",
             "s_log_groups_per_flex <= 30 (ext2fs_open2 / mke2fs accept up to 31, but for 31 the code computes INT_MIN - 1 in a signed int: observation unit allocate_group_table_flex31); all four combinations of (FLEX_BG feature, s_log_groups_per_flex != 0) are allowed"],
 "native": false
}
*/
/* VERIF-UNIT
{
 "name": "allocate_group_table_itable_end",
 "props": ["C07"],
 "level": "U",
 "tier": "obs",
 "harness": "h_allocate_group_table_itable_end",
 "replace": ["flexbg_offset"],
 "loop_contracts": true,
 "unwind": 12,
 "unwind_reason": "as allocate_group_table_charge",
 "functions": ["lib/ext2fs/alloc_tables.c:ext2fs_allocate_group_table"],
 "assumes": ["as allocate_group_table_charge, plus the CHECK that without flex grouping the inode table ENDS inside its group (EXPECTED TO FAIL under the search-window contract of ext2fs_get_free_blocks2, see there)"],
 "native": false
}
*/
/* VERIF-UNIT
{
 "name": "allocate_group_table_flex31",
 "props": ["C07"],
 "level": "U",
 "tier": "obs",
 "harness": "h_allocate_group_table_flex31",
 "replace": ["flexbg_offset"],
 "loop_contracts": true,
 "unwind": 12,
 "unwind_reason": "as allocate_group_table_charge",
 "functions": ["lib/ext2fs/alloc_tables.c:ext2fs_allocate_group_table"],
 "assumes": ["as allocate_group_table_charge but s_log_groups_per_flex may be 31 (mke2fs -G 2147483648 is accepted: 'flex_bg size must be less than or equal to 2^31'). EXPECTED TO FAIL: 'int flexbg_size = 1U << 31' is INT_MIN and 'flexbg_size - 1' / 'table_offset + 1' overflow a signed int (undefined behaviour; wraps to the intended mask with the usual compilers)"],
 "native": false
}
*/
/*
 * AGREEMENT, side 2 of 2 (side 1: init_accounting.c).  Shared predicate: specs/spec_geom.h
 * SPEC_TABLES_CHARGED_BY_INITIALIZE(flex_bg feature, s_log_groups_per_flex).
 *
 * ghost state (G.*):
 *   gk, GF, GL      the ghost group and its block interval        og, OF, OL   the group being allocated and its interval
 *   free            bg_free_blocks_count of gk                     charged      sum of decrements applied to it in this call
 *   marked_k        blocks marked in this call that lie in [GF,GL] marked       blocks marked in this call
 *   sb_sub          amount subtracted from the superblock free count in this call
 *   outside         table blocks (bitmaps; first block of the inode table) allocated outside [OF, OL]
 *   it_end_outside  the inode table allocated in this call ends beyond OL
 */
#include "verif.h"
#include "spec_geom.h"

struct in_s {
	unsigned char flex_bg, log_flex;
	unsigned int group, gk, group_desc_count, ibpg;
	unsigned long long GF, GL, OF, OL, blocks_count;
	unsigned int free0;
	unsigned long long loc0[3];		/* table locations of the group on entry (0 = to be allocated) */
	unsigned long long other_loc[3];	/* table locations of group - 1 */
	unsigned long long b[8];		/* ext2fs_get_free_blocks2 answers */
	long gfb_ret[8];
	unsigned int grp[8];			/* group_of answers for blocks outside both intervals */
	unsigned long long first[8], last[8];	/* first/last block answers for other groups */
	unsigned int other_free[4];
	unsigned char mark_ret;
	unsigned long long k;
};
struct in_s IN;
#include "verif_in.h"

unsigned long long verif_k;

static struct {
	unsigned int gk, og;
	unsigned long long GF, GL, OF, OL;
	unsigned int free;
	unsigned long long charged, marked_k, marked, sb_sub;
	unsigned int outside, it_end_outside;
	unsigned long long q_blk;	/* block of the most recent group_of query that fell outside both intervals */
	unsigned int q_grp;		/* and the group answered */
	unsigned int gfb_calls;
	unsigned long long loc[3];
	unsigned int loc_set[3];
} G;

#define MINU(a, b) ((a) < (b) ? (a) : (b))
#define MAXU(a, b) ((a) > (b) ? (a) : (b))
/* number of blocks of [a, b) that lie in the ghost group's interval [GF, GL] */
#define INTER(a, b) (MINU((b), G.GL + 1) > MAXU((a), G.GF) ? MINU((b), G.GL + 1) - MAXU((a), G.GF) : 0ULL)

/* text of the named loop anchor: the loop that charges a freshly marked inode table group by group */
#define VERIF_INV_ALLOCATE_GROUP_TABLE_ITABLE \
	__CPROVER_assigns(num, blk, last_blk, G.free, G.charged, G.sb_sub, G.q_blk, G.q_grp) \
	__CPROVER_loop_invariant(num <= fs->inode_blocks_per_group && blk + num == new_blk + fs->inode_blocks_per_group) \
	__CPROVER_loop_invariant(G.charged + INTER(blk, new_blk + fs->inode_blocks_per_group) == G.marked_k) \
	__CPROVER_loop_invariant(G.sb_sub + num == G.marked) \
	__CPROVER_loop_invariant(G.free == (unsigned int)(IN.free0 - G.charged)) \
	__CPROVER_decreases(num)

#include "lib/ext2fs/alloc_tables.c"

#define FLEX_BG_BIT 0x0200u	/* EXT4_FEATURE_INCOMPAT_FLEX_BG */
#define CHARGED_BY_INIT(fs) SPEC_TABLES_CHARGED_BY_INITIALIZE(((fs)->super->s_feature_incompat & FLEX_BG_BIT) != 0, \
							      (fs)->super->s_log_groups_per_flex)

/* ---- group partition (blknum.c) */
dgrp_t ext2fs_group_of_blk2(ext2_filsys fs, blk64_t blk)
{
	if (blk >= G.GF && blk <= G.GL)
		return G.gk;
	if (blk >= G.OF && blk <= G.OL)
		return G.og;
	unsigned int g = IN.grp[blk & 7];
	if (g == G.gk || g == G.og)
		g = (G.gk != 0 && G.og != 0) ? 0 : (G.gk != 1 && G.og != 1) ? 1 : 2;	/* some group that is neither */
	G.q_blk = blk;
	G.q_grp = g;
	return g;
}
blk64_t ext2fs_group_first_block2(ext2_filsys fs, dgrp_t group)
{
	if (group == G.gk) return G.GF;
	if (group == G.og) return G.OF;
	return IN.first[group & 7];
}
blk64_t ext2fs_group_last_block2(ext2_filsys fs, dgrp_t group)
{
	if (group == G.gk) return G.GL;
	if (group == G.og) return G.OL;
	unsigned long long l = IN.last[group & 7];
	if (group == G.q_grp) {
		/* the group answered for q_blk contains q_blk and does not reach into the ghost interval */
		if (l < G.q_blk) l = G.q_blk;
		if (G.q_blk < G.GF && l >= G.GF) l = G.GF - 1;
	}
	return l;
}
blk64_t ext2fs_blocks_count(struct ext2_super_block *super) { return IN.blocks_count; }

/* ---- allocator (alloc.c): search-window contract of the real loop */
errcode_t ext2fs_get_free_blocks2(ext2_filsys fs, blk64_t start, blk64_t finish, int num,
				  ext2fs_block_bitmap map, blk64_t *ret)
{
	unsigned int c = (G.gfb_calls++) & 7;
	unsigned long long b = IN.b[c], n = num ? (unsigned long long)num : 1;
	unsigned long long s = start ? start : fs->super->s_first_data_block, f = finish ? finish : start;

	if (IN.gfb_ret[c])
		return IN.gfb_ret[c];
	if (num < 0 || b >= IN.blocks_count || n > IN.blocks_count - b)
		return EXT2_ET_BLOCK_ALLOC_FAIL;
	if (f > start && (b < s || b >= f))
		return EXT2_ET_BLOCK_ALLOC_FAIL;
	*ret = b;
	return 0;
}

/* ---- bitmap (gen_bitmap64.c) */
static int BMAP_OBJ;
int ext2fs_mark_generic_bmap(ext2fs_generic_bitmap bmap, __u64 arg)
{
	G.marked++;
	if (arg >= G.GF && arg <= G.GL)
		G.marked_k++;
	if (arg < G.OF || arg > G.OL)
		G.outside++;
	return IN.mark_ret & 1;
}
void ext2fs_mark_block_bitmap_range2(ext2fs_block_bitmap bmap, blk64_t block, unsigned int num)
{
	G.marked += num;
	G.marked_k += INTER(block, block + num);
	if (num && (block < G.OF || block > G.OL))
		G.outside++;
	if (num && block + num - 1 > G.OL)
		G.it_end_outside++;
}

/* ---- descriptors and superblock count (blknum.c, csum.c) */
blk64_t ext2fs_block_bitmap_loc(ext2_filsys fs, dgrp_t group) { return group == G.og ? G.loc[0] : IN.other_loc[0]; }
blk64_t ext2fs_inode_bitmap_loc(ext2_filsys fs, dgrp_t group) { return group == G.og ? G.loc[1] : IN.other_loc[1]; }
blk64_t ext2fs_inode_table_loc(ext2_filsys fs, dgrp_t group) { return group == G.og ? G.loc[2] : IN.other_loc[2]; }
void ext2fs_block_bitmap_loc_set(ext2_filsys fs, dgrp_t group, blk64_t blk) { if (group == G.og) { G.loc[0] = blk; G.loc_set[0]++; } }
void ext2fs_inode_bitmap_loc_set(ext2_filsys fs, dgrp_t group, blk64_t blk) { if (group == G.og) { G.loc[1] = blk; G.loc_set[1]++; } }
void ext2fs_inode_table_loc_set(ext2_filsys fs, dgrp_t group, blk64_t blk) { if (group == G.og) { G.loc[2] = blk; G.loc_set[2]++; } }
__u32 ext2fs_bg_free_blocks_count(ext2_filsys fs, dgrp_t group) { return group == G.gk ? G.free : IN.other_free[group & 3]; }
void ext2fs_bg_free_blocks_count_set(ext2_filsys fs, dgrp_t group, __u32 n)
{
	if (group == G.gk) {
		G.charged += (unsigned int)(G.free - n);
		G.free = n;
	}
}
void ext2fs_free_blocks_count_add(struct ext2_super_block *super, __s64 blk) { G.sb_sub += (unsigned long long)(-blk); }
void ext2fs_bg_flags_clear(ext2_filsys fs, dgrp_t group, __u16 bg_flags) { }
void ext2fs_group_desc_csum_set(ext2_filsys fs, dgrp_t group) { }

static blk64_t flexbg_offset(ext2_filsys fs, dgrp_t group, blk64_t start_blk, ext2fs_block_bitmap bmap,
			     int rem_grp, int elem_size)
	REQUIRES(1)
	ENSURES(1)
	ASSIGNS();

static void run(int check_itable_end, unsigned int max_log_flex)
{
	static struct struct_ext2_filsys FS;
	static struct ext2_super_block SB;
	ext2_filsys fs = &FS;

	LOAD_IN();
	memset(&FS, 0, sizeof(FS));
	memset(&SB, 0, sizeof(SB));
	FS.magic = EXT2_ET_MAGIC_EXT2FS_FILSYS;
	FS.super = &SB;
	FS.group_desc_count = IN.group_desc_count;
	FS.inode_blocks_per_group = IN.ibpg;
	FS.stride = 0;
	FS.cluster_ratio_bits = 0;
	SB.s_feature_incompat = EXT2_FEATURE_INCOMPAT_FILETYPE | (IN.flex_bg ? EXT4_FEATURE_INCOMPAT_FLEX_BG : 0);
	SB.s_log_groups_per_flex = IN.log_flex;
	SB.s_first_data_block = 0;
	ASSUME(IN.log_flex <= max_log_flex);
	ASSUME(IN.group < IN.group_desc_count && IN.gk < IN.group_desc_count);
	/* block intervals: inside the filesystem, the allocated group has at least two blocks, distinct groups are disjoint */
	ASSUME(IN.GF <= IN.GL && IN.GL < IN.blocks_count && IN.OF < IN.OL && IN.OL < IN.blocks_count);
	ASSUME(IN.blocks_count < (1ULL << 48));
	if (IN.group == IN.gk)
		ASSUME(IN.GF == IN.OF && IN.GL == IN.OL);
	else
		ASSUME(IN.GL < IN.OF || IN.OL < IN.GF);

	memset(&G, 0, sizeof(G));
	G.gk = IN.gk; G.og = IN.group;
	G.GF = IN.GF; G.GL = IN.GL; G.OF = IN.OF; G.OL = IN.OL;
	G.free = IN.free0;
	G.loc[0] = IN.loc0[0]; G.loc[1] = IN.loc0[1]; G.loc[2] = IN.loc0[2];
	verif_k = IN.gk;

	errcode_t r = ext2fs_allocate_group_table(fs, IN.group, (ext2fs_block_bitmap)&BMAP_OBJ);

	int C = spec_tables_charged_by_initialize(IN.flex_bg != 0, IN.log_flex);
	CHECK(C == CHARGED_BY_INIT(fs), "the predicate is evaluated on the filesystem's feature bit and flex size");
	if (C) {
		CHECK(G.charged == 0 && G.free == IN.free0, "tables charged by initialize: allocation does not touch the group free count");
		CHECK(G.sb_sub == 0, "tables charged by initialize: allocation does not touch the superblock free count");
		CHECK(G.outside == 0, "tables charged by initialize to their own group lie in that group (bitmap blocks, first inode table block)");
		if (check_itable_end)
			CHECK(G.it_end_outside == 0, "tables charged by initialize: the inode table ends inside its group");
		if (G.marked) REACH("charged_by_initialize_allocated");
		if (G.marked && IN.flex_bg) REACH("flex_bg_with_flex_size_1");
	} else {
		CHECK(G.charged == G.marked_k, "tables not charged by initialize: the group's free count drops by exactly the table blocks placed in it");
		CHECK(G.free == (unsigned int)(IN.free0 - G.marked_k), "free count value");
		CHECK(G.sb_sub == G.marked, "tables not charged by initialize: the superblock free count drops by the table blocks placed");
		if (G.marked_k > 1 && G.marked_k < G.marked) REACH("flex_straddle");
	}
	if (r == 0) {
		CHECK(G.loc[0] != 0 || G.loc_set[0], "block bitmap has a location");
		CHECK(G.marked == (IN.loc0[0] ? 0u : 1u) + (IN.loc0[1] ? 0u : 1u) + (IN.loc0[2] ? 0u : IN.ibpg), "exactly the missing tables are allocated");
		REACH("ok");
	} else
		REACH("error_return");
	REACH("end");
}

void h_allocate_group_table_charge(void) { run(0, 30); }
void h_allocate_group_table_itable_end(void) { run(1, 30); }
void h_allocate_group_table_flex31(void) { run(0, 31); }
