/* VERIF-UNIT
{
 "name": "resize_fs_protocol",
 "props": ["C08"],
 "level": "P",
 "tier": "quick",
 "harness": "h_resize_fs",
 "replace": ["fix_uninit_block_bitmaps", "resize_group_descriptors", "move_bg_metadata", "zero_high_bits_in_inodes",
             "adjust_superblock", "blocks_to_move", "block_mover", "inode_scan_and_fix", "inode_ref_fix", "move_itables",
             "clear_sparse_super2_last_group", "resize2fs_calculate_summary_stats", "fix_resize_inode",
             "fix_orphan_file_inode", "fix_sb_journal_backup"],
 "includes": ["resize"],
 "unwind": 8,
 "cbmc_flags": ["--object-bits", "12"],
 "unwind_reason": "resize_fs has no loop; the bound only serves the DFCC library loops over assigns-clause targets (unwinding assertions on)",
 "functions": ["resize/resize2fs.c:resize_fs"],
 "assumes": ["ordering protocol only: the fifteen static callees are replaced by ghost-monitor contracts (arbitrary result, frame = the monitor counter only, i.e. they are ASSUMED not to touch s_state), the libext2fs callees are stubs that move the monitor",
             "the first ext2fs_flush (whose return value resize_fs ignores) succeeds; unit resize_fs_flush_error drops this",
             "on-disk flag model: a successful ext2fs_flush / ext2fs_close_free writes the handle's in-memory s_state to the primary superblock; a failing ext2fs_close_free leaves it undetermined; nothing else writes the primary superblock",
             "the filesystem is clean on entry (flag not on disk)"],
 "native": false
}
*/
/* VERIF-UNIT
{
 "name": "resize_fs_flush_error",
 "props": ["C08"],
 "level": "P",
 "tier": "obs",
 "harness": "h_resize_fs_flush_error",
 "replace": ["fix_uninit_block_bitmaps", "resize_group_descriptors", "move_bg_metadata", "zero_high_bits_in_inodes",
             "adjust_superblock", "blocks_to_move", "block_mover", "inode_scan_and_fix", "inode_ref_fix", "move_itables",
             "clear_sparse_super2_last_group", "resize2fs_calculate_summary_stats", "fix_resize_inode",
             "fix_orphan_file_inode", "fix_sb_journal_backup"],
 "includes": ["resize"],
 "unwind": 8,
 "cbmc_flags": ["--object-bits", "12"],
 "unwind_reason": "as resize_fs_protocol",
 "functions": ["resize/resize2fs.c:resize_fs"],
 "assumes": ["as resize_fs_protocol, but the first ext2fs_flush may fail (EXPECTED TO FAIL: documents that the ignored return value lets the run continue without the flag on disk; needs an I/O error)"],
 "native": false
}
*/
/*
 * C08, last clause: "at every intermediate point of a run, from the first modification until the final
 * rewrite of the primary superblock, the on-disk primary superblock carries the 'has errors' flag".
 *
 * Ghost monitor:
 *   g_disk_flag   1 iff the on-disk primary superblock carries EXT2_ERROR_FS
 *   g_nmod        number of calls so far to callees that can modify the filesystem
 *                 (fix_uninit_block_bitmaps(fs) onwards)
 * Obligations (all on the real resize_fs):
 *   - every modifying callee is entered with g_disk_flag == 1 and with EXT2_ERROR_FS set in the in-memory
 *     superblock(s) it is given (callee preconditions): the flag was set and flushed BEFORE the first
 *     modification, and resize_fs itself clears it nowhere in between;
 *   - ext2fs_close_free(new_fs) is entered with the flag cleared and MASTER_SB_ONLY cleared, and it is the
 *     only place that sees it cleared (ext2fs_set_gdt_csum, the last callee before it, still sees it set);
 *   - resize_fs returning 0: exactly one close, disk flag cleared by that final rewrite;
 *   - resize_fs failing after the first modification: the caller's handle still has the flag set in memory
 *     (whatever it flushes later carries it) and, unless the failure was in ext2fs_close_free itself, the
 *     disk still carries it.
 */
#include "verif.h"

struct in_s {
	long ret_read_bitmaps, ret_flush, ret_dup, ret_set_gdt_csum, ret_close;
	unsigned short s_state;
	int fs_flags, flags;
	unsigned long long new_size, blocks_count;
	unsigned int new_group_desc_count;
	unsigned char close_fail_disk_flag;
};
struct in_s IN;
#include "verif_in.h"

#include "resize/resize2fs.c"	/* resize2fs.h has no include guard: contracts follow as re-declarations */

/* one object, so that assigns clauses stay short (DFCC write-set loops) */
static struct { int disk_flag; unsigned int nmod, flush_calls, flush_saw_flag, close_calls, close_saw_flag, close_saw_master, old_freed; } G;
#define g_disk_flag G.disk_flag
#define g_nmod G.nmod
#define g_flush_calls G.flush_calls
#define g_flush_saw_flag G.flush_saw_flag
#define g_close_calls G.close_calls
#define g_close_saw_flag G.close_saw_flag
#define g_close_saw_master G.close_saw_master
#define g_old_freed G.old_freed

#define HASERR(fs) (((fs)->super->s_state & EXT2_ERROR_FS) != 0)
#define MOD_FS(fs)	REQUIRES(g_disk_flag == 1 && HASERR(fs)) ENSURES(g_nmod == OLD(g_nmod) + 1) ASSIGNS(g_nmod)
#define MOD_RFS(rfs)	REQUIRES(g_disk_flag == 1 && HASERR((rfs)->old_fs) && (rfs)->new_fs != 0 && HASERR((rfs)->new_fs)) \
			ENSURES(g_nmod == OLD(g_nmod) + 1) ASSIGNS(g_nmod)

static void fix_uninit_block_bitmaps(ext2_filsys fs) MOD_FS(fs);
static errcode_t resize_group_descriptors(ext2_resize_t rfs, blk64_t new_size) MOD_RFS(rfs);
static errcode_t move_bg_metadata(ext2_resize_t rfs) MOD_RFS(rfs);
static errcode_t zero_high_bits_in_inodes(ext2_resize_t rfs) MOD_RFS(rfs);
static errcode_t adjust_superblock(ext2_resize_t rfs, blk64_t new_size) MOD_RFS(rfs);
static errcode_t blocks_to_move(ext2_resize_t rfs) MOD_RFS(rfs);
static errcode_t block_mover(ext2_resize_t rfs) MOD_RFS(rfs);
static errcode_t inode_scan_and_fix(ext2_resize_t rfs) MOD_RFS(rfs);
static errcode_t inode_ref_fix(ext2_resize_t rfs) MOD_RFS(rfs);
static errcode_t move_itables(ext2_resize_t rfs) MOD_RFS(rfs);
static errcode_t clear_sparse_super2_last_group(ext2_resize_t rfs) MOD_RFS(rfs);
static errcode_t resize2fs_calculate_summary_stats(ext2_filsys fs) MOD_FS(fs);
static errcode_t fix_resize_inode(ext2_filsys fs) MOD_FS(fs);
static errcode_t fix_orphan_file_inode(ext2_filsys fs) MOD_FS(fs);
static errcode_t fix_sb_journal_backup(ext2_filsys fs) MOD_FS(fs);

errcode_t resize_fs(ext2_filsys fs, blk64_t *new_size, int flags,
		    errcode_t (*progress)(ext2_resize_t rfs, int pass, unsigned long cur, unsigned long max_val))
	REQUIRES(g_disk_flag == 0 && g_nmod == 0 && g_flush_calls == 0 && g_close_calls == 0)
	/* the flag went to disk (flush called with it set) before the first modification */
	ENSURES(g_nmod == 0 || (g_flush_calls >= 1 && g_flush_saw_flag == g_flush_calls))
	/* success: one final rewrite, which sees the flag (and MASTER_SB_ONLY) cleared and clears it on disk */
	ENSURES(RET != 0 || (g_nmod > 0 && g_close_calls == 1 && g_close_saw_flag == 0 && g_close_saw_master == 0 && g_disk_flag == 0 && g_old_freed == 1))
	/* failure after the first modification: caller's handle keeps the flag; disk keeps it unless the close itself failed */
	ENSURES(RET == 0 || g_nmod == 0 || (g_old_freed == 0 && HASERR(fs)))
	ENSURES(RET == 0 || g_nmod == 0 || g_close_calls != 0 || g_disk_flag == 1)
	/* failure before the flag was set: nothing was modified */
	ENSURES(RET == 0 || g_flush_calls != 0 || g_nmod == 0)
	ASSIGNS(__CPROVER_object_whole(fs), __CPROVER_object_whole(fs->super), *new_size,
		G);

/* ---- libext2fs / resize helpers: stubs that move the monitor ---- */
void init_resource_track(struct resource_track *track, const char *desc, io_channel channel) { }
void print_resource_track(ext2_resize_t rfs, struct resource_track *track, io_channel channel) { }
errcode_t ext2fs_read_bitmaps(ext2_filsys fs) { return IN.ret_read_bitmaps; }
blk64_t ext2fs_blocks_count(struct ext2_super_block *super) { return IN.blocks_count; }
blk64_t ext2fs_free_blocks_count(struct ext2_super_block *super) { return IN.blocks_count; }	/* debug printout only */

errcode_t ext2fs_flush(ext2_filsys fs)
{
	g_flush_calls++;
	if (HASERR(fs))
		g_flush_saw_flag++;
	if (IN.ret_flush)
		return IN.ret_flush;	/* nothing reliable reached the disk */
	g_disk_flag = HASERR(fs);
	return 0;
}

errcode_t ext2fs_dup_handle(ext2_filsys src, ext2_filsys *dest)
{
	if (IN.ret_dup)
		return IN.ret_dup;
	struct struct_ext2_filsys *n = malloc(sizeof(*n));
	struct ext2_super_block *s = malloc(sizeof(*s));
	ASSUME(n && s);
	*n = *src;
	*s = *src->super;
	n->super = s;
	n->group_desc_count = IN.new_group_desc_count;
	*dest = n;
	return 0;
}

void ext2fs_bg_flags_clear(ext2_filsys fs, dgrp_t group, __u16 bg_flags)
{
	CHECK(g_disk_flag == 1 && HASERR(fs), "ext2fs_bg_flags_clear(new_fs) runs with the flag on disk and in memory");
	g_nmod++;
}

errcode_t ext2fs_set_gdt_csum(ext2_filsys fs)
{
	CHECK(g_disk_flag == 1 && HASERR(fs), "ext2fs_set_gdt_csum, the last step before the final close, still sees the flag");
	g_nmod++;
	return IN.ret_set_gdt_csum;
}

errcode_t ext2fs_close_free(ext2_filsys *fs_ptr)
{
	ext2_filsys fs = *fs_ptr;
	g_close_calls++;
	if (HASERR(fs))
		g_close_saw_flag++;
	if (fs->flags & EXT2_FLAG_MASTER_SB_ONLY)
		g_close_saw_master++;
	CHECK(g_disk_flag == 1, "until the final rewrite the disk carries the flag");
	if (IN.ret_close == 0)
		g_disk_flag = HASERR(fs);		/* the final rewrite of the primary superblock */
	else
		g_disk_flag = IN.close_fail_disk_flag & 1;	/* undetermined */
	*fs_ptr = 0;
	return IN.ret_close;
}

void ext2fs_free(ext2_filsys fs)
{
	if (fs && fs->priv_data != 0 && ((ext2_resize_t)fs->priv_data)->old_fs == fs)
		g_old_freed++;
}
void ext2fs_free_block_bitmap(ext2fs_block_bitmap bitmap) { }

static void run(int flush_may_fail)
{
	static struct struct_ext2_filsys FS;
	static struct ext2_super_block SB;
	blk64_t new_size;
	LOAD_IN();
	if (!flush_may_fail)
		ASSUME(IN.ret_flush == 0);
	FS.super = &SB;
	FS.flags = IN.fs_flags;
	SB.s_state = IN.s_state & ~EXT2_ERROR_FS;	/* main() refuses filesystems with errors */
	new_size = IN.new_size;
	g_disk_flag = 0;
	g_nmod = g_flush_calls = g_flush_saw_flag = g_close_calls = g_close_saw_flag = g_close_saw_master = g_old_freed = 0;

	errcode_t r = resize_fs(&FS, &new_size, IN.flags, 0);

	CHECK(g_nmod == 0 || (g_flush_calls >= 1 && g_flush_saw_flag == g_flush_calls), "flag flushed before the first modification");
	if (r == 0) {
		CHECK(g_close_calls == 1 && g_close_saw_flag == 0 && g_close_saw_master == 0 && g_disk_flag == 0,
		      "success: flag cleared only in the final rewrite (MASTER_SB_ONLY off)");
		REACH("success");
	} else if (g_nmod > 0) {
		CHECK(HASERR(&FS), "failure: the caller's handle still carries the flag");
		CHECK(g_close_calls != 0 || g_disk_flag == 1, "failure before the final close: the disk still carries the flag");
		if (g_close_calls) REACH("close_failed"); else REACH("errout_after_mod");
	} else
		REACH("errout_before_mod");
	REACH("end");
}

void h_resize_fs(void) { run(0); }
void h_resize_fs_flush_error(void) { run(1); }
