/* VERIF-UNIT
{
 "name": "initialize_group_accounting",
 "props": ["C07"],
 "level": "U/iter",
 "tier": "quick",
 "harness": "h_initialize_group_accounting",
 "loop_contracts": true,
 "unwind": 14,
 "unwindset": {"ext2fs_initialize.0": 2, "ext2fs_initialize.1": 2, "strcpy.0": 20, "strcat.0": 22, "strcat.1": 4, "strlen.0": 4},
 "unwind_reason": "the per-group loop carries an in-place loop contract (named anchor VERIF_INV_INITIALIZE_GROUPS, text below); the prefix of ext2fs_initialize runs for ONE concrete geometry in which the backward gotos retry / ipg_retry are not taken (unwindset 2 each, unwinding assertions on); strlen/strcpy/strcat run on a concrete one-character device name and the two fixed 17-character bitmap labels (bounds 20/22); 14 covers the DFCC library loop over the 11 assigns targets of the loop contract",
 "functions": ["lib/ext2fs/initialize.c:ext2fs_initialize"],
 "assumes": ["NEEDS the hook in hooks-pending/geo.diff (named loop anchor VERIF_INV_INITIALIZE_GROUPS on the accounting loop of ext2fs_initialize) and the empty default for that name in include/e2fsprogs_verif.h",
             "what is proved: the base case, the inductive step and the exit of the accounting loop for ONE arbitrary ghost group verif_k, hence at return of ext2fs_initialize: bg_free_blocks_count(k) was set exactly once, to  blocks_in_group(k) - used(k) - (tables_charged_by_initialize ? 2 + inode_blocks_per_group : 0)  (32-bit arithmetic), with used(k) the count reported by ext2fs_reserve_super_and_bgd2 and blocks_in_group(k) by ext2fs_group_blocks_count",
             "the loop step is proved for ARBITRARY values of everything the loop body reads: the loop contract havocs (lists as assignable) also fs->group_desc_count, fs->inode_blocks_per_group, s_inodes_per_group and csum_flag, which the loop does not write; the FLEX_BG feature bit, s_log_groups_per_flex (0..255) and the two checksum feature bits are symbolic inputs",
             "the code BEFORE the loop is only executed for one concrete parameter block (1 KiB blocks, 24577 blocks = 3 full groups, 128-byte inodes, sparse_super + filetype): nothing is claimed about the geometry computation of ext2fs_initialize (retry loop, inode counts, overhead checks)",
             "precondition (misc/mke2fs.c PRS: s_log_groups_per_flex is only set when the flex_bg feature is on): s_log_groups_per_flex != 0 implies FLEX_BG. Unit initialize_group_accounting_lib drops it (observation)",
             "callees in other files are stubs: ext2fs_reserve_super_and_bgd2 / ext2fs_group_blocks_count return an arbitrary function of the group; group-descriptor setters record the ghost group's values; superblock block counts are a ghost variable; bitmap allocation, io manager open, getenv, ext2fs_bg_has_super return harness-chosen values",
             "the superblock total s_free_blocks_count (a sum over all groups) is not a pointwise statement and is not covered; no contract is enforced on ext2fs_initialize (no frame condition)"],
 "native": false
}
*/
/* VERIF-UNIT
{
 "name": "initialize_group_accounting_lib",
 "props": ["C07"],
 "level": "U/iter",
 "tier": "obs",
 "harness": "h_initialize_group_accounting_lib",
 "loop_contracts": true,
 "unwind": 14,
 "unwindset": {"ext2fs_initialize.0": 2, "ext2fs_initialize.1": 2, "strcpy.0": 20, "strcat.0": 22, "strcat.1": 4, "strlen.0": 4},
 "unwind_reason": "as initialize_group_accounting",
 "functions": ["lib/ext2fs/initialize.c:ext2fs_initialize"],
 "assumes": ["as initialize_group_accounting WITHOUT the mke2fs precondition (EXPECTED TO FAIL: a library caller passing s_log_groups_per_flex != 0 without the FLEX_BG feature gets tables that neither ext2fs_initialize nor ext2fs_allocate_group_table charges; mke2fs never does that, so this is an observation about the library interface, not a C07 violation)"],
 "native": false
}
*/
/*
 * AGREEMENT, side 1 of 2 (side 2: alloc_tables_charge.c).  Shared predicate: specs/spec_geom.h
 * SPEC_TABLES_CHARGED_BY_INITIALIZE(flex_bg feature, s_log_groups_per_flex).
 *
 * ghost (ONE arbitrary group verif_k):
 *   verif_g0  number of ext2fs_bg_free_blocks_count_set calls for group k      verif_g1  the value set
 *   N(k) = IN.N[k & 3], U(k) = IN.U[k & 3]: what the group_blocks_count / reserve stubs answer for k
 */
#include "verif.h"
#include "spec_geom.h"

struct in_s {
	unsigned char flex_bg, gdt_csum, metadata_csum, log_flex;
	unsigned int N[4], U[4];
	long reserve_ret[4];
	unsigned char has_super;
	unsigned long long k;
};
struct in_s IN;
#include "verif_in.h"

unsigned long long verif_k;
unsigned long long verif_g0, verif_g1;

#define FLEX_BG_BIT 0x0200u	/* EXT4_FEATURE_INCOMPAT_FLEX_BG (ext4 on-disk format) */
#define ACC_CHARGED(fs) SPEC_TABLES_CHARGED_BY_INITIALIZE(((fs)->super->s_feature_incompat & FLEX_BG_BIT) != 0, \
							  (fs)->super->s_log_groups_per_flex)
#define ACC_EXPECT(fs) ((unsigned int)(IN.N[verif_k & 3] - IN.U[verif_k & 3] - \
				       (ACC_CHARGED(fs) ? 2u + (fs)->inode_blocks_per_group : 0u)))

/* the text of the named loop anchor in lib/ext2fs/initialize.c (accounting loop of ext2fs_initialize) */
#define VERIF_INV_INITIALIZE_GROUPS \
	__CPROVER_assigns(i, retval, numblocks, free_blocks, reserved_inos, verif_g0, verif_g1, \
			  /* not written by the loop; listed so that the step is proved for arbitrary values */ \
			  csum_flag, fs->group_desc_count, fs->inode_blocks_per_group, super->s_inodes_per_group) \
	__CPROVER_loop_invariant(i <= fs->group_desc_count) \
	__CPROVER_loop_invariant(super == fs->super) \
	__CPROVER_loop_invariant(i > verif_k || verif_g0 == 0) \
	__CPROVER_loop_invariant(i <= verif_k || (verif_g0 == 1 && verif_g1 == ACC_EXPECT(fs))) \
	__CPROVER_decreases(fs->group_desc_count - i)

#include "lib/ext2fs/initialize.c"

/* ---- stubs: callees of the accounting loop */
errcode_t ext2fs_reserve_super_and_bgd2(ext2_filsys fs, dgrp_t group, ext2fs_block_bitmap bmap, blk_t *desc_blocks)
{
	if (IN.reserve_ret[group & 3])
		return IN.reserve_ret[group & 3];
	*desc_blocks = IN.U[group & 3];
	return 0;
}
int ext2fs_group_blocks_count(ext2_filsys fs, dgrp_t group) { return (int)IN.N[group & 3]; }
void ext2fs_bg_free_blocks_count_set(ext2_filsys fs, dgrp_t group, __u32 n)
{
	if (group == verif_k) {
		verif_g0++;
		verif_g1 = n;
	}
}
void ext2fs_bg_flags_set(ext2_filsys fs, dgrp_t group, __u16 bg_flags) { }
void ext2fs_bg_itable_unused_set(ext2_filsys fs, dgrp_t group, __u32 n) { }
void ext2fs_bg_free_inodes_count_set(ext2_filsys fs, dgrp_t group, __u32 n) { }
void ext2fs_bg_used_dirs_count_set(ext2_filsys fs, dgrp_t group, __u32 n) { }
void ext2fs_group_desc_csum_set(ext2_filsys fs, dgrp_t group) { }

/* ---- stubs: callees of the prefix / suffix */
static struct ext2_super_block PARAM;
static unsigned long long g_blocks, g_rblocks, g_free;	/* block counts of the new superblock (ghost) */
blk64_t ext2fs_blocks_count(struct ext2_super_block *super) { return super == &PARAM ? 24577ULL : g_blocks; }
void ext2fs_blocks_count_set(struct ext2_super_block *super, blk64_t blk) { g_blocks = blk; }
blk64_t ext2fs_r_blocks_count(struct ext2_super_block *super) { return super == &PARAM ? 0 : g_rblocks; }
void ext2fs_r_blocks_count_set(struct ext2_super_block *super, blk64_t blk) { g_rblocks = blk; }
void ext2fs_free_blocks_count_set(struct ext2_super_block *super, blk64_t blk) { g_free = blk; }
char *ext2fs_safe_getenv(const char *arg) { return 0; }
int ext2fs_bg_has_super(ext2_filsys fs, dgrp_t group) { return IN.has_super & 1; }
static int BMAP_OBJ, IMAP_OBJ;
errcode_t ext2fs_allocate_subcluster_bitmap(ext2_filsys fs, const char *descr, ext2fs_block_bitmap *ret)
{ *ret = (ext2fs_block_bitmap)&BMAP_OBJ; return 0; }
errcode_t ext2fs_allocate_inode_bitmap(ext2_filsys fs, const char *descr, ext2fs_inode_bitmap *ret)
{ *ret = (ext2fs_inode_bitmap)&IMAP_OBJ; return 0; }
static errcode_t stub_set_blksize(io_channel channel, int blksize) { return 0; }
static unsigned int g_freed;
void ext2fs_free(ext2_filsys fs) { g_freed++; }
const struct ext2fs_nls_table *ext2fs_load_nls_table(int encoding) { return 0; }

static struct struct_io_channel CH;
static struct struct_io_manager MGR;
static errcode_t stub_open(const char *name, int flags, io_channel *channel) { CH.manager = &MGR; *channel = &CH; return 0; }

static void run(int lib_precondition_only)
{
	ext2_filsys fs = 0;

	LOAD_IN();
	memset(&PARAM, 0, sizeof(PARAM));	/* DFCC havocs statics */
	MGR.open = stub_open;
	MGR.set_blksize = stub_set_blksize;
	PARAM.s_log_block_size = 0;
	PARAM.s_rev_level = EXT2_DYNAMIC_REV;
	PARAM.s_feature_incompat = EXT2_FEATURE_INCOMPAT_FILETYPE | (IN.flex_bg ? EXT4_FEATURE_INCOMPAT_FLEX_BG : 0);
	PARAM.s_feature_ro_compat = EXT2_FEATURE_RO_COMPAT_SPARSE_SUPER | (IN.gdt_csum ? EXT4_FEATURE_RO_COMPAT_GDT_CSUM : 0) |
				    (IN.metadata_csum ? EXT4_FEATURE_RO_COMPAT_METADATA_CSUM : 0);
	PARAM.s_log_groups_per_flex = IN.log_flex;
	if (!lib_precondition_only)
		ASSUME(IN.log_flex == 0 || IN.flex_bg);	/* misc/mke2fs.c PRS() */
	verif_k = IN.k;
	verif_g0 = 0;

	errcode_t r = ext2fs_initialize("d", 0, &PARAM, &MGR, &fs);

	if (r == 0) {
		CHECK(fs != 0 && fs->super != 0, "returns the new filesystem");
		CHECK(((fs->super->s_feature_incompat & FLEX_BG_BIT) != 0) == (IN.flex_bg != 0) &&
		      fs->super->s_log_groups_per_flex == IN.log_flex, "feature bit and flex size are the caller's");
		if (verif_k < fs->group_desc_count) {
			CHECK(verif_g0 == 1, "the group's free count is set exactly once");
			CHECK(verif_g1 == ACC_EXPECT(fs), "free count = blocks in group - superblock/descriptor overhead - (2 + inode table blocks iff the tables are charged by initialize)");
			if (ACC_CHARGED(fs)) REACH("charged_by_initialize");
			if (ACC_CHARGED(fs) && IN.flex_bg) REACH("flex_bg_with_flex_size_1");
			if (!ACC_CHARGED(fs)) REACH("left_to_allocate_group_table");
		}
		REACH("ok");
	} else
		REACH("failed");
	REACH("end");
}

void h_initialize_group_accounting(void) { run(0); }
void h_initialize_group_accounting_lib(void) { run(1); }
