/*
 * Oracle for lib/ext2fs/blknum.c:ext2fs_group_first_block2, used by units that cannot afford the
 * symbolic 32x32->64 bit product  s_first_data_block + group * s_blocks_per_group  (no SAT/SMT
 * back end finishes once the product is compared with a second instance of itself).
 *
 * The oracle is an uninterpreted function given at up to GEOM_GFB_SLOTS groups chosen by the
 * harness (values from IN), constrained by geom_gfb_axioms(): arithmetic consequences of the
 * formula for unbounded integers (a 32x32 bit product plus a 32 bit value cannot overflow 64 bits):
 *   A1  F(0) = fdb                        A2  g >= 1  =>  F(g) >= fdb + bpg
 *   A3  F(g+1) = F(g) + bpg               A4  g1 < g2 =>  F(g1) + bpg <= F(g2)
 *   A5  F is a function (same group, same value)
 * The real one-line function is proved equal to the formula in unit geometry/group_first_block2.
 * A call for a group the harness did not provide is a failing CHECK (never silently arbitrary).
 *
 * Include BEFORE spec_geom.h / geom_common.h and after the real translation unit.
 */
#ifndef GEOM_GFB_H
#define GEOM_GFB_H
#define GEOM_GFB_SLOTS 3
struct geom_gfb_slot { unsigned int g; unsigned long long v; };
static struct geom_gfb_slot geom_gfb[GEOM_GFB_SLOTS];

static unsigned long long geom_gfb_lookup(unsigned int g)
{
	if (g == geom_gfb[0].g) return geom_gfb[0].v;
	if (g == geom_gfb[1].g) return geom_gfb[1].v;
	if (g == geom_gfb[2].g) return geom_gfb[2].v;
	CHECK(0, "group-first oracle asked for a group the harness did not provide");
	return 0;
}
#define SPEC_GEOM_GROUP_FIRST(c, g) geom_gfb_lookup(g)

blk64_t ext2fs_group_first_block2(ext2_filsys fs, dgrp_t group)
{
	return geom_gfb_lookup(group);
}

#define GEOM_GFB_PAIR(a, b, bpg) \
	((geom_gfb[a].g != geom_gfb[b].g || geom_gfb[a].v == geom_gfb[b].v) && \
	 (geom_gfb[a].g >= geom_gfb[b].g || (geom_gfb[a].v + (bpg) <= geom_gfb[b].v && geom_gfb[a].v + (bpg) >= (bpg))) && \
	 (geom_gfb[a].g == 0xffffffffu || geom_gfb[a].g + 1 != geom_gfb[b].g || geom_gfb[b].v == geom_gfb[a].v + (bpg)))
#define GEOM_GFB_ONE(a, fdb, bpg) \
	((geom_gfb[a].g != 0 || geom_gfb[a].v == (fdb)) && \
	 (geom_gfb[a].g == 0 || geom_gfb[a].v >= (unsigned long long)(fdb) + (bpg)) && \
	 geom_gfb[a].v <= (unsigned long long)(fdb) + 0xffffffffULL * 0xffffffffULL)
static int geom_gfb_axioms(unsigned int fdb, unsigned int bpg)
{
	return GEOM_GFB_ONE(0, fdb, bpg) && GEOM_GFB_ONE(1, fdb, bpg) && GEOM_GFB_ONE(2, fdb, bpg) &&
	       GEOM_GFB_PAIR(0, 1, bpg) && GEOM_GFB_PAIR(1, 0, bpg) && GEOM_GFB_PAIR(0, 2, bpg) &&
	       GEOM_GFB_PAIR(2, 0, bpg) && GEOM_GFB_PAIR(1, 2, bpg) && GEOM_GFB_PAIR(2, 1, bpg);
}
#endif
