/* VERIF-UNIT
{
 "name": "reserve_super_and_bgd",
 "props": ["C07", "C20"],
 "level": "U",
 "tier": "quick",
 "harness": "h_reserve_super_and_bgd",
 "enforce": ["ext2fs_reserve_super_and_bgd"],
 "functions": ["lib/ext2fs/alloc_sb.c:ext2fs_reserve_super_and_bgd"],
 "assumes": ["geometry accepted by ext2fs_open2 / produced by ext2fs_initialize (geom_common.h): s_log_block_size 0..6, descriptor size 32 or 64..1024 with 64bit, s_blocks_per_group >= 8, s_first_data_block = 1 exactly for 1 KiB blocks without bigalloc",
             "ext2fs_super_and_bgd_loc2 is a stub that reports exactly the locations the format prescribes (specs/spec_geom.h; the real function is proved against the same spec in geometry/super_and_bgd_loc2); the first block of the group is an oracle value constrained by A1 (group 0 starts at s_first_data_block) and A2 (later groups start at or after s_first_data_block + s_blocks_per_group)",
             "the bitmap (gen_bitmap64.c: ext2fs_mark_generic_bmap, ext2fs_mark_block_bitmap_range2) is a ghost bit at ONE arbitrary block verif_k, any initial value; the stubs CHECK that every mark lies below the block count and goes to the bitmap passed in",
             "ext2fs_blocks_count and ext2fs_group_blocks_count (blknum.c) are stubs returning arbitrary values B resp. N with 0 < N <= s_blocks_per_group; call-site guarantee of ext2fs_initialize / resize2fs: the group's first block + its superblock/descriptor start lie below B (the last group is never shorter than its overhead: initialize.c retries with a smaller size otherwise)",
             "desc_blocks <= 2^28 (fewer than 2^32 groups, at least 16 descriptors per block), so desc_blocks + s_reserved_gdt_blocks (16 bit) does not wrap",
             "the function returns int: the 'free blocks' value is stated modulo 2^32 (callers compare / subtract in unsigned arithmetic)"],
 "native": false
}
*/
/*
 * lib/ext2fs/alloc_sb.c:ext2fs_reserve_super_and_bgd — per group g, for ONE arbitrary block verif_k:
 * after the call the block is marked in the bitmap iff it was marked before or it is, by the on-disk format,
 *   - the block holding g's superblock copy (block 0 for group 0 of a > 1 KiB filesystem, block 1 for 1 KiB),
 *   - block 0 of a 1 KiB bigalloc filesystem (padding in front of the primary superblock; group 0 only),
 *   - one of g's old-style descriptor / reserved GDT blocks (clipped to the end of the filesystem),
 *   - g's meta_bg descriptor block.
 * Nothing else is marked, nothing is ever unmarked.  Returned value ("free blocks if both bitmaps and the inode
 * table were in the group") = blocks in group − 2 − inode_blocks_per_group − (superblock + descriptor blocks).
 *
 * ghost: verif_g0 = bit verif_k of the map; verif_g1 = number of marks outside [0, B) or to a foreign bitmap.
 */
#include "verif.h"

struct in_s {
	unsigned int log_bs, log_desc, desc_size_if_32, bpg, fdb, cluster_bits;
	unsigned int incompat_other, compat, ro_compat, bbg0, bbg1;
	unsigned int meta_bg, first_meta_bg, desc_blocks;
	unsigned short reserved_gdt;
	unsigned int group, ibpg;
	unsigned long long gfirst;	/* first block of the group (oracle) */
	unsigned long long B;		/* ext2fs_blocks_count */
	unsigned int N;			/* ext2fs_group_blocks_count(group) */
	unsigned long long k;
	unsigned char bit0;
	unsigned char mark_ret[2];
};
struct in_s IN;
#include "verif_in.h"

#include "lib/ext2fs/alloc_sb.c"
#include "geom_gfb.h"
#include "geom_common.h"

unsigned long long verif_k;
unsigned long long verif_g0, verif_g1;
static int BMAP_OBJ;
static struct spec_geom g_c;	/* the configuration the harness built */

/* ---- stubs for the callees in other files */
errcode_t ext2fs_super_and_bgd_loc2(ext2_filsys fs, dgrp_t group, blk64_t *ret_super_blk,
				    blk64_t *ret_old_desc_blk, blk64_t *ret_new_desc_blk, blk_t *ret_used_blks)
{
	if (ret_super_blk) *ret_super_blk = spec_geom_ret_super(&g_c, group);
	if (ret_old_desc_blk) *ret_old_desc_blk = spec_geom_ret_old_desc(&g_c, group);
	if (ret_new_desc_blk) *ret_new_desc_blk = spec_geom_ret_new_desc(&g_c, group);
	if (ret_used_blks) *ret_used_blks = (blk_t)spec_geom_ret_used(&g_c, group);
	return 0;
}

int ext2fs_mark_generic_bmap(ext2fs_generic_bitmap bmap, __u64 arg)
{
	if (bmap != (ext2fs_generic_bitmap)&BMAP_OBJ || arg >= IN.B)
		verif_g1++;
	if (arg == verif_k) {
		int old = (int)verif_g0;
		verif_g0 = 1;
		return old;
	}
	return IN.mark_ret[0] & 1;
}

void ext2fs_mark_block_bitmap_range2(ext2fs_block_bitmap bmap, blk64_t block, unsigned int num)
{
	if (bmap != (ext2fs_block_bitmap)&BMAP_OBJ || block >= IN.B || num > IN.B - block)
		verif_g1++;
	if (verif_k >= block && verif_k - block < num)
		verif_g0 = 1;
}

blk64_t ext2fs_blocks_count(struct ext2_super_block *super) { return IN.B; }
int ext2fs_group_blocks_count(ext2_filsys fs, dgrp_t group) { return (int)IN.N; }

/* ---- the format's answer: is block k part of group g's superblock / descriptor overhead? (specs/spec_geom.h) */
static int spec_reserved(const struct spec_geom *c, unsigned int g, int bigalloc, spec_u64 B, spec_u64 k)
{
	if (spec_geom_has_super(c, g) && k == spec_geom_super_loc(c, g))
		return 1;
	if (g == 0 && c->blocksize == 1024 && bigalloc && k == 0)
		return 1;
	if (!spec_geom_in_meta_region(c, g)) {
		spec_u64 first_desc = spec_geom_super_loc(c, g) + 1;
		return spec_geom_has_super(c, g) && k >= first_desc &&
		       k - first_desc < spec_geom_old_desc_count(c) && k < B;
	}
	return spec_geom_meta_holder(c, g) && k == spec_geom_desc_copy_loc(c, g);
}

static unsigned int g_group;
static int g_bigalloc;

int ext2fs_reserve_super_and_bgd(ext2_filsys fs, dgrp_t group, ext2fs_block_bitmap bmap)
	REQUIRES(group == g_group && verif_g1 == 0)
	ENSURES(verif_g1 == 0)
	ENSURES((verif_g0 != 0) == (OLD(verif_g0) != 0 || spec_reserved(&g_c, g_group, g_bigalloc, IN.B, verif_k)))
	ENSURES((unsigned int)RET == IN.N - 2u - fs->inode_blocks_per_group - (unsigned int)spec_geom_ret_used(&g_c, g_group))
	ASSIGNS(verif_g0, verif_g1);

void h_reserve_super_and_bgd(void)
{
	ext2_filsys fs;

	LOAD_IN();
	geom_build(&fs, &g_c, IN.log_bs, IN.log_desc, IN.desc_size_if_32, IN.bpg, IN.fdb, IN.cluster_bits,
		   IN.incompat_other, IN.compat, IN.ro_compat, IN.bbg0, IN.bbg1, IN.meta_bg,
		   IN.first_meta_bg, IN.desc_blocks, IN.reserved_gdt);
	ASSUME(GEOM_FDB_LEGAL(IN.log_bs, IN.cluster_bits, IN.fdb));
	fs->inode_blocks_per_group = IN.ibpg;
	geom_gfb[0].g = geom_gfb[1].g = geom_gfb[2].g = IN.group;
	geom_gfb[0].v = geom_gfb[1].v = geom_gfb[2].v = IN.gfirst;
	ASSUME(geom_gfb_axioms(IN.fdb, IN.bpg));
	ASSUME(IN.N > 0 && IN.N <= IN.bpg);
	/* format: fewer than 2^32 groups, at least 16 descriptors per block */
	ASSUME(IN.desc_blocks <= (1u << 28));
	/* call sites: the group exists, and its superblock copy + first descriptor block lie inside the filesystem */
	ASSUME(IN.gfirst < IN.B && IN.B - IN.gfirst > 2);

	g_group = IN.group;
	g_bigalloc = IN.cluster_bits != 0;
	verif_k = IN.k;
	verif_g0 = IN.bit0 & 1;
	verif_g1 = 0;
	unsigned int bit0 = (unsigned int)verif_g0;

	int r = ext2fs_reserve_super_and_bgd(fs, IN.group, (ext2fs_block_bitmap)&BMAP_OBJ);

	int want = spec_reserved(&g_c, IN.group, g_bigalloc, IN.B, IN.k);
	CHECK(verif_g1 == 0, "every mark goes to the given bitmap and lies below the block count");
	CHECK((verif_g0 != 0) == (bit0 || want), "block k is marked iff it was marked or is a superblock copy / padding / descriptor / reserved GDT block of the group");
	CHECK((unsigned int)r == IN.N - 2u - IN.ibpg - (unsigned int)spec_geom_ret_used(&g_c, IN.group),
	      "returns blocks in group - 2 bitmaps - inode table - superblock/descriptor overhead");
	if (want && !bit0) {
		if (IN.k == spec_geom_super_loc(&g_c, IN.group)) REACH("super");
		if (IN.k == 0 && IN.group == 0 && g_bigalloc && IN.log_bs == 0) REACH("pad0");
		if (!spec_geom_in_meta_region(&g_c, IN.group) && IN.k > spec_geom_super_loc(&g_c, IN.group) + 1) REACH("old_desc");
		if (spec_geom_in_meta_region(&g_c, IN.group)) REACH("new_desc");
		if (IN.k + 1 == IN.B) REACH("clipped_last_block");
	}
	if (!want && !bit0) REACH("unmarked_stays");
	REACH("end");
}
