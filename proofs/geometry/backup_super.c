/* VERIF-UNIT
{
 "name": "write_backup_super",
 "props": ["C20", "C07"],
 "level": "U",
 "tier": "quick",
 "harness": "h_write_backup_super",
 "enforce": ["write_backup_super"],
 "functions": ["lib/ext2fs/closefs.c:write_backup_super"],
 "assumes": ["little-endian host (ext2fs_cpu_to_le16 is the identity; WORDS_BIGENDIAN unset as in /repo's config.h)",
             "ext2fs_superblock_csum_set (csum.c, C14) and io_channel_write_blk64 (io_manager.c) are logging stubs: the checksum stub stores an arbitrary value in s_checksum only and records the group number it saw; the write stub snapshots block, count, the group number, the checksum and one arbitrary byte (ghost index) of the buffer",
             "s_block_group_nr is a 16-bit field: for group >= 65536 the copy carries 65535 (format limit; the property's 's_block_group_nr == g' is stated for the representable range and saturation above)"],
 "native": false
}
*/
#include "verif.h"

struct in_s {
	unsigned char sb_bytes[1024];
	unsigned int group;
	unsigned long long group_block;
	unsigned long long k;		/* ghost byte index into the 1024-byte superblock */
	long csum_ret, write_ret;
	unsigned int new_csum;
};
struct in_s IN;
#include "verif_in.h"

#include "lib/ext2fs/closefs.c"

unsigned long long verif_k;

/* ghost log */
static unsigned int g_csum_calls, g_write_calls;
static unsigned int g_csum_saw_group_nr;
static const void *g_csum_sb;
static unsigned long long g_wr_block;
static int g_wr_count;
static const void *g_wr_buf;
static unsigned int g_wr_group_nr, g_wr_checksum, g_wr_csum_calls_before;
static unsigned char g_wr_byte_k;

errcode_t ext2fs_superblock_csum_set(ext2_filsys fs, struct ext2_super_block *sb)
{
	g_csum_calls++;
	g_csum_sb = sb;
	g_csum_saw_group_nr = sb->s_block_group_nr;
	if (IN.csum_ret)
		return IN.csum_ret;
	sb->s_checksum = IN.new_csum;
	return 0;
}

errcode_t io_channel_write_blk64(io_channel channel, unsigned long long block, int count, const void *data)
{
	g_write_calls++;
	g_wr_block = block;
	g_wr_count = count;
	g_wr_buf = data;
	g_wr_group_nr = ((const struct ext2_super_block *)data)->s_block_group_nr;
	g_wr_checksum = ((const struct ext2_super_block *)data)->s_checksum;
	g_wr_csum_calls_before = g_csum_calls;
	g_wr_byte_k = ((const unsigned char *)data)[verif_k];
	return IN.write_ret;
}

#define CAP16(g) ((g) > 65535u ? 65535u : (g))
#define OFF_GROUP_NR	0x5A	/* s_block_group_nr: le16 at byte 90 of the superblock (ext4 on-disk format) */
#define OFF_CHECKSUM	0x3FC	/* s_checksum: le32 at byte 1020 */

static errcode_t write_backup_super(ext2_filsys fs, dgrp_t group, blk64_t group_block,
				    struct ext2_super_block *super_shadow)
	REQUIRES(g_csum_calls == 0 && g_write_calls == 0 && verif_k < 1024)
	/* checksum is computed exactly once, on the shadow, AFTER the group number was stored */
	ENSURES(g_csum_calls == 1 && g_csum_sb == super_shadow && g_csum_saw_group_nr == CAP16(group))
	/* checksum failure: nothing is written, the error is returned */
	ENSURES(IN.csum_ret == 0 || (g_write_calls == 0 && RET == IN.csum_ret))
	/* otherwise exactly one write of the 1024-byte superblock to the group's superblock location, after the checksum */
	ENSURES(IN.csum_ret != 0 || (g_write_calls == 1 && g_wr_block == group_block && g_wr_count == -1024 &&
				     g_wr_buf == super_shadow && g_wr_csum_calls_before == 1 && RET == IN.write_ret))
	/* the written copy carries the group number and the fresh checksum ... */
	ENSURES(IN.csum_ret != 0 || (g_wr_group_nr == CAP16(group) && g_wr_checksum == IN.new_csum))
	/* ... and is otherwise the shadow superblock as it was on entry (ghost byte index) */
	ENSURES(IN.csum_ret != 0 || (verif_k >= OFF_GROUP_NR && verif_k < OFF_GROUP_NR + 2) ||
		(verif_k >= OFF_CHECKSUM && verif_k < OFF_CHECKSUM + 4) || g_wr_byte_k == IN.sb_bytes[verif_k])
	/* frame: of the shadow only the group number and the checksum are touched (used by unit flush2_groups) */
	ASSIGNS(super_shadow->s_block_group_nr, super_shadow->s_checksum, g_csum_calls, g_write_calls, g_csum_saw_group_nr, g_csum_sb,
		g_wr_block, g_wr_count, g_wr_buf, g_wr_group_nr, g_wr_checksum, g_wr_csum_calls_before, g_wr_byte_k);

void h_write_backup_super(void)
{
	static struct struct_ext2_filsys FS;
	static struct struct_io_channel CH;
	static struct ext2_super_block PRIMARY;
	LOAD_IN();
	struct ext2_super_block *shadow = malloc(1024);
	ASSUME(shadow != 0);
	memcpy(shadow, IN.sb_bytes, 1024);
	ASSUME(IN.k < 1024);
	verif_k = IN.k;
	FS.super = &PRIMARY;
	FS.io = &CH;
	g_csum_calls = g_write_calls = 0;

	errcode_t r = write_backup_super(&FS, IN.group, IN.group_block, shadow);

	CHECK(sizeof(struct ext2_super_block) == 1024 && __builtin_offsetof(struct ext2_super_block, s_block_group_nr) == OFF_GROUP_NR &&
	      __builtin_offsetof(struct ext2_super_block, s_checksum) == OFF_CHECKSUM, "struct layout is the on-disk format's");
	CHECK(g_csum_calls == 1 && g_csum_saw_group_nr == CAP16(IN.group), "checksum set after the group number is changed");
	if (IN.csum_ret == 0) {
		CHECK(g_write_calls == 1 && g_wr_block == IN.group_block && g_wr_count == -1024 && g_wr_buf == shadow,
		      "one 1024-byte write to the group's superblock location");
		CHECK(g_wr_csum_calls_before == 1, "write happens after the checksum");
		CHECK(g_wr_group_nr == CAP16(IN.group), "copy carries s_block_group_nr == group");
		CHECK(g_wr_checksum == IN.new_csum, "copy carries the checksum computed for it");
		CHECK((IN.k >= OFF_GROUP_NR && IN.k < OFF_GROUP_NR + 2) || (IN.k >= OFF_CHECKSUM && IN.k < OFF_CHECKSUM + 4) ||
		      g_wr_byte_k == IN.sb_bytes[IN.k], "copy is otherwise the shadow superblock");
		CHECK(r == IN.write_ret, "returns the write's result");
		REACH("written");
	} else {
		CHECK(g_write_calls == 0 && r == IN.csum_ret, "checksum error: nothing written");
		REACH("csum_error");
	}
	REACH("end");
}
