/* VERIF-UNIT
{
 "name": "check_backup_super_block",
 "props": ["C20"],
 "level": "U",
 "tier": "quick",
 "harness": "h_check_backup_super_block",
 "includes": ["e2fsck", "lib/support"],
 "loop_contracts": true,
 "unwind": 18,
 "cbmc_flags": ["--object-bits", "12"],
 "unwind_reason": "the group loop carries an in-place loop contract (named anchor VERIF_INV_CHECK_BACKUP_SUPER_BLOCK, text below: inductive invariant + decreases clause); the bound serves memcmp over the 16-byte UUID and the DFCC library loops, unwinding assertions on",
 "functions": ["e2fsck/super.c:check_backup_super_block"],
 "assumes": ["NEEDS the hook in hooks-pending/geo.diff (named loop anchor VERIF_INV_CHECK_BACKUP_SUPER_BLOCK) and the empty default for that name in include/e2fsprogs_verif.h (the readonly units include e2fsck/super.c too)",
             "what the function is FOR: e2fsck runs with EXT2_FLAG_MASTER_SB_ONLY; if nothing else forces a full flush, this function decides whether the backups must be rewritten. What is proved (ghost group k): if k is the FIRST group >= 1 that has a backup which can be read and looks like a superblock (magic, revision, block size, inode size plausible), the result is 1 exactly when that backup differs from the primary in one of: compat features, incompat features (EXTENTS, RECOVER ignored), ro_compat features (LARGE_FILE, DIR_NLINK, ORPHAN_PRESENT ignored: the bits the kernel flips on its own), 64-bit block count, inode count, UUID; groups after k are not read; if no group has such a backup the result is 0; the result is 0 without any read when the full flush happens anyway / the run is read-only, aborted or the filesystem has errors",
             "OBSERVATION (not claimed as a violation): only the first usable backup is compared, unreadable or implausible backups are skipped, a stale backup in a later group is not noticed; C20's 'every backup is current after a repairing e2fsck' therefore relies on the tools always rewriting all backups together",
             "ext2fs_bg_has_super and ext2fs_group_first_block2 are stubs (arbitrary functions of the group; has_super(k) holds), the channel's read_blk is a stub: groups before k fail to read or deliver an implausible block (harness-chosen), group k delivers an arbitrary plausible superblock; little-endian host"],
 "native": false
}
*/
/* VERIF-UNIT
{
 "name": "check_backup_super_block_none",
 "props": ["C20"],
 "level": "U",
 "tier": "quick",
 "harness": "h_check_backup_super_block_none",
 "includes": ["e2fsck", "lib/support"],
 "loop_contracts": true,
 "unwind": 18,
 "cbmc_flags": ["--object-bits", "12"],
 "unwind_reason": "as check_backup_super_block",
 "functions": ["e2fsck/super.c:check_backup_super_block"],
 "assumes": ["as check_backup_super_block, for the case that NO group has a readable plausible backup (k >= group_desc_count): the result is 0"],
 "native": false
}
*/
#include "verif.h"

struct in_s {
	int fs_flags, ctx_flags, ctx_options;
	unsigned short s_state;
	unsigned int group_desc_count;
	unsigned long long k;
	unsigned char hs[8];			/* has_super answers for groups != k */
	unsigned long long first[8];
	unsigned char before_mode[8];		/* groups before k: 0 read error, 1 bad magic, 2 bad revision, 3 bad block size, 4 bad inode size */
	long read_err;
	struct { unsigned int compat, incompat, ro_compat, blocks, blocks_hi, inodes; unsigned char uuid[16]; } pri, bak;
	unsigned int bak_rev, bak_log_bs;
	unsigned short bak_inode_size;
};
struct in_s IN;
#include "verif_in.h"

unsigned long long verif_k;
static struct {
	unsigned int cur_g;		/* group of the latest ext2fs_group_first_block2 call */
	unsigned int beyond;		/* a group after k was looked at */
	unsigned int reads, bad_read;	/* reads; reads at a block other than the group's first / of the wrong size */
	unsigned int k_read;		/* group k's backup was read */
} G;

/* text of the named loop anchor in e2fsck/super.c (group loop of check_backup_super_block) */
#define VERIF_INV_CHECK_BACKUP_SUPER_BLOCK \
	__CPROVER_assigns(g, sb, retval, ret, backup_sb, __CPROVER_object_whole(buf), __CPROVER_object_whole(&G)) \
	__CPROVER_loop_invariant(g >= 1 && (g <= fs->group_desc_count || g == 1)) \
	__CPROVER_loop_invariant(verif_k >= fs->group_desc_count || g <= verif_k) \
	__CPROVER_loop_invariant(ret == 0 && G.beyond == 0 && G.bad_read == 0 && G.k_read == 0) \
	__CPROVER_decreases(fs->group_desc_count - g)

#include "e2fsck/super.c"

static struct struct_io_channel CH;
static struct struct_io_manager MGR;
static struct struct_ext2_filsys FS;
static struct ext2_super_block SB;
static struct e2fsck_struct CTX;

int ext2fs_bg_has_super(ext2_filsys fs, dgrp_t group)
{
	if (group > verif_k)
		G.beyond++;
	return group == verif_k ? 1 : (IN.hs[group & 7] & 1);
}
blk64_t ext2fs_group_first_block2(ext2_filsys fs, dgrp_t group)
{
	G.cur_g = group;
	return IN.first[group & 7];
}
static errcode_t stub_read_blk(io_channel channel, unsigned long block, int count, void *data)
{
	struct ext2_super_block *b = data;

	G.reads++;
	if (channel != &CH || count != -SUPERBLOCK_SIZE || block != (unsigned long)IN.first[G.cur_g & 7])
		G.bad_read++;
	if (G.cur_g > verif_k)
		G.beyond++;
	/* an arbitrary plausible superblock ... */
	b->s_magic = EXT2_SUPER_MAGIC;
	b->s_rev_level = IN.bak_rev;
	b->s_log_block_size = IN.bak_log_bs;
	b->s_inode_size = IN.bak_inode_size;
	b->s_feature_compat = IN.bak.compat;
	b->s_feature_incompat = IN.bak.incompat;
	b->s_feature_ro_compat = IN.bak.ro_compat;
	b->s_blocks_count = IN.bak.blocks;
	b->s_blocks_count_hi = IN.bak.blocks_hi;
	b->s_inodes_count = IN.bak.inodes;
	memcpy(b->s_uuid, IN.bak.uuid, 16);	/* no loop with a local counter: DFCC would flag it as not assignable */
	if (G.cur_g == verif_k) {
		G.k_read++;
		return 0;
	}
	/* ... made unusable in one of the ways the code tests for, in the groups before k */
	switch (IN.before_mode[G.cur_g & 7]) {
	case 0: return IN.read_err ? IN.read_err : 1;
	case 1: b->s_magic = 0x1234; break;
	case 2: b->s_rev_level = EXT2_LIB_CURRENT_REV + 1; break;
	case 3: b->s_log_block_size = 7; break;
	default: b->s_rev_level = EXT2_DYNAMIC_REV; b->s_inode_size = 64; break;
	}
	return 0;
}

/*
 * feature bits the KERNEL flips in the primary superblock on its own, without rewriting the backups (so a difference in
 * them says nothing about stale backups): incompat EXTENTS 0x40 (first extent-mapped file), RECOVER 0x04 (journal
 * needs replay); ro_compat LARGE_FILE 0x02 (first file > 2 GiB), DIR_NLINK 0x20 (first directory with > 65000
 * links), ORPHAN_PRESENT 0x10000 (orphan file in use).  Kernel: ext4_update_dynamic_rev / ext4_set_feature_* callers.
 */
#define IGN_INCOMPAT 0x0044u
#define IGN_RO 0x10022u
static int spec_differs(void)
{
	int d = IN.pri.compat != IN.bak.compat ||
		(IN.pri.incompat & ~IGN_INCOMPAT) != (IN.bak.incompat & ~IGN_INCOMPAT) ||
		(IN.pri.ro_compat & ~IGN_RO) != (IN.bak.ro_compat & ~IGN_RO) ||
		IN.pri.blocks != IN.bak.blocks || IN.pri.blocks_hi != IN.bak.blocks_hi ||
		IN.pri.inodes != IN.bak.inodes;
	for (int i = 0; i < 16; i++)
		if (IN.pri.uuid[i] != IN.bak.uuid[i])
			d = 1;
	return d;
}

static void run(int have_usable)
{
	LOAD_IN();
	memset(&FS, 0, sizeof(FS));
	memset(&SB, 0, sizeof(SB));
	memset(&CTX, 0, sizeof(CTX));
	memset(&G, 0, sizeof(G));
	MGR.read_blk = stub_read_blk;
	CH.manager = &MGR;
	FS.io = &CH;
	FS.super = &SB;
	FS.flags = IN.fs_flags;
	FS.group_desc_count = IN.group_desc_count;
	SB.s_state = IN.s_state;
	SB.s_feature_compat = IN.pri.compat;
	SB.s_feature_incompat = IN.pri.incompat;
	SB.s_feature_ro_compat = IN.pri.ro_compat;
	SB.s_blocks_count = IN.pri.blocks;
	SB.s_blocks_count_hi = IN.pri.blocks_hi;
	SB.s_inodes_count = IN.pri.inodes;
	for (int i = 0; i < 16; i++)
		SB.s_uuid[i] = IN.pri.uuid[i];
	CTX.fs = &FS;
	CTX.flags = IN.ctx_flags;
	CTX.options = IN.ctx_options;
	/* group k's backup is plausible: revision known, block size legal, inode size >= 128 (rev 0: fixed 128) */
	ASSUME(IN.bak_rev <= EXT2_LIB_CURRENT_REV && IN.bak_log_bs <= 6 && (IN.bak_rev == 0 || IN.bak_inode_size >= 128));
	verif_k = IN.k;
	if (have_usable)
		ASSUME(IN.k >= 1 && IN.k < IN.group_desc_count);
	else
		ASSUME(IN.k >= IN.group_desc_count);

	int r = check_backup_super_block(&CTX);

	int skip = (IN.fs_flags & EXT2_FLAG_MASTER_SB_ONLY) == 0 || (IN.fs_flags & EXT2_FLAG_VALID) == 0 ||
		   (IN.s_state & EXT2_ERROR_FS) || (IN.ctx_flags & (E2F_FLAG_ABORT | E2F_FLAG_CANCEL)) ||
		   (IN.ctx_options & E2F_OPT_READONLY);
	CHECK(G.bad_read == 0, "a backup is read as SUPERBLOCK_SIZE bytes at the first block of its group");
	CHECK(G.beyond == 0, "no group after the first usable backup is looked at");
	if (skip) {
		CHECK(r == 0 && G.reads == 0, "full flush pending / read-only / aborted / errors: no decision, no I/O");
		REACH("skip");
	} else if (have_usable) {
		CHECK(G.k_read == 1, "the first usable backup is read exactly once");
		CHECK(r == spec_differs(), "backups need refreshing iff the first usable backup differs from the primary in a compared field");
#ifdef VERIF_UNIT_check_backup_super_block
		if (r) REACH("differs");
		if (!r) REACH("same");
		if (IN.k > 2 && G.reads > 2) REACH("skipped_unusable_backups_before");
#endif
	} else {
		CHECK(r == 0, "no usable backup: nothing to compare");
#ifdef VERIF_UNIT_check_backup_super_block_none
		REACH("none");
		if (G.reads > 0) REACH("none_after_reads");
#endif
	}
	REACH("end");
}

void h_check_backup_super_block(void) { run(1); }
void h_check_backup_super_block_none(void) { run(0); }
