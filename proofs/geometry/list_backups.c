/* VERIF-UNIT
{
 "name": "list_backups",
 "props": ["C07", "C20"],
 "level": "U",
 "tier": "quick",
 "harness": "h_list_backups",
 "enforce": ["ext2fs_list_backups"],
 "functions": ["lib/ext2fs/res_gdt.c:ext2fs_list_backups"],
 "assumes": ["callers start the three counters at 1, 5, 7 (res_gdt.c, e2fsck/util.c, resize2fs.c, mke2fs.c); that state is checked to satisfy the invariant (base case), the contract is the induction step, so the statement holds for every call of an iteration",
             "sparse_super2 and non-sparse filesystems: simple per-call statements only (two listed groups then group_desc_count; consecutive groups)"],
 "native": true
}
*/
/*
 * Iterator lemma for ext2fs_list_backups (sparse_super, or fs == NULL), as an induction over calls.
 * State: (three, five, seven).  MAXG = 0xffffffff is the "exhausted" sentinel.
 *   I   three in {1} u pow3 u {MAXG}, five in pow5 u {MAXG}, seven in pow7 u {MAXG}
 *   J(x) for one arbitrary ghost group x (stands for "for all x"): every backup group below
 *        m = min(three, five, seven) has been handed out, i.e. each counter is the smallest member of
 *        its family that is >= m:   x in family_p and x >= m  =>  x >= counter_p
 * Step (contract): given I and J(x):  ret == m;  ret is a backup group of the format (1 or a power of
 * 3, 5, 7: spec_pow.h) or MAXG;  I and J(x) hold again;  the next result is strictly larger;  and no
 * backup group lies strictly between ret and the next result (nothing is skipped).
 */
#include "verif.h"
#include "spec_pow.h"

struct in_s {
	unsigned int three, five, seven, x;
	unsigned int mode;		/* 0: fs == NULL, 1: sparse_super, 2: sparse_super2, 3: neither */
	unsigned int bbg0, bbg1, group_desc_count, other_compat, other_ro;
};
struct in_s IN;
#include "verif_in.h"

#include "lib/ext2fs/res_gdt.c"

#define MAXG 0xffffffffu
static int fam3(unsigned int v) { return v == 1 || spec_is_pow(v, 3); }
static int fam5(unsigned int v) { return spec_is_pow(v, 5); }
static int fam7(unsigned int v) { return spec_is_pow(v, 7); }
static unsigned int min3(unsigned int a, unsigned int b, unsigned int c) { unsigned int m = a < b ? a : b; return m < c ? m : c; }
static int inv_I(unsigned int t, unsigned int f, unsigned int s)
{
	return (fam3(t) || t == MAXG) && (fam5(f) || f == MAXG) && (fam7(s) || s == MAXG);
}
static int inv_J(unsigned int t, unsigned int f, unsigned int s, unsigned int x)
{
	unsigned int m = min3(t, f, s);
	return (!(fam3(x) && x >= m) || x >= t) && (!(fam5(x) && x >= m) || x >= f) && (!(fam7(x) && x >= m) || x >= s);
}
/* "x carries a backup" for a sparse_super filesystem, x > 0: the format's rule (spec_pow.h) */
static int backup(unsigned int x) { return x != 0 && spec_bg_has_super(x, 0, SPEC_RO_COMPAT_SPARSE_SUPER, 0, 0); }
static int sparse_mode(ext2_filsys fs)
{
	return fs == 0 || (!(fs->super->s_feature_compat & EXT4_FEATURE_COMPAT_SPARSE_SUPER2) &&
			   (fs->super->s_feature_ro_compat & EXT2_FEATURE_RO_COMPAT_SPARSE_SUPER));
}

static unsigned int g_t0, g_f0, g_s0, g_x;	/* entry values / ghost group */

dgrp_t ext2fs_list_backups(ext2_filsys fs, dgrp_t *three, dgrp_t *five, dgrp_t *seven)
	REQUIRES(g_t0 == *three && g_f0 == *five && g_s0 == *seven)
	REQUIRES(!sparse_mode(fs) || (inv_I(*three, *five, *seven) && inv_J(*three, *five, *seven, g_x)))
	ENSURES(!sparse_mode(fs) || RET == min3(g_t0, g_f0, g_s0))
	ENSURES(!sparse_mode(fs) || RET == MAXG || backup(RET))
	ENSURES(!sparse_mode(fs) || (inv_I(*three, *five, *seven) && inv_J(*three, *five, *seven, g_x)))
	ENSURES(!sparse_mode(fs) || RET == MAXG || min3(*three, *five, *seven) > RET)
	ENSURES(!sparse_mode(fs) || !(backup(g_x) && g_x > RET) || g_x >= min3(*three, *five, *seven))
	ASSIGNS(*three, *five, *seven);

void h_list_backups(void)
{
	static struct struct_ext2_filsys FS;
	static struct ext2_super_block SB;
	ext2_filsys fs = 0;
	dgrp_t three, five, seven;

	LOAD_IN();
	ASSUME(IN.mode <= 3);
	/* base case: the state every caller starts from satisfies I and J(x) for every x */
	CHECK(inv_I(1, 5, 7) && inv_J(1, 5, 7, IN.x), "base: (1,5,7) satisfies the invariant");

	if (IN.mode != 0) {
		fs = &FS;
		FS.super = &SB;
		FS.group_desc_count = IN.group_desc_count;
		SB.s_feature_compat = IN.other_compat & ~EXT4_FEATURE_COMPAT_SPARSE_SUPER2;
		SB.s_feature_ro_compat = IN.other_ro & ~EXT2_FEATURE_RO_COMPAT_SPARSE_SUPER;
		if (IN.mode == 1) SB.s_feature_ro_compat |= EXT2_FEATURE_RO_COMPAT_SPARSE_SUPER;
		if (IN.mode == 2) SB.s_feature_compat |= EXT4_FEATURE_COMPAT_SPARSE_SUPER2;
		SB.s_backup_bgs[0] = IN.bbg0;
		SB.s_backup_bgs[1] = IN.bbg1;
	}
	three = IN.three; five = IN.five; seven = IN.seven;
	g_t0 = three; g_f0 = five; g_s0 = seven; g_x = IN.x;
	if (IN.mode <= 1)
		ASSUME(inv_I(three, five, seven) && inv_J(three, five, seven, IN.x));
	CHECK(sparse_mode(fs) == (IN.mode <= 1), "mode");

	dgrp_t r = ext2fs_list_backups(fs, &three, &five, &seven);

	if (IN.mode <= 1) {
		CHECK(r == min3(IN.three, IN.five, IN.seven), "returns the smallest pending backup group");
		CHECK(r == MAXG || backup(r), "every returned group is a backup group of the format (ext2fs_bg_has_super for sparse_super)");
		CHECK(inv_I(three, five, seven) && inv_J(three, five, seven, IN.x), "invariant re-established");
		CHECK(r == MAXG || min3(three, five, seven) > r, "the sequence is strictly increasing");
		CHECK(!(backup(IN.x) && IN.x > r) || IN.x >= min3(three, five, seven), "no backup group between consecutive results is skipped");
		if (r == MAXG) REACH("exhausted");
		if (r != MAXG && three != IN.three) REACH("adv3");
		if (r != MAXG && five != IN.five) REACH("adv5");
		if (r != MAXG && seven != IN.seven) REACH("adv7");
		if (three == MAXG && IN.three != MAXG) REACH("overflow3");
	} else if (IN.mode == 2) {
		/* sparse_super2: the two listed groups (when non-zero), then group_desc_count (= stop) */
		if (IN.three == 1)
			CHECK(r == (IN.bbg0 ? IN.bbg0 : IN.bbg1 ? IN.bbg1 : IN.group_desc_count), "sparse_super2: first call");
		if (IN.three == 2)
			CHECK(r == (IN.bbg1 ? IN.bbg1 : IN.group_desc_count), "sparse_super2: second call");
		if (IN.three > 2)
			CHECK(r == IN.group_desc_count, "sparse_super2: exhausted");
		CHECK(r == IN.group_desc_count || spec_bg_has_super(r, EXT4_FEATURE_COMPAT_SPARSE_SUPER2, 0, IN.bbg0, IN.bbg1), "sparse_super2: returned group is a listed backup group");
		REACH("ss2");
	} else {
		CHECK(r == IN.three && (IN.three == MAXG || three == IN.three + 1), "no sparse_super: every group in turn");
		REACH("nonsparse");
	}
	REACH("end");
}
