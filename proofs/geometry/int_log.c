/* VERIF-UNIT
{
 "name": "mke2fs_int_log",
 "props": ["C07"],
 "level": "U/k",
 "tier": "quick",
 "harness": "h_mke2fs_int_log",
 "includes": ["misc", "lib/support"],
 "unwind": 66,
 "unwind_reason": "int_log2 shifts a 64-bit argument right until it is zero: at most 63 iterations after the initial shift; int_log10 divides a 64-bit argument by ten until it is zero: at most 20 iterations (2^64 < 10^20). Unwinding assertions on.",
 "functions": ["misc/mke2fs.c:int_log2", "misc/mke2fs.c:int_log10"],
 "assumes": ["none: every 64-bit argument; no contract is enforced (two real functions called from one harness), the statement is the harness CHECKs on the real code"],
 "native": false
}
*/
/*
 * misc/mke2fs.c:int_log2 / int_log10 — used for s_log_block_size, s_log_cluster_size, s_log_groups_per_flex
 * (int_log2) and for column widths (int_log10).
 *   int_log2(a):  0 for a <= 1, otherwise the l with 2^l <= a < 2^(l+1); for a power of two 1 << l == a
 *                 (so blocksize == 1024 << s_log_block_size is what mke2fs stores).
 *   int_log10(a): number of decimal digits of a (0 for a == 0), by the explicit table of powers of ten.
 */
#include "verif.h"

struct in_s { unsigned long long a, b; };
struct in_s IN;
#include "verif_in.h"

#include "misc/mke2fs.c"

unsigned long long verif_k;

static int spec_digits(unsigned long long n)
{
	return n == 0 ? 0 : n < 10ULL ? 1 : n < 100ULL ? 2 : n < 1000ULL ? 3 : n < 10000ULL ? 4 : n < 100000ULL ? 5 :
	       n < 1000000ULL ? 6 : n < 10000000ULL ? 7 : n < 100000000ULL ? 8 : n < 1000000000ULL ? 9 :
	       n < 10000000000ULL ? 10 : n < 100000000000ULL ? 11 : n < 1000000000000ULL ? 12 :
	       n < 10000000000000ULL ? 13 : n < 100000000000000ULL ? 14 : n < 1000000000000000ULL ? 15 :
	       n < 10000000000000000ULL ? 16 : n < 100000000000000000ULL ? 17 : n < 1000000000000000000ULL ? 18 :
	       n < 10000000000000000000ULL ? 19 : 20;
}

void h_mke2fs_int_log(void)
{
	LOAD_IN();
	int l2 = int_log2(IN.a);
	CHECK(l2 >= 0 && l2 <= 63, "int_log2 in 0..63");
	CHECK(IN.a > 1 || l2 == 0, "int_log2(0) = int_log2(1) = 0");
	CHECK(IN.a == 0 || (IN.a >> l2) == 1, "2^l <= a < 2^(l+1)");
	CHECK((IN.a & (IN.a - 1)) != 0 || IN.a == 0 || (1ULL << l2) == IN.a, "exact for powers of two");
	int l10 = int_log10(IN.b);
	CHECK(l10 == spec_digits(IN.b), "int_log10 = number of decimal digits");
	if (l2 == 63) REACH("log2_max");
	if (l10 == 20) REACH("log10_max");
	REACH("end");
}
