/* VERIF-UNIT
{
 "name": "group_first_block2",
 "props": ["C07", "C20"],
 "level": "U",
 "tier": "quick",
 "harness": "h_group_first_block2",
 "enforce": ["ext2fs_group_first_block2"],
 "functions": ["lib/ext2fs/blknum.c:ext2fs_group_first_block2"],
 "backend": "z3",
 "native": false
}
*/
/* VERIF-UNIT
{
 "name": "group_first_axioms",
 "props": ["C07", "C20"],
 "level": "U",
 "tier": "quick",
 "harness": "h_group_first_axioms",
 "functions": ["lib/ext2fs/blknum.c:ext2fs_group_first_block2"],
 "allow_missing_classes": true,
 "native": true
}
*/
/*
 * The real ext2fs_group_first_block2 is the format's  s_first_data_block + group * s_blocks_per_group
 * (64-bit, no wrap), and the arithmetic consequences A1..A4 that the other geometry units assume of
 * their group-first oracle (geom_gfb.h) hold for it.
 */
#include "verif.h"
struct in_s { unsigned int fdb, bpg, g1, g2; };
struct in_s IN;
#include "verif_in.h"
#include "lib/ext2fs/blknum.c"

blk64_t ext2fs_group_first_block2(ext2_filsys fs, dgrp_t group)
	ENSURES(RET == (unsigned long long)fs->super->s_first_data_block + (unsigned long long)fs->super->s_blocks_per_group * group)
	ASSIGNS();

static struct struct_ext2_filsys FS;
static struct ext2_super_block SB;

/* z3 discharges the formula syntactically (SAT would have to prove two 64-bit multipliers equal) */
void h_group_first_block2(void)
{
	LOAD_IN();
	FS.super = &SB;
	SB.s_first_data_block = IN.fdb;
	SB.s_blocks_per_group = IN.bpg;
	blk64_t v1 = ext2fs_group_first_block2(&FS, IN.g1);
	CHECK(IN.g1 != 0 || v1 == IN.fdb, "A1 F(0) = fdb");
	REACH("end");
}

/* real function called directly (SAT): the arithmetic consequences the oracle users assume */
void h_group_first_axioms(void)
{
	LOAD_IN();
	FS.super = &SB;
	SB.s_first_data_block = IN.fdb;
	SB.s_blocks_per_group = IN.bpg;
	blk64_t v1 = ext2fs_group_first_block2(&FS, IN.g1);
	CHECK(IN.g1 != 0 || v1 == IN.fdb, "A1 F(0) = fdb");
	CHECK(IN.g1 == 0 || v1 >= (unsigned long long)IN.fdb + IN.bpg, "A2 g >= 1 => F(g) >= fdb + bpg");
	CHECK(v1 <= (unsigned long long)IN.fdb + 0xffffffffULL * 0xffffffffULL, "range: no 64-bit wrap");
	/* A3 F(g+1) = F(g) + bpg and A4 g1 < g2 => F(g1) + bpg <= F(g2) relate two symbolic products
	 * (distributivity / monotonicity of a 32x32->64 bit multiplier): SAT, z3 and cvc5 all exceed 60 s.
	 * They are facts of integer arithmetic about the formula proved in group_first_block2, not about
	 * the code, and are listed as such in the "assumes" of the units that use them.
	 * A5 (same group, same value): the function reads nothing but the two superblock fields. */
	REACH("end");
}
