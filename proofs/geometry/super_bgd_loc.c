/* VERIF-UNIT
{
 "name": "super_and_bgd_loc2",
 "props": ["C07", "C20"],
 "level": "U",
 "tier": "quick",
 "harness": "h_super_and_bgd_loc2",
 "enforce": ["ext2fs_super_and_bgd_loc2"],
 "replace": ["ext2fs_bg_has_super"],
 "functions": ["lib/ext2fs/closefs.c:ext2fs_super_and_bgd_loc2"],
 "assumes": ["geometry accepted by ext2fs_open2: s_log_block_size 0..6, descriptor size 32 (no 64bit) or a power of two 64..1024 (64bit), s_blocks_per_group >= 8, fs->blocksize == 1024 << s_log_block_size",
             "s_first_data_block is 1 for 1 KiB blocks without bigalloc and 0 otherwise (what mke2fs writes and the kernel accepts)",
             "ext2fs_group_first_block2 is an oracle constrained by arithmetic consequences A1,A2 of s_first_data_block + group*s_blocks_per_group (geom_gfb.h; formula proved for the real function in geometry/group_first_block2)",
             "ext2fs_bg_has_super replaced by its contract (enforced in closefs/bg_has_super)",
             "'inside the group' is stated for the start blocks against the nominal group size s_blocks_per_group (a short last group is clipped by the callers, see reserve_super_and_bgd)"],
 "native": false
}
*/
#include "verif.h"

struct in_s {
	unsigned int log_bs, log_desc, desc_size_if_32, bpg, fdb, cluster_bits;
	unsigned int incompat_other, compat, ro_compat, bbg0, bbg1;
	unsigned int meta_bg, first_meta_bg, desc_blocks;
	unsigned short reserved_gdt;
	unsigned int group;
	unsigned char want[4];
	unsigned long long gfirst;	/* value of the group-first oracle at IN.group */
};
struct in_s IN;
#include "verif_in.h"

#include "lib/ext2fs/closefs.c"
#include "geom_gfb.h"
#include "geom_common.h"
#include "geom_contracts.h"

static void run(unsigned int log_bs, unsigned int log_desc)
{
	ext2_filsys fs;
	struct spec_geom c;
	blk64_t sup = 0xdeadbeef, old = 0xdeadbeef, new = 0xdeadbeef;
	blk_t used = 0xdeadbeef;

	geom_build(&fs, &c, log_bs, log_desc, IN.desc_size_if_32, IN.bpg, IN.fdb, IN.cluster_bits,
		   IN.incompat_other, IN.compat, IN.ro_compat, IN.bbg0, IN.bbg1, IN.meta_bg,
		   IN.first_meta_bg, IN.desc_blocks, IN.reserved_gdt);
	ASSUME(GEOM_FDB_LEGAL(IN.log_bs, IN.cluster_bits, IN.fdb));
	geom_gfb[0].g = geom_gfb[1].g = geom_gfb[2].g = IN.group;
	geom_gfb[0].v = geom_gfb[1].v = geom_gfb[2].v = IN.gfirst;
	ASSUME(geom_gfb_axioms(IN.fdb, IN.bpg));
	CHECK(geom_legal(fs), "harness builds a geometry the contract accepts");
	/* the contract's view of the configuration (geom_of) and the harness's (c) agree */
	CHECK(geom_ret_super(fs, IN.group) == spec_geom_ret_super(&c, IN.group) &&
	      geom_ret_old_desc(fs, IN.group) == spec_geom_ret_old_desc(&c, IN.group) &&
	      geom_ret_new_desc(fs, IN.group) == spec_geom_ret_new_desc(&c, IN.group) &&
	      geom_ret_used(fs, IN.group) == spec_geom_ret_used(&c, IN.group), "geom_of(fs) is the configuration the harness built");

	errcode_t r = ext2fs_super_and_bgd_loc2(fs, IN.group,
						IN.want[0] ? &sup : 0, IN.want[1] ? &old : 0,
						IN.want[2] ? &new : 0, IN.want[3] ? &used : 0);
	unsigned int g = IN.group;
	spec_u64 first = spec_geom_group_first(&c, g);

	CHECK(r == 0, "returns 0");
	if (IN.want[0]) {
		CHECK(sup == spec_geom_ret_super(&c, g), "superblock copy: first block of a backup group (block 1 for group 0 of a 1 KiB filesystem), none elsewhere");
		CHECK(sup == 0 || (sup >= first && sup < first + c.bpg), "superblock location lies inside the group");
		if (sup) REACH("has_super");
	} else
		CHECK(sup == 0xdeadbeef, "NULL ret_super_blk: nothing written");
	if (IN.want[1]) {
		CHECK(old == spec_geom_ret_old_desc(&c, g), "old-style descriptors start right after the superblock copy, only outside the meta_bg region");
		CHECK(old == 0 || (old > first && old < first + c.bpg), "old descriptor start lies inside the group");
		if (old) REACH("old_desc");
	}
	if (IN.want[2]) {
		CHECK(new == spec_geom_ret_new_desc(&c, g), "meta_bg descriptor block: first/second/last group of the meta group, after the superblock copy if any");
		CHECK(new == 0 || (new >= first && new < first + c.bpg), "meta_bg descriptor block lies inside the group");
		CHECK(new == 0 || old == 0xdeadbeef || old == 0, "a group never carries both kinds of descriptor copies");
		if (new && new == first) REACH("new_desc_nosuper");
		if (new && new != first) REACH("new_desc_super");
	}
	if (IN.want[3])
		CHECK(used == (blk_t)spec_geom_ret_used(&c, g), "used_blks = superblock + old descriptor/reserved GDT blocks, or + one meta_bg descriptor block");
	REACH("end");
}

void h_super_and_bgd_loc2(void)
{
	LOAD_IN();
	/* all 42 (block size, descriptor size) pairs at once: the code divides, the spec shifts */
	run(IN.log_bs, IN.log_desc);
}
