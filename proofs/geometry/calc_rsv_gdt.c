/* VERIF-UNIT
{
 "name": "calc_reserved_gdt_blocks",
 "props": ["C07"],
 "level": "U",
 "tier": "quick",
 "harness": "h_calc_reserved_gdt_blocks",
 "enforce": ["calc_reserved_gdt_blocks"],
 "replace": ["ext2fs_div_ceil"],
 "defines": ["VERIF_INV_INITIALIZE_GROUPS="],
 "functions": ["lib/ext2fs/initialize.c:calc_reserved_gdt_blocks"],
 "assumes": ["all 42 legal (block size, descriptor size) pairs, s_blocks_per_group >= 8, s_first_data_block <= 1, block count >= 1",
             "ext2fs_div_ceil (ext2fs.h inline, ((a-1)/b)+1) is REPLACED by a contract: the first call (number of groups of the grown filesystem, divisor s_blocks_per_group) returns an uninterpreted value NG and logs its operands, the second (divisor = descriptors per block, a power of two) is the exact ceiling written with a shift. That ((a-1)/b)+1 is the ceiling of a/b for a symbolic b is NOT proved (no back end finishes a symbolic 32-bit division checked against a product: 120 s time-outs with minisat, z3, cvc5)",
             "the statement 'the reserve covers growth to the target' is therefore: RET = min(ceil(NG / dpb) - desc_blocks, addr_per_block) with NG = div_ceil(T - s_first_data_block, s_blocks_per_group), T the growth target",
             "precondition for the subtraction: fs->desc_blocks <= ceil(NG / dpb) (ext2fs_initialize: desc_blocks describes the CURRENT size, which is <= T as long as the block count is below 2^32; misc/mke2fs.c clears resize_inode for larger filesystems). Without it the unsigned subtraction wraps and the result is clipped to addr_per_block (still within the bound, checked separately)",
             "ext2fs_blocks_count (blknum.c) is a stub returning an arbitrary 64-bit value"],
 "native": false
}
*/
/*
 * lib/ext2fs/initialize.c:calc_reserved_gdt_blocks.  From the comment / the resize_inode design (online growth by a
 * factor of 1024, never beyond 2^32 blocks, the reserved GDT blocks are addressed by ONE indirect block of the resize
 * inode):
 *   (a) RET <= EXT2_ADDR_PER_BLOCK = blocksize / 4, always;
 *   (b) the growth target T the reserve is computed for satisfies  min(1024 * B, 2^32 - 1) <= T <= 2^32 - 1;
 *   (c) RET = min(ceil(NG / dpb) - desc_blocks, addr_per_block), NG = number of groups of a T-block filesystem.
 * ghost: verif_g0 = number of ext2fs_div_ceil calls, verif_g1/verif_g2 = operands of the first, verif_g3 = NG (oracle).
 */
#include "verif.h"

struct in_s {
	unsigned int log_bs, log_desc, desc_size_if_32, bpg, fdb;
	unsigned int desc_blocks;
	unsigned long long B;
	unsigned int NG;
};
struct in_s IN;
#include "verif_in.h"

#include "lib/ext2fs/initialize.c"
#include "geom_common.h"

unsigned long long verif_k;
unsigned long long verif_g0, verif_g1, verif_g2, verif_g3;
static unsigned int g_ldpb;	/* log2(descriptors per block) of the configuration */

blk64_t ext2fs_blocks_count(struct ext2_super_block *super) { return IN.B; }

#define CEIL_SHIFT(a, l) ((a) == 0 ? 0u : ((((a) - 1u) >> (l)) + 1u))

unsigned int ext2fs_div_ceil(unsigned int a, unsigned int b)
	REQUIRES(b != 0)
	REQUIRES(verif_g0 == 0 || b == (1u << g_ldpb))
	ENSURES(verif_g0 == OLD(verif_g0) + 1)
	ENSURES(OLD(verif_g0) == 0 ? (verif_g1 == a && verif_g2 == b && RET == (unsigned int)verif_g3)
				   : (verif_g1 == OLD(verif_g1) && verif_g2 == OLD(verif_g2) && RET == CEIL_SHIFT(a, g_ldpb)))
	ASSIGNS(verif_g0, verif_g1, verif_g2);

#define SPEC_T_LOW(B) ((B) < 0x400000ULL ? (B) * 1024 : 0xffffffffULL)	/* min(1024 * B, 2^32 - 1) for B < 2^54 */
#define SPEC_NDESC (CEIL_SHIFT((unsigned int)verif_g3, g_ldpb))

static unsigned int calc_reserved_gdt_blocks(ext2_filsys fs)
	REQUIRES(verif_g0 == 0)
	ENSURES(RET <= fs->blocksize / 4)
	ENSURES(verif_g0 == 2 && verif_g2 == fs->super->s_blocks_per_group)
	ENSURES(verif_g1 + fs->super->s_first_data_block <= 0xffffffffULL &&
		verif_g1 + fs->super->s_first_data_block >= (IN.B >= 0x400000ULL ? 0xffffffffULL : IN.B * 1024))
	ENSURES(fs->desc_blocks > SPEC_NDESC ||
		RET == (SPEC_NDESC - fs->desc_blocks < fs->blocksize / 4 ? SPEC_NDESC - fs->desc_blocks : fs->blocksize / 4))
	ASSIGNS(verif_g0, verif_g1, verif_g2);

void h_calc_reserved_gdt_blocks(void)
{
	ext2_filsys fs;
	struct spec_geom c;

	LOAD_IN();
	geom_build(&fs, &c, IN.log_bs, IN.log_desc, IN.desc_size_if_32, IN.bpg, IN.fdb, 0, 0, 0, 0, 0, 0, 0, 0,
		   IN.desc_blocks, 0);
	ASSUME(IN.fdb <= 1 && IN.B >= 1);
	g_ldpb = c.ldpb;
	verif_g0 = 0;
	verif_g3 = IN.NG;

	unsigned int r = calc_reserved_gdt_blocks(fs);

	unsigned int apb = c.blocksize / 4;
	unsigned long long T = verif_g1 + IN.fdb;
	CHECK(r <= apb, "never more reserved GDT blocks than one indirect block of the resize inode addresses");
	CHECK(verif_g0 == 2 && verif_g2 == IN.bpg, "the group count of the grown filesystem is taken with the filesystem's blocks per group");
	CHECK(T <= 0xffffffffULL, "growth target never beyond 2^32 - 1 blocks");
	CHECK(T >= SPEC_T_LOW(IN.B), "growth target at least min(1024 x current size, 2^32 - 1)");
	if (IN.desc_blocks <= SPEC_NDESC) {
		unsigned int want = SPEC_NDESC - IN.desc_blocks;
		CHECK(r == (want < apb ? want : apb), "reserve = descriptor blocks of the grown filesystem - present descriptor blocks, capped");
		if (want < apb && want > 0) REACH("uncapped");
		if (want > apb) REACH("capped");
	} else
		REACH("desc_blocks_exceed_target");
	REACH("end");
}
