/* VERIF-UNIT
{
 "name": "flush2_groups",
 "props": ["C20", "C07"],
 "level": "U",
 "tier": "quick",
 "harness": "h_flush2_groups",
 "enforce": ["ext2fs_flush2"],
 "replace": ["ext2fs_super_and_bgd_loc2", "write_backup_super", "write_primary_superblock"],
 "loop_contracts": true,
 "unwind": 16,
 "unwind_reason": "no loop of the code is unwound (the group loop carries an in-place loop contract); the bound only serves the DFCC library loops, unwinding assertions on",
 "functions": ["lib/ext2fs/closefs.c:ext2fs_flush2"],
 "assumes": ["NEEDS the hook in hooks-pending/geo.diff (was b9.diff) (loop contract on the group loop of ext2fs_flush2)",
             "little-endian host; no write_bitmaps callback, no progress callbacks; fs->now set (no time() call)",
             "ext2fs_super_and_bgd_loc2 replaced by a logging contract returning ARBITRARY locations (never both an old-style and a meta_bg one: proved in super_and_bgd_loc2) and recording those reported for the ghost group; the locations themselves are unit super_and_bgd_loc2",
             "write_backup_super replaced by its frame (write_backup_super unit) + a ghost log of (group, block); write_primary_superblock replaced by an arbitrary-result contract; ext2fs_superblock_csum_set, io_channel_write_blk64 and the channel's flush are stubs (write stub classifies each write issued in the ghost group's iteration as old-style / meta_bg / unexpected)",
             "descriptor size and block size legal (ext2fs_open2); the ghost group is below group_desc_count",
             "descriptor table smaller than 4 GiB (meta_bg index * blocksize is computed in 32 bits by the code)"],
 "native": false
}
*/
/*
 * Per-group step of ext2fs_flush2, for ONE arbitrary ghost group verif_k (sound for "every group"),
 * by induction over the group loop (in-place loop contract, hooks-pending/geo.diff (was b9.diff)):
 *   verif_g0  number of write_backup_super calls for group k      verif_g1  block of that call
 *   verif_g2  number of old-style descriptor writes in k's iteration (block == reported old_desc_blk,
 *             count == min(s_first_meta_bg, desc_blocks) resp. desc_blocks, data == fs->group_desc)
 *   verif_g3  number of meta_bg descriptor writes in k's iteration (block == reported new_desc_blk,
 *             count == 1, data == fs->group_desc + (k / dpb) * blocksize)
 *   verif_g4  group of the most recent ext2fs_super_and_bgd_loc2 call
 *   verif_g5/6/7  super / old / new location reported for group k
 * Statement (flush returning 0, not a journal device):
 *   backup superblock written for k  <=>  k > 0 && location reported (<=> ext2fs_bg_has_super, unit
 *       super_and_bgd_loc2) && !EXT2_FLAG_MASTER_SB_ONLY, exactly once, at the reported block;
 *   old-style descriptors written  <=>  reported && !SUPER_ONLY && (!MASTER_SB_ONLY || k == 0), exactly once;
 *   meta_bg descriptor block written <=> reported && !SUPER_ONLY, exactly once;
 *   no other write is issued in k's iteration.
 */
#include "verif.h"

struct in_s {
	unsigned int log_bs, log_desc, desc_size_if_32, incompat_other, meta_bg, first_meta_bg;
	unsigned int desc_blocks, group_desc_count;
	int fs_flags, flush_flags;
	unsigned int k;
	long ret_choice[8];
	unsigned int now;
};
struct in_s IN;
#include "verif_in.h"

#include "lib/ext2fs/closefs.c"
#include "geom_common.h"

unsigned long long verif_k;
unsigned long long verif_g0, verif_g1, verif_g2, verif_g3, verif_g4, verif_g5, verif_g6, verif_g7;

static unsigned int g_choice;
static int g_flags0;			/* fs->flags on entry */
static unsigned long long g_old_count;	/* number of old-style descriptor blocks flush must write per copy */
static const char *g_gd;		/* fs->group_desc */
static unsigned long long g_new_off;	/* (k / dpb) * blocksize */
static unsigned int g_unexpected;	/* writes in k's iteration that are neither */

static long next_ret(void)
{
	long r = g_choice < 4 ? IN.ret_choice[g_choice] : 0;
	g_choice++;
	return r;
}

errcode_t ext2fs_superblock_csum_set(ext2_filsys fs, struct ext2_super_block *sb)
{
	return 0;
}

static errcode_t stub_flush(io_channel channel)
{
	return next_ret();
}

errcode_t io_channel_write_blk64(io_channel channel, unsigned long long block, int count, const void *data)
{
	if (verif_g4 == verif_k) {
		if (verif_g6 != 0 && block == verif_g6 && (unsigned long long)count == g_old_count && data == (const void *)g_gd)
			verif_g2++;
		else if (verif_g7 != 0 && block == verif_g7 && count == 1 && data == (const void *)(g_gd + g_new_off))
			verif_g3++;
		else
			CHECK(0, "a descriptor write in the ghost group's iteration goes to a reported location with the right count and source");
	}
	/* arbitrary result, a function of the arguments (a call counter would have to be a loop-assignable ghost) */
	return IN.ret_choice[4 + ((block + (unsigned int)count) & 3)];
}

errcode_t ext2fs_super_and_bgd_loc2(ext2_filsys fs, dgrp_t group, blk64_t *ret_super_blk,
				    blk64_t *ret_old_desc_blk, blk64_t *ret_new_desc_blk, blk_t *ret_used_blks)
	REQUIRES(ret_super_blk != 0 && ret_old_desc_blk != 0 && ret_new_desc_blk != 0 && ret_used_blks == 0)
	ENSURES(RET == 0)
	ENSURES(*ret_old_desc_blk == 0 || *ret_new_desc_blk == 0)
	ENSURES(verif_g4 == group)
	ENSURES(group == verif_k ? (verif_g5 == *ret_super_blk && verif_g6 == *ret_old_desc_blk && verif_g7 == *ret_new_desc_blk)
				 : (verif_g5 == OLD(verif_g5) && verif_g6 == OLD(verif_g6) && verif_g7 == OLD(verif_g7)))
	ASSIGNS(*ret_super_blk, *ret_old_desc_blk, *ret_new_desc_blk, verif_g4, verif_g5, verif_g6, verif_g7);

static errcode_t write_backup_super(ext2_filsys fs, dgrp_t group, blk64_t group_block,
				    struct ext2_super_block *super_shadow)
	ENSURES(group == verif_k ? (verif_g0 == OLD(verif_g0) + 1 && verif_g1 == group_block)
				 : (verif_g0 == OLD(verif_g0) && verif_g1 == OLD(verif_g1)))
	ASSIGNS(super_shadow->s_block_group_nr, super_shadow->s_checksum, verif_g0, verif_g1);

static errcode_t write_primary_superblock(ext2_filsys fs, struct ext2_super_block *super)
	REQUIRES(1)
	ENSURES(1)
	ASSIGNS();

#define F_MASTER(f) (((f) & EXT2_FLAG_MASTER_SB_ONLY) != 0)
#define F_SUPERONLY(f) (((f) & EXT2_FLAG_SUPER_ONLY) != 0)
#define EXP_SB   ((verif_g5 != 0 && verif_k != 0 && !F_MASTER(g_flags0)) ? 1u : 0u)
#define EXP_OLD  ((verif_g6 != 0 && !F_SUPERONLY(g_flags0) && (!F_MASTER(g_flags0) || verif_k == 0)) ? 1u : 0u)
#define EXP_NEW  ((verif_g7 != 0 && !F_SUPERONLY(g_flags0)) ? 1u : 0u)
#define IS_JDEV(fs) (((fs)->super->s_feature_incompat & EXT3_FEATURE_INCOMPAT_JOURNAL_DEV) != 0)

errcode_t ext2fs_flush2(ext2_filsys fs, int flags)
	REQUIRES(fs->magic == EXT2_ET_MAGIC_EXT2FS_FILSYS && fs->write_bitmaps == 0 && fs->progress_ops == 0 && fs->now != 0)
	REQUIRES(fs->group_desc != 0 && verif_k < fs->group_desc_count && g_flags0 == fs->flags)
	REQUIRES(verif_g0 == 0 && verif_g2 == 0 && verif_g3 == 0)
	ENSURES(RET != 0 || IS_JDEV(fs) || (verif_g0 == EXP_SB && (verif_g0 == 0 || verif_g1 == verif_g5)))
	ENSURES(RET != 0 || IS_JDEV(fs) || (verif_g2 == EXP_OLD && verif_g3 == EXP_NEW))
	ENSURES(!IS_JDEV(fs) || (verif_g0 == 0 && verif_g2 == 0 && verif_g3 == 0))
	/* also on failure nothing beyond the prescribed writes was issued for k */
	ENSURES(verif_g0 <= EXP_SB && verif_g2 <= EXP_OLD && verif_g3 <= EXP_NEW)
	ASSIGNS(__CPROVER_object_whole(fs), __CPROVER_object_whole(fs->super), g_choice,
		verif_g0, verif_g1, verif_g2, verif_g3, verif_g4, verif_g5, verif_g6, verif_g7);

void h_flush2_groups(void)
{
	static struct struct_ext2_filsys FS;
	static struct ext2_super_block SB;
	static struct struct_io_channel CH;
	static struct struct_io_manager MGR;
	static char GD[8];
	ext2_filsys fs = &FS;

	LOAD_IN();
	ASSUME(IN.log_bs <= 6 && IN.log_desc >= 5 && IN.log_desc <= 10);
	FS.magic = EXT2_ET_MAGIC_EXT2FS_FILSYS;
	FS.super = &SB;
	FS.io = &CH;
	CH.manager = &MGR;
	MGR.flush = stub_flush;
	FS.flags = IN.fs_flags;
	FS.now = IN.now;
	ASSUME(IN.now != 0);
	FS.blocksize = 1024u << IN.log_bs;
	FS.group_desc = (struct opaque_ext2_group_desc *)GD;
	FS.group_desc_count = IN.group_desc_count;
	FS.desc_blocks = IN.desc_blocks;
	SB.s_log_block_size = IN.log_bs;
	SB.s_feature_incompat = IN.incompat_other & ~(EXT4_FEATURE_INCOMPAT_64BIT | EXT2_FEATURE_INCOMPAT_META_BG);
	if (IN.log_desc == 5)
		SB.s_desc_size = IN.desc_size_if_32;
	else {
		SB.s_feature_incompat |= EXT4_FEATURE_INCOMPAT_64BIT;
		SB.s_desc_size = 1u << IN.log_desc;
	}
	if (IN.meta_bg)
		SB.s_feature_incompat |= EXT2_FEATURE_INCOMPAT_META_BG;
	SB.s_first_meta_bg = IN.first_meta_bg;

	ASSUME(IN.k < IN.group_desc_count);
	verif_k = IN.k;
	verif_g0 = verif_g2 = verif_g3 = 0;
	g_choice = 0;
	g_flags0 = FS.flags;
	g_gd = GD;
	/* what the format prescribes per old-style copy: the first s_first_meta_bg descriptor blocks with meta_bg
	 * (all of them if there are fewer), every descriptor block without */
	g_old_count = IN.meta_bg ? (IN.first_meta_bg < IN.desc_blocks ? IN.first_meta_bg : IN.desc_blocks) : IN.desc_blocks;
	unsigned int ldpb = IN.log_bs + 10 - IN.log_desc;
	g_new_off = (unsigned long long)(IN.k >> ldpb) << (10 + IN.log_bs);
	ASSUME(((unsigned long long)IN.desc_blocks << (10 + IN.log_bs)) < 0x100000000ULL && (IN.k >> ldpb) < IN.desc_blocks);

	errcode_t r = ext2fs_flush2(fs, IN.flush_flags);

	if (r == 0 && !IS_JDEV(fs)) {
		CHECK(verif_g0 == EXP_SB, "backup superblock written for k iff k > 0, the group has one and !MASTER_SB_ONLY (exactly once)");
		CHECK(verif_g0 == 0 || verif_g1 == verif_g5, "backup superblock goes to the group's superblock location");
		CHECK(verif_g2 == EXP_OLD, "old-style descriptors written iff the group carries them, !SUPER_ONLY and (!MASTER_SB_ONLY or group 0)");
		CHECK(verif_g3 == EXP_NEW, "meta_bg descriptor block written iff the group carries one and !SUPER_ONLY");
		if (verif_g0) REACH("backup_sb_written");
		if (verif_g2) REACH("old_desc_written");
		if (verif_g3) REACH("new_desc_written");
		if (verif_g5 && !verif_g0) REACH("backup_sb_suppressed");
		REACH("ok");
	}
	if (IS_JDEV(fs))
		CHECK(verif_g0 == 0 && verif_g2 == 0 && verif_g3 == 0, "journal device: no group writes");
	REACH("end");
}
