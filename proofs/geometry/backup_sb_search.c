/* VERIF-UNIT
{
 "name": "get_backup_sb",
 "props": ["C20"],
 "level": "U/iter",
 "tier": "wip",
 "harness": "h_get_backup_sb",
 "includes": ["e2fsck", "lib/support"],
 "loop_contracts": true,
 "unwind": 16,
 "unwindset": {"get_backup_sb.0": 8},
 "unwind_reason": "outer loop: the block size doubles from >= 1024 while <= 65536 (EXT2_MAX_BLOCK_SIZE): at most 7 iterations, unwound 8 with unwinding assertions (level U/k); the inner group loop carries an in-place loop contract (named anchor VERIF_INV_GET_BACKUP_SB_GROUPS, text below) and is CUT: the statement holds per iteration, termination of the inner loop is not claimed; 16 serves the DFCC library loops over the assigns targets",
 "functions": ["e2fsck/util.c:get_backup_sb"],
 "assumes": ["NEEDS the hook in hooks-pending/geo.diff (named loop anchor VERIF_INV_GET_BACKUP_SB_GROUPS) and the empty default for that name in include/e2fsprogs_verif.h (pass2/check_filetype links e2fsck/util.c too)",
             "call sites (e2fsck/unix.c, e2fsck/message.c): ctx is non-NULL whenever name and manager are (message.c passes NULL, NULL, NULL and only wants the 8193 default)",
             "ctx->blocksize (e2fsck -B) is 0 or a legal block size 1024 << n, n <= 6; fs->blocksize likewise; otherwise blocksize * 8 and the divisions by it are symbolic",
             "ext2fs_list_backups is a stub returning an ARBITRARY group (its enumeration = exactly the backup groups of the format is unit geometry/list_backups); the stub checks it is called with fs == NULL (sparse_super sequence) ",
             "io manager (open, set_blksize, close), io_channel_read_blk64, ext2fs_get_device_size2, ext2fs_blocks_count are stubs; the superblock read for a candidate is an arbitrary (magic, s_log_block_size) pair chosen per block size tried; little-endian host",
             "the product grp * blocks_per_group is compared with the same product formed in the read stub (one multiplier on each side with identical operands)"],
 "native": false
}
*/
/*
 * e2fsck/util.c:get_backup_sb — where e2fsck looks for a backup superblock when the primary is unusable.
 * From the format: backup superblocks sit in the first block of their group, group g starts at block
 * s_first_data_block + g * blocks_per_group, and s_first_data_block is 1 exactly for 1 KiB blocks; a superblock is
 * recognised by s_magic == 0xEF53 and must describe the block size it was found with.
 *   - every probe reads SUPERBLOCK_SIZE bytes at block grp * blocks_per_group (+1 for 1 KiB blocks), grp being the
 *     latest answer of ext2fs_list_backups, blocks_per_group the filesystem's if known, else the default 8 * blocksize,
 *     with the channel's block size set to the size being tried;
 *   - the answer is 8193 (the documented fallback) or the block of a probe whose read succeeded and returned a valid
 *     magic and s_log_block_size matching the size being tried; then ctx->superblock / ctx->blocksize are set to it,
 *     otherwise they are unchanged;
 *   - without a name / manager nothing is opened; an opened channel is closed exactly once.
 */
#include "verif.h"

struct in_s {
	unsigned char have_fs, have_fs_super, have_ctx, have_name, have_mgr;
	unsigned int ctx_log_bs_plus1, fs_log_bs, fs_bpg;	/* ctx->blocksize = 0 or 1024 << (x - 1) */
	unsigned long long ctx_superblock;
	unsigned long long blocks_count, dev_size[8];
	long open_ret, devsize_ret[8], read_ret[8];
	unsigned int grp[8];
	unsigned short magic[8];
	unsigned int log_bs[8];
};
struct in_s IN;
#include "verif_in.h"

unsigned long long verif_k;

static struct {
	unsigned int slot;		/* number of block sizes tried so far (set_blksize calls) */
	unsigned int bs;		/* block size being tried */
	unsigned int this_bpg;		/* blocks per group the candidates must be computed with */
	unsigned int grp;		/* latest answer of ext2fs_list_backups */
	unsigned int reads, bad_probe;	/* probes; probes at a wrong block / with a wrong size argument */
	unsigned long long last_blk;	/* block of the latest probe */
	int last_ok;			/* latest probe: read succeeded, magic valid, block size matches */
	unsigned int opens, closes;
	unsigned long long sb0;		/* ctx->superblock on entry */
	unsigned int bs0;		/* ctx->blocksize on entry */
	unsigned int list_with_fs;
} G;

/* text of the named loop anchor in e2fsck/util.c (group loop of get_backup_sb) */
#define VERIF_INV_GET_BACKUP_SB_GROUPS \
	__CPROVER_assigns(grp, three, five, seven, ret_sb, __CPROVER_object_whole(buf), ctx->superblock, ctx->blocksize, \
			  G.grp, G.reads, G.bad_probe, G.last_blk, G.last_ok, G.list_with_fs) \
	__CPROVER_loop_invariant(ret_sb == 8193) \
	__CPROVER_loop_invariant(ctx->superblock == G.sb0 && ctx->blocksize == G.bs0) \
	__CPROVER_loop_invariant(G.bad_probe == 0 && G.list_with_fs == 0)

#include "e2fsck/util.c"

static struct struct_io_channel CH;
static struct struct_io_manager MGR;
static struct struct_ext2_filsys FS;
static struct ext2_super_block SB;
static struct e2fsck_struct CTX;

static errcode_t stub_open(const char *name, int flags, io_channel *channel)
{
	if (IN.open_ret)
		return IN.open_ret;
	G.opens++;
	CH.manager = &MGR;
	*channel = &CH;
	return 0;
}
static errcode_t stub_close(io_channel channel) { G.closes++; return 0; }
static errcode_t stub_set_blksize(io_channel channel, int blksize)
{
	G.slot++;
	G.bs = (unsigned int)blksize;
	G.this_bpg = (IN.have_fs && IN.have_fs_super && IN.fs_bpg) ? IN.fs_bpg : G.bs * 8;
	return 0;
}
dgrp_t ext2fs_list_backups(ext2_filsys fs, dgrp_t *three, dgrp_t *five, dgrp_t *seven)
{
	if (fs)
		G.list_with_fs++;
	G.grp = IN.grp[G.slot & 7];
	return G.grp;
}
errcode_t io_channel_read_blk64(io_channel channel, unsigned long long block, int count, void *data)
{
	struct ext2_super_block *sb = data;
	unsigned int s = G.slot & 7;

	G.reads++;
	G.last_blk = block;
	if (channel != &CH || count != -SUPERBLOCK_SIZE ||
	    block != (unsigned long long)G.grp * G.this_bpg + (G.bs == 1024 ? 1 : 0))
		G.bad_probe++;
	G.last_ok = 0;
	if (IN.read_ret[s])
		return IN.read_ret[s];
	sb->s_magic = IN.magic[s];
	sb->s_log_block_size = IN.log_bs[s];
	G.last_ok = IN.magic[s] == 0xEF53 && IN.log_bs[s] <= 6 && (1024u << IN.log_bs[s]) == G.bs;
	return 0;
}
blk64_t ext2fs_blocks_count(struct ext2_super_block *super) { return IN.blocks_count; }
errcode_t ext2fs_get_device_size2(const char *file, int blocksize, blk64_t *retblocks)
{
	if (IN.devsize_ret[G.slot & 7])
		return IN.devsize_ret[G.slot & 7];
	*retblocks = IN.dev_size[G.slot & 7];
	return 0;
}

void h_get_backup_sb(void)
{
	LOAD_IN();
	memset(&FS, 0, sizeof(FS));
	memset(&SB, 0, sizeof(SB));
	memset(&CTX, 0, sizeof(CTX));
	memset(&G, 0, sizeof(G));
	MGR.open = stub_open;
	MGR.close = stub_close;
	MGR.set_blksize = stub_set_blksize;
	ASSUME(IN.fs_log_bs <= 6 && IN.ctx_log_bs_plus1 <= 7);
	FS.blocksize = 1024u << IN.fs_log_bs;
	FS.super = IN.have_fs_super ? &SB : 0;
	SB.s_blocks_per_group = IN.fs_bpg;
	CTX.blocksize = IN.ctx_log_bs_plus1 ? 1024u << (IN.ctx_log_bs_plus1 - 1) : 0;
	CTX.superblock = IN.ctx_superblock;
	CTX.filesystem_name = "d";
	/* call sites: a name and a manager come with a context */
	ASSUME(IN.have_ctx || !(IN.have_name && IN.have_mgr));
	G.sb0 = CTX.superblock;
	G.bs0 = CTX.blocksize;

	blk64_t r = get_backup_sb(IN.have_ctx ? &CTX : 0, IN.have_fs ? &FS : 0, IN.have_name ? "d" : 0,
				  IN.have_mgr ? &MGR : 0);

	CHECK(G.bad_probe == 0, "every probe reads SUPERBLOCK_SIZE bytes at grp * blocks_per_group (+1 for 1 KiB blocks), grp from ext2fs_list_backups");
	CHECK(G.list_with_fs == 0, "the candidate groups are the sparse_super sequence (ext2fs_list_backups(NULL, ...))");
	CHECK(G.opens == G.closes && G.opens <= 1, "the channel is closed exactly once if it was opened");
	if (!IN.have_name || !IN.have_mgr)
		CHECK(r == 8193 && G.opens == 0 && G.reads == 0, "without a device name / manager: fallback, no I/O");
	if (r != 8193) {
		CHECK(G.reads > 0 && r == G.last_blk && G.last_ok, "a candidate is accepted only if its read succeeded with a valid magic and a block size equal to the one tried");
		CHECK(CTX.superblock == r && CTX.blocksize == G.bs, "the accepted location and block size are recorded in the context");
		CHECK(G.bs >= 1024 && G.bs <= 65536, "accepted with a legal block size");
		if (G.bs == 1024) REACH("accepted_1k");
		if (G.bs == 4096 && G.slot == 3) REACH("accepted_4k_after_two_sizes");
		if (IN.have_fs && IN.have_fs_super && IN.fs_bpg != 0 && IN.fs_bpg != 8 * G.bs) REACH("accepted_nondefault_group_size");
	} else if (IN.have_ctx && !(G.reads > 0 && G.last_blk == 8193 && G.last_ok))
		CHECK(CTX.superblock == G.sb0 && CTX.blocksize == G.bs0, "fallback answer: the context is unchanged");
	if (r == 8193 && G.reads > 0) REACH("fallback_after_probing");
	if (G.slot == 7) REACH("all_seven_block_sizes");
	REACH("end");
}
