/* VERIF-UNIT
{
 "name": "get_backup_sb_default",
 "props": ["C20"],
 "level": "B(2)",
 "tier": "quick",
 "harness": "h_get_backup_sb_default",
 "includes": ["e2fsck", "lib/support"],
 "unwind": 9,
 "unwindset": {"get_backup_sb.0": 4},
 "cbmc_flags": ["--object-bits", "12"],
 "unwind_reason": "outer loop: the block size doubles from >= 1024 while <= 65536 (EXT2_MAX_BLOCK_SIZE): at most 7 iterations, complete (unwinding assertions on). Inner group loop: BOUNDED STAND-IN, the ext2fs_list_backups stub hands out at most 2 arbitrary candidate groups per block size and then reports the end of the sequence, so the loop runs at most 3 times; the loop body keeps no state between candidates (it either accepts and leaves or continues), so the per-probe statement does not depend on the number of earlier probes, but this is an argument, not a proof: level B(2)",
 "functions": ["e2fsck/util.c:get_backup_sb"],
 "assumes": ["why not U/iter: CBMC 6.11 loop contracts need a contract on BOTH nested loops, and goto-instrument then aborts on this function (dfcc_instrument_loop.cpp:625 'Exiting instructions must be GOTOs'); a contract on the inner loop alone is instrumented but its frame check fails against the uncontracted outer loop. No hook is needed for this unit",
             "call sites (e2fsck/unix.c, e2fsck/message.c): ctx is non-NULL whenever name and manager are (message.c passes NULL, NULL, NULL and only wants the 8193 default)",
             "this unit: the filesystem handle is absent or has no superblock (the primary superblock was unusable: the usual situation), so the group size is the default 8 * blocksize; ctx->blocksize is 0 (no -B): all seven sizes are tried, each with constants so that products and quotients fold; -B is unit get_backup_sb_B; the known-group-size case is unit get_backup_sb_fs",
             "ext2fs_list_backups is a stub returning ARBITRARY groups (its enumeration = exactly the backup groups of the format is unit geometry/list_backups), at most two per block size; the stub checks it is called with fs == NULL (sparse_super sequence)",
             "the device has fewer than 2^32 - 1 groups of the size tried (otherwise the 32-bit 'limit' can be 0xffffffff and the real loop does not terminate once ext2fs_list_backups is exhausted: observation, not pursued)",
             "the candidate blocks carry s_log_block_size <= 15: EXT2_BLOCK_SIZE(sb) = (1 << 10) << s_log_block_size is evaluated on the raw on-disk value BEFORE any validation, which is undefined for values >= 21 (observation unit get_backup_sb_wild_log; on x86 the shift count is taken modulo 32, so a block with magic 0xEF53 and s_log_block_size == 32 is accepted as a 1 KiB superblock)",
             "io manager (open, set_blksize, close), io_channel_read_blk64, ext2fs_get_device_size2, ext2fs_blocks_count are stubs; the superblock read for a candidate is an arbitrary (magic, s_log_block_size) pair per probe; little-endian host"],
 "native": false
}
*/
/* VERIF-UNIT
{
 "name": "get_backup_sb_B",
 "props": ["C20"],
 "level": "B(2)",
 "tier": "thorough",
 "harness": "h_get_backup_sb_B",
 "includes": ["e2fsck", "lib/support"],
 "unwind": 9,
 "unwindset": {"get_backup_sb.0": 4},
 "cbmc_flags": ["--object-bits", "12"],
 "unwind_reason": "outer loop: the block size doubles from >= 1024 while <= 65536 (EXT2_MAX_BLOCK_SIZE): at most 7 iterations, complete (unwinding assertions on). Inner group loop: BOUNDED STAND-IN, the ext2fs_list_backups stub hands out at most 2 arbitrary candidate groups per block size and then reports the end of the sequence, so the loop runs at most 3 times; the loop body keeps no state between candidates (it either accepts and leaves or continues), so the per-probe statement does not depend on the number of earlier probes, but this is an argument, not a proof: level B(2)",
 "functions": ["e2fsck/util.c:get_backup_sb"],
 "assumes": ["why not U/iter: CBMC 6.11 loop contracts need a contract on BOTH nested loops, and goto-instrument then aborts on this function (dfcc_instrument_loop.cpp:625 'Exiting instructions must be GOTOs'); a contract on the inner loop alone is instrumented but its frame check fails against the uncontracted outer loop. No hook is needed for this unit",
             "call sites (e2fsck/unix.c, e2fsck/message.c): ctx is non-NULL whenever name and manager are (message.c passes NULL, NULL, NULL and only wants the 8193 default)",
             "this unit: the filesystem handle is absent or has no superblock (the primary superblock was unusable: the usual situation), so the group size is the default 8 * blocksize; ctx->blocksize (e2fsck -B) is a legal block size 1024 << n, n <= 6 (seven cases run with constants so that products and quotients fold); only that size is tried; the known-group-size case is unit get_backup_sb_fs",
             "ext2fs_list_backups is a stub returning ARBITRARY groups (its enumeration = exactly the backup groups of the format is unit geometry/list_backups), at most two per block size; the stub checks it is called with fs == NULL (sparse_super sequence)",
             "the device has fewer than 2^32 - 1 groups of the size tried (otherwise the 32-bit 'limit' can be 0xffffffff and the real loop does not terminate once ext2fs_list_backups is exhausted: observation, not pursued)",
             "the candidate blocks carry s_log_block_size <= 15: EXT2_BLOCK_SIZE(sb) = (1 << 10) << s_log_block_size is evaluated on the raw on-disk value BEFORE any validation, which is undefined for values >= 21 (observation unit get_backup_sb_wild_log; on x86 the shift count is taken modulo 32, so a block with magic 0xEF53 and s_log_block_size == 32 is accepted as a 1 KiB superblock)",
             "io manager (open, set_blksize, close), io_channel_read_blk64, ext2fs_get_device_size2, ext2fs_blocks_count are stubs; the superblock read for a candidate is an arbitrary (magic, s_log_block_size) pair per probe; little-endian host"],
 "native": false
}
*/
/* VERIF-UNIT
{
 "name": "get_backup_sb_fs",
 "props": ["C20"],
 "level": "B(2)",
 "tier": "quick",
 "harness": "h_get_backup_sb_fs",
 "includes": ["e2fsck", "lib/support"],
 "unwind": 9,
 "unwindset": {"get_backup_sb.0": 4},
 "cbmc_flags": ["--object-bits", "12"],
 "unwind_reason": "as get_backup_sb_default; the block size is known, the outer loop runs once",
 "functions": ["e2fsck/util.c:get_backup_sb"],
 "assumes": ["as get_backup_sb_default, but the filesystem handle has a superblock (descriptors looked bad): block size known (fs->blocksize or ctx->blocksize, each 1024 << n, n <= 6), s_blocks_per_group a power of two >= 8 (the mke2fs default 8 * blocksize is one; mke2fs -g accepts any multiple of 8: NOT covered, with an arbitrary value the comparison of the candidate block with a second instance of the symbolic product grp * s_blocks_per_group does not finish in 200 s)"],
 "native": false
}
*/
/* VERIF-UNIT
{
 "name": "get_backup_sb_wild_log",
 "props": ["C20"],
 "level": "B(2)",
 "tier": "obs",
 "harness": "h_get_backup_sb_wild_log",
 "includes": ["e2fsck", "lib/support"],
 "unwind": 9,
 "unwindset": {"get_backup_sb.0": 4},
 "cbmc_flags": ["--object-bits", "12"],
 "unwind_reason": "as get_backup_sb_default",
 "functions": ["e2fsck/util.c:get_backup_sb"],
 "assumes": ["as get_backup_sb_default (no -B), but a candidate block may carry ANY s_log_block_size (EXPECTED TO FAIL: undefined shift in EXT2_BLOCK_SIZE(sb) on unvalidated on-disk data; the backup is by assumption of C20 a valid superblock, so this is a robustness observation, not a C20 violation)"],
 "native": false
}
*/
/*
 * e2fsck/util.c:get_backup_sb — where e2fsck looks for a backup superblock when the primary is unusable.
 * From the format: backup superblocks sit in the first block of their group, group g starts at block
 * s_first_data_block + g * blocks_per_group, and s_first_data_block is 1 exactly for 1 KiB blocks; a superblock is
 * recognised by s_magic == 0xEF53 and must describe the block size it was found with.
 *   - every probe reads SUPERBLOCK_SIZE bytes at block grp * blocks_per_group (+1 for 1 KiB blocks), grp being the
 *     latest answer of ext2fs_list_backups, blocks_per_group the filesystem's if known, else the default 8 * blocksize,
 *     with the channel's block size set to the size being tried;
 *   - block sizes are tried in the order 1 KiB, 2 KiB, ... 64 KiB (only the given one if it is known);
 *   - the answer is 8193 (the documented fallback) or the block of a probe whose read succeeded and returned a valid
 *     magic and s_log_block_size matching the size being tried; then ctx->superblock / ctx->blocksize are set to it,
 *     otherwise they are unchanged;
 *   - without a name / manager nothing is opened; an opened channel is closed exactly once.
 */
#include "verif.h"

#define NPROBE 2
struct in_s {
	unsigned char have_fs, have_fs_super, have_ctx, have_name, have_mgr;
	unsigned int ctx_log_bs_plus1, fs_log_bs, fs_bpg;	/* ctx->blocksize = 0 or 1024 << (x - 1) */
	unsigned long long ctx_superblock;
	unsigned int blocks_count, dev_size[8];
	long open_ret, devsize_ret[8], read_ret[8][NPROBE];
	unsigned int grp[8][NPROBE];
	unsigned short magic[8][NPROBE];
	unsigned int log_bs[8][NPROBE];
};
struct in_s IN;
#include "verif_in.h"

unsigned long long verif_k;

static struct {
	unsigned int slot;		/* number of block sizes tried so far (set_blksize calls) */
	unsigned int bs;		/* block size being tried */
	unsigned int this_bpg;		/* blocks per group the candidates must be computed with */
	unsigned int bad_order;		/* a block size was tried out of the 1 KiB, 2 KiB, ... order */
	unsigned int calls;		/* ext2fs_list_backups calls for the current block size */
	unsigned int grp;		/* latest answer of ext2fs_list_backups */
	unsigned int probe;		/* index of the latest probe for the current block size */
	unsigned int reads, bad_probe;	/* probes; probes at a wrong block / with a wrong size argument */
	unsigned long long last_blk;	/* block of the latest probe */
	int last_ok;			/* latest probe: read succeeded, magic valid, block size matches */
	unsigned int opens, closes, list_with_fs;
	unsigned long long sb0;		/* ctx->superblock on entry */
	unsigned int bs0;		/* ctx->blocksize on entry */
	unsigned int first_bs;		/* block size the search must start with */
} G;

#include "e2fsck/util.c"

static struct struct_io_channel CH;
static struct struct_io_manager MGR;
static struct struct_ext2_filsys FS;
static struct ext2_super_block SB;
static struct e2fsck_struct CTX;
/* s_log_block_size values the candidate blocks may carry: 0..15 (0xf) in the proved units, any 32-bit value in the observation unit */
static unsigned int g_log_mask = 0xf;

static errcode_t stub_open(const char *name, int flags, io_channel *channel)
{
	if (IN.open_ret)
		return IN.open_ret;
	G.opens++;
	CH.manager = &MGR;
	*channel = &CH;
	return 0;
}
static errcode_t stub_close(io_channel channel) { G.closes++; return 0; }
static errcode_t stub_set_blksize(io_channel channel, int blksize)
{
	if ((unsigned int)blksize != (G.slot == 0 ? G.first_bs : G.bs * 2))
		G.bad_order++;
	G.slot++;
	G.bs = (unsigned int)blksize;
	G.this_bpg = (IN.have_fs && IN.have_fs_super && IN.fs_bpg) ? IN.fs_bpg : G.bs * 8;
	G.calls = 0;
	return 0;
}
dgrp_t ext2fs_list_backups(ext2_filsys fs, dgrp_t *three, dgrp_t *five, dgrp_t *seven)
{
	if (fs)
		G.list_with_fs++;
	if (G.calls >= NPROBE) {
		G.grp = 0xffffffffu;	/* end of the sequence */
		return G.grp;
	}
	G.probe = G.calls;
	G.grp = IN.grp[G.slot & 7][G.calls++];
	return G.grp;
}
errcode_t io_channel_read_blk64(io_channel channel, unsigned long long block, int count, void *data)
{
	struct ext2_super_block *sb = data;
	unsigned int s = G.slot & 7, p = G.probe < NPROBE ? G.probe : 0;

	G.reads++;
	G.last_blk = block;
	if (channel != &CH || count != -SUPERBLOCK_SIZE ||
	    block != (unsigned long long)G.grp * G.this_bpg + (G.bs == 1024 ? 1 : 0))
		G.bad_probe++;
	G.last_ok = 0;
	if (IN.read_ret[s][p])
		return IN.read_ret[s][p];
	sb->s_magic = IN.magic[s][p];
	sb->s_log_block_size = IN.log_bs[s][p] & g_log_mask;
	G.last_ok = IN.magic[s][p] == 0xEF53 && (IN.log_bs[s][p] & g_log_mask) <= 6 &&
		    (1024u << (IN.log_bs[s][p] & g_log_mask)) == G.bs;
	return 0;
}
blk64_t ext2fs_blocks_count(struct ext2_super_block *super) { return IN.blocks_count; }
errcode_t ext2fs_get_device_size2(const char *file, int blocksize, blk64_t *retblocks)
{
	if (IN.devsize_ret[G.slot & 7])
		return IN.devsize_ret[G.slot & 7];
	*retblocks = IN.dev_size[G.slot & 7];
	return 0;
}

static void run(int with_fs_super, unsigned int ctx_bs, unsigned int log_mask)
{
	g_log_mask = log_mask;
	memset(&FS, 0, sizeof(FS));
	memset(&SB, 0, sizeof(SB));
	memset(&CTX, 0, sizeof(CTX));
	memset(&G, 0, sizeof(G));
	MGR.open = stub_open;
	MGR.close = stub_close;
	MGR.set_blksize = stub_set_blksize;
	FS.blocksize = 1024u << IN.fs_log_bs;
	FS.super = with_fs_super ? &SB : 0;
	ASSUME((IN.have_fs_super != 0) == (with_fs_super != 0));
	ASSUME(!with_fs_super || (IN.have_fs && IN.fs_bpg != 0));
	SB.s_blocks_per_group = IN.fs_bpg;
	CTX.blocksize = ctx_bs;
	CTX.superblock = IN.ctx_superblock;
	CTX.filesystem_name = "d";
	/* call sites: a name and a manager come with a context */
	ASSUME(IN.have_ctx || !(IN.have_name && IN.have_mgr));
	G.sb0 = CTX.superblock;
	G.bs0 = CTX.blocksize;
	G.first_bs = (IN.have_ctx && ctx_bs) ? ctx_bs : (IN.have_fs && with_fs_super) ? FS.blocksize : 1024;

	blk64_t r = get_backup_sb(IN.have_ctx ? &CTX : 0, IN.have_fs ? &FS : 0, IN.have_name ? "d" : 0,
				  IN.have_mgr ? &MGR : 0);

	CHECK(G.bad_probe == 0, "every probe reads SUPERBLOCK_SIZE bytes at grp * blocks_per_group (+1 for 1 KiB blocks), grp from ext2fs_list_backups");
	CHECK(G.bad_order == 0, "block sizes are tried in doubling order starting with the known size or 1 KiB");
	CHECK(G.list_with_fs == 0, "the candidate groups are the sparse_super sequence (ext2fs_list_backups(NULL, ...))");
	CHECK(G.opens == G.closes && G.opens <= 1, "the channel is closed exactly once if it was opened");
	if (!IN.have_name || !IN.have_mgr)
		CHECK(r == 8193 && G.opens == 0 && G.reads == 0, "without a device name / manager: fallback, no I/O");
	if (r != 8193) {
		CHECK(G.reads > 0 && r == G.last_blk && G.last_ok, "a candidate is accepted only if its read succeeded with a valid magic and a block size equal to the one tried");
		CHECK(CTX.superblock == r && CTX.blocksize == G.bs, "the accepted location and block size are recorded in the context");
		CHECK(G.bs >= 1024 && G.bs <= 65536, "accepted with a legal block size");
		if (G.bs == 1024) REACH("accepted_1k");
#if defined(VERIF_UNIT_get_backup_sb_default) || defined(VERIF_UNIT_get_backup_sb_wild_log)
		if (G.bs == 4096 && G.slot == 3) REACH("accepted_4k_after_two_sizes");
#elif defined(VERIF_UNIT_get_backup_sb_B)
		if (G.bs == 4096 && G.slot == 1) REACH("accepted_4k_given");
#else
		if (IN.fs_bpg != 8 * G.bs) REACH("accepted_nondefault_group_size");
#endif
	} else {
		if (IN.have_ctx && !(G.reads > 0 && G.last_blk == 8193 && G.last_ok))
			CHECK(CTX.superblock == G.sb0 && CTX.blocksize == G.bs0, "fallback answer: the context is unchanged");
		if (G.slot > 0 && !(ctx_bs || with_fs_super) && !(G.reads > 0 && G.last_blk == 8193 && G.last_ok))
			CHECK(G.slot == 7 && G.bs == 65536, "nothing accepted and block size unknown: all seven block sizes were tried");
	}
	if (r == 8193 && G.reads > 0) REACH("fallback_after_probing");
#if defined(VERIF_UNIT_get_backup_sb_default) || defined(VERIF_UNIT_get_backup_sb_wild_log)
	if (G.slot == 7) REACH("all_seven_block_sizes");
#endif
	REACH("end");
}

void h_get_backup_sb_default(void)
{
	LOAD_IN();
	ASSUME(IN.fs_log_bs <= 6 && IN.ctx_log_bs_plus1 <= 7);
	ASSUME(IN.ctx_log_bs_plus1 == 0);
	run(0, 0, 0xf);
}

void h_get_backup_sb_B(void)
{
	LOAD_IN();
	ASSUME(IN.fs_log_bs <= 6 && IN.ctx_log_bs_plus1 >= 1 && IN.ctx_log_bs_plus1 <= 7);
	/* seven cases with a constant ctx->blocksize */
	switch (IN.ctx_log_bs_plus1) {
	case 1: run(0, 1024, 0xf); break;
	case 2: run(0, 2048, 0xf); break;
	case 3: run(0, 4096, 0xf); break;
	case 4: run(0, 8192, 0xf); break;
	case 5: run(0, 16384, 0xf); break;
	case 6: run(0, 32768, 0xf); break;
	default: run(0, 65536, 0xf); break;
	}
}

void h_get_backup_sb_fs(void)
{
	LOAD_IN();
	ASSUME(IN.fs_log_bs <= 6 && IN.ctx_log_bs_plus1 <= 7);
	/* s_blocks_per_group a power of two (see assumes) */
	ASSUME(IN.fs_bpg >= 8 && (IN.fs_bpg & (IN.fs_bpg - 1)) == 0);
	run(1, IN.ctx_log_bs_plus1 ? 1024u << (IN.ctx_log_bs_plus1 - 1) : 0, 0xf);
}

void h_get_backup_sb_wild_log(void)
{
	LOAD_IN();
	ASSUME(IN.fs_log_bs <= 6 && IN.ctx_log_bs_plus1 == 0);
	run(0, 0, 0xffffffffu);
}
