/* VERIF-UNIT
{
 "name": "desc_loc_agreement",
 "props": ["C20", "C07"],
 "level": "U",
 "tier": "quick",
 "harness": "h_agree",
 "enforce": ["ext2fs_descriptor_block_loc2"],
 "replace": ["ext2fs_bg_has_super"],
 "sources": ["lib/ext2fs/openfs.c"],
 "functions": ["lib/ext2fs/openfs.c:ext2fs_descriptor_block_loc2", "lib/ext2fs/closefs.c:ext2fs_super_and_bgd_loc2"],
 "assumes": ["geometry accepted by ext2fs_open2 (see super_and_bgd_loc2); NOT (1 KiB blocks with bigalloc): that configuration is unit desc_loc_agreement_1k_bigalloc",
             "at least 2 descriptors per block (block size 1024 with 1024-byte descriptors has one-group meta groups: no second group, see the file comment)",
             "ext2fs_group_first_block2 is an oracle constrained by the arithmetic consequences A1..A5 of s_first_data_block + group*s_blocks_per_group (geom_gfb.h); A1, A2 and the formula are proved for the real function (group_first_axioms, group_first_block2), A3 F(g+1)=F(g)+bpg and A4 monotonicity are integer-arithmetic facts no back end discharges on the 64-bit product",
             "ext2fs_blocks_count is a stub returning an arbitrary 64-bit value; 'group exists' is 'its first block is below the block count'",
             "ext2fs_bg_has_super replaced by its contract (enforced in closefs/bg_has_super)",
             "old-style part: the backup group the filesystem is opened from lies outside the meta_bg region (by format, groups inside it carry no copy of the first s_first_meta_bg descriptor blocks)",
             "i < desc_blocks and group i*dpb exists, first group of meta group i below 2^31 (int bg in the reader)"],
 "native": false
}
*/
/* VERIF-UNIT
{
 "name": "desc_loc_agreement_1k_bigalloc",
 "props": ["C20", "C07"],
 "level": "U",
 "tier": "quick",
 "harness": "h_agree_1k_bigalloc",
 "enforce": ["ext2fs_descriptor_block_loc2"],
 "replace": ["ext2fs_bg_has_super"],
 "sources": ["lib/ext2fs/openfs.c"],
 "functions": ["lib/ext2fs/openfs.c:ext2fs_descriptor_block_loc2", "lib/ext2fs/closefs.c:ext2fs_super_and_bgd_loc2"],
 "assumes": ["as desc_loc_agreement, for 1 KiB blocks WITH bigalloc (s_first_data_block == 0)"],
 "native": false
}
*/
/*
 * WRITER/READER AGREEMENT (C20 core).
 *
 * Writer: closefs.c:ext2fs_flush2 writes, for every group h, the old-style descriptor blocks
 *   0..n-1 to old_desc_blk(h)+0..n-1 and the meta_bg descriptor block (h / dpb) to new_desc_blk(h),
 *   both taken from the REAL ext2fs_super_and_bgd_loc2 (called here unmodified).
 * Reader: openfs.c:ext2fs_descriptor_block_loc2(fs, group_block, i) (REAL, second TU), with
 *   group_block as ext2fs_open2 passes it: s_first_data_block when opened from the primary,
 *   the block number of the backup superblock (-b) otherwise.
 *
 * Lemma: the reader's block is a block into which the writer puts descriptor block i:
 *   old-style i:  reader == old_desc_blk(g0) + i      (g0 = group the filesystem is opened from)
 *   meta_bg i:    reader == new_desc_blk(h) != 0, h / dpb == i, h = first group of meta group i when
 *                 opened from the primary, h = second group when opened from a backup and that
 *                 group exists (has_super recomputed for h on both sides).
 * The contract of the reader is the same statement against specs/spec_geom.h.
 *
 * FINDINGS on the unchanged tree (unit desc_loc_agreement_1k_bigalloc stays wip, see report):
 *   with 1 KiB blocks + bigalloc the reader adds its group_zero_adjust for descriptor-block INDEX 0
 *   instead of for GROUP 0: (a) old-style, opened from primary, i >= 1: reader = i+1, writer = i+2;
 *   (b) old-style, opened from backup group g, i == 0: reader = first(g)+2, writer = first(g)+1;
 *   (c) meta_bg, s_first_meta_bg == 0, opened from a backup, i == 0: reader = first(1)+2, writer first(1)+1.
 * Not a finding, but a limit of the lemma: dpb == 1 (the "second group" is the next meta group).
 */
#include "verif.h"

struct in_s {
	unsigned int log_bs, log_desc, desc_size_if_32, bpg, fdb, cluster_bits;
	unsigned int incompat_other, compat, ro_compat, bbg0, bbg1;
	unsigned int meta_bg, first_meta_bg, desc_blocks;
	unsigned short reserved_gdt;
	unsigned int g0;			/* group whose superblock copy the filesystem is opened from */
	unsigned int i;				/* descriptor block index */
	unsigned long long f_g0, f_bg, f_bg1;	/* group-first oracle at g0, bg = i*dpb, bg+1 */
	unsigned long long blocks_count;
};
struct in_s IN;
#include "verif_in.h"

#include "lib/ext2fs/closefs.c"
#include "geom_gfb.h"
#include "geom_common.h"
#define GEOM_NO_LOC2_CONTRACT
#include "geom_contracts.h"

blk64_t ext2fs_blocks_count(struct ext2_super_block *super)
{
	return IN.blocks_count;
}

/* ---- reader contract, from the format (spec_geom.h) ---- */
static int rd_from_backup(ext2_filsys fs, blk64_t group_block) { return group_block != fs->super->s_first_data_block; }

static spec_u64 rd_spec_old(ext2_filsys fs, blk64_t group_block, dgrp_t i)
{
	/* the copy that follows the superblock copy the filesystem was opened from.  group_block is
	 * s_first_data_block for the primary (whose superblock is block 1 of a 1 KiB filesystem even
	 * when group 0 starts at block 0) and the backup superblock's own block otherwise */
	struct spec_geom c = geom_of(fs);
	if (!rd_from_backup(fs, group_block))
		return spec_geom_old_desc_loc(&c, 0, i);
	return group_block + 1 + i;
}

static int spec_geom_desc_is_old_style_fs(ext2_filsys fs, dgrp_t i)
{
	struct spec_geom c = geom_of(fs);
	return spec_geom_desc_is_old_style(&c, i);
}
static unsigned int geom_ldpb(ext2_filsys fs) { struct spec_geom c = geom_of(fs); return c.ldpb; }

static int rd_spec_meta_ok(ext2_filsys fs, blk64_t group_block, dgrp_t i, blk64_t ret)
{
	struct spec_geom c = geom_of(fs);
	unsigned int bg = spec_geom_meta_first_group(&c, i);
	spec_u64 first = spec_geom_desc_copy_loc(&c, bg);
	spec_u64 second = spec_geom_desc_copy_loc(&c, bg + 1);
	spec_u64 f2 = spec_geom_group_first(&c, bg + 1);
	if (!rd_from_backup(fs, group_block))
		return ret == first;				/* the primary copy (kernel descriptor_loc) */
	if (f2 + 1 < IN.blocks_count)
		return ret == second;				/* second group exists (with room for the copy) */
	if (f2 >= IN.blocks_count)
		return ret == first;				/* no second group */
	return ret == first || ret == second;			/* one-block last group: either */
}

blk64_t ext2fs_descriptor_block_loc2(ext2_filsys fs, blk64_t group_block, dgrp_t i)
	REQUIRES(geom_legal(fs) && geom_ldpb(fs) >= 1)
	REQUIRES(i < fs->desc_blocks && i < (0x80000000u >> geom_ldpb(fs)))
	ENSURES(!spec_geom_desc_is_old_style_fs(fs, i) || RET == rd_spec_old(fs, group_block, i))
	ENSURES(spec_geom_desc_is_old_style_fs(fs, i) || rd_spec_meta_ok(fs, group_block, i, RET))
	ASSIGNS();

static void agree(int bigalloc_1k)
{
	ext2_filsys fs;
	struct spec_geom c;
	blk64_t sup = 0, old = 0, new = 0;

	LOAD_IN();
	geom_build(&fs, &c, IN.log_bs, IN.log_desc, IN.desc_size_if_32, IN.bpg, IN.fdb, IN.cluster_bits,
		   IN.incompat_other, IN.compat, IN.ro_compat, IN.bbg0, IN.bbg1, IN.meta_bg,
		   IN.first_meta_bg, IN.desc_blocks, IN.reserved_gdt);
	ASSUME(GEOM_FDB_LEGAL(IN.log_bs, IN.cluster_bits, IN.fdb));
	ASSUME(bigalloc_1k ? (IN.log_bs == 0 && IN.cluster_bits > 0) : !(IN.log_bs == 0 && IN.cluster_bits > 0));
	ASSUME(c.ldpb >= 1);
	ASSUME(IN.i < IN.desc_blocks && IN.i < (0x80000000u >> c.ldpb));
	unsigned int bg = IN.i << c.ldpb;
	geom_gfb[0].g = IN.g0;   geom_gfb[0].v = IN.f_g0;
	geom_gfb[1].g = bg;      geom_gfb[1].v = IN.f_bg;
	geom_gfb[2].g = bg + 1;  geom_gfb[2].v = IN.f_bg1;
	ASSUME(geom_gfb_axioms(IN.fdb, IN.bpg));
	CHECK(geom_legal(fs), "harness builds a geometry the contract accepts");

	/* the filesystem is opened from the superblock copy of group g0, which exists and has one */
	ASSUME(spec_geom_has_super(&c, IN.g0));
	ASSUME(IN.f_g0 < IN.blocks_count);
	blk64_t group_block = IN.g0 == 0 ? IN.fdb : spec_geom_super_loc(&c, IN.g0);	/* ext2fs_open2: superblock argument */

	ASSUME(IN.f_bg < IN.blocks_count);	/* i < desc_blocks = ceil(groups / dpb): group i*dpb exists */
	CHECK(geom_ldpb(fs) == c.ldpb && rd_from_backup(fs, group_block) == (IN.g0 != 0), "opened from a backup <=> group_block != s_first_data_block");

	blk64_t rd = ext2fs_descriptor_block_loc2(fs, group_block, IN.i);

	CHECK(spec_geom_desc_is_old_style_fs(fs, IN.i) == spec_geom_desc_is_old_style(&c, IN.i), "contract and harness agree on the kind of descriptor block");
	if (spec_geom_desc_is_old_style(&c, IN.i))
		CHECK(rd == rd_spec_old(fs, group_block, IN.i), "reader, old-style: the copy following the superblock opened from");
	else
		CHECK(rd_spec_meta_ok(fs, group_block, IN.i, rd), "reader, meta_bg: primary copy / second group's copy when opened from a backup");

	if (spec_geom_desc_is_old_style(&c, IN.i)) {
		ASSUME(!spec_geom_in_meta_region(&c, IN.g0));
		ext2fs_super_and_bgd_loc2(fs, IN.g0, &sup, &old, &new, 0);
		CHECK(old != 0, "writer: a backup group outside the meta_bg region carries old-style descriptors");
		CHECK(rd == old + IN.i, "old-style descriptor block i: reader location == writer location old_desc_blk + i");
		if (IN.g0 == 0) REACH("old_primary"); else REACH("old_backup");
	} else {
		unsigned int h;
		if (IN.g0 == 0)
			h = bg;
		else if (IN.f_bg1 + 1 < IN.blocks_count)
			h = bg + 1;
		else if (IN.f_bg1 >= IN.blocks_count)
			h = bg;
		else
			h = (rd == spec_geom_desc_copy_loc(&c, bg)) ? bg : bg + 1;
		ext2fs_super_and_bgd_loc2(fs, h, &sup, &old, &new, 0);
		CHECK(new != 0, "writer: the first / second group of a meta group carries its descriptor block");
		CHECK((h >> c.ldpb) == IN.i, "writer puts descriptor block h / dpb == i there");
		CHECK(rd == new, "meta_bg descriptor block i: reader location == writer location new_desc_blk(h)");
		CHECK(spec_geom_group_first(&c, h) < IN.blocks_count, "the group read from exists");
		if (IN.g0 == 0) REACH("meta_primary");
		if (IN.g0 != 0 && h == bg + 1) REACH("meta_backup_second");
		if (IN.g0 != 0 && h == bg) REACH("meta_backup_first");
	}
	REACH("end");
}

void h_agree(void) { agree(0); }
void h_agree_1k_bigalloc(void) { agree(1); }
