/*
 * Contracts shared by the geometry units.  Include AFTER the real closefs.c (types) and geom_common.h.
 * geom_of(fs) maps the in-memory filesystem to the format-level parameters of specs/spec_geom.h
 * (log2 of the descriptors per block by table, no division).
 */
#ifndef GEOM_CONTRACTS_H
#define GEOM_CONTRACTS_H

static unsigned int geom_log_desc(const struct ext2_super_block *sb)
{
	if (!(sb->s_feature_incompat & EXT4_FEATURE_INCOMPAT_64BIT))
		return 5;
	return sb->s_desc_size == 64 ? 6 : sb->s_desc_size == 128 ? 7 : sb->s_desc_size == 256 ? 8 :
	       sb->s_desc_size == 512 ? 9 : sb->s_desc_size == 1024 ? 10 : 0;
}

/* geometry that ext2fs_open2 accepts (call-site guarantee of every function taking an open ext2_filsys) */
static int geom_legal(ext2_filsys fs)
{
	return fs->super->s_log_block_size <= 6 && fs->blocksize == (1024u << fs->super->s_log_block_size) &&
	       geom_log_desc(fs->super) != 0 && fs->super->s_blocks_per_group >= 8 &&
	       fs->cluster_ratio_bits >= 0 && fs->cluster_ratio_bits <= 16 &&
	       GEOM_FDB_LEGAL(fs->super->s_log_block_size, fs->cluster_ratio_bits, fs->super->s_first_data_block);
}

static struct spec_geom geom_of(ext2_filsys fs)
{
	struct spec_geom c;
	c.blocksize = fs->blocksize;
	c.ldpb = fs->super->s_log_block_size + 10 - geom_log_desc(fs->super);
	c.bpg = fs->super->s_blocks_per_group;
	c.fdb = fs->super->s_first_data_block;
	c.meta_bg = (fs->super->s_feature_incompat & EXT2_FEATURE_INCOMPAT_META_BG) != 0;
	c.first_meta_bg = fs->super->s_first_meta_bg;
	c.desc_blocks = fs->desc_blocks;
	c.reserved_gdt = fs->super->s_reserved_gdt_blocks;
	c.compat = fs->super->s_feature_compat;
	c.ro_compat = fs->super->s_feature_ro_compat;
	c.bbg0 = fs->super->s_backup_bgs[0];
	c.bbg1 = fs->super->s_backup_bgs[1];
	return c;
}

static spec_u64 geom_ret_super(ext2_filsys fs, dgrp_t g) { struct spec_geom c = geom_of(fs); return spec_geom_ret_super(&c, g); }
static spec_u64 geom_ret_old_desc(ext2_filsys fs, dgrp_t g) { struct spec_geom c = geom_of(fs); return spec_geom_ret_old_desc(&c, g); }
static spec_u64 geom_ret_new_desc(ext2_filsys fs, dgrp_t g) { struct spec_geom c = geom_of(fs); return spec_geom_ret_new_desc(&c, g); }
static spec_u64 geom_ret_used(ext2_filsys fs, dgrp_t g) { struct spec_geom c = geom_of(fs); return spec_geom_ret_used(&c, g); }

/* proved in closefs/bg_has_super */
int ext2fs_bg_has_super(ext2_filsys fs, dgrp_t group)
	ENSURES((RET != 0) == (spec_bg_has_super(group, fs->super->s_feature_compat, fs->super->s_feature_ro_compat,
						 fs->super->s_backup_bgs[0], fs->super->s_backup_bgs[1]) != 0))
	ASSIGNS();

#ifndef GEOM_NO_LOC2_CONTRACT
errcode_t ext2fs_super_and_bgd_loc2(ext2_filsys fs, dgrp_t group, blk64_t *ret_super_blk,
				    blk64_t *ret_old_desc_blk, blk64_t *ret_new_desc_blk, blk_t *ret_used_blks)
	REQUIRES(geom_legal(fs))
	ENSURES(RET == 0)
	ENSURES(ret_super_blk == 0 || *ret_super_blk == geom_ret_super(fs, group))
	ENSURES(ret_old_desc_blk == 0 || *ret_old_desc_blk == geom_ret_old_desc(fs, group))
	ENSURES(ret_new_desc_blk == 0 || *ret_new_desc_blk == geom_ret_new_desc(fs, group))
	ENSURES(ret_used_blks == 0 || *ret_used_blks == (blk_t)geom_ret_used(fs, group))
	ASSIGNS(ret_super_blk != 0: *ret_super_blk; ret_old_desc_blk != 0: *ret_old_desc_blk;
		ret_new_desc_blk != 0: *ret_new_desc_blk; ret_used_blks != 0: *ret_used_blks);
#endif
#endif
