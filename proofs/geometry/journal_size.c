/* VERIF-UNIT
{
 "name": "default_journal_size",
 "props": ["C07"],
 "level": "U",
 "tier": "quick",
 "harness": "h_default_journal_size",
 "functions": ["lib/ext2fs/mkjournal.c:ext2fs_default_journal_size"],
 "assumes": ["no contract is enforced (the real function is called twice, DFCC allows one top-level call of an enforced function): the statement is the harness CHECKs on the real code; none on the input (every 64-bit block count); monotonicity is stated for two arbitrary inputs a <= b (pointwise form of 'for all pairs')",
             "the table of breakpoints is the one documented in the function's comment / mke2fs(8) ('-J size' defaults), written here as an independent step table"],
 "native": true
}
*/
/*
 * lib/ext2fs/mkjournal.c:ext2fs_default_journal_size — default journal size in filesystem blocks.
 *   -1 ("too small for a journal") exactly below 2048 blocks;
 *   otherwise a power of two between JBD2_MIN_JOURNAL_BLOCKS (1024) and 262144, never more than half of the
 *   filesystem, monotone in the filesystem size, equal to the documented step table.
 */
#include "verif.h"

struct in_s { unsigned long long a, b; };
struct in_s IN;
#include "verif_in.h"

#include "lib/ext2fs/mkjournal.c"

unsigned long long verif_k;

/* documented defaults: filesystem size (blocks) -> journal size (blocks) */
static int spec_journal_size(unsigned long long n)
{
	return n < 2048ULL ? -1 : n < 32768ULL ? 1024 : n < 262144ULL ? 4096 : n < 524288ULL ? 8192 :
	       n < 4194304ULL ? 16384 : n < 8388608ULL ? 32768 : n < 16777216ULL ? 65536 :
	       n < 33554432ULL ? 131072 : 262144;
}

void h_default_journal_size(void)
{
	LOAD_IN();
	ASSUME(IN.a <= IN.b);
	int ra = ext2fs_default_journal_size(IN.a);
	int rb = ext2fs_default_journal_size(IN.b);
	CHECK((ra == -1) == (IN.a < 2048), "-1 exactly below 2048 blocks");
	CHECK(ra == -1 || (ra >= 1024 && ra <= 262144), "between the jbd2 minimum and 1 GiB worth of 4 KiB blocks");
	CHECK(ra == -1 || (ra & (ra - 1)) == 0, "a power of two");
	CHECK(ra == -1 || (unsigned long long)ra * 2 <= IN.a, "never more than half of the filesystem");
	CHECK(ra <= rb, "monotone in the filesystem size");
	CHECK(ra == spec_journal_size(IN.a), "the documented step table");
	if (ra == -1) REACH("too_small");
	if (ra == 262144) REACH("max");
	if (ra != -1 && ra < rb) REACH("step");
	REACH("end");
}
