/* VERIF-UNIT
{
 "name": "rsz_extent_add",
 "props": ["C08"],
 "level": "U",
 "tier": "quick",
 "harness": "h_extent_add",
 "enforce": ["ext2fs_add_extent_entry"],
 "includes": ["resize"],
 "defines": ["EXT2_CUSTOM_MEMORY_ROUTINES", "CAP=3"],
 "unwind": 6,
 "unwind_reason": "ext2fs_add_extent_entry has no loop; the bound only serves the DFCC library loops over assigns-clause targets (unwinding assertions on)",
 "functions": ["resize/extent.c:ext2fs_add_extent_entry"],
 "assumes": ["the table object is well formed on entry: num <= size, list has exactly `size` entries (what ext2fs_create_extent_table and this function maintain); CAP: the harness table has size <= 3 (rsz_extent_add: num < size; rsz_extent_add_grow: num == size in {1, 2}) and (num, ghost j) are enumerated as constants -- the function is loop-free and only addresses list[num-1] and list[num] (CBMC bounds checks against the tight array), a symbolic num costs 50x",
             "runs are well formed and locations are block (cluster) / inode numbers < 2^48 (ext4 block numbers have 48 bits, inode numbers 32): XSPEC_WF / XSPEC_LOC_OK of specs/resize_extent_spec.h; well-formedness is re-established (postcondition)",
             "ext2fs.h is compiled with its own hook EXT2_CUSTOM_MEMORY_ROUTINES; ext2fs_resize_mem is a stub that either fails (table must then be unchanged) or installs a new array (capacity CAP + 100 entries; the request is checked to fit and to hold num + 1 runs) into which the entries observed by the contract (ghost index j, last entry) were copied, every other entry arbitrary (over-approximation of realloc)",
             "pointwise statements are stated for ONE arbitrary ghost entry j and ONE arbitrary probe location x (stand for 'for all')"],
 "native": false
}
*/
/* VERIF-UNIT
{
 "name": "rsz_extent_add_grow",
 "props": ["C08"],
 "level": "U",
 "tier": "quick",
 "harness": "h_extent_add_grow",
 "enforce": ["ext2fs_add_extent_entry"],
 "includes": ["resize"],
 "defines": ["EXT2_CUSTOM_MEMORY_ROUTINES", "CAP=3", "GROW"],
 "unwind": 6,
 "unwind_reason": "ext2fs_add_extent_entry has no loop; the bound only serves the DFCC library loops over assigns-clause targets (unwinding assertions on)",
 "functions": ["resize/extent.c:ext2fs_add_extent_entry"],
 "assumes": ["the table object is well formed on entry: num <= size, list has exactly `size` entries (what ext2fs_create_extent_table and this function maintain); CAP: the harness table has size <= 3 (rsz_extent_add: num < size; rsz_extent_add_grow: num == size in {1, 2}) and (num, ghost j) are enumerated as constants -- the function is loop-free and only addresses list[num-1] and list[num] (CBMC bounds checks against the tight array), a symbolic num costs 50x",
             "runs are well formed and locations are block (cluster) / inode numbers < 2^48 (ext4 block numbers have 48 bits, inode numbers 32): XSPEC_WF / XSPEC_LOC_OK of specs/resize_extent_spec.h; well-formedness is re-established (postcondition)",
             "ext2fs.h is compiled with its own hook EXT2_CUSTOM_MEMORY_ROUTINES; ext2fs_resize_mem is a stub that either fails (table must then be unchanged) or installs a new array (capacity CAP + 100 entries; the request is checked to fit and to hold num + 1 runs) into which the entries observed by the contract (ghost index j, last entry) were copied, every other entry arbitrary (over-approximation of realloc)",
             "pointwise statements are stated for ONE arbitrary ghost entry j and ONE arbitrary probe location x (stand for 'for all')"],
 "native": false
}
*/
/*
 * C08 — the translation table as a map (specs/resize_extent_spec.h).  ext2fs_add_extent_entry(table, old, new)
 * must extend the map by exactly  old -> new:
 *   - afterwards the LAST run covers `old` and maps it to `new`;
 *   - every other run is unchanged, and the last run still maps every location it covered before to the same image
 *     (so: every probe x != old that was translated before is translated the same way);
 *   - either the last run grew by one (only when old and new both continue it) or a new run (old, new, 1) was
 *     appended: nothing else is legal, in particular `num` never exceeds `size` and never shrinks;
 *   - the flag `sorted` stays 1 exactly as long as the runs are ordered and disjoint: sorted_after ==
 *     (sorted_before && previous last run lies completely before the new one).  Together with the invariant
 *     "sorted => run j BEFORE run j+1" (ghost j) this is what the binary search of ext2fs_extent_translate needs;
 *   - a failing (re)allocation leaves the table unchanged and is reported.
 */
#include "verif.h"

struct in_s {
	unsigned long long num, size, sorted, cursor, old_loc, new_loc, j, x;
	unsigned long long ej_old, ej_new, ej_size, el_old, el_new, el_size;
	long ret_resize;
	unsigned long long newcnt;
};
struct in_s IN;
#include "verif_in.h"

/* ext2fs.h, EXT2_CUSTOM_MEMORY_ROUTINES: the application supplies the allocation wrappers */
long ext2fs_get_mem(unsigned long size, void *ptr);
long ext2fs_get_arrayzero(unsigned long count, unsigned long size, void *ptr);
long ext2fs_free_mem(void *ptr);
long ext2fs_resize_mem(unsigned long old_size, unsigned long size, void *ptr);

#include "resize/extent.c"
#include "resize_extent_spec.h"

unsigned long long verif_k;

#ifndef CAP
#define CAP 3
#endif
static struct ext2_extent_entry LIST0[CAP], LIST1[CAP + 100];


/* ghost: entry state (of the entries the contract talks about) */
static struct {
	unsigned long long num0, size0, sorted0, j, x;
	struct ext2_extent_entry ej0, el0;	/* run j and the last run (num0 - 1) before the call */
	unsigned long resize_calls;
} G;

#define LASTIDX(ext)	((ext)->num - 1)
/* the specification's case split, from the ENTRY state and the arguments only */
#define CONTINUES_LAST(o, n)	(G.num0 > 0 && G.el0.old_loc + G.el0.size == (o) && G.el0.new_loc + G.el0.size == (n))
#define ENT_EQ(a, b)	((a).old_loc == (b).old_loc && (a).new_loc == (b).new_loc && (a).size == (b).size)

errcode_t ext2fs_add_extent_entry(ext2_extent extent, __u64 old_loc, __u64 new_loc)
	REQUIRES(extent->num <= extent->size && extent->size >= 1)
	REQUIRES(G.num0 == extent->num && G.size0 == extent->size && G.sorted0 == extent->sorted && G.j < G.size0)
	REQUIRES(G.num0 == 0 || (G.j < G.num0 && ENT_EQ(G.ej0, extent->list[G.j])))
	REQUIRES(G.num0 == 0 || ENT_EQ(G.el0, extent->list[G.num0 - 1]))
	/* runs are well formed (not empty, inside the location space); locations are block / inode numbers (< 2^48) */
	REQUIRES(G.num0 == 0 || (XSPEC_WF(G.ej0) && XSPEC_WF(G.el0)))
	REQUIRES(XSPEC_LOC_OK(old_loc) && XSPEC_LOC_OK(new_loc))
	ENSURES(RET != 0 || (XSPEC_WF(extent->list[LASTIDX(extent)]) && (G.num0 == 0 || XSPEC_WF(extent->list[G.j]))))
	/* failure: only from the allocator, table unchanged */
	ENSURES(RET == 0 || (G.resize_calls == 1 && extent->num == G.num0 && extent->size == G.size0 && extent->sorted == G.sorted0))
	/* representation */
	ENSURES(RET != 0 || (extent->num <= extent->size && extent->num >= 1))
	/* the two legal outcomes */
	ENSURES(RET != 0 || !CONTINUES_LAST(old_loc, new_loc) ||
		(extent->num == G.num0 && extent->list[LASTIDX(extent)].old_loc == G.el0.old_loc &&
		 extent->list[LASTIDX(extent)].new_loc == G.el0.new_loc && extent->list[LASTIDX(extent)].size == G.el0.size + 1))
	ENSURES(RET != 0 || CONTINUES_LAST(old_loc, new_loc) ||
		(extent->num == G.num0 + 1 && extent->list[LASTIDX(extent)].old_loc == old_loc &&
		 extent->list[LASTIDX(extent)].new_loc == new_loc && extent->list[LASTIDX(extent)].size == 1))
	/* map view: old -> new is in the map, through the last run */
	ENSURES(RET != 0 || (XSPEC_COVERS(extent->list[LASTIDX(extent)], old_loc) && XSPEC_IMAGE(extent->list[LASTIDX(extent)], old_loc) == new_loc))
	/* every existing run keeps what it mapped (ghost run j, ghost probe x) */
	ENSURES(RET != 0 || G.num0 == 0 || !XSPEC_COVERS(G.ej0, G.x) || (XSPEC_COVERS(extent->list[G.j], G.x) && XSPEC_IMAGE(extent->list[G.j], G.x) == XSPEC_IMAGE(G.ej0, G.x)))
	/* ... and no existing run starts to map anything but `old` */
	ENSURES(RET != 0 || G.num0 == 0 || G.x == old_loc || !XSPEC_COVERS(extent->list[G.j], G.x) || XSPEC_COVERS(G.ej0, G.x))
	/* the flag */
	ENSURES(RET != 0 || CONTINUES_LAST(old_loc, new_loc) || G.num0 == 0 ||
		(extent->sorted != 0) == (G.sorted0 != 0 && G.el0.old_loc + G.el0.size <= old_loc))
	ENSURES(RET != 0 || !(CONTINUES_LAST(old_loc, new_loc) || G.num0 == 0) || extent->sorted == G.sorted0)
	ASSIGNS(__CPROVER_object_whole(extent), __CPROVER_object_whole(extent->list), __CPROVER_object_whole(LIST1), G.resize_calls);

/* ---- allocator stubs ---- */
long ext2fs_get_mem(unsigned long size, void *ptr) { CHECK(0, "not called by ext2fs_add_extent_entry"); return 1; }
long ext2fs_get_arrayzero(unsigned long count, unsigned long size, void *ptr) { CHECK(0, "not called by ext2fs_add_extent_entry"); return 1; }
long ext2fs_free_mem(void *ptr) { CHECK(0, "not called by ext2fs_add_extent_entry"); return 1; }

long ext2fs_resize_mem(unsigned long old_size, unsigned long size, void *ptr)
{
	struct ext2_extent_entry **pp = (struct ext2_extent_entry **)ptr, *n;
	G.resize_calls++;
#ifndef GROW
	CHECK(0, "scenario 'not full': the array is not reallocated");
	return 1;
#endif
	CHECK(G.num0 >= G.size0, "the array is only reallocated when it is full");
	CHECK(old_size == G.size0 * sizeof(struct ext2_extent_entry), "old byte size is the current capacity");
	CHECK(size >= (G.num0 + 1) * sizeof(struct ext2_extent_entry), "new capacity holds one more run");
	if (IN.ret_resize)
		return IN.ret_resize;
	CHECK(size <= sizeof(LIST1), "harness capacity");
	n = LIST1;
	/* realloc keeps the contents: copy the entries the contract observes, the rest stays arbitrary */
	n[G.j] = (*pp)[G.j];
	if (G.num0 > 0)
		n[G.num0 - 1] = (*pp)[G.num0 - 1];
	*pp = n;
	return 0;
}

/*
 * Two scenarios, one harness each, because a table pointer that is "old array or new array" after the call makes every
 * later access split over both objects (5 M clauses): rsz_extent_add = the array is not full (ext2fs_resize_mem must not be
 * called), rsz_extent_add_grow = the array is full (num == size; ext2fs_resize_mem must be called exactly once).
 */
static void run(const unsigned long long num, const unsigned long long j)	/* num and j are CONSTANTS at every call (symbolic element indices cost 50x) */
{
	struct _ext2_extent X;
	struct ext2_extent_entry *list;
	ASSUME(IN.size >= 1 && IN.size <= CAP);
	list = LIST0;
	X.list = list; X.cursor = IN.cursor; X.sorted = IN.sorted; X.num = num;
#ifdef GROW
	X.size = num;
#else
	ASSUME(num < IN.size);
	X.size = IN.size;
#endif
	if (num > 0) {
		list[j].old_loc = IN.ej_old; list[j].new_loc = IN.ej_new; list[j].size = IN.ej_size;
		if (j != num - 1) {
			list[num - 1].old_loc = IN.el_old; list[num - 1].new_loc = IN.el_new; list[num - 1].size = IN.el_size;
		}
	}
	G.num0 = X.num; G.size0 = X.size; G.sorted0 = X.sorted; G.j = j; G.x = IN.x; G.resize_calls = 0;
	G.ej0 = list[j];
	if (num > 0) G.el0 = list[num - 1];
	ASSUME(num == 0 || (XSPEC_WF(G.ej0) && XSPEC_WF(G.el0)));
	ASSUME(XSPEC_LOC_OK(IN.old_loc) && XSPEC_LOC_OK(IN.new_loc));

	errcode_t r = ext2fs_add_extent_entry(&X, IN.old_loc, IN.new_loc);

	if (r == 0) {
		struct ext2_extent_entry last = X.list[X.num - 1];
		/* the two legal outcomes (code facts), then cut: the map-view statements below follow from them by arithmetic alone */
		int appended = X.num == num + 1 && last.old_loc == IN.old_loc && last.new_loc == IN.new_loc && last.size == 1;
		int grown = X.num == num && CONTINUES_LAST(IN.old_loc, IN.new_loc) && last.old_loc == G.el0.old_loc && last.new_loc == G.el0.new_loc && last.size == G.el0.size + 1;
		CHECK(appended || grown, "either the run (old, new, 1) was appended or the last run, which old and new both continue, grew by one");
		CHECK(!(appended && CONTINUES_LAST(IN.old_loc, IN.new_loc)), "a continuation is always coalesced");
		ASSUME(appended || grown);	/* cut (just checked) */
		CHECK(XSPEC_WF(last) && (G.num0 == 0 || XSPEC_WF(X.list[j])), "runs stay well formed");
		CHECK(X.num <= X.size && X.num >= G.num0 && X.num <= G.num0 + 1, "num grows by at most one and stays within the capacity");
		CHECK(XSPEC_COVERS(last, IN.old_loc) && XSPEC_IMAGE(last, IN.old_loc) == IN.new_loc, "old -> new is in the map afterwards (last run)");
		CHECK(G.num0 == 0 || !XSPEC_COVERS(G.ej0, IN.x) || (XSPEC_COVERS(X.list[j], IN.x) && XSPEC_IMAGE(X.list[j], IN.x) == XSPEC_IMAGE(G.ej0, IN.x)),
		      "what run j mapped before it maps to the same image afterwards");
		CHECK(G.num0 == 0 || IN.x == IN.old_loc || !XSPEC_COVERS(X.list[j], IN.x) || XSPEC_COVERS(G.ej0, IN.x), "no existing run starts to map anything except `old`");
		if (X.num == G.num0 + 1) {
			CHECK(last.size == 1 && last.old_loc == IN.old_loc && last.new_loc == IN.new_loc, "appended run is (old, new, 1)");
			if (G.num0 > 0) {
				CHECK((X.sorted != 0) == (G.sorted0 != 0 && XSPEC_BEFORE(G.el0, last)), "sorted flag == runs still ordered and disjoint");
				CHECK(ENT_EQ(X.list[j], G.ej0), "existing runs untouched");
				REACH("appended");
			} else {
				CHECK(X.sorted == G.sorted0, "first run: flag untouched");
#ifndef GROW
				REACH("first");
#endif
			}
		} else {
			CHECK(CONTINUES_LAST(IN.old_loc, IN.new_loc), "the last run only grows when old and new both continue it");
			CHECK(X.sorted == G.sorted0, "growing the last run does not touch the flag");
			REACH("coalesced");
		}
#ifdef GROW
		CHECK(G.resize_calls == 1 && X.list == LIST1 && X.size > G.size0, "full table: reallocated once, capacity grew");
#else
		CHECK(G.resize_calls == 0 && X.list == LIST0 && X.size == G.size0, "table not full: no reallocation");
#endif
	} else {
		CHECK(G.resize_calls == 1 && IN.ret_resize != 0 && r == IN.ret_resize, "only a failed reallocation fails, and is reported");
		CHECK(X.num == G.num0 && X.size == G.size0 && X.sorted == G.sorted0 && X.list == list && ENT_EQ(list[j], G.ej0), "failure leaves the table unchanged");
#ifdef GROW
		REACH("alloc_failed");
#endif
	}
	REACH("end");
}
#define CASE(n, jj) else if (IN.num == (n) && IN.j == (jj)) run(n, jj)
#if CAP != 3
#error "the case lists below cover CAP == 3"
#endif
void h_extent_add(void)
{
	LOAD_IN();
	if (IN.num == 0) run(0, 0);
	CASE(1, 0); CASE(2, 0); CASE(2, 1);
}
void h_extent_add_grow(void)
{
	LOAD_IN();
	if (0) ;
	CASE(1, 0); CASE(2, 0); CASE(2, 1);	/* full tables of capacity 1 and 2 */
}
