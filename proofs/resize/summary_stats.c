/* VERIF-UNIT
{
 "name": "rsz_summary_stats",
 "props": ["C08"],
 "level": "U/iter",
 "tier": "quick",
 "tier_after_hooks": "quick",
 "harness": "h_summary_stats",
 "includes": ["resize"],
 "loop_contracts": true,
 "defines": ["CFG_BPG=32768", "CFG_IPG=8192"],
 "unwind": 12,
 "unwind_reason": "the three loops of resize2fs_calculate_summary_stats are cut by in-place loop contracts (VERIF_INV_SUMMARY_GROUPS / _LAST / _INODES: invariant + decreases); the bound serves initialisation and DFCC library loops",
 "cbmc_flags": ["--object-bits", "12"],
 "backend": "cadical",
 "functions": ["resize/resize2fs.c:resize2fs_calculate_summary_stats"],
 "assumes": ["big translation unit: no contract is enforced; the real static function is called directly; the statement is made over ghost accumulators kept by the stubs: every answer of the bitmap primitives is arbitrary, the accumulators count the answers, and the function's results are compared with the accumulators (so 'free = length - population' holds for whatever the bitmaps contain)",
             "ext2fs_get_block_bitmap_range2 / ext2fs_bitcount (lib/ext2fs/gen_bitmap64.c, bitops.c; proved in the bitmap groups) are stubs: bitcount(buf, nbytes) answers the population of the first nbytes bytes of the range last fetched, an arbitrary number <= 8 * nbytes that is recorded; malloc/free hand out a static buffer",
             "configuration: 32768 blocks / 8192 inodes per group (constants: the group's first block and an inode's group are products / quotients), no bigalloc, first data block 0; s_inodes_count = groups * inodes per group (rsz_adjust_fs_info_*: S3) and fewer than 2^31 inodes (total_inodes_free is a plain int: observation), fewer than 2^31 groups' worth of blocks per sum (group_free is an int)",
             "ext2fs_group_blocks_count answers an arbitrary length 1..blocks per group for the ghost group (its own unit: geometry/group_first...)"],
 "native": false
}
*/
/*
 * C08 — "a consistent filesystem": the summary counts written at the end of a resize are recomputed from the bitmaps.
 * Per group g (per iteration, ghost group):
 *   B1  the bitmap range examined is the group's own: clusters [first cluster of g, + clusters per group);
 *   B2  bg_free_blocks_count(g) = (number of clusters of g) - (number of marked clusters among them): by ext2fs_bitcount over
 *       exactly ceil(max / 8) bytes when that is exact (max % 8 == 0 or not the last group), else by testing each cluster of
 *       the short last group exactly once (ghost block);
 *   B3  s_free_blocks_count = sum of the per-group values;
 *   I1  bg_free_inodes_count(g) = inodes per group when g is INODE_UNINIT, else the number of unmarked inodes of g, every
 *       inode of g being tested exactly once (ghost inode);
 *   I2  s_free_inodes_count = sum of the per-group values.
 */
#include "verif.h"
#include <stdlib.h>
#define malloc(n) rsz_malloc(n)
#define free(p) rsz_free(p)
void *rsz_malloc(unsigned long n);
void rsz_free(void *p);
#include "rsz_in.h"
struct in_s {
	RSZ_IN_FIELDS;
	unsigned int cnt, g, gg_blocks, ro, compat, incompat;
	unsigned long long b, k, blocks_count;
	unsigned char gg_iuninit_raw, bit_b, bit_k;
	long ret_range;
	unsigned char alloc_fail;
};
struct in_s IN;
#include "verif_in.h"

static struct {	/* block part */
	unsigned long long sum_free;		/* sum of the values given to ext2fs_bg_free_blocks_count_set */
	unsigned int n_bset_gg, bset_gg_val;	/* ... for the ghost group */
	unsigned long long range_start; unsigned int range_num;	/* last range fetched */
	unsigned long long gg_range_start; unsigned int gg_range_num, gg_max, gg_n, gg_nbytes, gg_by_count, gg_cnt_pos;
	unsigned int cur_group, cur_max;	/* group / answer of the last ext2fs_group_blocks_count */
	unsigned int pos;			/* positive answers of the per-block tests (short last group) */
	unsigned int n_test_b;			/* tests of the ghost block */
	unsigned long long free_set; unsigned int n_free_set;
} PB;
static struct {	/* inode part */
	unsigned long long isum;		/* sum of the values given to ext2fs_bg_free_inodes_count_set */
	unsigned int n_iset_gg, iset_gg_val;
	unsigned int igroup, iuninit, neg;	/* group announced by the last INODE_UNINIT query, its answer, zero answers since */
	unsigned int gg_neg;			/* zero answers while the ghost group was current */
	unsigned int n_test_k;
} PI;
static char g_buf[64], bm_blk, bm_ino;
static unsigned long long g_b, g_k;
static unsigned int g_gg;

#define GG_IUNINIT	(IN.gg_iuninit_raw & 1)
#define GG_N	(PB.gg_by_count ? PB.gg_cnt_pos : PB.gg_n)
#define VERIF_INV_SUMMARY_GROUPS \
	__CPROVER_assigns(group, retval, max, n, b, group_free, total_clusters_free, blk, PB, nch) \
	__CPROVER_loop_invariant(group <= fs->group_desc_count && blk == (blk64_t)CFG_BPG * group) \
	__CPROVER_loop_invariant(total_clusters_free == PB.sum_free && PB.sum_free <= (blk64_t)CFG_BPG * group && PB.n_free_set == 0) \
	__CPROVER_loop_invariant(PB.n_bset_gg == (g_gg < group ? 1 : 0) && PB.gg_by_count <= 1) \
	__CPROVER_loop_invariant(!(g_gg < group) || (PB.gg_range_start == (blk64_t)CFG_BPG * g_gg && PB.gg_range_num == CFG_BPG && PB.bset_gg_val == PB.gg_max - GG_N && GG_N <= PB.gg_max && PB.gg_max == IN.gg_blocks)) \
	__CPROVER_loop_invariant(!(g_gg < group) || PB.gg_by_count || (PB.gg_nbytes == (PB.gg_max + 7) / 8 && ((PB.gg_max & 7) == 0 || g_gg != fs->group_desc_count - 1))) \
	__CPROVER_loop_invariant(!(g_gg < group && PB.gg_by_count) || (g_gg == fs->group_desc_count - 1 && (PB.gg_max & 7) != 0)) \
	__CPROVER_loop_invariant(g_gg < group || (PB.gg_by_count == 0 && PB.gg_cnt_pos == 0)) \
	__CPROVER_loop_invariant(PB.n_test_b <= 1 && (PB.n_test_b == 0 || group == fs->group_desc_count)) \
	__CPROVER_loop_invariant(!(group == fs->group_desc_count && (IN.blocks_count & 7) && g_b >= (blk64_t)CFG_BPG * (fs->group_desc_count - 1) && g_b < IN.blocks_count) || PB.n_test_b == 1) \
	__CPROVER_decreases(fs->group_desc_count - group)
#define LAST_FIRST	((blk64_t)CFG_BPG * group)
#define VERIF_INV_SUMMARY_LAST \
	__CPROVER_assigns(b, n, PB.pos, PB.n_test_b, PB.gg_by_count, PB.gg_cnt_pos, nch) \
	__CPROVER_loop_invariant(b >= LAST_FIRST && b <= IN.blocks_count && n == PB.pos - __CPROVER_loop_entry(PB.pos) && n <= b - LAST_FIRST && b - LAST_FIRST <= CFG_BPG) \
	__CPROVER_loop_invariant(PB.cur_group != g_gg || (PB.gg_cnt_pos == n && PB.gg_by_count == (b > LAST_FIRST ? 1 : __CPROVER_loop_entry(PB.gg_by_count)))) \
	__CPROVER_loop_invariant(PB.cur_group == g_gg || (PB.gg_cnt_pos == __CPROVER_loop_entry(PB.gg_cnt_pos) && PB.gg_by_count == __CPROVER_loop_entry(PB.gg_by_count))) \
	__CPROVER_loop_invariant(PB.n_test_b == ((g_b >= LAST_FIRST && g_b < b) ? 1 : 0)) \
	__CPROVER_decreases(b < IN.blocks_count ? IN.blocks_count - b : 0)
#define K_IN_GG	(g_k >= 1 && (g_k - 1) / CFG_IPG == g_gg)
#define VERIF_INV_SUMMARY_INODES \
	__CPROVER_assigns(ino, group_free, total_inodes_free, count, group, uninit, PI, nch) \
	__CPROVER_loop_invariant(ino >= 1 && group < fs->group_desc_count && count < CFG_IPG && ino - 1 == (ext2_ino_t)CFG_IPG * group + count) \
	__CPROVER_loop_invariant(PI.igroup == group && (uninit != 0) == (PI.iuninit != 0) && group_free >= 0 && (unsigned int)group_free == (uninit ? count : PI.neg) && PI.neg <= count) \
	__CPROVER_loop_invariant(total_inodes_free >= 0 && (unsigned long long)total_inodes_free == PI.isum + group_free && PI.isum <= (unsigned long long)CFG_IPG * group) \
	__CPROVER_loop_invariant(PI.n_iset_gg == (g_gg < group ? 1 : 0) && (!(g_gg < group) || PI.iset_gg_val == (GG_IUNINIT ? CFG_IPG : PI.gg_neg))) \
	__CPROVER_loop_invariant((g_gg != group || (PI.gg_neg == PI.neg && (PI.iuninit != 0) == (GG_IUNINIT != 0))) && (g_gg <= group || PI.gg_neg == 0)) \
	__CPROVER_loop_invariant(!K_IN_GG || PI.n_test_k == ((!GG_IUNINIT && g_k < ino) ? 1 : 0)) \
	__CPROVER_decreases(fs->super->s_inodes_count - ino)

static unsigned int nch;
#include "config.h"
#include "ext2fs/ext2_fs.h"
#include "ext2fs/ext2fs.h"
#include "resize/resize2fs.c"

unsigned long long verif_k;
static unsigned char ch(void) { return IN.ch[nch++ % RSZ_NCH]; }
static unsigned long long chv(void) { return IN.chv[nch++ % RSZ_NCH]; }

void *rsz_malloc(unsigned long n) { return IN.alloc_fail ? (void *)0 : (void *)g_buf; }
void rsz_free(void *p) { CHECK(p == (void *)g_buf, "frees the bitmap buffer"); }
char *gettext(const char *msgid) { return (char *)msgid; }

static struct struct_ext2_filsys FS;
static struct ext2_super_block SB;
blk64_t ext2fs_blocks_count(struct ext2_super_block *super) { return IN.blocks_count; }
errcode_t ext2fs_get_block_bitmap_range2(ext2fs_block_bitmap bmap, __u64 start, size_t num, void *out)
{
	CHECK((void *)bmap == (void *)&bm_blk && out == (void *)g_buf, "the block map is read into the buffer");
	PB.range_start = start; PB.range_num = (unsigned int)num;
	return IN.ret_range;
}
int ext2fs_group_blocks_count(ext2_filsys fs, dgrp_t group)
{
	unsigned int v = (group == g_gg) ? IN.gg_blocks : (unsigned int)chv();
	ASSUME(v >= 1 && v <= CFG_BPG);
	if (group == FS.group_desc_count - 1)
		ASSUME(v == IN.blocks_count - (unsigned long long)CFG_BPG * group);	/* the last group ends with the filesystem */
	PB.cur_group = group; PB.cur_max = v;
	if (group == g_gg) { PB.gg_max = v; PB.gg_range_start = PB.range_start; PB.gg_range_num = PB.range_num; }
	return (int)v;
}
unsigned int ext2fs_bitcount(const void *addr, unsigned int nbytes)
{
	unsigned int n = (unsigned int)chv();
	ASSUME(n <= 8u * nbytes && n <= PB.cur_max);	/* population of nbytes bytes; bits behind the group's length are clear */
	CHECK(addr == (const void *)g_buf, "the buffer just fetched is counted");
	if (PB.cur_group == g_gg) { PB.gg_n = n; PB.gg_nbytes = nbytes; }
	return n;
}
int ext2fs_test_generic_bmap(ext2fs_generic_bitmap bitmap, __u64 arg)
{
	int r;
	if ((void *)bitmap == (void *)&bm_blk) {
		r = (arg == g_b) ? (IN.bit_b & 1) : (ch() & 1);
		ASSUME(PB.pos < 0xfffffff0u);
		if (r) PB.pos++;
		if (PB.cur_group == g_gg) { PB.gg_by_count = 1; ASSUME(PB.gg_cnt_pos < 0xfffffff0u); if (r) PB.gg_cnt_pos++; }
		if (arg == g_b) { ASSUME(PB.n_test_b < 0xfffffff0u); PB.n_test_b++; }
		return r;
	}
	CHECK((void *)bitmap == (void *)&bm_ino, "only the two maps of the handle are tested");
	r = (arg == g_k) ? (IN.bit_k & 1) : (ch() & 1);
	ASSUME(PI.neg < 0xfffffff0u && PI.gg_neg < 0xfffffff0u);
	if (!r) { PI.neg++; if (PI.igroup == g_gg) PI.gg_neg++; }
	if (arg == g_k) { ASSUME(PI.n_test_k < 0xfffffff0u); PI.n_test_k++; }
	return r;
}
void ext2fs_bg_free_blocks_count_set(ext2_filsys fs, dgrp_t group, __u32 n)
{
	ASSUME(PB.sum_free < (1ULL << 62));
	PB.sum_free += n;
	if (group == g_gg) {
		ASSUME(PB.n_bset_gg < 0xfffffff0u);
		PB.n_bset_gg++; PB.bset_gg_val = n;
	}
}
void ext2fs_group_desc_csum_set(ext2_filsys fs, dgrp_t group) { }
void ext2fs_free_blocks_count_set(struct ext2_super_block *super, blk64_t blk) { PB.free_set = blk; PB.n_free_set++; }
int ext2fs_bg_flags_test(ext2_filsys fs, dgrp_t group, __u16 bg_flag)
{
	int r = (group == g_gg) ? GG_IUNINIT : (ch() & 1);
	CHECK(bg_flag == EXT2_BG_INODE_UNINIT, "only INODE_UNINIT is asked about");
	PI.igroup = group; PI.iuninit = r; PI.neg = 0;
	return r ? bg_flag : 0;
}
void ext2fs_bg_free_inodes_count_set(ext2_filsys fs, dgrp_t group, __u32 n)
{
	ASSUME(PI.isum < (1ULL << 62));
	PI.isum += n;
	if (group == g_gg) { ASSUME(PI.n_iset_gg < 0xfffffff0u); PI.n_iset_gg++; PI.iset_gg_val = n; }
}

void h_summary_stats(void)
{
	LOAD_IN();
	nch = 0;
	ASSUME(IN.cnt >= 1 && IN.cnt < (1u << 18));	/* fewer than 2^31 inodes */
	ASSUME(IN.gg_blocks >= 1 && IN.gg_blocks <= CFG_BPG);
	FS.super = &SB; FS.group_desc_count = IN.cnt; FS.blocksize = 4096; FS.cluster_ratio_bits = 0;
	FS.block_map = (ext2fs_block_bitmap)(void *)&bm_blk; FS.inode_map = (ext2fs_inode_bitmap)(void *)&bm_ino;
	SB.s_first_data_block = 0; SB.s_blocks_per_group = CFG_BPG; SB.s_clusters_per_group = CFG_BPG; SB.s_inodes_per_group = CFG_IPG;
	SB.s_inodes_count = IN.cnt * CFG_IPG;
	SB.s_feature_ro_compat = IN.ro; SB.s_feature_compat = IN.compat; SB.s_feature_incompat = IN.incompat;
	/* the filesystem ends inside the last group; the ghost group's length agrees with that when it is the last one */
	ASSUME(IN.blocks_count > (unsigned long long)CFG_BPG * (IN.cnt - 1) && IN.blocks_count <= (unsigned long long)CFG_BPG * IN.cnt);
	ASSUME(IN.g != IN.cnt - 1 || IN.gg_blocks == IN.blocks_count - (unsigned long long)CFG_BPG * (IN.cnt - 1));
	g_gg = IN.g; g_b = IN.b; g_k = IN.k;
	ASSUME(IN.b < (1ULL << 48) && IN.k < (1ULL << 33));
	PB.sum_free = 0; PB.n_bset_gg = 0; PB.bset_gg_val = 0; PB.range_start = 0; PB.range_num = 0; PB.gg_range_start = 0; PB.gg_range_num = 0;
	PB.gg_max = 0; PB.gg_n = 0; PB.gg_nbytes = 0; PB.gg_by_count = 0; PB.gg_cnt_pos = 0; PB.cur_group = 0; PB.cur_max = 0; PB.pos = 0; PB.n_test_b = 0;
	PB.free_set = 0; PB.n_free_set = 0;
	PI.isum = 0; PI.n_iset_gg = 0; PI.iset_gg_val = 0; PI.igroup = 0; PI.iuninit = 0; PI.neg = 0; PI.gg_neg = 0; PI.n_test_k = 0;

	errcode_t r = resize2fs_calculate_summary_stats(&FS);

	if (r == 0) {
		CHECK(PB.n_free_set == 1 && PB.free_set == PB.sum_free, "B3: s_free_blocks_count is the sum of the per-group free counts");
		CHECK(SB.s_free_inodes_count == (unsigned int)PI.isum, "I2: s_free_inodes_count is the sum of the per-group free inode counts");
		if (IN.g < IN.cnt) {
			CHECK(PB.n_bset_gg == 1 && PI.n_iset_gg == 1, "every group's counts are set exactly once");
			CHECK(PB.gg_range_start == (unsigned long long)CFG_BPG * IN.g && PB.gg_range_num == CFG_BPG, "B1: the range examined is the group's own");
			CHECK(PB.gg_max == IN.gg_blocks && PB.bset_gg_val == PB.gg_max - GG_N, "B2: free blocks = clusters of the group - marked clusters");
			if (!PB.gg_by_count) {
				CHECK(PB.gg_nbytes * 8 == PB.gg_max || IN.g != IN.cnt - 1, "B2: bitcount covers exactly the group's clusters (whole bytes)");
				REACH("by_bitcount");
			} else {
				CHECK(IN.g == IN.cnt - 1 && (IN.gg_blocks & 7), "B2: per-cluster counting only for a short last group");
				REACH("by_counting");
			}
			CHECK(PI.iset_gg_val == (GG_IUNINIT ? CFG_IPG : PI.gg_neg), "I1: free inodes = all (INODE_UNINIT) or the unmarked inodes of the group");
			if (GG_IUNINIT) REACH("inode_uninit");
		}
		if (IN.b >= (unsigned long long)CFG_BPG * (IN.cnt - 1) && IN.b < IN.blocks_count && (IN.blocks_count & 7)) {
			CHECK(PB.n_test_b == 1, "B2: every cluster of a short last group is tested exactly once");
			REACH("short_last_group_block");
		}
		if (IN.k >= 1 && IN.k <= SB.s_inodes_count && (IN.k - 1) / CFG_IPG == IN.g && !GG_IUNINIT) {
			CHECK(PI.n_test_k == 1, "I1: every inode of an initialised group is tested exactly once");
			REACH("inode_tested");
		}
		REACH("success");
	} else {
		CHECK(r == ENOMEM || r == IN.ret_range, "failures come from malloc or the bitmap read");
		REACH("failed");
	}
	REACH("end");
}
