/* VERIF-UNIT
{
 "name": "rsz_ss2_reserve",
 "props": ["C08", "C20"],
 "level": "U/iter",
 "tier": "quick",
 "tier_after_hooks": "quick",
 "harness": "h_ss2_reserve",
 "includes": ["resize"],
 "loop_contracts": true,
 "unwind": 12,
 "unwind_reason": "both loops of reserve_sparse_super2_last_group are cut by the in-place loop contracts VERIF_INV_RESERVE_SS2_GROUPS / _BLOCKS (invariant + decreases); the bound only serves instrumentation loops",
 "cbmc_flags": ["--object-bits", "12"],
 "backend": "cadical",
 "functions": ["resize/resize2fs.c:reserve_sparse_super2_last_group"],
 "assumes": ["big translation unit: no contract is enforced; the real static function is called directly, the statement is made by harness CHECKs over the ghost monitor of rsz_common.h (bitmaps observed at ONE arbitrary ghost block, descriptors at ONE arbitrary ghost group; everything else answers arbitrarily)",
             "ext2fs_super_and_bgd_loc2 is a stub that answers what the format prescribes for the asked group (specs/spec_geom.h: super block iff spec_bg_has_super, old-style descriptors right behind it unless the group is in the meta_bg region), with the group's first block an arbitrary input (no symbolic product); that the real function satisfies this is geometry/super_bgd_loc*",
             "ext2fs_allocate_group_table is the ghost allocator of rsz_common.h: it places every table of the group whose location is 0 on blocks that are free in the bitmap it is given and marks them there; it may fail",
             "both handles have at least one group; block numbers < 2^48; the superblock + descriptor run of a group is shorter than 2^31 blocks"],
 "native": false
}
*/
/*
 * C20 / C08 — shrinking a sparse_super2 filesystem: s_backup_bgs[1] names the LAST group, so when the number of groups
 * shrinks a group that carried no backup becomes the backup group.  The blocks the format prescribes for its superblock
 * copy and old-style descriptor copies (ext2fs_super_and_bgd_loc2 of the NEW geometry) may be in use by files or by tables.
 * reserve_sparse_super2_last_group must, for EVERY block b of that run:
 *   - mark b in use in the new filesystem (new_fs->block_map) BEFORE any table is re-allocated, so that the allocator cannot
 *     hand it out (ordering, ghost clock), and in rfs->reserve_blocks (no relocation target, no table of blocks_to_move);
 *   - mark b in rfs->move_blocks exactly when a file uses it (in use in the old map and not old metadata);
 *   - no bitmap / inode table of ANY group still lies on b afterwards (tables that did are re-allocated);
 * for every block outside the run: nothing changes (except that the allocator may have taken it);
 * and when the feature is off, the group count does not shrink, or the new last group is not a NEW backup group: nothing at all.
 */
#include "verif.h"
#include "spec_geom.h"

#include <stdlib.h>
#include <stdio.h>
void rsz_exit(int code);
#define exit(c) rsz_exit(c)

#include "rsz_in.h"
struct in_s {
	RSZ_IN_FIELDS;
	unsigned int old_cnt, new_cnt, ipb;
	unsigned int o_compat, o_ro, o_bbg0, o_bbg1, n_compat, n_ro, n_bbg0, n_bbg1, n_incompat;
	unsigned long long b, loc_new[3], loc_old[3], sb_loc, needed;
	unsigned int g, old_desc_count;
	unsigned char bit[8], in_meta, holder;
	long ret_loc2;
};
struct in_s IN;
#include "verif_in.h"

/* spec-side record of the run [S.sb, S.sb + S.n) and of the entry state */
static struct {
	unsigned long long sb, n;
	unsigned long long L0[3];
	unsigned char bit0[8];
	unsigned long long ipb;
} S;
#define INRANGE(x)	((x) >= S.sb && (x) - S.sb < S.n)
#define TBL_HAS(loc, len, x)	((loc) != 0 && (x) >= (loc) && (x) - (loc) < (len))
/* the ghost block lies on one of the three tables of the ghost group (new handle) */
#define ON_TABLES_NOW(x)	(TBL_HAS(G.loc[0][T_BB], 1, x) || TBL_HAS(G.loc[0][T_IB], 1, x) || TBL_HAS(G.loc[0][T_IT], S.ipb, x))
#define MOVE_SPEC		(S.bit0[BM_MOVE] || (S.bit0[BM_OLD] && !S.bit0[BM_META]))

#define VERIF_INV_RESERVE_SS2_GROUPS \
	__CPROVER_assigns(g, realloc, retval, G) \
	__CPROVER_loop_invariant(g <= fs->group_desc_count && sb == S.sb && num == S.n && S.ipb == fs->inode_blocks_per_group) \
	__CPROVER_loop_invariant(G.clock >= __CPROVER_loop_entry(G.clock) && G.n_loc2 == 1 && G.loc2_bad == 0 && G.agt_bad_bmap == 0 && G.n_agt_rsv == 0) \
	__CPROVER_loop_invariant(G.t_mark[BM_NEW] == __CPROVER_loop_entry(G.t_mark[BM_NEW]) && (G.t_agt_first == 0 || G.t_agt_first > __CPROVER_loop_entry(G.clock))) \
	__CPROVER_loop_invariant(!INRANGE(GI.b) || (G.bit[BM_NEW] == 1 && G.agt_took_b == 0)) \
	__CPROVER_loop_invariant(INRANGE(GI.b) || G.bit[BM_NEW] == (S.bit0[BM_NEW] || G.agt_took_b != 0)) \
	__CPROVER_loop_invariant(G.bit[BM_OLD] == S.bit0[BM_OLD] && G.bit[BM_META] == S.bit0[BM_META] && G.bit[BM_RESERVE] == S.bit0[BM_RESERVE] && G.bit[BM_MOVE] == S.bit0[BM_MOVE]) \
	__CPROVER_loop_invariant(GI.g < g || (G.loc[0][T_BB] == S.L0[T_BB] && G.loc[0][T_IB] == S.L0[T_IB] && G.loc[0][T_IT] == S.L0[T_IT])) \
	__CPROVER_loop_invariant(!(GI.g < g && INRANGE(GI.b)) || !ON_TABLES_NOW(GI.b)) \
	__CPROVER_loop_invariant(G.loc[1][T_BB] == __CPROVER_loop_entry(G.loc[1][T_BB]) && G.loc[1][T_IB] == __CPROVER_loop_entry(G.loc[1][T_IB]) && G.loc[1][T_IT] == __CPROVER_loop_entry(G.loc[1][T_IT])) \
	__CPROVER_decreases(fs->group_desc_count - g)

#define VERIF_INV_RESERVE_SS2_BLOCKS \
	__CPROVER_assigns(blk, i, rfs->needed_blocks, G.clock, G.n_events, G.nch, \
			  G.bit[BM_RESERVE], G.bit[BM_MOVE], G.nmark[BM_RESERVE], G.nmark[BM_MOVE], G.t_mark[BM_RESERVE], G.t_mark[BM_MOVE]) \
	__CPROVER_loop_invariant(i <= num && blk == sb + i && sb == S.sb && num == S.n) \
	__CPROVER_loop_invariant(!(GI.b >= sb && GI.b - sb < i) || (G.bit[BM_RESERVE] == 1 && G.bit[BM_MOVE] == MOVE_SPEC)) \
	__CPROVER_loop_invariant((GI.b >= sb && GI.b - sb < i) || (G.bit[BM_RESERVE] == S.bit0[BM_RESERVE] && G.bit[BM_MOVE] == S.bit0[BM_MOVE])) \
	__CPROVER_loop_invariant(rfs->needed_blocks >= __CPROVER_loop_entry(rfs->needed_blocks) && rfs->needed_blocks - __CPROVER_loop_entry(rfs->needed_blocks) <= i) \
	__CPROVER_decreases(num - i)

#include "rsz_common.h"
#include "resize/resize2fs.c"

unsigned long long verif_k;

void rsz_exit(int code)
{
	CHECK(0, "the 'Should never happen' exits are unreachable when ext2fs_super_and_bgd_loc2 answers by the format");
	ASSUME(0);
}

static struct spec_geom NG;	/* the new geometry, as far as "which group carries a backup" goes */
static unsigned int g_last_bg;

errcode_t ext2fs_super_and_bgd_loc2(ext2_filsys fs, dgrp_t group, blk64_t *ret_super_blk, blk64_t *ret_old_desc_blk,
				    blk64_t *ret_new_desc_blk, blk_t *ret_used_blks)
{
	int has = spec_geom_has_super(&NG, group);
	blk64_t sb = has ? IN.sb_loc : 0, od = (IN.in_meta || !has) ? 0 : sb + 1;
	blk_t used = (has ? 1 : 0) + (IN.in_meta ? (IN.holder & 1) : (has ? IN.old_desc_count : 0));
	G.n_loc2++;
	if (fs != rsz_new_fs || group != g_last_bg || !ret_super_blk || !ret_old_desc_blk || !ret_used_blks)
		G.loc2_bad++;
	if (IN.ret_loc2)
		return IN.ret_loc2;
	*ret_super_blk = sb;
	*ret_old_desc_blk = od;
	if (ret_new_desc_blk) *ret_new_desc_blk = 0;
	*ret_used_blks = used;
	S.sb = sb;
	S.n = od ? used : 1;	/* the run the format gives the group: super block (+ old-style descriptor copies) */
	return 0;
}

void h_ss2_reserve(void)
{
	static struct struct_ext2_filsys NFS, OFS;
	static struct ext2_super_block NSB, OSB;
	static struct ext2_resize_struct RFS;
	int i;
	LOAD_IN();
	rsz_ghost_init();
	ASSUME(IN.old_cnt >= 1 && IN.new_cnt >= 1 && IN.ipb >= 1);
	NFS.super = &NSB; OFS.super = &OSB;
	NFS.group_desc_count = IN.new_cnt; OFS.group_desc_count = IN.old_cnt;
	NFS.inode_blocks_per_group = IN.ipb; OFS.inode_blocks_per_group = IN.ipb;
	NSB.s_feature_compat = IN.n_compat; NSB.s_feature_ro_compat = IN.n_ro; NSB.s_feature_incompat = IN.n_incompat;
	OSB.s_feature_compat = IN.o_compat; OSB.s_feature_ro_compat = IN.o_ro; OSB.s_feature_incompat = IN.n_incompat;
	NSB.s_backup_bgs[0] = IN.n_bbg0; NSB.s_backup_bgs[1] = IN.n_bbg1;
	OSB.s_backup_bgs[0] = IN.o_bbg0; OSB.s_backup_bgs[1] = IN.o_bbg1;
	NFS.block_map = BMH(BM_NEW); OFS.block_map = BMH(BM_OLD);
	RFS.new_fs = &NFS; RFS.old_fs = &OFS; RFS.reserve_blocks = BMH(BM_RESERVE); RFS.move_blocks = BMH(BM_MOVE);
	RFS.needed_blocks = IN.needed;
	ASSUME(IN.needed < (1ULL << 48));
	rsz_new_fs = &NFS; rsz_old_fs = &OFS;
	g_last_bg = IN.new_cnt - 1;
	NG.compat = IN.n_compat; NG.ro_compat = IN.n_ro; NG.bbg0 = IN.n_bbg0; NG.bbg1 = IN.n_bbg1;
	ASSUME(IN.b < (1ULL << 48) && IN.sb_loc < (1ULL << 48) && IN.old_desc_count < (1u << 31) - 1);
	ASSUME(g_last_bg == 0 || IN.sb_loc >= 1);	/* a group other than 0 does not start at block 0 */
	GI.b = IN.b; GI.g = IN.g;
	for (i = 0; i < BM_NR; i++) { G.bit[i] = IN.bit[i] & 1; S.bit0[i] = G.bit[i]; }
	for (i = 0; i < T_NR; i++) {
		ASSUME(IN.loc_new[i] < (1ULL << 48) && IN.loc_old[i] < (1ULL << 48));
		G.loc[0][i] = IN.loc_new[i]; G.loc[1][i] = IN.loc_old[i]; S.L0[i] = IN.loc_new[i];
	}
	S.ipb = IN.ipb; S.sb = 0; S.n = 0;

	/* the format's view (spec_pow.h): does a group carry a backup under a given superblock */
	int ss2 = (IN.n_compat & SPEC_COMPAT_SPARSE_SUPER2) != 0;
	unsigned int last_bg = IN.new_cnt - 1, old_last_bg = IN.old_cnt - 1;
	int has_new = spec_bg_has_super(last_bg, IN.n_compat, IN.n_ro, IN.n_bbg0, IN.n_bbg1);
	int had_old = spec_bg_has_super(last_bg, IN.n_compat, IN.n_ro, IN.o_bbg0, IN.o_bbg1);
	int newly = ss2 && last_bg < old_last_bg && has_new && !had_old;

	errcode_t r = reserve_sparse_super2_last_group(&RFS, BMH(BM_META));

	if (!ss2 || last_bg >= old_last_bg || (last_bg >= 1 && !newly)) {
		CHECK(r == 0 && G.n_events == 0 && G.n_loc2 == 0 && RFS.needed_blocks == IN.needed,
		      "feature off, group count not shrinking, or the new last group is not a NEW backup group: nothing is touched");
		if (!ss2) REACH("feature_off");
		if (ss2 && last_bg >= old_last_bg) REACH("not_shrinking");
		if (ss2 && last_bg < old_last_bg && last_bg >= 1 && had_old) REACH("already_backup");
		if (ss2 && last_bg < old_last_bg && last_bg >= 1 && !has_new) REACH("no_backup");
	} else if (r != 0) {
		CHECK((G.n_loc2 == 1 && IN.ret_loc2 == r) || G.n_agt > 0, "failure comes from ext2fs_super_and_bgd_loc2 or from the allocator");
		CHECK(IN.ret_loc2 == 0 || G.n_events == 0, "failure of ext2fs_super_and_bgd_loc2: nothing touched");
		REACH("failed");
	} else if (newly) {
		CHECK(G.n_loc2 == 1 && G.loc2_bad == 0, "the run is the one the format gives the NEW last group in the NEW geometry");
		CHECK(G.agt_bad_bmap == 0 && G.n_agt_rsv == 0, "tables are re-allocated in new_fs from its own block map");
		if (INRANGE(IN.b)) {
			CHECK(G.bit[BM_NEW] == 1, "every block of the run is in use in the new filesystem");
			CHECK(G.bit[BM_RESERVE] == 1, "every block of the run is reserved");
			CHECK(G.bit[BM_MOVE] == MOVE_SPEC, "a block of the run is to be moved exactly when a file uses it (old map, not old metadata)");
			CHECK(G.t_mark[BM_NEW] != 0 && (G.t_agt_first == 0 || G.t_mark[BM_NEW] < G.t_agt_first), "the run is marked in the block map BEFORE any table is re-allocated");
			CHECK(G.agt_took_b == 0, "the allocator never hands out a block of the run");
			CHECK(IN.g >= IN.new_cnt || !ON_TABLES_NOW(IN.b), "no bitmap / inode table of any group lies on the run afterwards");
			REACH("in_run");
			if (IN.g < IN.new_cnt && TBL_HAS(S.L0[T_IT], S.ipb, IN.b)) REACH("itable_was_on_run");
			if (S.bit0[BM_OLD] && !S.bit0[BM_META]) REACH("file_block_on_run");
		} else {
			CHECK(G.bit[BM_RESERVE] == S.bit0[BM_RESERVE] && G.bit[BM_MOVE] == S.bit0[BM_MOVE], "blocks outside the run: reservation and move sets unchanged");
			CHECK(G.bit[BM_NEW] == (S.bit0[BM_NEW] || G.agt_took_b != 0), "blocks outside the run: in use only if they were or the allocator took them");
			REACH("outside_run");
		}
		CHECK(G.bit[BM_OLD] == S.bit0[BM_OLD] && G.bit[BM_META] == S.bit0[BM_META], "old map and metadata map are only read");
		CHECK(G.loc[1][T_BB] == IN.loc_old[T_BB] && G.loc[1][T_IB] == IN.loc_old[T_IB] && G.loc[1][T_IT] == IN.loc_old[T_IT], "old descriptors untouched");
		CHECK(RFS.needed_blocks >= IN.needed && RFS.needed_blocks - IN.needed <= S.n, "needed_blocks grows by at most the run length");
		if (S.n > 1) REACH("with_descriptors");
		if (S.n == 1) REACH("super_only");
	} else {
		/* last_bg == 0 (shrink to one group): group 0 always has the primary; whatever is done stays inside its run */
		CHECK(G.n_loc2 <= 1 && (G.n_loc2 == 1 || G.n_events == 0), "one group left: at most the primary's own run is looked at");
		CHECK(INRANGE(IN.b) || (G.bit[BM_RESERVE] == S.bit0[BM_RESERVE] && G.bit[BM_MOVE] == S.bit0[BM_MOVE]), "one group left: nothing outside the primary's run is marked");
		REACH("one_group");
	}
	REACH("end");
}
