/*
 * rsz_common.h — ghost monitor and library stubs shared by the units that compile the real resize/resize2fs.c.
 *
 * The translation unit is 3300 lines; following proofs/geometry/resize_protocol.c no contract is ENFORCED in it (the frame
 * instrumentation does not terminate): the real function under test is called directly by the harness, the statement is
 * made by harness CHECKs over a ghost monitor, static callees are replaced by contracts (on re-declarations after the
 * #include), libext2fs callees are the stubs below.
 *
 * Ghost view of the five block bitmaps resize2fs juggles, observed at ONE arbitrary ghost block GI.b (stands for "for all
 * blocks"); every other block is unconstrained (tests on it answer arbitrarily, marks on it are not recorded):
 *   BM_NEW      rfs->new_fs->block_map      blocks in use in the filesystem being built
 *   BM_OLD      rfs->old_fs->block_map      blocks in use before the resize
 *   BM_RESERVE  rfs->reserve_blocks         blocks no relocation target / new table may be put on
 *   BM_MOVE     rfs->move_blocks            blocks whose content must be relocated
 *   BM_META     meta_bmap (blocks_to_move)  metadata blocks of the OLD geometry
 *   BM_NEWMETA  new_meta_bmap               metadata of the new geometry (bigalloc shrink path)
 * and of the table locations of ONE arbitrary ghost group GI.g in both handles.
 * A ghost clock G.clock numbers the stub events; G.t_* remember when something happened first (0 = never).
 *
 * The unit declares `struct in_s IN` with (at least) the members RSZ_IN_FIELDS (rsz_in.h) before including this header, and includes
 * the real file afterwards.
 */
#ifndef RSZ_COMMON_H
#define RSZ_COMMON_H

#include "rsz_in.h"
#include "config.h"
#include "ext2fs/ext2_fs.h"
#include "ext2fs/ext2fs.h"

enum { BM_NEW, BM_OLD, BM_RESERVE, BM_MOVE, BM_META, BM_NEWMETA, BM_NR };
enum { T_BB, T_IB, T_IT, T_NR };	/* block bitmap, inode bitmap, inode table */

/* the ghost indices: chosen by the harness, never written afterwards (kept apart so that loops may havoc G as a whole) */
static struct { unsigned long long b; unsigned int g; } GI;	/* ghost block, ghost group */

static struct rsz_ghost {
	unsigned char bit[BM_NR];		/* b is a member of the set */
	unsigned int clock;			/* event clock (starts at 1) */
	unsigned int t_mark[BM_NR];		/* clock of the first mark of b in the set by the code under test */
	unsigned int t_unmark[BM_NR];		/* clock of the first unmark */
	unsigned int nmark[BM_NR];		/* mark events that hit b */
	unsigned long long loc[2][T_NR];	/* table locations of group g: [0] new_fs, [1] old_fs */
	unsigned int t_zero[T_NR];		/* clock when new_fs's location of group g was set to 0 */
	unsigned int lq_grp[2][T_NR]; unsigned long long lq_val[2][T_NR]; unsigned char lq_ok[2][T_NR];	/* last answer about another group (repeated queries agree) */
	unsigned int t_agt_first, t_agt_last;	/* first / last ext2fs_allocate_group_table call (any group) */
	unsigned int t_agt_g;			/* last call for the ghost group */
	unsigned int n_agt, n_agt_rsv, n_agt_map;	/* calls; with an explicit bitmap; with bmap == 0 (fs->block_map) */
	unsigned int agt_took_b;		/* how often the allocator handed out the ghost block */
	unsigned int agt_took_b_rsv;		/* ... when allocating from rfs->reserve_blocks */
	unsigned int t_agt_map_last, t_agt_rsv_first;	/* last call with bmap == 0, first call with an explicit bitmap */
	unsigned int t_agt_took_b;		/* ... and when (first) */
	unsigned int agt_bad_bmap;		/* allocate_group_table called with an unexpected bitmap */
	unsigned int agt_rsv_early, agt_map_late;	/* allocation from reserve_blocks before / from the block map after reserve_sparse_super2_last_group */
	unsigned int mfm_hit_b;			/* mark_fs_metablock (replaced) calls on the ghost block */
	unsigned int nch;			/* choice counter */
	unsigned int n_loc2;			/* ext2fs_super_and_bgd_loc2 calls */
	unsigned int loc2_bad;			/* ... with unexpected arguments */
	unsigned int n_stats;			/* ext2fs_block_alloc_stats2 calls hitting b (+1) */
	int stats_delta;			/* net alloc_stats2 inuse delta at b */
	unsigned int t_stats;			/* clock of first alloc_stats2 at b */
	unsigned int n_events;			/* every recorded stub event */
	unsigned int t_rsv_ss2;			/* blocks_to_move: reserve_sparse_super2_last_group (replaced) entered */
	unsigned int n_rsv_ss2;
	unsigned int n_mfm;			/* mark_fs_metablock (replaced) calls */
	unsigned int t_mfm_first;
	unsigned int n_mtb;			/* mark_table_blocks (replaced) calls */
#ifdef RSZ_EXTRA_GHOST
	RSZ_EXTRA_GHOST				/* members a unit adds for its own stubs */
#endif
} G;

static char rsz_bmobj[BM_NR];		/* the opaque bitmap handles are the addresses of these bytes */
#define BMH(i)		((ext2fs_block_bitmap)(void *)&rsz_bmobj[i])
#define BMIDX(bm)	((int)((char *)(void *)(bm) - rsz_bmobj))

static unsigned int rsz_tick(void)
{
	/* the clock and the counters are mathematical integers: they do not wrap (2^32 stub events are not a behaviour) */
	ASSUME(G.clock < 0xfffffff0u && G.n_events < 0xfffffff0u);
	G.n_events++;
	return ++G.clock;
}
static unsigned char rsz_ch(void) { return IN.ch[G.nch++ % RSZ_NCH]; }
static unsigned long long rsz_chv(void) { return IN.chv[G.nch++ % RSZ_NCH]; }

static void rsz_ghost_init(void)
{
	int i;
	G.clock = 1; G.nch = 0; G.n_events = 0;
	for (i = 0; i < BM_NR; i++) { G.t_mark[i] = 0; G.t_unmark[i] = 0; G.nmark[i] = 0; }
	for (i = 0; i < T_NR; i++) { G.t_zero[i] = 0; G.lq_ok[0][i] = G.lq_ok[1][i] = 0; }
	G.agt_took_b_rsv = G.t_agt_map_last = G.t_agt_rsv_first = G.agt_rsv_early = G.agt_map_late = G.mfm_hit_b = 0;
	G.t_agt_first = G.t_agt_last = G.t_agt_g = G.n_agt = G.n_agt_rsv = G.n_agt_map = G.agt_took_b = G.t_agt_took_b = G.agt_bad_bmap = 0;
	G.n_loc2 = G.loc2_bad = G.n_stats = G.t_stats = 0; G.stats_delta = 0;
	G.t_rsv_ss2 = G.n_rsv_ss2 = G.n_mfm = G.t_mfm_first = G.n_mtb = 0;
}

static ext2_filsys rsz_new_fs, rsz_old_fs;	/* the two handles (set by the harness) */

/* ---- bitmap primitives (the inline ext2fs_*_block_bitmap2 of bitops.h end here) ---- */
#ifndef RSZ_NO_BITMAP_STUBS
int ext2fs_test_generic_bmap(ext2fs_generic_bitmap bitmap, __u64 arg)
{
	int i = BMIDX(bitmap);
	if (arg == GI.b)
		return G.bit[i];
#ifdef RSZ_BLOCK0_IN_USE
	if (arg == 0 && (i == BM_NEW || i == BM_OLD))
		return 1;	/* block 0 (boot sector / primary superblock) is never free */
#endif
	return rsz_ch() & 1;
}
int ext2fs_mark_generic_bmap(ext2fs_generic_bitmap bitmap, __u64 arg)
{
	int i = BMIDX(bitmap), old;
	unsigned int t = rsz_tick();
	if (arg != GI.b)
		return rsz_ch() & 1;
	old = G.bit[i];
	G.bit[i] = 1;
	G.nmark[i]++;
	if (!G.t_mark[i]) G.t_mark[i] = t;
	return old;
}
int ext2fs_unmark_generic_bmap(ext2fs_generic_bitmap bitmap, __u64 arg)
{
	int i = BMIDX(bitmap), old;
	unsigned int t = rsz_tick();
	if (arg != GI.b)
		return rsz_ch() & 1;
	old = G.bit[i];
	G.bit[i] = 0;
	if (!G.t_unmark[i]) G.t_unmark[i] = t;
	return old;
}
void ext2fs_mark_block_bitmap_range2(ext2fs_block_bitmap bitmap, blk64_t block, unsigned int num)
{
	int i = BMIDX(bitmap);
	unsigned int t = rsz_tick();
	if (GI.b >= block && GI.b - block < num) {
		G.bit[i] = 1;
		G.nmark[i]++;
		if (!G.t_mark[i]) G.t_mark[i] = t;
	}
}
void ext2fs_unmark_block_bitmap_range2(ext2fs_block_bitmap bitmap, blk64_t block, unsigned int num)
{
	int i = BMIDX(bitmap);
	unsigned int t = rsz_tick();
	if (GI.b >= block && GI.b - block < num) {
		G.bit[i] = 0;
		if (!G.t_unmark[i]) G.t_unmark[i] = t;
	}
}
#endif

/* ---- table locations of the group descriptors (lib/ext2fs/blknum.c) ---- */
#ifndef RSZ_NO_LOC_STUBS
static unsigned long long rsz_get_loc(ext2_filsys fs, dgrp_t group, int kind)
{
	int f = (fs == rsz_old_fs);
	if (group == GI.g && (fs == rsz_new_fs || fs == rsz_old_fs))
		return G.loc[f][kind];
	/* another group: arbitrary, but the same answer as long as the same descriptor is asked about again */
	if (G.lq_ok[f][kind] == 1 && G.lq_grp[f][kind] == group)
		return G.lq_val[f][kind];
	{
		unsigned long long v = rsz_chv();
#ifdef RSZ_OTHER_LOC_OK
		ASSUME(RSZ_OTHER_LOC_OK(v, kind));	/* the unit's assumption about the tables of groups other than the ghost group */
#endif
		G.lq_ok[f][kind] = 1; G.lq_grp[f][kind] = group; G.lq_val[f][kind] = v;
		return v;
	}
}
static void rsz_set_loc(ext2_filsys fs, dgrp_t group, int kind, blk64_t blk)
{
	unsigned int t = rsz_tick();
	int f = (fs == rsz_old_fs);
	if (group == GI.g && (fs == rsz_new_fs || fs == rsz_old_fs)) {
		G.loc[f][kind] = blk;
		if (fs == rsz_new_fs && blk == 0 && !G.t_zero[kind]) G.t_zero[kind] = t;
	} else {
		G.lq_ok[f][kind] = 1; G.lq_grp[f][kind] = group; G.lq_val[f][kind] = blk;
	}
}
blk64_t ext2fs_block_bitmap_loc(ext2_filsys fs, dgrp_t group) { return rsz_get_loc(fs, group, T_BB); }
blk64_t ext2fs_inode_bitmap_loc(ext2_filsys fs, dgrp_t group) { return rsz_get_loc(fs, group, T_IB); }
blk64_t ext2fs_inode_table_loc(ext2_filsys fs, dgrp_t group) { return rsz_get_loc(fs, group, T_IT); }
void ext2fs_block_bitmap_loc_set(ext2_filsys fs, dgrp_t group, blk64_t blk) { rsz_set_loc(fs, group, T_BB, blk); }
void ext2fs_inode_bitmap_loc_set(ext2_filsys fs, dgrp_t group, blk64_t blk) { rsz_set_loc(fs, group, T_IB, blk); }
void ext2fs_inode_table_loc_set(ext2_filsys fs, dgrp_t group, blk64_t blk) { rsz_set_loc(fs, group, T_IT, blk); }
#endif

/*
 * ext2fs_allocate_group_table (lib/ext2fs/alloc_tables.c; its own units are geometry/allocate_group_table_*): every table
 * of `group` whose location is 0 gets blocks that are FREE IN `bmap` (fs->block_map when bmap == 0), which are then marked in
 * that bitmap and stored in the descriptor.  Ghost version: the allocator may hand out the ghost block exactly when the
 * ghost block is free in that bitmap; for the ghost group the new locations are recorded.  The inode table is a run of
 * fs->inode_blocks_per_group blocks.
 */
#ifndef RSZ_NO_AGT_STUB
static int rsz_agt_pick(int i, int kind, unsigned int t, unsigned long long len, int ghost_group)
{
	/* returns the new location: a run of len blocks that covers the ghost block (only if free), or some run that does not */
	unsigned long long s = rsz_chv();
	ASSUME(s != 0 && s < (1ULL << 48) && len >= 1 && len < (1ULL << 32));
	if (GI.b >= s && GI.b - s < len) {
		ASSUME(G.bit[i] == 0);		/* only free blocks are handed out */
		G.bit[i] = 1;
		G.agt_took_b++;
		if (i == BM_RESERVE) G.agt_took_b_rsv++;
		if (!G.t_agt_took_b) G.t_agt_took_b = t;
	}
	if (ghost_group)
		G.loc[0][kind] = s;
	return 0;
}
errcode_t ext2fs_allocate_group_table(ext2_filsys fs, dgrp_t group, ext2fs_block_bitmap bmap)
{
	unsigned int t = rsz_tick();
	int i, gg = (group == GI.g);
	ASSUME(G.n_agt < 0xfffffff0u && G.agt_took_b < 0xfffffff0u);	/* counters do not wrap */
	G.n_agt++;
	if (!G.t_agt_first) G.t_agt_first = t;
	G.t_agt_last = t;
	if (gg) G.t_agt_g = t;
	if (fs != rsz_new_fs) G.agt_bad_bmap++;
	if (bmap != 0 && G.n_rsv_ss2 == 0) G.agt_rsv_early++;
	if (bmap == 0 && G.n_rsv_ss2 != 0) G.agt_map_late++;
	if (bmap == 0) { G.n_agt_map++; i = BM_NEW; G.t_agt_map_last = t; }
	else { G.n_agt_rsv++; i = BM_RESERVE; if (bmap != BMH(BM_RESERVE)) G.agt_bad_bmap++; if (!G.t_agt_rsv_first) G.t_agt_rsv_first = t; }
	if (rsz_ch() & 1)
		return EXT2_ET_BLOCK_ALLOC_FAIL;
	if (!gg) G.lq_ok[0][T_BB] = G.lq_ok[0][T_IB] = G.lq_ok[0][T_IT] = 0;	/* descriptors of another group change */
	/* a table of the ghost group is (re)placed iff its location is 0; for other groups: arbitrarily */
	if (gg ? G.loc[0][T_BB] == 0 : (rsz_ch() & 1))
		rsz_agt_pick(i, T_BB, t, 1, gg);
	if (gg ? G.loc[0][T_IB] == 0 : (rsz_ch() & 1))
		rsz_agt_pick(i, T_IB, t, 1, gg);
	if (gg ? G.loc[0][T_IT] == 0 : (rsz_ch() & 1))
		rsz_agt_pick(i, T_IT, t, fs->inode_blocks_per_group, gg);
	return 0;
}
#endif

/* ---- small things every unit needs ---- */
#ifndef RSZ_NO_MISC_STUBS
void ext2fs_free_block_bitmap(ext2fs_block_bitmap bitmap) { }
char *gettext(const char *msgid) { return (char *)msgid; }	/* ENABLE_NLS: _("...") */
void ext2fs_block_alloc_stats2(ext2_filsys fs, blk64_t blk, int inuse)
{
	unsigned int t = rsz_tick();
	if (blk == GI.b) {
		G.n_stats++;
		ASSUME(G.stats_delta > -0x40000000 && G.stats_delta < 0x40000000 && inuse >= -1 && inuse <= 1);	/* ghost counter does not wrap; callers pass +1 / -1 */
		G.stats_delta += inuse;
		if (!G.t_stats) G.t_stats = t;
		if (fs == rsz_new_fs) G.bit[BM_NEW] = inuse > 0;	/* alloc_stats marks / unmarks fs->block_map */
	}
#ifdef RSZ_T_HOOK
	RSZ_T_HOOK(fs, blk, inuse);	/* a unit's second ghost block */
#endif
}
#endif

#endif
