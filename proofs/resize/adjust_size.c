/* VERIF-UNIT
{
 "name": "rsz_adjust_new_size_4k",
 "props": ["C08"],
 "level": "U/k",
 "tier": "quick",
 "harness": "h_adjust_new_size",
 "includes": ["resize"],
 "defines": ["RGS_BPG=32768", "RGS_IPG=8192", "RGS_DPB=64", "CFG_LOG_BS=2", "CFG_DESC_SIZE=64", "CFG_FDB=0"],
 "unwind": 4,
 "unwind_reason": "the retry loop (backward goto) of adjust_new_size runs at most three times: one pass may drop a short last group, one may drop a group for the 2^32 inode limit, the third finds a full last group; --unwinding-assertions proves the bound",
 "cbmc_flags": ["--object-bits", "12"],
 "backend": "cadical",
 "functions": ["resize/resize2fs.c:adjust_new_size"],
 "assumes": ["configuration enumerated as constants (no symbolic products / divisions): 4 KiB blocks, 32768 blocks per group, 8192 inodes per group, 64-byte descriptors (64 per block), first data block 0; inode table blocks per group, reserved GDT blocks, feature flags, backup groups arbitrary",
             "sizes < 2^48 blocks and fewer than 2^32 groups (dgrp_t); reserved GDT blocks <= 1024 (blocksize / 4), inode table <= 8192 blocks per group",
             "ext2fs_bg_has_super answers by the format (specs/spec_pow.h; proved for the real function by closefs/bg_has_super)",
             "which group counts as 'carrying a backup' for a sparse_super2 filesystem follows resize2fs's convention that s_backup_bgs[1] tracks the last group (s_backup_bgs[0] when exactly two groups remain)"],
 "native": false
}
*/
/* VERIF-UNIT
{
 "name": "rsz_adjust_new_size_1k",
 "props": ["C08"],
 "level": "U/k",
 "tier": "quick",
 "harness": "h_adjust_new_size",
 "includes": ["resize"],
 "defines": ["RGS_BPG=8192", "RGS_IPG=2048", "RGS_DPB=32", "CFG_LOG_BS=0", "CFG_DESC_SIZE=32", "CFG_FDB=1"],
 "unwind": 4,
 "unwind_reason": "as rsz_adjust_new_size_4k",
 "cbmc_flags": ["--object-bits", "12"],
 "backend": "cadical",
 "functions": ["resize/resize2fs.c:adjust_new_size"],
 "assumes": ["as rsz_adjust_new_size_4k with the configuration 1 KiB blocks, 8192 blocks per group, 2048 inodes per group, 32-byte descriptors (32 per block), first data block 1; reserved GDT blocks <= 256"],
 "native": false
}
*/
/*
 * C08 — "a filesystem of exactly the reported size": the size resize2fs reports is computed by adjust_new_size before
 * anything is touched (main.c).  From the format (specs/resize_geom_spec.h) the reported size must be ACCEPTABLE: at least
 * one group, the inode count fits 32 bits, and the last group is full or big enough for its own bookkeeping (+ 50 blocks of
 * slack).  adjust_new_size(fs, &size) must
 *   - never enlarge the request, and drop less than two groups' worth of blocks;
 *   - keep an acceptable request as it is;
 *   - turn an unacceptable request into an acceptable one, except when that is impossible (no group at all; a single group
 *     that is too small; inode limit exceeded by more than a group): then the request is passed on unchanged (and refused
 *     by adjust_fs_info: unit rsz_adjust_fs_info_*);
 *   - be idempotent (applying it to its own result changes nothing): the value reported is a fixpoint.
 */
#include "verif.h"
#include "spec_pow.h"
#include "resize_geom_spec.h"

struct in_s {
	unsigned long long size;
	unsigned int ipb, rsv_gdt, compat, ro, incompat, bbg0, bbg1;
};
struct in_s IN;
#include "verif_in.h"

#include "resize/resize2fs.c"

unsigned long long verif_k;

int ext2fs_bg_has_super(ext2_filsys fs, dgrp_t group)
{
	struct ext2_super_block *sb = fs->super;
	return spec_bg_has_super(group, sb->s_feature_compat, sb->s_feature_ro_compat, sb->s_backup_bgs[0], sb->s_backup_bgs[1]);
}

/* will the last of `groups` groups carry a backup superblock + descriptors (see "assumes" for sparse_super2) */
static int last_has_backup(unsigned long long groups)
{
	if (IN.compat & SPEC_COMPAT_SPARSE_SUPER2)
		return groups == 2 ? IN.bbg0 != 0 : IN.bbg1 != 0;
	return spec_bg_has_super((unsigned int)(groups - 1), IN.compat, IN.ro, IN.bbg0, IN.bbg1);
}

void h_adjust_new_size(void)
{
	static struct struct_ext2_filsys FS;
	static struct ext2_super_block SB;
	struct rgs_cfg c;
	blk64_t s0, s1, s2;
	LOAD_IN();
	ASSUME(IN.size <= CFG_FDB + 0xffffffffULL * RGS_BPG);	/* the group count fits dgrp_t (32 bits) */
	ASSUME(IN.size < (1ULL << 48) && IN.ipb >= 1 && IN.ipb <= 8192 && IN.rsv_gdt <= (1024u << CFG_LOG_BS) / 4);
	FS.super = &SB;
	FS.inode_blocks_per_group = IN.ipb;
	FS.blocksize = 1024u << CFG_LOG_BS;
	SB.s_log_block_size = CFG_LOG_BS;
	SB.s_blocks_per_group = RGS_BPG;
	SB.s_inodes_per_group = RGS_IPG;
	SB.s_first_data_block = CFG_FDB;
	SB.s_desc_size = CFG_DESC_SIZE;
	SB.s_feature_compat = IN.compat; SB.s_feature_ro_compat = IN.ro;
	SB.s_feature_incompat = (CFG_DESC_SIZE == 64) ? (IN.incompat | EXT4_FEATURE_INCOMPAT_64BIT) : (IN.incompat & ~EXT4_FEATURE_INCOMPAT_64BIT);
	SB.s_reserved_gdt_blocks = IN.rsv_gdt;
	SB.s_backup_bgs[0] = IN.bbg0; SB.s_backup_bgs[1] = IN.bbg1;
	c.fdb = CFG_FDB; c.ipb = IN.ipb; c.rsv_gdt = IN.rsv_gdt;

	s0 = IN.size;
	s1 = s0;
	adjust_new_size(&FS, &s1);
	s2 = s1;
	adjust_new_size(&FS, &s2);

	unsigned long long g0 = rgs_groups(&c, s0), g1 = rgs_groups(&c, s1);
	int ok0 = g0 >= 1 && rgs_acceptable(&c, s0, last_has_backup(g0));
	int ok1 = g1 >= 1 && rgs_acceptable(&c, s1, last_has_backup(g1));

	CHECK(s1 <= s0, "the request is never enlarged");
	CHECK(s0 - s1 < 2ULL * RGS_BPG, "less than two groups' worth of blocks is dropped");
	CHECK(!ok0 || s1 == s0, "an acceptable request is kept");
	CHECK(s2 == s1, "the reported size is a fixpoint");
	if (s1 != s0) {
		CHECK(ok1, "a changed request is acceptable: last group full or big enough, inode count fits");
		CHECK(g1 < g0, "a change drops whole trailing groups");
		CHECK(rgs_last_group_blocks(&c, s1) == 0, "after a change the last group is full");
		REACH("changed");
		if (g1 + 2 == g0) REACH("dropped_two");
	} else if (!ok0) {
		/* impossible to repair: no group, a too small single group, or too many inodes even with one group less */
		CHECK(g0 == 0 || (g0 == 1 && rgs_last_group_blocks(&c, s0) != 0) || g0 * (unsigned long long)RGS_IPG > 0xffffffffULL,
		      "an unacceptable request is only passed on when it cannot be repaired");
		REACH("passed_on");
	}
	if (ok0 && rgs_last_group_blocks(&c, s0) != 0 && g0 > 1) REACH("short_last_group_kept");
	REACH("end");
}
