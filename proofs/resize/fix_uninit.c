/* VERIF-UNIT
{
 "name": "rsz_fix_uninit_block_bitmaps",
 "props": ["C08"],
 "level": "U/iter",
 "tier": "quick",
 "tier_after_hooks": "quick",
 "harness": "h_fix_uninit",
 "includes": ["resize"],
 "loop_contracts": true,
 "unwind": 12,
 "unwind_reason": "both loops of fix_uninit_block_bitmaps are cut by the in-place loop contracts VERIF_INV_FIX_UNINIT_GROUPS / _ITABLE (invariant + decreases); the bound serves the harness' initialisation loops and the DFCC library loops",
 "cbmc_flags": ["--object-bits", "12"],
 "backend": "cadical",
 "functions": ["resize/resize2fs.c:fix_uninit_block_bitmaps"],
 "assumes": ["big translation unit: no contract is enforced; the real static function is called directly, statement by harness CHECKs over the ghost monitor of rsz_common.h (fs->block_map observed at ONE arbitrary ghost block, descriptors at ONE arbitrary ghost group)",
             "group geometry is abstract: the ghost group owns the block range [first, last] (inputs); the ranges of the other groups do not contain a block of that range (groups partition the block space)",
             "a BLOCK_UNINIT group holds nothing but its own metadata (that is what the flag means): when the ghost block lies in the ghost group's range, no table of ANOTHER group lies on it (the stubs answer accordingly for the other groups)",
             "ext2fs_reserve_super_and_bgd(fs, g, bmap) marks exactly the superblock / descriptor blocks the format gives group g (geometry/reserve_super_and_bgd_*): at the ghost block an input predicate",
             "block numbers < 2^48; inode table < 2^32 blocks; group length < 2^32"],
 "native": false
}
*/
/*
 * C08 — the in-memory block bitmap a resize starts from: for a BLOCK_UNINIT group the on-disk bitmap is meaningless and
 * fix_uninit_block_bitmaps rebuilds it.  For EVERY block b of such a group g (per iteration of the group loop, ghost g, b):
 *     b is marked in fs->block_map   <=>   b is one of g's own metadata blocks:
 *         superblock / descriptor copies the format gives g (ext2fs_super_and_bgd_loc2), g's block bitmap, g's inode
 *         bitmap, or a block of g's inode table;
 * in a group without the flag no block is cleared (tables of other groups that lie there are marked, which they are already); without group-descriptor checksums (no uninit_bg) nothing is touched.
 */
#include "verif.h"
#include "rsz_in.h"
struct in_s {
	RSZ_IN_FIELDS;
	unsigned long long b, first, last, loc[3];
	unsigned int cnt, g, ipb, ro, compat, incompat;
	unsigned char bit_new, uninit, b_sbgd;
};
struct in_s IN;
#include "verif_in.h"

static struct {
	unsigned long long first, last, ipb;
	unsigned char uninit, b_sbgd, N0, b_in_gg;
} S;
#define COVERS(loc, len, x)	((x) >= (loc) && (x) - (loc) < (len))
#define IN_GG(x)		((x) >= S.first && (x) <= S.last)
/* b is one of the ghost group's own metadata blocks */
#define B_OWN_META	(S.b_sbgd || GI.b == G.loc[0][T_BB] || GI.b == G.loc[0][T_IB] || COVERS(G.loc[0][T_IT], S.ipb, GI.b))
/* tables of other groups do not lie inside the (BLOCK_UNINIT) ghost group */
#define RSZ_OTHER_LOC_OK(v, kind)	(!S.b_in_gg || !S.uninit || ((kind) == T_IT ? !COVERS(v, S.ipb, GI.b) : (v) != GI.b))

#define LQ_OK(k)	(G.lq_ok[0][k] != 1 || (G.lq_val[0][k] < (1ULL << 48) && RSZ_OTHER_LOC_OK(G.lq_val[0][k], k)))
#define VERIF_INV_FIX_UNINIT_GROUPS \
	__CPROVER_assigns(g, blk, lblk, i, G) \
	__CPROVER_loop_invariant(g <= fs->group_desc_count) \
	__CPROVER_loop_invariant(G.bit[BM_NEW] <= 1 && LQ_OK(T_BB) && LQ_OK(T_IB) && LQ_OK(T_IT)) \
	__CPROVER_loop_invariant(G.loc[0][T_BB] == __CPROVER_loop_entry(G.loc[0][T_BB]) && G.loc[0][T_IB] == __CPROVER_loop_entry(G.loc[0][T_IB]) && G.loc[0][T_IT] == __CPROVER_loop_entry(G.loc[0][T_IT])) \
	__CPROVER_loop_invariant(!(S.b_in_gg && S.uninit && GI.g < g) || G.bit[BM_NEW] == B_OWN_META) \
	__CPROVER_loop_invariant(!(S.b_in_gg && S.uninit && GI.g >= g) || G.bit[BM_NEW] == S.N0) \
	__CPROVER_loop_invariant(!(S.b_in_gg && !S.uninit) || G.bit[BM_NEW] >= S.N0) \
	__CPROVER_decreases(fs->group_desc_count - g)
#define VERIF_INV_FIX_UNINIT_ITABLE \
	__CPROVER_assigns(i, blk, G) \
	__CPROVER_loop_invariant(i <= fs->inode_blocks_per_group && G.bit[BM_NEW] <= 1 && LQ_OK(T_BB) && LQ_OK(T_IB) && LQ_OK(T_IT)) \
	__CPROVER_loop_invariant(G.loc[0][T_BB] == __CPROVER_loop_entry(G.loc[0][T_BB]) && G.loc[0][T_IB] == __CPROVER_loop_entry(G.loc[0][T_IB]) && G.loc[0][T_IT] == __CPROVER_loop_entry(G.loc[0][T_IT])) \
	__CPROVER_loop_invariant(G.itl_grp == g && G.itl_val == __CPROVER_loop_entry(G.itl_val) && blk == G.itl_val + i) \
	__CPROVER_loop_invariant(G.bit[BM_NEW] == (__CPROVER_loop_entry(G.bit[BM_NEW]) || (GI.b >= G.itl_val && GI.b - G.itl_val < i))) \
	__CPROVER_decreases(fs->inode_blocks_per_group - i)

#define RSZ_EXTRA_GHOST \
	unsigned int itl_grp; unsigned long long itl_val;	/* last ext2fs_inode_table_loc(new_fs, .) answer */ \
	unsigned int n_rsb;					/* ext2fs_reserve_super_and_bgd calls */ \
	unsigned long long q_first;				/* last ext2fs_group_first_block2 answer for another group */
#define RSZ_NO_LOC_STUBS
#include "rsz_common.h"
#include "resize/resize2fs.c"

unsigned long long verif_k;

/* descriptor accessors: as rsz_common.h, plus a record of the last inode-table answer (the itable loop's start) */
static unsigned long long get_loc(ext2_filsys fs, dgrp_t group, int kind)
{
	unsigned long long v;
	if (group == GI.g)
		v = G.loc[0][kind];
	else if (G.lq_ok[0][kind] == 1 && G.lq_grp[0][kind] == group)
		v = G.lq_val[0][kind];
	else {
		v = rsz_chv();
		ASSUME(v < (1ULL << 48) && RSZ_OTHER_LOC_OK(v, kind));
		G.lq_ok[0][kind] = 1; G.lq_grp[0][kind] = group; G.lq_val[0][kind] = v;
	}
	if (kind == T_IT) { G.itl_grp = group; G.itl_val = v; }
	return v;
}
blk64_t ext2fs_block_bitmap_loc(ext2_filsys fs, dgrp_t group) { return get_loc(fs, group, T_BB); }
blk64_t ext2fs_inode_bitmap_loc(ext2_filsys fs, dgrp_t group) { return get_loc(fs, group, T_IB); }
blk64_t ext2fs_inode_table_loc(ext2_filsys fs, dgrp_t group) { return get_loc(fs, group, T_IT); }

int ext2fs_bg_flags_test(ext2_filsys fs, dgrp_t group, __u16 bg_flag)
{
	if (group == GI.g && bg_flag == EXT2_BG_BLOCK_UNINIT)
		return S.uninit ? EXT2_BG_BLOCK_UNINIT : 0;
	return (rsz_ch() & 1) ? bg_flag : 0;
}
/* the ghost group owns [first, last]; the other groups' ranges do not contain the ghost block when it lies in there */
blk64_t ext2fs_group_first_block2(ext2_filsys fs, dgrp_t group)
{
	blk64_t v;
	if (group == GI.g) return S.first;
	v = rsz_chv();
	ASSUME(v < (1ULL << 48));
	G.q_first = v;
	return v;
}
blk64_t ext2fs_group_last_block2(ext2_filsys fs, dgrp_t group)
{
	blk64_t v;
	if (group == GI.g) return S.last;
	v = rsz_chv();
	ASSUME(v < (1ULL << 48) && v >= G.q_first && v - G.q_first < 0xffffffffULL);
	ASSUME(!S.b_in_gg || GI.b < G.q_first || GI.b > v);
	return v;
}
int ext2fs_reserve_super_and_bgd(ext2_filsys fs, dgrp_t group, ext2fs_block_bitmap bmap)
{
	G.n_rsb++;
	CHECK(bmap == BMH(BM_NEW), "superblock / descriptor blocks are marked in fs->block_map");
	if (group == GI.g) {
		if (S.b_sbgd) G.bit[BM_NEW] = 1;
	} else if (!S.b_in_gg && (rsz_ch() & 1))
		G.bit[BM_NEW] = 1;	/* another group's superblock / descriptor copy: never inside the ghost group's range */
	return 0;
}

void h_fix_uninit(void)
{
	static struct struct_ext2_filsys FS;
	static struct ext2_super_block SB;
	int i;
	LOAD_IN();
	rsz_ghost_init();
	G.itl_grp = 0; G.itl_val = 0; G.n_rsb = 0; G.q_first = 0;
	ASSUME(IN.cnt >= 1 && IN.ipb >= 1 && IN.b < (1ULL << 48));
	ASSUME(IN.first <= IN.last && IN.last < (1ULL << 48) && IN.last - IN.first < 0xffffffffULL);
	FS.super = &SB; FS.group_desc_count = IN.cnt; FS.inode_blocks_per_group = IN.ipb; FS.block_map = BMH(BM_NEW);
	SB.s_feature_ro_compat = IN.ro; SB.s_feature_compat = IN.compat; SB.s_feature_incompat = IN.incompat;
	rsz_new_fs = &FS; rsz_old_fs = 0;
	GI.b = IN.b; GI.g = IN.g;
	for (i = 0; i < BM_NR; i++) G.bit[i] = 0;
	G.bit[BM_NEW] = IN.bit_new & 1;
	for (i = 0; i < T_NR; i++) { ASSUME(IN.loc[i] < (1ULL << 48)); G.loc[0][i] = IN.loc[i]; G.loc[1][i] = 0; }
	S.first = IN.first; S.last = IN.last; S.ipb = IN.ipb; S.uninit = IN.uninit & 1; S.b_sbgd = IN.b_sbgd & 1;
	S.N0 = G.bit[BM_NEW]; S.b_in_gg = IN_GG(IN.b);
	/* the superblock / descriptor copies of a group lie inside the group */
	ASSUME(!S.b_sbgd || S.b_in_gg);
	int csum = ext2fs_has_group_desc_csum(&FS) != 0;

	fix_uninit_block_bitmaps(&FS);

	if (!csum) {
		CHECK(G.n_events == 0 && G.n_rsb == 0 && G.bit[BM_NEW] == S.N0, "no group-descriptor checksums (no uninit_bg): nothing is touched");
		REACH("no_csum");
	} else if (IN.g < IN.cnt && S.b_in_gg) {
		if (S.uninit) {
			CHECK(G.bit[BM_NEW] == B_OWN_META, "BLOCK_UNINIT group: a block of the group is marked exactly when it is one of the group's own metadata blocks");
			REACH("uninit_group");
			if (S.b_sbgd) REACH("super_or_desc");
			if (COVERS(G.loc[0][T_IT], S.ipb, GI.b) && GI.b != G.loc[0][T_IT]) REACH("inode_table");
			if (!B_OWN_META && S.N0) REACH("stale_bit_cleared");
		} else {
			CHECK(G.bit[BM_NEW] >= S.N0, "a group with an initialised bitmap: no block of it is cleared");
			REACH("init_group");
		}
	}
	CHECK(G.loc[0][T_BB] == IN.loc[T_BB] && G.loc[0][T_IB] == IN.loc[T_IB] && G.loc[0][T_IT] == IN.loc[T_IT], "descriptors are only read");
	REACH("end");
}
