/* VERIF-UNIT
{
 "name": "rsz_adjust_fs_info_4k",
 "props": ["C08", "C20"],
 "level": "U/k",
 "tier": "quick",
 "harness": "h_adjust_fs_info",
 "replace": ["free_gdp_blocks", "mark_table_blocks"],
 "includes": ["resize"],
 "defines": ["EXT2_CUSTOM_MEMORY_ROUTINES", "RGS_BPG=32768", "RGS_IPG=8192", "RGS_DPB=64", "CFG_LOG_BS=2", "CFG_DESC_SIZE=64", "CFG_FDB=0"],
 "unwind": 12,
 "unwind_reason": "scenario 'group count does not grow': the two loops over new groups are unreachable (unwinding assertions on); the retry loop (backward goto) runs at most three times (see rsz_adjust_new_size_*); the bound also serves the DFCC library loops over assigns clauses",
 "cbmc_flags": ["--object-bits", "12"],
 "backend": "cadical",
 "functions": ["resize/resize2fs.c:adjust_fs_info", "resize/resize2fs.c:adjust_reserved_gdt_blocks", "resize/resize2fs.c:adjust_new_size"],
 "assumes": ["scenario: the number of groups does not grow (shrink, or resize inside the last group); growth of the group count (initialisation of new descriptors) is not covered by this unit",
             "the requested size went through adjust_new_size first, as in resize/main.c (the harness calls the real adjust_new_size); the old filesystem is well formed: its group count and descriptor-block count are the ones the format prescribes for its size (specs/resize_geom_spec.h), its sparse_super2 backup groups exist, new_fs is its copy (ext2fs_dup_handle)",
             "configuration enumerated as constants (no symbolic products / divisions): 4 KiB blocks, 32768 blocks per group, 8192 inodes per group, 64-byte descriptors, first data block 0, no bigalloc; everything else arbitrary",
             "sizes < 2^48 and fewer than 2^32 groups; reserved GDT blocks <= blocksize/4; inode table <= 8192 blocks",
             "superblock 64-bit counters (ext2fs_blocks_count & co.) are ghost 64-bit numbers; the bitmap resizers, ext2fs_resize_mem, the descriptor accessors are stubs that record their arguments and may fail; free_gdp_blocks / mark_table_blocks are replaced by contracts (arbitrary result)",
             "NOT covered: the reserved-blocks ratio (s_r_blocks_count is recomputed in double arithmetic: the stub accepts any value)"],
 "native": false
}
*/
/* VERIF-UNIT
{
 "name": "rsz_adjust_fs_info_1k",
 "props": ["C08", "C20"],
 "level": "U/k",
 "tier": "quick",
 "harness": "h_adjust_fs_info",
 "replace": ["free_gdp_blocks", "mark_table_blocks"],
 "includes": ["resize"],
 "defines": ["EXT2_CUSTOM_MEMORY_ROUTINES", "RGS_BPG=8192", "RGS_IPG=2048", "RGS_DPB=32", "CFG_LOG_BS=0", "CFG_DESC_SIZE=32", "CFG_FDB=1"],
 "unwind": 12,
 "unwind_reason": "as rsz_adjust_fs_info_4k",
 "cbmc_flags": ["--object-bits", "12"],
 "backend": "cadical",
 "functions": ["resize/resize2fs.c:adjust_fs_info", "resize/resize2fs.c:adjust_reserved_gdt_blocks", "resize/resize2fs.c:adjust_new_size"],
 "assumes": ["as rsz_adjust_fs_info_4k with the configuration 1 KiB blocks, 8192 blocks per group, 2048 inodes per group, 32-byte descriptors, first data block 1"],
 "native": false
}
*/
/*
 * C08 / C20 — the size-dependent superblock fields after adjust_fs_info, stated from the format
 * (specs/resize_geom_spec.h), for a size that went through adjust_new_size (main.c):
 *   S1  s_blocks_count is EXACTLY the reported size (no second trimming);
 *   S2  group_desc_count = ceil((blocks - first_data_block) / blocks_per_group), desc_blocks = ceil(groups / dpb);
 *   S3  s_inodes_count = groups * s_inodes_per_group;
 *   S4  s_free_blocks_count changes by exactly (new size - old size);
 *   S5  the inode bitmap is resized to the new inode count, the block bitmap to (size - 1) with real end = the last block
 *       of the last group's full extent (>= size - 1); reserve_blocks follows when growing;
 *   S6  resize_inode: the descriptor area keeps its size, s_reserved_gdt_blocks' = s_reserved_gdt_blocks + desc_blocks -
 *       desc_blocks' clamped to [0, blocksize/4]; without resize_inode it is untouched;
 *   S7  meta_bg is dropped exactly when s_first_meta_bg exceeds the new number of descriptor blocks;
 *   S8  sparse_super2: every listed backup group exists afterwards (1 <= g <= last group) or the slot is 0; when the old
 *       second backup was in the old last group and more than two groups remain it follows the new last group;
 *   S9  fewer groups: free_gdp_blocks(fs, reserve, old_fs, new group count) releases the dropped groups' tables (once);
 *       same number of groups: the last group's free count changes by the change of its length;
 *   S10 a request adjust_new_size could not repair is refused (error, EXT2_ET_TOOSMALL / EXT2_ET_TOO_MANY_INODES).
 */
#include "verif.h"
#include "spec_pow.h"
#include "resize_geom_spec.h"

#include <stdio.h>
#define fprintf(f, ...) rsz_fputs_stub()
int rsz_fputs_stub(void);

struct in_s {
	unsigned long long req, old_blocks, old_free, old_r;
	unsigned int ipb, rsv_gdt, compat, ro, incompat, bbg0, bbg1, first_meta_bg, old_bg_free;
	long ret_ibm, ret_bbm, ret_rbm, ret_mem, ret_gdp;
	unsigned char have_reserve;
};
struct in_s IN;
#include "verif_in.h"

/* ext2fs.h, EXT2_CUSTOM_MEMORY_ROUTINES: the application supplies the allocation wrappers */
long ext2fs_get_mem(unsigned long size, void *ptr);
long ext2fs_get_memzero(unsigned long size, void *ptr);
long ext2fs_get_array(unsigned long count, unsigned long size, void *ptr);
long ext2fs_get_arrayzero(unsigned long count, unsigned long size, void *ptr);
long ext2fs_free_mem(void *ptr);
long ext2fs_resize_mem(unsigned long old_size, unsigned long size, void *ptr);
long ext2fs_resize_array(unsigned long size, unsigned long old_count, unsigned long count, void *ptr);

#include "resize/resize2fs.c"

unsigned long long verif_k;

static struct struct_ext2_filsys NFS, OFS;
static struct ext2_super_block NSB, OSB;
static char bm_ino, bm_blk, bm_rsv, gd_buf;	/* opaque handles */

static struct {
	unsigned long long cnt[2][3];	/* [new/old][blocks, r_blocks, free] */
	unsigned int n_ibm, n_bbm, n_rbm, n_mem, n_gdp, n_bgset, n_csum, n_r_set;
	unsigned long long ibm_end, ibm_real, bbm_end, bbm_real, rbm_end, rbm_real, mem_old, mem_new;
	unsigned int gdp_group, bgset_group, bgset_val, csum_group;
} M;

int rsz_fputs_stub(void) { return 0; }
#define SBI(sb) ((sb) == &OSB)
blk64_t ext2fs_blocks_count(struct ext2_super_block *super) { return M.cnt[SBI(super)][0]; }
void ext2fs_blocks_count_set(struct ext2_super_block *super, blk64_t blk) { M.cnt[SBI(super)][0] = blk; }
blk64_t ext2fs_r_blocks_count(struct ext2_super_block *super) { return M.cnt[SBI(super)][1]; }
void ext2fs_r_blocks_count_set(struct ext2_super_block *super, blk64_t blk) { M.cnt[SBI(super)][1] = blk; M.n_r_set++; }
blk64_t ext2fs_free_blocks_count(struct ext2_super_block *super) { return M.cnt[SBI(super)][2]; }
void ext2fs_free_blocks_count_set(struct ext2_super_block *super, blk64_t blk) { M.cnt[SBI(super)][2] = blk; }

errcode_t ext2fs_resize_inode_bitmap2(__u64 new_end, __u64 new_real_end, ext2fs_inode_bitmap bmap)
{
	CHECK((void *)bmap == (void *)&bm_ino, "the inode bitmap of the new handle is resized");
	M.n_ibm++; M.ibm_end = new_end; M.ibm_real = new_real_end;
	return IN.ret_ibm;
}
errcode_t ext2fs_resize_block_bitmap2(__u64 new_end, __u64 new_real_end, ext2fs_block_bitmap bmap)
{
	if ((void *)bmap == (void *)&bm_blk) { M.n_bbm++; M.bbm_end = new_end; M.bbm_real = new_real_end; return IN.ret_bbm; }
	CHECK((void *)bmap == (void *)&bm_rsv, "only the block map and reserve_blocks are resized");
	M.n_rbm++; M.rbm_end = new_end; M.rbm_real = new_real_end;
	return IN.ret_rbm;
}
long ext2fs_resize_mem(unsigned long old_size, unsigned long size, void *ptr)
{
	M.n_mem++; M.mem_old = old_size; M.mem_new = size;
	CHECK(ptr == (void *)&NFS.group_desc, "the descriptor array of the new handle is resized");
	return IN.ret_mem;
}
long ext2fs_get_mem(unsigned long size, void *ptr) { CHECK(0, "not reached"); return 1; }
long ext2fs_get_memzero(unsigned long size, void *ptr) { CHECK(0, "not reached"); return 1; }
long ext2fs_get_array(unsigned long count, unsigned long size, void *ptr) { CHECK(0, "not reached"); return 1; }
long ext2fs_get_arrayzero(unsigned long count, unsigned long size, void *ptr) { CHECK(0, "not reached"); return 1; }
long ext2fs_free_mem(void *ptr) { CHECK(0, "not reached"); return 1; }
long ext2fs_resize_array(unsigned long size, unsigned long old_count, unsigned long count, void *ptr) { CHECK(0, "not reached"); return 1; }

int ext2fs_bg_has_super(ext2_filsys fs, dgrp_t group)
{
	struct ext2_super_block *sb = fs->super;
	return spec_bg_has_super(group, sb->s_feature_compat, sb->s_feature_ro_compat, sb->s_backup_bgs[0], sb->s_backup_bgs[1]);
}
__u32 ext2fs_bg_free_blocks_count(ext2_filsys fs, dgrp_t group) { return IN.old_bg_free; }
void ext2fs_bg_free_blocks_count_set(ext2_filsys fs, dgrp_t group, __u32 n) { M.n_bgset++; M.bgset_group = group; M.bgset_val = n; }
void ext2fs_group_desc_csum_set(ext2_filsys fs, dgrp_t group) { M.n_csum++; M.csum_group = group; }

static errcode_t free_gdp_blocks(ext2_filsys fs, ext2fs_block_bitmap reserve_blocks, ext2_filsys old_fs, dgrp_t group)
	REQUIRES(fs == &NFS && old_fs == &OFS && group == fs->group_desc_count && old_fs->group_desc_count > fs->group_desc_count && M.n_gdp == 0)
	ENSURES(M.n_gdp == 1 && RET == IN.ret_gdp)
	ASSIGNS(M.n_gdp);
static errcode_t mark_table_blocks(ext2_filsys fs, ext2fs_block_bitmap bmap)
	REQUIRES(0)	/* growth of the group count only */
	ASSIGNS();

static int last_has_backup(unsigned long long groups)
{
	if (IN.compat & SPEC_COMPAT_SPARSE_SUPER2)
		return groups == 2 ? IN.bbg0 != 0 : IN.bbg1 != 0;
	return spec_bg_has_super((unsigned int)(groups - 1), IN.compat, IN.ro, IN.bbg0, IN.bbg1);
}

void h_adjust_fs_info(void)
{
	struct rgs_cfg c;
	blk64_t size;
	unsigned int bs = 1024u << CFG_LOG_BS;
	LOAD_IN();
	c.fdb = CFG_FDB; c.ipb = IN.ipb; c.rsv_gdt = IN.rsv_gdt;
	ASSUME(IN.ipb >= 1 && IN.ipb <= 8192 && IN.rsv_gdt <= bs / 4);
	ASSUME(IN.req <= CFG_FDB + 0xffffffffULL * RGS_BPG && IN.req < (1ULL << 48));
	ASSUME(IN.old_blocks <= CFG_FDB + 0xffffffffULL * RGS_BPG && IN.old_blocks < (1ULL << 48));
	/* the old filesystem: geometry as the format prescribes for its size */
	unsigned long long g_old = rgs_groups(&c, IN.old_blocks), d_old = rgs_desc_blocks(&c, g_old);
	ASSUME(g_old >= 1 && g_old * (unsigned long long)RGS_IPG <= 0xffffffffULL);
	ASSUME(IN.old_free <= IN.old_blocks && IN.old_r <= IN.old_blocks);
	ASSUME(!(IN.compat & SPEC_COMPAT_SPARSE_SUPER2) || (IN.bbg0 < g_old && IN.bbg1 < g_old));	/* listed backup groups exist */
	OFS.super = &OSB; NFS.super = &NSB;
	OSB.s_log_block_size = CFG_LOG_BS; OSB.s_log_cluster_size = CFG_LOG_BS;
	OSB.s_blocks_per_group = RGS_BPG; OSB.s_clusters_per_group = RGS_BPG; OSB.s_inodes_per_group = RGS_IPG;
	OSB.s_first_data_block = CFG_FDB; OSB.s_desc_size = CFG_DESC_SIZE;
	OSB.s_feature_compat = IN.compat; OSB.s_feature_ro_compat = IN.ro;
	OSB.s_feature_incompat = (CFG_DESC_SIZE == 64) ? (IN.incompat | EXT4_FEATURE_INCOMPAT_64BIT) : (IN.incompat & ~EXT4_FEATURE_INCOMPAT_64BIT);
	OSB.s_reserved_gdt_blocks = IN.rsv_gdt;
	OSB.s_backup_bgs[0] = IN.bbg0; OSB.s_backup_bgs[1] = IN.bbg1;
	OSB.s_first_meta_bg = IN.first_meta_bg;
	OSB.s_inodes_count = (unsigned int)(g_old * RGS_IPG);
	OSB.s_free_inodes_count = 0;
	OSB.s_overhead_clusters = 0;
	OFS.group_desc_count = (unsigned int)g_old; OFS.desc_blocks = (unsigned int)d_old;
	OFS.inode_blocks_per_group = IN.ipb; OFS.blocksize = bs; OFS.cluster_ratio_bits = 0;
	NSB = OSB; NFS = OFS; NFS.super = &NSB;	/* ext2fs_dup_handle */
	NFS.inode_map = (ext2fs_inode_bitmap)(void *)&bm_ino; NFS.block_map = (ext2fs_block_bitmap)(void *)&bm_blk;
	NFS.group_desc = (struct opaque_ext2_group_desc *)(void *)&gd_buf;
	M.cnt[1][0] = M.cnt[0][0] = IN.old_blocks; M.cnt[1][1] = M.cnt[0][1] = IN.old_r; M.cnt[1][2] = M.cnt[0][2] = IN.old_free;
	M.n_ibm = M.n_bbm = M.n_rbm = M.n_mem = M.n_gdp = M.n_bgset = M.n_csum = M.n_r_set = 0;

	/* main.c: the request goes through adjust_new_size first */
	size = IN.req;
	adjust_new_size(&NFS, &size);
	unsigned long long g_new = rgs_groups(&c, size), d_new = rgs_desc_blocks(&c, g_new);
	ASSUME(g_new <= g_old);	/* scenario of this unit */
	int acceptable = g_new >= 1 && rgs_acceptable(&c, size, last_has_backup(g_new));

	errcode_t r = adjust_fs_info(&NFS, &OFS, IN.have_reserve ? (ext2fs_block_bitmap)(void *)&bm_rsv : 0, size);

	if (!acceptable) {
		CHECK(r == EXT2_ET_TOOSMALL || r == EXT2_ET_TOO_MANY_INODES, "S10: a size that cannot be made acceptable is refused");
		CHECK(M.n_ibm == 0 && M.n_bbm == 0 && M.n_rbm == 0 && M.n_mem == 0 && M.n_gdp == 0, "S10: refused before any bitmap or descriptor array is touched");
		if (g_new == 0) REACH("refused_no_group"); else REACH("refused_too_small_or_inodes");
	} else if (r != 0) {
		CHECK(r == IN.ret_ibm || r == IN.ret_bbm || r == IN.ret_rbm || r == IN.ret_mem || r == IN.ret_gdp, "other failures come from the callees");
		REACH("callee_failed");
	} else {
		unsigned long long real_end = g_new * RGS_BPG - 1 + CFG_FDB;
		CHECK(M.cnt[0][0] == size, "S1: s_blocks_count is exactly the reported size");
		CHECK(NFS.group_desc_count == g_new && NFS.desc_blocks == d_new, "S2: group count and descriptor blocks as the format prescribes");
		CHECK(NSB.s_inodes_count == g_new * RGS_IPG, "S3: s_inodes_count = groups * inodes per group");
		CHECK(M.cnt[0][2] == IN.old_free + size - IN.old_blocks, "S4: free blocks change by exactly the size difference");
		CHECK(M.n_ibm == 1 && M.ibm_end == NSB.s_inodes_count && M.ibm_real == NSB.s_inodes_count, "S5: inode bitmap resized to the inode count");
		CHECK(M.n_bbm == 1 && M.bbm_end == size - 1 && M.bbm_real == real_end && real_end >= size - 1, "S5: block bitmap resized to the size, real end = end of the last group");
		CHECK(M.n_rbm == ((IN.have_reserve && size > IN.old_blocks) ? 1 : 0) && (M.n_rbm == 0 || (M.rbm_end == size - 1 && M.rbm_real == real_end)), "S5: reserve_blocks follows when growing");
		CHECK(M.cnt[1][0] == IN.old_blocks && M.cnt[1][2] == IN.old_free && OSB.s_inodes_count == g_old * RGS_IPG && OFS.group_desc_count == g_old, "the old handle is untouched");
		/* S6 */
		if ((IN.compat & EXT2_FEATURE_COMPAT_RESIZE_INODE) && d_new != d_old) {
			long long want = (long long)IN.rsv_gdt + (long long)d_old - (long long)d_new;
			if (want < 0) want = 0;
			if (want > bs / 4) want = bs / 4;
			CHECK(NSB.s_reserved_gdt_blocks == want, "S6: reserved GDT blocks keep the descriptor area's size (clamped to [0, blocksize/4])");
			CHECK(NSB.s_reserved_gdt_blocks + d_new == IN.rsv_gdt + d_old || NSB.s_reserved_gdt_blocks == 0 || NSB.s_reserved_gdt_blocks == bs / 4, "S6: descriptor area size unchanged unless clamped");
			REACH("rsv_gdt_adjusted");
		} else
			CHECK(NSB.s_reserved_gdt_blocks == IN.rsv_gdt, "S6: reserved GDT blocks untouched");
		CHECK(M.n_mem == (d_new != d_old ? 1 : 0) && (M.n_mem == 0 || (M.mem_old == d_old * bs && M.mem_new == d_new * bs)), "the descriptor array follows the number of descriptor blocks");
		/* S7 */
		int had_meta = (IN.incompat & EXT2_FEATURE_INCOMPAT_META_BG) != 0;
		if (had_meta && IN.first_meta_bg > d_new) {
			CHECK(!(NSB.s_feature_incompat & EXT2_FEATURE_INCOMPAT_META_BG) && NSB.s_first_meta_bg == 0, "S7: meta_bg dropped when s_first_meta_bg exceeds the descriptor blocks");
			REACH("meta_bg_dropped");
		} else
			CHECK(((NSB.s_feature_incompat & EXT2_FEATURE_INCOMPAT_META_BG) != 0) == had_meta && NSB.s_first_meta_bg == IN.first_meta_bg, "S7: meta_bg untouched otherwise");
		/* S8 */
		if (IN.compat & SPEC_COMPAT_SPARSE_SUPER2) {
			unsigned int last = (unsigned int)g_new - 1, old_last = (unsigned int)g_old - 1;
			CHECK(NSB.s_backup_bgs[0] <= last && NSB.s_backup_bgs[1] <= last, "S8: every listed backup group exists");
			CHECK(NSB.s_backup_bgs[0] == IN.bbg0 || NSB.s_backup_bgs[0] == 0, "S8: the first backup slot is kept or cleared");
			if (g_new < g_old && last > 1 && IN.bbg1 == old_last) {
				CHECK(NSB.s_backup_bgs[1] == last, "S8: the second backup follows the last group");
				REACH("ss2_follow");
			}
			if (g_new == g_old)
				CHECK(NSB.s_backup_bgs[0] == IN.bbg0 && NSB.s_backup_bgs[1] == IN.bbg1, "S8: same group count: backups unchanged");
		} else
			CHECK(NSB.s_backup_bgs[0] == IN.bbg0 && NSB.s_backup_bgs[1] == IN.bbg1, "S8: no sparse_super2: s_backup_bgs untouched");
		/* S9 */
		if (g_new < g_old) {
			CHECK(M.n_gdp == 1 && M.n_bgset == 0, "S9: fewer groups: the dropped groups' tables are released, once");
			REACH("fewer_groups");
		} else {
			unsigned long long len_old = rgs_last_group_blocks(&c, IN.old_blocks) ? rgs_last_group_blocks(&c, IN.old_blocks) : RGS_BPG;
			unsigned long long len_new = rgs_last_group_blocks(&c, size) ? rgs_last_group_blocks(&c, size) : RGS_BPG;
			CHECK(M.n_gdp == 0 && M.n_bgset == 1 && M.bgset_group == g_old - 1 && M.n_csum == 1 && M.csum_group == g_old - 1, "S9: same group count: only the last group's descriptor changes");
			CHECK(M.bgset_val == (unsigned int)(IN.old_bg_free + len_new - len_old), "S9: its free count changes by the change of its length");
			REACH("same_groups");
			if (size > IN.old_blocks) REACH("same_groups_grow");
		}
		REACH("success");
	}
	REACH("end");
}
