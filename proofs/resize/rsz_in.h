/* rsz_in.h — members every unit that uses rsz_common.h puts into its input struct IN (see rsz_common.h) */
#ifndef RSZ_IN_H
#define RSZ_IN_H
#define RSZ_NCH 32
#define RSZ_IN_FIELDS \
	unsigned char ch[RSZ_NCH];	/* answers of the stubs about blocks / groups other than the ghost ones */ \
	unsigned long long chv[RSZ_NCH]	/* values handed out by the stubs (locations of other groups, allocation targets) */
#endif
