/* VERIF-UNIT
{
 "name": "rsz_get_new_block",
 "props": ["C08"],
 "level": "U/iter",
 "tier": "quick",
 "tier_after_hooks": "quick",
 "harness": "h_get_new_block",
 "includes": ["resize"],
 "loop_contracts": true,
 "unwind": 12,
 "unwind_reason": "the search loop of get_new_block is cut by the in-place loop contract VERIF_INV_GET_NEW_BLOCK (invariant + lexicographic decreases clause: the search terminates); the bound serves initialisation and DFCC library loops",
 "cbmc_flags": ["--object-bits", "12"],
 "backend": "cadical",
 "functions": ["resize/resize2fs.c:get_new_block"],
 "assumes": ["big translation unit: no contract is enforced; the real static function is called directly, statement by harness CHECKs over the ghost monitor of rsz_common.h (the three bitmaps observed at ONE arbitrary ghost block)",
             "allocator state on entry: alloc_state is AVOID_OLD or DESPERATION (init_block_alloc / this function), and in DESPERATION mode every block in front of the cursor has been found unusable (scan invariant: established when the mode is entered with the cursor at the first data block, re-established by this function, stable because bits are only set)",
             "block 0 is never free (boot sector / primary superblock): the function's 'no block' answer 0 is unambiguous",
             "block counts < 2^48; debug printf is a stub"],
 "native": false
}
*/
/* VERIF-UNIT
{
 "name": "rsz_block_mover_plan",
 "props": ["C08"],
 "level": "U/iter",
 "tier": "quick",
 "tier_after_hooks": "quick",
 "harness": "h_block_mover",
 "replace": ["get_new_block"],
 "includes": ["resize"],
 "loop_contracts": true,
 "unwind": 12,
 "unwind_reason": "the three loops of block_mover are cut by in-place loop contracts (VERIF_INV_BLOCK_MOVER_PLAN / _EXTENTS / _COPY); the bound serves initialisation and DFCC library loops",
 "cbmc_flags": ["--object-bits", "12"],
 "backend": "cadical",
 "functions": ["resize/resize2fs.c:block_mover"],
 "assumes": ["big translation unit: no contract is enforced; the real static function is called directly; get_new_block is replaced by the contract unit rsz_get_new_block proves (a returned block is inside the new filesystem, free in the new map, not reserved; 0 = none)",
             "no bigalloc (cluster ratio 1); the translation table (resize/extent.c: units rsz_extent_*) is a stub that records what is added for ONE arbitrary ghost block and hands the runs back in an arbitrary order with arbitrary lengths; I/O, bad-block list and progress callback are stubs that may fail",
             "block counts < 2^48; fewer than 2^31 blocks are moved / dropped from the bad-block list (the function counts them in plain ints: to_move, moved, bb_modified would overflow otherwise -- observation, progress display only)"],
 "native": false
}
*/
/*
 * C08 — where moved blocks go.
 *
 * get_new_block: the block it returns (ghost b) lies inside the new filesystem, is free in the new block map and not in
 * rfs->reserve_blocks (so it is neither new metadata, nor a block behind the new end, nor a block that still has to be
 * evacuated), and in AVOID_OLD mode it is not in use in the old filesystem either; 0 is returned only in DESPERATION mode
 * after every block of the new filesystem has been found unusable (ENOSPC is genuine).  The search terminates.
 *
 * block_mover, planning loop (per iteration, ghost block b): a block that is in use in the old filesystem and queued in
 * rfs->move_blocks (and not a bad block) gets a target from get_new_block, the target is marked in use in the new
 * filesystem (so it is handed out once) and the pair (b -> target) is entered into the translation table rfs->bmap; a block
 * that is not queued gets no entry.  Copy loops: no more than fs->inode_blocks_per_group blocks (the size of
 * rfs->itable_buf) are read / written per I/O call, from the old to the new location of the run.
 */
#include "verif.h"
#include <stdio.h>
#define printf(...) rsz_printf_stub()
int rsz_printf_stub(void);
#include "rsz_in.h"
struct in_s {
	RSZ_IN_FIELDS;
	unsigned long long b, new_size, old_size, new_blk, t;
	unsigned int fdb, ipb, flags;
	int alloc_state;
	unsigned char bit[8], b_bad;
	long ret_bb, ret_ct, ret_io[4], ret_prog, ret_upd;
	unsigned long long it_old, it_new, it_size;
};
struct in_s IN;
#include "verif_in.h"

static struct {
	unsigned long long new_size, old_size, fdb;
	unsigned char N0, R0, O0, M0;
} S;
#define SCAN_OK(state, cursor)	(!((state) == 2 /* DESPERATION */ && GI.b >= S.fdb && GI.b < (cursor)) || G.bit[BM_NEW] || G.bit[BM_RESERVE])

#define VERIF_INV_GET_NEW_BLOCK \
	__CPROVER_assigns(rfs->new_blk, rfs->alloc_state, G.nch) \
	__CPROVER_loop_invariant((rfs->alloc_state == 1 || rfs->alloc_state == 2) && rfs->alloc_state >= __CPROVER_loop_entry(rfs->alloc_state)) \
	__CPROVER_loop_invariant(rfs->alloc_state != __CPROVER_loop_entry(rfs->alloc_state) || rfs->new_blk >= __CPROVER_loop_entry(rfs->new_blk)) \
	__CPROVER_loop_invariant(rfs->new_blk <= (1ULL << 48) && SCAN_OK(rfs->alloc_state, rfs->new_blk)) \
	__CPROVER_decreases(2 - rfs->alloc_state, rfs->new_blk < S.new_size ? S.new_size - rfs->new_blk : 0)

/* block_mover: ghost record of the plan for block b */
#define VERIF_INV_BLOCK_MOVER_PLAN \
	__CPROVER_assigns(blk, new_blk, to_move, bb_modified, retval, G, P, rfs->new_blk, rfs->alloc_state) \
	__CPROVER_loop_invariant(blk >= S.fdb && to_move == P.n_adds && bb_modified == P.n_bbdel && P.n_adds >= 0 && P.n_bbdel >= 0) \
	__CPROVER_loop_invariant(G.bit[BM_OLD] == S.O0 && G.bit[BM_MOVE] == S.M0 && G.bit[BM_RESERVE] == S.R0 && G.bit[BM_NEW] <= 1) \
	__CPROVER_loop_invariant(P.n_add_b <= 1 && P.n_target_t <= 1 && (P.n_target_t == 0 || G.bit_t_new == 1)) \
	__CPROVER_loop_invariant(P.total == 0 && P.io_bad == 0 && P.nio == 0 && P.ipb == fs->inode_blocks_per_group && P.b_bad == __CPROVER_loop_entry(P.b_bad)) \
	__CPROVER_loop_invariant((GI.b < blk && GI.b >= S.fdb && GI.b < S.old_size) || P.n_add_b == 0) \
	__CPROVER_loop_invariant(!(GI.b < blk && GI.b >= S.fdb && GI.b < S.old_size && S.O0 && S.M0 && !P.b_bad) || (P.n_add_b == 1 && P.b_target_ok)) \
	__CPROVER_loop_invariant((S.O0 && S.M0 && !P.b_bad) || P.n_add_b == 0) \
	__CPROVER_loop_invariant(to_move > 0 || P.n_add_b == 0) \
	__CPROVER_decreases(blk < S.old_size ? S.old_size - blk : 0)
#define VERIF_INV_BLOCK_MOVER_EXTENTS \
	__CPROVER_assigns(old_blk, new_blk, size, c, moved, retval, P.nio, P.io_bad, P.total, G.nch) \
	__CPROVER_loop_invariant(P.io_bad == 0 && moved == P.total && P.total >= 0)
#define VERIF_INV_BLOCK_MOVER_COPY \
	__CPROVER_assigns(old_blk, new_blk, size, c, moved, retval, P.nio, P.io_bad, P.total, G.nch) \
	__CPROVER_loop_invariant(size > 0 && P.io_bad == 0 && moved == P.total && P.total >= 0) \
	__CPROVER_decreases(size)

static struct {
	unsigned int n_add_b;		/* translation entries added for the ghost block */
	unsigned char b_target_ok;	/* ... and its target was inside the new fs, free there and not reserved when handed out */
	unsigned long long b_target;
	unsigned int n_target_t;	/* how often the second ghost block T was handed out as a target */
	unsigned char b_bad;		/* the ghost block is on the bad-block list */
	unsigned int nio, io_bad;	/* I/O calls; calls with more blocks than the bounce buffer holds */
	int n_adds, n_bbdel, total;	/* entries added, bad blocks dropped, blocks written: the code's int progress counters mirror them */
	unsigned int n_gnb;		/* get_new_block (replaced) calls */
	unsigned long long last_gnb;
	unsigned char last_ok;
	unsigned int ipb;
} P;
static unsigned long long g_t;	/* second ghost block: a potential target */

#define RSZ_BLOCK0_IN_USE
#define RSZ_EXTRA_GHOST unsigned char bit_t_new;	/* the second ghost block T is in use in the new map */
#define RSZ_T_HOOK(fs, blk, inuse) do { if ((blk) == g_t && (fs) == rsz_new_fs) G.bit_t_new = (inuse) > 0; } while (0)
#include "rsz_common.h"
#include "resize/resize2fs.c"

unsigned long long verif_k;
int rsz_printf_stub(void) { return 0; }

static struct ext2_super_block NSB, OSB;
blk64_t ext2fs_blocks_count(struct ext2_super_block *super) { return super == &NSB ? S.new_size : S.old_size; }

/* ---- contract of get_new_block for block_mover (what rsz_get_new_block proves), plus the "handed out once" bookkeeping ---- */
static blk64_t get_new_block(ext2_resize_t rfs)
	ENSURES(P.n_gnb == OLD(P.n_gnb) + 1 && P.last_gnb == RET)
	/* inside the new filesystem */
	ENSURES(RET == 0 || (RET >= S.fdb && RET < S.new_size))
	/* free in the new map and not reserved: at the ghost block b (it may be its own target only if it is not reserved) and at T */
	ENSURES(RET != GI.b || RET == 0 || (G.bit[BM_NEW] == 0 && G.bit[BM_RESERVE] == 0))
	ENSURES(RET != g_t || RET == 0 || G.bit_t_new == 0)
	ASSIGNS(P.n_gnb, P.last_gnb, rfs->new_blk, rfs->alloc_state);

/* ---- stubs for block_mover ---- */
errcode_t ext2fs_read_bb_inode(ext2_filsys fs, ext2_badblocks_list *bb_list) { *bb_list = (ext2_badblocks_list)(void *)&P; return IN.ret_bb; }
int ext2fs_badblocks_list_test(ext2_badblocks_list bb, blk_t blk) { return (blk == (blk_t)GI.b) ? P.b_bad : (rsz_ch() & 1); }
void ext2fs_badblocks_list_del(ext2_u32_list bb, __u32 blk) { ASSUME(P.n_bbdel < 0x7ffffff0); P.n_bbdel++; }
void ext2fs_badblocks_list_free(ext2_badblocks_list bb) { }
errcode_t ext2fs_update_bb_inode(ext2_filsys fs, ext2_badblocks_list bb_list) { return IN.ret_upd; }
errcode_t ext2fs_create_extent_table(ext2_extent *ret_extent, __u64 size) { *ret_extent = (ext2_extent)(void *)&S; return IN.ret_ct; }
void ext2fs_free_extent_table(ext2_extent extent) { }
errcode_t ext2fs_add_extent_entry(ext2_extent extent, __u64 old_loc, __u64 new_loc)
{
	int ok;
	ASSUME(P.n_adds < 0x7ffffff0);	/* fewer than 2^31 blocks are moved (int to_move) */
	P.n_adds++;
	/* the target was just handed out by get_new_block and marked in use by ext2fs_block_alloc_stats2 */
	ok = new_loc == P.last_gnb && new_loc != 0 && new_loc >= S.fdb && new_loc < S.new_size;
	if (old_loc == GI.b) {
		P.n_add_b++;
		P.b_target = new_loc;
		P.b_target_ok = ok && (new_loc != GI.b || G.bit[BM_RESERVE] == 0) && (new_loc != GI.b || G.bit[BM_NEW] == 1);
	}
	if (new_loc == g_t) {
		P.n_target_t++;
		CHECK(G.bit_t_new == 1, "a target is marked in use in the new map before it enters the translation table");
	}
	return 0;
}
errcode_t ext2fs_iterate_extent(ext2_extent extent, __u64 *old_loc, __u64 *new_loc, __u64 *size)
{
	if (!old_loc) return 0;
	*old_loc = IN.it_old; *new_loc = IN.it_new; *size = (rsz_ch() & 1) ? IN.it_size : 0;
	return 0;
}
errcode_t io_channel_read_blk64(io_channel channel, unsigned long long block, int count, void *data)
{
	P.nio++;
	if (count <= 0 || (unsigned int)count > P.ipb) P.io_bad = 1;
	return IN.ret_io[P.nio & 3];
}
errcode_t io_channel_write_blk64(io_channel channel, unsigned long long block, int count, const void *data)
{
	P.nio++;
	ASSUME(count < 0 || P.total < 0x7ffffff0 - count);	/* fewer than 2^31 blocks are moved (int moved) */
	if (count > 0) P.total += count;
	if (count <= 0 || (unsigned int)count > P.ipb) P.io_bad = 1;
	return IN.ret_io[P.nio & 3];
}
static errcode_t flush_stub(io_channel c) { return 0; }
static struct struct_io_manager MGR;
static struct struct_io_channel IOC;


static void setup(struct struct_ext2_filsys *NFS, struct struct_ext2_filsys *OFS, struct ext2_resize_struct *RFS)
{
	int i;
	rsz_ghost_init();
	ASSUME(IN.new_size < (1ULL << 48) && IN.old_size < (1ULL << 48) && IN.b < (1ULL << 48) && IN.t < (1ULL << 48) && IN.new_blk < (1ULL << 48));
	ASSUME(IN.ipb >= 1 && IN.ipb <= 65536);
	NFS->super = &NSB; OFS->super = &OSB;
	NFS->block_map = BMH(BM_NEW); OFS->block_map = BMH(BM_OLD);
	NFS->cluster_ratio_bits = 0; OFS->cluster_ratio_bits = 0;
	NFS->inode_blocks_per_group = IN.ipb; OFS->inode_blocks_per_group = IN.ipb; NFS->blocksize = 4096; OFS->blocksize = 4096;
	NSB.s_first_data_block = IN.fdb; OSB.s_first_data_block = IN.fdb;
	ASSUME(IN.fdb <= 1);
	MGR.flush = flush_stub; IOC.manager = &MGR; NFS->io = &IOC; OFS->io = &IOC;
	RFS->new_fs = NFS; RFS->old_fs = OFS; RFS->reserve_blocks = BMH(BM_RESERVE); RFS->move_blocks = BMH(BM_MOVE);
	RFS->flags = 0; RFS->progress = 0; RFS->itable_buf = (char *)&P; RFS->bmap = 0;
	rsz_new_fs = NFS; rsz_old_fs = OFS;
	GI.b = IN.b; GI.g = 0; g_t = IN.t;
	for (i = 0; i < BM_NR; i++) G.bit[i] = IN.bit[i] & 1;
	if (GI.b == 0) G.bit[BM_NEW] = G.bit[BM_OLD] = 1;	/* block 0 is never free */
	S.new_size = IN.new_size; S.old_size = IN.old_size; S.fdb = IN.fdb;
	S.N0 = G.bit[BM_NEW]; S.R0 = G.bit[BM_RESERVE]; S.O0 = G.bit[BM_OLD]; S.M0 = G.bit[BM_MOVE];
	P.n_add_b = 0; P.b_target_ok = 0; P.n_target_t = 0; P.b_bad = IN.b_bad & 1; P.nio = 0; P.io_bad = 0; P.n_gnb = 0; P.last_gnb = 0; P.ipb = IN.ipb; P.n_adds = P.n_bbdel = P.total = 0;
	G.bit_t_new = IN.bit[7] & 1;
}

void h_get_new_block(void)
{
	static struct struct_ext2_filsys NFS, OFS;
	static struct ext2_resize_struct RFS;
	LOAD_IN();
	setup(&NFS, &OFS, &RFS);
	ASSUME(IN.alloc_state == AVOID_OLD || IN.alloc_state == DESPERATION);
	RFS.alloc_state = IN.alloc_state; RFS.new_blk = IN.new_blk;
	ASSUME(SCAN_OK(IN.alloc_state, IN.new_blk));

	blk64_t r = get_new_block(&RFS);

	CHECK(G.bit[BM_NEW] == S.N0 && G.bit[BM_RESERVE] == S.R0 && G.bit[BM_OLD] == S.O0, "the search only reads the bitmaps");
	CHECK(RFS.alloc_state == AVOID_OLD || RFS.alloc_state == DESPERATION, "allocator mode stays legal");
	CHECK(SCAN_OK(RFS.alloc_state, RFS.new_blk), "scan invariant re-established: in DESPERATION mode every block in front of the cursor is unusable");
	if (r != 0) {
		CHECK(r == RFS.new_blk && r < S.new_size, "the block returned is the cursor and lies inside the new filesystem");
		if (r == IN.b) {
			CHECK(S.N0 == 0, "the block returned is free in the new block map");
			CHECK(S.R0 == 0, "the block returned is not reserved (not new metadata, not behind the new end, not a block still to be evacuated)");
			CHECK(RFS.alloc_state == DESPERATION || !(IN.b < S.old_size && S.O0), "in AVOID_OLD mode it is not in use in the old filesystem either");
			REACH("returned_ghost");
			if (RFS.alloc_state == DESPERATION && IN.alloc_state == AVOID_OLD) REACH("found_after_wrap");
		}
	} else {
		CHECK(RFS.alloc_state == DESPERATION, "0 is only returned in DESPERATION mode");
		CHECK(!(IN.b >= S.fdb && IN.b < S.new_size) || S.N0 || S.R0, "ENOSPC is genuine: every block of the new filesystem is in use or reserved");
		REACH("enospc");
	}
	REACH("end");
}

void h_block_mover(void)
{
	static struct struct_ext2_filsys NFS, OFS;
	static struct ext2_resize_struct RFS;
	LOAD_IN();
	setup(&NFS, &OFS, &RFS);
	ASSUME(IN.b != IN.t);
	ASSUME(IN.old_size <= 0xffffffffULL || !(IN.b_bad & 1));	/* the bad-block list holds 32-bit block numbers */

	errcode_t r = block_mover(&RFS);

	CHECK(P.io_bad == 0, "no I/O call moves more blocks than rfs->itable_buf holds (inode_blocks_per_group)");
	CHECK(P.n_target_t <= 1, "a block is handed out as a relocation target at most once");
	if (r == 0) {
		int queued = IN.b >= IN.fdb && IN.b < S.old_size && S.O0 && S.M0 && !P.b_bad;
		if (queued) {
			CHECK(P.n_add_b == 1, "a queued block (in use in the old filesystem, in move_blocks, not bad) gets exactly one translation entry");
			CHECK(P.b_target_ok, "its target came from get_new_block: inside the new filesystem, free there, not reserved; and was marked in use");
			REACH("queued");
		} else {
			CHECK(P.n_add_b == 0, "a block that is not queued gets no translation entry");
			REACH("not_queued");
		}
		if (P.nio) REACH("copied");
		REACH("success");
	} else
		REACH("failed");
	REACH("end");
}
