/* VERIF-UNIT
{
 "name": "rsz2_free_gdp_blocks",
 "props": ["C08"],
 "level": "U/iter",
 "tier": "quick",
 "tier_after_hooks": "quick",
 "harness": "h_free_gdp",
 "includes": ["resize"],
 "loop_contracts": true,
 "unwind": 12,
 "unwind_reason": "both loops of free_gdp_blocks are cut by the in-place loop contracts VERIF_INV_FREE_GDP_GROUPS / _ITABLE (invariant + decreases); the bound serves the harness' initialisation loops and the DFCC library loops",
 "cbmc_flags": ["--object-bits", "12"],
 "backend": "cadical",
 "functions": ["resize/resize2fs.c:free_gdp_blocks"],
 "assumes": ["needs hooks-pending/rsz2.diff (named anchors VERIF_INV_FREE_GDP_GROUPS, VERIF_INV_FREE_GDP_ITABLE in resize/resize2fs.c)",
             "big translation unit: no contract is enforced; the real static function is called directly as adjust_fs_info calls it (group == fs->group_desc_count < old_fs->group_desc_count), statement by harness CHECKs over the ghost monitor of rsz_common.h (fs->block_map / reserve_blocks / ext2fs_block_alloc_stats2 observed at ONE arbitrary ghost block, old_fs's descriptors at ONE arbitrary ghost group)",
             "no bigalloc: cluster ratio 1 (fs->cluster_ratio_bits == 0), so bg_map stays NULL; ext2fs_allocate_block_bitmap / mark_table_blocks are not reached",
             "old_fs is consistent (resize2fs demands a checked filesystem): metadata blocks are pairwise disjoint, i.e. the three tables of the ghost group do not overlap each other and no table of ANOTHER group lies on the ghost block (the ghost group stands for the one group whose table covers the ghost block, if there is one); every group has an inode table (location != 0); a bitmap location 0 means 'none'",
             "descriptors of groups other than the ghost group answer arbitrarily (a fresh value per query, within the assumption above)",
             "ext2fs_blocks_count(fs->super) is a ghost 64-bit number (the new size); block numbers and the new size < 2^48; inode table < 2^32 blocks"],
 "native": false
}
*/
/* VERIF-UNIT
{
 "name": "rsz2_free_gdp_blocks_b2",
 "props": ["C08"],
 "level": "B(2 removed groups, 4 inode-table blocks)",
 "tier": "quick",
 "harness": "h_free_gdp_b2",
 "includes": ["resize"],
 "unwind": 12,
 "unwind_reason": "BOUNDED stand-in that needs no hooks (superseded by rsz2_free_gdp_blocks once hooks-pending/rsz2.diff is merged): the harness assumes at most 2 removed groups and an inode table of at most 4 blocks, so the group loop runs <= 2 and the inode-table loop <= 4 times; unwinding assertions are on",
 "cbmc_flags": ["--object-bits", "12"],
 "backend": "cadical",
 "functions": ["resize/resize2fs.c:free_gdp_blocks"],
 "assumes": ["BOUNDED: old_fs->group_desc_count - fs->group_desc_count <= 2 and inode_blocks_per_group <= 4 (not counted as proved; the unbounded statement is rsz2_free_gdp_blocks)",
             "otherwise exactly the assumptions of rsz2_free_gdp_blocks: no contract enforced, ghost block / ghost group of rsz_common.h, no bigalloc (cluster ratio 1), consistent old_fs (metadata pairwise disjoint, every group has an inode table, bitmap location 0 = none), other groups' descriptors answer arbitrarily within that, ghost 64-bit blocks count, block numbers < 2^48"],
 "native": false
}
*/
/*
 * C08 — shrinking by whole groups: free_gdp_blocks gives the metadata of the REMOVED groups back to the new filesystem.
 * For EVERY block b (ghost) and EVERY group g of the old filesystem (ghost), with T(g) = { block bitmap of g (if != 0),
 * inode bitmap of g (if != 0), the inode_blocks_per_group blocks from g's inode table location } read from OLD_FS:
 *     b is released — ext2fs_block_alloc_stats2(fs, b, -1) exactly once, marked in reserve_blocks —
 *         <=>   g is removed (new count <= g < old count)  and  b in T(g)  and  b < new blocks count;
 * blocks at or beyond the new end are skipped one by one (an inode table that straddles the new end has its front part
 * released); otherwise (kept group, block beyond the end, not a table block) nothing happens at b: no alloc_stats call,
 * reserve_blocks and fs->block_map keep their bit.  Only old_fs's descriptors of removed groups are read (the new handle's
 * descriptor array no longer has them), nothing is unmarked, no other bitmap is marked, every release is a -1 on the new handle.
 */
#include "verif.h"
#include "rsz_in.h"
struct in_s {
	RSZ_IN_FIELDS;
	unsigned long long b, end, loc[3];
	unsigned int ncnt, ocnt, g, ipb;
	unsigned char bit_new, bit_rsv;
};
struct in_s IN;
#include "verif_in.h"

static struct {
	unsigned long long end, ipb;	/* new blocks count, inode table length */
	unsigned int lo, hi;		/* removed groups: lo <= g < hi */
	unsigned char N0, R0;		/* ghost block's bit in fs->block_map / reserve_blocks before the call */
} S;
#define COVERS(loc, len, x)	((x) >= (loc) && (x) - (loc) < (len))
#define B_IS_BB		(G.loc[1][T_BB] != 0 && GI.b == G.loc[1][T_BB])
#define B_IS_IB		(G.loc[1][T_IB] != 0 && GI.b == G.loc[1][T_IB])
#define B_IN_IT		COVERS(G.loc[1][T_IT], S.ipb, GI.b)
#define B_TABLE		(B_IS_BB || B_IS_IB || B_IN_IT)			/* b is a table block of the ghost group */
#define REMOVED		(GI.g >= S.lo && GI.g < S.hi)
#define RELEASE		(REMOVED && B_TABLE && GI.b < S.end)		/* the specification */
/* tables of other groups do not lie on the ghost block (metadata is disjoint; the ghost group is the covering one) */
#define OTHER_LOC_OK(v, kind)	((kind) == T_IT ? ((v) != 0 && !COVERS(v, S.ipb, GI.b)) : ((v) == 0 || (v) != GI.b))

#define LOCS_KEPT	(G.loc[1][T_BB] == __CPROVER_loop_entry(G.loc[1][T_BB]) && G.loc[1][T_IB] == __CPROVER_loop_entry(G.loc[1][T_IB]) && G.loc[1][T_IT] == __CPROVER_loop_entry(G.loc[1][T_IT]))
#define OTHERS_QUIET	(G.bad == 0 && (G.nmark[BM_NEW] | G.nmark[BM_OLD] | G.nmark[BM_MOVE] | G.nmark[BM_META] | G.nmark[BM_NEWMETA]) == 0 && \
			 (G.t_unmark[BM_NEW] | G.t_unmark[BM_OLD] | G.t_unmark[BM_RESERVE] | G.t_unmark[BM_MOVE] | G.t_unmark[BM_META] | G.t_unmark[BM_NEWMETA]) == 0)
/* groups [lo, i) are done */
#define DONE		(RELEASE && GI.g < i)
#define VERIF_INV_FREE_GDP_GROUPS \
	__CPROVER_assigns(i, blk, j, G) \
	__CPROVER_loop_invariant(i >= group && i <= group + count) \
	__CPROVER_loop_invariant(LOCS_KEPT && OTHERS_QUIET) \
	__CPROVER_loop_invariant(G.n_stats == (DONE ? 1 : 0) && G.stats_delta == (DONE ? -1 : 0) && G.nmark[BM_RESERVE] == (DONE ? 1 : 0)) \
	__CPROVER_loop_invariant(G.bit[BM_RESERVE] == (DONE ? 1 : S.R0) && G.bit[BM_NEW] == (DONE ? 0 : S.N0)) \
	__CPROVER_decreases(group + count - i)
/* inode-table blocks [start, start + j) are done */
#define HITJ		(COVERS(G.itl_val, j, GI.b) && GI.b < S.end)
#define VERIF_INV_FREE_GDP_ITABLE \
	__CPROVER_assigns(j, blk, G) \
	__CPROVER_loop_invariant(j <= fs->inode_blocks_per_group) \
	__CPROVER_loop_invariant(LOCS_KEPT && OTHERS_QUIET) \
	__CPROVER_loop_invariant(G.itl_grp == i && G.itl_val == __CPROVER_loop_entry(G.itl_val) && blk == G.itl_val + j && G.itl_val < (1ULL << 48)) \
	__CPROVER_loop_invariant(i == GI.g ? G.itl_val == G.loc[1][T_IT] : !COVERS(G.itl_val, S.ipb, GI.b)) \
	__CPROVER_loop_invariant(G.n_stats == __CPROVER_loop_entry(G.n_stats) + (HITJ ? 1 : 0) && G.n_stats <= 3) \
	__CPROVER_loop_invariant(G.stats_delta == __CPROVER_loop_entry(G.stats_delta) - (HITJ ? 1 : 0) && G.stats_delta >= -3) \
	__CPROVER_loop_invariant(G.nmark[BM_RESERVE] == __CPROVER_loop_entry(G.nmark[BM_RESERVE]) + (HITJ ? 1 : 0) && G.nmark[BM_RESERVE] <= 3) \
	__CPROVER_loop_invariant(G.bit[BM_RESERVE] == (HITJ ? 1 : __CPROVER_loop_entry(G.bit[BM_RESERVE])) && G.bit[BM_NEW] == (HITJ ? 0 : __CPROVER_loop_entry(G.bit[BM_NEW]))) \
	__CPROVER_decreases(fs->inode_blocks_per_group - j)

#define RSZ_EXTRA_GHOST \
	unsigned int itl_grp; unsigned long long itl_val;	/* last ext2fs_inode_table_loc answer (start of the inode-table loop) */ \
	unsigned int bad;					/* a stub was used in a way the statement forbids */
#define RSZ_T_HOOK(fs, blk, inuse)	do { if ((fs) != rsz_new_fs || (inuse) != -1) G.bad = 1; } while (0)
#define RSZ_NO_LOC_STUBS
#include "rsz_common.h"
#include "resize/resize2fs.c"

unsigned long long verif_k;

static struct struct_ext2_filsys NFS, OFS;
static struct ext2_super_block NSB, OSB;

/* descriptor accessors: the ghost group's locations are the inputs; another group answers arbitrarily within the assumption */
static unsigned long long get_loc(ext2_filsys fs, dgrp_t group, int kind)
{
	unsigned long long v;
	if (fs != rsz_old_fs || group < S.lo || group >= S.hi)
		G.bad = 1;	/* only old_fs still has the descriptors of the removed groups; kept groups are not looked at */
	if (group == GI.g)
		v = G.loc[1][kind];
	else {
		v = rsz_chv();
		ASSUME(v < (1ULL << 48) && OTHER_LOC_OK(v, kind));
	}
	if (kind == T_IT) { G.itl_grp = group; G.itl_val = v; }
	return v;
}
blk64_t ext2fs_block_bitmap_loc(ext2_filsys fs, dgrp_t group) { return get_loc(fs, group, T_BB); }
blk64_t ext2fs_inode_bitmap_loc(ext2_filsys fs, dgrp_t group) { return get_loc(fs, group, T_IB); }
blk64_t ext2fs_inode_table_loc(ext2_filsys fs, dgrp_t group) { return get_loc(fs, group, T_IT); }
blk64_t ext2fs_blocks_count(struct ext2_super_block *super)
{
	if (super != &NSB) { G.bad = 1; return rsz_chv(); }	/* the limit is the NEW size */
	return S.end;
}

static void free_gdp_body(int bounded)
{
	int i;
	errcode_t ret;
	LOAD_IN();
	if (bounded)
		ASSUME(IN.ocnt - IN.ncnt <= 2 && IN.ipb <= 4);	/* rsz2_free_gdp_blocks_b2: loops unwound */
	rsz_ghost_init();
	G.itl_grp = 0; G.itl_val = 0; G.bad = 0;
	/* call site (adjust_fs_info): old_fs->group_desc_count > fs->group_desc_count >= 1, group == fs->group_desc_count */
	ASSUME(IN.ncnt >= 1 && IN.ocnt > IN.ncnt);
	ASSUME(IN.ipb >= 1 && IN.b < (1ULL << 48) && IN.end >= 1 && IN.end < (1ULL << 48));
	NFS.super = &NSB; NFS.group_desc_count = IN.ncnt; NFS.inode_blocks_per_group = IN.ipb; NFS.block_map = BMH(BM_NEW);
	NFS.cluster_ratio_bits = 0;	/* no bigalloc */
	OFS.super = &OSB; OFS.group_desc_count = IN.ocnt; OFS.inode_blocks_per_group = IN.ipb; OFS.block_map = BMH(BM_OLD);
	OFS.cluster_ratio_bits = 0;
	rsz_new_fs = &NFS; rsz_old_fs = &OFS;
	GI.b = IN.b; GI.g = IN.g;
	for (i = 0; i < BM_NR; i++) G.bit[i] = 0;
	G.bit[BM_NEW] = IN.bit_new & 1; G.bit[BM_RESERVE] = IN.bit_rsv & 1;
	for (i = 0; i < T_NR; i++) { ASSUME(IN.loc[i] < (1ULL << 48)); G.loc[1][i] = IN.loc[i]; G.loc[0][i] = 0; }
	S.end = IN.end; S.ipb = IN.ipb; S.lo = IN.ncnt; S.hi = IN.ocnt; S.N0 = G.bit[BM_NEW]; S.R0 = G.bit[BM_RESERVE];
	/* consistent old filesystem: the ghost group has an inode table, its three tables are disjoint */
	ASSUME(G.loc[1][T_IT] != 0);
	ASSUME(!(B_IS_BB && B_IS_IB) && !(B_IS_BB && B_IN_IT) && !(B_IS_IB && B_IN_IT));

	ret = free_gdp_blocks(&NFS, BMH(BM_RESERVE), &OFS, NFS.group_desc_count);

	CHECK(ret == 0, "without bigalloc nothing can fail");
	CHECK(G.bad == 0, "only old_fs descriptors of removed groups are read; the limit is the new size; every release is alloc_stats2(new fs, ., -1)");
	if (RELEASE) {
		CHECK(G.n_stats == 1 && G.stats_delta == -1, "a table block of a removed group inside the new filesystem is released exactly once");
		CHECK(G.bit[BM_RESERVE] == 1 && G.nmark[BM_RESERVE] == 1, "... and marked in reserve_blocks");
		CHECK(G.bit[BM_NEW] == 0, "... and free in the new block map");
		REACH("released");
		if (B_IS_BB) REACH("released_block_bitmap");
		if (B_IS_IB) REACH("released_inode_bitmap");
		if (B_IN_IT && GI.b != G.loc[1][T_IT]) REACH("released_inode_table");
		if (B_IN_IT && G.loc[1][T_IT] + S.ipb > S.end) REACH("released_front_of_straddling_table");
	} else {
		CHECK(G.n_stats == 0 && G.stats_delta == 0, "kept group / beyond the new end / not a table block: not released");
		CHECK(G.bit[BM_RESERVE] == S.R0 && G.nmark[BM_RESERVE] == 0 && G.bit[BM_NEW] == S.N0, "... both bitmaps untouched at this block");
		REACH("untouched");
		if (REMOVED && B_TABLE) REACH("beyond_new_end_skipped");
		if (!REMOVED && B_TABLE && GI.b < S.end) REACH("kept_group");
	}
	CHECK((G.nmark[BM_NEW] | G.nmark[BM_OLD] | G.nmark[BM_MOVE] | G.nmark[BM_META] | G.nmark[BM_NEWMETA]) == 0, "no other bitmap is marked");
	CHECK((G.t_unmark[BM_NEW] | G.t_unmark[BM_OLD] | G.t_unmark[BM_RESERVE] | G.t_unmark[BM_MOVE] | G.t_unmark[BM_META] | G.t_unmark[BM_NEWMETA]) == 0, "nothing is unmarked");
	CHECK(G.loc[1][T_BB] == IN.loc[T_BB] && G.loc[1][T_IB] == IN.loc[T_IB] && G.loc[1][T_IT] == IN.loc[T_IT], "descriptors are only read");
	REACH("end");
}
void h_free_gdp(void) { free_gdp_body(0); }
void h_free_gdp_b2(void) { free_gdp_body(1); }
