/* VERIF-UNIT
{
 "name": "rsz_extent_translate",
 "props": ["C08"],
 "level": "U/iter",
 "tier": "quick",
 "tier_after_hooks": "quick",
 "harness": "h_extent_translate",
 "includes": ["resize"],
 "loop_contracts": true,
 "defines": ["NUM_LIMIT=16777216"],
 "unwind": 10,
 "unwind_reason": "the only loop of ext2fs_extent_translate (the interpolating binary search) is cut by the in-place loop contract VERIF_INV_EXTENT_TRANSLATE_SEARCH (invariant + decreases clause, i.e. total correctness of the search); the bound only serves instrumentation loops",
 "functions": ["resize/extent.c:ext2fs_extent_translate"],
 "assumes": ["the table holds at most 2^24 runs (NUM_LIMIT); without this bound the obligation 'mid stays in [low, high]' FAILS: see unit rsz_extent_translate_big and findings/C08_extent_translate_float_oob",
             "when the table is marked sorted (or has just been sorted by qsort) its runs are well formed, ordered by old location and pairwise disjoint (XSPEC_WF / XSPEC_BEFORE of specs/resize_extent_spec.h; what ext2fs_add_extent_entry maintains while `sorted` stays 1, unit rsz_extent_add).  This universally quantified precondition is INSTANTIATED by ghost assumptions at the two anchors of the loop body, for the pairs (low, high) and (mid, k) the iteration looks at; k is one arbitrary ghost run that covers old_loc, if any run does (scenario 'covered'), otherwise the instance says that run mid does not cover old_loc (scenario 'not covered')",
             "qsort is a stub: it must be called exactly when the table is not marked sorted, on (list, num, entry size, extent_cmp); the ordering facts above become available only after that call (a search that runs on an unsorted table has nothing to rely on and fails the obligations).  That the comparator extent_cmp really defines the order is the separate unit rsz_extent_cmp; that qsort returns a permutation is not modelled (the table content is arbitrary)",
             "num < 2^63 (high is a signed 64-bit index)"],
 "native": false
}
*/
/* VERIF-UNIT
{
 "name": "rsz_extent_translate_big",
 "props": ["C08"],
 "level": "U/iter",
 "tier": "quick",
 "harness": "h_extent_translate",
 "includes": ["resize"],
 "loop_contracts": true,
 "defines": ["NUM_LIMIT=67108864"],
 "unwind": 10,
 "unwind_reason": "as rsz_extent_translate",
 "functions": ["resize/extent.c:ext2fs_extent_translate"],
 "assumes": ["as rsz_extent_translate but with up to 2^26 runs: FAILS ON THE PINNED TREE (genuine defect, passes with findings/C08_extent_translate_float_oob/proposed-fix.patch) on 'mid stays in [low, high]' -- (float)(high-low) rounds up once high-low needs more than 24 bits, so range == 1 puts mid behind high (and behind the end of the table): findings/C08_extent_translate_float_oob"],
 "native": false
}
*/
/* VERIF-UNIT
{
 "name": "rsz_extent_cmp",
 "props": ["C08"],
 "level": "U",
 "tier": "obs",
 "harness": "h_extent_cmp",
 "includes": ["resize"],
 "functions": ["resize/extent.c:extent_cmp"],
 "assumes": ["OBSERVATION, EXPECTED TO FAIL: extent_cmp returns the 64-bit difference of the old locations truncated to int, so it is not an order once two old locations differ by 2^31 or more (sign flips) or by a multiple of 2^32 (reported equal); 64-bit block numbers and inode numbers above 2^31 do that.  Stronger than C08 needs: resize2fs adds runs in ascending order of old location (block_mover, inode_scan_and_fix), the table never loses its `sorted` mark and qsort is never reached: findings/C08_extent_cmp_truncation (latent)"],
 "native": false
}
*/
/*
 * C08 — "every reference is rewritten to the block's / inode's new location": the lookup side of the translation map.
 *
 *   ext2fs_extent_translate(table, x) == new + (x - old)  for the run (old, new, size) that covers x,
 *                                     == 0                 when no run covers x,
 * and the table is sorted before the first probe when it is not marked sorted.
 *
 * The search loop is cut (U/iter): invariant  0 <= low, high < num, "the covering run k, if any, lies in [low, high]";
 * per iteration the probe index mid lies in [low, high] (hence inside the table: memory safety of list[mid]) and the
 * interval shrinks (decreases clause => the search terminates); on exit by `return` inside the loop the answer is that of
 * run mid, which by disjointness is the covering run.
 */
#include "verif.h"

struct in_s {
	unsigned long long num, size, sorted, cursor, old_loc, k;
	int covered;
};
struct in_s IN;
#include "verif_in.h"

unsigned long long verif_k;		/* ghost run index: a run that covers old_loc (scenario 'covered') */
unsigned long long verif_g0;		/* 1: scenario 'covered' (run verif_k covers old_loc), 0: no run covers old_loc */
unsigned long long verif_g1;		/* 1: the ordering facts are available (table marked sorted on entry, or qsort has been called) */
unsigned long long verif_g2;		/* number of qsort calls */
unsigned long long verif_g3;		/* old_loc probed */
unsigned long long verif_g4, verif_g5, verif_g6, verif_g7;
int verif_old_bit;
const unsigned char *verif_p0, *verif_p1, *verif_p2, *verif_p3;

#ifndef NUM_LIMIT
#define NUM_LIMIT 16777216
#endif
#define XL(i) (extent->list[i])
#define VERIF_INV_EXTENT_TRANSLATE_SEARCH \
	__CPROVER_assigns(low, high, mid, lowval, highval, range) \
	__CPROVER_loop_invariant(0 <= low && low <= (__s64)extent->num && -1 <= high && high < (__s64)extent->num) \
	__CPROVER_loop_invariant(verif_g0 == 0 || (low <= (__s64)verif_k && (__s64)verif_k <= high)) \
	__CPROVER_decreases(high - low + 1)
/* instance (low, high) of "runs are well formed, ordered and disjoint" */
#define VERIF_GHOST_EXTENT_TRANSLATE_TOP \
	if (verif_g1) __CPROVER_assume(XSPEC_WF(XL(low)) && XSPEC_WF(XL(high)) && (low == high || XSPEC_BEFORE(XL(low), XL(high))));
/* the probe index is inside the current interval; then instance (mid, k) resp. "run mid does not cover old_loc" */
#define VERIF_GHOST_EXTENT_TRANSLATE_MID \
	__CPROVER_assert(low <= mid && mid <= high, "CHECK:mid stays in [low, high] (inside the table)"); \
	if (verif_g1) __CPROVER_assume(XSPEC_WF(XL(mid))); \
	if (verif_g1 && verif_g0) __CPROVER_assume(mid == (__s64)verif_k || (mid < (__s64)verif_k ? XSPEC_BEFORE(XL(mid), XL(verif_k)) : XSPEC_BEFORE(XL(verif_k), XL(mid)))); \
	if (verif_g1 && !verif_g0) __CPROVER_assume(!XSPEC_COVERS(XL(mid), old_loc));

#include "resize_extent_spec.h"
#include "resize/extent.c"

static struct ext2_extent_entry *g_list;
static unsigned long long g_num;

/* libc qsort: must only be used to sort the whole table with the table's comparator, before any probe */
void qsort(void *base, size_t nmemb, size_t size, int (*compar)(const void *, const void *))
{
	verif_g2++;
	CHECK(base == (void *)g_list && nmemb == g_num && size == sizeof(struct ext2_extent_entry), "qsort sorts the whole table");
	CHECK(compar == extent_cmp, "with the table's comparator");
	verif_g1 = 1;
}

void h_extent_translate(void)
{
	struct _ext2_extent X;
	struct ext2_extent_entry *list;
	LOAD_IN();
	ASSUME(IN.num <= NUM_LIMIT && IN.num <= IN.size && IN.size <= NUM_LIMIT + 100ULL && IN.size >= 1);
	list = malloc(IN.size * sizeof(struct ext2_extent_entry));
	ASSUME(list != 0);
	X.list = list; X.cursor = IN.cursor; X.size = IN.size; X.num = IN.num; X.sorted = IN.sorted;
	g_list = list; g_num = IN.num;
	verif_g0 = IN.covered ? 1 : 0;
	verif_k = IN.k;
	verif_g1 = X.sorted ? 1 : 0;
	verif_g2 = 0;
	ASSUME(XSPEC_LOC_OK(IN.old_loc));
	struct ext2_extent_entry ek;
	if (verif_g0) {
		ASSUME(IN.k < IN.num);
		ek = list[IN.k];
		ASSUME(XSPEC_WF(ek) && XSPEC_COVERS(ek, IN.old_loc));
	}

	__u64 r = ext2fs_extent_translate(&X, IN.old_loc);

	CHECK(verif_g2 == (IN.sorted ? 0 : 1), "qsort is called exactly when the table is not marked sorted");
	CHECK(X.sorted != 0, "afterwards the table is marked sorted");
	CHECK(X.num == IN.num && X.list == list && X.size == IN.size, "lookup does not change the table's shape");
	if (verif_g0) {
		CHECK(r == XSPEC_IMAGE(ek, IN.old_loc), "translate(x) == new + (x - old) of the run that covers x");
		if (IN.k == 0) REACH("covered_first");
		if (IN.k != 0 && IN.k == IN.num - 1) REACH("covered_last");
		if (IN.old_loc != ek.old_loc) REACH("covered_inside");
	} else {
		CHECK(r == 0, "translate(x) == 0 when no run covers x");
		if (IN.num == 0) REACH("empty");
		if (IN.num > 2) REACH("not_covered");
	}
	if (!IN.sorted) REACH("unsorted_entry");
	REACH("end");
}

/* the comparator handed to qsort must order runs by old location (rsz_extent_translate relies on that for the unsorted case) */
void h_extent_cmp(void)
{
	struct ext2_extent_entry a, b;
	LOAD_IN();
	a.old_loc = IN.old_loc; b.old_loc = IN.k;
	ASSUME(XSPEC_LOC_OK(a.old_loc) && XSPEC_LOC_OK(b.old_loc));
	int c = extent_cmp(&a, &b);
	CHECK((c < 0) == (a.old_loc < b.old_loc), "negative exactly when a comes first");
	CHECK((c == 0) == (a.old_loc == b.old_loc), "zero exactly when equal");
	CHECK((c > 0) == (a.old_loc > b.old_loc), "positive exactly when b comes first");
	REACH("end");
}
