/* VERIF-UNIT
{
 "name": "rsz_btm_same_desc",
 "props": ["C08", "C20"],
 "level": "P",
 "tier": "quick",
 "tier_after_hooks": "quick",
 "harness": "h_blocks_to_move",
 "replace": ["mark_table_blocks", "reserve_sparse_super2_last_group", "mark_fs_metablock"],
 "includes": ["resize"],
 "loop_contracts": true,
 "defines": ["SCEN=1"],
 "unwind": 12,
 "unwind_reason": "all nine loops of blocks_to_move are cut by in-place loop contracts (VERIF_INV_BTM_*: invariant + decreases); the bound serves the harness' initialisation loops over the 6 ghost sets and the DFCC library loops over assigns clauses of up to 9 targets (a smaller bound silently cuts those paths: the REACH canaries guard against that)",
 "cbmc_flags": ["--object-bits", "12"],
 "backend": "cadical",
 "timeout": 900,
 "functions": ["resize/resize2fs.c:blocks_to_move"],
 "assumes": ["big translation unit: no contract is enforced; the real static function is called directly, the statement is made by harness CHECKs and by the PRECONDITIONS of the replaced static callees (call-site obligations) over the ghost monitor of rsz_common.h: bitmaps observed at ONE arbitrary ghost block, descriptors at ONE arbitrary ghost group",
             "mark_table_blocks, reserve_sparse_super2_last_group, mark_fs_metablock are replaced by contracts: mark_table_blocks(old_fs, meta) makes the ghost block a member of meta exactly when it is metadata of the old geometry (an input); reserve_sparse_super2_last_group does what unit rsz_ss2_reserve proves (blocks of the new last group's backup run, an input predicate, become reserved and in use; nothing else is reserved or queued for moving; it may fail); mark_fs_metablock(blk) reserves blk, marks it in use, may queue it for moving only when a file uses it, may zero table locations",
             "ext2fs_allocate_group_table is the ghost allocator of rsz_common.h (hands out only blocks free in the bitmap it is given, may fail); ext2fs_allocate_block_bitmap hands out the three bitmaps in call order and may fail; ext2fs_bg_has_super answers by the format (specs/spec_pow.h)",
             "group geometry is abstract: ext2fs_group_of_blk2 / ext2fs_group_first_block2 only satisfy 'the blocks of a group are consecutive and groups ascend' at the ghost block (no symbolic product / division); the first block of group i in the descriptor loops is whatever the code accumulates",
             "scenario split by the descriptor area (one unit each, together exhaustive): rsz_btm_same_desc = same descriptor size and same number of descriptor + reserved GDT blocks (any size change); rsz_btm_shrink_desc = fewer such blocks; rsz_btm_grow_desc = more such blocks or a descriptor size change",
             "configuration: 4 KiB blocks, 64-byte descriptors in the new filesystem (descriptors per block = 64, a constant), no bigalloc (cluster ratio 1); old descriptor size 32 or 64; every feature flag otherwise arbitrary; block counts < 2^48"],
 "native": false
}
*/
/* VERIF-UNIT
{
 "name": "rsz_btm_shrink_desc",
 "props": ["C08", "C20"],
 "level": "P",
 "tier": "thorough",
 "tier_after_hooks": "thorough",
 "harness": "h_blocks_to_move",
 "replace": ["mark_table_blocks", "reserve_sparse_super2_last_group", "mark_fs_metablock"],
 "includes": ["resize"],
 "loop_contracts": true,
 "defines": ["SCEN=2"],
 "unwind": 12,
 "unwind_reason": "all nine loops of blocks_to_move are cut by in-place loop contracts (VERIF_INV_BTM_*: invariant + decreases); the bound serves the harness' initialisation loops over the 6 ghost sets and the DFCC library loops over assigns clauses of up to 9 targets (a smaller bound silently cuts those paths: the REACH canaries guard against that)",
 "cbmc_flags": ["--object-bits", "12"],
 "backend": "cadical",
 "timeout": 900,
 "functions": ["resize/resize2fs.c:blocks_to_move"],
 "assumes": ["big translation unit: no contract is enforced; the real static function is called directly, the statement is made by harness CHECKs and by the PRECONDITIONS of the replaced static callees (call-site obligations) over the ghost monitor of rsz_common.h: bitmaps observed at ONE arbitrary ghost block, descriptors at ONE arbitrary ghost group",
             "mark_table_blocks, reserve_sparse_super2_last_group, mark_fs_metablock are replaced by contracts: mark_table_blocks(old_fs, meta) makes the ghost block a member of meta exactly when it is metadata of the old geometry (an input); reserve_sparse_super2_last_group does what unit rsz_ss2_reserve proves (blocks of the new last group's backup run, an input predicate, become reserved and in use; nothing else is reserved or queued for moving; it may fail); mark_fs_metablock(blk) reserves blk, marks it in use, may queue it for moving only when a file uses it, may zero table locations",
             "ext2fs_allocate_group_table is the ghost allocator of rsz_common.h (hands out only blocks free in the bitmap it is given, may fail); ext2fs_allocate_block_bitmap hands out the three bitmaps in call order and may fail; ext2fs_bg_has_super answers by the format (specs/spec_pow.h)",
             "group geometry is abstract: ext2fs_group_of_blk2 / ext2fs_group_first_block2 only satisfy 'the blocks of a group are consecutive and groups ascend' at the ghost block (no symbolic product / division); the first block of group i in the descriptor loops is whatever the code accumulates",
             "scenario split by the descriptor area (one unit each, together exhaustive): rsz_btm_same_desc = same descriptor size and same number of descriptor + reserved GDT blocks (any size change); rsz_btm_shrink_desc = fewer such blocks; rsz_btm_grow_desc = more such blocks or a descriptor size change",
             "configuration: 4 KiB blocks, 64-byte descriptors in the new filesystem (descriptors per block = 64, a constant), no bigalloc (cluster ratio 1); old descriptor size 32 or 64; every feature flag otherwise arbitrary; block counts < 2^48"],
 "native": false
}
*/
/* VERIF-UNIT
{
 "name": "rsz_btm_grow_desc",
 "props": ["C08", "C20"],
 "level": "P",
 "tier": "thorough",
 "tier_after_hooks": "thorough",
 "harness": "h_blocks_to_move",
 "replace": ["mark_table_blocks", "reserve_sparse_super2_last_group", "mark_fs_metablock"],
 "includes": ["resize"],
 "loop_contracts": true,
 "defines": ["SCEN=3"],
 "unwind": 12,
 "unwind_reason": "all nine loops of blocks_to_move are cut by in-place loop contracts (VERIF_INV_BTM_*: invariant + decreases); the bound serves the harness' initialisation loops over the 6 ghost sets and the DFCC library loops over assigns clauses of up to 9 targets (a smaller bound silently cuts those paths: the REACH canaries guard against that)",
 "cbmc_flags": ["--object-bits", "12"],
 "backend": "cadical",
 "timeout": 900,
 "functions": ["resize/resize2fs.c:blocks_to_move"],
 "assumes": ["big translation unit: no contract is enforced; the real static function is called directly, the statement is made by harness CHECKs and by the PRECONDITIONS of the replaced static callees (call-site obligations) over the ghost monitor of rsz_common.h: bitmaps observed at ONE arbitrary ghost block, descriptors at ONE arbitrary ghost group",
             "mark_table_blocks, reserve_sparse_super2_last_group, mark_fs_metablock are replaced by contracts: mark_table_blocks(old_fs, meta) makes the ghost block a member of meta exactly when it is metadata of the old geometry (an input); reserve_sparse_super2_last_group does what unit rsz_ss2_reserve proves (blocks of the new last group's backup run, an input predicate, become reserved and in use; nothing else is reserved or queued for moving; it may fail); mark_fs_metablock(blk) reserves blk, marks it in use, may queue it for moving only when a file uses it, may zero table locations",
             "ext2fs_allocate_group_table is the ghost allocator of rsz_common.h (hands out only blocks free in the bitmap it is given, may fail); ext2fs_allocate_block_bitmap hands out the three bitmaps in call order and may fail; ext2fs_bg_has_super answers by the format (specs/spec_pow.h)",
             "group geometry is abstract: ext2fs_group_of_blk2 / ext2fs_group_first_block2 only satisfy 'the blocks of a group are consecutive and groups ascend' at the ghost block (no symbolic product / division); the first block of group i in the descriptor loops is whatever the code accumulates",
             "scenario split by the descriptor area (one unit each, together exhaustive): rsz_btm_same_desc = same descriptor size and same number of descriptor + reserved GDT blocks (any size change); rsz_btm_shrink_desc = fewer such blocks; rsz_btm_grow_desc = more such blocks or a descriptor size change",
             "configuration: 4 KiB blocks, 64-byte descriptors in the new filesystem (descriptors per block = 64, a constant), no bigalloc (cluster ratio 1); old descriptor size 32 or 64; every feature flag otherwise arbitrary; block counts < 2^48"],
 "native": false
}
*/
/*
 * C08 / C20 — blocks_to_move as an ordering protocol plus pointwise statements.
 *
 * Ordering (callee preconditions and counters; "reserve before anything can hand the block out"):
 *   O1  mark_table_blocks(old_fs, meta_bmap) runs first: meta_bmap is the old geometry's metadata when anything tests it;
 *   O2  reserve_sparse_super2_last_group runs exactly once on every successful path;
 *   O3  when it is entered, nothing has been allocated out of rfs->reserve_blocks and no mark_fs_metablock has run;
 *   O4  afterwards every ext2fs_allocate_group_table goes through rfs->reserve_blocks (never again through the block map),
 *       so a block of the new backup run (reserved there) is never handed out: pointwise, ghost block;
 *   O5  ext2fs_allocate_group_table(fs, g, 0) happens only while shrinking, before O2 (its picks are re-examined by O2);
 *   O6  unchanged descriptor area (same descriptor size, same number of descriptor + reserved GDT blocks): nothing after O2.
 * Pointwise (ghost block b):
 *   B1  shrinking: every block b with new_size <= b < old_size whose group is not BLOCK_UNINIT is reserved, and queued for
 *       moving exactly when a file uses it (in use in the old map, not old metadata)  [per iteration of the loop];
 *   B2  reservation and move queue only grow;  the old map and meta_bmap are only read.
 */
#include "verif.h"
#include "spec_pow.h"
#include "rsz_in.h"
struct in_s {
	RSZ_IN_FIELDS;
	unsigned long long new_size, old_size, b, needed, loc_new[3], loc_old[3];
	unsigned int old_cnt, new_cnt, ipb, g, grp_b;
	unsigned int o_compat, o_ro, o_incompat, o_bbg0, o_bbg1, n_compat, n_ro, n_incompat, n_bbg0, n_bbg1;
	unsigned int o_desc_blocks, n_desc_blocks, o_rsv_gdt, n_rsv_gdt, o_first_meta_bg, n_first_meta_bg, fdb;
	unsigned short o_desc_size;
	unsigned char bit[8], b_old_meta, b_in_ss2run, grp_b_uninit;
	long ret_rsv;
};
struct in_s IN;
#include "verif_in.h"

/* spec-side constants of the run (set once by the harness) */
static struct {
	unsigned long long new_size, old_size;
	unsigned char b_old_meta, b_in_ss2run, grp_b_uninit, csum;
	unsigned int grp_b;
	unsigned char R0, M0;	/* reservation / move membership of the ghost block when blocks_to_move is entered */
	unsigned char O0;	/* old map */
} S;
#define BEYOND(x)	((x) >= S.new_size && (x) < S.old_size)
#define B_SKIPPED	(S.csum && S.grp_b_uninit)
#define MOVE_IF_FILE	(S.O0 && !S.b_old_meta)

/* state no loop of blocks_to_move may disturb */
#define PIN_COMMON \
	__CPROVER_loop_invariant(G.bit[BM_OLD] == S.O0 && G.bit[BM_META] == S.b_old_meta && G.n_mtb == 1 && G.agt_bad_bmap == 0 && G.nalloc == 2) \
	__CPROVER_loop_invariant(G.loc[1][T_BB] == __CPROVER_loop_entry(G.loc[1][T_BB]) && G.loc[1][T_IB] == __CPROVER_loop_entry(G.loc[1][T_IB]) && G.loc[1][T_IT] == __CPROVER_loop_entry(G.loc[1][T_IT])) \
	__CPROVER_loop_invariant(G.bit[BM_NEW] <= 1 && G.bit[BM_RESERVE] <= 1 && G.bit[BM_MOVE] <= 1) \
	__CPROVER_loop_invariant(G.bit[BM_RESERVE] >= __CPROVER_loop_entry(G.bit[BM_RESERVE]) && G.bit[BM_MOVE] >= __CPROVER_loop_entry(G.bit[BM_MOVE])) \
	__CPROVER_loop_invariant(G.bit[BM_MOVE] == __CPROVER_loop_entry(G.bit[BM_MOVE]) || MOVE_IF_FILE)
#define PIN_BEFORE_RSV \
	PIN_COMMON \
	__CPROVER_loop_invariant(G.n_rsv_ss2 == 0 && G.n_mfm == 0 && G.n_agt_rsv == 0 && G.agt_rsv_early == 0 && G.agt_map_late == 0 && G.agt_took_b_rsv == 0)
#define PIN_AFTER_RSV \
	PIN_COMMON \
	__CPROVER_loop_invariant(G.n_rsv_ss2 == 1 && G.agt_rsv_early == 0 && G.agt_map_late == 0 && G.n_agt_map == __CPROVER_loop_entry(G.n_agt_map)) \
	__CPROVER_loop_invariant(G.rsv_failed == 0 && (!S.b_in_ss2run || (G.bit[BM_RESERVE] == 1 && G.agt_took_b_rsv == 0)))

#define VERIF_INV_BTM_SHRINK_GROUPS \
	__CPROVER_assigns(g, retval, G) \
	__CPROVER_loop_invariant(g <= fs->group_desc_count && new_size == S.new_size && S.new_size < S.old_size) \
	PIN_BEFORE_RSV \
	__CPROVER_loop_invariant(G.bit[BM_RESERVE] == S.R0 && G.bit[BM_MOVE] == S.M0) \
	__CPROVER_decreases(fs->group_desc_count - g)

#define VERIF_INV_BTM_BEYOND \
	__CPROVER_assigns(blk, g, G, rfs->needed_blocks) \
	__CPROVER_loop_invariant(blk >= S.new_size) \
	PIN_BEFORE_RSV \
	__CPROVER_loop_invariant(G.n_agt == __CPROVER_loop_entry(G.n_agt) && G.bit[BM_NEW] == __CPROVER_loop_entry(G.bit[BM_NEW])) \
	__CPROVER_loop_invariant(G.loc[0][T_BB] == __CPROVER_loop_entry(G.loc[0][T_BB]) && G.loc[0][T_IB] == __CPROVER_loop_entry(G.loc[0][T_IB]) && G.loc[0][T_IT] == __CPROVER_loop_entry(G.loc[0][T_IT])) \
	__CPROVER_loop_invariant(!(BEYOND(GI.b) && GI.b < blk && !B_SKIPPED) || (G.bit[BM_RESERVE] == 1 && G.bit[BM_MOVE] == (S.M0 || MOVE_IF_FILE))) \
	__CPROVER_loop_invariant((BEYOND(GI.b) && GI.b < blk && !B_SKIPPED) || (G.bit[BM_RESERVE] == S.R0 && G.bit[BM_MOVE] == S.M0)) \
	__CPROVER_decreases(blk < S.old_size ? S.old_size - blk : 0)

#define VERIF_INV_BTM_FREE_GROUPS \
	__CPROVER_assigns(i, group_blk, group_end, blk, cluster_freed, G, rfs->needed_blocks) \
	__CPROVER_loop_invariant(i <= max_groups) \
	PIN_AFTER_RSV \
	__CPROVER_loop_invariant(G.n_agt == __CPROVER_loop_entry(G.n_agt) && G.n_agt_rsv == __CPROVER_loop_entry(G.n_agt_rsv) && G.n_mfm == 0) \
	__CPROVER_decreases(max_groups - i)
#define VERIF_INV_BTM_FREE_BLOCKS \
	__CPROVER_assigns(blk, cluster_freed, G, rfs->needed_blocks) \
	__CPROVER_loop_invariant(1) \
	PIN_AFTER_RSV \
	__CPROVER_loop_invariant(G.n_agt == __CPROVER_loop_entry(G.n_agt) && G.n_agt_rsv == __CPROVER_loop_entry(G.n_agt_rsv) && G.n_mfm == 0) \
	__CPROVER_decreases(blk < group_end ? group_end - blk : 0)

#define VERIF_INV_BTM_META_GROUPS \
	__CPROVER_assigns(i, has_super, meta_bg, group_blk, blk, G, rfs->needed_blocks) \
	__CPROVER_loop_invariant(i <= max_groups) \
	PIN_AFTER_RSV \
	__CPROVER_loop_invariant(G.n_agt == __CPROVER_loop_entry(G.n_agt)) \
	__CPROVER_decreases(max_groups - i)
#define VERIF_INV_BTM_META_BLOCKS \
	__CPROVER_assigns(blk, G, rfs->needed_blocks) \
	__CPROVER_loop_invariant(blk >= group_blk + 1) \
	PIN_AFTER_RSV \
	__CPROVER_loop_invariant(G.n_agt == __CPROVER_loop_entry(G.n_agt)) \
	__CPROVER_decreases(blk < group_blk + 1 + new_blocks ? group_blk + 1 + new_blocks - blk : 0)

#define VERIF_INV_BTM_ALLOC_GROUPS \
	__CPROVER_assigns(i, j, blk, retval, G, rfs->needed_blocks) \
	__CPROVER_loop_invariant(i <= max_groups) \
	PIN_AFTER_RSV \
	__CPROVER_decreases(max_groups - i)
#define VERIF_INV_BTM_ALLOC_NEW_ITABLE \
	__CPROVER_assigns(j, blk, G) \
	__CPROVER_loop_invariant(j <= fs->inode_blocks_per_group) \
	PIN_AFTER_RSV \
	__CPROVER_loop_invariant(G.n_agt == __CPROVER_loop_entry(G.n_agt)) \
	__CPROVER_decreases(fs->inode_blocks_per_group - j)
#define VERIF_INV_BTM_ALLOC_OLD_ITABLE \
	__CPROVER_assigns(j, blk, G) \
	__CPROVER_loop_invariant(j <= fs->inode_blocks_per_group) \
	PIN_AFTER_RSV \
	__CPROVER_loop_invariant(G.n_agt == __CPROVER_loop_entry(G.n_agt)) \
	__CPROVER_decreases(fs->inode_blocks_per_group - j)

#define RSZ_EXTRA_GHOST \
	unsigned int nalloc;		/* ext2fs_allocate_block_bitmap calls that succeeded */ \
	unsigned int rsv_failed;	/* reserve_sparse_super2_last_group (replaced) failed */ \
	unsigned long long q_blk; unsigned int q_grp;	/* last ext2fs_group_of_blk2 query */
#include "rsz_common.h"
#include "resize/resize2fs.c"

unsigned long long verif_k;

/* ---- contracts of the replaced static callees (re-declarations: the types come from the real file) ---- */
static errcode_t mark_table_blocks(ext2_filsys fs, ext2fs_block_bitmap bmap)
	/* O1: the first thing marked is the OLD geometry's metadata, into the fresh meta_bmap */
	REQUIRES(G.n_mtb != 0 || (fs == rsz_old_fs && bmap == BMH(BM_META) && G.nalloc == 2))
	REQUIRES(G.n_mtb == 0 || bmap == BMH(BM_NEWMETA))
	ENSURES(RET == 0)
	ENSURES(G.n_mtb == OLD(G.n_mtb) + 1)
	ENSURES(G.bit[BM_META] == (OLD(G.n_mtb) == 0 ? S.b_old_meta : OLD(G.bit[BM_META])))
	ASSIGNS(G.n_mtb, G.bit[BM_META], G.bit[BM_NEWMETA]);

static errcode_t reserve_sparse_super2_last_group(ext2_resize_t rfs, ext2fs_block_bitmap meta_bmap)
	/* O3 */
	REQUIRES(G.n_rsv_ss2 == 0 && G.n_agt_rsv == 0 && G.n_mfm == 0 && G.n_mtb == 1)
	REQUIRES(meta_bmap == BMH(BM_META) && rfs->reserve_blocks == BMH(BM_RESERVE) && rfs->move_blocks == BMH(BM_MOVE) && rfs->new_fs == rsz_new_fs && rfs->old_fs == rsz_old_fs)
	ENSURES(G.n_rsv_ss2 == 1 && RET == IN.ret_rsv && G.rsv_failed == (RET != 0))
	/* what unit rsz_ss2_reserve proves, at the ghost block */
	ENSURES(RET != 0 || !S.b_in_ss2run || (G.bit[BM_RESERVE] == 1 && G.bit[BM_NEW] == 1))
	ENSURES(RET != 0 || S.b_in_ss2run || (G.bit[BM_RESERVE] == OLD(G.bit[BM_RESERVE]) && G.bit[BM_MOVE] == OLD(G.bit[BM_MOVE])))
	ENSURES(G.bit[BM_RESERVE] >= OLD(G.bit[BM_RESERVE]) && G.bit[BM_MOVE] >= OLD(G.bit[BM_MOVE]))
	ENSURES(G.bit[BM_NEW] <= 1 && G.bit[BM_RESERVE] <= 1 && G.bit[BM_MOVE] <= 1)
	ENSURES(G.bit[BM_MOVE] == OLD(G.bit[BM_MOVE]) || (S.b_in_ss2run && MOVE_IF_FILE))
	ASSIGNS(G.n_rsv_ss2, G.rsv_failed, G.bit[BM_RESERVE], G.bit[BM_NEW], G.bit[BM_MOVE], G.loc[0][T_BB], G.loc[0][T_IB], G.loc[0][T_IT], rfs->needed_blocks);

static void mark_fs_metablock(ext2_resize_t rfs, ext2fs_block_bitmap meta_bmap, int group, blk64_t blk)
	/* O3/O4: descriptor blocks of the new geometry are claimed only after the backup run of the new last group is reserved */
	REQUIRES(G.n_rsv_ss2 == 1 && meta_bmap == BMH(BM_META))
	ENSURES(G.n_mfm == OLD(G.n_mfm) + 1)
	ENSURES(blk != GI.b || (G.bit[BM_RESERVE] == 1 && G.bit[BM_NEW] == 1))
	ENSURES(blk == GI.b || (G.bit[BM_RESERVE] == OLD(G.bit[BM_RESERVE]) && G.bit[BM_NEW] == OLD(G.bit[BM_NEW]) && G.bit[BM_MOVE] == OLD(G.bit[BM_MOVE])))
	ENSURES(G.bit[BM_MOVE] >= OLD(G.bit[BM_MOVE]) && (G.bit[BM_MOVE] == OLD(G.bit[BM_MOVE]) || MOVE_IF_FILE))
	ENSURES(G.bit[BM_NEW] <= 1 && G.bit[BM_RESERVE] <= 1 && G.bit[BM_MOVE] <= 1)
	ENSURES(G.mfm_hit_b == OLD(G.mfm_hit_b) + (blk == GI.b ? 1 : 0))
	ASSIGNS(G.n_mfm, G.mfm_hit_b, G.bit[BM_RESERVE], G.bit[BM_NEW], G.bit[BM_MOVE], G.loc[0][T_BB], G.loc[0][T_IB], G.loc[0][T_IT], rfs->needed_blocks);

/* ---- libext2fs stubs specific to blocks_to_move ---- */
static struct ext2_super_block NSB, OSB;
blk64_t ext2fs_blocks_count(struct ext2_super_block *super) { return super == &NSB ? S.new_size : S.old_size; }

errcode_t ext2fs_allocate_block_bitmap(ext2_filsys fs, const char *descr, ext2fs_block_bitmap *ret)
{
	if (rsz_ch() & 1)
		return EXT2_ET_NO_MEMORY;
	/* fresh (empty) bitmaps, in the order blocks_to_move asks for them: move_blocks, meta_bmap, new_meta_bmap */
	if (G.nalloc == 0) { *ret = BMH(BM_MOVE); G.bit[BM_MOVE] = 0; }
	else if (G.nalloc == 1) { *ret = BMH(BM_META); G.bit[BM_META] = 0; }
	else { *ret = BMH(BM_NEWMETA); G.bit[BM_NEWMETA] = 0; }
	G.nalloc++;
	return 0;
}

int ext2fs_bg_has_super(ext2_filsys fs, dgrp_t group)
{
	struct ext2_super_block *sb = fs->super;
	return spec_bg_has_super(group, sb->s_feature_compat, sb->s_feature_ro_compat, sb->s_backup_bgs[0], sb->s_backup_bgs[1]);
}

/* groups are consecutive runs of blocks, ascending: all that is used of the geometry, and only at the ghost block */
dgrp_t ext2fs_group_of_blk2(ext2_filsys fs, blk64_t blk)
{
	dgrp_t g = (blk == GI.b) ? S.grp_b : (dgrp_t)rsz_chv();
	ASSUME(g < 0xfffffff0u);
	ASSUME(blk > GI.b || g <= S.grp_b);
	ASSUME(blk < GI.b || g >= S.grp_b);
	G.q_blk = blk; G.q_grp = g;
	return g;
}
blk64_t ext2fs_group_first_block2(ext2_filsys fs, dgrp_t group)
{
	blk64_t v = rsz_chv();
	ASSUME(v < (1ULL << 48));
	if (group == G.q_grp + 1) {
		ASSUME(v > G.q_blk);				/* the next group starts behind the block just asked about */
		if (GI.b >= G.q_blk) {
			ASSUME(S.grp_b != G.q_grp || GI.b < v);	/* same group: the ghost block lies in front of the next group */
			ASSUME(S.grp_b == G.q_grp || GI.b >= v);	/* later group: it does not */
		}
	}
	return v;
}
int ext2fs_bg_flags_test(ext2_filsys fs, dgrp_t group, __u16 bg_flag)
{
	if (fs == rsz_old_fs && group == S.grp_b && bg_flag == EXT2_BG_BLOCK_UNINIT)
		return S.grp_b_uninit ? EXT2_BG_BLOCK_UNINIT : 0;
	return rsz_ch() & 1;
}

static void run(void)
{
	static struct struct_ext2_filsys NFS, OFS;
	static struct ext2_resize_struct RFS;
	int i;
	rsz_ghost_init();
	G.nalloc = 0; G.rsv_failed = 0; G.q_blk = 0; G.q_grp = 0;
	ASSUME(IN.old_cnt >= 1 && IN.new_cnt >= 1 && IN.ipb >= 1);
	ASSUME(IN.new_size < (1ULL << 48) && IN.old_size < (1ULL << 48) && IN.b < (1ULL << 48) && IN.needed < (1ULL << 48));
	NFS.super = &NSB; OFS.super = &OSB;
	NFS.group_desc_count = IN.new_cnt; OFS.group_desc_count = IN.old_cnt;
	NFS.inode_blocks_per_group = IN.ipb; OFS.inode_blocks_per_group = IN.ipb;
	NFS.cluster_ratio_bits = 0; OFS.cluster_ratio_bits = 0;
	NFS.blocksize = 4096; OFS.blocksize = 4096;
	NFS.desc_blocks = IN.n_desc_blocks; OFS.desc_blocks = IN.o_desc_blocks;
	NSB.s_log_block_size = 2; OSB.s_log_block_size = 2;
	NSB.s_log_cluster_size = 2; OSB.s_log_cluster_size = 2;
	NSB.s_feature_compat = IN.n_compat; NSB.s_feature_ro_compat = IN.n_ro;
	NSB.s_feature_incompat = IN.n_incompat | EXT4_FEATURE_INCOMPAT_64BIT; NSB.s_desc_size = 64;
	OSB.s_feature_compat = IN.o_compat; OSB.s_feature_ro_compat = IN.o_ro; OSB.s_feature_incompat = IN.o_incompat;
	ASSUME(IN.o_desc_size == 32 || IN.o_desc_size == 64);
	OSB.s_desc_size = IN.o_desc_size;
	NSB.s_backup_bgs[0] = IN.n_bbg0; NSB.s_backup_bgs[1] = IN.n_bbg1;
	OSB.s_backup_bgs[0] = IN.o_bbg0; OSB.s_backup_bgs[1] = IN.o_bbg1;
	NSB.s_reserved_gdt_blocks = IN.n_rsv_gdt; OSB.s_reserved_gdt_blocks = IN.o_rsv_gdt;
	NSB.s_first_meta_bg = IN.n_first_meta_bg; OSB.s_first_meta_bg = IN.o_first_meta_bg;
	NSB.s_first_data_block = 0; OSB.s_first_data_block = 0;
	ASSUME(IN.n_desc_blocks < (1u << 24) && IN.o_desc_blocks < (1u << 24) && IN.n_rsv_gdt <= 1024 && IN.o_rsv_gdt <= 1024);
	NSB.s_blocks_per_group = 32768; OSB.s_blocks_per_group = 32768;
	NFS.block_map = BMH(BM_NEW); OFS.block_map = BMH(BM_OLD);
	RFS.new_fs = &NFS; RFS.old_fs = &OFS; RFS.reserve_blocks = BMH(BM_RESERVE); RFS.move_blocks = 0;
	RFS.needed_blocks = IN.needed;
	rsz_new_fs = &NFS; rsz_old_fs = &OFS;
	GI.b = IN.b; GI.g = IN.g;
	for (i = 0; i < BM_NR; i++) G.bit[i] = IN.bit[i] & 1;
	G.bit[BM_MOVE] = 0; G.bit[BM_META] = 0; G.bit[BM_NEWMETA] = 0;	/* not allocated yet */
	for (i = 0; i < T_NR; i++) {
		ASSUME(IN.loc_new[i] < (1ULL << 48) && IN.loc_old[i] < (1ULL << 48));
		G.loc[0][i] = IN.loc_new[i]; G.loc[1][i] = IN.loc_old[i];
	}
	S.new_size = IN.new_size; S.old_size = IN.old_size;
	S.b_old_meta = IN.b_old_meta & 1; S.b_in_ss2run = IN.b_in_ss2run & 1; S.grp_b_uninit = IN.grp_b_uninit & 1;
	S.grp_b = IN.grp_b; ASSUME(IN.grp_b < 0xfffffff0u);
	S.csum = ext2fs_has_group_desc_csum(&NFS) != 0;
	S.R0 = G.bit[BM_RESERVE]; S.M0 = 0; S.O0 = G.bit[BM_OLD];
	/* a block of the new last group's backup run lies inside the new filesystem */
	ASSUME(!S.b_in_ss2run || IN.b < IN.new_size);

	{
		unsigned long long ob = (IN.o_incompat & EXT2_FEATURE_INCOMPAT_META_BG) ? IN.o_first_meta_bg : (unsigned long long)IN.o_desc_blocks + IN.o_rsv_gdt;
		unsigned long long nb = (IN.n_incompat & EXT2_FEATURE_INCOMPAT_META_BG) ? IN.n_first_meta_bg : (unsigned long long)IN.n_desc_blocks + IN.n_rsv_gdt;
		int same = EXT2_DESC_SIZE(&OSB) == 64 && ob == nb;
#if SCEN == 1	/* descriptor area unchanged (any size change) */
		ASSUME(same);
#elif SCEN == 2	/* descriptor area shrinks */
		ASSUME(!same && ob > nb);
#elif SCEN == 3	/* descriptor area grows, or the descriptor size changes with ob <= nb */
		ASSUME(!same && ob <= nb);
#endif
	}
	errcode_t r = blocks_to_move(&RFS);

	int shrinking = IN.new_size < IN.old_size;
	unsigned long long old_blocks = (IN.o_incompat & EXT2_FEATURE_INCOMPAT_META_BG) ? IN.o_first_meta_bg : (unsigned long long)IN.o_desc_blocks + IN.o_rsv_gdt;
	unsigned long long new_blocks = (IN.n_incompat & EXT2_FEATURE_INCOMPAT_META_BG) ? IN.n_first_meta_bg : (unsigned long long)IN.n_desc_blocks + IN.n_rsv_gdt;
	int same_desc_area = EXT2_DESC_SIZE(&OSB) == 64 && old_blocks == new_blocks;

	CHECK(G.agt_rsv_early == 0, "O3/O4: nothing is allocated out of reserve_blocks before the new last group's backup run is reserved");
	CHECK(G.agt_map_late == 0, "O4: after that reservation tables are never again allocated from the block map");
	CHECK(G.agt_bad_bmap == 0, "tables are allocated in new_fs, from its block map or from reserve_blocks");
	CHECK(G.n_agt_map == 0 || shrinking, "O5: tables are re-allocated from the block map only when shrinking");
	CHECK(G.bit[BM_OLD] == S.O0, "B2: the old block map is only read");
	CHECK(G.bit[BM_RESERVE] >= S.R0, "B2: reservations only grow");
	if (r == 0) {
		CHECK(G.n_rsv_ss2 == 1 && G.n_mtb >= 1, "O1/O2: reserve_sparse_super2_last_group ran exactly once");
		CHECK(RFS.move_blocks == BMH(BM_MOVE), "rfs->move_blocks is the fresh bitmap");
		CHECK(!S.b_in_ss2run || (G.bit[BM_RESERVE] == 1 && G.agt_took_b_rsv == 0), "O4: a block of the new last group's backup run stays reserved and is never handed out");
		CHECK(G.bit[BM_MOVE] == 0 || MOVE_IF_FILE, "only blocks a file uses (old map, not old metadata) are queued for moving");
		if (same_desc_area) {
			CHECK(G.n_mfm == 0 && G.n_agt_rsv == 0, "O6: unchanged descriptor area: nothing is claimed or re-allocated after the reservation");
#if SCEN == 1
			REACH("same_desc_area");
#endif
		}
		if (BEYOND(IN.b) && !B_SKIPPED) {
			CHECK(G.bit[BM_RESERVE] == 1, "B1: a block behind the new end is reserved");
			CHECK(G.bit[BM_MOVE] == MOVE_IF_FILE, "B1: a block behind the new end is queued for moving exactly when a file uses it");
			REACH("beyond");
			if (MOVE_IF_FILE) REACH("beyond_file_block");
		}
		if (BEYOND(IN.b) && B_SKIPPED) REACH("beyond_uninit_group");
		if (G.n_agt_map) REACH("shrink_realloc");
#if SCEN == 3
		if (G.n_mfm) REACH("desc_grow");
		if (G.n_agt_rsv) REACH("desc_grow_realloc");
		if (EXT2_DESC_SIZE(&OSB) == 32) REACH("desc_size_change");
#endif
#if SCEN == 2
		if (!same_desc_area && old_blocks > new_blocks && EXT2_DESC_SIZE(&OSB) == 64) REACH("desc_shrink");
		CHECK(G.n_mfm == 0 && G.n_agt_rsv == 0, "fewer descriptor blocks: blocks are only released, nothing is claimed or re-allocated");
#endif
		if (S.b_in_ss2run) REACH("ss2_run");
		REACH("success");
	} else {
		REACH("failed");
	}
	REACH("end");
}

void h_blocks_to_move(void) { LOAD_IN(); run(); }
