/* VERIF-UNIT
{
 "name": "rsz_ss2_clear",
 "props": ["C08", "C20"],
 "level": "U",
 "tier": "quick",
 "harness": "h_ss2_clear",
 "includes": ["resize"],
 "unwind": 12,
 "unwind_reason": "clear_sparse_super2_last_group has no loop; the bound serves the harness' initialisation loops over the 6 ghost sets (unwinding assertions on)",
 "cbmc_flags": ["--object-bits", "12"],
 "backend": "cadical",
 "functions": ["resize/resize2fs.c:clear_sparse_super2_last_group"],
 "assumes": ["FAILS ON THE PINNED TREE (genuine defect, findings/C08_ss2_clear_off_by_one): the descriptor copies are released with the block count that ext2fs_super_and_bgd_loc2 reports for super block PLUS descriptors, so the block behind the run is marked free as well; passes with findings/C08_ss2_clear_off_by_one/proposed-fix.patch",
             "big translation unit: no contract is enforced; the real static function is called directly, statement by harness CHECKs over the ghost monitor of rsz_common.h (new block map observed at ONE arbitrary ghost block)",
             "ext2fs_super_and_bgd_loc2 is a stub that answers what the format prescribes for the asked group of the OLD geometry (specs/spec_geom.h), the group's first block being an arbitrary input",
             "both handles have at least one group; block numbers < 2^48; the superblock + descriptor run of a group is shorter than 2^31 blocks"],
 "native": false
}
*/
/*
 * C20 / C08 — growing a sparse_super2 filesystem: s_backup_bgs[1] follows the last group, so the group that used to be
 * last loses its backup.  clear_sparse_super2_last_group must release EXACTLY the blocks the format gave that group for
 * its superblock copy and old-style descriptor copies in the OLD geometry (ext2fs_super_and_bgd_loc2(old_fs, old_last_bg)):
 *   - every block of the run  [sb, sb + 1 + old_desc_blocks)  becomes free in new_fs->block_map,
 *   - NO other block changes (a block that a file or a table uses must stay in use),
 *   - nothing at all when the feature is off, the group count does not grow, the old last group carried no backup, or it
 *     still carries one under the new superblock.
 */
#include "verif.h"
#include "spec_geom.h"
#include "rsz_in.h"
struct in_s {
	RSZ_IN_FIELDS;
	unsigned int old_cnt, new_cnt;
	unsigned int o_compat, o_ro, o_bbg0, o_bbg1, n_compat, n_ro, n_bbg0, n_bbg1, n_incompat;
	unsigned long long b, sb_loc;
	unsigned int old_desc_count;
	unsigned char bit[8], in_meta, holder;
	long ret_loc2;
};
struct in_s IN;
#include "verif_in.h"

#include "rsz_common.h"
#include "resize/resize2fs.c"

unsigned long long verif_k;

static struct { unsigned long long sb, n; unsigned char bit0[8]; } S;
#define INRANGE(x)	((x) >= S.sb && (x) - S.sb < S.n)
static struct spec_geom OG;	/* the old geometry, as far as "which group carries a backup" goes */
static unsigned int g_old_last_bg;

errcode_t ext2fs_super_and_bgd_loc2(ext2_filsys fs, dgrp_t group, blk64_t *ret_super_blk, blk64_t *ret_old_desc_blk,
				    blk64_t *ret_new_desc_blk, blk_t *ret_used_blks)
{
	int has = spec_geom_has_super(&OG, group);
	blk64_t sb = has ? IN.sb_loc : 0, od = (IN.in_meta || !has) ? 0 : sb + 1;
	blk_t used = (has ? 1 : 0) + (IN.in_meta ? (IN.holder & 1) : (has ? IN.old_desc_count : 0));
	G.n_loc2++;
	if (fs != rsz_old_fs || group != g_old_last_bg || !ret_super_blk || !ret_old_desc_blk || !ret_used_blks)
		G.loc2_bad++;
	if (IN.ret_loc2)
		return IN.ret_loc2;
	*ret_super_blk = sb;
	*ret_old_desc_blk = od;
	if (ret_new_desc_blk) *ret_new_desc_blk = 0;
	*ret_used_blks = used;
	/* the run the format gives the group: the super block copy and, right behind it, the old-style descriptor copies */
	S.sb = sb;
	S.n = has ? (od ? 1ULL + IN.old_desc_count : 1) : 0;
	return 0;
}

void h_ss2_clear(void)
{
	static struct struct_ext2_filsys NFS, OFS;
	static struct ext2_super_block NSB, OSB;
	static struct ext2_resize_struct RFS;
	int i;
	LOAD_IN();
	rsz_ghost_init();
	ASSUME(IN.old_cnt >= 1 && IN.new_cnt >= 1);
	NFS.super = &NSB; OFS.super = &OSB;
	NFS.group_desc_count = IN.new_cnt; OFS.group_desc_count = IN.old_cnt;
	NSB.s_feature_compat = IN.n_compat; NSB.s_feature_ro_compat = IN.n_ro; NSB.s_feature_incompat = IN.n_incompat;
	OSB.s_feature_compat = IN.o_compat; OSB.s_feature_ro_compat = IN.o_ro; OSB.s_feature_incompat = IN.n_incompat;
	ASSUME(((IN.o_compat ^ IN.n_compat) & SPEC_COMPAT_SPARSE_SUPER2) == 0);	/* resize2fs does not toggle the feature */
	NSB.s_backup_bgs[0] = IN.n_bbg0; NSB.s_backup_bgs[1] = IN.n_bbg1;
	OSB.s_backup_bgs[0] = IN.o_bbg0; OSB.s_backup_bgs[1] = IN.o_bbg1;
	NFS.block_map = BMH(BM_NEW); OFS.block_map = BMH(BM_OLD);
	RFS.new_fs = &NFS; RFS.old_fs = &OFS; RFS.reserve_blocks = BMH(BM_RESERVE); RFS.move_blocks = BMH(BM_MOVE);
	rsz_new_fs = &NFS; rsz_old_fs = &OFS;
	g_old_last_bg = IN.old_cnt - 1;
	OG.compat = IN.o_compat; OG.ro_compat = IN.o_ro; OG.bbg0 = IN.o_bbg0; OG.bbg1 = IN.o_bbg1;
	ASSUME(IN.b < (1ULL << 48) && IN.sb_loc < (1ULL << 48) && IN.sb_loc >= 1 && IN.old_desc_count < (1u << 31) - 1);
	GI.b = IN.b; GI.g = 0;
	for (i = 0; i < BM_NR; i++) { G.bit[i] = IN.bit[i] & 1; S.bit0[i] = G.bit[i]; }
	S.sb = 0; S.n = 0;

	int ss2 = (IN.n_compat & SPEC_COMPAT_SPARSE_SUPER2) != 0;
	unsigned int last_bg = IN.new_cnt - 1, old_last_bg = IN.old_cnt - 1;
	/* the format's view (spec_pow.h): the old last group carried a backup before and does not any more */
	int had = spec_bg_has_super(old_last_bg, IN.o_compat, IN.o_ro, IN.o_bbg0, IN.o_bbg1);
	int has = spec_bg_has_super(old_last_bg, IN.n_compat, IN.n_ro, IN.n_bbg0, IN.n_bbg1);
	int lost = ss2 && last_bg > old_last_bg && had && !has;	/* group 0 never loses its (primary) superblock: has == 1 */

	errcode_t r = clear_sparse_super2_last_group(&RFS);

	if (!lost) {
		CHECK(r == 0 && G.n_events == 0 && G.n_loc2 == 0, "feature off, not growing, or the old last group keeps / never had a backup: nothing is touched");
		if (!ss2) REACH("feature_off");
		if (ss2 && last_bg <= old_last_bg) REACH("not_growing");
		if (ss2 && last_bg > old_last_bg && has && old_last_bg != 0) REACH("still_backup");
		if (ss2 && last_bg > old_last_bg && !had) REACH("never_backup");
	} else if (r != 0) {
		CHECK(G.n_loc2 == 1 && IN.ret_loc2 == r && G.n_events == 0, "failure only from ext2fs_super_and_bgd_loc2, nothing touched");
		REACH("failed");
	} else {
		CHECK(G.n_loc2 == 1 && G.loc2_bad == 0, "the run is the one the format gave the OLD last group in the OLD geometry");
		if (INRANGE(IN.b)) {
			CHECK(G.bit[BM_NEW] == 0, "every block of the old backup run is free in the new filesystem");
			REACH("in_run");
		} else {
			CHECK(G.bit[BM_NEW] == S.bit0[BM_NEW], "no block outside the old backup run changes (a block in use stays in use)");
			REACH("outside_run");
			if (IN.b == S.sb + S.n && S.bit0[BM_NEW]) REACH("block_behind_run_in_use");
		}
		CHECK(G.bit[BM_OLD] == S.bit0[BM_OLD] && G.bit[BM_RESERVE] == S.bit0[BM_RESERVE] && G.bit[BM_MOVE] == S.bit0[BM_MOVE], "only the new block map is written");
		if (S.n > 1) REACH("with_descriptors");
	}
	REACH("end");
}
