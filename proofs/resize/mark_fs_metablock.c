/* VERIF-UNIT
{
 "name": "rsz_mark_fs_metablock",
 "props": ["C08", "C20"],
 "level": "U/iter",
 "tier": "quick",
 "tier_after_hooks": "quick",
 "harness": "h_mark_fs_metablock",
 "includes": ["resize"],
 "loop_contracts": true,
 "unwind": 12,
 "unwind_reason": "the only loop of mark_fs_metablock (flex_bg: search all old groups for a table on the block) is cut by the in-place loop contract VERIF_INV_MFM_FLEX_GROUPS; the bound serves the harness' initialisation loops and the DFCC library loops over assigns clauses",
 "cbmc_flags": ["--object-bits", "12"],
 "backend": "cadical",
 "functions": ["resize/resize2fs.c:mark_fs_metablock"],
 "assumes": ["big translation unit: no contract is enforced; the real static function is called directly, statement by harness CHECKs over the ghost monitor of rsz_common.h (bitmaps observed at ONE arbitrary ghost block, descriptors at ONE arbitrary ghost group)",
             "the tables of the filesystem do not overlap: the block handed in lies on at most one bitmap / inode table, namely (scenario input) one of the ghost group's or none; the stubs answer for all other groups with locations that do not cover the block",
             "without flex_bg the tables of a group lie inside the group, so a superblock / descriptor block of group `group` can only collide with that group's own tables (the function does not look at other groups then): the ghost group is `group` itself or, with flex_bg, any group of the old filesystem",
             "block numbers < 2^48, inode table shorter than 2^32 blocks"],
 "native": false
}
*/
/*
 * C08 / C20 — a block that becomes a superblock or descriptor copy in the new geometry (mark_fs_metablock, called by
 * blocks_to_move for every such block after the backup run of a new last group has been reserved).  For the block blk:
 *   - it is reserved (no relocation target, no new table) and in use in the new filesystem;
 *   - if a bitmap or inode table lies on it, that table's location is zeroed (blocks_to_move re-allocates it) and the block
 *     is NOT queued for moving;
 *   - else, if its group's block bitmap is uninitialised, nothing lives there;
 *   - else it is queued for moving exactly when a file uses it (inside the old filesystem, in use in the old map, not old
 *     metadata), and needed_blocks counts it;
 * every other block and every other descriptor is untouched.  This is the contract the units rsz_btm_* replace the function by.
 */
#include "verif.h"
#include "rsz_in.h"
struct in_s {
	RSZ_IN_FIELDS;
	unsigned long long blk, b, old_size, needed, loc_new[3], loc_old[3];
	unsigned int group, g, old_cnt, ipb, which;
	unsigned int n_compat, n_ro, n_incompat;
	unsigned char bit[8], grp_uninit;
};
struct in_s IN;
#include "verif_in.h"

static struct {
	unsigned long long blk, ipb, L0[3];
	unsigned int which;	/* 0: no table on blk; 1/2/3: block bitmap / inode bitmap / inode table of the ghost group */
	int eligible;
} S;
#define COVERS(loc, len, x)	((x) >= (loc) && (x) - (loc) < (len))
/* locations the stubs hand out for groups other than the ghost group do not cover blk (tables do not overlap) */
#define RSZ_OTHER_LOC_OK(v, kind)	((kind) == T_IT ? !COVERS(v, S.ipb, S.blk) : (v) != S.blk)

#define VERIF_INV_MFM_FLEX_GROUPS \
	__CPROVER_assigns(i, G) \
	__CPROVER_loop_invariant(i <= rfs->old_fs->group_desc_count) \
	__CPROVER_loop_invariant(G.bit[BM_NEW] == __CPROVER_loop_entry(G.bit[BM_NEW]) && G.bit[BM_OLD] == __CPROVER_loop_entry(G.bit[BM_OLD]) && G.bit[BM_RESERVE] == __CPROVER_loop_entry(G.bit[BM_RESERVE])) \
	__CPROVER_loop_invariant(G.bit[BM_MOVE] == __CPROVER_loop_entry(G.bit[BM_MOVE]) && G.bit[BM_META] == __CPROVER_loop_entry(G.bit[BM_META]) && G.n_stats == __CPROVER_loop_entry(G.n_stats) && G.stats_delta == __CPROVER_loop_entry(G.stats_delta)) \
	__CPROVER_loop_invariant((G.lq_ok[0][T_BB] != 1 || RSZ_OTHER_LOC_OK(G.lq_val[0][T_BB], T_BB)) && (G.lq_ok[0][T_IB] != 1 || RSZ_OTHER_LOC_OK(G.lq_val[0][T_IB], T_IB)) && (G.lq_ok[0][T_IT] != 1 || RSZ_OTHER_LOC_OK(G.lq_val[0][T_IT], T_IT))) \
	__CPROVER_loop_invariant(G.loc[0][T_BB] == S.L0[T_BB] && G.loc[0][T_IB] == S.L0[T_IB] && G.loc[0][T_IT] == S.L0[T_IT]) \
	__CPROVER_loop_invariant(G.loc[1][T_BB] == __CPROVER_loop_entry(G.loc[1][T_BB]) && G.loc[1][T_IB] == __CPROVER_loop_entry(G.loc[1][T_IB]) && G.loc[1][T_IT] == __CPROVER_loop_entry(G.loc[1][T_IT])) \
	__CPROVER_loop_invariant(!(GI.g < i) || S.which == 0) \
	__CPROVER_decreases(rfs->old_fs->group_desc_count - i)

#include "rsz_common.h"
#include "resize/resize2fs.c"

unsigned long long verif_k;
static struct ext2_super_block NSB, OSB;
static unsigned int g_group;
static unsigned char g_grp_uninit;
blk64_t ext2fs_blocks_count(struct ext2_super_block *super) { return IN.old_size; }
int ext2fs_bg_flags_test(ext2_filsys fs, dgrp_t group, __u16 bg_flag)
{
	if (fs == rsz_new_fs && group == g_group && bg_flag == EXT2_BG_BLOCK_UNINIT)
		return g_grp_uninit ? EXT2_BG_BLOCK_UNINIT : 0;
	return rsz_ch() & 1;
}

void h_mark_fs_metablock(void)
{
	static struct struct_ext2_filsys NFS, OFS;
	static struct ext2_resize_struct RFS;
	unsigned char bit0[BM_NR];
	int i;
	LOAD_IN();
	rsz_ghost_init();
	ASSUME(IN.old_cnt >= 1 && IN.ipb >= 1 && IN.group < 0x7fffffffu);
	ASSUME(IN.blk < (1ULL << 48) && IN.b < (1ULL << 48) && IN.old_size < (1ULL << 48) && IN.needed < (1ULL << 48));
	NFS.super = &NSB; OFS.super = &OSB;
	OFS.group_desc_count = IN.old_cnt;
	NFS.inode_blocks_per_group = IN.ipb; OFS.inode_blocks_per_group = IN.ipb;
	NSB.s_feature_compat = IN.n_compat; NSB.s_feature_ro_compat = IN.n_ro; NSB.s_feature_incompat = IN.n_incompat;
	NFS.block_map = BMH(BM_NEW); OFS.block_map = BMH(BM_OLD);
	RFS.new_fs = &NFS; RFS.old_fs = &OFS; RFS.reserve_blocks = BMH(BM_RESERVE); RFS.move_blocks = BMH(BM_MOVE);
	RFS.needed_blocks = IN.needed;
	rsz_new_fs = &NFS; rsz_old_fs = &OFS;
	GI.b = IN.b; GI.g = IN.g; g_group = IN.group; g_grp_uninit = IN.grp_uninit & 1;
	for (i = 0; i < BM_NR; i++) { G.bit[i] = IN.bit[i] & 1; bit0[i] = G.bit[i]; }
	for (i = 0; i < T_NR; i++) {
		ASSUME(IN.loc_new[i] < (1ULL << 48) && IN.loc_old[i] < (1ULL << 48));
		G.loc[0][i] = IN.loc_new[i]; G.loc[1][i] = IN.loc_old[i]; S.L0[i] = IN.loc_new[i];
	}
	S.blk = IN.blk; S.ipb = IN.ipb; S.which = IN.which;
	int flex = (IN.n_incompat & EXT4_FEATURE_INCOMPAT_FLEX_BG) != 0;
	S.eligible = IN.g == IN.group || (flex && IN.g < IN.old_cnt);
	/* scenario: which table of the ghost group (if any) lies on blk; tables do not overlap */
	int on_bb = IN.loc_new[T_BB] == IN.blk, on_ib = IN.loc_new[T_IB] == IN.blk, on_it = COVERS(IN.loc_new[T_IT], IN.ipb, IN.blk);
	ASSUME(on_bb + on_ib + on_it <= 1);
	ASSUME(IN.which == (on_bb ? 1u : on_ib ? 2u : on_it ? 3u : 0u));
	ASSUME(IN.which == 0 || S.eligible);
	int csum = ext2fs_has_group_desc_csum(&NFS) != 0;
	int file_block = IN.blk < IN.old_size && bit0[BM_OLD] && !bit0[BM_META];

	mark_fs_metablock(&RFS, BMH(BM_META), (int)IN.group, IN.blk);

	CHECK(G.loc[1][T_BB] == IN.loc_old[T_BB] && G.loc[1][T_IB] == IN.loc_old[T_IB] && G.loc[1][T_IT] == IN.loc_old[T_IT], "old descriptors untouched");
	CHECK(G.bit[BM_OLD] == bit0[BM_OLD] && G.bit[BM_META] == bit0[BM_META], "old map and metadata map are only read");
	if (IN.b != IN.blk) {
		CHECK(G.bit[BM_RESERVE] == bit0[BM_RESERVE] && G.bit[BM_MOVE] == bit0[BM_MOVE] && G.bit[BM_NEW] == bit0[BM_NEW] && G.n_stats == 0, "every other block is untouched");
		REACH("other_block");
	} else {
		CHECK(G.bit[BM_RESERVE] == 1, "the block is reserved");
		CHECK(G.bit[BM_NEW] == 1 && G.n_stats == 1 && G.stats_delta == 1, "the block is in use in the new filesystem (ext2fs_block_alloc_stats2 +1, once)");
		if (IN.which != 0) {
			CHECK(G.loc[0][IN.which - 1] == 0, "a table that lies on the block loses its location (to be re-allocated)");
			CHECK(G.bit[BM_MOVE] == bit0[BM_MOVE], "a table block is not queued for moving");
			CHECK(RFS.needed_blocks == IN.needed + 1, "needed_blocks counts the table block");
			for (i = 0; i < T_NR; i++)
				CHECK(i == (int)IN.which - 1 || G.loc[0][i] == S.L0[i], "the other tables of the group keep their location");
			if (IN.which == 3) REACH("on_itable");
			if (IN.which == 1 && IN.g != IN.group) REACH("on_bitmap_of_other_flex_group");
		} else {
			CHECK(G.loc[0][T_BB] == S.L0[T_BB] && G.loc[0][T_IB] == S.L0[T_IB] && G.loc[0][T_IT] == S.L0[T_IT], "no table on the block: descriptors untouched");
			if (csum && g_grp_uninit) {
				CHECK(G.bit[BM_MOVE] == bit0[BM_MOVE] && RFS.needed_blocks == IN.needed, "BLOCK_UNINIT group: nothing lives on the block");
				REACH("uninit_group");
			} else {
				CHECK(G.bit[BM_MOVE] == (bit0[BM_MOVE] || file_block), "the block is queued for moving exactly when a file uses it");
				CHECK(RFS.needed_blocks == IN.needed + (file_block ? 1 : 0), "needed_blocks counts it");
				if (file_block) REACH("file_block");
				if (!file_block) REACH("free_block");
			}
		}
	}
	REACH("end");
}
