/*
 * p2_pre.h + p2_common.h — shared set-up of the pass-2 local checker units (C01 convergence, C02 detection, C05 soundness).
 *
 * A unit does   #include "p2_pre.h"  /  contracts on forward declarations  /  #include "p2_common.h";
 * p2_common.h pulls in the REAL e2fsck/pass2.c (all checkers are `static` there), the stubs and the world builder.
 *
 * World seen by a checker:
 *   - the directory scan buffer of e2fsck_pass2 (2 x 1024 bytes), whose first half is one directory block of
 *     P2_BS = 1024 arbitrary bytes (filled from IN.blk), and an entry at byte offset 0 (check_dot) or at an arbitrary
 *     offset IN.off of it (all others; see "views" in p2_common.h for how the arbitrary offset is represented).
 *     What check_dir_block has established before it calls any checker (pass2.c, the `do { ... }` loop, first `if (!inline_data_size || dot_state > 1)` arm):  with rec_len = ext2fs_get_rec_len(dirent)
 *         offset + rec_len <= max_block_size (<= fs->blocksize)      [else PR_2_DIR_CORRUPTED -> salvage -> continue]
 *         rec_len >= ext2fs_dir_rec_len(1, extended) >= 12
 *         rec_len % 4 == 0
 *         ext2fs_dir_rec_len(name_len, extended) <= rec_len            i.e. (8 + name_len + 3) & ~3 <= rec_len
 *     (the one exemption — offset 0, rec_len == blocksize, inode 0, dir queued for rehash — satisfies the same four
 *     facts with max_block_size = blocksize).  Nothing else is known about the bytes.  p2_callsite_ok() states
 *     exactly this and is the ONLY constraint the harnesses put on the block.
 *     (The inline-data arm hands check_dot / check_dotdot a synthetic well-formed on-stack entry; see the
 *     *_inline harness.)
 *   - fix_problem (problem.c, other TU) is a STUB: it appends the code to the ghost log p2_log[] / p2_nlog and answers
 *     according to p2_mode: always yes, always no, or the next bit of IN.choice[].  It also counts the codes whose
 *     problem-table entry lacks PR_NO_OK (p2_nserious): those are the ones that un-mark the file system valid
 *     when declined, i.e. that count for the exit status.
 *   - ext2fs_get_rec_len / ext2fs_set_rec_len are the real ones (lib/ext2fs/dir_iterate.c via "sources"); the
 *     ext2fs_dirent_* accessors are the real inline functions of ext2fs.h; ext2_file_type is the real one
 *     (e2fsck/util.c via "sources") where used.
 *   - the pass-1 inode bitmaps are opaque handles; ext2fs_test_generic_bmap is a stub answering from IN per handle
 *     (a bitmap query has no side effect and the same query gives the same answer during one pass 2).
 *   - e2fsck_read_inode is a stub delivering IN.i_mode; e2fsck_dir_info_set_dotdot is a stub recording its arguments
 *     and returning IN.dirinfo_fail.
 */
#ifndef P2_PRE_H
#define P2_PRE_H

#include "verif.h"
#include "pass2_format.h"

#define P2_BS 1024u
/* e2fsck_pass2 allocates the directory scan buffer as 2 * blocksize (pass2.c, "directory scan buffer"); the block
 * under check is its first half.  (struct ext2_dir_entry declares name[255]; an entry near the end of the block is
 * accessed through that type, which stays inside the real allocation.) */
#define P2_ALLOC (2u * P2_BS)
#define P2_LOGMAX 8u
#define P2_NCHOICE 8u

struct in_p2 {
	unsigned char blk[P2_BS];	/* the directory block, arbitrary */
	unsigned int off;		/* byte offset of the entry under check */
	unsigned int ino;		/* the directory's inode number */
	unsigned int incompat;		/* s_feature_incompat */
	unsigned int k;			/* ghost byte index into the scan buffer ("for every byte") */
	unsigned char mode;		/* fix_problem answers: P2_NO / P2_YES / P2_CHOICE */
	unsigned char choice[P2_NCHOICE];
	/* check_filetype: what pass 1 knows about the inode the entry names */
	unsigned char in_dir_map, in_reg_map, in_bad_map, have_bad_map;
	unsigned short i_mode;
	/* check_dotdot */
	unsigned char dirinfo_fail;
	/* check_name detection: position of an illegal character (the witness of "name is illegal") */
	unsigned int j;
};
struct in_p2 IN;
#include "verif_in.h"

/* the types the contracts on the forward declarations need (all guarded headers) */
#define _GNU_SOURCE 1
#include "config.h"
#include <string.h>
#include "e2fsck.h"
struct problem_context;			/* problem.h has no include guard: pass2.c includes it itself */

#define P2_NO 0
#define P2_YES 1
#define P2_CHOICE 2

/* ---- ghost state ---- */
extern unsigned int p2_log[P2_LOGMAX];	/* problem codes raised, in order */
extern unsigned int p2_nlog;		/* how many (may exceed P2_LOGMAX; only the first P2_LOGMAX are kept) */
extern unsigned int p2_nserious;	/* how many of them count for the exit status (table entry without PR_NO_OK) */
extern unsigned int p2_nchoice;		/* next IN.choice[] slot */
extern int p2_mode;
extern unsigned int p2_dotdot_ino, p2_dotdot_val, p2_dotdot_calls;

#define P2_GHOST_FRAME __CPROVER_object_whole(p2_log), p2_nlog, p2_nserious, p2_nchoice, \
		p2_dotdot_ino, p2_dotdot_val, p2_dotdot_calls

#endif
