/*
 * p2_name_inv.h — the invariants of the check_name loop (anchor VERIF_LOOP(VERIF_INV_PASS2_CHECK_NAME) in
 * e2fsck/pass2.c), one per kind of unit; see the comment in check_name.c.  Included after p2_pre.h and before
 * p2_common.h (which includes the real pass2.c).
 */
#ifndef P2_NAME_INV_H
#define P2_NAME_INV_H

unsigned long long verif_k;		/* ghost byte index into the scan buffer view (= IN.k) */
unsigned long long verif_g0;		/* original value of that byte */
unsigned long long verif_g2;		/* detect: witness position of an illegal character (>= 255: no witness) */
unsigned long long verif_g3;		/* detect: number of (serious) problems already logged when the loop starts */

#define P2N_BUF ((const unsigned char *) dirent)
#define P2N_NL ((int) (dirent->name_len & 0xff))
#define P2N_IN_PASSED(k, i) ((k) >= 8 && (k) < 8 + (unsigned long long) (i))

#if defined(VERIF_UNIT_p2_check_name_repair)
#define VERIF_INV_PASS2_CHECK_NAME \
	__CPROVER_assigns(i, fixup, ret, __CPROVER_object_upto(dirent->name, 255), \
			  __CPROVER_object_whole(p2_log), p2_nlog, p2_nserious, p2_nchoice) \
	__CPROVER_loop_invariant(0 <= i && i <= P2N_NL) \
	__CPROVER_loop_invariant(fixup == -1 || fixup == 1) \
	__CPROVER_loop_invariant(fixup != -1 || (ret == 0 && p2_nlog == 0 && p2_nserious == 0 && \
		P2N_BUF[verif_k] == verif_g0 && (!P2N_IN_PASSED(verif_k, i) || !P2F_BAD_CHAR(verif_g0)))) \
	__CPROVER_loop_invariant(fixup != 1 || (ret == 1 && p2_nlog == 1 && p2_log[0] == PR_2_BAD_NAME && p2_nserious == 1 && \
		P2N_BUF[verif_k] == ((P2N_IN_PASSED(verif_k, i) && P2F_BAD_CHAR(verif_g0)) ? '.' : verif_g0))) \
	__CPROVER_decreases(P2N_NL - i)
#elif defined(VERIF_UNIT_p2_check_name_detect) || defined(VERIF_UNIT_p2_encoded_name_detect)
#define VERIF_INV_PASS2_CHECK_NAME \
	__CPROVER_assigns(i, fixup, ret, __CPROVER_object_whole(p2_log), p2_nlog, p2_nserious, p2_nchoice) \
	__CPROVER_loop_invariant(0 <= i && i <= P2N_NL) \
	__CPROVER_loop_invariant(fixup == -1 && ret == 0 && p2_nlog == verif_g3 && p2_nserious == verif_g3) \
	__CPROVER_loop_invariant(verif_g2 >= 255 || (unsigned long long) i <= verif_g2) \
	__CPROVER_decreases(P2N_NL - i)
#elif defined(VERIF_UNIT_p2_check_name_sound) || defined(VERIF_UNIT_p2_encoded_name_sound)
#define VERIF_INV_PASS2_CHECK_NAME \
	__CPROVER_assigns(i) \
	__CPROVER_loop_invariant(0 <= i && i <= P2N_NL) \
	__CPROVER_loop_invariant(fixup == -1 && ret == 0) \
	__CPROVER_decreases(P2N_NL - i)
#endif

#endif
