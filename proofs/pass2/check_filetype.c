/* VERIF-UNIT
{
 "name": "p2_check_filetype_converge",
 "props": ["C01"],
 "level": "U",
 "tier": "quick",
 "harness": "h_ft_converge",
 "includes": ["e2fsck", "lib/support"],
 "sources": ["lib/ext2fs/dir_iterate.c", "e2fsck/util.c"],
 "functions": ["e2fsck/pass2.c:check_filetype", "e2fsck/util.c:ext2_file_type"],
 "assumes": ["directory scan buffer of 2 x 1024 bytes, entry at an arbitrary offset of the 1024-byte block (tail view, p2_common.h), constrained only by the call-site facts of check_dir_block (offset+rec_len within the block, rec_len >= 12, rec_len % 4 == 0, name fits in rec_len, inode != 0)",
	     "pass-1 knowledge about the named inode (inode_dir_map / inode_reg_map / inode_bad_map membership, presence of inode_bad_map, i_mode delivered by e2fsck_read_inode) is ARBITRARY but the same in both runs; the bitmap query and e2fsck_read_inode are stubs answering from IN",
	     "fix_problem is a stub that logs the code and answers yes in the first run, IN.choice in the second"],
 "native": false
}
*/
/* VERIF-UNIT
{
 "name": "p2_check_filetype_detect",
 "props": ["C02"],
 "level": "U",
 "tier": "quick",
 "harness": "h_ft_detect",
 "enforce": ["check_filetype"],
 "includes": ["e2fsck", "lib/support"],
 "sources": ["lib/ext2fs/dir_iterate.c", "e2fsck/util.c"],
 "functions": ["e2fsck/pass2.c:check_filetype", "e2fsck/util.c:ext2_file_type"],
 "assumes": ["same buffer / call-site assumptions as p2_check_filetype_converge",
	     "pass-1 invariants: the named inode is in inode_dir_map iff its i_mode is a directory, in inode_reg_map iff it is a regular file (pass1.c marks exactly these), and it is not (any longer) in inode_bad_map (check_dir_block has run e2fsck_process_bad_inode before; an inode still in the map has an untrusted mode)",
	     "fix_problem stub answers no to everything (e2fsck -n)",
	     "PR_NO_OK pins of the problem table: of PR_2_CLEAR_FILETYPE, PR_2_BAD_FILETYPE, PR_2_SET_FILETYPE only the last carries PR_NO_OK"],
 "native": false
}
*/
/* VERIF-UNIT
{
 "name": "p2_check_filetype_sound",
 "props": ["C05"],
 "level": "U",
 "tier": "quick",
 "harness": "h_ft_sound",
 "enforce": ["check_filetype"],
 "includes": ["e2fsck", "lib/support"],
 "sources": ["lib/ext2fs/dir_iterate.c", "e2fsck/util.c"],
 "functions": ["e2fsck/pass2.c:check_filetype", "e2fsck/util.c:ext2_file_type"],
 "assumes": ["same buffer / call-site assumptions as p2_check_filetype_converge",
	     "same pass-1 invariants as p2_check_filetype_detect",
	     "healthy = file_type byte is exactly the type code of the inode's mode (filetype feature) or 0 (no feature); file_type 0 'Unknown' under the feature is format-valid but normalised by e2fsck: grey zone, p2_check_filetype_greyzone",
	     "fix_problem answers are arbitrary (IN.choice)"],
 "native": false
}
*/
/* VERIF-UNIT
{
 "name": "p2_check_filetype_greyzone",
 "props": ["C05", "C02"],
 "level": "U",
 "tier": "quick",
 "harness": "h_ft_grey",
 "enforce": ["check_filetype"],
 "includes": ["e2fsck", "lib/support"],
 "sources": ["lib/ext2fs/dir_iterate.c", "e2fsck/util.c"],
 "functions": ["e2fsck/pass2.c:check_filetype", "e2fsck/util.c:ext2_file_type"],
 "assumes": ["same buffer / call-site assumptions and pass-1 invariants as p2_check_filetype_detect",
	     "characterisation: a format-valid file_type byte can only trigger PR_2_SET_FILETYPE (file_type 0 'Unknown' while the inode has a type code), and then only bits 8..15 of name_len (the file_type byte) may change, to the inode's type"],
 "native": false
}
*/
/*
 * check_filetype (e2fsck/pass2.c): "Check the directory filetype (if present)".
 *
 * Contract on the real function: preconditions = call-site facts; frame = the scan buffer, pctx->num and the ghost state;
 * result 0/1.  The independent statement of what the byte should be is P2F_FT_* / p2f_type_of_mode (pass2_format.h).
 */
#include "p2_pre.h"

static int check_filetype(e2fsck_t ctx, struct ext2_dir_entry *dirent, ext2_ino_t dir_ino, struct problem_context *pctx)
	REQUIRES(dirent->rec_len >= 12 && (dirent->rec_len & 3) == 0)
	REQUIRES(P2F_NEED(dirent->name_len & 0xff) <= dirent->rec_len)
	REQUIRES(dirent->inode != 0)
	ENSURES(RET == 0 || RET == 1)
	ASSIGNS(__CPROVER_object_whole(dirent), __CPROVER_object_whole(pctx) /* pctx->num; problem.h cannot be included before pass2.c (no guard) */, P2_GHOST_FRAME);

#include "p2_common.h"

/* what pass 1 has recorded about the inode is consistent with its mode, and the inode is not flagged bad */
#define P2_PASS1_CONSISTENT() \
	((IN.in_dir_map & 1) == ((IN.i_mode & 0xF000) == 0x4000) && \
	 (IN.in_reg_map & 1) == ((IN.i_mode & 0xF000) == 0x8000) && \
	 (!IN.have_bad_map || !(IN.in_bad_map & 1)))

/* C01 */
void h_ft_converge(void)
{
	struct p2_world w;
	unsigned char b1;
	int r1, r2;

	LOAD_IN();
	p2_setup(&w, P2_YES, P2_VIEW_TAIL);
	ASSUME(p2_callsite_ok(IN.blk, w.off));
	ASSUME(P2F_INO(IN.blk, 0) != 0);

	r1 = check_filetype(w.ctx, w.dirent, IN.ino, &w.pctx);
	if (r1) REACH("first run repaired something");
	CHECK(r1 == (p2_nlog != 0), "answer yes: 'modified' is reported exactly when a problem was raised");
	CHECK(p2_callsite_ok(w.buf, w.off) && P2F_INO(w.buf, 0) != 0, "call-site facts survive the repair");

	b1 = w.buf[IN.k];
	p2_clear_log();
	p2_mode = P2_CHOICE;
	r2 = check_filetype(w.ctx, w.dirent, IN.ino, &w.pctx);
	CHECK(p2_nlog == 0, "second run raises no problem");
	CHECK(r2 == 0, "second run reports 'not modified'");
	CHECK(w.buf[IN.k] == b1, "second run leaves every byte of the scan buffer unchanged");
	REACH("end");
}

/* C02 */
void h_ft_detect(void)
{
	struct p2_world w;
	int r;

	LOAD_IN();
	p2_setup(&w, P2_NO, P2_VIEW_TAIL);
	ASSUME(p2_callsite_ok(IN.blk, w.off));
	ASSUME(P2F_INO(IN.blk, 0) != 0);
	ASSUME(P2_PASS1_CONSISTENT());
	ASSUME(!P2F_FT_FORMAT_OK(IN.blk, 0, IN.incompat, IN.i_mode));

	r = check_filetype(w.ctx, w.dirent, IN.ino, &w.pctx);
	CHECK(p2_nserious >= 1, "an invalid file_type byte raises at least one problem without PR_NO_OK");
	CHECK(r == 0, "everything declined: reported as not modified");
	CHECK(w.buf[IN.k] == w.b0, "everything declined: scan buffer unchanged");
	REACH("end");
}

/* C05 */
void h_ft_sound(void)
{
	struct p2_world w;
	int r;

	LOAD_IN();
	p2_setup(&w, P2_CHOICE, P2_VIEW_TAIL);
	ASSUME(p2_callsite_ok(IN.blk, w.off));
	ASSUME(P2F_INO(IN.blk, 0) != 0);
	ASSUME(P2_PASS1_CONSISTENT());
	ASSUME(P2F_FT_HEALTHY(IN.blk, 0, IN.incompat, IN.i_mode));

	r = check_filetype(w.ctx, w.dirent, IN.ino, &w.pctx);
	CHECK(p2_nlog == 0, "healthy file_type: no problem raised");
	CHECK(r == 0, "healthy file_type: reported as not modified");
	CHECK(w.buf[IN.k] == w.b0, "healthy file_type: no byte of the scan buffer changes");
	CHECK(w.pctx.ino == IN.ino && w.pctx.dirent == w.dirent && w.pctx.num == w.off, "problem context untouched");
	REACH("end");
}

/* grey zone: 'Unknown' under the filetype feature */
void h_ft_grey(void)
{
	struct p2_world w;
	int r;

	LOAD_IN();
	p2_setup(&w, P2_CHOICE, P2_VIEW_TAIL);
	ASSUME(p2_callsite_ok(IN.blk, w.off));
	ASSUME(P2F_INO(IN.blk, 0) != 0);
	ASSUME(P2_PASS1_CONSISTENT());
	ASSUME(P2F_FT_FORMAT_OK(IN.blk, 0, IN.incompat, IN.i_mode));

	r = check_filetype(w.ctx, w.dirent, IN.ino, &w.pctx);
	CHECK(p2_nlog <= 1, "at most one question");
	CHECK(p2_nlog == 0 || (p2_log[0] == PR_2_SET_FILETYPE && P2F_FT(IN.blk, 0) == 0 &&
			       p2f_type_of_mode(IN.i_mode) != 0 && (IN.incompat & P2F_INCOMPAT_FILETYPE)),
	      "format-valid file_type: only 'set the unknown type' can be raised");
	if (p2_nlog) REACH("grey zone is not empty");
	CHECK(IN.k == 7 || w.buf[IN.k] == w.b0, "only the file_type byte may change");
	CHECK(r == 0 ? w.buf[7] == IN.blk[7] : w.buf[7] == p2f_type_of_mode(IN.i_mode),
	      "file_type byte: unchanged, or set to the type code of the inode's mode");
	REACH("end");
}
