/* VERIF-UNIT
{
 "name": "p2_check_dot_converge",
 "props": ["C01"],
 "level": "U",
 "tier": "quick",
 "harness": "h_dot_converge",
 "includes": ["e2fsck", "lib/support"],
 "sources": ["lib/ext2fs/dir_iterate.c"],
 "unwind": 10,
 "unwind_reason": "check_dot is loop-free; the bound only serves strncmp(.., 3) and the ghost-log scan of the harness (8 slots)",
 "functions": ["e2fsck/pass2.c:check_dot"],
 "assumes": ["directory block of 1024 arbitrary bytes, fs->blocksize 1024 (rec_len is stored undecoded for every block size < 64 KiB)",
	     "the entry satisfies exactly what check_dir_block has verified before the call (offset+rec_len within the block, rec_len >= 12, rec_len % 4 == 0, name fits in rec_len); the entry is at offset 0 of the block, as at the only call site (dot_state 0)",
	     "fix_problem is a stub that logs the code and answers yes (the accepted-repair run), then whatever IN.choice says in the second run",
	     "the directory inode number is not 0"],
 "backend": "cadical",
 "native": false
}
*/
/* VERIF-UNIT
{
 "name": "p2_check_dot_detect",
 "props": ["C02"],
 "level": "U",
 "tier": "quick",
 "harness": "h_dot_detect",
 "enforce": ["check_dot"],
 "includes": ["e2fsck", "lib/support"],
 "sources": ["lib/ext2fs/dir_iterate.c"],
 "unwind": 10,
 "unwind_reason": "check_dot is loop-free; the bound only serves strncmp(.., 3) and the ghost-log scan of the harness (8 slots)",
 "functions": ["e2fsck/pass2.c:check_dot"],
 "assumes": ["same block / call-site assumptions as p2_check_dot_converge",
	     "fix_problem stub answers no to everything (e2fsck -n)",
	     "PR_NO_OK pins of the problem table for the codes check_dot can raise: only PR_2_SPLIT_DOT carries PR_NO_OK",
	     "the directory inode number is not 0"],
 "backend": "cadical",
 "native": false
}
*/
/* VERIF-UNIT
{
 "name": "p2_check_dot_sound",
 "props": ["C05"],
 "level": "U",
 "tier": "quick",
 "harness": "h_dot_sound",
 "enforce": ["check_dot"],
 "includes": ["e2fsck", "lib/support"],
 "sources": ["lib/ext2fs/dir_iterate.c"],
 "unwind": 10,
 "unwind_reason": "check_dot is loop-free; the bound only serves strncmp(.., 3) and the ghost-log scan of the harness (8 slots)",
 "functions": ["e2fsck/pass2.c:check_dot"],
 "assumes": ["same block / call-site assumptions as p2_check_dot_converge",
	     "healthy '.' = format-valid AND rec_len == 12 AND the byte after the name is NUL (what the kernel / mke2fs / libext2fs write); format-valid entries outside that set are the grey zone characterised by p2_check_dot_greyzone",
	     "fix_problem answers are arbitrary (IN.choice)"],
 "backend": "cadical",
 "native": false
}
*/
/* VERIF-UNIT
{
 "name": "p2_check_dot_greyzone",
 "props": ["C05"],
 "level": "U",
 "tier": "quick",
 "harness": "h_dot_grey",
 "enforce": ["check_dot"],
 "includes": ["e2fsck", "lib/support"],
 "sources": ["lib/ext2fs/dir_iterate.c"],
 "unwind": 10,
 "unwind_reason": "check_dot is loop-free; the bound only serves strncmp(.., 3) and the ghost-log scan of the harness (8 slots)",
 "functions": ["e2fsck/pass2.c:check_dot"],
 "assumes": ["same block / call-site assumptions as p2_check_dot_converge",
	     "characterisation, not a format statement: names the two e2fsck conventions (NUL after '.', slack > 12 bytes split off) that go beyond the on-disk format"],
 "backend": "cadical",
 "native": false
}
*/
/* VERIF-UNIT
{
 "name": "p2_check_dot_inline",
 "props": ["C05"],
 "level": "U",
 "tier": "quick",
 "harness": "h_dot_inline",
 "enforce": ["check_dot"],
 "includes": ["e2fsck", "lib/support"],
 "sources": ["lib/ext2fs/dir_iterate.c"],
 "unwind": 10,
 "unwind_reason": "check_dot is loop-free; the bound only serves strncmp(.., 3) and the ghost-log scan of the harness (8 slots)",
 "functions": ["e2fsck/pass2.c:check_dot"],
 "assumes": ["the inline-data arm of check_dir_block: the entry is the synthetic on-stack '.' built there (inode = dir inode, rec_len 12, name_len 1 | filetype<<8, name \".\", rest zero); rebuilt here field by field from that code",
	     "the directory inode number is not 0"],
 "backend": "cadical",
 "native": false
}
*/
/*
 * check_dot (e2fsck/pass2.c): "Make sure the first entry in the directory is '.', and that the directory entry is sane."
 *
 * Contract on the real function: preconditions = call-site facts (see p2_common.h); frame = the directory block and
 * the ghost log only (in particular: not *ctx, not *pctx, not the superblock); result is a 0/1 "modified" flag.
 * The three property statements need two runs / the independent predicate and are stated in the harnesses.
 */
#include "p2_pre.h"

static int check_dot(e2fsck_t ctx, struct ext2_dir_entry *dirent, ext2_ino_t ino, struct problem_context *pctx)
	REQUIRES(ctx->fs->blocksize == P2_BS)
	REQUIRES(dirent->rec_len >= 12 && (dirent->rec_len & 3) == 0)
	REQUIRES(P2F_NEED(dirent->name_len & 0xff) <= dirent->rec_len)
	REQUIRES(__CPROVER_r_ok(dirent, dirent->rec_len))
	ENSURES(RET == 0 || RET == 1)
	ASSIGNS(__CPROVER_object_whole(dirent), P2_GHOST_FRAME);

#include "p2_common.h"

/* check_dot is only called in dot_state 0, i.e. before `offset` has been advanced: the entry is the first of the
 * block (salvage_directory moves `offset` only when it has a previous entry, and there is none yet): P2_VIEW_BLOCK0 */

/* C01: accept every repair; a second run finds nothing to do */
void h_dot_converge(void)
{
	struct p2_world w;
	unsigned char b1;
	int r1, r2;

	LOAD_IN();
	p2_setup(&w, P2_YES, P2_VIEW_BLOCK0);
	ASSUME(IN.ino != 0);
	ASSUME(p2_callsite_ok(IN.blk, 0));

	r1 = check_dot(w.ctx, w.dirent, IN.ino, &w.pctx);
	if (r1) REACH("first run repaired something");
	CHECK(r1 == (p2_nlog != 0), "answer yes: 'modified' is reported exactly when a problem was raised");
	/* the repaired entry still satisfies the call-site facts of the next e2fsck run */
	CHECK(p2_callsite_ok(w.buf, 0), "repaired '.' entry is still a well-delimited entry");
	CHECK(P2F_DOT_FORMAT_OK(w.buf, 0, IN.ino), "after accepted repairs the entry is a format-valid '.'");

	b1 = w.buf[IN.k];
	p2_clear_log();
	p2_mode = P2_CHOICE;		/* whatever the second run would answer: it is never asked */
	r2 = check_dot(w.ctx, w.dirent, IN.ino, &w.pctx);
	CHECK(p2_nlog == 0, "second run raises no problem");
	CHECK(r2 == 0, "second run reports 'not modified'");
	CHECK(w.buf[IN.k] == b1, "second run leaves every byte of the block unchanged");
	REACH("end");
}

/* C02: decline everything; an entry that is not a format-valid '.' must be reported by a code that counts */
void h_dot_detect(void)
{
	struct p2_world w;
	int r;

	LOAD_IN();
	p2_setup(&w, P2_NO, P2_VIEW_BLOCK0);
	ASSUME(IN.ino != 0);
	ASSUME(p2_callsite_ok(IN.blk, 0));
	ASSUME(!P2F_DOT_FORMAT_OK(IN.blk, 0, IN.ino));

	r = check_dot(w.ctx, w.dirent, IN.ino, &w.pctx);
	CHECK(p2_nserious >= 1, "a malformed '.' raises at least one problem without PR_NO_OK");
	CHECK(r == 0, "everything declined: reported as not modified");
	CHECK(w.buf[IN.k] == w.b0, "everything declined: block unchanged");
	REACH("end");
}

/* C05: a healthy '.' is neither reported nor touched, whatever fix_problem would answer */
void h_dot_sound(void)
{
	struct p2_world w;
	int r;

	LOAD_IN();
	p2_setup(&w, P2_CHOICE, P2_VIEW_BLOCK0);
	ASSUME(IN.ino != 0);
	ASSUME(p2_callsite_ok(IN.blk, 0));
	ASSUME(P2F_DOT_HEALTHY(IN.blk, 0, IN.ino));

	r = check_dot(w.ctx, w.dirent, IN.ino, &w.pctx);
	CHECK(p2_nlog == 0, "healthy '.': no problem raised");
	CHECK(r == 0, "healthy '.': reported as not modified");
	CHECK(w.buf[IN.k] == w.b0, "healthy '.': no byte of the block changes");
	REACH("end");
}

/* grey zone: format-valid '.' entries can only be bothered by the two documented conventions, and only
 * modified if the user agrees */
void h_dot_grey(void)
{
	struct p2_world w;
	int r;
	unsigned i;

	LOAD_IN();
	p2_setup(&w, P2_CHOICE, P2_VIEW_BLOCK0);
	ASSUME(IN.ino != 0);
	ASSUME(p2_callsite_ok(IN.blk, 0));
	ASSUME(P2F_DOT_FORMAT_OK(IN.blk, 0, IN.ino));

	r = check_dot(w.ctx, w.dirent, IN.ino, &w.pctx);
	CHECK(p2_nlog <= 2, "at most two questions");
	for (i = 0; i < 2; i++)
		if (i < p2_nlog)
			CHECK(p2_log[i] == PR_2_DOT_NULL_TERM || p2_log[i] == PR_2_SPLIT_DOT,
			      "format-valid '.': only the NUL-termination and the split-slack conventions can be raised");
	CHECK(!p2_logged(PR_2_DOT_NULL_TERM) || P2F_NAME(IN.blk, 0, 1) != 0, "NUL convention raised only when the byte is not NUL");
	CHECK(!p2_logged(PR_2_SPLIT_DOT) || P2F_REC(IN.blk, 0) > 24u || p2_logged(PR_2_DOT_NULL_TERM),
	      "split raised only when more than 12 spare bytes follow");
	if (p2_nlog) REACH("grey zone is not empty");
	CHECK(r != 0 || w.buf[IN.k] == w.b0, "'not modified' means no byte changed");
	CHECK(P2F_DOT_FORMAT_OK(w.buf, 0, IN.ino), "the entry stays a format-valid '.'");
	REACH("end");
}

/* inline-data directories: check_dir_block fabricates the '.' entry on its stack */
void h_dot_inline(void)
{
	struct p2_world w;
	struct ext2_dir_entry dot;
	int r, filetype = 0;

	LOAD_IN();
	p2_setup(&w, P2_CHOICE, P2_VIEW_BLOCK0);
	ASSUME(IN.ino != 0);
	if (IN.incompat & P2F_INCOMPAT_FILETYPE)
		filetype = EXT2_FT_DIR << 8;
	memset(&dot, 0, sizeof(dot));
	dot.inode = IN.ino;
	dot.rec_len = EXT2_DIR_REC_LEN(1);
	dot.name_len = 1 | filetype;
	dot.name[0] = '.';
	w.pctx.dirent = &dot;
	r = check_dot(w.ctx, &dot, IN.ino, &w.pctx);
	CHECK(p2_nlog == 0 && r == 0, "synthetic '.' of an inline directory: nothing raised, nothing modified");
	CHECK(dot.inode == IN.ino && dot.rec_len == 12 && dot.name_len == (1 | filetype) && dot.name[0] == '.' && dot.name[1] == 0,
	      "synthetic '.' unchanged");
	REACH("end");
}
