/*
 * p2_common.h — second half of the shared set-up (see p2_pre.h for the description): includes the REAL
 * e2fsck/pass2.c, defines the stubs and the world builder.  A unit does
 *     #include "p2_pre.h"
 *     <contracts on forward declarations>
 *     #include "p2_common.h"
 */
#ifndef P2_COMMON_H
#define P2_COMMON_H
/* named loop anchors of pass2.c that a unit may define before including this header */
#ifndef VERIF_INV_PASS2_CHECK_NAME
#define VERIF_INV_PASS2_CHECK_NAME
#endif

#include "e2fsck/pass2.c"

/* ---- ghost state ---- */
unsigned int p2_log[P2_LOGMAX];		/* problem codes raised, in order */
unsigned int p2_nlog;			/* how many (may exceed P2_LOGMAX; only the first P2_LOGMAX are kept) */
unsigned int p2_nserious;		/* how many of them count for the exit status (table entry without PR_NO_OK) */
unsigned int p2_nchoice;		/* next IN.choice[] slot */
int p2_mode;
unsigned int p2_dotdot_ino, p2_dotdot_val, p2_dotdot_calls;

/* Pin of e2fsck/problem.c's table for the codes these checkers can raise: the entries carrying PR_NO_OK
 * ("declining is fine, fs stays valid").  All other codes un-mark the fs valid when declined (fix_problem). */
static int p2_code_no_ok(problem_t code)
{
	return code == PR_2_SPLIT_DOT || code == PR_2_SET_FILETYPE;
}

int fix_problem(e2fsck_t ctx, problem_t code, struct problem_context *pctx)
{
	(void) ctx; (void) pctx;
	if (p2_nlog < P2_LOGMAX)
		p2_log[p2_nlog] = code;
	p2_nlog++;
	if (!p2_code_no_ok(code))
		p2_nserious++;
	if (p2_mode == P2_YES)
		return 1;
	if (p2_mode == P2_NO)
		return 0;
	if (p2_nchoice < P2_NCHOICE)
		return IN.choice[p2_nchoice++] & 1;
	return 0;
}

/* was `code` raised? (log is short; the loop is unwound) */
static int p2_logged(problem_t code)
{
	unsigned i;

	for (i = 0; i < P2_LOGMAX; i++)
		if (i < p2_nlog && p2_log[i] == code)
			return 1;
	return 0;
}

/* opaque bitmap handles */
static char p2_tag_dir, p2_tag_reg, p2_tag_bad;

int ext2fs_test_generic_bmap(ext2fs_generic_bitmap bitmap, __u64 arg)
{
	(void) arg;
	if ((void *) bitmap == (void *) &p2_tag_dir)
		return IN.in_dir_map & 1;
	if ((void *) bitmap == (void *) &p2_tag_reg)
		return IN.in_reg_map & 1;
	if ((void *) bitmap == (void *) &p2_tag_bad)
		return IN.in_bad_map & 1;
	return 0;
}

void e2fsck_read_inode(e2fsck_t ctx, unsigned long ino, struct ext2_inode *inode, const char *proc)
{
	(void) ctx; (void) ino; (void) proc;
	inode->i_mode = IN.i_mode;
}

int e2fsck_dir_info_set_dotdot(e2fsck_t ctx, ext2_ino_t ino, ext2_ino_t dotdot)
{
	(void) ctx;
	p2_dotdot_ino = ino;
	p2_dotdot_val = dotdot;
	p2_dotdot_calls++;
	return IN.dirinfo_fail ? 1 : 0;
}

/* ---- the world ---- */
struct p2_world {
	e2fsck_t ctx;
	ext2_filsys fs;
	struct ext2_super_block *sb;
	unsigned char *buf;
	unsigned off;
	struct ext2_dir_entry *dirent;
	struct problem_context pctx;
	unsigned char b0;		/* initial value of byte IN.k of the scan buffer */
};

/* what check_dir_block has established about the entry at `o` of block `b` (see the top of this file) */
static int p2_callsite_ok(const unsigned char *b, unsigned o)
{
	unsigned rec;

	if (o > P2_BS - 12u)
		return 0;
	rec = P2F_REC(b, o);		/* block size < 64 KiB: the decoded rec_len is the stored value */
	return o + rec <= P2_BS && rec >= 12u && (rec & 3u) == 0 && P2F_NEED(P2F_NL(b, o)) <= rec;
}

static void p2_setup(struct p2_world *w, int mode, unsigned off)
{
	w->ctx = malloc(sizeof(*w->ctx));
	w->fs = malloc(sizeof(*w->fs));
	w->sb = malloc(sizeof(*w->sb));
	w->buf = malloc(P2_ALLOC);	/* second half: arbitrary contents */
	ASSUME(w->ctx && w->fs && w->sb && w->buf);
	memcpy(w->buf, IN.blk, P2_BS);
	w->fs->super = w->sb;
	w->fs->blocksize = P2_BS;
	w->fs->encoding = 0;
	w->sb->s_feature_incompat = IN.incompat;
	w->ctx->fs = w->fs;
	w->ctx->inode_dir_map = (ext2fs_inode_bitmap) &p2_tag_dir;
	w->ctx->inode_reg_map = (ext2fs_inode_bitmap) &p2_tag_reg;
	w->ctx->inode_bad_map = IN.have_bad_map ? (ext2fs_inode_bitmap) &p2_tag_bad : 0;
	w->off = off;
	w->dirent = (struct ext2_dir_entry *) (w->buf + off);
	memset(&w->pctx, 0, sizeof(w->pctx));
	w->pctx.ino = IN.ino;
	w->pctx.dirent = w->dirent;
	w->pctx.num = off;
	p2_mode = mode;
	p2_nlog = p2_nserious = p2_nchoice = 0;
	p2_dotdot_calls = 0;
	ASSUME(IN.k < P2_ALLOC);
	w->b0 = w->buf[IN.k];
}

/* forget what was logged so far (between the two runs of a convergence harness) */
static void p2_clear_log(void)
{
	p2_nlog = p2_nserious = 0;
}

#endif
