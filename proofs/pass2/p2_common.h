/*
 * p2_common.h — second half of the shared set-up (see p2_pre.h for the description): includes the REAL
 * e2fsck/pass2.c, defines the stubs and the world builder.  A unit does
 *     #include "p2_pre.h"
 *     <contracts on forward declarations>
 *     #include "p2_common.h"
 */
#ifndef P2_COMMON_H
#define P2_COMMON_H
/* named loop anchors of pass2.c that a unit may define before including this header */
#ifndef VERIF_INV_PASS2_CHECK_NAME
#define VERIF_INV_PASS2_CHECK_NAME
#endif

#include "e2fsck/pass2.c"

/* ---- ghost state ---- */
unsigned int p2_log[P2_LOGMAX];		/* problem codes raised, in order */
unsigned int p2_nlog;			/* how many (may exceed P2_LOGMAX; only the first P2_LOGMAX are kept) */
unsigned int p2_nserious;		/* how many of them count for the exit status (table entry without PR_NO_OK) */
unsigned int p2_nchoice;		/* next IN.choice[] slot */
int p2_mode;
unsigned int p2_dotdot_ino, p2_dotdot_val, p2_dotdot_calls;

/* Pin of e2fsck/problem.c's table for the codes these checkers can raise: the entries carrying PR_NO_OK
 * ("declining is fine, fs stays valid").  All other codes un-mark the fs valid when declined (fix_problem). */
static int p2_code_no_ok(problem_t code)
{
	return code == PR_2_SPLIT_DOT || code == PR_2_SET_FILETYPE;
}

int fix_problem(e2fsck_t ctx, problem_t code, struct problem_context *pctx)
{
	(void) ctx; (void) pctx;
	if (p2_nlog < P2_LOGMAX)
		p2_log[p2_nlog] = code;
	p2_nlog++;
	if (!p2_code_no_ok(code))
		p2_nserious++;
	if (p2_mode == P2_YES)
		return 1;
	if (p2_mode == P2_NO)
		return 0;
	if (p2_nchoice < P2_NCHOICE)
		return IN.choice[p2_nchoice++] & 1;
	return 0;
}

/* was `code` raised? (log is short; the loop is unwound) */
static int p2_logged(problem_t code)
{
	unsigned i;

	for (i = 0; i < P2_LOGMAX; i++)
		if (i < p2_nlog && p2_log[i] == code)
			return 1;
	return 0;
}

/* opaque bitmap handles */
static char p2_tag_dir, p2_tag_reg, p2_tag_bad;

int ext2fs_test_generic_bmap(ext2fs_generic_bitmap bitmap, __u64 arg)
{
	(void) arg;
	if ((void *) bitmap == (void *) &p2_tag_dir)
		return IN.in_dir_map & 1;
	if ((void *) bitmap == (void *) &p2_tag_reg)
		return IN.in_reg_map & 1;
	if ((void *) bitmap == (void *) &p2_tag_bad)
		return IN.in_bad_map & 1;
	return 0;
}

void e2fsck_read_inode(e2fsck_t ctx, unsigned long ino, struct ext2_inode *inode, const char *proc)
{
	(void) ctx; (void) ino; (void) proc;
	inode->i_mode = IN.i_mode;
}

int e2fsck_dir_info_set_dotdot(e2fsck_t ctx, ext2_ino_t ino, ext2_ino_t dotdot)
{
	(void) ctx;
	p2_dotdot_ino = ino;
	p2_dotdot_val = dotdot;
	p2_dotdot_calls++;
	return IN.dirinfo_fail ? 1 : 0;
}

/* ---- the world ---- */
struct p2_world {
	e2fsck_t ctx;
	ext2_filsys fs;
	struct ext2_super_block *sb;
	unsigned char *buf;
	unsigned off;			/* offset of the entry (= buf[0]) inside the directory block */
	unsigned len;			/* bytes of the scan buffer visible in this view */
	struct ext2_dir_entry *dirent;
	struct problem_context pctx;
	unsigned char b0;		/* initial value of byte IN.k of the scan buffer */
};

/* what check_dir_block has established about the entry whose bytes start at b[0] and which sits at byte offset
 * `blk_off` of the directory block (see the top of p2_pre.h) */
static int p2_callsite_ok(const unsigned char *b, unsigned blk_off)
{
	unsigned rec;

	if (blk_off > P2_BS - 12u)
		return 0;
	rec = P2F_REC(b, 0);		/* block size < 64 KiB: the decoded rec_len is the stored value */
	return blk_off + rec <= P2_BS && rec >= 12u && (rec & 3u) == 0 && P2F_NEED(P2F_NL(b, 0)) <= rec;
}

/*
 * Two views of the 2 * 1024-byte directory scan buffer:
 *   P2_VIEW_BLOCK0  the whole buffer; the entry is the first one of the block (offset 0).  Used for check_dot.
 *   P2_VIEW_TAIL    the entry sits at an ARBITRARY offset IN.off of the block.  The buffer is presented to the checker
 *                   as its tail that starts at the entry: an object of P2_TAIL = 2048 - 1012 = 1036 bytes, the part of
 *                   the tail that exists for every offset 0 .. 1012.  Bytes in front of the entry (and, for small
 *                   offsets, bytes beyond the 1036th) are not part of the object, so any read or write of them would
 *                   be an out-of-bounds access and fails the pointer checks: a successful proof shows they are
 *                   neither read nor written, and the ghost-index statements cover all bytes that can be.  The
 *                   offset itself stays symbolic where it matters: in the call-site fact offset + rec_len <= 1024.
 *                   (With the entry addressed at a symbolic index of a 2 KiB array every unit needs 60-110 s of
 *                   SAT time; the tail view is exact for these functions and needs seconds.)
 * In both views the entry is at w->buf[0] and the first 1024 bytes come from IN.blk; the remainder is arbitrary.
 */
#define P2_VIEW_BLOCK0 0
#define P2_VIEW_TAIL 1
#define P2_TAIL (P2_ALLOC - (P2_BS - 12u))
#define P2_VIEW_WINDOW 2
#define P2_WINDOW 264u

static void p2_setup(struct p2_world *w, int mode, int view)
{
	w->ctx = malloc(sizeof(*w->ctx));
	w->fs = malloc(sizeof(*w->fs));
	w->sb = malloc(sizeof(*w->sb));
	w->len = view == P2_VIEW_BLOCK0 ? P2_ALLOC : view == P2_VIEW_TAIL ? P2_TAIL : P2_WINDOW;
	w->buf = malloc(w->len);	/* contents beyond IN.blk: arbitrary */
	ASSUME(w->ctx && w->fs && w->sb && w->buf);
	memcpy(w->buf, IN.blk, w->len < P2_BS ? w->len : P2_BS);
	w->fs->super = w->sb;
	w->fs->blocksize = P2_BS;
	w->fs->encoding = 0;
	w->sb->s_feature_incompat = IN.incompat;
	w->ctx->fs = w->fs;
	w->ctx->inode_dir_map = (ext2fs_inode_bitmap) &p2_tag_dir;
	w->ctx->inode_reg_map = (ext2fs_inode_bitmap) &p2_tag_reg;
	w->ctx->inode_bad_map = IN.have_bad_map ? (ext2fs_inode_bitmap) &p2_tag_bad : 0;
	if (view == P2_VIEW_BLOCK0)
		w->off = 0;
	else {
		ASSUME(IN.off <= P2_BS - 12u);
		w->off = IN.off;
	}
	w->dirent = (struct ext2_dir_entry *) w->buf;
	memset(&w->pctx, 0, sizeof(w->pctx));
	w->pctx.ino = IN.ino;
	w->pctx.dirent = w->dirent;
	w->pctx.num = w->off;
	p2_mode = mode;
	p2_nlog = p2_nserious = p2_nchoice = 0;
	p2_dotdot_calls = 0;
	ASSUME(IN.k < w->len);
	w->b0 = w->buf[IN.k];
}

/* forget what was logged so far (between the two runs of a convergence harness) */
static void p2_clear_log(void)
{
	p2_nlog = p2_nserious = 0;
}

#endif
