/* VERIF-UNIT
{
 "name": "p2_e2fsck_run_restart",
 "props": ["C01"],
 "level": "P",
 "tier": "quick",
 "harness": "h_run",
 "enforce": ["e2fsck_run"],
 "includes": ["e2fsck", "lib/support"],
 "unwind": 8,
 "unwind_reason": "the loop of e2fsck_run walks the static table e2fsck_passes[] = { pass1, pass1e, pass2, pass3, pass4, pass5, 0 }: six entries and the terminator; unwinding assertions make the bound complete",
 "functions": ["e2fsck/e2fsck.c:e2fsck_run"],
 "assumes": ["the six pass functions (other translation units) are ghost-monitor stubs: each checks the protocol state, records that it ran and then overwrites ctx->flags with an ARBITRARY value from IN (a real pass can set or clear any flag), except E2F_FLAG_SETJMP_OK which only e2fsck_run and the signal/abort machinery touch",
	     "the static table e2fsck_passes[] holds its initializer { pass1, pass1e, pass2, pass3, pass4, pass5, 0 } (it is never assigned; restated as an assumption because DFCC havocs mutable statics at harness entry, so a change of the initializer itself is NOT detected by this unit)",
	     "the progress callback is absent or a stub that may also overwrite ctx->flags arbitrarily",
	     "setjmp returns 0 (the direct path); the longjmp path taken by fatal_error is not modelled; e2fsck_mmp_update succeeds (its failure ends in fatal_error, which does not return)",
	     "this is the in-run half of the restart protocol; the caller's reaction to E2F_FLAG_RESTART (unix.c:main, `goto restart`) is inline code of main and not covered"],
 "native": false
}
*/
/*
 * e2fsck_run (e2fsck/e2fsck.c): run the passes; "Returns 0 if the passes completed, or the E2F_FLAG_* bits (ABORT,
 * CANCEL, RESTART) that made it stop".
 *
 * Protocol (C01 mechanism: a repair that invalidates what earlier passes computed sets E2F_FLAG_RESTART; the remaining
 * passes must not run on the stale state and the caller must learn about it):
 *   - passes run in table order, each at most once, and only while no E2F_FLAG_RUN_RETURN bit is set;
 *   - as soon as a pass (or the progress callback after it) leaves a RUN_RETURN bit set, no later pass runs;
 *   - the result is exactly ctx->flags & E2F_FLAG_RUN_RETURN as left by the last pass that ran (0 iff all six ran and
 *     none of the bits is set at the end).
 */
#include "verif.h"

#define P2R_NPASS 6
struct in_run {
	unsigned int flags0;			/* ctx->flags on entry */
	unsigned int pass_flags[P2R_NPASS];	/* what each pass leaves in ctx->flags */
	unsigned int prog_flags[P2R_NPASS];	/* what the progress callback after it leaves */
	unsigned char prog_touches[P2R_NPASS];	/* ... if it touches the flags at all */
	unsigned char have_progress;
};
struct in_run IN;
#include "verif_in.h"

#include "config.h"
#include "e2fsck.h"

/* ghost monitor */
unsigned int run_next;		/* index of the next pass allowed to run (= number of passes that ran) */
unsigned int run_violation;	/* a pass ran out of order / twice / with a RUN_RETURN bit set / without SETJMP_OK */
unsigned int run_prog_calls;
unsigned int run_last_flags;	/* ctx->flags as left by the last pass/progress step */

int e2fsck_run(e2fsck_t ctx)
	ENSURES(RET == (int) (ctx->flags & E2F_FLAG_RUN_RETURN))
	ENSURES(!(ctx->flags & E2F_FLAG_SETJMP_OK))
	ASSIGNS(ctx->flags, __CPROVER_object_whole(ctx->abort_loc), run_next, run_violation, run_prog_calls, run_last_flags);

#include "e2fsck/e2fsck.c"

static void run_pass(e2fsck_t ctx, unsigned int idx)
{
	if (run_next != idx)
		run_violation = 1;
	if (ctx->flags & E2F_FLAG_RUN_RETURN)
		run_violation = 1;
	if (!(ctx->flags & E2F_FLAG_SETJMP_OK))
		run_violation = 1;		/* fatal_error inside a pass must be able to longjmp back */
	run_next = idx + 1;
	/* a pass may set or clear any flag except the bookkeeping bit of e2fsck_run itself */
	ctx->flags = (IN.pass_flags[idx] & ~E2F_FLAG_SETJMP_OK) | (ctx->flags & E2F_FLAG_SETJMP_OK);
	run_last_flags = ctx->flags;
}

void e2fsck_pass1(e2fsck_t ctx)  { run_pass(ctx, 0); }
void e2fsck_pass1e(e2fsck_t ctx) { run_pass(ctx, 1); }
void e2fsck_pass2(e2fsck_t ctx)  { run_pass(ctx, 2); }
void e2fsck_pass3(e2fsck_t ctx)  { run_pass(ctx, 3); }
void e2fsck_pass4(e2fsck_t ctx)  { run_pass(ctx, 4); }
void e2fsck_pass5(e2fsck_t ctx)  { run_pass(ctx, 5); }

static int run_progress(e2fsck_t ctx, int pass, unsigned long cur, unsigned long max)
{
	(void) pass; (void) cur; (void) max;
	if (run_next == 0 || run_next > P2R_NPASS)
		run_violation = 1;
	else if (IN.prog_touches[run_next - 1]) {
		ctx->flags = (IN.prog_flags[run_next - 1] & ~E2F_FLAG_SETJMP_OK) | (ctx->flags & E2F_FLAG_SETJMP_OK);
		run_last_flags = ctx->flags;
	}
	run_prog_calls++;
	return 0;
}

errcode_t e2fsck_mmp_update(ext2_filsys fs)
{
	(void) fs;
	return 0;
}

/* the direct return of setjmp (glibc spells it _setjmp / __sigsetjmp depending on the feature macros) */
int _setjmp(jmp_buf env) { (void) env; return 0; }
int __sigsetjmp(jmp_buf env, int savemask) { (void) env; (void) savemask; return 0; }

void fatal_error(e2fsck_t ctx, const char *msg)
{
	(void) ctx; (void) msg;
	CHECK(0, "fatal_error is not reached (mmp update succeeds)");
	ASSUME(0);
}

void h_run(void)
{
	e2fsck_t ctx;
	int r;
	unsigned int i, stop;

	LOAD_IN();
	ctx = malloc(sizeof(*ctx));
	ASSUME(ctx);
	ctx->flags = IN.flags0;
	ctx->fs = 0;
	ctx->progress = IN.have_progress ? run_progress : 0;
	run_next = run_violation = run_prog_calls = 0;
	run_last_flags = IN.flags0;
	/* DFCC havocs mutable statics at harness entry: restate the initializer of the (never assigned) pass table */
	ASSUME(e2fsck_passes[0] == e2fsck_pass1 && e2fsck_passes[1] == e2fsck_pass1e && e2fsck_passes[2] == e2fsck_pass2 &&
	       e2fsck_passes[3] == e2fsck_pass3 && e2fsck_passes[4] == e2fsck_pass4 && e2fsck_passes[5] == e2fsck_pass5 &&
	       e2fsck_passes[6] == 0);

	r = e2fsck_run(ctx);

	CHECK(!run_violation, "passes run in table order, each once, only while no RUN_RETURN bit is set and with SETJMP_OK set");
	CHECK(run_next <= P2R_NPASS, "at most the six passes");
	/* stop = number of passes after which, for the first time, a RUN_RETURN bit was left standing
	 * (0 if already set on entry; 6 if never) -- computed here from IN alone */
	stop = P2R_NPASS;
	if (IN.flags0 & E2F_FLAG_RUN_RETURN)
		stop = 0;
	else
		for (i = 0; i < P2R_NPASS; i++) {
			unsigned int f = (IN.have_progress && IN.prog_touches[i]) ? IN.prog_flags[i] : IN.pass_flags[i];
			if (f & E2F_FLAG_RUN_RETURN) {
				stop = i + 1;
				break;
			}
		}
	CHECK(run_next == stop, "exactly the passes up to (and including) the first one that leaves a RUN_RETURN bit set have run: no later pass runs");
	CHECK(run_prog_calls == (IN.have_progress ? run_next : 0), "progress is reported once after each pass that ran");
	CHECK((unsigned int) r == (run_last_flags & E2F_FLAG_RUN_RETURN), "the result is the RUN_RETURN bits left by the last step");
	CHECK((r == 0) == (stop == P2R_NPASS && !(run_last_flags & E2F_FLAG_RUN_RETURN)), "0 is returned iff all passes completed without ABORT/CANCEL/RESTART");
	CHECK(!(r & ~E2F_FLAG_RUN_RETURN), "nothing but RUN_RETURN bits is returned");
	if (r & E2F_FLAG_RESTART) REACH("restart requested");
	if (run_next == 3 && r) REACH("stopped after pass 2");
	if (r == 0) REACH("clean completion");
	REACH("end");
}
