/* VERIF-UNIT
{
 "name": "p2_check_dotdot_converge",
 "props": ["C01"],
 "level": "U",
 "tier": "quick",
 "harness": "h_dotdot_converge",
 "includes": ["e2fsck", "lib/support"],
 "sources": ["lib/ext2fs/dir_iterate.c"],
 "functions": ["e2fsck/pass2.c:check_dotdot"],
 "assumes": ["directory scan buffer of 2 x 1024 bytes as allocated by e2fsck_pass2, the block (first half) arbitrary; fs->blocksize 1024 (rec_len is stored undecoded for every block size < 64 KiB)",
	     "the entry is at an arbitrary offset of the block (tail view, see p2_common.h: the scan buffer is presented as the 1036-byte tail starting at the entry; accesses outside it would fail the pointer checks) and satisfies exactly what check_dir_block has verified before the call (offset+rec_len within the block, rec_len >= 12, rec_len % 4 == 0, name fits in rec_len)",
	     "fix_problem is a stub that logs the code and answers yes in the first run, IN.choice in the second",
	     "e2fsck_dir_info_set_dotdot is a stub (records its arguments); it finds the directory's dir_info in both runs (pass 1 registers every directory whose blocks are in the dblist; the failure is PR_2_NO_DIRINFO, a fatal internal error)"],
 "backend": "cadical",
 "native": false
}
*/
/* VERIF-UNIT
{
 "name": "p2_check_dotdot_detect",
 "props": ["C02"],
 "level": "U",
 "tier": "quick",
 "harness": "h_dotdot_detect",
 "enforce": ["check_dotdot"],
 "includes": ["e2fsck", "lib/support"],
 "sources": ["lib/ext2fs/dir_iterate.c"],
 "functions": ["e2fsck/pass2.c:check_dotdot"],
 "assumes": ["same buffer / call-site assumptions as p2_check_dotdot_converge",
	     "fix_problem stub answers no to everything (e2fsck -n)",
	     "PR_NO_OK pins of the problem table: none of the codes check_dotdot can raise carries PR_NO_OK"],
 "backend": "cadical",
 "native": false
}
*/
/* VERIF-UNIT
{
 "name": "p2_check_dotdot_sound",
 "props": ["C05"],
 "level": "U",
 "tier": "quick",
 "harness": "h_dotdot_sound",
 "enforce": ["check_dotdot"],
 "includes": ["e2fsck", "lib/support"],
 "sources": ["lib/ext2fs/dir_iterate.c"],
 "functions": ["e2fsck/pass2.c:check_dotdot"],
 "assumes": ["same buffer / call-site assumptions as p2_check_dotdot_converge",
	     "healthy '..' = format-valid AND the byte after the name is NUL (what the kernel / mke2fs / libext2fs write); a format-valid '..' without the NUL is the grey zone (p2_check_dotdot_greyzone)",
	     "fix_problem answers are arbitrary (IN.choice)",
	     "e2fsck_dir_info_set_dotdot finds the directory's dir_info (pass-1 invariant; otherwise e2fsck stops with a fatal internal error)"],
 "backend": "cadical",
 "native": false
}
*/
/* VERIF-UNIT
{
 "name": "p2_check_dotdot_greyzone",
 "props": ["C05"],
 "level": "U",
 "tier": "quick",
 "harness": "h_dotdot_grey",
 "enforce": ["check_dotdot"],
 "includes": ["e2fsck", "lib/support"],
 "sources": ["lib/ext2fs/dir_iterate.c"],
 "functions": ["e2fsck/pass2.c:check_dotdot"],
 "assumes": ["same buffer / call-site assumptions as p2_check_dotdot_converge",
	     "characterisation, not a format statement: the only e2fsck convention beyond the on-disk format is the NUL after '..'"],
 "backend": "cadical",
 "native": false
}
*/
/* VERIF-UNIT
{
 "name": "p2_check_dotdot_inline",
 "props": ["C05"],
 "level": "U",
 "tier": "quick",
 "harness": "h_dotdot_inline",
 "enforce": ["check_dotdot"],
 "includes": ["e2fsck", "lib/support"],
 "sources": ["lib/ext2fs/dir_iterate.c"],
 "functions": ["e2fsck/pass2.c:check_dotdot"],
 "assumes": ["the inline-data arm of check_dir_block: the entry is the synthetic on-stack '..' built there (inode = first 4 bytes of the inline area, rec_len 12, name_len 2 | filetype<<8, name \"..\", rest zero); rebuilt here field by field from that code",
	     "e2fsck_dir_info_set_dotdot finds the directory's dir_info"],
 "native": false
}
*/
/*
 * check_dotdot (e2fsck/pass2.c): "Make sure the second entry in the directory is '..', and that the directory entry is
 * sane.  We do not check the inode number of '..' here; this gets done in pass 3."
 *
 * Contract on the real function: preconditions = call-site facts (p2_pre.h); frame = the scan buffer and the ghost
 * state only; result -1 (internal error) / 0 / 1 (modified).
 */
#include "p2_pre.h"

static int check_dotdot(e2fsck_t ctx, struct ext2_dir_entry *dirent, ext2_ino_t ino, struct problem_context *pctx)
	REQUIRES(ctx->fs->blocksize == P2_BS)
	REQUIRES(dirent->rec_len >= 12 && (dirent->rec_len & 3) == 0)
	REQUIRES(P2F_NEED(dirent->name_len & 0xff) <= dirent->rec_len)
	REQUIRES(__CPROVER_r_ok(dirent, dirent->rec_len))
	ENSURES(RET == 0 || RET == 1 || RET == -1)
	ASSIGNS(__CPROVER_object_whole(dirent), P2_GHOST_FRAME);

#include "p2_common.h"

/* C01: accept every repair; a second run finds nothing to do */
void h_dotdot_converge(void)
{
	struct p2_world w;
	unsigned char b1;
	int r1, r2;

	LOAD_IN();
	p2_setup(&w, P2_YES, P2_VIEW_TAIL);
	ASSUME(p2_callsite_ok(IN.blk, w.off));
	ASSUME(!IN.dirinfo_fail);

	r1 = check_dotdot(w.ctx, w.dirent, IN.ino, &w.pctx);
	if (r1) REACH("first run repaired something");
	CHECK(r1 == (p2_nlog != 0), "answer yes: 'modified' is reported exactly when a problem was raised");
	CHECK(p2_callsite_ok(w.buf, w.off), "repaired '..' entry is still a well-delimited entry");
	CHECK(P2F_DOTDOT_FORMAT_OK(w.buf, 0), "after the accepted repair the entry is a format-valid '..'");

	b1 = w.buf[IN.k];
	p2_clear_log();
	p2_mode = P2_CHOICE;
	r2 = check_dotdot(w.ctx, w.dirent, IN.ino, &w.pctx);
	CHECK(p2_nlog == 0, "second run raises no problem");
	CHECK(r2 == 0, "second run reports 'not modified'");
	CHECK(w.buf[IN.k] == b1, "second run leaves every byte of the scan buffer unchanged");
	CHECK(p2_dotdot_calls >= 1 && p2_dotdot_ino == IN.ino && p2_dotdot_val == P2F_INO(w.buf, 0),
	      "the '..' target recorded for pass 3 is the one in the entry");
	REACH("end");
}

/* C02 */
void h_dotdot_detect(void)
{
	struct p2_world w;
	int r;

	LOAD_IN();
	p2_setup(&w, P2_NO, P2_VIEW_TAIL);
	ASSUME(p2_callsite_ok(IN.blk, w.off));
	ASSUME(!P2F_DOTDOT_FORMAT_OK(IN.blk, 0));

	r = check_dotdot(w.ctx, w.dirent, IN.ino, &w.pctx);
	CHECK(p2_nserious >= 1, "a malformed '..' raises at least one problem without PR_NO_OK");
	CHECK(r == 0, "everything declined: reported as not modified");
	CHECK(w.buf[IN.k] == w.b0, "everything declined: scan buffer unchanged");
	REACH("end");
}

/* C05 */
void h_dotdot_sound(void)
{
	struct p2_world w;
	int r;

	LOAD_IN();
	p2_setup(&w, P2_CHOICE, P2_VIEW_TAIL);
	ASSUME(p2_callsite_ok(IN.blk, w.off));
	ASSUME(P2F_DOTDOT_HEALTHY(IN.blk, 0));
	ASSUME(!IN.dirinfo_fail);

	r = check_dotdot(w.ctx, w.dirent, IN.ino, &w.pctx);
	CHECK(p2_nlog == 0, "healthy '..': no problem raised");
	CHECK(r == 0, "healthy '..': reported as not modified");
	CHECK(w.buf[IN.k] == w.b0, "healthy '..': no byte of the scan buffer changes");
	CHECK(p2_dotdot_calls == 1 && p2_dotdot_ino == IN.ino && p2_dotdot_val == P2F_INO(IN.blk, 0),
	      "the '..' target is recorded for pass 3");
	REACH("end");
}

/* grey zone */
void h_dotdot_grey(void)
{
	struct p2_world w;
	int r;

	LOAD_IN();
	p2_setup(&w, P2_CHOICE, P2_VIEW_TAIL);
	ASSUME(p2_callsite_ok(IN.blk, w.off));
	ASSUME(P2F_DOTDOT_FORMAT_OK(IN.blk, 0));
	ASSUME(!IN.dirinfo_fail);

	r = check_dotdot(w.ctx, w.dirent, IN.ino, &w.pctx);
	CHECK(p2_nlog <= 1, "at most one question");
	CHECK(p2_nlog == 0 || (p2_log[0] == PR_2_DOT_DOT_NULL_TERM && P2F_NAME(IN.blk, 0, 2) != 0),
	      "format-valid '..': only the NUL-termination convention can be raised, and only when the byte is not NUL");
	if (p2_nlog) REACH("grey zone is not empty");
	CHECK(r != 0 || w.buf[IN.k] == w.b0, "'not modified' means no byte changed");
	REACH("end");
}

/* inline-data directories: check_dir_block fabricates the '..' entry on its stack from the 4-byte parent field */
void h_dotdot_inline(void)
{
	struct p2_world w;
	struct ext2_dir_entry dotdot;
	int r, filetype = 0;
	unsigned parent;

	LOAD_IN();
	p2_setup(&w, P2_CHOICE, P2_VIEW_BLOCK0);
	ASSUME(!IN.dirinfo_fail);
	parent = ((struct ext2_dir_entry *) w.buf)->inode;
	ASSUME(parent != 0);
	if (IN.incompat & P2F_INCOMPAT_FILETYPE)
		filetype = EXT2_FT_DIR << 8;
	memset(&dotdot, 0, sizeof(dotdot));
	dotdot.inode = parent;
	dotdot.rec_len = EXT2_DIR_REC_LEN(2);
	dotdot.name_len = 2 | filetype;
	dotdot.name[0] = '.';
	dotdot.name[1] = '.';
	w.pctx.dirent = &dotdot;
	r = check_dotdot(w.ctx, &dotdot, IN.ino, &w.pctx);
	CHECK(p2_nlog == 0 && r == 0, "synthetic '..' of an inline directory: nothing raised, nothing modified");
	CHECK(dotdot.inode == parent && dotdot.rec_len == 12 && dotdot.name_len == (2 | filetype) &&
	      dotdot.name[0] == '.' && dotdot.name[1] == '.' && dotdot.name[2] == 0, "synthetic '..' unchanged");
	CHECK(p2_dotdot_calls == 1 && p2_dotdot_val == parent, "parent recorded for pass 3");
	REACH("end");
}
