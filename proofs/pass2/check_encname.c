/* VERIF-UNIT
{
 "name": "p2_encrypted_name_detect",
 "props": ["C02"],
 "level": "U",
 "tier": "quick",
 "harness": "h_encr_detect",
 "enforce": ["encrypted_check_name"],
 "includes": ["e2fsck", "lib/support"],
 "sources": ["lib/ext2fs/dir_iterate.c"],
 "functions": ["e2fsck/pass2.c:encrypted_check_name"],
 "assumes": ["scan buffer / call-site assumptions of p2_common.h (tail view, arbitrary offset)",
	     "fix_problem stub answers no; PR_2_BAD_ENCRYPTED_NAME does not carry PR_NO_OK (problem table pin)"],
 "native": false
}
*/
/* VERIF-UNIT
{
 "name": "p2_encrypted_name_sound",
 "props": ["C05"],
 "level": "U",
 "tier": "quick",
 "harness": "h_encr_sound",
 "enforce": ["encrypted_check_name"],
 "includes": ["e2fsck", "lib/support"],
 "sources": ["lib/ext2fs/dir_iterate.c"],
 "functions": ["e2fsck/pass2.c:encrypted_check_name"],
 "assumes": ["scan buffer / call-site assumptions of p2_common.h (tail view, arbitrary offset)",
	     "fix_problem answers are arbitrary (IN.choice)"],
 "native": false
}
*/
/* VERIF-UNIT
{
 "name": "p2_encrypted_name_verdict",
 "props": ["C01"],
 "level": "U",
 "tier": "quick",
 "harness": "h_encr_verdict",
 "enforce": ["encrypted_check_name"],
 "includes": ["e2fsck", "lib/support"],
 "sources": ["lib/ext2fs/dir_iterate.c"],
 "functions": ["e2fsck/pass2.c:encrypted_check_name"],
 "assumes": ["scan buffer / call-site assumptions of p2_common.h (tail view, arbitrary offset)",
	     "encrypted_check_name repairs nothing itself: its verdict 1 makes check_dir_block clear the entry (dirent->inode = 0), and entries with inode 0 are skipped before any checker runs (`if (!dirent->inode) goto next`), which is why a second run is silent; this unit proves the verdict and that the entry itself is left alone",
	     "fix_problem stub answers yes"],
 "native": false
}
*/
/* VERIF-UNIT
{
 "name": "p2_encoded_name_converge_B8",
 "props": ["C01"],
 "level": "B(8)",
 "tier": "quick",
 "harness": "h_enc_converge",
 "includes": ["e2fsck", "lib/support"],
 "sources": ["lib/ext2fs/dir_iterate.c"],
 "unwind": 10,
 "unwind_reason": "BOUNDED stand-in: names of at most 8 bytes (the three loops involved run name_len times); enough to exhibit the defect and to test the proposed fix",
 "functions": ["e2fsck/pass2.c:encoded_check_name", "e2fsck/pass2.c:check_name"],
 "assumes": ["failed on the pinned tree (finding C01_encoded_name_two_runs, repaired by a fix: commit); green since",
	     "names of at most 8 bytes (bounded)",
	     "ctx->fs->encoding is an NLS table whose validator is the ASCII-only instance of the ext2fs_nls_ops.validate interface (stops at NUL or len, reports the first byte >= 0x80); it behaves like utf8_validate on every string made of ASCII and 0xff bytes",
	     "264-byte window view of the scan buffer (p2_common.h); call-site facts of check_dir_block; fix_problem answers yes in the first run"],
 "native": false
}
*/
/* VERIF-UNIT
{
 "name": "p2_encoded_name_sound",
 "props": ["C05"],
 "level": "U",
 "tier": "quick",
 "harness": "h_enc_sound",
 "enforce": ["encoded_check_name"],
 "loop_contracts": true,
 "includes": ["e2fsck", "lib/support"],
 "sources": ["lib/ext2fs/dir_iterate.c"],
 "unwind": 10,
 "unwindset": {"p2f_name_ok.0": 257, "p2_ascii_validate.0": 257, "p2_ascii_ok.0": 257},
 "unwind_reason": "check_name's loop is closed by its in-place loop contract; the repair loop of encoded_check_name is not entered on these inputs (unwinding assertion); the loops unwound 257 times are the SPEC function p2f_name_ok, the spec p2_ascii_ok and the validator instance in the unit, each running name_len <= 255 times (8-bit on-disk field)",
 "functions": ["e2fsck/pass2.c:encoded_check_name", "e2fsck/pass2.c:check_name"],
 "assumes": ["scan buffer / call-site assumptions of p2_common.h (tail view, arbitrary offset)",
	     "ctx->fs->encoding is an NLS table whose validator is the ASCII-only instance of the ext2fs_nls_ops.validate interface (stops at NUL or len, reports the first byte >= 0x80); healthy name = every byte is ASCII, none is '/' or NUL",
	     "fix_problem answers are arbitrary (IN.choice)",
	     "needs the loop anchor VERIF_LOOP(VERIF_INV_PASS2_CHECK_NAME) in e2fsck/pass2.c (hooks-pending/pass2.diff)"],
 "backend": "cadical",
 "native": false
}
*/
/* VERIF-UNIT
{
 "name": "p2_encoded_name_detect",
 "props": ["C02"],
 "level": "U",
 "tier": "quick",
 "harness": "h_enc_detect",
 "enforce": ["encoded_check_name"],
 "loop_contracts": true,
 "includes": ["e2fsck", "lib/support"],
 "sources": ["lib/ext2fs/dir_iterate.c"],
 "unwind": 10,
 "unwindset": {"p2_ascii_validate.0": 257},
 "unwind_reason": "check_name's loop is closed by its in-place loop contract; the repair loop of encoded_check_name is not entered when the fix is declined (unwinding assertion); the loop unwound 257 times is the validator instance in the unit (name_len <= 255, 8-bit on-disk field)",
 "functions": ["e2fsck/pass2.c:encoded_check_name", "e2fsck/pass2.c:check_name"],
 "assumes": ["scan buffer / call-site assumptions of p2_common.h (tail view, arbitrary offset)",
	     "same validator instance as p2_encoded_name_sound",
	     "'the name is malformed' is given by a witness position IN.j < name_len holding '/' or NUL, or by the validator instance rejecting the name",
	     "fix_problem stub answers no; PR_2_BAD_NAME and PR_2_BAD_ENCODED_NAME do not carry PR_NO_OK (problem table pin)",
	     "needs the loop anchor VERIF_LOOP(VERIF_INV_PASS2_CHECK_NAME) in e2fsck/pass2.c (hooks-pending/pass2.diff)"],
 "native": false
}
*/
/*
 * encrypted_check_name / encoded_check_name (e2fsck/pass2.c)
 */
#include "p2_pre.h"

extern int p2_enc_calls;

static int encrypted_check_name(e2fsck_t ctx, const struct ext2_dir_entry *dirent, struct problem_context *pctx)
	REQUIRES(dirent->rec_len >= 12 && (dirent->rec_len & 3) == 0)
	REQUIRES(P2F_NEED(dirent->name_len & 0xff) <= dirent->rec_len)
	ENSURES(RET == 0 || RET == 1)
	ASSIGNS(ctx->fs->flags, P2_GHOST_FRAME);	/* in particular: nothing of the directory block */

static int encoded_check_name(e2fsck_t ctx, struct ext2_dir_entry *dirent, struct problem_context *pctx)
	REQUIRES(dirent->rec_len >= 12 && (dirent->rec_len & 3) == 0)
	REQUIRES(P2F_NEED(dirent->name_len & 0xff) <= dirent->rec_len)
	ENSURES(RET == 0 || RET == 1)
	ASSIGNS(__CPROVER_object_whole(dirent), P2_GHOST_FRAME, p2_enc_calls);

#include "p2_name_inv.h"
#include "p2_common.h"

/* spec of the validator instance, written independently of the stub below: every name byte is ASCII */
static int p2_ascii_ok(const unsigned char *b, unsigned o)
{
	unsigned i, n = P2F_NL(b, o);

	for (i = 0; i < n; i++)
		if (P2F_NAME(b, o, i) >= 0x80)
			return 0;
	return 1;
}

/* an instance of the NLS validate interface (struct ext2fs_nls_ops.validate as called through
 * ext2fs_check_encoded_name): ASCII only.  Like utf8_validate it stops at a NUL or after len bytes and reports
 * the position of the first offending (non-NUL) byte. */
static int p2_ascii_validate(char *name, size_t len, char **pos)
{
	size_t i;

	for (i = 0; i < len && name[i]; i++)
		if ((unsigned char) name[i] >= 0x80) {
			*pos = name + i;
			return 1;
		}
	return 0;
}

/* In the units that enforce a contract the harness evaluates the instance beforehand on the same bytes (the real
 * function calls the validator exactly once, before it has modified anything: checked below) and the stub hands
 * the answer out; this keeps the instance's loop out of the frame-instrumented code. */
int p2_enc_pre, p2_enc_ret, p2_enc_calls;
char *p2_enc_pos, *p2_enc_name;
size_t p2_enc_len;

int ext2fs_check_encoded_name(const struct ext2fs_nls_table *table, char *name, size_t len, char **pos)
{
	(void) table;
	if (!p2_enc_pre)
		return p2_ascii_validate(name, len, pos);
	CHECK(p2_enc_calls == 0 && name == p2_enc_name && len == p2_enc_len, "validator called once, on the name of the entry, before any modification");
	p2_enc_calls++;
	*pos = p2_enc_pos;
	return p2_enc_ret;
}

void fatal_error(e2fsck_t ctx, const char *msg)
{
	(void) ctx; (void) msg;
	CHECK(0, "fatal_error is not reached");
	ASSUME(0);
#ifdef VERIF_NATIVE
	exit(3);
#endif
}

/* C02 */
void h_encr_detect(void)
{
	struct p2_world w;
	int r;

	LOAD_IN();
	p2_setup(&w, P2_NO, P2_VIEW_TAIL);
	ASSUME(p2_callsite_ok(IN.blk, w.off));
	ASSUME(!P2F_ENCRYPTED_NAME_OK(IN.blk, 0));
	w.fs->flags = EXT2_FLAG_VALID | (IN.incompat << 8);

	r = encrypted_check_name(w.ctx, w.dirent, &w.pctx);
	CHECK(p2_nserious >= 1, "a too short encrypted name raises a problem without PR_NO_OK");
	CHECK(r == 0, "declined: the entry is kept");
	CHECK(!(w.fs->flags & EXT2_FLAG_VALID), "declined: the file system is no longer marked valid");
	CHECK(w.buf[IN.k] == w.b0, "scan buffer unchanged");
	REACH("end");
}

/* C05 */
void h_encr_sound(void)
{
	struct p2_world w;
	int r;
	unsigned f0;

	LOAD_IN();
	p2_setup(&w, P2_CHOICE, P2_VIEW_TAIL);
	ASSUME(p2_callsite_ok(IN.blk, w.off));
	ASSUME(P2F_ENCRYPTED_NAME_OK(IN.blk, 0));
	w.fs->flags = f0 = IN.incompat;

	r = encrypted_check_name(w.ctx, w.dirent, &w.pctx);
	CHECK(p2_nlog == 0 && r == 0, "well-formed encrypted name: nothing raised, entry kept");
	CHECK(w.fs->flags == f0, "fs flags untouched");
	CHECK(w.buf[IN.k] == w.b0, "scan buffer unchanged");
	REACH("end");
}

/* C01: the verdict that makes the caller clear the entry */
void h_encr_verdict(void)
{
	struct p2_world w;
	int r;

	LOAD_IN();
	p2_setup(&w, P2_YES, P2_VIEW_TAIL);
	ASSUME(p2_callsite_ok(IN.blk, w.off));
	w.fs->flags = IN.incompat;

	r = encrypted_check_name(w.ctx, w.dirent, &w.pctx);
	CHECK((r == 1) == !P2F_ENCRYPTED_NAME_OK(IN.blk, 0), "verdict 'clear this entry' exactly for too short names");
	CHECK(r == (p2_nlog != 0), "verdict given exactly when the problem was raised");
	CHECK(w.buf[IN.k] == w.b0, "the entry itself is not modified here");
	if (r) REACH("cleared");
	REACH("end");
}

/* C01 for casefolded directories: EXPECTED TO FAIL (finding C01_encoded_name_two_runs) */
void h_enc_converge(void)
{
	struct p2_world w;
	unsigned char b1;
	int r1, r2;

	LOAD_IN();
	p2_setup(&w, P2_YES, P2_VIEW_WINDOW);
	ASSUME(p2_callsite_ok(IN.blk, w.off));
	ASSUME(P2F_NL(IN.blk, 0) <= 8);
	w.fs->encoding = (const struct ext2fs_nls_table *) &p2_tag_dir;	/* opaque: the stub validator ignores it */
	p2_enc_pre = 0;			/* both runs call the validator instance itself */

	r1 = encoded_check_name(w.ctx, w.dirent, &w.pctx);
	if (r1) REACH("first run repaired something");
	CHECK(r1 == (p2_nlog != 0), "answer yes: 'modified' is reported exactly when a problem was raised");

	b1 = w.buf[IN.k];
	p2_clear_log();
	p2_mode = P2_CHOICE;
	r2 = encoded_check_name(w.ctx, w.dirent, &w.pctx);
	CHECK(p2_nlog == 0, "second run raises no problem");
	CHECK(r2 == 0, "second run reports 'not modified'");
	CHECK(w.buf[IN.k] == b1, "second run leaves every byte of the scan buffer unchanged");
	REACH("end");
}

/* C05: a healthy name in a casefolded directory */
void h_enc_sound(void)
{
	struct p2_world w;
	int r;

	LOAD_IN();
	p2_setup(&w, P2_CHOICE, P2_VIEW_TAIL);
	ASSUME(p2_callsite_ok(IN.blk, w.off));
	ASSUME(p2f_name_ok(IN.blk, 0) && p2_ascii_ok(IN.blk, 0));
	w.fs->encoding = (const struct ext2fs_nls_table *) &p2_tag_dir;
	verif_k = IN.k;
	verif_g0 = w.b0;
	p2_enc_name = (char *) w.buf + 8;
	p2_enc_len = P2F_NL(IN.blk, 0);
	p2_enc_ret = p2_ascii_validate(p2_enc_name, p2_enc_len, &p2_enc_pos);
	p2_enc_pre = 1;
	p2_enc_calls = 0;

	r = encoded_check_name(w.ctx, w.dirent, &w.pctx);
	CHECK(p2_enc_calls == 1, "the name was submitted to the validator of the fs encoding");
	CHECK(p2_nlog == 0, "healthy encoded name: no problem raised");
	CHECK(r == 0, "healthy encoded name: reported as not modified");
	CHECK(w.buf[IN.k] == w.b0, "healthy encoded name: no byte of the scan buffer changes");
	REACH("end");
}

/* C02 */
void h_enc_detect(void)
{
	struct p2_world w;
	int r, bad_char, bad_enc;

	LOAD_IN();
	p2_setup(&w, P2_NO, P2_VIEW_TAIL);
	ASSUME(p2_callsite_ok(IN.blk, w.off));
	w.fs->encoding = (const struct ext2fs_nls_table *) &p2_tag_dir;
	bad_char = IN.j < P2F_NL(IN.blk, 0) && P2F_BAD_CHAR(P2F_NAME(IN.blk, 0, IN.j));
	p2_enc_name = (char *) w.buf + 8;
	p2_enc_len = P2F_NL(IN.blk, 0);
	p2_enc_ret = p2_ascii_validate(p2_enc_name, p2_enc_len, &p2_enc_pos);
	p2_enc_pre = 1;
	p2_enc_calls = 0;
	bad_enc = p2_enc_ret > 0;
	ASSUME(bad_char || bad_enc);
	if (bad_char && !bad_enc) REACH("illegal character only");
	if (!bad_char && bad_enc) REACH("invalid encoding only");
	verif_k = IN.k;
	verif_g0 = w.b0;
	verif_g2 = bad_char ? IN.j : 255;
	verif_g3 = 0;		/* check_name runs before the encoding validator (order since the C01 fix): nothing is logged yet when its loop starts */

	r = encoded_check_name(w.ctx, w.dirent, &w.pctx);
	CHECK(p2_nserious >= 1, "a malformed encoded name raises at least one problem without PR_NO_OK");
	CHECK(r == 0, "everything declined: reported as not modified");
	CHECK(w.buf[IN.k] == w.b0, "everything declined: scan buffer unchanged");
	REACH("end");
}
