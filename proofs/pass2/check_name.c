/* VERIF-UNIT
{
 "name": "p2_check_name_converge",
 "props": ["C01"],
 "level": "U/k",
 "tier": "wip",
 "harness": "h_name_converge",
 "includes": ["e2fsck", "lib/support"],
 "sources": ["lib/ext2fs/dir_iterate.c"],
 "unwind": 257,
 "unwind_reason": "the loop of check_name (and of the spec function p2f_name_ok) runs name_len times; name_len is an 8-bit on-disk field, so at most 255 iterations; unwinding assertions make the bound complete",
 "functions": ["e2fsck/pass2.c:check_name"],
 "assumes": ["directory scan buffer of 2 x 1024 bytes, entry at an arbitrary offset of the 1024-byte block (tail view, p2_common.h), constrained only by the call-site facts of check_dir_block (offset+rec_len within the block, rec_len >= 12, rec_len % 4 == 0, name fits in rec_len, inode != 0)",
	     "fix_problem is a stub that logs the code and answers yes in the first run, IN.choice in the second"],
 "native": false
}
*/
/* VERIF-UNIT
{
 "name": "p2_check_name_detect",
 "props": ["C02"],
 "level": "U/k",
 "tier": "wip",
 "harness": "h_name_detect",
 "enforce": ["check_name"],
 "includes": ["e2fsck", "lib/support"],
 "sources": ["lib/ext2fs/dir_iterate.c"],
 "unwind": 257,
 "unwind_reason": "the loop of check_name (and of the spec function p2f_name_ok) runs name_len times; name_len is an 8-bit on-disk field, so at most 255 iterations; unwinding assertions make the bound complete",
 "functions": ["e2fsck/pass2.c:check_name"],
 "assumes": ["same buffer / call-site assumptions as p2_check_name_converge",
	     "fix_problem stub answers no to everything (e2fsck -n)",
	     "PR_NO_OK pin of the problem table: PR_2_BAD_NAME does not carry PR_NO_OK"],
 "native": false
}
*/
/* VERIF-UNIT
{
 "name": "p2_check_name_sound",
 "props": ["C05"],
 "level": "U/k",
 "tier": "wip",
 "harness": "h_name_sound",
 "includes": ["e2fsck", "lib/support"],
 "sources": ["lib/ext2fs/dir_iterate.c"],
 "unwind": 257,
 "unwind_reason": "the loop of check_name (and of the spec function p2f_name_ok) runs name_len times; name_len is an 8-bit on-disk field, so at most 255 iterations; unwinding assertions make the bound complete",
 "functions": ["e2fsck/pass2.c:check_name"],
 "assumes": ["same buffer / call-site assumptions as p2_check_name_converge",
	     "fix_problem answers are arbitrary (IN.choice)"],
 "native": false
}
*/
/*
 * check_name (e2fsck/pass2.c): "Check to make sure a directory entry doesn't contain any illegal characters."
 *
 * Independent statement (pass2_format.h): a name is a path component: none of its name_len bytes is '/' or NUL.
 * Contract on the real function: preconditions = call-site facts; frame = scan buffer + ghost state; result 0/1.
 */
#include "p2_pre.h"

static int check_name(e2fsck_t ctx, struct ext2_dir_entry *dirent, struct problem_context *pctx)
	REQUIRES(dirent->rec_len >= 12 && (dirent->rec_len & 3) == 0)
	REQUIRES(P2F_NEED(dirent->name_len & 0xff) <= dirent->rec_len)
	ENSURES(RET == 0 || RET == 1)
	ASSIGNS(__CPROVER_object_whole(dirent), P2_GHOST_FRAME);

#include "p2_common.h"

/* C01 */
void h_name_converge(void)
{
	struct p2_world w;
	unsigned char b1;
	int r1, r2;

	LOAD_IN();
	p2_setup(&w, P2_YES, P2_VIEW_TAIL);
	ASSUME(p2_callsite_ok(IN.blk, w.off));

	r1 = check_name(w.ctx, w.dirent, &w.pctx);
	if (r1) REACH("first run repaired something");
	CHECK(r1 == (p2_nlog != 0), "answer yes: 'modified' is reported exactly when a problem was raised");
	CHECK(p2_nlog <= 1, "the question is asked once per entry, not once per character");
	CHECK(p2_callsite_ok(w.buf, w.off), "call-site facts survive the repair");
	CHECK(p2f_name_ok(w.buf, 0), "after the accepted repair the name is a legal path component");
	CHECK(IN.k < 8 || IN.k >= 8 + P2F_NL(IN.blk, 0) || w.buf[IN.k] == IN.blk[IN.k] || P2F_BAD_CHAR(IN.blk[IN.k]),
	      "legal characters of the name are kept");
	CHECK((IN.k >= 8 && IN.k < 8 + P2F_NL(IN.blk, 0)) || w.buf[IN.k] == w.b0, "nothing outside the name changes");

	b1 = w.buf[IN.k];
	p2_clear_log();
	p2_mode = P2_CHOICE;
	r2 = check_name(w.ctx, w.dirent, &w.pctx);
	CHECK(p2_nlog == 0, "second run raises no problem");
	CHECK(r2 == 0, "second run reports 'not modified'");
	CHECK(w.buf[IN.k] == b1, "second run leaves every byte of the scan buffer unchanged");
	REACH("end");
}

/* C02 */
void h_name_detect(void)
{
	struct p2_world w;
	int r;

	LOAD_IN();
	p2_setup(&w, P2_NO, P2_VIEW_TAIL);
	ASSUME(p2_callsite_ok(IN.blk, w.off));
	ASSUME(!p2f_name_ok(IN.blk, 0));

	r = check_name(w.ctx, w.dirent, &w.pctx);
	CHECK(p2_nserious >= 1, "an illegal name raises at least one problem without PR_NO_OK");
	CHECK(r == 0, "everything declined: reported as not modified");
	CHECK(w.buf[IN.k] == w.b0, "everything declined: scan buffer unchanged");
	REACH("end");
}

/* C05 */
void h_name_sound(void)
{
	struct p2_world w;
	int r;

	LOAD_IN();
	p2_setup(&w, P2_CHOICE, P2_VIEW_TAIL);
	ASSUME(p2_callsite_ok(IN.blk, w.off));
	ASSUME(p2f_name_ok(IN.blk, 0));
	if (P2F_NL(IN.blk, 0) == 255) REACH("longest name");

	r = check_name(w.ctx, w.dirent, &w.pctx);
	CHECK(p2_nlog == 0, "legal name: no problem raised");
	CHECK(r == 0, "legal name: reported as not modified");
	CHECK(w.buf[IN.k] == w.b0, "legal name: no byte of the scan buffer changes");
	REACH("end");
}
