/* VERIF-UNIT
{
 "name": "p2_check_name_repair",
 "props": ["C01"],
 "level": "U",
 "tier": "quick",
 "harness": "h_name_repair",
 "enforce": ["check_name"],
 "loop_contracts": true,
 "includes": ["e2fsck", "lib/support"],
 "sources": ["lib/ext2fs/dir_iterate.c"],
 "unwind": 10,
 "unwind_reason": "the loop of check_name is closed by its in-place loop contract; the bound only serves DFCC library loops",
 "functions": ["e2fsck/pass2.c:check_name"],
 "assumes": ["directory scan buffer of 2 x 1024 bytes, entry at an arbitrary offset of the 1024-byte block (tail view, p2_common.h), constrained only by the call-site facts of check_dir_block (offset+rec_len within the block, rec_len >= 12, rec_len % 4 == 0, name fits in rec_len)",
	     "fix_problem is a stub that logs the code and answers yes",
	     "needs the loop anchor VERIF_LOOP(VERIF_INV_PASS2_CHECK_NAME) in e2fsck/pass2.c (hooks-pending/pass2.diff)",
	     "C01 for check_name is the composition of this unit (after an accepted repair every name byte is legal, header untouched) with p2_check_name_sound (a legal name is neither reported nor touched): the postcondition here is, byte for byte, the precondition there"],
 "native": false
}
*/
/* VERIF-UNIT
{
 "name": "p2_check_name_detect",
 "props": ["C02"],
 "level": "U",
 "tier": "quick",
 "harness": "h_name_detect",
 "enforce": ["check_name"],
 "loop_contracts": true,
 "includes": ["e2fsck", "lib/support"],
 "sources": ["lib/ext2fs/dir_iterate.c"],
 "unwind": 10,
 "unwind_reason": "the loop of check_name is closed by its in-place loop contract; the bound only serves DFCC library loops",
 "functions": ["e2fsck/pass2.c:check_name"],
 "assumes": ["same buffer / call-site assumptions as p2_check_name_repair",
	     "'the name is illegal' is given by a witness: some position j < name_len (arbitrary, IN.j) holds '/' or NUL",
	     "fix_problem stub answers no to everything (e2fsck -n)",
	     "PR_NO_OK pin of the problem table: PR_2_BAD_NAME does not carry PR_NO_OK",
	     "needs the loop anchor VERIF_LOOP(VERIF_INV_PASS2_CHECK_NAME) in e2fsck/pass2.c (hooks-pending/pass2.diff)"],
 "native": false
}
*/
/* VERIF-UNIT
{
 "name": "p2_check_name_sound",
 "props": ["C05", "C01"],
 "level": "U",
 "tier": "quick",
 "harness": "h_name_sound",
 "enforce": ["check_name"],
 "loop_contracts": true,
 "includes": ["e2fsck", "lib/support"],
 "sources": ["lib/ext2fs/dir_iterate.c"],
 "unwind": 10,
 "unwindset": {"p2f_name_ok.0": 257},
 "unwind_reason": "the loop of check_name is closed by its in-place loop contract; the loop unwound 257 times is the one of the SPEC function p2f_name_ok in the harness, which runs name_len <= 255 times (8-bit on-disk field); 10 serves DFCC library loops",
 "functions": ["e2fsck/pass2.c:check_name"],
 "assumes": ["same buffer / call-site assumptions as p2_check_name_repair",
	     "fix_problem answers are arbitrary (IN.choice)",
	     "needs the loop anchor VERIF_LOOP(VERIF_INV_PASS2_CHECK_NAME) in e2fsck/pass2.c (hooks-pending/pass2.diff)"],
 "native": false
}
*/
/* VERIF-UNIT
{
 "name": "p2_check_name_converge_k",
 "props": ["C01"],
 "level": "U/k",
 "tier": "thorough",
 "harness": "h_name_converge",
 "includes": ["e2fsck", "lib/support"],
 "sources": ["lib/ext2fs/dir_iterate.c"],
 "unwind": 257,
 "unwind_reason": "the loop of check_name (and of the spec function p2f_name_ok) runs name_len times; name_len is an 8-bit on-disk field, so at most 255 iterations; unwinding assertions make the bound complete",
 "backend": "cadical",
 "timeout": 900,
 "functions": ["e2fsck/pass2.c:check_name"],
 "assumes": ["the literal two-run statement of C01 for check_name by unwinding (slow); 264-byte window view of the scan buffer starting at the entry (p2_common.h)",
	     "fix_problem is a stub that logs the code and answers yes in the first run, IN.choice in the second"],
 "native": false
}
*/
/*
 * check_name (e2fsck/pass2.c): "Check to make sure a directory entry doesn't contain any illegal characters."
 *
 * Independent statement (pass2_format.h): a name is a path component: none of its name_len bytes is '/' or NUL.
 * Contract on the real function: preconditions = call-site facts; frame = scan buffer + ghost state; result 0/1.
 *
 * The loop over the name is closed by an in-place loop contract; pass2.c only names the loop
 * (VERIF_LOOP(VERIF_INV_PASS2_CHECK_NAME)), each unit supplies the invariant that fits its statement:
 *   repair  (answer yes)   frame: the name bytes + the ghost log.  Invariant at the ghost byte verif_k (= IN.k, original
 *           value verif_g0): before the first illegal character nothing is logged or changed and the bytes passed are
 *           legal; afterwards exactly one PR_2_BAD_NAME is logged, ret is 1 and every byte passed is the original one
 *           or '.' in place of an illegal one.
 *   detect  (answer no)    frame: NOT the buffer.  The loop cannot get past the witness position verif_g2 (= IN.j)
 *           without having asked; a declined question leaves the function at once.
 *   sound   (any answer)   frame: the loop counter only (not even the ghost log: fix_problem is never called).  The
 *           universally quantified premise "every name byte is legal" is the unrolled spec function p2f_name_ok
 *           evaluated in the harness on the same bytes; the buffer is not in the loop frame, so it is known to be
 *           unchanged in the arbitrary iteration.
 */
#include "p2_pre.h"

#include "p2_name_inv.h"

static int check_name(e2fsck_t ctx, struct ext2_dir_entry *dirent, struct problem_context *pctx)
	REQUIRES(dirent->rec_len >= 12 && (dirent->rec_len & 3) == 0)
	REQUIRES(P2F_NEED(dirent->name_len & 0xff) <= dirent->rec_len)
	ENSURES(RET == 0 || RET == 1)
	ASSIGNS(__CPROVER_object_whole(dirent), P2_GHOST_FRAME);

#include "p2_common.h"

#define P2N_IN_NAME(k) ((k) >= 8 && (k) < 8 + P2F_NL(IN.blk, 0))

/* C01, first half: an accepted repair makes the name legal and touches nothing else */
void h_name_repair(void)
{
	struct p2_world w;
	int r;

	LOAD_IN();
	p2_setup(&w, P2_YES, P2_VIEW_TAIL);
	ASSUME(p2_callsite_ok(IN.blk, w.off));
	verif_k = IN.k;
	verif_g0 = w.b0;

	r = check_name(w.ctx, w.dirent, &w.pctx);
	if (r) REACH("repaired something");
	if (!r) REACH("nothing to repair");
	CHECK(r == (p2_nlog != 0), "answer yes: 'modified' is reported exactly when a problem was raised");
	CHECK(p2_nlog <= 1, "the question is asked once per entry, not once per character");
	CHECK(w.buf[IN.k] == ((P2N_IN_NAME(IN.k) && P2F_BAD_CHAR(w.b0)) ? '.' : w.b0),
	      "every byte: an illegal name character becomes '.', everything else is kept");
	CHECK(!P2N_IN_NAME(IN.k) || !P2F_BAD_CHAR(w.buf[IN.k]), "every name byte is legal afterwards (precondition of p2_check_name_sound)");
	CHECK(r != 0 || w.buf[IN.k] == w.b0, "'not modified' means no byte changed");
	CHECK(p2_callsite_ok(w.buf, w.off), "call-site facts survive the repair");
	REACH("end");
}

/* C02 */
void h_name_detect(void)
{
	struct p2_world w;
	int r;

	LOAD_IN();
	p2_setup(&w, P2_NO, P2_VIEW_TAIL);
	ASSUME(p2_callsite_ok(IN.blk, w.off));
	/* the name is illegal: position IN.j is inside the name and holds '/' or NUL */
	ASSUME(IN.j < P2F_NL(IN.blk, 0) && P2F_BAD_CHAR(P2F_NAME(IN.blk, 0, IN.j)));
	verif_k = IN.k;
	verif_g0 = w.b0;
	verif_g2 = IN.j;
	verif_g3 = 0;

	r = check_name(w.ctx, w.dirent, &w.pctx);
	CHECK(p2_nserious >= 1, "an illegal name raises at least one problem without PR_NO_OK");
	CHECK(r == 0, "everything declined: reported as not modified");
	CHECK(w.buf[IN.k] == w.b0, "everything declined: scan buffer unchanged");
	REACH("end");
}

/* C05 (and second half of C01) */
void h_name_sound(void)
{
	struct p2_world w;
	int r;

	LOAD_IN();
	p2_setup(&w, P2_CHOICE, P2_VIEW_TAIL);
	ASSUME(p2_callsite_ok(IN.blk, w.off));
	ASSUME(p2f_name_ok(IN.blk, 0));
	if (P2F_NL(IN.blk, 0) == 255) REACH("longest name");
	verif_k = IN.k;
	verif_g0 = w.b0;

	r = check_name(w.ctx, w.dirent, &w.pctx);
	CHECK(p2_nlog == 0, "legal name: no problem raised");
	CHECK(r == 0, "legal name: reported as not modified");
	CHECK(w.buf[IN.k] == w.b0, "legal name: no byte of the scan buffer changes");
	REACH("end");
}

/* C01, literal two-run form (unwinding) */
void h_name_converge(void)
{
	struct p2_world w;
	unsigned char b1;
	int r1, r2;

	LOAD_IN();
	p2_setup(&w, P2_YES, P2_VIEW_WINDOW);
	ASSUME(p2_callsite_ok(IN.blk, w.off));

	r1 = check_name(w.ctx, w.dirent, &w.pctx);
	if (r1) REACH("first run repaired something");
	CHECK(r1 == (p2_nlog != 0), "answer yes: 'modified' is reported exactly when a problem was raised");

	b1 = w.buf[IN.k];
	p2_clear_log();
	p2_mode = P2_CHOICE;
	r2 = check_name(w.ctx, w.dirent, &w.pctx);
	CHECK(p2_nlog == 0, "second run raises no problem");
	CHECK(r2 == 0, "second run reports 'not modified'");
	CHECK(w.buf[IN.k] == b1, "second run leaves every byte of the scan buffer unchanged");
	REACH("end");
}
