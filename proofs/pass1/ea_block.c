/* VERIF-UNIT
{
 "name": "p1x_ea_block_entry_detect",
 "props": ["C02", "C06"],
 "level": "U/iter",
 "tier": "quick",
 "tier_after_hooks": "quick",
 "harness": "h_eab_detect",
 "loop_contracts": true,
 "replace": ["region_allocate", "mark_block_used", "inc_ea_inode_refs"],
 "includes": ["e2fsck", "lib/support"],
 "sources": ["lib/ext2fs/blknum.c"],
 "unwind": 12,
 "cbmc_flags": ["--object-bits", "12", "--slice-formula"],
 "unwind_reason": "check_ext_attr's only loop (the entry walk) is cut by its named anchor VERIF_INV_PASS1_EA_BLOCK_ENTRIES (hooks-pending/p1x.diff); check_large_ea_inode and size_to_quota_blocks are loop-free; inc_ea_inode_refs (its own loop: unit p1x_inc_ea_inode_refs) and mark_block_used are replaced by contracts; the bound serves the DFCC library loops",
 "functions": ["e2fsck/pass1.c:check_ext_attr", "e2fsck/pass1.c:check_large_ea_inode"],
 "assumes": ["NEEDS the hooks in hooks-pending/p1x.diff (named anchors VERIF_INV_PASS1_EA_BLOCK_ENTRIES / VERIF_GHOST_PASS1_EA_BLOCK_ENTRY)",
	     "U/iter: ONE first sighting of an EA block by check_ext_attr; the walk is cut at an ARBITRARY iteration: arbitrary 4-aligned cursor in [32, blocksize], arbitrary block bytes, arbitrary quota sums, arbitrary set of already claimed bytes (observed at one arbitrary ghost byte B); answers of fix_problem arbitrary (-n, -y and everything between)",
	     "the block size is a stand-in of 256 bytes (the code reads it only through fs->blocksize; typed accesses at a symbolic offset cost O(buffer)); the buffer is 3 blocks long as e2fsck_pass1 allocates it ('block iterate buffer'); C06 is stated against that buffer: every dereference of pass1.c (CBMC's pointer checks) and every byte range handed to the hash functions lies inside it",
	     "region_allocate is REPLACED by its contract (p1x_pre.h; REQUIRES n > 0 is checked at all four call sites): out of [0, blocksize) -> -1; a request containing the already-claimed ghost byte -> not 0; e2fsck/region.c itself is proved in fsckds/region*; region_create / region_free are stubs (live handle, freed exactly once)",
	     "ext2fs_ext_attr_hash_entry / _signed / _entry3 are stubs answering an arbitrary but fixed value per entry offset (the real ones are proved against the kernel's definition in parsers/xattr_hash_entry*); e2fsck_read_inode answers arbitrary i_flags / i_mtime / i_generation per inode number; ext2fs_read_ext_attr3 leaves the arbitrary buffer alone and answers 0, EXT2_ET_EXT_ATTR_CSUM_INVALID, EXT2_ET_BAD_EA_HEADER or an I/O error; fatal_error (exit FSCK_ERROR) ends the path",
	     "format violations decided per entry (specs/pass1_ea_format.h, from the kernel's ext4_xattr_check_entries / check_xattrs): entry+name outside the block; local value larger than EXT4_XATTR_SIZE_MAX or (padding included) outside the block; ghost byte B claimed twice (by the header, an earlier entry/value, this entry, this entry's value); entry hash of a local value neither the hash nor its signed-char variant; EA-inode reference without the feature or to an inode number outside [first_ino, inodes_count]. 'entry ends exactly at the block end, no room for the terminator' and 'the terminator word overlaps a value' are answered behind the loop: stated as 'a request outside the region / at the claimed byte B implies a problem that counts'",
	     "NOT covered: e_value_size of an EA-INODE entry is never compared with EXT4_XATTR_SIZE_MAX or the EA inode's i_size by pass 1 (the kernel refuses both); s_first_ino >= 11 as check_super_block guarantees; ext_attr_ver is 1 or 2 (unix.c validates -E ea_ver)"],
 "native": false
}
*/
/* VERIF-UNIT
{
 "name": "p1x_ea_block_entry_sound",
 "props": ["C05", "C06"],
 "level": "U/iter",
 "tier": "wip",
 "tier_after_hooks": "quick",
 "harness": "h_eab_sound",
 "loop_contracts": true,
 "replace": ["region_allocate", "mark_block_used", "inc_ea_inode_refs"],
 "includes": ["e2fsck", "lib/support"],
 "sources": ["lib/ext2fs/blknum.c"],
 "unwind": 12,
 "cbmc_flags": ["--object-bits", "12", "--slice-formula"],
 "unwind_reason": "as p1x_ea_block_entry_detect",
 "functions": ["e2fsck/pass1.c:check_ext_attr", "e2fsck/pass1.c:check_large_ea_inode"],
 "assumes": ["as p1x_ea_block_entry_detect (hooks, 256-byte stand-in block, stubs), ext_attr_ver 2 (the default; the v1 name rules are not part of 'healthy')",
	     "hypothesis of the iteration: the entry at the cursor is HEALTHY (specs/pass1_ea_format.h: fits in front of the terminator, name index 1..8, non-empty name, a non-empty local value lies padded inside the block and not over its own entry, an EMPTY value has e_value_offs <= blocksize (0 as the kernel writes it, or stale), e_hash is the hash or its signed variant; an EA-inode entry names an inode in range that carries EXT4_EA_INODE_FL and whose hash verifies, the feature is on) and none of its regions collides with an earlier one (region monitor hypothesis p1x_rg_noovl: every in-range request is answered 0; no allocation failure)",
	     "statement: such an iteration raises NOTHING (invariant), calls region_allocate only with positive lengths (an attribute with an empty value makes no value request), modifies no byte of the block (ghost byte J) and keeps the walk going; a walk in which nothing was raised (healthy header, block read without error, terminator claimed without collision) ends with return 1, i_file_acl untouched, no inode or block write, the block marked once",
	     "answers of fix_problem arbitrary (a healthy walk asks nothing)"],
 "native": false
}
*/
/*
 * e2fsck/pass1.c: check_ext_attr — the entry walk over a freshly read EA block (first sighting).
 *
 *   C06  arbitrary block bytes: every access stays inside the block buffer.
 *   C02  an entry that violates the xattr block format raises a problem that counts for the exit status; an accepted
 *        PROMPT_CLEAR problem clears the block reference (i_file_acl = 0, inode written, return 0).
 *   C05  a healthy entry raises nothing; region_allocate is only asked for positive lengths.
 */
#include "p1x_pre.h"

#ifndef P1X_CBITS
#define P1X_CBITS 0
#endif

#ifdef P1X_NO_J
#define P1X_INV_J
#else
#define P1X_INV_J __CPROVER_loop_invariant(p1x_any_ever || ((unsigned char *) block_buf)[p1x_J] == p1x_bufJ0)
#endif
unsigned int p1x_fsflags0;
#ifndef P1X_EXPERIMENT
#define P1X_EXPERIMENT 1
#endif
#define P1X_EOFF ((unsigned long long) __CPROVER_POINTER_OFFSET((char *) entry))

/* verdicts of the spec on the entry at the cursor (numbers extracted once, at the top of the body) */

#define P1X_B_IN_ENTRY	PEA_N_BYTE_IN_ENTRY(p1x_rg_B, p1x_off, p1x_e_nl)
#define P1X_B_IN_VALUE	PEA_N_BYTE_IN_VALUE(p1x_rg_B, p1x_e_offs, p1x_e_inum, p1x_e_size, 0u)

/* format violation of the entry at the cursor, decidable inside the iteration */
#define P1X_BLOCK_ENTRY_BAD \
	(PEA_N_ENTRY_OUTSIDE(p1x_off, p1x_e_nl, P1X_BS) || \
	 (p1x_e_inum == 0u && p1x_e_size > PEA_SIZE_MAX) || \
	 (PEA_N_HAS_LOCAL_VALUE(p1x_e_inum, p1x_e_size) && !PEA_N_VALUE_FITS(p1x_e_offs, p1x_e_size, P1X_BS, 0u)) || \
	 (p1x_rg_b0 && (P1X_B_IN_ENTRY || P1X_B_IN_VALUE)) || (P1X_B_IN_ENTRY && P1X_B_IN_VALUE) || \
	 (p1x_e_inum == 0u && !PEA_N_HASH_OK_BLOCK(p1x_e_hash, P1X_HU(p1x_off), P1X_HS(p1x_off))) || \
	 !PEA_N_EA_INUM_OK(p1x_e_inum, p1x_incompat, p1x_first_ino, p1x_inodes_count))

/* healthy entry at the cursor (+ environment hypotheses) */
#define P1X_BLOCK_ENTRY_HEALTHY \
	(p1x_ver == 2u && p1x_rg_noovl && P1X_EXPERIMENT && \
	 PEA_N_ENTRY_HEALTHY(p1x_off, p1x_e_nl, p1x_e_idx, p1x_e_offs, p1x_e_inum, p1x_e_size, P1X_BS, 0u, \
			     p1x_incompat, p1x_first_ino, p1x_inodes_count) && \
	 (p1x_e_inum == 0u ? PEA_N_HASH_OK_BLOCK(p1x_e_hash, P1X_HU(p1x_off), P1X_HS(p1x_off)) \
			   : (P1X_H3ERR(p1x_off) == 0u && \
			      PEA_N_EA_INODE_HEALTHY(P1X_TFLAGS(p1x_e_inum), p1x_e_hash, P1X_H3U(p1x_off), P1X_H3S(p1x_off)))))

#define VERIF_GHOST_PASS1_EA_BLOCK_ENTRY \
	p1x_off = P1X_EOFF; \
	__CPROVER_assert(entry == (struct ext2_ext_attr_entry *) (block_buf + p1x_off), "GHOST: cursor re-assignment is the identity"); \
	entry = (struct ext2_ext_attr_entry *) (block_buf + p1x_off); \
	p1x_e_nl = PEA_E_NAME_LEN(block_buf, p1x_off); p1x_e_idx = PEA_E_NAME_INDEX(block_buf, p1x_off); \
	p1x_e_offs = PEA_E_VALUE_OFFS(block_buf, p1x_off); p1x_e_inum = PEA_E_VALUE_INUM(block_buf, p1x_off); \
	p1x_e_size = PEA_E_VALUE_SIZE(block_buf, p1x_off); p1x_e_hash = PEA_E_HASH(block_buf, p1x_off); \
	p1x_incompat = fs->super->s_feature_incompat; \
	p1x_rg_b0 = p1x_rg_b; \
	p1x_it_raised = 0; p1x_it_any = 0; \
	p1x_it_bad = P1X_BLOCK_ENTRY_BAD ? 1u : 0u; \
	p1x_it_healthy = P1X_BLOCK_ENTRY_HEALTHY ? 1u : 0u; \
	p1x_it_empty = (p1x_e_inum == 0u && p1x_e_size == 0u) ? 1u : 0u;

#define VERIF_INV_PASS1_EA_BLOCK_ENTRIES \
	__CPROVER_assigns(entry, quota_blocks, quota_inodes, pctx->num, __CPROVER_object_whole(block_buf), \
			  fs->super->s_feature_incompat, fs->flags, P1X_GHOSTS) \
	__CPROVER_loop_invariant(__CPROVER_same_object((char *) entry, block_buf) && \
				 P1X_EOFF >= 32u && P1X_EOFF <= P1X_BS && (P1X_EOFF & 3u) == 0u) \
	/* the walk changes the superblock only by switching the ea_inode feature on */ \
	__CPROVER_loop_invariant(fs->super->s_feature_incompat == p1x_incompat0 || \
				 fs->super->s_feature_incompat == (p1x_incompat0 | PEA_INCOMPAT_EA_INODE)) \
	/* an accepted clear leaves the walk at once */ \
	__CPROVER_loop_invariant(p1x_accepted == 0u) \
	/* C02, per iteration: a violating entry has been answered by a problem that counts */ \
	__CPROVER_loop_invariant(!p1x_it_bad || p1x_it_raised) \
	/* C05, per iteration: a healthy entry has raised nothing and the cursor sits behind it, in front of the block end */ \
	__CPROVER_loop_invariant(!p1x_it_healthy || !p1x_it_any) \
	__CPROVER_loop_invariant(!p1x_it_healthy || (P1X_EOFF == p1x_off + PEA_LEN(p1x_e_nl) && P1X_EOFF < P1X_BS)) \
	/* as long as nothing has been raised the block is untouched (ghost byte J) */ \
	P1X_INV_J \
	/* ... and so are superblock and EA inodes */ \
	__CPROVER_loop_invariant(p1x_any_ever || (fs->super->s_feature_incompat == p1x_incompat0 && fs->flags == p1x_fsflags0 && \
						  p1x_wrino_calls == 0u)) \
	/* region monitor: an out-of-range request / a second claim of byte B has been answered by a problem that counts */ \
	__CPROVER_loop_invariant((!p1x_rg_oor && !p1x_rg_dup) || p1x_serious_ever)

/* inc_ea_inode_refs: its own walk, proved in ea_refs.c; here only the arguments are recorded */
static void inc_ea_inode_refs(e2fsck_t ctx, struct problem_context *pctx, struct ext2_ext_attr_entry *first, void *end)
	ASSIGNS(p1x_inc_calls, p1x_inc_first_off, p1x_inc_end_off, p1x_inc_same)
	ENSURES(p1x_inc_calls == OLD(p1x_inc_calls) + 1u)
	ENSURES(p1x_inc_first_off == (unsigned long long) __CPROVER_POINTER_OFFSET((char *) first))
	ENSURES(p1x_inc_end_off == (unsigned long long) __CPROVER_POINTER_OFFSET((char *) end))
	ENSURES(p1x_inc_same == ((__CPROVER_same_object((char *) first, (char *) p1x_buf) &&
				  __CPROVER_same_object((char *) end, (char *) p1x_buf)) ? 1u : 0u));

#include "p1x_post.h"

/* ---- stubs of this file: the first-sighting environment of check_ext_attr ---- */
static char eab_eamap_tag, eab_rc_tag, eab_qb_tag, eab_qi_tag;
unsigned int eab_ea_marks, eab_stray, eab_rc_stores, eab_qb_stores, eab_qi_stores;
unsigned long long eab_rc_val, eab_qb_val, eab_qi_val;
unsigned long long eab_blk;

int ext2fs_test_generic_bmap(ext2fs_generic_bitmap bitmap, __u64 arg)
{
	if ((void *) bitmap != (void *) &eab_eamap_tag || arg != eab_blk) { eab_stray = 1; return 0; }
	return 0;		/* first sighting */
}
int ext2fs_mark_generic_bmap(ext2fs_generic_bitmap bitmap, __u64 arg)
{
	if ((void *) bitmap != (void *) &eab_eamap_tag || arg != eab_blk) { eab_stray = 1; return 0; }
	eab_ea_marks++;
	return 0;
}
errcode_t e2fsck_allocate_block_bitmap(ext2_filsys fs, const char *descr, int default_type, const char *profile_name,
				       ext2fs_block_bitmap *ret)
{
	(void) fs; (void) descr; (void) default_type; (void) profile_name; (void) ret;
	eab_stray = 1;		/* the harness hands out block_ea_map */
	return EXT2_ET_NO_MEMORY;
}
errcode_t ea_refcount_create(size_t size, ext2_refcount_t *ret)
{
	(void) size;
	/* only the quota maps are created on this path */
	*ret = 0;
	return EXT2_ET_NO_MEMORY;
}
errcode_t ea_refcount_store(ext2_refcount_t refcount, ea_key_t key, ea_value_t count)
{
	if (key != eab_blk) eab_stray = 1;
	if ((void *) refcount == (void *) &eab_rc_tag) { eab_rc_stores++; eab_rc_val = count; }
	else if ((void *) refcount == (void *) &eab_qb_tag) { eab_qb_stores++; eab_qb_val = count; }
	else if ((void *) refcount == (void *) &eab_qi_tag) { eab_qi_stores++; eab_qi_val = count; }
	else eab_stray = 1;
	return 0;
}
errcode_t ea_refcount_fetch(ext2_refcount_t refcount, ea_key_t key, ea_value_t *ret)
{
	(void) refcount; (void) key;
	eab_stray = 1;		/* only the "seen before" arm fetches */
	*ret = 0;
	return 0;
}
errcode_t ea_refcount_decrement(ext2_refcount_t refcount, ea_key_t key, ea_value_t *ret)
{
	(void) refcount; (void) key; (void) ret;
	eab_stray = 1;
	return 0;
}
errcode_t ea_refcount_increment(ext2_refcount_t refcount, ea_key_t key, ea_value_t *ret)
{
	(void) refcount; (void) key; (void) ret;
	eab_stray = 1;
	return 0;
}
errcode_t ext2fs_read_ext_attr3(ext2_filsys fs, blk64_t block, void *buf, ext2_ino_t inum)
{
	(void) fs; (void) inum;
	p1x_eard_calls++;
	if (block != eab_blk || buf != (void *) p1x_buf) eab_stray = 1;
	switch (IN.read_err & 3) {
	case 0: return 0;
	case 1: return EXT2_ET_EXT_ATTR_CSUM_INVALID;
	case 2: return EXT2_ET_BAD_EA_HEADER;
	default: return EXT2_ET_SHORT_READ;
	}
}
errcode_t ext2fs_write_ext_attr3(ext2_filsys fs, blk64_t block, void *buf, ext2_ino_t inum)
{
	(void) fs; (void) inum;
	p1x_eawr_calls++;
	if (block != eab_blk || buf != (void *) p1x_buf) eab_stray = 1;
	return (IN.write_err & 1) ? EXT2_ET_SHORT_WRITE : 0;
}

struct eab_env {
	struct e2fsck_struct ctx;
	struct struct_ext2_filsys fs;
	struct ext2_super_block sb;
	struct problem_context pctx;
	struct ea_quota q;
};

static unsigned char eab_inode[P1_ISIZE];

/* first sighting of EA block eab_blk by inode IN.ino; everything the walk reads is set */
static void eab_setup(struct eab_env *e, int noovl)
{
	memset(&e->sb, 0, sizeof(e->sb));
	e->ctx.fs = &e->fs;
	e->ctx.flags = IN.ctxflags;
	e->ctx.options = IN.options;
	e->ctx.block_ea_map = (ext2fs_block_bitmap) &eab_eamap_tag;
	e->ctx.refcount = (ext2_refcount_t) &eab_rc_tag;
	e->ctx.refcount_extra = 0;
	e->ctx.ea_block_quota_blocks = (ext2_refcount_t) &eab_qb_tag;
	e->ctx.ea_block_quota_inodes = (ext2_refcount_t) &eab_qi_tag;
	e->ctx.ea_inode_refs = 0;
	ASSUME(IN.ea_ver == 1 || IN.ea_ver == 2);
	e->ctx.ext_attr_ver = IN.ea_ver;
	e->fs.super = &e->sb;
	e->fs.blocksize = P1X_BS;
	e->fs.cluster_ratio_bits = P1X_CBITS;	/* constant: size_to_quota_blocks divides by blocksize << bits */
	e->fs.flags = p1x_fsflags0 = IN.options & (EXT2_FLAG_RW | EXT2_FLAG_64BITS);
	e->sb.s_first_data_block = IN.first_data_block;
	e->sb.s_blocks_count = (unsigned int) IN.blocks_count;
	e->sb.s_blocks_count_hi = (unsigned int) (IN.blocks_count >> 32);
	e->sb.s_feature_compat = IN.compat | EXT2_FEATURE_COMPAT_EXT_ATTR;
	e->sb.s_feature_incompat = IN.incompat;
	e->sb.s_feature_ro_compat = IN.ro_compat;
	e->sb.s_rev_level = 1;
	ASSUME(IN.first_ino >= 11 && IN.first_ino <= IN.inodes_count);	/* check_super_block */
	e->sb.s_first_ino = IN.first_ino;
	e->sb.s_inodes_count = IN.inodes_count;
	ASSUME(IN.blocks_count < (1ULL << 48));
	if (!(IN.incompat & EXT4_FEATURE_INCOMPAT_64BIT))
		ASSUME(IN.file_acl < (1ULL << 32) && IN.blocks_count < (1ULL << 32));
	ASSUME(IN.file_acl < (1ULL << 48));
	ASSUME(IN.file_acl != 0 && P1F_BLOCK_IN_RANGE(IN.file_acl, IN.first_data_block, IN.blocks_count));
	eab_blk = IN.file_acl;
	memcpy(eab_inode, IN.inode, P1_ISIZE);
	((struct ext2_inode *) eab_inode)->i_file_acl = (unsigned int) IN.file_acl;
	((struct ext2_inode *) eab_inode)->osd2.linux2.l_i_file_acl_high = (unsigned short) (IN.file_acl >> 32);
	memset(&e->pctx, 0, sizeof(e->pctx));
	e->pctx.ino = IN.ino;
	e->pctx.inode = (struct ext2_inode *) eab_inode;
	memcpy(p1x_buf, IN.buf, P1X_BUFSZ);
	p1x_ghost_reset(P1_CHOICE);
	eab_ea_marks = eab_stray = eab_rc_stores = eab_qb_stores = eab_qi_stores = 0;
	eab_rc_val = eab_qb_val = eab_qi_val = 0;
	p1x_rg_noovl = noovl;
	p1x_rg_B = noovl ? ~0ULL : IN.B;
	ASSUME(IN.J < P1X_BUFSZ);
	p1x_J = IN.J;
	p1x_bufJ0 = p1x_buf[p1x_J];
	p1x_first_ino = IN.first_ino;
	p1x_inodes_count = IN.inodes_count;
	p1x_ver = IN.ea_ver;
	p1x_incompat = p1x_incompat0 = IN.incompat;
}

/* the part of the statement that is the same for every walk */
static void eab_common_checks(struct eab_env *e, int r)
{
	struct ext2_inode *ino = (struct ext2_inode *) eab_inode;

	CHECK(!eab_stray, "only the EA block's own cells of the maps are touched");
	CHECK(p1x_rg_creates == 0 || p1x_rg_live == 0 || (IN.region_fail & 1), "the region is freed on every path (no leak)");
	/* C02: whatever the monitor saw go wrong was answered */
	CHECK((!p1x_rg_oor && !p1x_rg_dup) || p1x_serious_ever,
	      "a region request outside the block / at an already claimed byte raises a problem that counts");
	CHECK(!p1x_it_bad || p1x_it_raised, "a format-violating entry raises a problem that counts");
	/* accepted clear */
	if (p1x_accepted) {
		CHECK(r == 0, "accepted clear: no EA block is reported");
		CHECK(ino->i_file_acl == 0 && ino->osd2.linux2.l_i_file_acl_high == 0, "accepted clear: i_file_acl is zeroed");
		CHECK(p1_wr_calls >= 1 && p1_wr_ino == IN.ino &&
		      ((struct ext2_inode *) p1_disk)->i_file_acl == 0 && ((struct ext2_inode *) p1_disk)->osd2.linux2.l_i_file_acl_high == 0,
		      "accepted clear: the inode reaches the disk without the reference");
		CHECK(p1x_mbu_calls == 0 && eab_ea_marks == 0, "accepted clear: the block is not recorded as used");
	}
	if (r == 1) {
		CHECK(p1x_mbu_calls == 1 && p1x_mbu_blk == eab_blk && eab_ea_marks == 1, "kept block: marked used exactly once");
		CHECK(p1x_inc_calls == 1 && p1x_inc_same && p1x_inc_first_off == 32 && p1x_inc_end_off == P1X_BS,
		      "kept block: EA-inode references counted over [first entry, block end)");
		CHECK(ino->i_file_acl == (unsigned int) IN.file_acl, "kept block: reference untouched");
		/* first sighting: this inode is one of the h_refcount expected references */
		CHECK(eab_rc_stores == 1 && eab_rc_val == (unsigned long long) (PEA_H_REFCOUNT(p1x_buf) - 1u),
		      "kept block: expected further references = h_refcount - 1, stored once");
	}
	/* a clean walk found its terminator inside the block */
	if (r == 1 && !p1x_any_ever)
		CHECK(p1x_rg_last_n == 4 && p1x_rg_last_start + 4 <= P1X_BS && p1x_rg_last_start >= 32,
		      "clean walk: the terminator word lies inside the block");
}

void h_eab_detect(void)
{
	struct eab_env e;
	int r;

	LOAD_IN();
	eab_setup(&e, 0);

	r = check_ext_attr(&e.ctx, &e.pctx, (char *) p1x_buf, &e.q);

	eab_common_checks(&e, r);
	if (p1x_any_ever && p1_nlog >= 1 && p1_log[0] == PR_1_EA_BAD_NAME)
		REACH("a problem is raised inside the walk");
	if (p1x_any_ever && p1_nlog >= 1 && p1_log[0] == PR_1_ATTR_VALUE_EA_INODE)
		REACH("an EA-inode verdict is raised inside the walk");
	if (p1x_accepted)
		REACH("accepted clear");
	REACH("end");
}

void h_eab_sound(void)
{
	struct eab_env e;
	int r;

	LOAD_IN();
	eab_setup(&e, 1);
	ASSUME(IN.ea_ver == 2);
	/* healthy surroundings: block read without error, healthy header */
	ASSUME((IN.read_err & 3) == 0 && !(IN.region_fail & 1));
	ASSUME(PEA_BLOCK_HEADER_OK(IN.buf));

	r = check_ext_attr(&e.ctx, &e.pctx, (char *) p1x_buf, &e.q);

	eab_common_checks(&e, r);
	CHECK(!p1x_it_healthy || !p1x_it_any, "a healthy entry raises nothing");
	if (!p1x_any_ever) {
		CHECK(r == 1, "clean walk: the block is kept");
		CHECK(p1_wr_calls == 0 && p1x_eawr_calls == 0 && p1x_wrino_calls == 0, "clean walk: nothing is written");
		CHECK(p1x_buf[p1x_J] == p1x_bufJ0, "clean walk: the block is untouched");
		CHECK(e.fs.flags == p1x_fsflags0 && e.sb.s_feature_incompat == IN.incompat, "clean walk: the superblock is untouched");
		CHECK(((struct ext2_inode *) eab_inode)->i_flags == ((struct ext2_inode *) IN.inode)->i_flags,
		      "clean walk: the inode is untouched");
		REACH("clean walk");
	}
	REACH("end");
}
