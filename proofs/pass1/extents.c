/* VERIF-UNIT
{
 "name": "p1_scan_extent_leaf_detect",
 "props": ["C02"],
 "level": "U/iter",
 "tier": "quick",
 "harness": "h_se_detect",
 "replace": ["mark_blocks_used"],
 "includes": ["e2fsck", "lib/support"],
 "sources": ["lib/ext2fs/blknum.c"],
 "unwind": 2,
 "unwind_reason": "U/iter by construction: the node handed to scan_extent_node has exactly ONE entry left (ext2fs_extent_get_info stub: num_entries == 1), so the per-extent loop body runs once and the unwinding assertion proves it; all state the body reads (struct process_block_struct, start_block/end_block/eof_block, the extent) is arbitrary, i.e. the state of an arbitrary iteration. Interior-node arm (recursion) not taken: the entry is a leaf",
 "functions": ["e2fsck/pass1.c:scan_extent_node"],
 "assumes": ["ONE leaf extent (lblk, len, pblk, uninit flag: arbitrary decoded values delivered by the ext2fs_extent_get stub) of a regular file (not a directory: the dblist loops are not entered), cluster ratio 1; try_repairs == 1 (top-level call of check_blocks_extents); e2fsck -n",
	     "format predicate P1F_LEAF_EXTENT_FORMAT_OK (length, physical range, order; the logical-range rule lblk+len <= 2^32 is the subject of p1_scan_extent_leaf_lblk_wrap) with prev_end = max(start_block, pb->next_lblock): start_block is the logical start the parent promises for the node / the previous extent's last block, next_lblock the end of the logical range covered by earlier leaves",
	     "ext2fs_extent_* (lib/ext2fs/extent.c) are stubs with ghost call counters and arbitrary error results; mark_blocks_used is replaced by a contract recording (calls, block, num); fix_problem is the logging stub; no contract enforced"],
 "native": false
}
*/
/* VERIF-UNIT
{
 "name": "p1_scan_extent_leaf_lblk_wrap",
 "props": ["C02"],
 "level": "U/iter",
 "tier": "quick",
 "tier_after_fix": "quick",
 "harness": "h_se_detect",
 "defines": ["SE_WRAP"],
 "replace": ["mark_blocks_used"],
 "includes": ["e2fsck", "lib/support"],
 "sources": ["lib/ext2fs/blknum.c"],
 "unwind": 2,
 "unwind_reason": "as p1_scan_extent_leaf_detect",
 "functions": ["e2fsck/pass1.c:scan_extent_node"],
 "assumes": ["as p1_scan_extent_leaf_detect, for an extent whose ONLY defect is the logical-range rule: lblk + len > 2^32 (kernel ext4_valid_extent: lblock + len - 1 >= lblock in 32-bit arithmetic)",
	     "FAILS on the pinned tree: findings/C02_p1_extent_lblk_wrap (scan_extent_node never compares lblk+len with 2^32; e2fsck -fn exits 0 on a file the kernel refuses with 'invalid extent entries'); passes with the proposed fix"],
 "native": false
}
*/
/* VERIF-UNIT
{
 "name": "p1_scan_extent_leaf_repair",
 "props": ["C01"],
 "level": "U/iter",
 "tier": "quick",
 "harness": "h_se_repair",
 "replace": ["mark_blocks_used"],
 "includes": ["e2fsck", "lib/support"],
 "sources": ["lib/ext2fs/blknum.c"],
 "unwind": 2,
 "unwind_reason": "as p1_scan_extent_leaf_detect",
 "functions": ["e2fsck/pass1.c:scan_extent_node"],
 "assumes": ["as p1_scan_extent_leaf_detect but e2fsck -y; statement: an extent violating the predicate is removed (ext2fs_extent_delete called exactly once, before the handle is moved), the bitmaps are read first, the inode is flagged modified, none of its blocks is recorded or counted; a failing delete/fix_parents is reported through pctx->errcode; when the on-disk bitmaps are known to be invalid the removal is postponed (E2F_FLAG_RESTART_LATER). That the NEXT run finds the remaining extents healthy is not a per-extent statement"],
 "native": false
}
*/
/* VERIF-UNIT
{
 "name": "p1_scan_extent_leaf_sound",
 "props": ["C05", "C02"],
 "level": "U/iter",
 "tier": "quick",
 "harness": "h_se_sound",
 "replace": ["mark_blocks_used"],
 "includes": ["e2fsck", "lib/support"],
 "sources": ["lib/ext2fs/blknum.c"],
 "unwind": 2,
 "unwind_reason": "as p1_scan_extent_leaf_detect",
 "functions": ["e2fsck/pass1.c:scan_extent_node"],
 "assumes": ["as p1_scan_extent_leaf_detect, answers arbitrary; the extent satisfies the predicate and ends inside the range its parent index allots (end_block == 0 at the root, else lblk+len-1 <= end_block; extents past EOF that are unwritten or belong to a verity file are allowed beyond it, as the format says); no checksum failure pending on the node",
	     "statement: nothing raised, nothing modified (no delete/replace, inode_modified unchanged), the extent's blocks are handed to mark_blocks_used exactly once as one range [pblk, pblk+len) and counted: num_blocks += len; next_lblock advances to lblk+len"],
 "native": false
}
*/
/* VERIF-UNIT
{
 "name": "p1_scan_extent_dir_sound_B3",
 "props": ["C05", "C02"],
 "level": "B(3)",
 "tier": "quick",
 "harness": "h_se_dir",
 "defines": ["SE_DIR"],
 "replace": ["mark_blocks_used"],
 "includes": ["e2fsck", "lib/support"],
 "sources": ["lib/ext2fs/blknum.c"],
 "unwind": 5,
 "unwind_reason": "BOUNDED stand-in: extents of at most 3 blocks (the loop that queues one directory-block-list entry per block runs e_len <= 32768 times; a loop contract on it needs a contract on the enclosing per-extent loop as well — DFCC checks the inner loop's assigns against the write set of the enclosing loop, which only exists when that loop carries a contract — and that would move the whole per-extent statement into ghost monitors)",
 "functions": ["e2fsck/pass1.c:scan_extent_node"],
 "assumes": ["as p1_scan_extent_leaf_sound for a DIRECTORY inode: healthy leaf extent of 1..3 blocks, written (not UNINIT), no gap in front of it (lblk <= last_block + 1: otherwise PR_1_COLLAPSE_DBLOCK is offered), no hole to fill in the directory block list, below the directory size limit (lblk+len <= 2^(21 - log_block_size) unless largedir / i_size_high)",
	     "ext2fs_add_dir_block2 is a stub that succeeds and records, for ONE arbitrary offset q < len, how often (pblk+q, lblk+q) was queued, and whether anything that is not a block of this extent (other than a 0 hole filler) was queued",
	     "statement: in addition to p1_scan_extent_leaf_sound, every block of the extent is queued for pass 2 exactly once with its logical number"],
 "native": false
}
*/
/*
 * e2fsck/pass1.c:scan_extent_node — one leaf extent.  Format predicate: specs/pass1_format.h ("one leaf extent").
 */
struct in_se {
	unsigned long long pblk, lblk;
	unsigned int len;
	unsigned char uninit;
	unsigned long long pblk2, lblk2;	/* whatever the handle points at afterwards */
	unsigned int len2, flags2;
	unsigned long long start_block, end_block, eof_block;
	unsigned int first_data_block;
	unsigned long long blocks_count;
	unsigned int log_block_size, incompat, options, ctxflags, i_flags, i_size_high;
	int invalid_bitmaps;
	/* arbitrary walk state */
	unsigned long long num_blocks, last_block, previous_block, next_lblock;
	long long last_init_lblock, last_db_block;
	unsigned char inode_modified, force_rebuild, fragmented;
	int curr_level, max_entries;
	unsigned char csum_pending;
	unsigned char err_info, err_get1, err_get2, err_delete, err_fix, err_replace;
	unsigned int ino;
	unsigned int q;			/* ghost: an offset into the extent ("for every block of it") */
	unsigned char mode;
	unsigned char choice[8];
};
struct in_se IN;
#include "verif_in.h"
#include "p1_pre.h"

/* ghost registers written by the ext2fs_add_dir_block2 stub */
unsigned int se_adb, se_adb_q;
unsigned char se_adb_bad;

#include "p1_common.h"

/* ---- ghost monitors ---- */
static char se_handle_tag, se_found_tag, se_meta_tag, se_dblist_tag;
unsigned int se_gets, se_deletes, se_delete_at_get, se_fixes, se_replaces, se_gotos, se_readbm, se_readbm_at_delete;
unsigned int se_mbu_calls;
unsigned long long se_mbu_block;
unsigned int se_mbu_num;
unsigned char se_stray;

static void mark_blocks_used(e2fsck_t ctx, blk64_t block, unsigned int num)
	ASSIGNS(se_mbu_calls, se_mbu_block, se_mbu_num)
	ENSURES(se_mbu_calls == OLD(se_mbu_calls) + 1 && se_mbu_block == block && se_mbu_num == num);

errcode_t ext2fs_extent_get_info(ext2_extent_handle_t handle, struct ext2_extent_info *info)
{
	if ((void *) handle != (void *) &se_handle_tag) se_stray = 1;
	if (IN.err_info)
		return EXT2_ET_MAGIC_EXTENT_HANDLE;
	memset(info, 0, sizeof(*info));
	info->num_entries = 1;			/* exactly one entry left: the body runs once */
	info->max_entries = IN.max_entries;
	info->curr_level = IN.curr_level;
	return 0;
}
errcode_t ext2fs_extent_get(ext2_extent_handle_t handle, int flags, struct ext2fs_extent *extent)
{
	(void) flags;
	if ((void *) handle != (void *) &se_handle_tag) se_stray = 1;
	se_gets++;
	if (se_gets == 1) {
		extent->e_pblk = IN.pblk;
		extent->e_lblk = IN.lblk;
		extent->e_len = IN.len;
		extent->e_flags = EXT2_EXTENT_FLAGS_LEAF;
		if (IN.uninit)
			extent->e_flags = EXT2_EXTENT_FLAGS_LEAF | EXT2_EXTENT_FLAGS_UNINIT;
		return IN.err_get1 ? EXT2_ET_EXTENT_CSUM_INVALID : 0;
	}
	extent->e_pblk = IN.pblk2;
	extent->e_lblk = IN.lblk2;
	extent->e_len = IN.len2;
	extent->e_flags = IN.flags2;
	return IN.err_get2 == 0 ? 0 : IN.err_get2 == 1 ? EXT2_ET_EXTENT_NO_NEXT : IN.err_get2 == 2 ? EXT2_ET_NO_CURRENT_NODE :
	       EXT2_ET_EXTENT_CSUM_INVALID;
}
errcode_t ext2fs_extent_delete(ext2_extent_handle_t handle, int flags)
{
	(void) flags;
	if ((void *) handle != (void *) &se_handle_tag) se_stray = 1;
	se_deletes++;
	se_delete_at_get = se_gets;
	se_readbm_at_delete = se_readbm;
	return IN.err_delete ? EXT2_ET_NO_CURRENT_NODE : 0;
}
errcode_t ext2fs_extent_fix_parents(ext2_extent_handle_t handle)
{
	(void) handle;
	se_fixes++;
	return IN.err_fix == 0 ? 0 : IN.err_fix == 1 ? EXT2_ET_NO_CURRENT_NODE : EXT2_ET_SHORT_WRITE;
}
errcode_t ext2fs_extent_replace(ext2_extent_handle_t handle, int flags, struct ext2fs_extent *extent)
{
	(void) handle; (void) flags; (void) extent;
	se_replaces++;
	return IN.err_replace ? EXT2_ET_SHORT_WRITE : 0;
}
errcode_t ext2fs_extent_goto(ext2_extent_handle_t handle, blk64_t blk)
{
	(void) handle; (void) blk;
	se_gotos++;
	return 0;
}
void e2fsck_read_bitmaps(e2fsck_t ctx) { (void) ctx; se_readbm++; }
errcode_t ext2fs_add_dir_block2(ext2_dblist dblist, ext2_ino_t ino, blk64_t blk, e2_blkcnt_t blockcnt)
{
	(void) dblist; (void) ino;
	se_adb++;
	if (blk == IN.pblk + IN.q && (unsigned long long) blockcnt == IN.lblk + IN.q)
		se_adb_q++;
	else if (blk != 0 && (blk < IN.pblk || blk - IN.pblk >= IN.len || (unsigned long long) blockcnt - IN.lblk != blk - IN.pblk))
		se_adb_bad = 1;		/* something that is not a block of this extent */
	return 0;
}
/* only reachable from the interior-node arm / misaligned clusters, which these harnesses exclude */
int ext2fs_test_generic_bmap(ext2fs_generic_bitmap bitmap, __u64 arg) { (void) bitmap; (void) arg; se_stray = 1; return 0; }
int ext2fs_mark_generic_bmap(ext2fs_generic_bitmap bitmap, __u64 arg) { (void) bitmap; (void) arg; se_stray = 1; return 0; }
errcode_t e2fsck_allocate_block_bitmap(ext2_filsys fs, const char *descr, int default_type, const char *profile_name,
				       ext2fs_block_bitmap *ret)
{
	(void) fs; (void) descr; (void) default_type; (void) profile_name; (void) ret;
	se_stray = 1;
	return EXT2_ET_NO_MEMORY;
}

struct se_world {
	e2fsck_t ctx;
	ext2_filsys fs;
	struct ext2_super_block *sb;
	struct ext2_inode *inode;
	struct problem_context pctx;
	struct process_block_struct pb;
};

static void se_setup(struct se_world *w, int mode)
{
	w->ctx = malloc(sizeof(*w->ctx));
	w->fs = malloc(sizeof(*w->fs));
	w->sb = malloc(sizeof(*w->sb));
	w->inode = malloc(128);
	ASSUME(w->ctx && w->fs && w->sb && w->inode);
	memset(w->sb, 0, sizeof(*w->sb));
	memset(w->inode, 0, 128);
#ifdef SE_DIR
	w->inode->i_mode = LINUX_S_IFDIR | 0755;
#else
	w->inode->i_mode = LINUX_S_IFREG | 0644;
#endif
	w->inode->i_flags = IN.i_flags | EXT4_EXTENTS_FL;
	w->inode->i_size_high = IN.i_size_high;
	w->ctx->fs = w->fs;
	w->ctx->options = IN.options & ~E2F_OPT_FRAGCHECK;
	if (mode == P1_NO) w->ctx->options |= E2F_OPT_NO; else w->ctx->options &= ~E2F_OPT_NO;
	w->ctx->flags = IN.ctxflags;
	w->ctx->invalid_bitmaps = IN.invalid_bitmaps;
	w->ctx->block_found_map = (ext2fs_block_bitmap) &se_found_tag;
	w->ctx->block_metadata_map = (ext2fs_block_bitmap) &se_meta_tag;
	w->ctx->block_dup_map = 0;
	w->fs->super = w->sb;
	w->fs->dblist = (ext2_dblist) &se_dblist_tag;
	w->fs->cluster_ratio_bits = 0;
	ASSUME(IN.log_block_size <= 6);
	w->sb->s_log_block_size = IN.log_block_size;
	w->sb->s_first_data_block = IN.first_data_block;
	w->sb->s_blocks_count = (unsigned int) IN.blocks_count;
	w->sb->s_blocks_count_hi = (unsigned int) (IN.blocks_count >> 32);
	w->sb->s_feature_incompat = IN.incompat | EXT4_FEATURE_INCOMPAT_64BIT | EXT3_FEATURE_INCOMPAT_EXTENTS;
	memset(&w->pctx, 0, sizeof(w->pctx));
	w->pctx.ino = IN.ino;
	w->pctx.inode = w->inode;
	w->pctx.errcode = IN.csum_pending ? EXT2_ET_EXTENT_CSUM_INVALID : 0;
	memset(&w->pb, 0, sizeof(w->pb));
	w->pb.ino = IN.ino;
#ifdef SE_DIR
	w->pb.is_dir = 1;
#else
	w->pb.is_reg = 1;
#endif
	w->pb.num_blocks = IN.num_blocks;
	w->pb.last_block = IN.last_block;
	w->pb.previous_block = IN.previous_block;
	w->pb.next_lblock = IN.next_lblock;
	w->pb.last_init_lblock = IN.last_init_lblock;
	w->pb.last_db_block = IN.last_db_block;
	w->pb.inode_modified = IN.inode_modified & 1;
	w->pb.fragmented = IN.fragmented & 1;
	w->pb.eti.force_rebuild = IN.force_rebuild & 1;
	w->pb.inode = w->inode;
	w->pb.pctx = &w->pctx;
	w->pb.ctx = w->ctx;
	ASSUME(IN.ino != EXT2_RESIZE_INO);
	ASSUME(IN.num_blocks < (1ULL << 62));
	ASSUME(IN.curr_level >= 0);		/* lib/ext2fs/extent.c: handle->level, 0 .. max_depth */
	/* decoded on-disk values: 32-bit logical block, 15/16-bit length, 48-bit physical block */
	ASSUME(IN.lblk < (1ULL << 32) && IN.len <= 32768 && IN.pblk < (1ULL << 48));
	ASSUME(IN.next_lblock <= (1ULL << 33) && IN.start_block <= (1ULL << 33));
	se_gets = se_deletes = se_delete_at_get = se_fixes = se_replaces = se_gotos = se_readbm = se_readbm_at_delete = se_adb = se_adb_q = 0;
	se_adb_bad = 0;
	ASSUME(IN.last_db_block >= -1 && IN.last_db_block < (1LL << 40));
	se_mbu_calls = 0; se_mbu_block = 0; se_mbu_num = 0;
	se_stray = 0;
	p1_ghost_reset(mode);
}

#define SE_PREV_END() (IN.start_block > IN.next_lblock ? IN.start_block : IN.next_lblock)
#define SE_FORMAT_OK() \
	P1F_LEAF_EXTENT_FORMAT_OK(IN.lblk, IN.len, IN.pblk, IN.first_data_block, IN.blocks_count, SE_PREV_END())
#define SE_FORMAT_OK_BUT_WRAP() \
	P1F_LEAF_EXTENT_FORMAT_OK_BUT_WRAP(IN.lblk, IN.len, IN.pblk, IN.first_data_block, IN.blocks_count, SE_PREV_END())
#ifdef SE_WRAP
/* the only thing wrong is the logical range */
#define SE_VIOLATION() (SE_FORMAT_OK_BUT_WRAP() && !P1F_EXTENT_LOGICAL_OK(IN.lblk, IN.len))
#else
/* length, physical range or order is wrong (the logical-range rule may or may not hold) */
#define SE_VIOLATION() (!SE_FORMAT_OK_BUT_WRAP())
#endif

/* C02 */
void h_se_detect(void)
{
	struct se_world w;

	LOAD_IN();
	se_setup(&w, P1_NO);
	ASSUME(!IN.err_info);
	ASSUME(SE_VIOLATION());

	scan_extent_node(w.ctx, &w.pctx, &w.pb, IN.start_block, IN.end_block, IN.eof_block,
			 (ext2_extent_handle_t) &se_handle_tag, 1);
	CHECK(p1_nserious >= 1, "a leaf extent violating the format predicate raises a problem that counts for the exit status");
	CHECK(p1_logged(PR_1_EXTENT_BAD_START_BLK) || p1_logged(PR_1_OUT_OF_ORDER_EXTENTS) || p1_logged(PR_1_EXTENT_END_OUT_OF_BOUNDS) ||
	      p1_logged(PR_1_EXTENT_LENGTH_ZERO) || p1_logged(PR_1_EXTENT_ENDS_BEYOND) || p1_logged(PR_1_EXTENT_COLLISION),
	      "namely one of the extent problems");
	CHECK(se_mbu_calls == 0 && w.pb.num_blocks == IN.num_blocks, "the blocks of a bad extent are neither recorded nor counted");
	CHECK(se_deletes == 0 && se_replaces == 0 && w.pb.inode_modified == (IN.inode_modified & 1), "declined: nothing is modified");
	CHECK(!se_stray, "no bitmap is touched directly");
	REACH("end");
}

/* C01 */
void h_se_repair(void)
{
	struct se_world w;

	LOAD_IN();
	se_setup(&w, P1_YES);
	ASSUME(!IN.err_info);
	ASSUME(!SE_FORMAT_OK_BUT_WRAP());

	scan_extent_node(w.ctx, &w.pctx, &w.pb, IN.start_block, IN.end_block, IN.eof_block,
			 (ext2_extent_handle_t) &se_handle_tag, 1);
	CHECK(p1_nserious >= 1, "raised");
	CHECK(se_mbu_calls == 0 && w.pb.num_blocks == IN.num_blocks, "the blocks of the bad extent are neither recorded nor counted");
	if (IN.invalid_bitmaps) {
		REACH("bitmaps known to be invalid");
		CHECK(se_deletes == 0 && (w.ctx->flags & E2F_FLAG_RESTART_LATER), "removal postponed, restart scheduled");
	} else {
		REACH("removed");
		CHECK(se_deletes == 1 && se_delete_at_get == 1, "accepted: exactly this extent is removed (delete before the handle moves)");
		CHECK(se_readbm_at_delete >= 1, "the on-disk bitmaps are read before blocks are released");
		CHECK(w.pb.inode_modified, "the inode is flagged modified");
		CHECK(!IN.err_delete || w.pctx.errcode != 0, "a failing delete is reported");
		CHECK(IN.err_delete || IN.err_fix != 2 || w.pctx.errcode != 0, "a failing parent fix-up is reported");
	}
	REACH("end");
}

/* C05 + C02 */
void h_se_sound(void)
{
	struct se_world w;
	unsigned long long last;

	LOAD_IN();
	se_setup(&w, P1_CHOICE);
	ASSUME(!IN.err_info && !IN.err_get1 && !IN.csum_pending);
	ASSUME(IN.err_get2 <= 2);	/* moving on finds a sibling, the end of the node, or nothing: no checksum failure pending */
	ASSUME(SE_FORMAT_OK());
	last = IN.lblk + IN.len - 1;
	ASSUME(IN.end_block == 0 || last <= IN.end_block ||
	       (last > IN.eof_block && (IN.uninit || (IN.i_flags & EXT4_VERITY_FL))));

	scan_extent_node(w.ctx, &w.pctx, &w.pb, IN.start_block, IN.end_block, IN.eof_block,
			 (ext2_extent_handle_t) &se_handle_tag, 1);
	CHECK(p1_nlog == 0, "healthy extent: no problem raised");
	CHECK(se_deletes == 0 && se_replaces == 0 && se_fixes == 0 && w.pb.inode_modified == (IN.inode_modified & 1),
	      "healthy extent: nothing modified");
	CHECK(se_mbu_calls == 1 && se_mbu_block == IN.pblk && se_mbu_num == IN.len,
	      "its blocks [pblk, pblk+len) are recorded exactly once");
	CHECK(w.pb.num_blocks == IN.num_blocks + IN.len, "and counted: num_blocks += len");
	CHECK(w.pb.next_lblock == IN.lblk + IN.len, "the covered logical range advances to lblk+len");
	CHECK(w.pctx.errcode == 0 || IN.err_get2 == 2, "no error left behind (end of node is not an error)");
	CHECK(!se_stray && se_adb == 0, "no bitmap touched directly, no directory block queued for a regular file");
	REACH("end");
}


/* C05 + C02, directory (bounded) */
void h_se_dir(void)
{
	struct se_world w;
	unsigned long long last;

	LOAD_IN();
	se_setup(&w, P1_CHOICE);
	ASSUME(!IN.err_info && !IN.err_get1 && !IN.csum_pending);
	ASSUME(IN.err_get2 <= 2);
	ASSUME(SE_FORMAT_OK());
	ASSUME(IN.len <= 3);							/* the bound */
	last = IN.lblk + IN.len - 1;
	ASSUME(IN.end_block == 0 || last <= IN.end_block);
	ASSUME(!IN.uninit);
	ASSUME(IN.lblk <= IN.last_block + 1);		/* no gap in front of it (check_blocks starts with last_block = ~0) */
	ASSUME(IN.i_size_high || (IN.incompat & EXT4_FEATURE_INCOMPAT_LARGEDIR) ||
	       IN.lblk + IN.len <= (1ULL << (21 - IN.log_block_size)));
	ASSUME(IN.q < IN.len);
	ASSUME(IN.last_db_block + 1 >= (long long) IN.lblk);		/* no hole to fill in the directory block list */

	scan_extent_node(w.ctx, &w.pctx, &w.pb, IN.start_block, IN.end_block, IN.eof_block,
			 (ext2_extent_handle_t) &se_handle_tag, 1);
	CHECK(p1_nlog == 0, "healthy directory extent: no problem raised");
	CHECK(se_deletes == 0 && se_replaces == 0 && se_fixes == 0 && w.pb.inode_modified == (IN.inode_modified & 1),
	      "healthy directory extent: nothing modified");
	CHECK(se_mbu_calls == 1 && se_mbu_block == IN.pblk && se_mbu_num == IN.len, "its blocks are recorded exactly once");
	CHECK(w.pb.num_blocks == IN.num_blocks + IN.len, "and counted");
	CHECK(se_adb_q == 1, "every block of the extent is queued for pass 2 exactly once, under its logical block number");
	CHECK(!se_adb_bad && se_adb == IN.len, "nothing but the extent's blocks is queued");
	CHECK(!se_stray, "no bitmap touched directly");
	REACH("end");
}
