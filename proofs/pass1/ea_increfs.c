/* VERIF-UNIT
{
 "name": "p1x_inc_ea_inode_refs",
 "props": ["C02", "C06"],
 "level": "U/iter",
 "tier": "quick",
 "tier_after_hooks": "quick",
 "harness": "h_increfs",
 "loop_contracts": true,
 "includes": ["e2fsck", "lib/support"],
 "unwind": 12,
 "cbmc_flags": ["--object-bits", "12", "--slice-formula"],
 "exclude": [{"match": "pointer outside object bounds in (void *)np",
	      "reason": "np = EXT2_EXT_ATTR_NEXT(entry) is formed and compared with `end` BEFORE it is known to lie inside the buffer (it can point up to 271 bytes behind `end`, i.e. behind the inode buffer in the in-inode case): undefined pointer arithmetic by the letter of C, but no memory is accessed through it (every dereference is proved to stay below `end`) - outside C06's 'out-of-bounds access'; observation only"}],
 "unwind_reason": "inc_ea_inode_refs' only loop is cut by its named anchor VERIF_INV_PASS1_INC_EA_INODE_REFS (hooks-pending/p1x.diff); alloc_ea_inode_refs is loop-free; the bound serves the DFCC library loops",
 "functions": ["e2fsck/pass1.c:inc_ea_inode_refs", "e2fsck/pass1.c:alloc_ea_inode_refs"],
 "assumes": ["NEEDS the hooks in hooks-pending/p1x.diff (named anchors VERIF_INV_PASS1_INC_EA_INODE_REFS / VERIF_GHOST_PASS1_INC_EA_INODE_REFS)",
	     "U/iter: ONE call over ARBITRARY bytes; call-site guarantees (check_ext_attr: first = block + 32, end = block + blocksize; check_ea_in_inode: first = header + 4, end = inode end, area larger than 4 bytes): first < end, both 4-aligned relative to each other, same buffer; the buffer ENDS at `end` (the in-inode case: C06 is stated against exactly [.., end)); the walk is cut at an arbitrary iteration (arbitrary aligned cursor below end, np = cursor + EXT2_EXT_ATTR_LEN(name length there))",
	     "ea_refcount_fetch / ea_refcount_store / ea_refcount_create are stubs over ONE cell (key = an arbitrary ghost inode number K; e2fsck/ea_refcount.c is proved in fsckds/ea_*); other keys fetch arbitrary values",
	     "statement per iteration: an entry with e_value_inum == K != 0 moves K's cell from c to c + 1 (from EA_INODE_NO_REFS, the 'seen as EA inode, no reference yet' mark, to 1) with exactly one store; any other entry leaves the cell alone; a failed creation of the map raises the fatal PR_1_ALLOCATE_REFCOUNT, sets E2F_FLAG_ABORT and ends the walk; nothing of the buffer is written (not in the loop's frame)"],
 "native": false
}
*/
/*
 * e2fsck/pass1.c: inc_ea_inode_refs — one reference per entry that names an EA inode (pass 4 compares the sums with the
 * EA inodes' stored reference counts).
 */
#include "p1x_pre.h"

#define p1x_refs_cell	p1x_g.refs_cell
#define p1x_refs_stores	p1x_g.refs_stores
#define p1x_refs_stray	p1x_g.refs_stray
#define p1x_refs_created p1x_g.refs_created
unsigned long long p1x_K;		/* ghost inode number (harness constant) */
unsigned long long p1x_end_off;		/* offset of `end` in p1x_buf (harness constant) */
/* snapshot at the top of the body */
#define p1x_cell0	p1x_g.rg.last_start
#define p1x_stores0	p1x_g.rg.last_n

#define P1X_EOFF  ((unsigned long long) __CPROVER_POINTER_OFFSET((char *) entry))
#define P1X_NPOFF ((unsigned long long) __CPROVER_POINTER_OFFSET((char *) np))
#define P1X_INC(c) ((c) == ~0ULL ? 1ULL : (c) + 1ULL)

#define VERIF_GHOST_PASS1_INC_EA_INODE_REFS \
	p1x_off = P1X_EOFF; \
	__CPROVER_assert(entry == (struct ext2_ext_attr_entry *) ((char *) p1x_buf + p1x_off), "GHOST: cursor re-assignment is the identity"); \
	entry = (struct ext2_ext_attr_entry *) ((char *) p1x_buf + p1x_off); \
	np = (struct ext2_ext_attr_entry *) ((char *) p1x_buf + p1x_off + PEA_LEN(PEA_E_NAME_LEN(p1x_buf, p1x_off))); \
	p1x_e_inum = PEA_E_VALUE_INUM(p1x_buf, p1x_off); \
	p1x_cell0 = p1x_refs_cell; p1x_stores0 = p1x_refs_stores; \
	p1x_it_any = 0;

#define VERIF_INV_PASS1_INC_EA_INODE_REFS \
	__CPROVER_assigns(entry, np, refs, ctx->ea_inode_refs, ctx->flags, pctx->errcode, pctx->num, P1X_GHOSTS) \
	/* C06: cursor inside [first, end), aligned; np is where the name length at the cursor says */ \
	__CPROVER_loop_invariant(__CPROVER_same_object((char *) entry, (char *) p1x_buf) && \
				 __CPROVER_same_object((char *) np, (char *) p1x_buf) && \
				 P1X_EOFF < p1x_end_off && ((p1x_end_off - P1X_EOFF) & 3u) == 0u && \
				 P1X_NPOFF == P1X_EOFF + PEA_LEN(PEA_E_NAME_LEN(p1x_buf, P1X_EOFF))) \
	/* per iteration: one more reference for the inode the entry names, nothing for the others */ \
	__CPROVER_loop_invariant((p1x_e_inum != 0u && (unsigned long long) p1x_e_inum == p1x_K) \
				 ? (p1x_refs_cell == P1X_INC(p1x_cell0) && p1x_refs_stores == p1x_stores0 + 1u) \
				 : (p1x_refs_cell == p1x_cell0 && p1x_refs_stores == p1x_stores0)) \
	__CPROVER_loop_invariant(!p1x_refs_stray && !p1x_it_any && p1_nlog == 0u && !(ctx->flags & E2F_FLAG_ABORT)) \
	__CPROVER_loop_invariant(ctx->ea_inode_refs == 0 || ctx->ea_inode_refs == (ext2_refcount_t) (void *) &p1x_refs_tag)

static char p1x_refs_tag;

#include "p1x_post.h"

unsigned long long __CPROVER_uninterpreted_p1x_other_refs(unsigned long long);

int ext2fs_test_generic_bmap(ext2fs_generic_bitmap bitmap, __u64 arg) { (void) bitmap; (void) arg; return 0; }
int ext2fs_mark_generic_bmap(ext2fs_generic_bitmap bitmap, __u64 arg) { (void) bitmap; (void) arg; return 0; }

errcode_t ea_refcount_create(size_t size, ext2_refcount_t *ret)
{
	(void) size;
	p1x_refs_created++;
	if (IN.create_fail[0] & 1) { *ret = 0; return EXT2_ET_NO_MEMORY; }
	*ret = (ext2_refcount_t) (void *) &p1x_refs_tag;
	return 0;
}
errcode_t ea_refcount_fetch(ext2_refcount_t refcount, ea_key_t key, ea_value_t *ret)
{
	if ((void *) refcount != (void *) &p1x_refs_tag) p1x_refs_stray = 1;
	*ret = key == p1x_K ? p1x_refs_cell : __CPROVER_uninterpreted_p1x_other_refs(key);
	return 0;
}
errcode_t ea_refcount_store(ext2_refcount_t refcount, ea_key_t key, ea_value_t count)
{
	if ((void *) refcount != (void *) &p1x_refs_tag) p1x_refs_stray = 1;
	if (key == p1x_K) { p1x_refs_cell = count; p1x_refs_stores++; }
	return 0;
}

void h_increfs(void)
{
	struct e2fsck_struct ctx;
	struct problem_context pctx;
	unsigned long long first_off;

	LOAD_IN();
	memcpy(p1x_buf, IN.buf, P1X_BUFSZ);
	p1x_ghost_reset(P1_CHOICE);
	ctx.flags = 0;
	ctx.ea_inode_refs = (IN.have_inorefs & 1) ? (ext2_refcount_t) (void *) &p1x_refs_tag : 0;
	memset(&pctx, 0, sizeof(pctx));
	pctx.ino = IN.ino;
	p1x_K = IN.B;
	p1x_end_off = P1X_BUFSZ;			/* the buffer ends at `end` */
	first_off = IN.J;
	ASSUME(first_off < p1x_end_off && ((p1x_end_off - first_off) & 3) == 0);
	p1x_refs_cell = IN.refs_cell;
	p1x_refs_stores = 0;
	p1x_cell0 = p1x_refs_cell; p1x_stores0 = 0;
	p1x_e_inum = 0;

	inc_ea_inode_refs(&ctx, &pctx, (struct ext2_ext_attr_entry *) (p1x_buf + first_off), p1x_buf + p1x_end_off);

	CHECK(!p1x_refs_stray, "only the EA-inode reference map is used");
	/* the iteration that was cut out (or none): the statement of the invariant, also when the walk ended inside it */
	if (p1x_e_inum != 0u && (unsigned long long) p1x_e_inum == p1x_K && !p1x_it_any)
		CHECK(p1x_refs_cell == P1X_INC(p1x_cell0) && p1x_refs_stores == p1x_stores0 + 1u,
		      "an entry naming EA inode K adds exactly one reference to K");
	else
		CHECK(p1x_refs_cell == p1x_cell0 && p1x_refs_stores == p1x_stores0, "K's cell is untouched otherwise");
	if (p1x_it_any) {
		CHECK((ctx.flags & E2F_FLAG_ABORT) && p1_nlog == 1 && p1_log[0] == PR_1_ALLOCATE_REFCOUNT && ctx.ea_inode_refs == 0,
		      "no memory for the map: fatal problem, run aborted");
		REACH("allocation failure");
	}
	CHECK(p1x_buf[IN.first_ino % P1X_BUFSZ] == IN.buf[IN.first_ino % P1X_BUFSZ], "the buffer is only read");
	REACH("end");
}
