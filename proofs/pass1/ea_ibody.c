/* VERIF-UNIT
{
 "name": "p1x_ea_ibody_entry_detect",
 "props": ["C02", "C06"],
 "level": "U/iter",
 "tier": "thorough",
 "tier_after_hooks": "thorough",
 "harness": "h_eai_detect",
 "loop_contracts": true,
 "replace": ["region_allocate", "inc_ea_inode_refs"],
 "includes": ["e2fsck", "lib/support"],
 "unwind": 12,
 "cbmc_flags": ["--object-bits", "12", "--slice-formula"],
 "unwind_reason": "check_ea_in_inode's only loop (the entry walk) is cut by its named anchor VERIF_INV_PASS1_EA_IBODY_ENTRIES (hooks-pending/p1x.diff); check_large_ea_inode and size_to_quota_blocks are loop-free; inc_ea_inode_refs (its own loop: unit p1x_inc_ea_inode_refs_*) is replaced by a contract; the bound serves the DFCC library loops (write sets of up to 11 entries)",
 "functions": ["e2fsck/pass1.c:check_ea_in_inode", "e2fsck/pass1.c:check_large_ea_inode"],
 "assumes": ["NEEDS the hooks in hooks-pending/p1x.diff (named anchors VERIF_INV_PASS1_EA_IBODY_ENTRIES / VERIF_GHOST_PASS1_EA_IBODY_ENTRY)",
	     "U/iter: ONE call of check_ea_in_inode on a 256-byte inode with ARBITRARY bytes; call-site guarantees of check_inode_extra_space: i_extra_isize is 0 or a multiple of 4 in [4, 120] (a declined PR_1_EXTRA_ISIZE returns before; 'no room for a header' returns before), the word at 128 + i_extra_isize is EXT2_EXT_ATTR_MAGIC; the walk is cut at an ARBITRARY iteration: arbitrary 4-aligned cursor, arbitrary space accounting `remain` <= bytes behind the cursor, arbitrary quota sums, arbitrary set of claimed bytes (one ghost byte B); answers of fix_problem arbitrary",
	     "C06 is stated against the 256-byte inode buffer (e2fsck_pass1 allocates max(s_inode_size, sizeof(struct ext2_inode_large))): every dereference of pass1.c and every byte range handed to the hash functions lies inside it",
	     "region_allocate REPLACED by its contract (REQUIRES n > 0 checked at all four call sites), region_create / region_free stubs, hash functions / e2fsck_read_inode stubs as in p1x_ea_block_entry_detect",
	     "format violations decided per entry (specs/pass1_ea_format.h with first = vbase = 4, lim = 128 - i_extra_isize): entry+name outside the area; local value larger than EXT4_XATTR_SIZE_MAX or (padding included) outside the area; ghost byte B claimed twice; e_hash of a local value neither 0 nor the hash nor its signed variant; EA-inode reference without the feature or to an inode number outside [first_ino, inodes_count]; every one of them ends in a problem that counts (raised behind the loop, at `fix:`); an accepted one zeroes the in-inode magic, writes the whole inode and reports no quota",
	     "NOT part of this unit: 'the names list is terminated by a zero word' (unit p1x_ea_ibody_terminated, a finding)"],
 "native": false
}
*/
/* VERIF-UNIT
{
 "name": "p1x_ea_ibody_terminated",
 "props": ["C02"],
 "level": "U/iter",
 "tier": "quick",
 "tier_after_fix": "thorough",
 "harness": "h_eai_detect",
 "defines": ["EAI_TERMINATED"],
 "loop_contracts": true,
 "replace": ["region_allocate", "inc_ea_inode_refs"],
 "includes": ["e2fsck", "lib/support"],
 "unwind": 12,
 "cbmc_flags": ["--object-bits", "12", "--slice-formula"],
 "unwind_reason": "as p1x_ea_ibody_entry_detect",
 "functions": ["e2fsck/pass1.c:check_ea_in_inode"],
 "assumes": ["as p1x_ea_ibody_entry_detect plus the statement: a walk that raises nothing has ended at a ZERO word (IS_LAST_ENTRY: the kernel's xattr_check_inode walks until it finds one and refuses the inode when the walk leaves the area)",
	     "FAILS on the unchanged tree: the loop also ends when the space accounting `remain` drops below 16, without looking at the word at the cursor; the 4 bytes there are then claimed as 'terminator' whatever they contain (findings/C02_p1x_ibody_unterminated)"],
 "native": false
}
*/
/* VERIF-UNIT
{
 "name": "p1x_ea_ibody_entry_sound",
 "props": ["C05", "C06"],
 "level": "U/iter",
 "tier": "wip",
 "tier_after_hooks": "thorough",
 "harness": "h_eai_sound",
 "loop_contracts": true,
 "replace": ["region_allocate", "inc_ea_inode_refs"],
 "includes": ["e2fsck", "lib/support"],
 "unwind": 12,
 "cbmc_flags": ["--object-bits", "12", "--slice-formula"],
 "unwind_reason": "as p1x_ea_ibody_entry_detect",
 "functions": ["e2fsck/pass1.c:check_ea_in_inode", "e2fsck/pass1.c:check_large_ea_inode"],
 "assumes": ["as p1x_ea_ibody_entry_detect (hooks, call-site guarantees, stubs)",
	     "hypothesis of the iteration: the entry at the cursor is HEALTHY (specs/pass1_ea_format.h: fits in front of the terminator, name index 1..8, non-empty name, a non-empty local value lies padded inside the area and not over its own entry, an EMPTY value has any in-area offset, e_hash is 0 (what the kernel writes in the inode body), the hash or its signed variant; an EA-inode entry names an inode in range that carries EXT4_EA_INODE_FL and whose hash verifies, the feature is on), none of its regions collides with an earlier one (p1x_rg_noovl) and the walk's space accounting still covers it (remain >= 16 + padded name + value size: in a healthy area all regions are disjoint subsets of [4, lim), so the sum the walk subtracts never exceeds the space; a single iteration cannot see that)",
	     "statement: such an iteration raises NOTHING, calls region_allocate only with positive lengths (an empty value makes no value request), and keeps the walk going; a walk in which nothing was raised leaves the inode untouched (not in the loop's frame), writes nothing and hands [first entry, inode end) to inc_ea_inode_refs once"],
 "native": false
}
*/
/*
 * e2fsck/pass1.c: check_ea_in_inode — the walk over the in-inode EA area behind i_extra_isize.
 */
#include "p1x_pre.h"

#define P1X_HASH_BUF	p1x_ino
#define P1X_HASH_BUFSZ	P1_ISIZE

#ifndef P1X_CBITS
#define P1X_CBITS 0
#endif

unsigned char p1x_ino[P1_ISIZE];	/* the scratch inode of e2fsck_pass1 */
unsigned int p1x_lim;			/* storage_size = 128 - i_extra_isize */
unsigned int p1x_fsflags0;

#define P1X_HOFF ((unsigned long long) __CPROVER_POINTER_OFFSET(header))
#define P1X_EOFF ((unsigned long long) __CPROVER_POINTER_OFFSET((char *) entry) - P1X_HOFF)
#define p1x_remain0 p1x_g.remain0

#define P1X_B_IN_ENTRY	PEA_N_BYTE_IN_ENTRY(p1x_rg_B, p1x_off, p1x_e_nl)
#define P1X_B_IN_VALUE	PEA_N_BYTE_IN_VALUE(p1x_rg_B, p1x_e_offs, p1x_e_inum, p1x_e_size, 4u)

#define P1X_IBODY_ENTRY_BAD \
	(PEA_N_ENTRY_OUTSIDE(p1x_off, p1x_e_nl, p1x_lim) || \
	 (p1x_e_inum == 0u && p1x_e_size > PEA_SIZE_MAX) || \
	 (PEA_N_HAS_LOCAL_VALUE(p1x_e_inum, p1x_e_size) && !PEA_N_VALUE_FITS(p1x_e_offs, p1x_e_size, p1x_lim, 4u)) || \
	 (p1x_rg_b0 && (P1X_B_IN_ENTRY || P1X_B_IN_VALUE)) || (P1X_B_IN_ENTRY && P1X_B_IN_VALUE) || \
	 (p1x_e_inum == 0u && !PEA_N_HASH_OK_IBODY(p1x_e_hash, P1X_HU(P1X_HOFF + p1x_off), P1X_HS(P1X_HOFF + p1x_off))) || \
	 !PEA_N_EA_INUM_OK(p1x_e_inum, p1x_incompat, p1x_first_ino, p1x_inodes_count))

#define P1X_IBODY_ENTRY_HEALTHY \
	(p1x_rg_noovl && \
	 PEA_N_ENTRY_HEALTHY(p1x_off, p1x_e_nl, p1x_e_idx, p1x_e_offs, p1x_e_inum, p1x_e_size, p1x_lim, 4u, \
			     p1x_incompat, p1x_first_ino, p1x_inodes_count) && \
	 (unsigned long long) p1x_remain0 >= 16ull + PEA_SIZE(p1x_e_nl) + (p1x_e_inum == 0u ? p1x_e_size : 0u) && \
	 /* a healthy names list is terminated (kernel: xattr_check_inode): where the space accounting ends the walk \
	  * behind this entry, the word at the cursor is the zero terminator (since the C02 fix e2fsck checks that too) */ \
	 ((unsigned long long) p1x_remain0 - (16ull + PEA_SIZE(p1x_e_nl) + (p1x_e_inum == 0u ? p1x_e_size : 0u)) >= 16ull || \
	  PEA_LE32(header, p1x_off + 16u + PEA_SIZE(p1x_e_nl)) == 0u) && \
	 (p1x_e_inum == 0u ? PEA_N_HASH_OK_IBODY(p1x_e_hash, P1X_HU(P1X_HOFF + p1x_off), P1X_HS(P1X_HOFF + p1x_off)) \
			   : (P1X_H3ERR(P1X_HOFF + p1x_off) == 0u && \
			      PEA_N_EA_INODE_HEALTHY(P1X_TFLAGS(p1x_e_inum), p1x_e_hash, P1X_H3U(P1X_HOFF + p1x_off), \
						     P1X_H3S(P1X_HOFF + p1x_off)))))

#define VERIF_GHOST_PASS1_EA_IBODY_ENTRY \
	p1x_off = P1X_EOFF; \
	__CPROVER_assert(entry == (struct ext2_ext_attr_entry *) (header + p1x_off), "GHOST: cursor re-assignment is the identity"); \
	entry = (struct ext2_ext_attr_entry *) (header + p1x_off); \
	p1x_e_nl = PEA_E_NAME_LEN(header, p1x_off); p1x_e_idx = PEA_E_NAME_INDEX(header, p1x_off); \
	p1x_e_offs = PEA_E_VALUE_OFFS(header, p1x_off); p1x_e_inum = PEA_E_VALUE_INUM(header, p1x_off); \
	p1x_e_size = PEA_E_VALUE_SIZE(header, p1x_off); p1x_e_hash = PEA_E_HASH(header, p1x_off); \
	p1x_incompat = sb->s_feature_incompat; \
	p1x_remain0 = remain; \
	p1x_rg_b0 = p1x_rg_b; \
	p1x_it_raised = 0; p1x_it_any = 0; \
	p1x_it_bad = P1X_IBODY_ENTRY_BAD ? 1u : 0u; \
	p1x_it_healthy = P1X_IBODY_ENTRY_HEALTHY ? 1u : 0u;

#define VERIF_INV_PASS1_EA_IBODY_ENTRIES \
	__CPROVER_assigns(entry, remain, problem, pctx->num, ea_ibody_quota->blocks, ea_ibody_quota->inodes, \
			  sb->s_feature_incompat, ctx->fs->flags, P1X_GHOSTS) \
	/* C06: the cursor is 4-aligned inside the area and `remain` never exceeds the bytes behind it */ \
	__CPROVER_loop_invariant(__CPROVER_same_object((char *) entry, header) && \
				 P1X_EOFF >= 4u && P1X_EOFF <= storage_size && (P1X_EOFF & 3u) == 0u && \
				 remain <= storage_size - P1X_EOFF) \
	/* a problem leaves the walk at once (goto fix) */ \
	__CPROVER_loop_invariant(problem == 0u && p1x_accepted == 0u && !p1x_rg_oor && !p1x_rg_dup) \
	__CPROVER_loop_invariant(sb->s_feature_incompat == p1x_incompat0 || \
				 sb->s_feature_incompat == (p1x_incompat0 | PEA_INCOMPAT_EA_INODE)) \
	/* C02, per iteration: a violating entry does not let the body complete (or has been answered already) */ \
	__CPROVER_loop_invariant(!p1x_it_bad || p1x_it_raised) \
	/* C05, per iteration: a healthy entry has raised nothing; the cursor sits behind it with room for the terminator */ \
	__CPROVER_loop_invariant(!p1x_it_healthy || !p1x_it_any) \
	__CPROVER_loop_invariant(!p1x_it_healthy || (P1X_EOFF == p1x_off + PEA_LEN(p1x_e_nl) && P1X_EOFF + 4u <= storage_size)) \
	__CPROVER_loop_invariant(p1x_any_ever || (sb->s_feature_incompat == p1x_incompat0 && ctx->fs->flags == p1x_fsflags0 && \
						  p1x_wrino_calls == 0u))

/* inc_ea_inode_refs: its own walk, proved in ea_refs.c; here only the arguments are recorded */
static void inc_ea_inode_refs(e2fsck_t ctx, struct problem_context *pctx, struct ext2_ext_attr_entry *first, void *end)
	ASSIGNS(p1x_inc_calls, p1x_inc_first_off, p1x_inc_end_off, p1x_inc_same)
	ENSURES(p1x_inc_calls == OLD(p1x_inc_calls) + 1u)
	ENSURES(p1x_inc_first_off == (unsigned long long) __CPROVER_POINTER_OFFSET((char *) first))
	ENSURES(p1x_inc_end_off == (unsigned long long) __CPROVER_POINTER_OFFSET((char *) end))
	ENSURES(p1x_inc_same == ((__CPROVER_same_object((char *) first, (char *) p1x_ino) &&
				  __CPROVER_same_object((char *) end, (char *) p1x_ino)) ? 1u : 0u));

#include "p1x_post.h"

/* callees of the rest of pass1.c that this path never reaches */
int ext2fs_test_generic_bmap(ext2fs_generic_bitmap bitmap, __u64 arg) { (void) bitmap; (void) arg; return 0; }
int ext2fs_mark_generic_bmap(ext2fs_generic_bitmap bitmap, __u64 arg) { (void) bitmap; (void) arg; return 0; }

struct eai_env {
	struct e2fsck_struct ctx;
	struct struct_ext2_filsys fs;
	struct ext2_super_block sb;
	struct problem_context pctx;
	struct ea_quota q;
};
unsigned int eai_extra;

static void eai_setup(struct eai_env *e, int noovl)
{
	memset(&e->sb, 0, sizeof(e->sb));
	e->ctx.fs = &e->fs;
	e->ctx.flags = IN.ctxflags;
	e->ctx.options = IN.options;
	e->ctx.ea_inode_refs = 0;
	e->fs.super = &e->sb;
	e->fs.blocksize = 1024;
	e->fs.cluster_ratio_bits = P1X_CBITS;
	e->fs.flags = p1x_fsflags0 = IN.options & (EXT2_FLAG_RW | EXT2_FLAG_64BITS);
	e->sb.s_feature_compat = IN.compat;
	e->sb.s_feature_incompat = IN.incompat;
	e->sb.s_feature_ro_compat = IN.ro_compat;
	e->sb.s_rev_level = 1;
	e->sb.s_inode_size = P1_ISIZE;
	ASSUME(IN.first_ino >= 11 && IN.first_ino <= IN.inodes_count);	/* check_super_block */
	e->sb.s_first_ino = IN.first_ino;
	e->sb.s_inodes_count = IN.inodes_count;
	memcpy(p1x_ino, IN.inode, P1_ISIZE);
	/* call site (check_inode_extra_space): i_extra_isize sane, room for a header, magic present */
	eai_extra = ((struct ext2_inode_large *) p1x_ino)->i_extra_isize;
	ASSUME(eai_extra == 0 || (eai_extra >= 4 && (eai_extra & 3) == 0));
	ASSUME(eai_extra < P1_ISIZE - 128 - 4);
	ASSUME(PEA_LE32(p1x_ino, 128 + eai_extra) == PEA_MAGIC);
	p1x_lim = P1_ISIZE - 128 - eai_extra;
	memset(&e->pctx, 0, sizeof(e->pctx));
	e->pctx.ino = IN.ino;
	e->pctx.inode = (struct ext2_inode *) p1x_ino;
	p1x_ghost_reset(P1_CHOICE);
	p1x_rg_noovl = noovl;
	p1x_rg_B = noovl ? ~0ULL : IN.B;
	p1x_first_ino = IN.first_ino;
	p1x_inodes_count = IN.inodes_count;
	p1x_incompat = p1x_incompat0 = IN.incompat;
}

static void eai_common_checks(struct eai_env *e)
{
	unsigned char *hdr = p1x_ino + 128 + eai_extra;

	CHECK(p1x_rg_creates == 0 || p1x_rg_live == 0 || (IN.region_fail & 1), "the region is freed on every path (no leak)");
	CHECK((!p1x_rg_oor && !p1x_rg_dup) || p1x_serious_ever,
	      "a region request outside the area / at an already claimed byte ends in a problem that counts");
	CHECK(!p1x_it_bad || p1x_it_raised, "a format-violating entry ends in a problem that counts");
	if (p1x_accepted) {
		CHECK(PEA_LE32(hdr, 0) == 0, "accepted clear: the in-inode EA magic is zeroed");
		CHECK(p1_wr_calls == 1 && p1_wr_ino == IN.ino && p1_wr_size == P1_ISIZE &&
		      PEA_LE32(p1_disk, 128 + eai_extra) == 0, "accepted clear: the whole inode reaches the disk without the magic");
		CHECK(e->q.blocks == 0 && e->q.inodes == 0, "accepted clear: no EA quota is reported");
		CHECK(p1x_inc_calls == 0, "accepted clear: no EA-inode reference is counted");
	} else if (!(IN.region_fail & 1)) {
		CHECK(PEA_LE32(hdr, 0) == PEA_MAGIC && p1_wr_calls == 0, "kept area: nothing is written");
		CHECK(p1x_inc_calls == 1 && p1x_inc_same && p1x_inc_first_off == 128 + eai_extra + 4 && p1x_inc_end_off == P1_ISIZE,
		      "kept area: EA-inode references counted over [first entry, inode end)");
	}
#ifdef EAI_TERMINATED
	if (!p1x_any_ever && !(IN.region_fail & 1))
		CHECK(p1x_rg_last_n == 4 && p1x_rg_last_start + 4 <= p1x_lim && PEA_IS_LAST(hdr, p1x_rg_last_start),
		      "clean walk: the names list ends at a zero word inside the area");
#endif
}

void h_eai_detect(void)
{
	struct eai_env e;

	LOAD_IN();
	eai_setup(&e, 0);

	check_ea_in_inode(&e.ctx, &e.pctx, &e.q);

	eai_common_checks(&e);
	if (p1x_any_ever && p1_nlog >= 1 && p1_log[0] == PR_1_ATTR_NAME_LEN)
		REACH("a problem found inside the walk is raised");
	if (p1x_accepted)
		REACH("accepted clear");
	REACH("end");
}

void h_eai_sound(void)
{
	struct eai_env e;

	LOAD_IN();
	eai_setup(&e, 1);
	ASSUME(!(IN.region_fail & 1));

	check_ea_in_inode(&e.ctx, &e.pctx, &e.q);

	eai_common_checks(&e);
	CHECK(!p1x_it_healthy || !p1x_it_any, "a healthy entry raises nothing");
	if (!p1x_any_ever) {
		CHECK(p1_wr_calls == 0 && p1x_wrino_calls == 0, "clean walk: nothing is written");
		CHECK(p1x_ino[IN.J & (P1_ISIZE - 1)] == IN.inode[IN.J & (P1_ISIZE - 1)], "clean walk: the inode is untouched");
		CHECK(e.fs.flags == p1x_fsflags0 && e.sb.s_feature_incompat == IN.incompat, "clean walk: the superblock is untouched");
		REACH("clean walk");
	}
	REACH("end");
}
