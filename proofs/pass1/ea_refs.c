/* VERIF-UNIT
{
 "name": "p1x_check_large_ea_inode",
 "props": ["C02", "C05", "C06"],
 "level": "U",
 "tier": "quick",
 "harness": "h_large",
 "includes": ["e2fsck", "lib/support"],
 "unwind": 3,
 "unwind_reason": "check_large_ea_inode and size_to_quota_blocks are loop-free; nothing else of pass1.c is reachable from the harness",
 "functions": ["e2fsck/pass1.c:check_large_ea_inode", "e2fsck/pass1.c:size_to_quota_blocks"],
 "assumes": ["ONE call for an arbitrary entry (arbitrary e_value_inum, e_value_size, e_hash, name) of an arbitrary parent inode; answers of fix_problem arbitrary; s_first_ino >= 11 (check_super_block); block size 1024 or 4096, cluster ratio 1 or 16 (enumerated: the quota rule divides by the cluster size)",
	     "stubs: e2fsck_read_inode answers arbitrary i_flags / i_mtime / i_generation for the target; ext2fs_ext_attr_hash_entry3 (proved in parsers/xattr_hash_entry3) answers arbitrary hash / signed hash or fails (then fatal_error: exit FSCK_ERROR); ext2fs_write_inode records what is written",
	     "statement (specs/pass1_ea_format.h; kernel: ext4_xattr_inode_iget / ext4_xattr_inode_verify_hashes): a target number outside [first_ino, inodes_count] is answered PR_1_ATTR_VALUE_EA_INODE without reading anything; a target WITHOUT EXT4_EA_INODE_FL (a regular inode used as a value) is always reported (a returned problem, or PR_1_ATTR_SET_EA_INODE_FL which sets and writes the flag when accepted); a target with the flag whose hash verifies (hash or signed variant) is accepted silently, nothing written, quota = value size rounded up to clusters; a hash mismatch is PR_1_ATTR_HASH unless the target points back to the parent (pre-4.13 Lustre form: i_mtime == parent, same generation: quota 0)"],
 "native": false
}
*/
/* VERIF-UNIT
{
 "name": "p1x_ext_attr_shared_block",
 "props": ["C02", "C05"],
 "level": "U",
 "tier": "quick",
 "harness": "h_shared",
 "replace": ["mark_block_used"],
 "includes": ["e2fsck", "lib/support"],
 "sources": ["lib/ext2fs/blknum.c"],
 "unwind": 3,
 "unwind_reason": "only the loop-free 'EA block seen before' arm of check_ext_attr is reachable (block_ea_map answers 1); the entry walk behind it is unreachable (unwinding assertions checked)",
 "functions": ["e2fsck/pass1.c:check_ext_attr"],
 "assumes": ["ONE call of check_ext_attr for an inode whose i_file_acl names a block inside the filesystem that an earlier inode already brought to pass 1 (block_ea_map set); ea_refcount_* are stubs over ONE cell per map (key = the block; e2fsck/ea_refcount.c is proved in fsckds/ea_*); ctx->refcount exists (created at the first sighting); cluster ratio 1 or 16",
	     "statement (attributes.rst h_refcount; ext4_xattr_block_set charges EXT4_C2B(1) to every sharer): the call reports 'has an EA block' (return 1) and charges this inode too: the block's own cluster, or the sum recorded at the first sighting (EA-inode values included) when one was recorded; EA inodes counted as recorded; the expected-references cell of the block is decremented exactly once, and when it was already 0 ('referenced more than h_refcount says') the block is counted once in refcount_extra (created on demand; pass 1's end raises PR_1_EXTATTR_REFCOUNT from it); the block is neither read nor marked used again, the inode is not touched, nothing is raised"],
 "native": false
}
*/
/*
 * e2fsck/pass1.c: check_large_ea_inode (an entry whose value lives in an EA inode) and the 'seen before' arm of
 * check_ext_attr (a shared EA block is charged to every inode that references it, exactly once each).
 */
#include "p1x_pre.h"
#include "p1x_post.h"

/* ---- bitmaps / refcount maps: one cell per map, key = the EA block ---- */
static char er_eamap_tag, er_rc_tag, er_extra_tag, er_qb_tag, er_qi_tag;
unsigned long long er_blk;
unsigned long long er_rc, er_extra;
unsigned int er_stray, er_dec_calls, er_inc_calls, er_tests, er_marks, er_creates, er_fetches;

int ext2fs_test_generic_bmap(ext2fs_generic_bitmap bitmap, __u64 arg)
{
	if ((void *) bitmap != (void *) &er_eamap_tag || arg != er_blk) { er_stray = 1; return 0; }
	er_tests++;
	return IN.ea_seen & 1;
}
int ext2fs_mark_generic_bmap(ext2fs_generic_bitmap bitmap, __u64 arg)
{
	(void) bitmap; (void) arg;
	er_marks++;
	return 0;
}
errcode_t e2fsck_allocate_block_bitmap(ext2_filsys fs, const char *descr, int default_type, const char *profile_name,
				       ext2fs_block_bitmap *ret)
{
	(void) fs; (void) descr; (void) default_type; (void) profile_name; (void) ret;
	er_stray = 1;
	return EXT2_ET_NO_MEMORY;
}
errcode_t ea_refcount_create(size_t size, ext2_refcount_t *ret)
{
	(void) size;
	er_creates++;
	if (IN.create_fail[0] & 1) { *ret = 0; return EXT2_ET_NO_MEMORY; }
	er_extra = 0;
	*ret = (ext2_refcount_t) &er_extra_tag;	/* the only map this arm creates */
	return 0;
}
errcode_t ea_refcount_fetch(ext2_refcount_t refcount, ea_key_t key, ea_value_t *ret)
{
	if (key != er_blk) er_stray = 1;
	er_fetches++;
	if ((void *) refcount == (void *) &er_qb_tag) *ret = IN.qb_cell;
	else if ((void *) refcount == (void *) &er_qi_tag) *ret = IN.qi_cell;
	else { er_stray = 1; *ret = 0; }
	return 0;
}
/* ea_refcount.c: decrement fails (EXT2_ET_INVALID_ARGUMENT) when the key is absent or its count is already 0 */
errcode_t ea_refcount_decrement(ext2_refcount_t refcount, ea_key_t key, ea_value_t *ret)
{
	if ((void *) refcount != (void *) &er_rc_tag || key != er_blk) er_stray = 1;
	er_dec_calls++;
	if (er_rc == 0)
		return EXT2_ET_INVALID_ARGUMENT;
	er_rc--;
	if (ret) *ret = er_rc;
	return 0;
}
errcode_t ea_refcount_increment(ext2_refcount_t refcount, ea_key_t key, ea_value_t *ret)
{
	if ((void *) refcount != (void *) &er_extra_tag || key != er_blk) er_stray = 1;
	er_inc_calls++;
	er_extra++;
	if (ret) *ret = er_extra;
	return 0;
}
errcode_t ea_refcount_store(ext2_refcount_t refcount, ea_key_t key, ea_value_t count)
{
	(void) refcount; (void) key; (void) count;
	er_stray = 1;
	return 0;
}
errcode_t ext2fs_read_ext_attr3(ext2_filsys fs, blk64_t block, void *buf, ext2_ino_t inum)
{
	(void) fs; (void) block; (void) buf; (void) inum;
	p1x_eard_calls++;
	return 0;
}
errcode_t ext2fs_write_ext_attr3(ext2_filsys fs, blk64_t block, void *buf, ext2_ino_t inum)
{
	(void) fs; (void) block; (void) buf; (void) inum;
	p1x_eawr_calls++;
	return 0;
}

struct er_env {
	struct e2fsck_struct ctx;
	struct struct_ext2_filsys fs;
	struct ext2_super_block sb;
	struct problem_context pctx;
	struct ea_quota q;
};
static unsigned char er_inode[P1_ISIZE];

static void er_setup(struct er_env *e, unsigned int bits, unsigned int blocksize)
{
	memset(&e->sb, 0, sizeof(e->sb));
	e->ctx.fs = &e->fs;
	e->ctx.flags = 0;
	e->ctx.options = IN.options;
	e->ctx.ext_attr_ver = 2;
	e->fs.super = &e->sb;
	e->fs.blocksize = blocksize;
	e->fs.cluster_ratio_bits = bits;
	e->fs.flags = 0;
	e->sb.s_first_data_block = IN.first_data_block;
	e->sb.s_blocks_count = (unsigned int) IN.blocks_count;
	e->sb.s_blocks_count_hi = (unsigned int) (IN.blocks_count >> 32);
	e->sb.s_feature_compat = IN.compat | EXT2_FEATURE_COMPAT_EXT_ATTR;
	e->sb.s_feature_incompat = IN.incompat;
	e->sb.s_rev_level = 1;
	ASSUME(IN.first_ino >= 11 && IN.first_ino <= IN.inodes_count);
	e->sb.s_first_ino = IN.first_ino;
	e->sb.s_inodes_count = IN.inodes_count;
	memcpy(er_inode, IN.inode, P1_ISIZE);
	memset(&e->pctx, 0, sizeof(e->pctx));
	e->pctx.ino = IN.ino;
	e->pctx.inode = (struct ext2_inode *) er_inode;
	memcpy(p1x_buf, IN.buf, P1X_BUFSZ);
	p1x_ghost_reset(P1_CHOICE);
	er_stray = er_dec_calls = er_inc_calls = er_tests = er_marks = er_creates = er_fetches = 0;
}

/* ---- check_large_ea_inode ---- */
static void large_body(unsigned int bits, unsigned int blocksize)
{
	struct er_env e;
	struct ext2_ext_attr_entry *entry = (struct ext2_ext_attr_entry *) (p1x_buf + 32);
	blk64_t quota = 0x5a5a5a5a5a5a5a5aULL;
	unsigned int inum, size, e_hash, tflags, hu, hs, hash_ok, lustre;
	unsigned long long csize = (unsigned long long) blocksize << bits;
	problem_t r;

	er_setup(&e, bits, blocksize);
	inum = PEA_E_VALUE_INUM(p1x_buf, 32);
	size = PEA_E_VALUE_SIZE(p1x_buf, 32);
	e_hash = PEA_E_HASH(p1x_buf, 32);
	tflags = P1X_TFLAGS(inum);
	hu = P1X_H3U(32);
	hs = P1X_H3S(32);
	hash_ok = (e_hash == hu || e_hash == hs);
	lustre = (P1X_TMTIME(inum) == IN.ino && P1X_TGEN(inum) == ((struct ext2_inode *) er_inode)->i_generation);

	r = check_large_ea_inode(&e.ctx, entry, &e.pctx, &quota);

	CHECK(r == 0 || r == PR_1_ATTR_VALUE_EA_INODE || r == PR_1_ATTR_HASH || r == PR_1_ATTR_NO_EA_INODE_FL, "a known verdict");
	if (inum < IN.first_ino || inum > IN.inodes_count) {
		CHECK(r == PR_1_ATTR_VALUE_EA_INODE && p1x_rdino_calls == 0 && p1x_h3_calls == 0 && p1_nlog == 0,
		      "C02/C06: a target number outside [first_ino, inodes_count] is refused before anything is read");
	} else {
		CHECK(p1x_rdino_calls == 1, "the target inode is read once");
		/* C02: a regular inode used as an EA inode is reported */
		if (PEA_N_EA_INODE_BAD(tflags))
			CHECK(r != 0 || (p1x_serious_ever && p1_nlog == 1 && p1_log[0] == PR_1_ATTR_SET_EA_INODE_FL),
			      "C02: a target without EXT4_EA_INODE_FL is reported");
		if (PEA_N_EA_INODE_BAD(tflags) && r == 0)
			CHECK(p1x_wrino_calls == 1 && p1x_wrino_ino == inum && p1x_wrino_flags == (tflags | PEA_EA_INODE_FL),
			      "an accepted PR_1_ATTR_SET_EA_INODE_FL sets the flag on disk, nothing else");
		else
			CHECK(p1x_wrino_calls == 0, "nothing is written otherwise");
		/* C02: hash */
		if (!hash_ok && !lustre)
			CHECK(r == PR_1_ATTR_HASH || r == PR_1_ATTR_VALUE_EA_INODE, "C02: an entry hash that does not verify is reported");
		if (!PEA_N_EA_INODE_BAD(tflags) && !hash_ok && !lustre)
			CHECK(r == PR_1_ATTR_HASH && e.pctx.num == e_hash, "... as PR_1_ATTR_HASH when the target is an EA inode");
		/* C05: healthy reference */
		if (PEA_N_EA_INODE_HEALTHY(tflags, e_hash, hu, hs)) {
			CHECK(r == 0 && p1_nlog == 0 && p1x_wrino_calls == 0, "C05: a healthy EA-inode reference is accepted silently");
			CHECK(quota == (((unsigned long long) size + csize - 1) / csize) << bits,
			      "quota: the value size rounded up to whole clusters, in blocks");
			REACH("healthy reference");
		}
		if (r == 0 && !hash_ok)
			CHECK(lustre && quota == 0, "a reference accepted without a matching hash is the Lustre back-pointer form, charged 0");
	}
	CHECK(p1x_buf[IN.J % P1X_BUFSZ] == IN.buf[IN.J % P1X_BUFSZ] && er_inode[IN.J % P1_ISIZE] == IN.inode[IN.J % P1_ISIZE],
	      "entry and parent inode are only read");
}

void h_large(void)
{
	LOAD_IN();
	switch (IN.bigalloc & 3) {
	case 0: large_body(0, 1024); break;
	case 1: large_body(4, 1024); break;
	case 2: large_body(0, 4096); break;
	default: large_body(4, 4096); break;
	}
	REACH("end");
}

/* ---- check_ext_attr: EA block seen before ---- */
static void shared_body(unsigned int bits)
{
	struct er_env e;
	struct ext2_inode *ino = (struct ext2_inode *) er_inode;
	unsigned long long rc0, c2b = 1ULL << bits;
	int r;

	er_setup(&e, bits, 1024);
	e.ctx.block_ea_map = (ext2fs_block_bitmap) &er_eamap_tag;
	e.ctx.refcount = (ext2_refcount_t) &er_rc_tag;
	e.ctx.refcount_extra = (IN.have_extra & 1) ? (ext2_refcount_t) &er_extra_tag : 0;
	e.ctx.ea_block_quota_blocks = (IN.have_qb & 1) ? (ext2_refcount_t) &er_qb_tag : 0;
	e.ctx.ea_block_quota_inodes = (IN.have_qi & 1) ? (ext2_refcount_t) &er_qi_tag : 0;
	ASSUME(IN.blocks_count < (1ULL << 48) && IN.file_acl < (1ULL << 48));
	if (!(IN.incompat & EXT4_FEATURE_INCOMPAT_64BIT))
		ASSUME(IN.file_acl < (1ULL << 32) && IN.blocks_count < (1ULL << 32));
	ASSUME(IN.file_acl != 0 && P1F_BLOCK_IN_RANGE(IN.file_acl, IN.first_data_block, IN.blocks_count));
	er_blk = IN.file_acl;
	ino->i_file_acl = (unsigned int) IN.file_acl;
	ino->osd2.linux2.l_i_file_acl_high = (unsigned short) (IN.file_acl >> 32);
	ASSUME(IN.ea_seen & 1);
	er_rc = rc0 = IN.rc_cell;
	er_extra = IN.extra_cell;
	ASSUME(IN.extra_cell < ~0ULL);

	r = check_ext_attr(&e.ctx, &e.pctx, (char *) p1x_buf, &e.q);

	CHECK(!er_stray && er_tests == 1, "only the block's own cells are touched; block_ea_map is asked once");
	CHECK(p1x_eard_calls == 0 && p1x_eawr_calls == 0 && p1x_mbu_calls == 0 && er_marks == 0 && p1x_rg_creates == 0,
	      "a block seen before is neither read, walked nor marked used again");
	CHECK(ino->i_file_acl == (unsigned int) IN.file_acl && p1_wr_calls == 0, "the inode is not touched");
	CHECK(er_dec_calls == 1, "the expected-references cell is decremented exactly once");
	if (rc0 > 0) {
		CHECK(r == 1 && er_rc == rc0 - 1 && er_inc_calls == 0 && er_creates == 0 && p1_nlog == 0,
		      "an expected reference: consumed, nothing else");
		REACH("expected reference");
	} else if (!(IN.have_extra & 1) && (IN.create_fail[0] & 1)) {
		CHECK(r == 0 && (e.ctx.flags & E2F_FLAG_ABORT) && p1_nlog == 1 && p1_log[0] == PR_1_ALLOCATE_REFCOUNT,
		      "no memory for refcount_extra: fatal problem, run aborted");
	} else {
		CHECK(r == 1 && er_inc_calls == 1 && er_extra == ((IN.have_extra & 1) ? IN.extra_cell : 0) + 1 && p1_nlog == 0,
		      "a reference beyond h_refcount is counted once in refcount_extra");
		CHECK(e.ctx.refcount_extra == (ext2_refcount_t) &er_extra_tag, "refcount_extra exists afterwards");
		REACH("extra reference");
	}
	if (r == 1) {
		/* every sharer is charged: the block's cluster, or what the first sighting recorded */
		CHECK(e.q.blocks == (((IN.have_qb & 1) && IN.qb_cell != 0) ? IN.qb_cell : c2b),
		      "quota blocks: one cluster of the EA block, or the recorded sum incl. EA-inode values");
		CHECK(e.q.inodes == ((IN.have_qi & 1) ? IN.qi_cell : 0), "quota inodes: as recorded");
	}
}

void h_shared(void)
{
	LOAD_IN();
	if (IN.bigalloc & 1)
		shared_body(4);
	else
		shared_body(0);
	REACH("end");
}
