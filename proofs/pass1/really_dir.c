/* VERIF-UNIT
{
 "name": "p1_really_dir_sound",
 "props": ["C05"],
 "level": "U/k",
 "tier": "quick",
 "harness": "h_rd_sound",
 "includes": ["e2fsck", "lib/support"],
 "sources": ["lib/ext2fs/dir_iterate.c", "lib/ext2fs/blknum.c"],
 "unwind": 17,
 "unwind_reason": "check_is_really_dir scans i_block[0..14]: 15 iterations (EXT2_N_BLOCKS, a constant of the format)",
 "functions": ["e2fsck/pass1.c:check_is_really_dir"],
 "assumes": ["arbitrary 256-byte inode record; healthy means: a directory, regular file or symlink (any content), or a FIFO/socket whose i_block[0] is 0, or a character/block device with i_links_count == 1, no EXTENTS/INLINE_DATA flag and i_block[4..14] == 0 (the device number lives in i_block[0..1]); a device inode with several hard links is NOT covered (the heuristic then reads the block whose number equals the device number)",
	     "the block bitmap query, ext2fs_inline_data_size, ext2fs_bmap2, ext2fs_read_dir_block4 are stubs with arbitrary answers; reads are counted",
	     "block size 1024; no contract enforced"],
 "native": false
}
*/
/* VERIF-UNIT
{
 "name": "p1_really_dir_converge",
 "props": ["C01"],
 "level": "U/k",
 "tier": "quick",
 "harness": "h_rd_converge",
 "includes": ["e2fsck", "lib/support"],
 "sources": ["lib/ext2fs/dir_iterate.c", "lib/ext2fs/blknum.c"],
 "unwind": 17,
 "unwind_reason": "i_block[0..14] scan: 15 iterations",
 "functions": ["e2fsck/pass1.c:check_is_really_dir"],
 "assumes": ["arbitrary 256-byte inode record and arbitrary 1024-byte first block, arbitrary stub answers; first run e2fsck -y, second run (arbitrary answers) on the record as written by the e2fsck_write_inode_full stub",
	     "statement: whenever PR_1_TREAT_AS_DIRECTORY is raised and accepted, the mode on disk becomes S_IFDIR with the permission bits kept, nothing else changes, and a second call raises nothing; the problem is raised only for a mode that is not DIR/REG/LNK and only when the first block was delivered and starts with a '.' entry naming this inode followed by a '..' entry (or the inline-data equivalent)"],
 "backend": "cadical",
 "native": false
}
*/
/*
 * e2fsck/pass1.c:check_is_really_dir — "the mode says special file, the contents say directory" heuristic.
 */
#define P1_BS 1024u

struct in_rd {
	unsigned char ino_bytes[256];
	unsigned char blk[P1_BS];
	unsigned int ino;
	unsigned int k;
	unsigned int first_data_block, inodes_count, first_ino;
	unsigned long long blocks_count;
	unsigned int incompat;
	unsigned char in_found[16];	/* block_found_map answer per i_block slot */
	unsigned char inl_err, bmap_err, rd_err;
	unsigned long long inline_size, bmap_blk;
	unsigned char mode;
	unsigned char choice[8];
};
struct in_rd IN;
#include "verif_in.h"
#include "p1_pre.h"
#include "p1_common.h"

static char rd_found_tag;
unsigned int rd_reads, rd_tests, rd_stray;
unsigned long long rd_read_blk;

int ext2fs_test_generic_bmap(ext2fs_generic_bitmap bitmap, __u64 arg)
{
	(void) arg;
	if ((void *) bitmap != (void *) &rd_found_tag)
		rd_stray = 1;
	return IN.in_found[rd_tests++ & 15] & 1;
}
errcode_t ext2fs_inline_data_size(ext2_filsys fs, ext2_ino_t ino, size_t *size)
{
	(void) fs; (void) ino;
	if (IN.inl_err)
		return EXT2_ET_NO_INLINE_DATA;
	*size = IN.inline_size;
	return 0;
}
errcode_t ext2fs_bmap2(ext2_filsys fs, ext2_ino_t ino, struct ext2_inode *inode, char *block_buf, int bmap_flags,
		       blk64_t block, int *ret_flags, blk64_t *phys_blk)
{
	(void) fs; (void) ino; (void) inode; (void) block_buf; (void) bmap_flags; (void) block; (void) ret_flags;
	if (IN.bmap_err)
		return EXT2_ET_BAD_BLOCK_NUM;
	*phys_blk = IN.bmap_blk;
	return 0;
}
errcode_t ext2fs_read_dir_block4(ext2_filsys fs, blk64_t block, void *buf, int flags, ext2_ino_t ino)
{
	(void) fs; (void) flags; (void) ino;
	rd_reads++;
	rd_read_blk = block;
	if (IN.rd_err)
		return EXT2_ET_DIR_CORRUPTED;
	memcpy(buf, IN.blk, P1_BS);
	return 0;
}
const char *ehandler_operation(const char *op) { (void) op; return 0; }

struct rd_world {
	e2fsck_t ctx;
	ext2_filsys fs;
	struct ext2_super_block *sb;
	unsigned char *rec;
	char *buf;
	struct problem_context pctx;
	unsigned char b0;
};
#define RD_B ((const unsigned char *) IN.ino_bytes)

static void rd_setup(struct rd_world *w, int mode)
{
	w->ctx = malloc(sizeof(*w->ctx));
	w->fs = malloc(sizeof(*w->fs));
	w->sb = malloc(sizeof(*w->sb));
	w->rec = malloc(P1_ISIZE);
	w->buf = malloc(3 * P1_BS);
	ASSUME(w->ctx && w->fs && w->sb && w->rec && w->buf);
	memset(w->sb, 0, sizeof(*w->sb));
	memcpy(w->rec, IN.ino_bytes, P1_ISIZE);
	w->ctx->fs = w->fs;
	w->ctx->block_found_map = (ext2fs_block_bitmap) &rd_found_tag;
	w->fs->super = w->sb;
	w->fs->blocksize = P1_BS;
	w->sb->s_rev_level = 1;
	w->sb->s_inode_size = P1_ISIZE;
	w->sb->s_first_ino = IN.first_ino;
	w->sb->s_inodes_count = IN.inodes_count;
	w->sb->s_first_data_block = IN.first_data_block;
	w->sb->s_blocks_count = (unsigned int) IN.blocks_count;
	w->sb->s_blocks_count_hi = (unsigned int) (IN.blocks_count >> 32);
	w->sb->s_feature_incompat = IN.incompat | EXT4_FEATURE_INCOMPAT_64BIT;
	memset(&w->pctx, 0, sizeof(w->pctx));
	w->pctx.ino = IN.ino;
	w->pctx.inode = (struct ext2_inode *) w->rec;
	p1_ghost_reset(mode);
	rd_reads = rd_tests = rd_stray = 0;
	ASSUME(IN.k < P1_ISIZE);
	w->b0 = IN.ino_bytes[IN.k];
}

#define RD_IBLOCK_4_14_ZERO() \
	(P1F_IBLOCK(RD_B, 4) == 0 && P1F_IBLOCK(RD_B, 5) == 0 && P1F_IBLOCK(RD_B, 6) == 0 && P1F_IBLOCK(RD_B, 7) == 0 && \
	 P1F_IBLOCK(RD_B, 8) == 0 && P1F_IBLOCK(RD_B, 9) == 0 && P1F_IBLOCK(RD_B, 10) == 0 && P1F_IBLOCK(RD_B, 11) == 0 && \
	 P1F_IBLOCK(RD_B, 12) == 0 && P1F_IBLOCK(RD_B, 13) == 0 && P1F_IBLOCK(RD_B, 14) == 0)

/* C05 */
void h_rd_sound(void)
{
	struct rd_world w;
	unsigned fmt;

	LOAD_IN();
	rd_setup(&w, P1_CHOICE);
	fmt = P1F_MODE(RD_B) & P1F_IFMT;
	ASSUME(fmt == P1F_IFDIR || fmt == P1F_IFREG || fmt == P1F_IFLNK ||
	       ((fmt == P1F_IFIFO || fmt == P1F_IFSOCK) && P1F_IBLOCK(RD_B, 0) == 0) ||
	       ((fmt == P1F_IFCHR || fmt == P1F_IFBLK) && P1F_LE16(RD_B, P1F_OFF_LINKS) == 1 &&
		!(P1F_FLAGS(RD_B) & (P1F_FL_EXTENTS | P1F_FL_INLINE_DATA)) && RD_IBLOCK_4_14_ZERO()));

	check_is_really_dir(w.ctx, &w.pctx, w.buf);
	if (fmt == P1F_IFCHR && P1F_IBLOCK(RD_B, 0) != 0) REACH("device with a device number");
	CHECK(p1_nlog == 0, "healthy file: not taken for a directory");
	CHECK(p1_wr_calls == 0 && w.rec[IN.k] == w.b0, "healthy file: inode neither written nor changed");
	CHECK(rd_reads == 0, "healthy file: no block is read on its behalf");
	CHECK(!rd_stray, "only block_found_map is consulted");
	REACH("end");
}

/* C01 */
void h_rd_converge(void)
{
	struct rd_world w;
	unsigned fmt, rec0;
	unsigned char m1;

	LOAD_IN();
	rd_setup(&w, P1_YES);
	fmt = P1F_MODE(RD_B) & P1F_IFMT;

	check_is_really_dir(w.ctx, &w.pctx, w.buf);
	CHECK(p1_nlog <= 1 && (p1_nlog == 0 || p1_log[0] == PR_1_TREAT_AS_DIRECTORY), "at most the one question");
	if (p1_nlog) {
		REACH("taken for a directory");
		CHECK(fmt != P1F_IFDIR && fmt != P1F_IFREG && fmt != P1F_IFLNK, "only a special-file / unknown mode is ever re-typed");
		rec0 = P1F_LE16(IN.blk, 4);
		CHECK((P1F_FLAGS(RD_B) & P1F_FL_INLINE_DATA) ||
		      (rd_reads == 1 && !IN.rd_err && P1F_LE32(IN.blk, 0) == IN.ino && P1F_U8(IN.blk, 6) == 1 &&
		       P1F_U8(IN.blk, 8) == '.' && rec0 >= 12 && (rec0 & 3) == 0 && rec0 < P1_BS - 12 &&
		       P1F_U8(IN.blk, rec0 + 6) == 2 && P1F_U8(IN.blk, rec0 + 8) == '.' && P1F_U8(IN.blk, rec0 + 9) == '.'),
		      "only when the first block starts with '.' naming this inode, followed by '..'");
		CHECK(p1_wr_calls == 1 && p1_wr_ino == IN.ino && p1_wr_size == P1_ISIZE, "accepted: the record is written");
		CHECK(p1_disk[IN.k] == w.rec[IN.k], "what is on disk is the in-memory record");
		CHECK(P1F_MODE(p1_disk) == ((P1F_MODE(RD_B) & 07777u) | P1F_IFDIR), "mode on disk: directory, permission bits kept");
		CHECK(IN.k == 0 || IN.k == 1 || p1_disk[IN.k] == w.b0, "only i_mode changes");

		memcpy(w.rec, p1_disk, P1_ISIZE);
		m1 = w.rec[IN.k];
		p1_clear_log();
		p1_wr_calls = 0;
		p1_mode = P1_CHOICE;
		check_is_really_dir(w.ctx, &w.pctx, w.buf);
		CHECK(p1_nlog == 0 && p1_wr_calls == 0 && w.rec[IN.k] == m1, "second run: nothing raised, written or changed");
	} else {
		CHECK(p1_wr_calls == 0 && w.rec[IN.k] == w.b0, "no question: inode neither written nor changed");
	}
	REACH("end");
}
