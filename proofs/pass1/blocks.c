/* VERIF-UNIT
{
 "name": "p1_process_block_illegal_detect",
 "props": ["C02"],
 "level": "U/iter",
 "tier": "quick",
 "tier_after_hooks": "quick",
 "harness": "h_pb_detect",
 "loop_contracts": true,
 "includes": ["e2fsck", "lib/support"],
 "sources": ["lib/ext2fs/blknum.c"],
 "unwind": 6,
 "unwind_reason": "process_block's only loop (dblist hole filling) is cut by its named anchor (hooks-pending/p1h.diff); mark_block_used and has_unaligned_cluster_map are loop-free; the bound serves the DFCC library loops",
 "functions": ["e2fsck/pass1.c:process_block"],
 "assumes": ["NEEDS the hook in hooks-pending/p1h.diff (named anchor VERIF_INV_PASS1_PROCESS_BLOCK_HOLES)",
	     "U/iter: ONE call of the block-iterate callback from an ARBITRARY state of the per-inode walk (struct process_block_struct: counters, previous/last block, flags arbitrary), for an arbitrary reference (*block_nr, blockcnt, ref_block); e2fsck -n (all questions declined)",
	     "the inode is not the resize inode; the referencing indirect block does not itself sit on critical metadata (that sub-case is the 'subterfuge' arm: in-core reference zeroed, nothing written, no question — stated separately in the harness); fewer than 2^31-1 illegal blocks so far (int counter)",
	     "the three pass-1 block bitmaps (found, dup, metadata) are abstract sets at cluster granularity: ext2fs_test/mark_generic_bmap are stubs over ghost membership cells for the cluster of the block under test and ONE arbitrary other cluster k (the C16 units prove the back ends behave as sets); ext2fs_add_dir_block2, e2fsck_allocate_block_bitmap, set_latch_flags are stubs; fix_problem is the logging stub",
	     "cluster ratio 1 or 16 (cluster_ratio_bits 0 or 4, enumerated); no contract enforced (4500-line TU)"],
 "native": false
}
*/
/* VERIF-UNIT
{
 "name": "p1_process_block_illegal_repair",
 "props": ["C01"],
 "level": "U/iter",
 "tier": "quick",
 "tier_after_hooks": "quick",
 "harness": "h_pb_repair",
 "loop_contracts": true,
 "includes": ["e2fsck", "lib/support"],
 "sources": ["lib/ext2fs/blknum.c"],
 "unwind": 6,
 "unwind_reason": "as p1_process_block_illegal_detect",
 "functions": ["e2fsck/pass1.c:process_block"],
 "assumes": ["as p1_process_block_illegal_detect, but e2fsck -y (all questions accepted) in the first call; the reference is out of range OR one of the size-limit problems (PR_1_TOOBIG_DIR/REG/SYMLINK) applies",
	     "second call: the same callback on the repaired reference, answers arbitrary"],
 "native": false
}
*/
/* VERIF-UNIT
{
 "name": "p1_process_block_zero",
 "props": ["C01", "C05"],
 "level": "U/iter",
 "tier": "quick",
 "tier_after_hooks": "quick",
 "harness": "h_pb_zero",
 "loop_contracts": true,
 "includes": ["e2fsck", "lib/support"],
 "sources": ["lib/ext2fs/blknum.c"],
 "unwind": 6,
 "unwind_reason": "as p1_process_block_illegal_detect",
 "functions": ["e2fsck/pass1.c:process_block"],
 "assumes": ["as p1_process_block_illegal_detect with *block_nr == 0 (a hole, or a reference cleared by an earlier run) and arbitrary answers"],
 "native": false
}
*/
/* VERIF-UNIT
{
 "name": "p1_process_block_legal",
 "props": ["C02", "C05"],
 "level": "U/iter",
 "tier": "quick",
 "tier_after_hooks": "quick",
 "harness": "h_pb_legal",
 "loop_contracts": true,
 "includes": ["e2fsck", "lib/support"],
 "sources": ["lib/ext2fs/blknum.c"],
 "unwind": 6,
 "unwind_reason": "as p1_process_block_illegal_detect",
 "functions": ["e2fsck/pass1.c:process_block", "e2fsck/pass1.c:mark_block_used", "e2fsck/pass1.c:has_unaligned_cluster_map"],
 "assumes": ["as p1_process_block_illegal_detect, answers arbitrary; the reference is in range and none of the size-limit problems applies (directory below 2^(21-log_block_size) blocks unless largedir / i_size_high, file below max_blocks, a non-file non-directory has only logical block 0)",
	     "the 'critical metadata collision' part of the statement (an indirect block on fixed metadata is announced and, unless -n, a restart is scheduled) is stated for filesystems below 2^32 blocks: process_block guards the metadata-map query with the LOW 32 bits of the block count (see unit p1_process_block_collision_64bit, tier obs)"],
 "native": false
}
*/
/* VERIF-UNIT
{
 "name": "p1_process_block_collision_64bit",
 "props": ["C02"],
 "level": "U/iter",
 "tier": "obs",
 "harness": "h_pb_legal",
 "defines": ["PB_OBS_64BIT"],
 "loop_contracts": true,
 "includes": ["e2fsck", "lib/support"],
 "sources": ["lib/ext2fs/blknum.c"],
 "unwind": 6,
 "unwind_reason": "as p1_process_block_illegal_detect",
 "functions": ["e2fsck/pass1.c:process_block"],
 "assumes": ["observation, stronger than C02 needs (the block still ends up in block_dup_map and is reported by pass 1B): on a filesystem with 2^32 or more blocks an indirect block whose number is >= (blocks count mod 2^32) is not tested against block_metadata_map (`blk < ctx->fs->super->s_blocks_count` compares with the low word only), so PR_1_CRITICAL_METADATA_COLLISION / E2F_FLAG_RESTART_LATER are skipped; scan_extent_node has the same comparison. FAILS on the tree by design"],
 "native": false
}
*/
/* VERIF-UNIT
{
 "name": "p1_process_bad_block_range",
 "props": ["C02", "C01"],
 "level": "U/iter",
 "tier": "quick",
 "harness": "h_bb",
 "includes": ["e2fsck", "lib/support"],
 "sources": ["lib/ext2fs/blknum.c"],
 "unwind": 6,
 "unwind_reason": "the part of process_bad_block under test is loop-free: the harness excludes the one situation that enters the per-group search loop (a bad DATA block that is already in block_found_map, i.e. a bad block overlapping filesystem metadata), so the loop is unreachable (unwinding assertion checked)",
 "functions": ["e2fsck/pass1.c:process_bad_block"],
 "assumes": ["ONE call of the block-iterate callback for the bad-block inode (ino 1), arbitrary reference and answers; bitmaps as in p1_process_block_illegal_detect plus the fs_meta_blocks map (one more ghost cell)",
	     "not covered: a bad data block that is already marked in block_found_map (the search over all groups for the metadata it hits)"],
 "native": false
}
*/
/*
 * e2fsck/pass1.c:process_block — the block-iterate callback of check_blocks (block-mapped files), one call.
 *
 * Statement (C02: "every referenced block is in range, outside fixed metadata and has a single owner", mechanism
 * "pass 1 ... every block it maps, recording owners in block_found_map / block_dup_map"):
 *   out of [s_first_data_block, blocks count)  => PR_1_ILLEGAL_BLOCK_NUM (no PR_NO_OK) is raised, the block is NOT
 *       recorded in any bitmap nor counted; accepted => the reference is cleared (*block_nr = 0, BLOCK_CHANGED so that
 *       the iterator writes it back, inode_modified) or the whole inode is scheduled for clearing (PR_1_TOO_MANY_BAD_BLOCKS);
 *   in range => recorded exactly once through mark_block_used (so a block already owned — fixed metadata marked by
 *       mark_table_blocks, or another file's block — lands in block_dup_map and is reported by pass 1B) and counted
 *       once in num_blocks; with clusters (bigalloc), a block in the same physical cluster as the file's previous block
 *       and at the matching offset is part of an already recorded cluster: neither recorded nor counted again;
 *       nothing is modified; no other cluster's membership changes.
 */
struct in_pb {
	unsigned long long blk;			/* *block_nr */
	long long blockcnt;
	unsigned long long ref_block;
	int ref_offset;
	unsigned long long k;			/* ghost: an arbitrary other cluster */
	unsigned int ino;
	unsigned char is_dir, is_reg, suppress, bigalloc, clear;
	unsigned long long num_blocks, max_blocks, last_block, previous_block;
	long long last_db_block;
	int num_illegal_blocks;
	unsigned int first_data_block;
	unsigned long long blocks_count;
	unsigned int log_block_size, incompat, ro_compat, i_size_high, options, ctxflags;
	unsigned char b_found, b_dup, k_found, k_dup, b_meta, ref_meta, b_fsmeta;
	unsigned char have_dup_map, alloc_fails;
	unsigned char adb_err[4];
	unsigned char mode;
	unsigned char choice[8];
};
struct in_pb IN;
#include "verif_in.h"
#include "p1_pre.h"

/* ghost registers the stubs called inside the cut loop write */
unsigned int pb_adb_calls, pb_adb_fail;

/* named anchor: the hole-filling loop `while (++p->last_db_block < blockcnt)` — dblist bookkeeping; frame only */
#define VERIF_INV_PASS1_PROCESS_BLOCK_HOLES \
	__CPROVER_assigns(p->last_db_block, pctx->errcode, pctx->blk, pctx->num, pb_adb_calls, pb_adb_fail) \
	__CPROVER_loop_invariant(pb_adb_fail == 0)	/* a failed add leaves the loop at once */ \
	__CPROVER_loop_invariant(p->last_db_block < 0x7fffffffffffffffLL)

#include "p1_common.h"

static char pb_found_tag, pb_dup_tag, pb_meta_tag, pb_dblist_tag, pb_fsmeta_tag;
unsigned char pb_in[2][2];	/* [map: 0 found, 1 dup][cell: 0 = cluster of blk, 1 = cluster k] */
unsigned int pb_marks, pb_alloc_calls, pb_meta_tests, pb_latch_calls;
unsigned char pb_stray;
unsigned int pb_bits;		/* cluster_ratio_bits */

static int pb_cell(unsigned long long arg)
{
	if ((arg >> pb_bits) == (IN.blk >> pb_bits)) return 0;
	if ((arg >> pb_bits) == IN.k) return 1;
	pb_stray = 1;		/* no third cluster may be touched */
	return 1;
}
int ext2fs_test_generic_bmap(ext2fs_generic_bitmap bitmap, __u64 arg)
{
	if ((void *) bitmap == (void *) &pb_meta_tag) {
		pb_meta_tests++;
		if (arg == IN.blk) return IN.b_meta & 1;
		if (arg == IN.ref_block) return IN.ref_meta & 1;
		pb_stray = 1;
		return 0;
	}
	if ((void *) bitmap == (void *) &pb_fsmeta_tag) {
		if (arg != IN.blk) pb_stray = 1;
		return IN.b_fsmeta & 1;
	}
	if ((void *) bitmap == (void *) &pb_found_tag) return pb_in[0][pb_cell(arg)];
	if ((void *) bitmap == (void *) &pb_dup_tag) return pb_in[1][pb_cell(arg)];
	pb_stray = 1;
	return 0;
}
int ext2fs_mark_generic_bmap(ext2fs_generic_bitmap bitmap, __u64 arg)
{
	int m, c, old;

	if ((void *) bitmap == (void *) &pb_found_tag) m = 0;
	else if ((void *) bitmap == (void *) &pb_dup_tag) m = 1;
	else { pb_stray = 1; return 0; }
	c = pb_cell(arg);
	old = pb_in[m][c];
	pb_marks++;
	pb_in[m][c] = 1;
	if ((IN.blk >> pb_bits) == IN.k)
		pb_in[m][1 - c] = 1;
	return old;
}
errcode_t e2fsck_allocate_block_bitmap(ext2_filsys fs, const char *descr, int default_type, const char *profile_name,
				       ext2fs_block_bitmap *ret)
{
	(void) fs; (void) descr; (void) default_type; (void) profile_name;
	pb_alloc_calls++;
	if (IN.alloc_fails)
		return EXT2_ET_NO_MEMORY;
	*ret = (ext2fs_block_bitmap) &pb_dup_tag;
	return 0;
}
errcode_t ext2fs_add_dir_block2(ext2_dblist dblist, ext2_ino_t ino, blk64_t blk, e2_blkcnt_t blockcnt)
{
	(void) dblist; (void) ino; (void) blk; (void) blockcnt;
	pb_adb_calls++;
	if (IN.adb_err[pb_adb_calls & 3]) {
		pb_adb_fail = 1;
		return EXT2_ET_NO_MEMORY;
	}
	return 0;
}
int set_latch_flags(int mask, int setflags, int clearflags)
{
	(void) mask; (void) setflags; (void) clearflags;
	pb_latch_calls++;
	return 0;
}

struct pb_world {
	e2fsck_t ctx;
	ext2_filsys fs;
	struct ext2_super_block *sb;
	struct ext2_inode *inode;
	struct problem_context pctx;
	struct process_block_struct p;
	blk64_t block_nr;
};

static void pb_setup(struct pb_world *w, int mode)
{
	w->ctx = malloc(sizeof(*w->ctx));
	w->fs = malloc(sizeof(*w->fs));
	w->sb = malloc(sizeof(*w->sb));
	w->inode = malloc(128);
	ASSUME(w->ctx && w->fs && w->sb && w->inode);
	memset(w->sb, 0, sizeof(*w->sb));
	memset(w->inode, 0, 128);
	w->inode->i_size_high = IN.i_size_high;
	w->ctx->fs = w->fs;
	w->ctx->options = IN.options & ~E2F_OPT_FRAGCHECK;	/* fragcheck only prints */
	if (mode == P1_NO) w->ctx->options |= E2F_OPT_NO; else w->ctx->options &= ~E2F_OPT_NO;
	w->ctx->flags = IN.ctxflags;
	w->ctx->block_found_map = (ext2fs_block_bitmap) &pb_found_tag;
	w->ctx->block_metadata_map = (ext2fs_block_bitmap) &pb_meta_tag;
	w->ctx->block_dup_map = IN.have_dup_map ? (ext2fs_block_bitmap) &pb_dup_tag : 0;
	w->fs->super = w->sb;
	w->fs->dblist = (ext2_dblist) &pb_dblist_tag;
	if (IN.bigalloc) { w->fs->cluster_ratio_bits = 4; pb_bits = 4; } else { w->fs->cluster_ratio_bits = 0; pb_bits = 0; }
	ASSUME(IN.log_block_size <= 6);
	w->sb->s_log_block_size = IN.log_block_size;
	w->sb->s_first_data_block = IN.first_data_block;
	w->sb->s_blocks_count = (unsigned int) IN.blocks_count;
	w->sb->s_blocks_count_hi = (unsigned int) (IN.blocks_count >> 32);
	w->sb->s_feature_incompat = IN.incompat | EXT4_FEATURE_INCOMPAT_64BIT;
	w->sb->s_feature_ro_compat = IN.ro_compat;
	memset(&w->pctx, 0, sizeof(w->pctx));
	w->pctx.ino = IN.ino;
	w->pctx.inode = w->inode;
	memset(&w->p, 0, sizeof(w->p));
	w->p.ino = IN.ino;
	w->p.is_dir = IN.is_dir & 1;
	w->p.is_reg = IN.is_reg & 1;
	w->p.suppress = IN.suppress & 1;
	w->p.clear = IN.clear & 1;
	w->p.num_blocks = IN.num_blocks;
	w->p.max_blocks = IN.max_blocks;
	w->p.last_block = IN.last_block;
	w->p.previous_block = IN.previous_block;
	w->p.last_db_block = IN.last_db_block;
	w->p.num_illegal_blocks = IN.num_illegal_blocks;
	w->p.inode = w->inode;
	w->p.pctx = &w->pctx;
	w->p.ctx = w->ctx;
	w->p.fs_meta_blocks = (ext2fs_block_bitmap) &pb_fsmeta_tag;
	w->block_nr = IN.blk;
	ASSUME(!(IN.is_dir & 1) || !(IN.is_reg & 1));
	ASSUME(IN.num_illegal_blocks >= 0 && IN.num_illegal_blocks < 0x7ffffffe);
	ASSUME(IN.num_blocks < (1ULL << 62));
	ASSUME(IN.last_db_block >= -1 && IN.last_db_block < (1LL << 62));	/* check_blocks starts at -1; it follows blockcnt */
	ASSUME(IN.ino != EXT2_RESIZE_INO);
	ASSUME(!(IN.clear & 1));	/* check_blocks starts with clear = 0; once set the walk is aborted */
	pb_in[0][0] = IN.b_found & 1; pb_in[1][0] = IN.b_dup & 1;
	pb_in[0][1] = IN.k_found & 1; pb_in[1][1] = IN.k_dup & 1;
	if ((IN.blk >> pb_bits) == IN.k) { pb_in[0][1] = pb_in[0][0]; pb_in[1][1] = pb_in[1][0]; }
	ASSUME(IN.have_dup_map || (!pb_in[1][0] && !pb_in[1][1]));
	pb_marks = pb_alloc_calls = pb_meta_tests = pb_latch_calls = pb_adb_calls = pb_adb_fail = 0;
	pb_stray = 0;
	p1_ghost_reset(mode);
}

/* the size-limit problems of process_block, restated: a directory beyond 2^(21 - log_block_size) blocks (unless
 * largedir or a 64-bit size), a file or directory at its i_blocks limit, a symlink / special file with more than
 * logical block 0 */
static int pb_toobig(void)
{
	int dir = IN.is_dir & 1, reg = IN.is_reg & 1;

	if (dir && !(IN.incompat & EXT4_FEATURE_INCOMPAT_LARGEDIR) && !IN.i_size_high &&
	    IN.blockcnt > (1LL << (21 - IN.log_block_size)))
		return 1;
	if ((dir || reg) && IN.num_blocks + 1 >= IN.max_blocks)
		return 1;
	if (!dir && !reg && IN.blockcnt > 0)
		return 1;
	return 0;
}

#define PB_IN_RANGE() P1F_BLOCK_IN_RANGE(IN.blk, IN.first_data_block, IN.blocks_count)
#define PB_REF_ON_META() (IN.ref_block != 0 && (IN.ref_meta & 1))
#define PB_UNTOUCHED_MAPS() \
	(pb_marks == 0 && pb_in[0][0] == (IN.b_found & 1) && pb_in[1][0] == (IN.b_dup & 1) && \
	 pb_in[0][1] == ((IN.blk >> pb_bits) == IN.k ? (IN.b_found & 1) : (IN.k_found & 1)) && \
	 pb_in[1][1] == ((IN.blk >> pb_bits) == IN.k ? (IN.b_dup & 1) : (IN.k_dup & 1)))

/* C02 */
void h_pb_detect(void)
{
	struct pb_world w;
	int r;

	LOAD_IN();
	pb_setup(&w, P1_NO);
	ASSUME(IN.blk != 0 && !PB_IN_RANGE());
	if (IN.ref_block == IN.blk) ASSUME((IN.ref_meta & 1) == (IN.b_meta & 1));

	r = process_block(w.fs, &w.block_nr, IN.blockcnt, IN.ref_block, IN.ref_offset, &w.p);
	if (PB_REF_ON_META()) {
		REACH("referencing indirect block sits on critical metadata");
		CHECK(w.block_nr == 0 && r == 0, "in-core reference zeroed, nothing written back");
	} else {
		REACH("ordinary illegal reference");
		CHECK(p1_logged(PR_1_ILLEGAL_BLOCK_NUM) && p1_nserious >= 1,
		      "a block number outside [s_first_data_block, blocks count) raises PR_1_ILLEGAL_BLOCK_NUM, which counts for the exit status");
		CHECK(r == 0 && w.block_nr == IN.blk && !w.p.inode_modified, "declined: the reference is left alone");
	}
	CHECK(PB_UNTOUCHED_MAPS() && !pb_stray, "an illegal block number is not recorded in any bitmap");
	CHECK(w.p.num_blocks == IN.num_blocks, "an illegal block is not counted");
	CHECK(w.p.num_illegal_blocks == IN.num_illegal_blocks + 1, "it is counted as illegal");
	REACH("end");
}

/* C01 */
void h_pb_repair(void)
{
	struct pb_world w;
	int r, r2;

	LOAD_IN();
	pb_setup(&w, P1_YES);
	ASSUME(IN.blk != 0 && (!PB_IN_RANGE() || pb_toobig()));
	if (IN.ref_block == IN.blk) ASSUME((IN.ref_meta & 1) == (IN.b_meta & 1));
	ASSUME(!PB_REF_ON_META());

	r = process_block(w.fs, &w.block_nr, IN.blockcnt, IN.ref_block, IN.ref_offset, &w.p);
	if (w.p.clear && !(IN.clear & 1)) {
		REACH("too many illegal blocks: inode scheduled for clearing");
		CHECK(r == BLOCK_ABORT && p1_logged(PR_1_TOO_MANY_BAD_BLOCKS), "the walk is aborted, check_blocks clears the inode");
		CHECK(w.block_nr == IN.blk, "the reference itself is left to the wholesale clear");
	} else {
		REACH("reference cleared");
		CHECK(p1_logged(!PB_IN_RANGE() ? PR_1_ILLEGAL_BLOCK_NUM :
				((IN.is_dir & 1) ? PR_1_TOOBIG_DIR : (IN.is_reg & 1) ? PR_1_TOOBIG_REG : PR_1_TOOBIG_SYMLINK)),
		      "the problem is raised");
		CHECK(w.block_nr == 0, "accepted: the reference is cleared");
		CHECK((r & BLOCK_CHANGED) || (r & BLOCK_ABORT), "accepted: the iterator is told to write the change back (or the run aborts)");
		CHECK(!(r & BLOCK_CHANGED) || w.p.inode_modified, "the inode is flagged as modified");
	}
	CHECK(PB_UNTOUCHED_MAPS() && !pb_stray, "a cleared reference is not recorded in any bitmap");
	CHECK(w.p.num_blocks == IN.num_blocks, "nor counted");

	if (w.block_nr == 0) {
		/* second visit of the repaired reference */
		unsigned int adb = pb_adb_fail;

		p1_clear_log();
		p1_mode = P1_CHOICE;
		r2 = process_block(w.fs, &w.block_nr, IN.blockcnt, IN.ref_block, IN.ref_offset, &w.p);
		CHECK(p1_nlog == 0 || (pb_adb_fail && p1_nlog == 1 && p1_log[0] == PR_1_ADD_DBLOCK),
		      "second visit: nothing raised (short of an allocation failure of the directory block list)");
		CHECK(w.block_nr == 0 && !(r2 & BLOCK_CHANGED), "second visit: reference stays cleared, nothing to write");
		CHECK(PB_UNTOUCHED_MAPS(), "second visit: no bitmap touched");
		(void) adb;
	}
	REACH("end");
}

/* a hole / a cleared reference */
void h_pb_zero(void)
{
	struct pb_world w;
	int r;

	LOAD_IN();
	pb_setup(&w, P1_CHOICE);
	ASSUME(IN.blk == 0);

	r = process_block(w.fs, &w.block_nr, IN.blockcnt, IN.ref_block, IN.ref_offset, &w.p);
	CHECK(p1_nlog == 0 || (pb_adb_fail && p1_nlog == 1 && p1_log[0] == PR_1_ADD_DBLOCK),
	      "a zero reference raises nothing (short of an allocation failure of the directory block list)");
	CHECK(w.block_nr == 0 && !(r & BLOCK_CHANGED), "it stays zero, nothing to write");
	CHECK(r == 0 || (pb_adb_fail && r == BLOCK_ABORT && (w.ctx->flags & E2F_FLAG_ABORT)), "result 0, or abort on allocation failure");
	CHECK(PB_UNTOUCHED_MAPS() && !pb_stray && pb_meta_tests == 0, "no bitmap is touched or consulted");
	CHECK(w.p.num_blocks == IN.num_blocks && w.p.num_illegal_blocks == IN.num_illegal_blocks, "nothing is counted");
	if ((IN.is_dir & 1) && IN.blockcnt == 0) REACH("logical block 0 of a directory is queued even when unmapped");
	REACH("end");
}

/* C02 + C05 */
void h_pb_legal(void)
{
	struct pb_world w;
	int r, same, second, sharing_ok, collide;
	unsigned long long mask;

	LOAD_IN();
	pb_setup(&w, P1_CHOICE);
	ASSUME(IN.blk != 0 && PB_IN_RANGE() && !pb_toobig());
	if (IN.ref_block == IN.blk) ASSUME((IN.ref_meta & 1) == (IN.b_meta & 1));
#ifndef PB_OBS_64BIT
	ASSUME(IN.blocks_count < (1ULL << 32));
#endif
	mask = (1ULL << pb_bits) - 1;
	/* cluster rule, from the bigalloc format: a cluster is the unit of allocation; the blocks of one file inside one
	 * cluster sit at their natural offsets and the cluster counts once */
	same = pb_bits != 0 && IN.previous_block != 0 && (IN.blk >> pb_bits) == (IN.previous_block >> pb_bits) &&
	       (IN.blk & mask) == ((unsigned long long) IN.blockcnt & mask);
	second = IN.b_found & 1;
	sharing_ok = (IN.ro_compat & EXT4_FEATURE_RO_COMPAT_SHARED_BLOCKS) && !(IN.options & E2F_OPT_UNSHARE_BLOCKS);
	collide = IN.blockcnt < 0 && (IN.b_meta & 1);

	r = process_block(w.fs, &w.block_nr, IN.blockcnt, IN.ref_block, IN.ref_offset, &w.p);

	CHECK(w.block_nr == IN.blk && !(r & BLOCK_CHANGED) && !w.p.inode_modified, "a legal reference is never modified");
	CHECK(!pb_stray, "only the three pass-1 maps and only the cluster of the block are touched");
	CHECK(w.p.num_illegal_blocks == IN.num_illegal_blocks, "not counted as illegal");
	/* problems */
	CHECK(p1_nserious == (unsigned) (collide ? 1 : 0) + ((second && !sharing_ok && !same && !IN.have_dup_map && IN.alloc_fails) ? 1 : 0) +
			     (pb_adb_fail ? 1 : 0) || p1_nlog > P1_LOGMAX,
	      "no problem is raised for a legal reference (except: collision notice, allocation failures)");
	CHECK(p1_logged(PR_1_CRITICAL_METADATA_COLLISION) == collide,
	      "an indirect block sitting on fixed metadata is announced, and only then");
	if (collide) {
		REACH("indirect block on fixed metadata");
		CHECK(w.ctx->flags & E2F_FLAG_RESTART_LATER, "collision: a restart is scheduled (the harness runs without -n)");
	}
	/* recording */
	if (!same) {
		REACH("recorded");
		CHECK(pb_in[0][0], "the block's cluster is in block_found_map afterwards");
		CHECK(w.p.num_blocks == IN.num_blocks + 1, "counted exactly once");
		if (second && !sharing_ok) {
			REACH("second claim (e.g. fixed metadata marked by mark_table_blocks, or another owner)");
			CHECK(pb_in[1][0] || (!IN.have_dup_map && IN.alloc_fails && (w.ctx->flags & E2F_FLAG_ABORT)),
			      "a block that already has an owner lands in block_dup_map (pass 1B reports it)");
		} else {
			CHECK(pb_in[1][0] == (IN.b_dup & 1), "first claim: block_dup_map untouched");
		}
		CHECK(pb_marks == 1 || (pb_marks == 0 && second), "exactly one bit is set (none for legal sharing / failed allocation)");
	} else {
		REACH("same cluster as the previous block");
		CHECK(pb_marks == 0 && w.p.num_blocks == IN.num_blocks, "already recorded and counted with the previous block");
	}
	if ((IN.blk >> pb_bits) != IN.k) {
		REACH("other cluster");
		CHECK(pb_in[0][1] == (IN.k_found & 1) && pb_in[1][1] == (IN.k_dup & 1), "no other cluster's membership changes");
	}
	CHECK(r == 0 || (pb_adb_fail && r == BLOCK_ABORT), "result 0 (abort only when the directory block list cannot grow)");
	REACH("end");
}

/* ================= process_bad_block (the bad-block inode) ================= */
void h_bb(void)
{
	struct pb_world w;
	int r, second, sharing_ok;
	unsigned int bbc0;

	LOAD_IN();
	pb_setup(&w, P1_CHOICE);
	w.p.ino = EXT2_BAD_INO;
	w.ctx->fs_badblocks_count = 7;
	bbc0 = w.ctx->fs_badblocks_count;
	/* not covered: a bad data block already in block_found_map (search loop over the groups) */
	ASSUME(!(IN.blk != 0 && PB_IN_RANGE() && IN.blockcnt >= 0 && (IN.b_found & 1)));
	second = IN.b_found & 1;
	sharing_ok = (IN.ro_compat & EXT4_FEATURE_RO_COMPAT_SHARED_BLOCKS) && !(IN.options & E2F_OPT_UNSHARE_BLOCKS);

	r = process_bad_block(w.fs, &w.block_nr, IN.blockcnt, IN.ref_block, IN.ref_offset, &w.p);

	CHECK(!pb_stray, "only the cluster of the block is looked at");
	if (IN.blk == 0) {
		REACH("hole");
		CHECK(r == 0 && w.block_nr == 0 && p1_nlog == 0 && PB_UNTOUCHED_MAPS(), "a zero reference: nothing happens");
	} else if (!PB_IN_RANGE()) {
		REACH("out of range");
		CHECK(p1_nlog == 1 && p1_log[0] == PR_1_BB_ILLEGAL_BLOCK_NUM && p1_nserious == 1,
		      "an out-of-range entry of the bad-block list raises PR_1_BB_ILLEGAL_BLOCK_NUM (counts for the exit status)");
		CHECK((IN.choice[0] & 1) ? (w.block_nr == 0 && r == BLOCK_CHANGED) : (w.block_nr == IN.blk && r == 0),
		      "accepted: the entry is cleared and written back; declined: left alone");
		CHECK(PB_UNTOUCHED_MAPS() && w.ctx->fs_badblocks_count == bbc0, "it is neither recorded nor counted as a bad block");
	} else if (IN.blockcnt < 0) {
		REACH("indirect block of the bad-block inode");
		if (IN.b_fsmeta & 1) {
			CHECK(p1_nlog == 1 && p1_log[0] == PR_1_BB_FS_BLOCK && w.p.bbcheck, "it sits on filesystem metadata: raised, list flagged for re-check");
			CHECK((IN.choice[0] & 1) ? (w.block_nr == 0 && r == BLOCK_CHANGED) : (w.block_nr == IN.blk && r == 0), "accepted: cleared");
			CHECK(PB_UNTOUCHED_MAPS(), "not recorded");
		} else if (second) {
			CHECK(p1_nlog == 1 && p1_log[0] == PR_1_BBINODE_BAD_METABLOCK && w.p.bbcheck, "it is claimed already: raised");
			CHECK(PB_UNTOUCHED_MAPS(), "not recorded a second time");
		} else {
			CHECK(p1_nlog == 0 && r == 0 && w.block_nr == IN.blk, "a free in-range block: accepted silently");
			CHECK(pb_in[0][0] == 1 && pb_marks == 1 && pb_in[1][0] == (IN.b_dup & 1), "recorded as used exactly once");
		}
	} else {
		REACH("bad data block, not yet claimed");
		CHECK(p1_nlog == 0 && r == 0 && w.block_nr == IN.blk, "nothing raised, reference kept");
		CHECK(pb_in[0][0] == 1 && pb_marks == 1 && pb_in[1][0] == (IN.b_dup & 1), "recorded as used exactly once (so that no file can own it unnoticed)");
		CHECK(w.ctx->fs_badblocks_count == bbc0 + 1, "counted as a bad block");
	}
	if ((IN.blk >> pb_bits) != IN.k)
		CHECK(pb_in[0][1] == (IN.k_found & 1) && pb_in[1][1] == (IN.k_dup & 1), "no other cluster's membership changes");
	(void) sharing_ok;
	REACH("end");
}
